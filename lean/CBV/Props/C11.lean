/-
C11 — property theorems: predefined shapes give conformal, fully choppable blockings.

Part A (all blockings): the model's `Mesh.write` succeeds exactly when every block axis is reachable
  from a chopped axis through shared wires; the closure never runs out of fuel.
Part B (tables regenerated from the source on every run, `decide`): every sketch class and every probe
  shape is fully choppable by its documented chop calls, calls never collide in a wire family, quad maps
  are conformal and consistently oriented, lofting the quad map gives the blocking `Mesh.assemble` builds.
Part C (all sizes): rings with any number of segments, stacks with any number of tiers, the interface of
  consecutive tiers (chained shapes at index level).
Part D (geometry): the corner Jacobians used by the handedness validator are invariant under
  translations and scale with the determinant under linear maps (positive for rotations and scalings).
-/
import CBV.Lemmas.C11Chain
import CBV.Lemmas.C11Geom
import CBV.Lemmas.C11Loft
import CBV.Lemmas.C11Distinct
import CBV.Lemmas.C11Oval
import CBV.Lemmas.C11Rev
import CBV.Lemmas.C11RevDisk
import CBV.Lemmas.C11RevWrap
import CBV.Lemmas.C11RevOval
import Mathlib.Analysis.Real.Sqrt
import Mathlib.Tactic.NormNum
import Mathlib.Tactic.Ring
import Mathlib.Tactic.Linarith
import Mathlib.Algebra.Order.Field.Rat
import CBV.Gen.TC11

namespace CBV.C11

/-! ## Part A — write succeeds iff every axis is reachable from a chopped one -/

/-- the propagation always terminates within its fuel and defines exactly the reachable axes -/
theorem T_C11_defined_iff_reachable (B : Blocking) (chops : List Nat) :
    ∃ d, closure B chops = some d ∧ ∀ n, n ∈ d ↔ Reach (wireTable B) chops n := by
  have hs := closureT_isSome (wireTable B) chops
  unfold closure
  cases h : closureT (wireTable B) chops with
  | none => simp [h] at hs
  | some d =>
    exact ⟨d, rfl, fun n => ⟨closureT_sound _ _ _ h n, closureT_complete _ _ _ h n⟩⟩

/-- `Mesh.write` (as modelled) succeeds iff every axis of every block is chopped or connected to a
    chopped axis by a chain of shared wires -/
theorem T_C11_write_ok_iff (B : Blocking) (chops : List Nat) :
    writeOk B chops = true ↔ ∀ n, n < 3 * B.length → Reach (wireTable B) chops n := by
  obtain ⟨d, hd, hr⟩ := T_C11_defined_iff_reachable B chops
  unfold writeOk writeResult
  rw [hd]
  simp only
  constructor
  · intro h n hn
    split at h
    · rename_i hu
      split at hu
      · rename_i hnil
        exact (hr n).mp ((undefinedBlocks_nil_iff B d).mp hnil n hn)
      · cases hu
    · cases h
  · intro h
    have hnil : undefinedBlocks B d = [] := (undefinedBlocks_nil_iff B d).mpr (fun n hn => (hr n).mpr (h n hn))
    simp [hnil]

/-- when two chopped axes are `separated`, neither is reachable from the other alone -/
theorem T_C11_separated (B : Blocking) (chops : List Nat) (h : separated B chops = true) :
    ∀ s ∈ chops, ∀ t ∈ chops, t ≠ s → ¬ Reach (wireTable B) [s] t := by
  intro s hs t ht hne hreach
  unfold separated separatedT at h
  rw [List.all_eq_true] at h
  have h1 := h s hs
  split at h1
  · rename_i d hd
    rw [List.all_eq_true] at h1
    have h2 := h1 t ht
    have hmem : t ∈ d := closureT_complete _ _ _ hd t hreach
    have : memN t d = true := memN_iff.mpr hmem
    simp only [this, Bool.not_true, Bool.or_false] at h2
    exact hne (Nat.eq_of_beq_eq_true h2)
  · cases h1

/-! ## Part B — the generated tables -/

/-- the sketch classes the table covers (a class that disappears from the table is noticed here) -/
theorem T_C11_sketch_table :
    CBV.Gen.c11Sketches.map (·.1) =
      ["OneCoreDisk", "QuarterDisk", "HalfDisk", "FourCoreDisk", "WrappedDisk", "Oval", "QuarterSplineDisk",
        "HalfSplineDisk", "SplineDisk", "QuarterSplineRing", "HalfSplineRing", "SplineRing"] := by decide

/-- per sketch class (`sketchChoppable`): on the shape lofted from the quad map, the documented calls
    `chop(0)`, `chop(1)`, `chop(2)` (evaluated through `Sketch.chops`) reach every axis of every block
    (`writeOk`), and no two chopped axes lie in one wire family (`separated`) -/
theorem T_C11_choppable_OneCoreDisk : sketchNamed "OneCoreDisk" sketchChoppable = true := by decide +kernel
theorem T_C11_choppable_QuarterDisk : sketchNamed "QuarterDisk" sketchChoppable = true := by decide +kernel
theorem T_C11_choppable_HalfDisk : sketchNamed "HalfDisk" sketchChoppable = true := by decide +kernel
theorem T_C11_choppable_FourCoreDisk : sketchNamed "FourCoreDisk" sketchChoppable = true := by decide +kernel
theorem T_C11_choppable_WrappedDisk : sketchNamed "WrappedDisk" sketchChoppable = true := by decide +kernel
theorem T_C11_choppable_Oval : sketchNamed "Oval" sketchChoppable = true := by decide +kernel
theorem T_C11_choppable_QuarterSplineDisk : sketchNamed "QuarterSplineDisk" sketchChoppable = true := by
  decide +kernel
theorem T_C11_choppable_HalfSplineDisk : sketchNamed "HalfSplineDisk" sketchChoppable = true := by decide +kernel
theorem T_C11_choppable_SplineDisk : sketchNamed "SplineDisk" sketchChoppable = true := by decide +kernel
theorem T_C11_choppable_QuarterSplineRing : sketchNamed "QuarterSplineRing" sketchChoppable = true := by
  decide +kernel
theorem T_C11_choppable_HalfSplineRing : sketchNamed "HalfSplineRing" sketchChoppable = true := by decide +kernel
theorem T_C11_choppable_SplineRing : sketchNamed "SplineRing" sketchChoppable = true := by decide +kernel

/-- the same for whatever the table holds now (also classes added later) -/
theorem T_C11_choppable_sketches : ∀ e ∈ CBV.Gen.c11Sketches, sketchChoppable e = true := by decide +kernel

/-- quad maps (`sketchConformal`): four different points per quad; two quads share nothing, one point, or
    one edge which they traverse in opposite directions (so one right-handed block makes all of them
    right-handed); every point index is used (expected vertex count of a tier) -/
theorem T_C11_conformal_sketches : ∀ e ∈ CBV.Gen.c11Sketches, sketchConformal e = true := by decide +kernel

/-- lofting the quad map in grid order reproduces, vertex number by vertex number, the blocking
    `Mesh.assemble` builds for the extruded probe and the two-tier stack, and `Sketch.chops` evaluates to
    the (operation, axis) pairs the calls really chop -/
theorem T_C11_loft_matches_probes : ∀ e ∈ CBV.Gen.c11Sketches, sketchMatchesProbes e = true := by decide +kernel

/-- every probe shape of the table (Cylinder, SemiCylinder, Frustum, Elbow, Hemisphere, Extruded/Revolved
    rings with 3..12 segments, L/T/N joints with 2..6 branches, extruded sketches, stacks): the documented
    chop calls reach every axis (`writeOk`) and no wire family receives chops from two different calls -/
theorem T_C11_choppable_shapes : ∀ s ∈ CBV.Gen.c11Shapes, shapeChoppable s = true := by decide +kernel

/-- the round shapes and rings chop every family exactly once (Hemisphere and the joints chop some
    families twice within one call, with the same arguments, on congruent blocks) -/
theorem T_C11_once_shapes :
    ∀ name ∈ onceShapes, shapeNamed name (fun s => separated s.2.1 (dispNodes s.2.2)) = true := by
  decide +kernel

/-- the ring hand model `ringQuads` / `ringChopNodes` gives blocking and chop dispatch of the
    `ExtrudedRing` probes (a test of the hand model against the source, for the sizes in the table) -/
theorem T_C11_ring_model_matches_probes : ∀ n ∈ [3, 4, 5, 6, 8, 12], ringMatchesProbe n = true := by decide +kernel

/-- the grid hand model `gridQuads` gives the blocking of the `ExtrudedStack(Grid(n, m), k)` probes -/
theorem T_C11_grid_model_matches_probes :
    ∀ g ∈ CBV.Gen.c11GridProbes, canon (stackBlocks (gridQuads g.1 g.2.1) g.2.2.1) = g.2.2.2 := by decide +kernel

/-! ## Part C — all sizes -/

/-- a ring (`Annulus` lofted, any number of segments `n`): `chop_axial` (operation 0), `chop_radial`
    (`shell[0]`) and `chop_tangential` (every operation) reach every axis of every block -/
theorem T_C11_ring (n : Nat) : writeOk (stackBlocks (ringQuads n) 1) (ringChopNodes n) = true := by
  rw [T_C11_write_ok_iff, ring_length]
  have hlen := ring_length n
  have hT : (wireTable (stackBlocks (ringQuads n) 1)).length = 3 * n := by rw [wireTable_length, hlen]
  have hrad : ∀ i, i < n → Reach (wireTable (stackBlocks (ringQuads n) 1)) (ringChopNodes n) (3 * i) := by
    intro i
    induction i with
    | zero => intro h; exact Reach.seed (by simp [ringChopNodes]) (by omega)
    | succ i ih =>
      intro h
      have hadj := adj_of_sharesEdge (stackBlocks (ringQuads n) 1) i (i + 1) 0 0 (by omega) (by omega) (by omega)
        (by omega) (ring_radial_shared n i h)
      exact Reach.step (ih (by omega)) hadj (by omega)
  have hax : ∀ i, i < n → Reach (wireTable (stackBlocks (ringQuads n) 1)) (ringChopNodes n) (3 * i + 2) := by
    intro i
    induction i with
    | zero => intro h; exact Reach.seed (by simp [ringChopNodes]) (by omega)
    | succ i ih =>
      intro h
      have hadj := adj_of_sharesEdge (stackBlocks (ringQuads n) 1) i (i + 1) 2 2 (by omega) (by omega) (by omega)
        (by omega) (ring_axial_shared n i h)
      exact Reach.step (ih (by omega)) hadj (by omega)
  have htan : ∀ i, i < n → Reach (wireTable (stackBlocks (ringQuads n) 1)) (ringChopNodes n) (3 * i + 1) := by
    intro i h
    refine Reach.seed ?_ (by omega)
    simp only [ringChopNodes, List.mem_append, List.mem_map, List.mem_range]
    exact Or.inr ⟨i, h, rfl⟩
  intro node hnode
  have hd : node = 3 * (node / 3) + node % 3 := by omega
  have hi : node / 3 < n := by omega
  have hm : node % 3 = 0 ∨ node % 3 = 1 ∨ node % 3 = 2 := by omega
  rcases hm with h | h | h <;> rw [hd, h]
  · exact hrad _ hi
  · exact htan _ hi
  · exact hax _ hi

/-- non-vacuity: a ring of 5 segments, and the same statement failing without the radial chop -/
example : writeOk (stackBlocks (ringQuads 5) 1) (ringChopNodes 5) = true := T_C11_ring 5
example : writeOk (stackBlocks (ringQuads 5) 1) ((ringChopNodes 5).erase 0) = false := by decide +kernel

/-- a stack of any number of tiers over any well-formed quad map: if the documented calls `chop(0)`,
    `chop(1)`, `chop(2)` make the single lofted shape fully choppable, then `shapes[0].chop(0)`,
    `shapes[0].chop(1)` and `Stack.chop()` make the stack of `k` tiers fully choppable -/
theorem T_C11_stack_of_tier (Q : List (List Nat)) (hw : WfQuads Q) (chops : List (List Nat))
    (h1 : writeOk (stackBlocks Q 1) (chopNodes chops) = true) (k : Nat) :
    writeOk (stackBlocks Q k) (stackChopNodes chops Q.length k) = true := by
  rw [T_C11_write_ok_iff] at h1 ⊢
  rw [stack_length] at h1 ⊢
  have hc1 : chopNodes chops = (chopNodesAxis chops 0 ++ chopNodesAxis chops 1) ++ [2] := rfl
  have hck : stackChopNodes chops Q.length k =
      (chopNodesAxis chops 0 ++ chopNodesAxis chops 1) ++ axialSeeds Q.length k := rfl
  rw [hc1] at h1
  rw [hck]
  have h01 : ∀ s ∈ chopNodesAxis chops 0 ++ chopNodesAxis chops 1, s % 3 ≠ 2 := by
    intro s hs
    rcases List.mem_append.mp hs with h | h
    · exact chopNodesAxis_mod chops 0 (by omega) s h
    · exact chopNodesAxis_mod chops 1 (by omega) s h
  intro node hnode
  by_cases hq : Q.length = 0
  · rw [hq] at hnode; omega
  · have hpos : 0 < 3 * Q.length := by omega
    have hl : node / (3 * Q.length) < k := by
      apply Nat.div_lt_of_lt_mul
      have : 3 * Q.length * k = 3 * (k * Q.length) := by
        rw [Nat.mul_assoc, Nat.mul_comm Q.length k]
      omega
    have hn : node % (3 * Q.length) < 3 * Q.length := Nat.mod_lt _ hpos
    have hr := stack_reach Q hw _ h01 k (node / (3 * Q.length)) hl (node % (3 * Q.length))
      (h1 _ (by omega))
    have e : node % (3 * Q.length) + 3 * (node / (3 * Q.length) * Q.length) = node := by
      have h := Nat.mod_add_div node (3 * Q.length)
      have : 3 * Q.length * (node / (3 * Q.length)) = 3 * (node / (3 * Q.length) * Q.length) := by
        rw [Nat.mul_assoc, Nat.mul_comm Q.length]
      omega
    rw [e] at hr
    exact hr

/-- every sketch class of the table, stacked to any number of tiers `k`, is fully choppable by
    `shapes[0].chop(0)`, `shapes[0].chop(1)`, `Stack.chop()` (Extruded / Revolved / Transformed stacks
    have this topology) -/
theorem T_C11_stack (e : SketchEntry) (he : e ∈ CBV.Gen.c11Sketches) (k : Nat) :
    writeOk (loftOf e k) (stackChopNodes e.chops e.quads.length k) = true := by
  have h1 := T_C11_choppable_sketches e he
  have h2 := T_C11_conformal_sketches e he
  unfold sketchChoppable at h1
  unfold sketchConformal at h2
  simp only [Bool.and_eq_true] at h1 h2
  exact T_C11_stack_of_tier e.quads (wf_of_conformal _ h2.1) e.chops h1.1 k

/-- non-vacuity: the hypotheses hold for a concrete class, e.g. 7 tiers of the oval sketch -/
example : sketchNamed "Oval" (fun e => writeOk (loftOf e 7) (stackChopNodes e.chops e.quads.length 7)) = true := by
  decide +kernel

/-- rings stacked to any number of tiers (`ExtrudedRing.chain` repeated): axial chop per tier;
    conditional form, the hypothesis is discharged for `2 ≤ n` below -/
theorem T_C11_ring_stack_of_wf (n k : Nat) (hn : ∀ q ∈ ringQuads n, q.length = 4 ∧ q.Nodup) :
    writeOk (stackBlocks (ringQuads n) k)
      ([0] ++ (List.range n).map (fun i => 3 * i + 1) ++ axialSeeds (ringQuads n).length k) = true := by
  rw [T_C11_write_ok_iff, stack_length]
  have h1 := T_C11_ring n
  rw [T_C11_write_ok_iff, stack_length] at h1
  have h01 : ∀ s ∈ [0] ++ (List.range n).map (fun i => 3 * i + 1), s % 3 ≠ 2 := by
    intro s hs
    simp only [List.mem_append, List.mem_singleton, List.mem_map, List.mem_range] at hs
    rcases hs with rfl | ⟨i, _, rfl⟩ <;> omega
  have hseeds : ∀ node, Reach (wireTable (stackBlocks (ringQuads n) 1)) (ringChopNodes n) node →
      Reach (wireTable (stackBlocks (ringQuads n) 1)) (([0] ++ (List.range n).map (fun i => 3 * i + 1)) ++ [2]) node := by
    intro node h
    apply reach_mono _ h
    intro x hx
    simp only [ringChopNodes, List.mem_append, List.mem_cons, List.mem_map, List.mem_range, List.not_mem_nil,
      or_false] at hx ⊢
    rcases hx with (h | h) | h
    · exact Or.inr h
    · exact Or.inl (Or.inl h)
    · exact Or.inl (Or.inr h)
  intro node hnode
  by_cases hq : (ringQuads n).length = 0
  · rw [hq] at hnode; omega
  · have hpos : 0 < 3 * (ringQuads n).length := by omega
    have hl : node / (3 * (ringQuads n).length) < k := by
      apply Nat.div_lt_of_lt_mul
      have : 3 * (ringQuads n).length * k = 3 * (k * (ringQuads n).length) := by
        rw [Nat.mul_assoc, Nat.mul_comm (ringQuads n).length k]
      omega
    have hnn : node % (3 * (ringQuads n).length) < 3 * (ringQuads n).length := Nat.mod_lt _ hpos
    have hr := stack_reach (ringQuads n) hn _ h01 k _ hl _
      (hseeds _ (h1 (node % (3 * (ringQuads n).length)) (by omega)))
    have e : node % (3 * (ringQuads n).length) + 3 * (node / (3 * (ringQuads n).length) * (ringQuads n).length) = node := by
      have h := Nat.mod_add_div node (3 * (ringQuads n).length)
      have : 3 * (ringQuads n).length * (node / (3 * (ringQuads n).length)) =
          3 * (node / (3 * (ringQuads n).length) * (ringQuads n).length) := by
        rw [Nat.mul_assoc, Nat.mul_comm (ringQuads n).length]
      omega
    rw [e] at hr
    exact hr

theorem T_C11_ring_stack (n k : Nat) (h : 2 ≤ n) :
    writeOk (stackBlocks (ringQuads n) k)
      ([0] ++ (List.range n).map (fun i => 3 * i + 1) ++ axialSeeds (ringQuads n).length k) = true :=
  T_C11_ring_stack_of_wf n k (ringQuads_wf n h)

example : ∀ q ∈ ringQuads 6, q.length = 4 ∧ q.Nodup := ringQuads_wf 6 (by omega)


/-! ### chained shapes (index level): consecutive tiers share exactly the layer between them -/

/-- a shape chained to the end sketch of a shape with the same quad map is the next tier of the stack:
    the vertices the two tiers have in common are exactly the points of the interface layer
    (all `nPoints Q` of them when every point index is used, cf. `T_C11_conformal_sketches`) … -/
theorem T_C11_chain_interface (Q : List (List Nat)) (hused : allPointsUsed Q = true) (l v : Nat) :
    (v ∈ tierVerts Q l ∧ v ∈ tierVerts Q (l + 1)) ↔
      ((l + 1) * nPoints Q ≤ v ∧ v < (l + 2) * nPoints Q) := by
  have e1 : (l + 1) * nPoints Q = l * nPoints Q + nPoints Q := Nat.succ_mul _ _
  have e2 : (l + 2) * nPoints Q = l * nPoints Q + nPoints Q + nPoints Q := by
    rw [show l + 2 = (l + 1) + 1 from rfl, Nat.succ_mul, e1]
  have e3 : (l + 1 + 1) * nPoints Q = l * nPoints Q + nPoints Q + nPoints Q := e2
  constructor
  · rintro ⟨h1, h2⟩
    obtain ⟨q, hq, i, hi, hv⟩ := mem_tierVerts.mp h1
    obtain ⟨q', hq', j, hj, hv'⟩ := mem_tierVerts.mp h2
    have hi' := point_lt_nPoints hq hi
    have hj' := point_lt_nPoints hq' hj
    rcases hv with hv | hv <;> rcases hv' with hv' | hv' <;> omega
  · rintro ⟨h1, h2⟩
    have hlt : v - (l + 1) * nPoints Q < nPoints Q := by omega
    obtain ⟨q, hq, hi⟩ := (allPointsUsed_iff Q).mp hused _ hlt
    constructor
    · exact mem_tierVerts.mpr ⟨q, hq, _, hi, Or.inr (by omega)⟩
    · exact mem_tierVerts.mpr ⟨q, hq, _, hi, Or.inl (by omega)⟩

/-- … and tiers that are not consecutive have no vertex in common -/
theorem T_C11_chain_disjoint (Q : List (List Nat)) (l l' v : Nat) (h : l + 1 < l') :
    ¬ (v ∈ tierVerts Q l ∧ v ∈ tierVerts Q l') := by
  rintro ⟨h1, h2⟩
  obtain ⟨q, hq, i, hi, hv⟩ := mem_tierVerts.mp h1
  obtain ⟨q', hq', j, hj, hv'⟩ := mem_tierVerts.mp h2
  have hi' := point_lt_nPoints hq hi
  have hj' := point_lt_nPoints hq' hj
  have e1 : (l + 1) * nPoints Q = l * nPoints Q + nPoints Q := Nat.succ_mul _ _
  have e2 : (l' + 1) * nPoints Q = l' * nPoints Q + nPoints Q := Nat.succ_mul _ _
  have hle : (l + 2) * nPoints Q ≤ l' * nPoints Q := Nat.mul_le_mul_right _ (by omega)
  have e3 : (l + 2) * nPoints Q = l * nPoints Q + nPoints Q + nPoints Q := by
    rw [show l + 2 = (l + 1) + 1 from rfl, Nat.succ_mul, e1]
  rcases hv with hv | hv <;> rcases hv' with hv' | hv' <;> omega

/-- non-vacuity: the four-core disk uses all of its 17 points; tiers 0 and 1 share the 17 points of layer 1 -/
example : sketchNamed "FourCoreDisk" (fun e => allPointsUsed e.quads && decide (nPoints e.quads = 17)) = true := by
  decide +kernel

/-- `ElementBase.transform` with a `Scaling` without origin: two faces that share a point keep sharing it
    exactly when they are scaled about the same origin (or not scaled at all) — the origin must be the
    centre remembered before the loop over the parts, not one recomputed while the parts move -/
theorem T_C11_scaling_common_origin (r : Rat) (o1 o2 x : V3) :
    scaleAbout r o1 x = scaleAbout r o2 x ↔ (r = 1 ∨ o1 = o2) := by
  constructor
  · intro h
    by_cases hr : r = 1
    · exact Or.inl hr
    · right
      have hne : (1 - r) ≠ 0 := fun h0 => hr (by linarith)
      simp only [scaleAbout, V3.mk.injEq] at h
      obtain ⟨hx, hy, hz⟩ := h
      apply V3.ext'
      · have : (1 - r) * (o1.x - o2.x) = 0 := by linarith
        rcases mul_eq_zero.mp this with h0 | h0
        · exact absurd h0 hne
        · linarith
      · have : (1 - r) * (o1.y - o2.y) = 0 := by linarith
        rcases mul_eq_zero.mp this with h0 | h0
        · exact absurd h0 hne
        · linarith
      · have : (1 - r) * (o1.z - o2.z) = 0 := by linarith
        rcases mul_eq_zero.mp this with h0 | h0
        · exact absurd h0 hne
        · linarith
  · rintro (rfl | rfl)
    · simp [scaleAbout]
    · rfl

/-- a scaling about any origin maps the sphere with centre `c` through `x` onto the sphere with the scaled
    centre through the scaled point, whose squared radius is `r²` times the old one: the sphere a hemisphere
    declares has to be re-derived from its points after `scale()`, a radius stored before is wrong unless `r² = 1` -/
theorem T_C11_sphere_scaled (r : Rat) (o c x : V3) :
    V3.norm2 (scaleAbout r o x - scaleAbout r o c) = r * r * V3.norm2 (x - c) := by
  simp only [scaleAbout, V3.norm2, V3.dot, V3.sub_x, V3.sub_y, V3.sub_z]
  ring

/-- the criterion by which `VertexList` merges two points, squared distance below a fixed bound, gives the
    same verdict wherever the shape is placed (a tolerance relative to the coordinates does not) -/
theorem T_C11_merge_translation_invariant (p q t : V3) :
    V3.norm2 ((p + t) - (q + t)) = V3.norm2 (p - q) := by
  simp only [V3.norm2, V3.dot, V3.sub_x, V3.sub_y, V3.sub_z, V3.add_x, V3.add_y, V3.add_z]
  ring

/-- non-vacuity: scaling a shared point by 4/5 about two different centres tears it apart -/
example : scaleAbout (4 / 5) ⟨0, 0, 0⟩ ⟨1, 0, 0⟩ ≠ scaleAbout (4 / 5) ⟨1 / 2, 0, 0⟩ ⟨1, 0, 0⟩ := by
  intro h
  rcases (T_C11_scaling_common_origin _ _ _ _).mp h with h1 | h1
  · norm_num at h1
  · simp only [V3.mk.injEq] at h1
    norm_num at h1

/-! ## Part D — the handedness validator under placements -/

/-- the corner triple product is multiplied by the determinant of the linear part, the translation drops out -/
theorem T_C11_triple_affine (r1 r2 r3 t p a b c : V3) :
    triple (place r1 r2 r3 t a - place r1 r2 r3 t p) (place r1 r2 r3 t b - place r1 r2 r3 t p)
        (place r1 r2 r3 t c - place r1 r2 r3 t p) =
      det3 r1 r2 r3 * triple (a - p) (b - p) (c - p) := by
  simp only [triple, det3, place, lin, V3.dot, V3.cross_x, V3.cross_y, V3.cross_z, V3.sub_x, V3.sub_y, V3.sub_z,
    V3.add_x, V3.add_y, V3.add_z]
  ring

theorem T_C11_det_quat (w x y z s : Rat) :
    det3 (quatRows w x y z s).1 (quatRows w x y z s).2.1 (quatRows w x y z s).2.2 =
      (s * (w * w + x * x + y * y + z * z)) ^ 3 := by
  simp only [det3, triple, quatRows, V3.dot, V3.cross_x, V3.cross_y, V3.cross_z]
  ring

/-- … which is positive for every rotation (non-zero quaternion) combined with a positive scaling -/
theorem T_C11_det_quat_pos (w x y z s : Rat) (hs : 0 < s) (hq : w ≠ 0 ∨ x ≠ 0 ∨ y ≠ 0 ∨ z ≠ 0) :
    0 < det3 (quatRows w x y z s).1 (quatRows w x y z s).2.1 (quatRows w x y z s).2.2 := by
  rw [T_C11_det_quat]
  have hn : 0 < w * w + x * x + y * y + z * z := by
    rcases hq with h | h | h | h
    · have := mul_self_pos.mpr h
      nlinarith [mul_self_nonneg x, mul_self_nonneg y, mul_self_nonneg z]
    · have := mul_self_pos.mpr h
      nlinarith [mul_self_nonneg w, mul_self_nonneg y, mul_self_nonneg z]
    · have := mul_self_pos.mpr h
      nlinarith [mul_self_nonneg w, mul_self_nonneg x, mul_self_nonneg z]
    · have := mul_self_pos.mpr h
      nlinarith [mul_self_nonneg w, mul_self_nonneg x, mul_self_nonneg y]
  positivity

/-- a block keeps its handedness under every placement with positive determinant: the validator's verdict
    on a placed block is its verdict on the block itself -/
theorem T_C11_rightHanded_placed (r1 r2 r3 t : V3) (hdet : 0 < det3 r1 r2 r3) (pts : List V3) :
    rightHanded (pts.map (place r1 r2 r3 t)) = rightHanded pts := by
  unfold rightHanded
  by_cases hlen : pts.length = 8
  · match pts, hlen with
    | [p0, p1, p2, p3, p4, p5, p6, p7], _ =>
      have key : ∀ c, c < 8 →
          cornerJac ([p0, p1, p2, p3, p4, p5, p6, p7].map (place r1 r2 r3 t)) c =
            det3 r1 r2 r3 * cornerJac [p0, p1, p2, p3, p4, p5, p6, p7] c := by
        intro c hc
        have : c = 0 ∨ c = 1 ∨ c = 2 ∨ c = 3 ∨ c = 4 ∨ c = 5 ∨ c = 6 ∨ c = 7 := by omega
        rcases this with rfl | rfl | rfl | rfl | rfl | rfl | rfl | rfl <;>
          simp only [cornerJac, cornerNbrs, List.map, List.getD_cons_zero, List.getD_cons_succ] <;>
          exact T_C11_triple_affine _ _ _ _ _ _ _ _
      have hb : badCorners ([p0, p1, p2, p3, p4, p5, p6, p7].map (place r1 r2 r3 t)) =
          badCorners [p0, p1, p2, p3, p4, p5, p6, p7] := by
        unfold badCorners
        apply List.filter_congr
        intro c hc
        rw [key c (List.mem_range.mp hc)]
        have : (0 < det3 r1 r2 r3 * cornerJac [p0, p1, p2, p3, p4, p5, p6, p7] c) ↔
            (0 < cornerJac [p0, p1, p2, p3, p4, p5, p6, p7] c) := by
          constructor
          · intro h
            by_contra hn
            have : cornerJac [p0, p1, p2, p3, p4, p5, p6, p7] c ≤ 0 := not_lt.mp hn
            nlinarith
          · intro h; positivity
        simp only [this]
      rw [hb]
      simp
  · have h1 : ((pts.map (place r1 r2 r3 t)).length == 8) = false := by simp [hlen]
    have h2 : (pts.length == 8) = false := by simp [hlen]
    simp [h2]

/-- non-vacuity: the unit cube is right-handed, its mirror image is not -/
example : rightHanded [⟨0, 0, 0⟩, ⟨1, 0, 0⟩, ⟨1, 1, 0⟩, ⟨0, 1, 0⟩, ⟨0, 0, 1⟩, ⟨1, 0, 1⟩, ⟨1, 1, 1⟩, ⟨0, 1, 1⟩] = true := by
  decide +kernel
example : rightHanded [⟨0, 0, 0⟩, ⟨1, 0, 0⟩, ⟨1, 1, 0⟩, ⟨0, 1, 0⟩, ⟨0, 0, -1⟩, ⟨1, 0, -1⟩, ⟨1, 1, -1⟩, ⟨0, 1, -1⟩] = false := by
  decide +kernel

/-- the neighbour table of the validator agrees with the generated edge table: every corner is joined to
    its three listed neighbours by block edges, one along every axis -/
theorem T_C11_corner_nbrs :
    ∀ c ∈ List.range 8, ∀ a ∈ List.range 3,
      (let n := cornerNbrs.getD c (0, 0, 0)
       ([n.1, n.2.1, n.2.2].filter (fun m =>
          (CBV.Gen.axisPairs.getD a []).any (fun p => (p.1 == c && p.2 == m) || (p.1 == m && p.2 == c)))).length) = 1 := by
  decide

/-! ## Part E — handedness of the point generators that need no trigonometry, and the round solid shapes as lofts -/

/-- the eight corner Jacobians of an axis-aligned block are all `dx * dy * dz` -/
theorem T_C11_boxFrom_rightHanded (lo : V3) (dx dy dz : Rat) (hx : 0 < dx) (hy : 0 < dy) (hz : 0 < dz) :
    rightHanded (boxFrom lo dx dy dz) = true := by
  apply rightHanded_of_jac _ rfl
  intro c hc
  have hp : 0 < dx * dy * dz := by positivity
  have : c = 0 ∨ c = 1 ∨ c = 2 ∨ c = 3 ∨ c = 4 ∨ c = 5 ∨ c = 6 ∨ c = 7 := by omega
  rcases this with rfl | rfl | rfl | rfl | rfl | rfl | rfl | rfl <;>
    simp only [boxFrom, cornerJac, cornerNbrs, List.getD_cons_zero, List.getD_cons_succ, triple, V3.dot, V3.cross_x,
      V3.cross_y, V3.cross_z, V3.sub_x, V3.sub_y, V3.sub_z] <;>
    nlinarith [hp]

/-- `Box(start_point, diagonal_point)` is right-handed whichever two opposite corners are given, in whichever
    order, as long as they differ in every coordinate (all inputs; exact arithmetic) -/
theorem T_C11_box_rightHanded (a b : V3) (hx : a.x ≠ b.x) (hy : a.y ≠ b.y) (hz : a.z ≠ b.z) :
    rightHanded (boxPts a b) = true :=
  T_C11_boxFrom_rightHanded _ _ _ _ (maxR_sub_minR_pos _ _ hx) (maxR_sub_minR_pos _ _ hy) (maxR_sub_minR_pos _ _ hz)

/-- non-vacuity: the diagonal given "backwards" in x and z -/
example : rightHanded (boxPts ⟨1, 0, 2⟩ ⟨0, 3, -1⟩) = true :=
  T_C11_box_rightHanded _ _ (by norm_num) (by norm_num) (by norm_num)

/-- `Extrude(face, vector)`: a quadrilateral that is convex and counter-clockwise about its normal (all four
    corner cross products positive), extruded by a vector with a positive component along that normal, is
    right-handed; the in-plane components of the vector do not matter. In the plane of the face; any
    placement follows with `T_C11_rightHanded_placed`. -/
theorem T_C11_extrude_rightHanded (p0 p1 p2 p3 : Rat × Rat) (v : V3) (hv : 0 < v.z)
    (h0 : 0 < cross2 p0 p1 p3) (h1 : 0 < cross2 p1 p2 p0) (h2 : 0 < cross2 p2 p3 p1) (h3 : 0 < cross2 p3 p0 p2) :
    rightHanded (extrudePts p0 p1 p2 p3 v) = true := by
  apply rightHanded_of_jac _ rfl
  intro c hc
  unfold cross2 at h0 h1 h2 h3
  have m0 := mul_pos h0 hv
  have m1 := mul_pos h1 hv
  have m2 := mul_pos h2 hv
  have m3 := mul_pos h3 hv
  have : c = 0 ∨ c = 1 ∨ c = 2 ∨ c = 3 ∨ c = 4 ∨ c = 5 ∨ c = 6 ∨ c = 7 := by omega
  rcases this with rfl | rfl | rfl | rfl | rfl | rfl | rfl | rfl <;>
    simp only [extrudePts, cornerJac, cornerNbrs, List.getD_cons_zero, List.getD_cons_succ, triple, V3.dot,
      V3.cross_x, V3.cross_y, V3.cross_z, V3.sub_x, V3.sub_y, V3.sub_z] <;>
    nlinarith [m0, m1, m2, m3]

/-- non-vacuity: a skew convex quadrilateral, sheared extrusion -/
example : rightHanded (extrudePts (0, 0) (2, 0) (3, 2) (0, 1) ⟨5, -7, 1 / 2⟩) = true :=
  T_C11_extrude_rightHanded _ _ _ _ _ (by norm_num) (by norm_num [cross2]) (by norm_num [cross2])
    (by norm_num [cross2]) (by norm_num [cross2])

/-- one segment of an extruded ring: inner radius `0 < r < R`, length `len > 0`, its two radial sides pointing
    along `(c, s)` and `(c', s')` with the second turned counter-clockwise from the first by less than half a
    turn (`c s' - s c' > 0`, the sine of the segment angle): all eight corner Jacobians are positive. This is every
    `ExtrudedRing` with `n ≥ 3` segments (segment angle `2π/n`), with the cosines and sines as witnesses. -/
theorem T_C11_ring_segment_rightHanded (r R len c s c' s' : Rat) (hr : 0 < r) (hR : r < R) (hl : 0 < len)
    (hsin : 0 < c * s' - s * c') : rightHanded (ringSegPts r R len c s c' s') = true := by
  apply rightHanded_of_jac _ rfl
  intro k hk
  have hd : 0 < R - r := by linarith
  have hRp : 0 < R := by linarith
  have e1 : 0 < (R - r) * r * len * (c * s' - s * c') := by positivity
  have e2 : 0 < (R - r) * R * len * (c * s' - s * c') := by positivity
  have : k = 0 ∨ k = 1 ∨ k = 2 ∨ k = 3 ∨ k = 4 ∨ k = 5 ∨ k = 6 ∨ k = 7 := by omega
  rcases this with rfl | rfl | rfl | rfl | rfl | rfl | rfl | rfl <;>
    simp only [ringSegPts, cornerJac, cornerNbrs, List.getD_cons_zero, List.getD_cons_succ, triple, V3.dot,
      V3.cross_x, V3.cross_y, V3.cross_z, V3.sub_x, V3.sub_y, V3.sub_z] <;>
    nlinarith [e1, e2]

/-- non-vacuity: a segment between the directions (1, 0) and (3/5, 4/5) -/
example : rightHanded (ringSegPts 1 2 3 1 0 (3 / 5) (4 / 5)) = true :=
  T_C11_ring_segment_rightHanded _ _ _ _ _ _ _ (by norm_num) (by norm_num) (by norm_num) (by norm_num)

/-- Cylinder, Frustum, Elbow (FourCoreDisk) and SemiCylinder (HalfDisk): the assembled probe is, vertex number by
    vertex number, the loft of the quad map of the sketch class, and `chop_axial / chop_radial / chop_tangential`
    chop exactly the operations `Sketch.chops` lists for axes 2 / 0 / 1 — so their choppability is the sketch
    theorem `T_C11_choppable_sketches`, not only a fact about one probe instance -/
theorem T_C11_round_shapes_are_lofts : ∀ ns ∈ roundShapeSketch, roundShapeIsLoft ns = true := by decide +kernel

/-! ## Part F — the point generators of the disk sketches and of the shapes lofted from them

The generators of `Model/C11Geo.lean` are generic over the scalars; the theorems hold over every linearly ordered
field `K` (ℝ included, where `h = √2/2` exists), the driver runs the same definitions over `Rat`. -/

section PartF
open P3

/-- what the model assumes about the source of `disk.py` (the `np.linspace` arguments of `angles`, the `ratios`
    lists, the layout of the positions lists of all six classes) is what the translator reads there with `ast` -/
theorem T_C11_disk_generators_tie : diskGenRows = CBV.Gen.c11DiskGen := by decide +kernel

/-- the angle lists are whole multiples of π/4 (the division in `linspaceIdx` is exact) -/
theorem T_C11_disk_linspace_exact : ∀ r ∈ CBV.Gen.c11DiskGen,
    r.2.1.1 % (if r.2.1.2.2 then r.2.1.2.1 - 1 else r.2.1.2.1) = 0 := by decide +kernel

variable {K : Type} [Field K] [LinearOrder K] [IsStrictOrderedRing K]

/-- the four points go round counter-clockwise about `u`, with a convex corner at each of them:
    `(p1 − p0) × (p3 − p0) · u > 0` and cyclically -/
def ccwAbout (u a b d e : P3 K) : Prop :=
  0 < dot (cross (sub b a) (sub e a)) u ∧ 0 < dot (cross (sub d b) (sub a b)) u ∧
  0 < dot (cross (sub e d) (sub b d)) u ∧ 0 < dot (cross (sub a e) (sub d e)) u

/-- **faces are ordered counter-clockwise about the normal**: for every centre `c`, radius point `rp`, unit normal
    `u ⟂ rp − c`, radius > 0 and ratios satisfying `DiskOK`, every quad of the (regenerated) quad map of
    `OneCoreDisk`, `QuarterDisk`, `HalfDisk`, `FourCoreDisk` is convex and counter-clockwise about the normal -/
theorem T_C11_disk_faces_ccw (cl : DiskCls) (c rp u : P3 K) (h k dg : K)
    (hu : nsq u = 1) (hp : dot u (sub rp c) = 0) (hr : 0 < nsq (sub rp c)) (hok : DiskOK cl h k dg) :
    ∀ q ∈ sketchQuads cl.name,
      ccwAbout u ((diskPts cl c rp u h k dg).getD (q.getD 0 0) c) ((diskPts cl c rp u h k dg).getD (q.getD 1 0) c)
        ((diskPts cl c rp u h k dg).getD (q.getD 2 0) c) ((diskPts cl c rp u h k dg).getD (q.getD 3 0) c) := by
  intro q hq
  obtain ⟨_, _, _, _, c1, c2, c3, c4⟩ := disk_convex cl h k dg hok q hq
  simp only [quadOf] at c1 c2 c3 c4
  have hdet := frameDet_pos (sub rp c) u hu hp hr
  rw [diskPts_frame cl c rp u h k dg hp]
  simp only [getD_map_frame]
  unfold ccwAbout
  simp only [cross_frame_dot]
  exact ⟨mul_pos hdet c1, mul_pos hdet c2, mul_pos hdet c3, mul_pos hdet c4⟩

/-- **`ExtrudedShape(disk sketch, amount)` is right-handed**: all eight corner Jacobians of every block are
    positive, for every placement (centre, radius point, unit normal perpendicular to the radius), radius > 0 and
    `amount > 0` -/
theorem T_C11_extruded_disk_rightHanded (cl : DiskCls) (c rp u : P3 K) (h k dg a : K)
    (hu : nsq u = 1) (hp : dot u (sub rp c) = 0) (hr : 0 < nsq (sub rp c)) (ha : 0 < a) (hok : DiskOK cl h k dg) :
    ∀ H ∈ extrudedHexes (sketchQuads cl.name) cl c rp u h k dg a, H.RH := by
  rw [extrudedHexes_frame _ cl c rp u h k dg a hp]
  exact loft_RH c (sub rp c) u _ _ a _ (frameDet_pos _ u hu hp hr) ha (disk_convex cl h k dg hok)
    (disk_convex cl h k dg hok)

/-- **`Cylinder` (`FourCoreDisk`) and `SemiCylinder` (`HalfDisk`) are right-handed** for all axis points
    `p1 ≠ p2`, every radius point with `axis ⟂ rp − p1` (the guard of `SemiCylinder.__init__`) and radius > 0;
    `wl` is the witness of `norm(axis)` -/
theorem T_C11_cylinder_rightHanded (cl : DiskCls) (p1 p2 rp : P3 K) (wl h k dg : K)
    (hw : 0 < wl) (hww : wl * wl = nsq (sub p2 p1)) (hp : dot (sub p2 p1) (sub rp p1) = 0)
    (hr : 0 < nsq (sub rp p1)) (hok : DiskOK cl h k dg) :
    ∀ H ∈ cylinderHexes (sketchQuads cl.name) cl p1 p2 rp wl h k dg, H.RH := by
  rw [cylinderHexes_eq _ cl p1 p2 rp wl h k dg hw]
  apply T_C11_extruded_disk_rightHanded cl p1 rp _ h k dg wl (unit_of_witness _ wl hw hww) _ hr hw hok
  rw [dot_smul_left, hp, mul_zero]

/-- **`Frustum` is right-handed** for every end radius `r2 > 0` (`wr` witnesses the start radius) -/
theorem T_C11_frustum_rightHanded (p1 p2 rp : P3 K) (wl h k dg r2 wr : K)
    (hw : 0 < wl) (hww : wl * wl = nsq (sub p2 p1)) (hp : dot (sub p2 p1) (sub rp p1) = 0)
    (hr : 0 < nsq (sub rp p1)) (h2 : 0 < r2) (hwr : 0 < wr) (hok : DiskOK .fourCore h k dg) :
    ∀ H ∈ frustumHexes (sketchQuads "FourCoreDisk") p1 p2 rp wl h k dg r2 wr, H.RH := by
  have hu := unit_of_witness (sub p2 p1) wl hw hww
  have hpu : dot (smul (1 / wl) (sub p2 p1)) (sub rp p1) = 0 := by rw [dot_smul_left, hp, mul_zero]
  have hdet := frameDet_pos _ _ hu hpu hr
  have hax : sub p2 p1 = smul wl (smul (1 / wl) (sub p2 p1)) := (smul_witness _ _ hw).symm
  unfold frustumHexes
  rw [diskPts_frame .fourCore p1 rp _ h k dg hpu]
  generalize smul (1 / wl) (sub p2 p1) = u' at hax hdet ⊢
  rw [hax, frustum_top_frame]
  have h0 : add p1 (smul wl u') = frame p1 (sub rp p1) u' (liftZ wl ⟨0, 0, 0⟩) := by
    have h := add_frame wl p1 (sub rp p1) u' ⟨0, 0, 0⟩
    rw [frame_zero] at h
    rw [h]; simp only [liftZ]
  rw [h0]
  have h1 := loft_RH p1 (sub rp p1) u' (diskL .fourCore h k dg) ((diskL .fourCore h k dg).map (scaleL (r2 / wr)))
    wl (sketchQuads "FourCoreDisk") hdet hw (disk_convex .fourCore h k dg hok)
    (fun q hq => convexCCW_scale (r2 / wr) (div_pos h2 hwr) _ q (disk_convex .fourCore h k dg hok q hq))
  rw [frame_zero] at h1
  exact h1

/-- **rim points lie on the circle, inner points on theirs**: with `2h² = 1` every point of
    `FanPattern.get_outer_points` is at squared distance `|rp − c|²` from the centre, every point scaled back by
    `ratio` at `ratio² |rp − c|²` -/
theorem T_C11_fan_on_circle (c rp u : P3 K) (h : K) (hu : nsq u = 1) (hp : dot u (sub rp c) = 0)
    (hh : 2 * (h * h) = 1) (i : Nat) (ratio : K) :
    nsq (sub (fanPt c rp u h i) c) = nsq (sub rp c) ∧
    nsq (sub (scaleP ratio c (fanPt c rp u h i)) c) = ratio * ratio * nsq (sub rp c) := by
  have hd : (dir8 h i).1 * (dir8 h i).1 + (dir8 h i).2 * (dir8 h i).2 = 1 := by
    unfold dir8
    split <;> dsimp only <;> first | ring1 | linear_combination hh
  rw [fanPt_frame c rp u h i hp, scaleP_centre_frame, nsq_frame _ _ _ _ hu hp, nsq_frame _ _ _ _ hu hp]
  simp only [fanPtL]
  constructor
  · linear_combination nsq (sub rp c) * hd
  · linear_combination ratio * ratio * nsq (sub rp c) * hd

/-- every outer point of a disk sketch is a fan point (so the rim of the four classes lies on the circle) -/
theorem T_C11_disk_rim_on_circle (cl : DiskCls) (c rp u : P3 K) (h : K) (hu : nsq u = 1)
    (hp : dot u (sub rp c) = 0) (hh : 2 * (h * h) = 1) :
    ∀ p ∈ fanOuter c rp u h cl.idx, nsq (sub p c) = nsq (sub rp c) := by
  intro p hp'
  obtain ⟨i, _, rfl⟩ := List.mem_map.mp hp'
  exact (T_C11_fan_on_circle c rp u h hu hp hh i 1).1

/-- **no two generated points coincide**: the positions handed to `MappedSketch` are pairwise different, so two
    faces share exactly the points their quads share by index — the index-level conformity of the quad maps
    (`T_C11_conformal_sketches`) is conformity in space -/
theorem T_C11_disk_points_distinct (cl : DiskCls) (c rp u : P3 K) (h k dg : K)
    (hu : nsq u = 1) (hp : dot u (sub rp c) = 0) (hr : 0 < nsq (sub rp c)) (hok : DiskOK cl h k dg) :
    (diskPts cl c rp u h k dg).Nodup := by
  rw [diskPts_frame cl c rp u h k dg hp]
  exact List.Nodup.map
    (fun p q hpq => frame_inj c _ u p q (ne_of_gt (frameDet_pos _ u hu hp hr)) hpq) (diskL_nodup cl h k dg hok)

end PartF

/-- non-vacuity over `Rat` (the scalars of the driver): a `FourCoreDisk` cylinder between (1, 2, 3) and (1, 2, 5)
    with the radius point (4, 6, 3), `h = 7/10`, the source's `core_ratio = 4/5` and `diagonal_ratio ≈ 9/10` -/
example : ∀ H ∈ cylinderHexes (sketchQuads "FourCoreDisk") .fourCore (⟨1, 2, 3⟩ : P3 Rat) ⟨1, 2, 5⟩ ⟨4, 6, 3⟩ 2
    (7 / 10) (4 / 5) (9 / 10), H.RH :=
  T_C11_cylinder_rightHanded .fourCore _ _ _ _ _ _ _ (by norm_num) (by norm_num [P3.nsq, P3.dot, P3.sub])
    (by norm_num [P3.dot, P3.sub]) (by norm_num [P3.nsq, P3.dot, P3.sub])
    (by unfold DiskOK; norm_num)

/-- non-vacuity of `T_C11_frustum_rightHanded` and `T_C11_disk_faces_ccw` (same placement, `OneCoreDisk` for the faces) -/
example : ∀ H ∈ frustumHexes (sketchQuads "FourCoreDisk") (⟨1, 2, 3⟩ : P3 Rat) ⟨1, 2, 5⟩ ⟨4, 6, 3⟩ 2
    (7 / 10) (4 / 5) (9 / 10) 3 5, H.RH :=
  T_C11_frustum_rightHanded _ _ _ _ _ _ _ _ _ (by norm_num) (by norm_num [P3.nsq, P3.dot, P3.sub])
    (by norm_num [P3.dot, P3.sub]) (by norm_num [P3.nsq, P3.dot, P3.sub]) (by norm_num) (by norm_num)
    (by unfold DiskOK; norm_num)

example : DiskOK DiskCls.oneCore (7 / 10 : Rat) (4 / 5) (9 / 10) ∧ P3.nsq (⟨0, 0, 1⟩ : P3 Rat) = 1 ∧
    P3.dot (⟨0, 0, 1⟩ : P3 Rat) (P3.sub ⟨4, 6, 3⟩ ⟨1, 2, 3⟩) = 0 := by
  unfold DiskOK; norm_num [P3.nsq, P3.dot, P3.sub]

/-! ### over ℝ: the exact values `h = √2/2`, `core_ratio`, `diagonal_ratio = a + b√2` of the source -/

/-- `core_ratio` of the source as a real number -/
noncomputable def coreRatioR : ℝ := (CBV.Gen.c11DiskConst.1.1 : ℝ) / (CBV.Gen.c11DiskConst.1.2 : ℝ)

/-- `diagonal_ratio` of the source, `a + b √2` with the rationals the translator evaluated from the property -/
noncomputable def diagRatioR : ℝ :=
  (CBV.Gen.c11DiskConst.2.1.1 : ℝ) / (CBV.Gen.c11DiskConst.2.1.2 : ℝ)
    + (CBV.Gen.c11DiskConst.2.2.1 : ℝ) / (CBV.Gen.c11DiskConst.2.2.2 : ℝ) * Real.sqrt 2

/-- **the constants of the source satisfy the convexity conditions** of all four classes, with the exact
    `h = cos π/4 = √2/2` (a change of `core_ratio`, `spline_ratios[8]` or of the `diagonal_ratio` formula that
    leaves the admissible range breaks this proof) -/
theorem T_C11_disk_constants (cl : DiskCls) : DiskOK cl (Real.sqrt 2 / 2) coreRatioR diagRatioR := by
  have hs : Real.sqrt 2 * Real.sqrt 2 = 2 := Real.mul_self_sqrt (by norm_num)
  have hs0 : 0 < Real.sqrt 2 := Real.sqrt_pos.mpr (by norm_num)
  have hs1 : Real.sqrt 2 < 3 / 2 := by nlinarith
  have hs2 : 7 / 5 < Real.sqrt 2 := by nlinarith
  unfold coreRatioR diagRatioR
  simp only [CBV.Gen.c11DiskConst]
  cases cl <;> unfold DiskOK <;> simp only [] <;> norm_num <;> (try constructor) <;> nlinarith

/-- the exact half diagonal satisfies `2h² = 1` -/
theorem T_C11_half_sqrt_two : 2 * (Real.sqrt 2 / 2 * (Real.sqrt 2 / 2)) = 1 := by
  have hs : Real.sqrt 2 * Real.sqrt 2 = 2 := Real.mul_self_sqrt (by norm_num)
  nlinarith

/-- **`Cylinder` / `SemiCylinder` over ℝ, no witnesses left**: for all real axis points `p1 ≠ p2` and radius points
    off the axis with `axis ⟂ rp − p1`, with `norm(axis) = √|axis|²`, `h = √2/2` and the constants of the source,
    every block is right-handed -/
theorem T_C11_cylinder_real (cl : DiskCls) (p1 p2 rp : P3 ℝ) (hax : 0 < P3.nsq (P3.sub p2 p1))
    (hp : P3.dot (P3.sub p2 p1) (P3.sub rp p1) = 0) (hr : 0 < P3.nsq (P3.sub rp p1)) :
    ∀ H ∈ cylinderHexes (sketchQuads cl.name) cl p1 p2 rp (Real.sqrt (P3.nsq (P3.sub p2 p1))) (Real.sqrt 2 / 2)
      coreRatioR diagRatioR, H.RH :=
  T_C11_cylinder_rightHanded cl p1 p2 rp _ _ _ _ (Real.sqrt_pos.mpr hax) (Real.mul_self_sqrt hax.le) hp hr
    (T_C11_disk_constants cl)

/-- **`Frustum` over ℝ**: additionally for every end radius `r2 > 0`, `radius_1 = √|rp − p1|²` -/
theorem T_C11_frustum_real (p1 p2 rp : P3 ℝ) (r2 : ℝ) (hax : 0 < P3.nsq (P3.sub p2 p1))
    (hp : P3.dot (P3.sub p2 p1) (P3.sub rp p1) = 0) (hr : 0 < P3.nsq (P3.sub rp p1)) (h2 : 0 < r2) :
    ∀ H ∈ frustumHexes (sketchQuads "FourCoreDisk") p1 p2 rp (Real.sqrt (P3.nsq (P3.sub p2 p1))) (Real.sqrt 2 / 2)
      coreRatioR diagRatioR r2 (Real.sqrt (P3.nsq (P3.sub rp p1))), H.RH :=
  T_C11_frustum_rightHanded p1 p2 rp _ _ _ _ r2 _ (Real.sqrt_pos.mpr hax) (Real.mul_self_sqrt hax.le) hp hr h2
    (Real.sqrt_pos.mpr hr) (T_C11_disk_constants .fourCore)

/-- non-vacuity of the real theorems: the unit cylinder along z -/
example : 0 < P3.nsq (P3.sub (⟨0, 0, 1⟩ : P3 ℝ) ⟨0, 0, 0⟩) ∧
    P3.dot (P3.sub (⟨0, 0, 1⟩ : P3 ℝ) ⟨0, 0, 0⟩) (P3.sub ⟨1, 0, 0⟩ ⟨0, 0, 0⟩) = 0 ∧
    0 < P3.nsq (P3.sub (⟨1, 0, 0⟩ : P3 ℝ) ⟨0, 0, 0⟩) := by
  norm_num [P3.nsq, P3.dot, P3.sub]

/-- over `Rat` the new predicate is the validator of the driver: a block whose eight Jacobians are positive is
    accepted by `rightHanded` (request `c11.rh`) -/
theorem T_C11_RH_is_validator (H : Hex Rat) (h : H.RH) : rightHanded (H.toList.map P3.toV3) = true := by
  apply rightHanded_of_jac _ rfl
  intro k hk
  unfold Hex.RH Hex.jacs at h
  simp only [List.mem_cons, List.not_mem_nil, or_false, forall_eq_or_imp, forall_eq] at h
  obtain ⟨j0, j1, j2, j3, j4, j5, j6, j7⟩ := h
  have : k = 0 ∨ k = 1 ∨ k = 2 ∨ k = 3 ∨ k = 4 ∨ k = 5 ∨ k = 6 ∨ k = 7 := by omega
  rcases this with rfl | rfl | rfl | rfl | rfl | rfl | rfl | rfl <;>
    simp only [Hex.toList, List.map, P3.toV3, cornerJac, cornerNbrs, List.getD_cons_zero, List.getD_cons_succ, triple,
      V3.dot, V3.cross_x, V3.cross_y, V3.cross_z, V3.sub_x, V3.sub_y, V3.sub_z] <;>
    simp only [P3.triple, P3.dot, P3.cross, P3.sub] at j0 j1 j2 j3 j4 j5 j6 j7 <;>
    assumption

/-! ## Part H — WrappedDisk, Oval and Grid in the generic point model -/

section PartH
open P3
variable {K : Type} [Field K] [LinearOrder K] [IsStrictOrderedRing K]

/-- faces of a position list given in a positively oriented frame are counter-clockwise about the normal when
    their plane coordinates are convex and counter-clockwise -/
theorem ccw_of_frame (c ρ u : P3 K) (L : List (P3 K)) (q : List Nat) (hdet : 0 < frameDet ρ u)
    (hq : convexCCW (quadOf L q)) :
    ccwAbout u ((L.map (frame c ρ u)).getD (q.getD 0 0) c) ((L.map (frame c ρ u)).getD (q.getD 1 0) c)
      ((L.map (frame c ρ u)).getD (q.getD 2 0) c) ((L.map (frame c ρ u)).getD (q.getD 3 0) c) := by
  obtain ⟨_, _, _, _, c1, c2, c3, c4⟩ := hq
  simp only [quadOf] at c1 c2 c3 c4
  simp only [getD_map_frame]
  unfold ccwAbout
  simp only [cross_frame_dot]
  exact ⟨mul_pos hdet c1, mul_pos hdet c2, mul_pos hdet c3, mul_pos hdet c4⟩

/-- **WrappedDisk**: for every centre, corner point, unit normal ⟂ centre→corner, `0 < radius < |corner − centre|`
    (`wn` its witness; only `0 < radius < wn` is used) and `0 < diagonal_ratio < 1`: all nine quads of the
    regenerated quad map are convex and counter-clockwise about the normal, and every block of
    `ExtrudedShape(WrappedDisk, amount > 0)` has eight positive corner Jacobians -/
theorem T_C11_wrapped_rightHanded (c corner u : P3 K) (h dg radius wn a : K)
    (hu : nsq u = 1) (hp : dot u (sub corner c) = 0) (hr : 0 < nsq (sub corner c)) (ha : 0 < a)
    (hd0 : 0 < dg) (hd1 : dg < 1) (hr0 : 0 < radius) (hr1 : radius < wn) :
    (∀ q ∈ sketchQuads "WrappedDisk",
      ccwAbout u ((wrappedPts c corner u h dg radius wn).getD (q.getD 0 0) c)
        ((wrappedPts c corner u h dg radius wn).getD (q.getD 1 0) c)
        ((wrappedPts c corner u h dg radius wn).getD (q.getD 2 0) c)
        ((wrappedPts c corner u h dg radius wn).getD (q.getD 3 0) c)) ∧
    ∀ H ∈ wrappedExtrudedHexes (sketchQuads "WrappedDisk") c corner u h dg radius wn a, H.RH := by
  have hw : 0 < wn := lt_trans hr0 hr1
  have hconv := wrapped_convex h dg (radius / wn) hd0 hd1 (div_pos hr0 hw) ((div_lt_one hw).mpr hr1)
  have hdet := frameDet_pos (sub corner c) u hu hp hr
  constructor
  · intro q hq
    rw [wrappedPts_frame c corner u h dg radius wn hp]
    exact ccw_of_frame c _ u _ q hdet (hconv q hq)
  · unfold wrappedExtrudedHexes
    rw [wrappedPts_frame c corner u h dg radius wn hp, extrudeOf_frame]
    exact loft_RH c _ u _ _ a _ hdet ha hconv hconv

/-- **Oval**: for all centres `c1 ≠ c2`, unit normal ⟂ `c2 − c1`, `radius > 0` (`wd > 0` any witness of
    `|normal × (c2 − c1)|`) and ratios satisfying the half-disk conditions: all sixteen quads of the regenerated quad
    map are convex and counter-clockwise about the normal, and every block of `ExtrudedShape(Oval, amount > 0)` has
    eight positive corner Jacobians -/
theorem T_C11_oval_rightHanded (c1 c2 u : P3 K) (h k dg radius wd a : K)
    (hu : nsq u = 1) (hp : dot u (sub c2 c1) = 0) (hd : 0 < nsq (sub c2 c1)) (hr : 0 < radius) (hw : 0 < wd)
    (ha : 0 < a) (hok : DiskOK .half h k dg) :
    (∀ q ∈ sketchQuads "Oval",
      ccwAbout u ((ovalPts c1 c2 u h k dg radius wd).getD (q.getD 0 0) c1)
        ((ovalPts c1 c2 u h k dg radius wd).getD (q.getD 1 0) c1)
        ((ovalPts c1 c2 u h k dg radius wd).getD (q.getD 2 0) c1)
        ((ovalPts c1 c2 u h k dg radius wd).getD (q.getD 3 0) c1)) ∧
    ∀ H ∈ ovalExtrudedHexes (sketchQuads "Oval") c1 c2 u h k dg radius wd a, H.RH := by
  have hconv := oval_convex h k dg (wd / radius) hok.1 hok.2.1 hok.2.2.1 hok.2.2.2.1 hok.2.2.2.2 (div_pos hw hr)
  have hα : 0 < radius / wd := div_pos hr hw
  have hρ : 0 < nsq (smul (radius / wd) (cross u (sub c2 c1))) := by
    have key : nsq (smul (radius / wd) (cross u (sub c2 c1)))
        = (radius / wd) * (radius / wd) * (nsq u * nsq (sub c2 c1) - dot u (sub c2 c1) * dot u (sub c2 c1)) := by
      simp only [nsq, dot, smul, cross]; ring
    rw [key, hu, hp]
    have := mul_pos (mul_pos hα hα) hd
    linarith
  have hdet := frameDet_pos _ u hu (dot_cross_self (radius / wd) u (sub c2 c1)) hρ
  constructor
  · intro q hq
    rw [ovalPts_frame c1 c2 u h k dg radius wd hr hw hu hp]
    exact ccw_of_frame c1 _ u _ q hdet (hconv q hq)
  · unfold ovalExtrudedHexes
    rw [ovalPts_frame c1 c2 u h k dg radius wd hr hw hu hp, extrudeOf_frame]
    exact loft_RH c1 _ u _ _ a _ hdet ha hconv hconv

/-- **Grid**: every block of `ExtrudedShape(Grid(p1, p2, n, m), amount)` with `p1 < p2` in both coordinates and
    `amount > 0` has eight positive corner Jacobians, for all counts `n`, `m` -/
theorem T_C11_grid_rightHanded (x1 y1 x2 y2 a : K) (n m : Nat) (hx : x1 < x2) (hy : y1 < y2) (ha : 0 < a) :
    ∀ H ∈ gridHexes x1 y1 x2 y2 n m a, H.RH := by
  intro H hH
  simp only [gridHexes, List.mem_flatMap, List.mem_map, List.mem_range] at hH
  obtain ⟨iy, hiy, ix, hix, rfl⟩ := hH
  exact gridHex_RH x1 y1 x2 y2 a n m ix iy hx hy (by omega) (by omega) ha

end PartH

/-- non-vacuity: a wrapped disk (corner at distance 5, circle of radius 2), an oval and a 3 × 2 grid over `Rat` -/
example : ∀ H ∈ wrappedExtrudedHexes (sketchQuads "WrappedDisk") (⟨1, 2, 3⟩ : P3 Rat) ⟨4, 6, 3⟩ ⟨0, 0, 1⟩
    (7 / 10) (9 / 10) 2 5 (3 / 2), H.RH :=
  (T_C11_wrapped_rightHanded _ _ _ _ _ _ _ _ (by norm_num [P3.nsq, P3.dot]) (by norm_num [P3.dot, P3.sub])
    (by norm_num [P3.nsq, P3.dot, P3.sub]) (by norm_num) (by norm_num) (by norm_num) (by norm_num) (by norm_num)).2

example : ∀ H ∈ ovalExtrudedHexes (sketchQuads "Oval") (⟨1, 2, 3⟩ : P3 Rat) ⟨4, 6, 3⟩ ⟨0, 0, 1⟩
    (7 / 10) (4 / 5) (9 / 10) 2 5 (3 / 2), H.RH :=
  (T_C11_oval_rightHanded _ _ _ _ _ _ _ _ _ (by norm_num [P3.nsq, P3.dot]) (by norm_num [P3.dot, P3.sub])
    (by norm_num [P3.nsq, P3.dot, P3.sub]) (by norm_num) (by norm_num) (by norm_num) (by unfold DiskOK; norm_num)).2

example : ∀ H ∈ gridHexes (0 : Rat) (-1) 2 3 3 2 (1 / 2), H.RH :=
  T_C11_grid_rightHanded _ _ _ _ _ _ _ (by norm_num) (by norm_num) (by norm_num)

/-- over ℝ the conditions of Part H hold for the constants of the source (`T_C11_disk_constants`): the oval needs
    `DiskOK .half`, the wrapped disk `0 < diagonal_ratio < 1` = `DiskOK .oneCore` -/
theorem T_C11_wrapped_oval_constants :
    (0 < diagRatioR ∧ diagRatioR < 1) ∧ DiskOK DiskCls.half (Real.sqrt 2 / 2) coreRatioR diagRatioR :=
  ⟨T_C11_disk_constants .oneCore, T_C11_disk_constants .half⟩

/-! ## Part I — revolved shapes: a sketch and its copy turned about an axis in its plane -/

section PartI
open P3
variable {K : Type} [Field K] [LinearOrder K] [IsStrictOrderedRing K]

/-- **`RevolvedShape(sketch, angle, axis, origin)` is right-handed** for every mapped sketch (any quad map, any
    positions) that lies in a half-plane through the axis, and every sweep with positive sine (0 < angle < π):
    `o` a point of the axis, `k` its unit direction, `N ⟂ k` the unit normal of the sketch, the positions given by
    plane coordinates `(x, y, 0)` in the frame `(k, N × k, N)` with heights `y > 0` over the axis and convex
    counter-clockwise quads. All eight corner Jacobians of every block equal
    `sin · height of the corner · plane cross product at the corner` (`jacs_revolved`; no use of `cos² + sin² = 1`).
    The turned copy is computed by the model's `rotAbout` (= `f.rotate`), not assumed (`rotAbout_axis_frame`). -/
theorem T_C11_revolved_rightHanded (o k N : P3 K) (L : List (P3 K)) (cs sn : K) (quads : List (List Nat))
    (hk : nsq k = 1) (hN : nsq N = 1) (hNk : dot N k = 0) (hsn : 0 < sn) (hz : ∀ p ∈ L, p.z = 0)
    (hq : ∀ q ∈ quads, convexCCW (quadOf L q) ∧ aboveAxis (quadOf L q)) :
    ∀ H ∈ revolveOf quads (L.map (frame o k N)) (frame o k N ⟨0, 0, 0⟩) cs sn k o, H.RH :=
  revolve_RH o k N L cs sn quads hk hN hNk hsn hz hq

/-- the Jacobians of a revolved block vanish exactly with the sine and with the height: a sweep of 0 or π, or a
    corner on the axis, gives a degenerate block (the conditions of the theorem are sharp) -/
theorem T_C11_revolved_jacobian (o k N a b d e : P3 K) (cs sn : K)
    (ha : a.z = 0) (hb : b.z = 0) (hd : d.z = 0) (he : e.z = 0) :
    (Hex.jacs ⟨frame o k N a, frame o k N b, frame o k N d, frame o k N e, frame o k N (revL cs sn a),
        frame o k N (revL cs sn b), frame o k N (revL cs sn d), frame o k N (revL cs sn e)⟩).head?
      = some (frameDet k N * (sn * a.y * cross2K a b e)) := by
  rw [jacs_revolved o k N a b d e cs sn ha hb hd he]; rfl

end PartI

/-- non-vacuity: the square (0,1)–(1,2) above the x axis turned by the angle with (cos, sin) = (3/5, 4/5) -/
example : ∀ H ∈ revolveOf [[0, 1, 2, 3]]
    (([⟨0, 1, 0⟩, ⟨1, 1, 0⟩, ⟨1, 2, 0⟩, ⟨0, 2, 0⟩] : List (P3 Rat)).map (frame ⟨0, 0, 0⟩ ⟨1, 0, 0⟩ ⟨0, 0, 1⟩))
    (frame ⟨0, 0, 0⟩ ⟨1, 0, 0⟩ ⟨0, 0, 1⟩ ⟨0, 0, 0⟩) (3 / 5) (4 / 5) ⟨1, 0, 0⟩ ⟨0, 0, 0⟩, H.RH := by
  apply T_C11_revolved_rightHanded _ _ _ _ _ _ _ (by norm_num [P3.nsq, P3.dot]) (by norm_num [P3.nsq, P3.dot])
    (by norm_num [P3.dot]) (by norm_num)
  · intro p hp; simp only [List.mem_cons, List.not_mem_nil, or_false] at hp; rcases hp with rfl | rfl | rfl | rfl <;> rfl
  · intro q hq; simp only [List.mem_cons, List.not_mem_nil, or_false] at hq; subst hq
    simp [quadOf, convexCCW, aboveAxis, cross2K]

/-- **`RevolvedShape` of the four fan disk sketches** (`OneCoreDisk`, `QuarterDisk`, `HalfDisk`, `FourCoreDisk`):
    for every axis in the sketch plane (point `o`, unit direction `k`, unit sketch normal `N ⟂ k`), every centre at
    height `y0 > 0` over the axis (`(x0, y0)` in the frame of the axis), every radius vector `α k + β (N × k)`
    shorter than `y0` (the axis passes outside the disk), ratios satisfying `DiskOK`, `2h² ≤ 1`, and every sweep
    with positive sine (0 < angle < π): every block between the sketch and its turned copy has eight positive
    corner Jacobians.  (The fan frame is mapped to the axis frame by a plane similarity, `frame_in_axis_frame`,
    which keeps the quads convex and counter-clockwise, `convexCCW_sim`; heights by Cauchy–Schwarz, `sim_height_pos`.) -/
theorem T_C11_revolved_disk_rightHanded {K : Type} [Field K] [LinearOrder K] [IsStrictOrderedRing K]
    (cl : DiskCls) (o k N : P3 K) (x0 y0 α β h kk dg cs sn : K)
    (hk : P3.nsq k = 1) (hN : P3.nsq N = 1) (hNk : P3.dot N k = 0) (hsn : 0 < sn) (hy : 0 < y0)
    (hs : 0 < α * α + β * β) (hr : α * α + β * β < y0 * y0) (hok : DiskOK cl h kk dg) (hh2 : 2 * (h * h) ≤ 1) :
    ∀ H ∈ revolvedHexes (sketchQuads cl.name) cl (frame o k N ⟨x0, y0, 0⟩)
        (P3.add (frame o k N ⟨x0, y0, 0⟩) (P3.add (P3.smul α k) (P3.smul β (P3.cross N k)))) N h kk dg cs sn k o, H.RH :=
  revolved_disk_RH cl o k N x0 y0 α β h kk dg cs sn hk hN hNk hsn hy hs hr hok hh2

/-- non-vacuity: a `FourCoreDisk` of radius √2 with its centre 3 above the x axis, turned by (cos, sin) = (3/5, 4/5) -/
example : ∀ H ∈ revolvedHexes (sketchQuads "FourCoreDisk") .fourCore (frame (⟨0, 0, 0⟩ : P3 Rat) ⟨1, 0, 0⟩ ⟨0, 0, 1⟩ ⟨1, 3, 0⟩)
    (P3.add (frame ⟨0, 0, 0⟩ ⟨1, 0, 0⟩ ⟨0, 0, 1⟩ ⟨1, 3, 0⟩)
      (P3.add (P3.smul 1 ⟨1, 0, 0⟩) (P3.smul 1 (P3.cross ⟨0, 0, 1⟩ ⟨1, 0, 0⟩)))) ⟨0, 0, 1⟩ (7 / 10) (4 / 5) (9 / 10)
    (3 / 5) (4 / 5) ⟨1, 0, 0⟩ ⟨0, 0, 0⟩, H.RH :=
  T_C11_revolved_disk_rightHanded .fourCore _ _ _ 1 3 1 1 _ _ _ _ _ (by norm_num [P3.nsq, P3.dot])
    (by norm_num [P3.nsq, P3.dot]) (by norm_num [P3.dot]) (by norm_num) (by norm_num) (by norm_num) (by norm_num)
    (by unfold DiskOK; norm_num) (by norm_num)

/-- over ℝ with the constants of the source and `h = √2/2`: no condition on the ratios is left -/
theorem T_C11_revolved_disk_real (cl : DiskCls) (o k N : P3 ℝ) (x0 y0 α β cs sn : ℝ)
    (hk : P3.nsq k = 1) (hN : P3.nsq N = 1) (hNk : P3.dot N k = 0) (hsn : 0 < sn) (hy : 0 < y0)
    (hs : 0 < α * α + β * β) (hr : α * α + β * β < y0 * y0) :
    ∀ H ∈ revolvedHexes (sketchQuads cl.name) cl (frame o k N ⟨x0, y0, 0⟩)
        (P3.add (frame o k N ⟨x0, y0, 0⟩) (P3.add (P3.smul α k) (P3.smul β (P3.cross N k)))) N (Real.sqrt 2 / 2)
        coreRatioR diagRatioR cs sn k o, H.RH :=
  T_C11_revolved_disk_rightHanded cl o k N x0 y0 α β _ _ _ cs sn hk hN hNk hsn hy hs hr (T_C11_disk_constants cl)
    (le_of_eq T_C11_half_sqrt_two)

/-- **`RevolvedShape` of a `WrappedDisk`**: for every axis in the sketch plane (point `o`, unit direction `k`, unit
    sketch normal `N ⟂ k`), every centre at height `y0 > 0` over the axis, every corner vector `α k + β (N × k)` shorter
    than `y0` (the axis passes outside the circle through the four corners — the bounding circle of the sketch),
    `0 < radius < wn` (inner circle inside the square), `0 < diagonal_ratio < 1` and every sweep with positive sine
    (0 < angle < π): every block between the sketch and its turned copy has eight positive corner Jacobians.
    (`revolved_fan_RH`: the same for any sketch given in the frame of a fan inside its unit disk.) -/
theorem T_C11_revolved_wrapped_rightHanded {K : Type} [Field K] [LinearOrder K] [IsStrictOrderedRing K]
    (o k N : P3 K) (x0 y0 α β h dg radius wn cs sn : K)
    (hk : P3.nsq k = 1) (hN : P3.nsq N = 1) (hNk : P3.dot N k = 0) (hsn : 0 < sn) (hy : 0 < y0)
    (hs : 0 < α * α + β * β) (hr : α * α + β * β < y0 * y0)
    (hd0 : 0 < dg) (hd1 : dg < 1) (hr0 : 0 < radius) (hr1 : radius < wn) :
    ∀ H ∈ revolveOf (sketchQuads "WrappedDisk")
        (wrappedPts (frame o k N ⟨x0, y0, 0⟩)
          (P3.add (frame o k N ⟨x0, y0, 0⟩) (P3.add (P3.smul α k) (P3.smul β (P3.cross N k)))) N h dg radius wn)
        (frame o k N ⟨x0, y0, 0⟩) cs sn k o, H.RH :=
  revolved_wrapped_RH o k N x0 y0 α β h dg radius wn cs sn hk hN hNk hsn hy hs hr hd0 hd1 hr0 hr1

/-- non-vacuity: a wrapped disk with its corner at distance √2, circle of radius 1/2 (witness `wn = 7/5`), centre 3
    above the x axis, turned by (cos, sin) = (3/5, 4/5) -/
example : ∀ H ∈ revolveOf (sketchQuads "WrappedDisk")
    (wrappedPts (frame (⟨0, 0, 0⟩ : P3 Rat) ⟨1, 0, 0⟩ ⟨0, 0, 1⟩ ⟨1, 3, 0⟩)
      (P3.add (frame ⟨0, 0, 0⟩ ⟨1, 0, 0⟩ ⟨0, 0, 1⟩ ⟨1, 3, 0⟩)
        (P3.add (P3.smul 1 ⟨1, 0, 0⟩) (P3.smul 1 (P3.cross ⟨0, 0, 1⟩ ⟨1, 0, 0⟩)))) ⟨0, 0, 1⟩ (7 / 10) (9 / 10) (1 / 2) (7 / 5))
    (frame ⟨0, 0, 0⟩ ⟨1, 0, 0⟩ ⟨0, 0, 1⟩ ⟨1, 3, 0⟩) (3 / 5) (4 / 5) ⟨1, 0, 0⟩ ⟨0, 0, 0⟩, H.RH :=
  T_C11_revolved_wrapped_rightHanded _ _ _ 1 3 1 1 _ _ _ _ _ _ (by norm_num [P3.nsq, P3.dot])
    (by norm_num [P3.nsq, P3.dot]) (by norm_num [P3.dot]) (by norm_num) (by norm_num) (by norm_num) (by norm_num)
    (by norm_num) (by norm_num) (by norm_num) (by norm_num)

/-- **`RevolvedShape` of an `Oval`**: for every axis in the sketch plane (point `o`, unit direction `k`, unit sketch
    normal `N ⟂ k`), first centre at height `y0 > 0` (`(x0, y0)` in the frame of the axis), second centre
    `c1 + a k + b (N × k)` with `(a, b) ≠ 0`, `radius > 0`, any witness `wd > 0` of `|c2 − c1|`, ratios as for the half
    disk, `2h² ≤ 1`, every sweep with positive sine, and the axis outside the circle about the first centre with radius
    `(wd/radius + 1)(radius/wd)·|c2 − c1|` (`= radius + |c2 − c1|` for the true witness; it contains all 22
    positions): every block between the sketch and its turned copy has eight positive corner Jacobians.
    (`cross_axis_vec`, `frame_rescale`, `ovalL_facts`, `scaled_unit`, then `revolved_fan_RH`.) -/
theorem T_C11_revolved_oval_rightHanded {K : Type} [Field K] [LinearOrder K] [IsStrictOrderedRing K]
    (o k N : P3 K) (x0 y0 a b h kk dg radius wd cs sn : K)
    (hk : P3.nsq k = 1) (hN : P3.nsq N = 1) (hNk : P3.dot N k = 0) (hsn : 0 < sn) (hy : 0 < y0)
    (hr0 : 0 < radius) (hw : 0 < wd) (hab : 0 < a * a + b * b)
    (hr : ((wd / radius + 1) * (radius / wd) * (-b)) * ((wd / radius + 1) * (radius / wd) * (-b))
        + ((wd / radius + 1) * (radius / wd) * a) * ((wd / radius + 1) * (radius / wd) * a) < y0 * y0)
    (hok : DiskOK .half h kk dg) (hh2 : 2 * (h * h) ≤ 1) :
    ∀ H ∈ revolveOf (sketchQuads "Oval")
        (ovalPts (frame o k N ⟨x0, y0, 0⟩)
          (P3.add (frame o k N ⟨x0, y0, 0⟩) (P3.add (P3.smul a k) (P3.smul b (P3.cross N k)))) N h kk dg radius wd)
        (frame o k N ⟨x0, y0, 0⟩) cs sn k o, H.RH :=
  revolved_oval_RH o k N x0 y0 a b h kk dg radius wd cs sn hk hN hNk hsn hy hr0 hw hab hr hok hh2

/-- non-vacuity: an oval of radius 1 with centres 2 apart (first centre 6 above the x axis), turned by (3/5, 4/5) -/
example : ∀ H ∈ revolveOf (sketchQuads "Oval")
    (ovalPts (frame (⟨0, 0, 0⟩ : P3 Rat) ⟨1, 0, 0⟩ ⟨0, 0, 1⟩ ⟨1, 6, 0⟩)
      (P3.add (frame ⟨0, 0, 0⟩ ⟨1, 0, 0⟩ ⟨0, 0, 1⟩ ⟨1, 6, 0⟩)
        (P3.add (P3.smul 0 ⟨1, 0, 0⟩) (P3.smul 2 (P3.cross ⟨0, 0, 1⟩ ⟨1, 0, 0⟩)))) ⟨0, 0, 1⟩ (7 / 10) (4 / 5) (9 / 10) 1 2)
    (frame ⟨0, 0, 0⟩ ⟨1, 0, 0⟩ ⟨0, 0, 1⟩ ⟨1, 6, 0⟩) (3 / 5) (4 / 5) ⟨1, 0, 0⟩ ⟨0, 0, 0⟩, H.RH :=
  T_C11_revolved_oval_rightHanded _ _ _ 1 6 0 2 _ _ _ _ _ _ _ (by norm_num [P3.nsq, P3.dot])
    (by norm_num [P3.nsq, P3.dot]) (by norm_num [P3.dot]) (by norm_num) (by norm_num) (by norm_num) (by norm_num)
    (by norm_num) (by norm_num) (by unfold DiskOK; norm_num) (by norm_num)

/-! ## Part G — joints: one construction for every branch count -/

/-- the hand model `jointBlocks n` / `jointChopNodes n` (uniform in `n`) is the assembled `NJoint(n)` probe, vertex
    number by vertex number, with its chop dispatch, for every branch count of the probe table (2..6); other
    branch counts are compared on every generated NJoint case (request `c11.joint`) -/
theorem T_C11_joint_model_matches_probes : ∀ n ∈ [2, 3, 4, 5, 6], jointMatchesProbe n = true := by decide +kernel

/- Full statement (not proved): `∀ n ≥ 2, writeOk (jointBlocks n halfQuads) (jointChopNodes n) = true` — the three
   chop calls of a joint reach every axis for every number of branches.  Missing: the induction over the branch index
   (shared-wire lemmas for the 12 blocks of a branch and its two mitre faces, as `T_C11_ring` has for a ring segment).
   Proved part: every branch count from 2 to 12 on the uniform model, by evaluation. -/
theorem T_C11_joint_choppable_upto12_partial :
    ∀ n ∈ [2, 3, 4, 5, 6, 7, 8, 9, 10, 11, 12], writeOk (jointBlocks n halfQuads) (jointChopNodes n) = true := by
  decide +kernel

/- The clause "every family chopped exactly once" is FALSE for joints; the true clause is: a joint with `n` branches
   has `2 n + 3` wire families (n axial, n − 1 + 3 tangential, 1 radial, …), every one is chopped at least once
   (`T_C11_joint_choppable_upto12_partial`), all of them exactly once except the radial family, which is chopped twice:
   `chop_radial` chops `shell[0]` of both halves of branch 0 and their radial wires are joined through the common
   diameter.  Full statement `∀ n ≥ 2` not proved (same missing induction); proved for 2..8 by evaluation. -/
theorem T_C11_joint_families_upto8_partial : ∀ n ∈ [2, 3, 4, 5, 6, 7, 8],
    (jointFamilyCounts n).length = 2 * n + 3 ∧ (jointFamilyCounts n).filter (· != 1) = [2] := by
  decide +kernel

/-- the model has 12 blocks per branch and 23 n + 5 vertices (17 bottom points per branch, 6 per mitre face, 5 on the
    common axis), for the same branch counts -/
theorem T_C11_joint_counts_partial : ∀ n ∈ [2, 3, 4, 5, 6, 7, 8, 9, 10, 11, 12],
    (jointBlocks n halfQuads).length = 12 * n ∧ vertexBound (jointBlocks n halfQuads) = 23 * n + 5 := by
  decide +kernel

end CBV.C11
