/-
C18 — property theorems.  The geometric finders return exactly the vertices inside the sphere /
on the plane (to the merge tolerance), the round-shape finder exactly the core / the outer rim
(sketch tables regenerated from the source on every run); the view-point re-orienter returns the
same eight points, and the numbering the property asks for is unique among the 48 relabellings.
-/
import CBV.Lemmas.C18
import CBV.Lemmas.C18Hex
import CBV.Lemmas.C18Model
import CBV.Lemmas.C18Data
import CBV.Lemmas.C18Clear
import CBV.Lemmas.C18Sides
import CBV.Lemmas.C18Disk
import CBV.Lemmas.C18Reject
import CBV.Lemmas.C18Stable
import CBV.Lemmas.C18Gap
import CBV.Lemmas.C18Wrap
import Mathlib.Analysis.Real.Sqrt
import CBV.Gen.TC18
import CBV.Gen.TC19

namespace CBV.C18

open CBV

/-! ### geometric finders: no vertex missed, none extra -/

/-- `find_in_sphere` returns exactly the (indices of the) vertices with `|v - c| < r`, `r > 0`. -/
theorem T_C18_sphere (vs : List V3) (c : V3) (r : Option Rat) (i : Nat) :
    i ∈ findInSphere vs c r ↔
      i < vs.length ∧ 0 < r.getD tol ∧ dist2 (vs.getD i V3.zero) c < r.getD tol * r.getD tol := by
  simp [findInSphere, mem_findIdx, inSphere]

/-- … without repetition, in the order of the vertex list -/
theorem T_C18_sphere_nodup (vs : List V3) (c : V3) (r : Option Rat) : (findInSphere vs c r).Nodup :=
  List.Nodup.sublist List.filter_sublist List.nodup_range

/-- the rejecting branch: a radius ≤ 0 finds nothing (the squares alone would say otherwise) -/
theorem T_C18_sphere_nonpositive (vs : List V3) (c : V3) (r : Rat) (h : r ≤ 0) :
    findInSphere vs c (some r) = [] := by
  apply List.eq_nil_iff_forall_not_mem.mpr
  intro i hi
  rw [T_C18_sphere] at hi
  exact absurd hi.2.1 (not_lt.mpr h)

example : findInSphere [⟨0, 0, 0⟩, ⟨1, 0, 0⟩, ⟨0, 2, 0⟩] ⟨0, 0, 0⟩ (some (3 / 2)) = [0, 1] := by decide +kernel
example : findInSphere [⟨0, 0, 0⟩, ⟨1, 0, 0⟩] ⟨1, 0, 0⟩ none = [1] := by decide +kernel

/-- history / frame: the finder holds no copy of the positions — after vertex `k` has been moved the answer is the
    filter over the *new* positions, so every other vertex is found iff it was found before and vertex `k` iff its new
    position lies in the sphere -/
theorem T_C18_sphere_after_move (vs : List V3) (k : Nat) (p c : V3) (r : Option Rat) (i : Nat) :
    i ∈ findInSphere (vs.set k p) c r ↔
      if i = k then i < vs.length ∧ inSphere c (r.getD tol) p else i ∈ findInSphere vs c r := by
  rw [T_C18_sphere, T_C18_sphere]
  by_cases h : i = k
  · subst h
    simp only [if_true, List.length_set, inSphere]
    constructor
    · rintro ⟨hl, hr⟩
      have : (vs.set i p).getD i V3.zero = p := by simp [List.getD_eq_getElem?_getD, hl]
      rw [this] at hr
      exact ⟨hl, hr⟩
    · rintro ⟨hl, hr⟩
      have : (vs.set i p).getD i V3.zero = p := by simp [List.getD_eq_getElem?_getD, hl]
      rw [this]
      exact ⟨hl, hr⟩
  · have : (vs.set k p).getD i V3.zero = vs.getD i V3.zero := by
      simp [List.getD_eq_getElem?_getD, List.getElem?_set_ne (Ne.symm h)]
    simp only [h, if_false, List.length_set, this]

/-- history across re-assembly: whatever happened to the mesh since the finder was created, once the mesh has been
    re-assembled the finder returns exactly the vertices of the *new* assembly (indices into the current
    `mesh.vertices`) that lie in the sphere / on the plane — nothing of an earlier assembly survives -/
theorem T_C18_after_reassembly (vs vs' : List V3) (before : List MeshEvent) (c o n : V3) (r : Option Rat) (i : Nat) :
    (i ∈ findInSphereAfter vs (before ++ [.reassemble vs']) c r ↔
      i < vs'.length ∧ 0 < r.getD tol ∧ dist2 (vs'.getD i V3.zero) c < r.getD tol * r.getD tol) ∧
    (i ∈ findOnPlaneAfter vs (before ++ [.reassemble vs']) o n ↔ i < vs'.length ∧ onPlane o n (vs'.getD i V3.zero)) := by
  have h : meshAfter vs (before ++ [.reassemble vs']) = vs' := by
    simp [meshAfter, List.foldl_append, MeshEvent.apply]
  unfold findInSphereAfter findOnPlaneAfter
  rw [h]
  exact ⟨T_C18_sphere vs' c r i, by simp [findOnPlane, mem_findIdx]⟩

/-- … and in general the answer after any history is the filter over the current vertex list -/
theorem T_C18_finder_history (vs : List V3) (es : List MeshEvent) (c : V3) (r : Option Rat) (i : Nat) :
    i ∈ findInSphereAfter vs es c r ↔
      i < (meshAfter vs es).length ∧ 0 < r.getD tol ∧
        dist2 ((meshAfter vs es).getD i V3.zero) c < r.getD tol * r.getD tol :=
  T_C18_sphere _ c r i

example : findInSphereAfter [⟨0, 0, 0⟩, ⟨1, 0, 0⟩] [.move 1 ⟨5, 0, 0⟩, .reassemble [⟨5, 0, 0⟩, ⟨0, 0, 0⟩, ⟨0, 1, 0⟩]]
    ⟨0, 0, 0⟩ (some (3 / 2)) = [1, 2] := by decide +kernel

/-! ### a finder session: all four finders, interleaved with moves and re-assemblies -/

/-- a session can be cut anywhere: the answers after a prefix are those of a fresh session on the vertex list the
    prefix leaves behind (the finder object carries nothing over) -/
theorem T_C18_session_split (vs : List V3) (pre ops : List SessOp) :
    runSession vs (pre ++ ops) = runSession vs pre ++ runSession (stateAfter vs pre) ops := by
  induction pre generalizing vs with
  | nil => rfl
  | cons op pre ih =>
    simp only [List.cons_append, runSession, stateAfter, List.foldl_cons]
    cases h : op.answer vs with
    | none => simp only [h]; exact ih _
    | some a => simp only [h, List.cons_append]; congr 1; exact ih _

/-- every query of a session — sphere, plane, core, shell — is answered by the stateless finder on the vertex list
    that is current when it is asked -/
theorem T_C18_session_query (vs : List V3) (pre : List SessOp) :
    (∀ c r, runSession vs (pre ++ [.sphere c r]) = runSession vs pre ++ [findInSphere (stateAfter vs pre) c r]) ∧
    (∀ o n, runSession vs (pre ++ [.plane o n]) = runSession vs pre ++ [findOnPlane (stateAfter vs pre) o n]) ∧
    (∀ s pts, runSession vs (pre ++ [.core s pts]) = runSession vs pre ++ [findCore (stateAfter vs pre) s pts]) ∧
    (∀ s pts, runSession vs (pre ++ [.shell s pts]) = runSession vs pre ++ [findShell (stateAfter vs pre) s pts]) := by
  refine ⟨?_, ?_, ?_, ?_⟩ <;> intros <;> rw [T_C18_session_split] <;> rfl

/-- queries do not change the mesh; a re-assembly replaces the vertex list whatever happened before, so after it the
    session continues like a fresh one on the new assembly — for the round-shape finder as well as for the geometric one -/
theorem T_C18_session_reassembly (vs vs' : List V3) (pre post : List SessOp) :
    stateAfter vs (pre ++ [.reassemble vs']) = vs' ∧
    runSession vs (pre ++ .reassemble vs' :: post) = runSession vs pre ++ runSession vs' post := by
  have h : stateAfter vs (pre ++ [.reassemble vs']) = vs' := by
    simp [stateAfter, List.foldl_append, SessOp.next]
  refine ⟨h, ?_⟩
  have : pre ++ SessOp.reassemble vs' :: post = (pre ++ [.reassemble vs']) ++ post := by simp
  rw [this, T_C18_session_split, h, T_C18_session_split]
  simp [runSession, SessOp.answer]

example : runSession [⟨0, 0, 0⟩, ⟨1, 0, 0⟩]
    [.sphere ⟨0, 0, 0⟩ (some (3 / 2)), .move 1 ⟨5, 0, 0⟩, .sphere ⟨0, 0, 0⟩ (some (3 / 2)),
     .reassemble [⟨5, 0, 0⟩, ⟨0, 0, 0⟩, ⟨0, 1, 0⟩], .sphere ⟨0, 0, 0⟩ (some (3 / 2)), .plane ⟨0, 0, 0⟩ ⟨1, 0, 0⟩]
    = [[0, 1], [0], [1, 2], [1, 2]] := by decide +kernel

/-- `find_on_plane` returns exactly the vertices that pass `is_point_on_plane` -/
theorem T_C18_plane (vs : List V3) (o n : V3) (i : Nat) :
    i ∈ findOnPlane vs o n ↔ i < vs.length ∧ onPlane o n (vs.getD i V3.zero) := by
  simp [findOnPlane, mem_findIdx]

/-- the coincident-origin shortcut never changes the answer: for a proper normal the test is
    `((v - o)·n)² < TOL² |n|²` -/
theorem T_C18_plane_shortcut (o n v : V3) (hn : n ≠ V3.zero) :
    onPlane o n v ↔ V3.dot (v - o) n * V3.dot (v - o) n < tol * tol * V3.norm2 n := by
  unfold onPlane
  constructor
  · rintro (h | h)
    · exact plane_shortcut hn h
    · exact h
  · exact Or.inr

/-- … and that is the geometric statement: some point of the plane lies within TOL of the vertex -/
theorem T_C18_plane_geometric (o n v : V3) (hn : n ≠ V3.zero) :
    onPlane o n v ↔ ∃ p : V3, V3.dot (p - o) n = 0 ∧ dist2 v p < tol * tol := by
  rw [T_C18_plane_shortcut o n v hn]
  have hN := norm2_pos hn
  constructor
  · intro h
    refine ⟨foot o n v, foot_on_plane hn, ?_⟩
    have := foot_dist (o := o) (v := v) hn
    by_contra hc
    have hc : tol * tol ≤ dist2 v (foot o n v) := not_lt.mp hc
    have : tol * tol * V3.norm2 n ≤ dist2 v (foot o n v) * V3.norm2 n := mul_le_mul_of_nonneg_right hc (le_of_lt hN)
    linarith
  · rintro ⟨p, hp, hd⟩
    have hsplit : V3.dot (v - o) n = V3.dot (v - p) n := by
      unfold V3.dot at *
      simp only [V3.sub_x, V3.sub_y, V3.sub_z] at *
      linear_combination hp
    rw [hsplit]
    have hc := cauchy (v - p) n
    have hd' : V3.norm2 (v - p) < tol * tol := hd
    have : V3.norm2 (v - p) * V3.norm2 n < tol * tol * V3.norm2 n := mul_lt_mul_of_pos_right hd' hN
    linarith

/-- the degenerate branch: without a normal only the vertices coincident with the origin are returned -/
theorem T_C18_plane_zero_normal (o v : V3) : onPlane o V3.zero v ↔ dist2 o v < tol * tol := by
  unfold onPlane
  have : V3.norm2 V3.zero = 0 := by simp [V3.norm2, V3.dot, V3.zero]
  have h0 : V3.dot (v - o) V3.zero = 0 := by unfold V3.dot V3.zero; simp
  rw [this, h0]
  simp

example : findOnPlane [⟨0, 0, 0⟩, ⟨1, 0, 0⟩, ⟨1, 1, 5⟩, ⟨0, 0, 1⟩] ⟨1, 0, 0⟩ ⟨3, 0, 0⟩ = [1, 2] := by decide +kernel

/-! ### round-shape finder: exactly the core / the outer rim -/

/-- the sketches the tables were generated for (every class a round shape of the library is built from) -/
theorem T_C18_sketch_names :
    sketches.map (·.name) =
      ["OneCoreDisk", "QuarterDisk", "HalfDisk", "FourCoreDisk", "WrappedDisk", "Annulus8", "Annulus5"] := by decide

/-- on the tables of the current source: the points `[1:3]` of the shell faces are exactly the points at the
    outer radius, no core point lies there, and in the solid disks every other point is a core point -/
theorem T_C18_shape : ∀ s ∈ sketches, shapeOk s = true := by decide

theorem T_C18_find_core (vs : List V3) (s : Sketch) (pts : List V3) (i : Nat) :
    i ∈ findCore vs s pts ↔
      i < vs.length ∧ ∃ k ∈ s.corePts, near (vs.getD i V3.zero) (pts.getD k V3.zero) := by
  simp [findCore, findFromPoints, mem_findIdx, pickPts]

theorem T_C18_find_shell (vs : List V3) (s : Sketch) (pts : List V3) (i : Nat) :
    i ∈ findShell vs s pts ↔
      i < vs.length ∧ ∃ k ∈ s.shellOuterPts, near (vs.getD i V3.zero) (pts.getD k V3.zero) := by
  simp [findShell, findFromPoints, mem_findIdx, pickPts]

/-- `find_shell` returns exactly the vertices that coincide with a point of the outer rim of the end face -/
theorem T_C18_find_shell_rim (vs : List V3) (s : Sketch) (hs : s ∈ sketches) (pts : List V3) (i : Nat) :
    i ∈ findShell vs s pts ↔
      i < vs.length ∧ ∃ k, s.isRim k = true ∧ near (vs.getD i V3.zero) (pts.getD k V3.zero) := by
  rw [T_C18_find_shell]
  have hok := T_C18_shape s hs
  simp only [shapeOk, Bool.and_eq_true, List.all_eq_true, List.mem_range, decide_eq_true_eq] at hok
  obtain ⟨⟨h1, h2⟩, _⟩ := hok
  constructor
  · rintro ⟨hi, k, hk, hn⟩
    refine ⟨hi, k, ?_, hn⟩
    have := (h1 k (h2 k hk)).1.1
    rw [← beq_iff_eq.mp this]
    simpa using hk
  · rintro ⟨hi, k, hk, hn⟩
    refine ⟨hi, k, ?_, hn⟩
    have hlt : k < s.nPts := by
      simp only [Sketch.isRim, Bool.and_eq_true, decide_eq_true_eq] at hk
      exact hk.1
    have := (h1 k hlt).1.1
    have hc : s.shellOuterPts.contains k = true := by rw [beq_iff_eq.mp this]; exact hk
    simpa using hc

/-- … hence after any history that ends with a re-assembly `find_shell` returns exactly the vertices of the new
    assembly that coincide with a rim point of the end face -/
theorem T_C18_shell_after_reassembly (vs vs' : List V3) (pre : List SessOp) (s : Sketch) (hs : s ∈ sketches)
    (pts : List V3) :
    ∃ a, runSession vs (pre ++ [.reassemble vs', .shell s pts]) = runSession vs pre ++ [a] ∧
      ∀ i, i ∈ a ↔ i < vs'.length ∧ ∃ k, s.isRim k = true ∧ near (vs'.getD i V3.zero) (pts.getD k V3.zero) := by
  refine ⟨findShell vs' s pts, ?_, fun i => T_C18_find_shell_rim vs' s hs pts i⟩
  rw [(T_C18_session_reassembly vs vs' pre [.shell s pts]).2]
  rfl

/-- The shape finder knows no origin: a sketch point is matched by *distance* `< TOL`, with no tolerance relative to the
    size of the coordinates — moving the shape and the mesh together by any vector `t` (plant or georeferenced
    coordinates) leaves `find_core` / `find_shell` unchanged. -/
theorem T_C18_translation_free (vs ps : List V3) (t : V3) :
    findFromPoints (vs.map (· + t)) (ps.map (· + t)) = findFromPoints vs ps := by
  have hn : ∀ a b : V3, near (a + t) (b + t) ↔ near a b := by
    intro a b
    unfold near dist2 V3.norm2 V3.dot
    simp only [V3.sub_x, V3.sub_y, V3.sub_z, V3.add_x, V3.add_y, V3.add_z]
    constructor <;> intro h <;> nlinarith [h]
  unfold findFromPoints findIdx
  rw [List.length_map]
  apply List.filter_congr
  intro i hi
  have hi := List.mem_range.mp hi
  have hg : (vs.map (· + t)).getD i V3.zero = vs.getD i V3.zero + t := by
    simp [List.getD_eq_getElem?_getD, hi]
  rw [hg]
  show ((ps.map (· + t)).any fun p => decide (near (vs.getD i V3.zero + t) p)) =
    ps.any fun p => decide (near (vs.getD i V3.zero) p)
  rw [List.any_map]
  congr 1
  funext p
  simp only [Function.comp, hn]

/-- `find_core` never returns a rim vertex and, in a solid disk, misses no other vertex of the end face:
    every sketch point is a core point or a rim point, never both -/
theorem T_C18_core_rim_partition (s : Sketch) (hs : s ∈ sketches) (k : Nat) (hk : k < s.nPts) :
    ¬ (k ∈ s.corePts ∧ s.isRim k = true) ∧ (s.solid = true → k ∈ s.corePts ∨ s.isRim k = true) := by
  have hok := T_C18_shape s hs
  simp only [shapeOk, Bool.and_eq_true, List.all_eq_true, List.mem_range, decide_eq_true_eq] at hok
  obtain ⟨⟨h1, _⟩, _⟩ := hok
  have h := h1 k hk
  constructor
  · rintro ⟨hc, hr⟩
    have := h.1.2
    simp [hr, hc] at this
  · intro hsol
    have := h.2
    simpa [hsol] using this

example : (sketchOf "FourCoreDisk").map (fun s => (s.corePts.eraseDups.length, s.shellOuterPts.eraseDups.length, s.solid))
    = some (9, 8, true) := by decide

/-! ### the model of `ViewpointReorienter.reorient` -/

/-- The same eight points: whenever the re-orienter returns, its result is a permutation of the eight points
    it was given (points pairwise distinct to the merge tolerance, hull simplices addressing them). -/
theorem T_C18_same_points (pts : List V3) (sim : List (Nat × Nat × Nat)) (obs ceil : V3) (out : List V3)
    (hnd : pts.Nodup) (hsep : ∀ a ∈ pts, ∀ b ∈ pts, near a b → a = b) (hsim : simplicesOk pts.length sim)
    (h : reorient pts sim obs ceil = .ok out) : out.Perm pts := by
  obtain ⟨tris, ht, hc⟩ := reorient_spec h
  obtain ⟨q, c0, hq, hc0, he, rfl⟩ := reorientCore_spec hc
  obtain ⟨hlen, hbt⟩ := cornersOf_subset hc0
  have hsub : ∀ p ∈ c0, p ∈ pts := by
    intro p hp
    apply makeTriangles_subset hsim ht
    rcases hbt p hp with hb | hb
    · exact quadsOf_subset hq "bottom" p hb
    · exact quadsOf_subset hq "top" p hb
  exact (fixHand_perm hlen).trans (eachOnce_perm hnd hsep hsub he)

/-- The numbering is the blockMesh one: whenever the re-orienter returns, every corner `k` of what it returns
    lies in the quads of exactly those sides that the generated `FACE_MAP` lists `k` for — the quads being the ones
    picked for the view directions, with left and right exchanged when the handedness repair strikes. -/
theorem T_C18_corners_in_sides (pts : List V3) (tris : List Tri) (c obs ceil : V3) (out : List V3)
    (h : reorientCore pts tris c obs ceil = .ok out) :
    ∃ q, quadsOf tris (dirsOf c obs ceil) = .ok q ∧ ∃ q' ∈ [q, q.swapLR],
      ∀ e ∈ CBV.Gen.faceMap, ∀ k ∈ e.2, nearMem (out.getD k V3.zero) (q'.get e.1) := by
  obtain ⟨q, c0, hq, hc0, _, rfl⟩ := reorientCore_spec h
  refine ⟨q, hq, ?_⟩
  have hs := cornersOf_sides hc0
  unfold fixHand
  simp only
  split
  · refine ⟨q.swapLR, by simp, ?_⟩
    obtain ⟨p0, p1, p2, p3, p4, p5, p6, p7, rfl, _⟩ := cornersOf_spec hc0
    intro e he k hk
    simp only [CBV.Gen.faceMap, List.mem_cons, List.not_mem_nil, or_false] at he
    have b := hs ("bottom", [0, 1, 2, 3]) (by decide)
    have t := hs ("top", [4, 5, 6, 7]) (by decide)
    have l := hs ("left", [4, 0, 3, 7]) (by decide)
    have r := hs ("right", [5, 1, 2, 6]) (by decide)
    have f := hs ("front", [4, 5, 1, 0]) (by decide)
    have bk := hs ("back", [7, 6, 2, 3]) (by decide)
    rcases he with rfl | rfl | rfl | rfl | rfl | rfl <;>
      simp only [List.mem_cons, List.not_mem_nil, or_false] at hk <;>
      rcases hk with rfl | rfl | rfl | rfl
    · exact b 1 (by decide)
    · exact b 0 (by decide)
    · exact b 3 (by decide)
    · exact b 2 (by decide)
    · exact t 5 (by decide)
    · exact t 4 (by decide)
    · exact t 7 (by decide)
    · exact t 6 (by decide)
    · exact r 5 (by decide)
    · exact r 1 (by decide)
    · exact r 2 (by decide)
    · exact r 6 (by decide)
    · exact l 4 (by decide)
    · exact l 0 (by decide)
    · exact l 3 (by decide)
    · exact l 7 (by decide)
    · exact f 5 (by decide)
    · exact f 4 (by decide)
    · exact f 0 (by decide)
    · exact f 1 (by decide)
    · exact bk 6 (by decide)
    · exact bk 7 (by decide)
    · exact bk 3 (by decide)
    · exact bk 2 (by decide)
  · exact ⟨q, by simp, hs⟩

/-- A side faces its view direction: the quad built in one pass of the loop consists of two of the remaining hull
    triangles, no remaining triangle has a larger normal component along the direction than the first of them, and
    none of those left over a larger one than the second (triangles non-degenerate). -/
theorem T_C18_best_aligned (dir : V3) (rem : List Tri) (q : List V3) (rest : List Tri)
    (hpos : ∀ t ∈ rem, 0 < V3.norm2 t.normalRaw) (h : quadStep dir rem = .ok (q, rest)) :
    ∃ b a, mkQuad b a = .ok q ∧ a ∈ rem ∧ b ∈ rem ∧ (∀ t ∈ rest, t ∈ rem) ∧
      (∀ t ∈ rem, ¬ alignLt (a.key dir) (t.key dir)) ∧ (∀ t ∈ rest, ¬ alignLt (b.key dir) (t.key dir)) := by
  obtain ⟨b, a, hp, hq⟩ := quadStep_spec h
  obtain ⟨ha, hb, hr⟩ := pick2_mem hp
  obtain ⟨m1, m2⟩ := pick2_max (d := dir) hpos hp
  exact ⟨b, a, hq, ha, hb, hr, m1, m2⟩

/-- … in particular the front quad is picked among all hull triangles for the observer direction and the top quad,
    for the (corrected) ceiling direction, among those left after front and back. -/
theorem T_C18_front_top (tris : List Tri) (d : Dirs) (q : Quads) (h : quadsOf tris d = .ok q) :
    ∃ r1 r2 r3, quadStep d.o tris = .ok (q.front, r1) ∧ quadStep (-d.o) r1 = .ok (q.back, r2) ∧
      quadStep d.t r2 = .ok (q.top, r3) := by
  obtain ⟨r1, r2, r3, _, _, _, h1, h2, h3, _⟩ := quadsOf_steps h
  exact ⟨r1, r2, r3, h1, h2, h3⟩

/-- The loop runs through the six named view directions of `Dirs.all` (tied to `_get_normals` by
    `T_C18_view_order`) in that order, every pass taking its two triangles from what the previous passes left over
    and storing the quad under the direction's name. -/
theorem T_C18_loop (tris : List Tri) (d : Dirs) (q : Quads) (h : quadsOf tris d = .ok q) :
    ∃ rems : List (List Tri), rems.length = 7 ∧ rems.getD 0 [] = tris ∧
      ∀ i < 6, quadStep (d.all.getD i ("", V3.zero)).2 (rems.getD i []) =
        .ok (q.get (d.all.getD i ("", V3.zero)).1, rems.getD (i + 1) []) := by
  obtain ⟨r1, r2, r3, r4, r5, r6, h1, h2, h3, h4, h5, h6⟩ := quadsOf_steps h
  refine ⟨[tris, r1, r2, r3, r4, r5, r6], rfl, rfl, ?_⟩
  intro i hi
  have : i = 0 ∨ i = 1 ∨ i = 2 ∨ i = 3 ∨ i = 4 ∨ i = 5 := by omega
  rcases this with rfl | rfl | rfl | rfl | rfl | rfl
  · exact h1
  · exact h2
  · exact h3
  · exact h4
  · exact h5
  · exact h6

/-- Whatever numbering the block had before: the initial numbering enters the re-orienter only through the hull.
    Any renumbering of the eight points (all 8! of them, not only the 48) that comes with the same hull triangles
    gives the same result. -/
theorem T_C18_numbering_independent (pts pts' : List V3) (sim sim' : List (Nat × Nat × Nat)) (obs ceil : V3)
    (hp : pts'.Perm pts) (ht : sim'.map (triOf pts') = sim.map (triOf pts)) :
    reorient pts' sim' obs ceil = reorient pts sim obs ceil := by
  have hl : sim'.length = sim.length := by simpa using congrArg List.length ht
  unfold reorient makeTriangles
  rw [hl, ht, average_perm hp]
  split
  · rfl
  · simp only [reorientCore_perm hp]

/-- the model returns on the unit cube (hypotheses of the theorems above are satisfiable) … -/
example : reorient cubePts cubeHull ⟨1 / 2, -10, 1 / 2⟩ ⟨1 / 2, 1 / 2, 10⟩ = .ok cubePts := by decide +kernel

/-- … a mirrored initial numbering with the correspondingly renumbered hull gives the same answer … -/
example : reorient (swapLR cubePts) (cubeHull.map (fun s => (perm [1, 0, 3, 2, 5, 4, 7, 6] s.1,
    perm [1, 0, 3, 2, 5, 4, 7, 6] s.2.1, perm [1, 0, 3, 2, 5, 4, 7, 6] s.2.2))) ⟨1 / 2, -10, 1 / 2⟩ ⟨1 / 2, 1 / 2, 10⟩
    = .ok cubePts := by decide +kernel

/-- … seen from the right (observer on +x) the numbering turns; a hull with fewer than 12 triangles is rejected -/
example : (reorient cubePts cubeHull ⟨10, 1 / 2, 1 / 2⟩ ⟨1 / 2, 1 / 2, 10⟩).toOption.map (indicesIn cubePts)
    = some [1, 2, 3, 0, 5, 6, 7, 4] := by decide +kernel

example : reorient cubePts (cubeHull.take 10) ⟨10, 1 / 2, 1 / 2⟩ ⟨1 / 2, 1 / 2, 10⟩ = .error .notConvex := by
  decide +kernel

example : cubePts.Nodup ∧ (∀ a ∈ cubePts, ∀ b ∈ cubePts, near a b → a = b) ∧ simplicesOk cubePts.length cubeHull := by
  unfold simplicesOk; decide +kernel

/-- tie to the source: for the probe view of the generated table `c18ViewOrder` (observer on -y, ceiling on +z) the
    model runs through the same six sides in the same order with the same directions as `_get_normals` -/
theorem T_C18_view_order :
    ((dirsOf ⟨0, 0, 0⟩ ⟨0, -10, 0⟩ ⟨0, 0, 10⟩).all.map (fun x => (x.1, signV x.2))) = CBV.Gen.c18ViewOrder := by
  decide +kernel

/-! ### repaired: two halves of different sides are not joined into a face

Before the repair the two best aligned hull triangles of two *different* warped sides could be joined into a "quad"
across a block edge; when the six quads happened to be consistent the result was a permutation of the points that is
none of the 48 relabellings of the block.  The code (and the model) now refuse two triangles whose unit normals are
more than 60° apart. -/

/-- the two halves of every quad the model builds are at most 60° apart -/
theorem T_C18_face_halves (t0 t1 : Tri) (q : List V3) (h : mkQuad t0 t1 = .ok q) : ¬ tooSteep t0 t1 := by
  unfold mkQuad at h
  split at h
  · cases h
  · assumption

/-- the failing input of the unrepaired tree (corpus/c18/reorient-block-restructured.json: a right-handed block with a
    closed convex hull of 12 triangles that was returned as `[4,0,7,6,5,1,3,2]`, not a relabelling) is now rejected -/
example : rhOk (Hex.ofList cxPts) = true ∧ hullProblems cxPts cxHull 0 = [] ∧ [4, 0, 7, 6, 5, 1, 3, 2] ∉ sym48 ∧
    reorient cxPts cxHull ⟨-53 / 64, -33 / 16, -71 / 16⟩ ⟨169 / 64, -45 / 32, -193 / 32⟩ = .error .degenerate := by
  decide +kernel

/-! ### one re-orienter, several blocks -/

/-- No history: a re-orienter that has already been used for any number of blocks treats the next block exactly like
    a fresh one — every result of a run is the result of `reorient` for that block alone (directions taken from
    *its* centre), and the object is unchanged. -/
theorem T_C18_history (r : Reorienter) (blocks : List Block) :
    r.run blocks = (r, blocks.map (fun b => reorient b.1 b.2 r.obs r.ceil)) := by
  induction blocks with
  | nil => rfl
  | cons b bs ih => simp only [Reorienter.run, Reorienter.step, ih, List.map_cons]

/-- … hence a block's result does not depend on what was re-oriented before it or after it -/
theorem T_C18_history_independent (r : Reorienter) (before after : List Block) (b : Block) :
    (r.run (before ++ b :: after)).2.getD before.length (.error .badView) = reorient b.1 b.2 r.obs r.ceil := by
  rw [T_C18_history]
  simp [List.getD_eq_getElem?_getD]

/-- two cubes on opposite sides of the observer: each gets the front that faces the observer from its own centre
    (the first keeps its numbering, the second is turned by 180° about z) -/
example : ((Reorienter.mk ⟨0, 1 / 2, 1 / 2⟩ ⟨0, 1 / 2, 100⟩).run
    [(cubePts.map (fun p => p + ⟨-1 / 2, 5, 0⟩), cubeHull), (cubePts.map (fun p => p + ⟨-1 / 2, -6, 0⟩), cubeHull)]).2.map
      (fun x => x.toOption.map (fun out => indicesIn cubePts (out.map (fun p => ⟨p.x + 1 / 2, p.y - (if p.y > 2 then 5 else -6), p.z⟩))))
    = [some [0, 1, 2, 3, 4, 5, 6, 7], some [2, 3, 0, 1, 6, 7, 4, 5]] := by decide +kernel

/-! ### the 48 relabellings and the canonical numbering -/

/-- the 48 relabellings are 48 different permutations of the corners, each maps the corner set of every side
    of the generated `FACE_MAP` onto the corner set of a side; the model's side cycles are those sides -/
theorem T_C18_relabel :
    sym48.length = 48 ∧ sym48.Nodup ∧
    (∀ l ∈ sym48, l.Perm (List.range 8) ∧ ∀ e ∈ CBV.Gen.faceMap, imgSet (e.2.map (perm l)) = true) ∧
    (∀ s ∈ List.range 6, sameSet ((List.range 4).map (cyc s)) ((CBV.Gen.faceMap.getD s ("", [])).2) = true) := by
  decide +kernel

/-- … and there are no others: a permutation of the corners that maps sides onto sides is one of the 48 -/
theorem T_C18_sym48_complete (l : List Nat) (hlen : l.length = 8) (hlt : ∀ i ∈ l, i < 8) (hnd : l.Nodup)
    (hs : ∀ e ∈ CBV.Gen.faceMap, imgSet (e.2.map (perm l)) = true) : l ∈ sym48 := by
  match l, hlen with
  | [a0, a1, a2, a3, a4, a5, a6, a7], _ =>
    have m : ∀ a ∈ [a0, a1, a2, a3, a4, a5, a6, a7], a ∈ List.range 8 := fun a ha => List.mem_range.mpr (hlt a ha)
    have hb := hs ("bottom", [0, 1, 2, 3]) (by decide)
    have ht := hs ("top", [4, 5, 6, 7]) (by decide)
    have hl := hs ("left", [4, 0, 3, 7]) (by decide)
    have hr := hs ("right", [5, 1, 2, 6]) (by decide)
    have hf := hs ("front", [4, 5, 1, 0]) (by decide)
    have hk := hs ("back", [7, 6, 2, 3]) (by decide)
    exact sym48_complete_aux a0 (m a0 (by simp)) a1 (m a1 (by simp)) a2 (m a2 (by simp)) a3 (m a3 (by simp)) hb
      a4 (m a4 (by simp)) a5 (m a5 (by simp)) hf a6 (m a6 (by simp)) hr a7 (m a7 (by simp)) ht hl hk hnd

example : ∀ e ∈ CBV.Gen.faceMap, imgSet (e.2.map (perm [1, 2, 3, 0, 5, 6, 7, 4])) = true := by decide

/-- handedness from the triple products: a rotation permutes the eight corner triple products,
    a mirrored relabelling permutes and negates them -/
theorem T_C18_triple_products (P : Hex) (l : List Nat) (i : Nat) (hi : i < 8) :
    (l ∈ proper24 → tp (relabel P (perm l)) i = tp P (perm l i)) ∧
    (l ∈ improper24 → tp (relabel P (perm l)) i = -tp P (perm l i)) :=
  ⟨fun h => tp_relabel_proper P l h i hi, fun h => tp_relabel_improper P l h i hi⟩

/-- At most one of the 48 numberings of a block is canonical: if a numbering and a relabelling of it both have
    the front side best aligned with the observer, the top side best aligned with the ceiling and positive
    triple products, the relabelling is the identity. -/
theorem T_C18_unique (obs ceil : V3) (P : Hex) (l : List Nat) (hl : l ∈ sym48)
    (h1 : Canonical obs ceil P) (h2 : Canonical obs ceil (relabel P (perm l))) : l = [0, 1, 2, 3, 4, 5, 6, 7] := by
  have hc := center_relabel P l hl
  rcases List.mem_append.mp hl with hp | hi
  · -- a rotation
    have img := sideImg_ok l hp
    by_cases hf : (sideImg l 4).1 = 4
    · by_cases ht : (sideImg l 1).1 = 1
      · exact rot_fix l hp hf ht
      · exfalso
        obtain ⟨hmem, s, hs, hs1⟩ := rot_top l hp hf ht
        have hs6 : s ∈ List.range 6 := by
          simp only [List.mem_cons, List.not_mem_nil, or_false] at hs
          rcases hs with rfl | rfl | rfl <;> decide
        have e1 := sideKey_relabel P l (dirsOf P.center obs ceil).t s _ _ (img s hs6).2.2 (img s hs6).1
        have e2 := sideKey_relabel P l (dirsOf P.center obs ceil).t 1 _ _ (img 1 (by decide)).2.2 (img 1 (by decide)).1
        have a2 := h2.top s hs
        rw [hc, e1, e2, hs1] at a2
        exact alignLt_asymm (h1.top _ hmem) a2
    · exfalso
      obtain ⟨hmem, s, hs, hs1⟩ := rot_front l hp hf
      have hs6 : s ∈ List.range 6 := by
        simp only [List.mem_cons, List.not_mem_nil, or_false] at hs
        rcases hs with rfl | rfl | rfl | rfl | rfl <;> decide
      have e1 := sideKey_relabel P l (dirsOf P.center obs ceil).o s _ _ (img s hs6).2.2 (img s hs6).1
      have e2 := sideKey_relabel P l (dirsOf P.center obs ceil).o 4 _ _ (img 4 (by decide)).2.2 (img 4 (by decide)).1
      have a2 := h2.front s hs
      rw [hc, e1, e2, hs1] at a2
      exact alignLt_asymm (h1.front _ hmem) a2
  · -- a mirrored relabelling is left-handed
    exfalso
    have a := h2.rh 0 (by decide)
    rw [tp_relabel_improper P l hi 0 (by decide)] at a
    have b := h1.rh (perm l 0) (List.mem_range.mpr (perm_lt l hl 0 (by decide)))
    linarith

/-- The handedness repair: when the eight corner triple products of the sorted points have one sign (a convex
    block, either handedness), the eight triple products of what `reorient` writes back are all positive. -/
theorem T_C18_right_handed (out : List V3)
    (h : (∀ i < 8, 0 < tp (Hex.ofList out) i) ∨ (∀ i < 8, tp (Hex.ofList out) i < 0)) :
    ∀ i < 8, 0 < tp (Hex.ofList (fixHand out)) i := by
  have h0 : tp (Hex.ofList out) 0 =
      det3 (out.getD 1 V3.zero - out.getD 0 V3.zero) (out.getD 3 V3.zero - out.getD 0 V3.zero)
        (out.getD 4 V3.zero - out.getD 0 V3.zero) := rfl
  rcases h with h | h
  · have : ¬ tp (Hex.ofList out) 0 < 0 := not_lt.mpr (le_of_lt (h 0 (by decide)))
    rw [h0] at this
    simp only [fixHand, this, if_false]
    exact h
  · have h00 := h 0 (by decide)
    rw [h0] at h00
    simp only [fixHand, h00, if_true]
    intro i hi
    have hsw : ∀ j < 8, Hex.ofList (swapLR out) j = relabel (Hex.ofList out) (perm [1, 0, 3, 2, 5, 4, 7, 6]) j := by
      intro j hj
      have : j = 0 ∨ j = 1 ∨ j = 2 ∨ j = 3 ∨ j = 4 ∨ j = 5 ∨ j = 6 ∨ j = 7 := by omega
      rcases this with rfl | rfl | rfl | rfl | rfl | rfl | rfl | rfl <;> rfl
    rw [tp_congr hsw i hi, tp_relabel_improper _ _ (by decide) i hi]
    have := h (perm [1, 0, 3, 2, 5, 4, 7, 6] i) (perm_lt _ (by decide) i (List.mem_range.mpr hi))
    linarith

/-- The handedness step knows no unit of length: the corner triple product is a volume and is compared with zero,
    not with the merge tolerance — scaling the sorted points by any `k > 0` (millimetre-sized blocks in metres)
    scales what is written back by the same `k`. -/
theorem T_C18_handedness_scale_free (out : List V3) (k : Rat) (hk : 0 < k) :
    fixHand (out.map (V3.smul k)) = (fixHand out).map (V3.smul k) := by
  have hz : V3.smul k V3.zero = V3.zero := by apply V3.ext' <;> simp [V3.zero]
  have hg : ∀ i, (out.map (V3.smul k)).getD i V3.zero = V3.smul k (out.getD i V3.zero) := by
    intro i
    simp only [List.getD_eq_getElem?_getD, List.getElem?_map]
    cases out[i]? <;> simp [hz]
  have hd : ∀ a b c d : V3, det3 (V3.smul k b - V3.smul k a) (V3.smul k c - V3.smul k a) (V3.smul k d - V3.smul k a)
      = k * k * k * det3 (b - a) (c - a) (d - a) := by
    intro a b c d; simp [det3, V3.dot]; ring
  have hk3 : 0 < k * k * k := mul_pos (mul_pos hk hk) hk
  unfold fixHand
  simp only [hg, hd]
  by_cases h : det3 (out.getD 1 V3.zero - out.getD 0 V3.zero) (out.getD 3 V3.zero - out.getD 0 V3.zero)
      (out.getD 4 V3.zero - out.getD 0 V3.zero) < 0
  · have : k * k * k * det3 (out.getD 1 V3.zero - out.getD 0 V3.zero) (out.getD 3 V3.zero - out.getD 0 V3.zero)
        (out.getD 4 V3.zero - out.getD 0 V3.zero) < 0 := mul_neg_of_pos_of_neg hk3 h
    simp only [this, h, if_true, swapLR, List.map_map, hg]
    simp [Function.comp_def]
  · have : ¬ k * k * k * det3 (out.getD 1 V3.zero - out.getD 0 V3.zero) (out.getD 3 V3.zero - out.getD 0 V3.zero)
        (out.getD 4 V3.zero - out.getD 0 V3.zero) < 0 := by
      intro hc
      have := (mul_neg_iff.mp hc)
      rcases this with ⟨_, h2⟩ | ⟨h1, _⟩
      · exact h h2
      · linarith
    simp only [this, h, if_false]

/-- a right-handed block of 4 × 3 × 2 mm (volume 2.4e-8, below the merge tolerance 1e-7) keeps its numbering -/
example : fixHand (cubePts.map (fun p => ⟨p.x * (4 / 1000), p.y * (3 / 1000), p.z * (2 / 1000)⟩))
    = cubePts.map (fun p => ⟨p.x * (4 / 1000), p.y * (3 / 1000), p.z * (2 / 1000)⟩) := by decide +kernel

/-- a left-handed unit cube is turned into a right-handed one -/
example : (List.range 8).all (fun i => decide (0 < tp (Hex.ofList (fixHand
    [⟨1, 0, 0⟩, ⟨0, 0, 0⟩, ⟨0, 1, 0⟩, ⟨1, 1, 0⟩, ⟨1, 0, 1⟩, ⟨0, 0, 1⟩, ⟨0, 1, 1⟩, ⟨1, 1, 1⟩])) i)) = true := by
  decide +kernel

/-- the validator behind the request `c18.canon` is sound and complete for the specification: it answers `ok` exactly
    for the numberings that are `Canonical` (so an accepted result can be fed to `T_C18_unique`) -/
theorem T_C18_validator (obs ceil : V3) (P : Hex) : canonicalOk obs ceil P = true ↔ Canonical obs ceil P := by
  simp only [canonicalOk, frontOk, topOk, rhOk, Bool.and_eq_true, List.all_eq_true, decide_eq_true_eq]
  constructor
  · rintro ⟨⟨h1, h2⟩, h3⟩; exact ⟨h1, h2, h3⟩
  · rintro ⟨h1, h2, h3⟩; exact ⟨⟨h1, h2⟩, h3⟩

example : canonicalOk ⟨1 / 2, -10, 1 / 2⟩ ⟨1 / 2, 1 / 2, 10⟩ unitCube = true := by decide +kernel

/-- the unit cube seen from the front (observer on -y, ceiling on +z) is canonical: the hypotheses are satisfiable -/
example : Canonical ⟨1 / 2, -10, 1 / 2⟩ ⟨1 / 2, 1 / 2, 10⟩ unitCube :=
  ⟨by decide +kernel, by decide +kernel, by decide +kernel⟩

/-- … and a rotated numbering of it is not (so `T_C18_unique` is not vacuous on the other side either) -/
example : ¬ frontOk ⟨1 / 2, -10, 1 / 2⟩ ⟨1 / 2, 1 / 2, 10⟩ (relabel unitCube (perm [1, 2, 3, 0, 5, 6, 7, 4])) = true := by
  decide +kernel

/-! ### round 6: the re-orienter in a clear view, by proof

`reorient` is followed through every step (hull triangles → orientation → six passes of `_get_aligned` +
`Quadrangle` → eight triple intersections → each-point-once check → handedness swap) for every block, every
triangulation of its six sides handed over by the hull oracle in any order, every input numbering and every view in
which each pass has a clear winner. -/

theorem average_toList (Q : Hex) : average Q.toList = Q.center := by
  rw [center_eq_sumV]
  simp [average, Hex.toList]

theorem toList_ofList {ql : List V3} (h : ql.length = 8) : (Hex.ofList ql).toList = ql := by
  match ql, h with
  | [p0, p1, p2, p3, p4, p5, p6, p7], _ => rfl

theorem sep_of_sepOk {Q : Hex} (h : sepOk Q = true) : Sep Q := by
  simp only [sepOk, List.all_eq_true, List.mem_range, Bool.or_eq_true, beq_iff_eq, Bool.not_eq_true',
    decide_eq_false_iff_not] at h
  intro i j hi hj hn
  rcases h i hi j hj with h | h
  · exact h
  · exact absurd hn h

/-- **Clear view ⇒ the numbering `Q`.**  `Q` is any numbering of the block whose corners are pairwise distinct to the
    merge tolerance; `pts` is the input in ANY order; the oriented hull triangles are — in ANY order, each with its
    vertices in any order, with EITHER diagonal per side (`sidesCut`) — the two halves of the front, back, top, bottom,
    left and right side of `Q`; in every pass the two halves of that side are strictly better aligned than every
    triangle still left and they are at most 60° apart (`ClearView`).  Then `reorient` does not raise and writes back
    `Q` (left and right exchanged if `Q` is left-handed).  The hull is the oracle; its contract is `htris` + `hcut`. -/
theorem T_C18_clear_view (Q : Hex) (hs : Sep Q) (pts : List V3) (hp : pts.Perm Q.toList)
    (sim : List ITri) (obs ceil : V3) (f1 f2 b1 b2 t1 t2 o1 o2 l1 l2 r1 r2 : ITri)
    (hcut : sidesCut f1 f2 b1 b2 t1 t2 o1 o2 l1 l2 r1 r2 = true)
    (htris : (orientedTris pts sim).Perm ([f1, f2, b1, b2, t1, t2, o1, o2, l1, l2, r1, r2].map (triP Q)))
    (hview : ¬ ((dirsOf Q.center obs ceil).o = V3.zero ∨ (dirsOf Q.center obs ceil).t = V3.zero))
    (hv : ClearView (dirsOf Q.center obs ceil) (triP Q f1) (triP Q f2) (triP Q b1) (triP Q b2) (triP Q t1) (triP Q t2) (triP Q o1) (triP Q o2) (triP Q l1) (triP Q l2) (triP Q r1) (triP Q r2)) :
    reorient pts sim obs ceil = .ok (fixHand Q.toList) := by
  have hlen : sim.length = 12 := by
    have := htris.length_eq
    simpa [orientedTris] using this
  have hc : average pts = Q.center := (average_perm hp).trans (average_toList Q)
  have := reorientCore_clear (c := average pts) hs hp hcut htris (hc ▸ hview) (hc ▸ hv)
  unfold reorient makeTriangles
  rw [if_neg (by omega)]
  exact this

/-- **Canonicalisation.**  Two inputs — the same block numbered differently (`pts`, `pts'` in any order), with hulls
    that cut the sides along different diagonals and list the triangles in different orders — are written back
    point for point the same, provided the view is clear for both hulls. -/
theorem T_C18_canonicalises (Q : Hex) (hs : Sep Q) (pts pts' : List V3) (hp : pts.Perm Q.toList)
    (hp' : pts'.Perm Q.toList) (sim sim' : List ITri) (obs ceil : V3) (f1 f2 b1 b2 t1 t2 o1 o2 l1 l2 r1 r2 : ITri) (f1' f2' b1' b2' t1' t2' o1' o2' l1' l2' r1' r2' : ITri)
    (hcut : sidesCut f1 f2 b1 b2 t1 t2 o1 o2 l1 l2 r1 r2 = true) (hcut' : sidesCut f1' f2' b1' b2' t1' t2' o1' o2' l1' l2' r1' r2' = true)
    (htris : (orientedTris pts sim).Perm ([f1, f2, b1, b2, t1, t2, o1, o2, l1, l2, r1, r2].map (triP Q)))
    (htris' : (orientedTris pts' sim').Perm ([f1', f2', b1', b2', t1', t2', o1', o2', l1', l2', r1', r2'].map (triP Q)))
    (hview : ¬ ((dirsOf Q.center obs ceil).o = V3.zero ∨ (dirsOf Q.center obs ceil).t = V3.zero))
    (hv : ClearView (dirsOf Q.center obs ceil) (triP Q f1) (triP Q f2) (triP Q b1) (triP Q b2) (triP Q t1) (triP Q t2) (triP Q o1) (triP Q o2) (triP Q l1) (triP Q l2) (triP Q r1) (triP Q r2))
    (hv' : ClearView (dirsOf Q.center obs ceil) (triP Q f1') (triP Q f2') (triP Q b1') (triP Q b2') (triP Q t1') (triP Q t2') (triP Q o1') (triP Q o2') (triP Q l1') (triP Q l2') (triP Q r1') (triP Q r2')) :
    reorient pts sim obs ceil = reorient pts' sim' obs ceil := by
  rw [T_C18_clear_view Q hs pts hp sim obs ceil f1 f2 b1 b2 t1 t2 o1 o2 l1 l2 r1 r2 hcut htris hview hv,
    T_C18_clear_view Q hs pts' hp' sim' obs ceil f1' f2' b1' b2' t1' t2' o1' o2' l1' l2' r1' r2' hcut' htris' hview hv']

theorem swapLR_toList (Q : Hex) : swapLR Q.toList = (relabel Q (perm [1, 0, 3, 2, 5, 4, 7, 6])).toList := rfl

theorem sym48_swap_closed :
    ∀ l ∈ sym48, (List.range 8).map (fun i => perm l (perm [1, 0, 3, 2, 5, 4, 7, 6] i)) ∈ sym48 := by decide +kernel

theorem relabel_toList_perm (P : Hex) (l : List Nat) (hl : l ∈ sym48) : P.toList.Perm (relabel P (perm l)).toList := by
  obtain ⟨h1, h2⟩ := sym48_perm l hl
  have : (relabel P (perm l)).toList = l.map P := by
    unfold Hex.toList relabel
    rw [← h2, List.map_map]
    rw [h2]
    rfl
  rw [this]
  exact (h1.map P).symm

/-- **One of the 48 relabellings of the input, right-handed.**  The input is a numbered block `P`; the view is clear
    for one of its 48 relabellings.  Then what is written back is again one of the 48 relabellings of `P` (the corner
    permutation preserves the sides and edges of the block) … -/
theorem T_C18_clear_view_relabelling (P : Hex) (l : List Nat) (hl : l ∈ sym48) (hs : Sep (relabel P (perm l)))
    (sim : List ITri) (obs ceil : V3) (f1 f2 b1 b2 t1 t2 o1 o2 l1 l2 r1 r2 : ITri)
    (hcut : sidesCut f1 f2 b1 b2 t1 t2 o1 o2 l1 l2 r1 r2 = true)
    (htris : (orientedTris P.toList sim).Perm ([f1, f2, b1, b2, t1, t2, o1, o2, l1, l2, r1, r2].map (triP (relabel P (perm l)))))
    (hview : ¬ ((dirsOf (relabel P (perm l)).center obs ceil).o = V3.zero ∨
      (dirsOf (relabel P (perm l)).center obs ceil).t = V3.zero))
    (hv : ClearView (dirsOf (relabel P (perm l)).center obs ceil) (triP (relabel P (perm l)) f1) (triP (relabel P (perm l)) f2) (triP (relabel P (perm l)) b1) (triP (relabel P (perm l)) b2) (triP (relabel P (perm l)) t1) (triP (relabel P (perm l)) t2) (triP (relabel P (perm l)) o1) (triP (relabel P (perm l)) o2) (triP (relabel P (perm l)) l1) (triP (relabel P (perm l)) l2) (triP (relabel P (perm l)) r1) (triP (relabel P (perm l)) r2)) :
    ∃ l' ∈ sym48, reorient P.toList sim obs ceil = .ok (relabel P (perm l')).toList := by
  rw [T_C18_clear_view _ hs P.toList (relabel_toList_perm P l hl) sim obs ceil f1 f2 b1 b2 t1 t2 o1 o2 l1 l2 r1 r2 hcut htris hview hv]
  unfold fixHand
  simp only
  split
  · refine ⟨_, sym48_swap_closed l hl, ?_⟩
    rw [swapLR_toList]
    rfl
  · exact ⟨l, hl, rfl⟩

/-- … and right-handed whenever the block's corner triple products have one sign (T_C18_right_handed applied to the
    numbering of `T_C18_clear_view`) -/
theorem T_C18_clear_view_right_handed (Q : Hex)
    (h : (∀ i < 8, 0 < tp Q i) ∨ (∀ i < 8, tp Q i < 0)) :
    ∀ i < 8, 0 < tp (Hex.ofList (fixHand Q.toList)) i := by
  have hq : ∀ j < 8, Hex.ofList Q.toList j = Q j := by
    intro j hj
    have : j = 0 ∨ j = 1 ∨ j = 2 ∨ j = 3 ∨ j = 4 ∨ j = 5 ∨ j = 6 ∨ j = 7 := by omega
    rcases this with rfl | rfl | rfl | rfl | rfl | rfl | rfl | rfl <;> rfl
  apply T_C18_right_handed
  rcases h with h | h
  · exact Or.inl (fun i hi => by rw [tp_congr hq i hi]; exact h i hi)
  · exact Or.inr (fun i hi => by rw [tp_congr hq i hi]; exact h i hi)

/-- **Planar sides: clear view ⇒ `Canonical`.**  For a right-handed block whose sides are planar (one half of every side
    has a normal that is a positive multiple of the side's area vector — then so has the other) the statement about the
    hull triangles and the statement of the specification about the side area vectors coincide: in a clear view
    `reorient` returns `Q` itself and `Q` is `Canonical` (front side best aligned with the observer, top side best
    aligned with the corrected ceiling direction among the four around, eight positive triple products) — hence, by
    `T_C18_unique`, the only canonical one of the 48 numberings of the block. -/
theorem T_C18_clear_view_canonical (Q : Hex) (hs : Sep Q) (pts : List V3) (hp : pts.Perm Q.toList)
    (sim : List ITri) (obs ceil : V3) (f1 f2 b1 b2 t1 t2 o1 o2 l1 l2 r1 r2 : ITri)
    (hcut : sidesCut f1 f2 b1 b2 t1 t2 o1 o2 l1 l2 r1 r2 = true)
    (htris : (orientedTris pts sim).Perm ([f1, f2, b1, b2, t1, t2, o1, o2, l1, l2, r1, r2].map (triP Q)))
    (hview : ¬ ((dirsOf Q.center obs ceil).o = V3.zero ∨ (dirsOf Q.center obs ceil).t = V3.zero))
    (hv : ClearView (dirsOf Q.center obs ceil) (triP Q f1) (triP Q f2) (triP Q b1) (triP Q b2) (triP Q t1) (triP Q t2) (triP Q o1) (triP Q o2) (triP Q l1) (triP Q l2) (triP Q r1) (triP Q r2))
    (hF : PlanarHalf Q 4 (triP Q f1)) (hB : PlanarHalf Q 5 (triP Q b1)) (hT : PlanarHalf Q 1 (triP Q t1))
    (hO : PlanarHalf Q 0 (triP Q o1)) (hL : PlanarHalf Q 2 (triP Q l1)) (hR : PlanarHalf Q 3 (triP Q r1))
    (hrh : ∀ i < 8, 0 < tp Q i) :
    reorient pts sim obs ceil = .ok Q.toList ∧ Canonical obs ceil Q := by
  refine ⟨?_, canonical_of_clear hv hF hB hT hO hL hR hrh⟩
  rw [T_C18_clear_view Q hs pts hp sim obs ceil f1 f2 b1 b2 t1 t2 o1 o2 l1 l2 r1 r2 hcut htris hview hv]
  have h0 : tp Q 0 = det3 (Q.toList.getD 1 V3.zero - Q.toList.getD 0 V3.zero)
      (Q.toList.getD 3 V3.zero - Q.toList.getD 0 V3.zero) (Q.toList.getD 4 V3.zero - Q.toList.getD 0 V3.zero) := rfl
  have : ¬ det3 (Q.toList.getD 1 V3.zero - Q.toList.getD 0 V3.zero)
      (Q.toList.getD 3 V3.zero - Q.toList.getD 0 V3.zero) (Q.toList.getD 4 V3.zero - Q.toList.getD 0 V3.zero) < 0 := by
    rw [← h0]; exact not_lt.mpr (le_of_lt (hrh 0 (by decide)))
  simp only [fixHand, this, if_false]

/-- non-vacuity of the planarity hypothesis: the front half `(0,1,5)` of the unit cube (`k = 1/2`) -/
example : PlanarHalf unitCube 4 (triP unitCube (0, 1, 5)) := ⟨1 / 2, by decide +kernel, by decide +kernel⟩

/-- the request `c18.clear` is sound: when the decidable check accepts a witness (numbering `ql`, triangles by side),
    the model's `reorient` returns `fixHand ql` — so on every generated case that is answered `clear` the returned
    numbering is the one `T_C18_clear_view` names, independent of triangle order, diagonals and input numbering. -/
theorem T_C18_clear_check (pts : List V3) (sim : List ITri) (obs ceil : V3) (ql : List V3) (ix : List ITri)
    (h : clearOk pts sim obs ceil ql ix = true) : reorient pts sim obs ceil = .ok (fixHand ql) := by
  unfold clearOk at h
  split at h
  · simp only [Bool.and_eq_true, decide_eq_true_eq, beq_iff_eq, List.isPerm_iff] at h
    obtain ⟨⟨⟨⟨⟨⟨h8, hp⟩, hsep⟩, hcut⟩, htris⟩, hview⟩, hv⟩ := h
    have := T_C18_clear_view (Hex.ofList ql) (sep_of_sepOk hsep) pts (by rw [toList_ofList h8]; exact hp) sim obs ceil
      _ _ _ _ _ _ _ _ _ _ _ _ hcut htris hview hv
    rw [toList_ofList h8] at this
    exact this
  · cases h

/-- non-vacuity: the unit cube seen from the front is a clear view in the sense of the theorems above … -/
example : clearOk cubePts cubeHull ⟨1 / 2, -10, 1 / 2⟩ ⟨1 / 2, 1 / 2, 10⟩ cubePts
    (sortBySide ((orientedTris cubePts cubeHull).map (itriOf cubePts))) = true := by decide +kernel

/-- … also with the triangle list reversed and a mirrored input numbering (the witness is found by `clearSearch`) -/
example : clearSearch (swapLR cubePts) (cubeHull.reverse.map (fun s => (perm [1, 0, 3, 2, 5, 4, 7, 6] s.1,
    perm [1, 0, 3, 2, 5, 4, 7, 6] s.2.1, perm [1, 0, 3, 2, 5, 4, 7, 6] s.2.2))) ⟨1 / 2, -10, 1 / 2⟩ ⟨1 / 2, 1 / 2, 10⟩
    = some cubePts := by decide +kernel


/-! ### round 6g: the round-shape finder on a WrappedDisk end face, in every placement -/

section wrapped
open CBV.C11 (P3)
open CBV.C19 (lookup sketchFromSource SketchIdx)

/-- **WrappedDisk in ANY placement** (centre `c`, corner point ≠ centre, unit normal perpendicular to the corner direction,
    `0 < diagonal_ratio < 1`, `0 < radius/|corner − c| < 1`; any ordered field — no √2 enters, the fan uses quarter turns):
    * `find_shell` looks up exactly the positions at the corner point's distance from the centre: the four corners of the
      wrapping square (positions 8–11, `get_outer_points`) — the outer boundary of the sketch is the square, not the circle;
    * `find_core` looks up exactly the four points of the inner square (positions 0–3, at `diagonal_ratio · radius`);
    * the four points ON THE CIRCLE of radius `radius` (positions 4–7) are looked up by NEITHER: a vertex of the end face
      that sits on the circle is returned neither by `find_core` nor by `find_shell` (they belong to the middle ring
      `grid[1]`, which is neither `core = grid[0]` nor `shell = grid[-1]`). -/
theorem T_C18_wrapped_finder_points {K : Type} [Field K] [LinearOrder K] [IsStrictOrderedRing K]
    (c corner u : P3 K) (h dg radius wn : K) (hd0 : 0 < dg) (hd1 : dg < 1)
    (hr0 : 0 < radius / wn) (hr1 : radius / wn < 1)
    (hu : P3.nsq u = 1) (hp : P3.dot u (P3.sub corner c) = 0) (hr : 0 < P3.nsq (P3.sub corner c))
    (quads : List (List Nat)) (s : SketchIdx)
    (hq : lookup "WrappedDisk" CBV.Gen.c19QuadMaps = some quads) (hs : sketchFromSource "WrappedDisk" = some s) (i : Nat) :
    (i ∈ shellIds quads s ↔ i < 12 ∧
      P3.nsq (P3.sub ((CBV.C11.wrappedPts c corner u h dg radius wn).getD i c) c) = P3.nsq (P3.sub corner c)) ∧
    (i ∈ coreIds quads s ↔ i < 4) ∧
    (i < 4 → P3.nsq (P3.sub ((CBV.C11.wrappedPts c corner u h dg radius wn).getD i c) c) =
      dg * (radius / wn) * (dg * (radius / wn)) * P3.nsq (P3.sub corner c)) ∧
    (4 ≤ i → i < 8 → i ∉ shellIds quads s ∧ i ∉ coreIds quads s ∧
      P3.nsq (P3.sub ((CBV.C11.wrappedPts c corner u h dg radius wn).getD i c) c) =
        radius / wn * (radius / wn) * P3.nsq (P3.sub corner c)) := by
  obtain ⟨h1, h2⟩ := wrappedIds_spec quads s hq hs i
  refine ⟨?_, h2, ?_, ?_⟩
  · rw [h1]
    constructor
    · rintro ⟨a, b⟩
      exact ⟨b, (CBV.C19.wrapped_onCorner_iff c corner u h dg radius wn hd0 hd1 hr0 hr1 hu hp hr i b).mpr a⟩
    · rintro ⟨b, a⟩
      exact ⟨(CBV.C19.wrapped_onCorner_iff c corner u h dg radius wn hd0 hd1 hr0 hr1 hu hp hr i b).mp a, b⟩
  · intro hi
    rw [wrapped_dist c corner u h dg radius wn hu hp i (by omega)]
    simp only [wrappedFactor, hi, if_true]
  · intro h4 h8
    refine ⟨fun hm => ?_, fun hm => ?_, ?_⟩
    · have := (h1.mp hm).1; omega
    · have := h2.mp hm; omega
    · rw [wrapped_dist c corner u h dg radius wn hu hp i (by omega)]
      have : ¬ i < 4 := by omega
      simp only [wrappedFactor, this, h8, if_true, if_false]

/-- … hence for every vertex list and every (rounded) position list of a WrappedDisk end face: `find_shell` returns exactly
    the vertices within TOL of one of the four corners of the square, `find_core` exactly those within TOL of one of the
    four inner-square points; a vertex that is within TOL of positions on the circle only is returned by neither -/
theorem T_C18_wrapped_find (quads : List (List Nat)) (s : SketchIdx)
    (hq : lookup "WrappedDisk" CBV.Gen.c19QuadMaps = some quads) (hs : sketchFromSource "WrappedDisk" = some s)
    (vs pts : List V3) (i : Nat) :
    (i ∈ findFromPoints vs (pickPts pts (shellIds quads s)) ↔
      i < vs.length ∧ ∃ k, 8 ≤ k ∧ k < 12 ∧ near (vs.getD i V3.zero) (pts.getD k V3.zero)) ∧
    (i ∈ findFromPoints vs (pickPts pts (coreIds quads s)) ↔
      i < vs.length ∧ ∃ k, k < 4 ∧ near (vs.getD i V3.zero) (pts.getD k V3.zero)) := by
  have hsp := wrappedIds_spec quads s hq hs
  constructor
  · simp only [findFromPoints, mem_findIdx, pickPts, List.any_map, List.any_eq_true, Function.comp, decide_eq_true_eq]
    constructor
    · rintro ⟨hi, k, hk, hn⟩
      exact ⟨hi, k, ((hsp k).1.mp hk).1, ((hsp k).1.mp hk).2, hn⟩
    · rintro ⟨hi, k, h1, h2, hn⟩
      exact ⟨hi, k, (hsp k).1.mpr ⟨h1, h2⟩, hn⟩
  · simp only [findFromPoints, mem_findIdx, pickPts, List.any_map, List.any_eq_true, Function.comp, decide_eq_true_eq]
    constructor
    · rintro ⟨hi, k, hk, hn⟩
      exact ⟨hi, k, (hsp k).2.mp hk, hn⟩
    · rintro ⟨hi, k, h1, hn⟩
      exact ⟨hi, k, (hsp k).2.mpr h1, hn⟩

/-- non-vacuity: the tables of the current source exist, and over ℚ a WrappedDisk about the origin with corner (2,0,0),
    radius 1 and diagonal ratio 9/10 satisfies the hypotheses -/
example : (lookup "WrappedDisk" CBV.Gen.c19QuadMaps).isSome = true ∧ (sketchFromSource "WrappedDisk").isSome = true ∧
    (0 : ℚ) < 9 / 10 ∧ (9 : ℚ) / 10 < 1 ∧ (0 : ℚ) < 1 / 2 ∧ (1 : ℚ) / 2 < 1 ∧
    P3.nsq (⟨0, 0, 1⟩ : P3 ℚ) = 1 ∧ P3.dot (⟨0, 0, 1⟩ : P3 ℚ) (P3.sub ⟨2, 0, 0⟩ ⟨0, 0, 0⟩) = 0 ∧
    0 < P3.nsq (P3.sub (⟨2, 0, 0⟩ : P3 ℚ) ⟨0, 0, 0⟩) := by decide +kernel

end wrapped

/-! ### round 6f: the gap hypothesis discharged for the fan disk classes -/

section gap
open CBV.C11 (P3 DiskCls)
open CBV.C19 (rimStart nPositions)

/-- **Rim / non-rim separation.**  OneCoreDisk / QuarterDisk / HalfDisk / FourCoreDisk in any placement, `R` the radius,
    `ρ ≤ 1` an upper bound of the class's ratios (diagonal ratio, and core ratio where the class has one): every non-rim
    position is within `ρ·R` of the centre (`nonrim_radial`), every rim position on the circle of radius `R`, so they are
    at least `(1 − ρ)·R` apart; if `TOL + 2δ ≤ (1 − ρ)·R` no non-rim position is within `TOL + 2δ` of a rim position and
    vice versa — the "clearly away" alternative of the gap hypothesis of `T_C18_finder_stable_pv` for the shell finder
    on vertices at non-rim positions and for the core finder on vertices at rim positions. -/
theorem T_C18_disk_gap {K : Type} [Field K] [LinearOrder K] [IsStrictOrderedRing K]
    (cl : DiskCls) (c rp u : P3 K) (h k dg ρ R t δ : K) (hok : CBV.C11.DiskOK cl h k dg)
    (hh : h * h + h * h = 1) (hu : P3.nsq u = 1) (hp : P3.dot u (P3.sub rp c) = 0) (hR : 0 < R)
    (hRR : P3.nsq (P3.sub rp c) = R * R) (hdρ : dg ≤ ρ) (hkρ : cl ≠ .oneCore → k ≤ ρ) (hρ1 : ρ ≤ 1)
    (htδ : 0 ≤ t + 2 * δ) (hgap : t + 2 * δ ≤ (1 - ρ) * R)
    (i j : Nat) (hi : i < rimStart cl) (hj : rimStart cl ≤ j) (hjn : j < nPositions cl) :
    ¬ nearK (t + 2 * δ) ((CBV.C11.diskPts cl c rp u h k dg).getD i c) ((CBV.C11.diskPts cl c rp u h k dg).getD j c) ∧
    ¬ nearK (t + 2 * δ) ((CBV.C11.diskPts cl c rp u h k dg).getD j c) ((CBV.C11.diskPts cl c rp u h k dg).getD i c) :=
  disk_gap cl c rp u h k dg ρ R t δ hok hh hu hp hR hRR hdρ hkρ hρ1 htδ hgap i j hi hj hjn

/-- non-vacuity over ℝ: h = √2/2, OneCoreDisk with diagonal ratio 9/10 about (1,2,3), radius 2, TOL + 2δ = 1/100 ≤ 0.1·2 -/
example : ∃ h : ℝ, h * h + h * h = 1 ∧ CBV.C11.DiskOK DiskCls.oneCore h (4 / 5) (9 / 10) ∧
    P3.nsq (⟨0, 0, 1⟩ : P3 ℝ) = 1 ∧ P3.dot (⟨0, 0, 1⟩ : P3 ℝ) (P3.sub ⟨1, 4, 3⟩ ⟨1, 2, 3⟩) = 0 ∧
    P3.nsq (P3.sub (⟨1, 4, 3⟩ : P3 ℝ) ⟨1, 2, 3⟩) = 2 * 2 ∧ ((1 : ℝ) / 100 ≤ (1 - 9 / 10) * 2) := by
  have hs : Real.sqrt 2 * Real.sqrt 2 = 2 := Real.mul_self_sqrt (by norm_num)
  refine ⟨Real.sqrt 2 / 2, by nlinarith [hs], ?_, ?_, ?_, ?_, by norm_num⟩
  · constructor <;> norm_num
  · simp only [P3.nsq, P3.dot]; norm_num
  · simp only [P3.dot, P3.sub]; norm_num
  · simp only [P3.nsq, P3.dot, P3.sub]; norm_num

/-- **Stability with the gap asked per vertex.**  As `T_C18_finder_stable`, but every exact vertex only has to be clearly
    within (`TOL − 2δ`) of SOME exact position or clearly away (`TOL + 2δ`) from ALL of them: a vertex sitting on a rim
    position is found through that position whatever its distance to the neighbouring rim positions; for vertices at
    non-rim positions `T_C18_disk_gap` gives the second alternative. -/
theorem T_C18_finder_stable_pv {K : Type} [Field K] [LinearOrder K] [IsStrictOrderedRing K]
    (δ : K) (hδ : 0 ≤ δ) (ht : 2 * δ < ((tol : Rat) : K)) (vs ps : List (P3 K)) (vs' ps' : List V3)
    (hlv : vs'.length = vs.length) (hlp : ps'.length = ps.length)
    (hv : ∀ i, i < vs.length →
      P3.nsq (P3.sub (castP (vs'.getD i V3.zero)) (vs.getD i (castP V3.zero))) ≤ δ * δ)
    (hp : ∀ k, k < ps.length →
      P3.nsq (P3.sub (castP (ps'.getD k V3.zero)) (ps.getD k (castP V3.zero))) ≤ δ * δ)
    (gap : ∀ i, i < vs.length →
      (∃ k, k < ps.length ∧ nearK (((tol : Rat) : K) - 2 * δ) (vs.getD i (castP V3.zero)) (ps.getD k (castP V3.zero))) ∨
      (∀ k, k < ps.length → ¬ nearK (((tol : Rat) : K) + 2 * δ) (vs.getD i (castP V3.zero)) (ps.getD k (castP V3.zero)))) :
    findFromPoints vs' ps' = findK ((tol : Rat) : K) (castP V3.zero) vs ps := by
  rw [findFromPoints_cast (K := K)]
  exact findK_stable_pv ((tol : Rat) : K) δ hδ ht (castP V3.zero) vs (vs'.map castP) ps (ps'.map castP)
    (by simpa using hlv) (by simpa using hlp)
    (fun i hi => by rw [getD_map_castP]; exact hv i hi)
    (fun k hk => by rw [getD_map_castP]; exact hp k hk) gap

/-- non-vacuity (K = ℚ, δ = 1e-9): two sketch positions 1/2 apart (inside each other's neighbourhood for no tolerance),
    a vertex on the first (float image 1e-9 off) and a vertex far from both -/
example : findFromPoints [⟨1 / 1000000000, 0, 0⟩, ⟨5, 0, 0⟩] [⟨0, 0, 0⟩, ⟨1 / 2, 0, 0⟩]
    = findK ((tol : Rat) : Rat) (castP V3.zero) [⟨0, 0, 0⟩, ⟨5, 0, 0⟩] [⟨0, 0, 0⟩, ⟨1 / 2, 0, 0⟩] :=
  T_C18_finder_stable_pv (K := Rat) (1 / 1000000000) (by decide +kernel) (by decide +kernel)
    [⟨0, 0, 0⟩, ⟨5, 0, 0⟩] [⟨0, 0, 0⟩, ⟨1 / 2, 0, 0⟩] [⟨1 / 1000000000, 0, 0⟩, ⟨5, 0, 0⟩] [⟨0, 0, 0⟩, ⟨1 / 2, 0, 0⟩]
    rfl rfl (by decide +kernel) (by decide +kernel)
    (fun i hi => by
      have : i = 0 ∨ i = 1 := by simp only [List.length_cons, List.length_nil] at hi; omega
      rcases this with rfl | rfl
      · exact Or.inl ⟨0, by decide, by decide +kernel⟩
      · exact Or.inr (by decide +kernel))

end gap

/-! ### round 6e: the float-to-exact link of the finder theorems -/

section stable
open CBV.C11 (P3)

/-- **Rounding hypothesis and stability.**  `K` is the ordered field of the exact positions (ℝ ⊇ ℚ(√2) for the disk
    sketches).  `vs`, `ps` are the exact vertex and sketch positions, `vs'`, `ps'` the rational (float) ones the
    implementation computes and the finder model receives.  Hypotheses: every float position is within `δ` of the exact
    one; `2δ < TOL`; no exact vertex lies in the ambiguity shell of an exact sketch position, i.e. each pair is either
    within `TOL − 2δ` (e.g. coincident: the vertices of the end face ARE sketch positions) or at least `TOL + 2δ` apart
    (e.g. a vertex on a non-rim position vs. a rim position, when rim and non-rim positions are that far apart).
    Then `_find_from_points` on the float data returns exactly the vertex set the exact finder returns on the exact data
    with the tolerance `TOL` — so `T_C18_disk_find` / `T_C18_disk_finder_points`, stated on exact positions, describe what
    the implementation's finder returns. -/
theorem T_C18_finder_stable {K : Type} [Field K] [LinearOrder K] [IsStrictOrderedRing K]
    (δ : K) (hδ : 0 ≤ δ) (ht : 2 * δ < ((tol : Rat) : K)) (vs ps : List (P3 K)) (vs' ps' : List V3)
    (hlv : vs'.length = vs.length) (hlp : ps'.length = ps.length)
    (hv : ∀ i, i < vs.length →
      P3.nsq (P3.sub (castP (vs'.getD i V3.zero)) (vs.getD i (castP V3.zero))) ≤ δ * δ)
    (hp : ∀ k, k < ps.length →
      P3.nsq (P3.sub (castP (ps'.getD k V3.zero)) (ps.getD k (castP V3.zero))) ≤ δ * δ)
    (gap : ∀ i, i < vs.length → ∀ k, k < ps.length →
      nearK (((tol : Rat) : K) - 2 * δ) (vs.getD i (castP V3.zero)) (ps.getD k (castP V3.zero)) ∨
      ¬ nearK (((tol : Rat) : K) + 2 * δ) (vs.getD i (castP V3.zero)) (ps.getD k (castP V3.zero))) :
    findFromPoints vs' ps' = findK ((tol : Rat) : K) (castP V3.zero) vs ps := by
  rw [findFromPoints_cast (K := K),
    findK_stable ((tol : Rat) : K) δ hδ ht (castP V3.zero) vs (vs'.map castP) ps (ps'.map castP)
      (by simpa using hlv) (by simpa using hlp)
      (fun i hi => by rw [getD_map_castP]; exact hv i hi)
      (fun k hk => by rw [getD_map_castP]; exact hp k hk) gap,
    findK_gap _ δ hδ ht _ vs ps gap]

/-- non-vacuity (K = ℚ, δ = 1e-9): a vertex whose float image is off by 1e-9 from the sketch position it sits on, and a
    vertex one unit away -/
example : findFromPoints [⟨1 / 1000000000, 0, 0⟩, ⟨1, 0, 0⟩] [⟨0, 0, 0⟩]
    = findK ((tol : Rat) : Rat) (castP V3.zero) [⟨0, 0, 0⟩, ⟨1, 0, 0⟩] [⟨0, 0, 0⟩] :=
  T_C18_finder_stable (K := Rat) (1 / 1000000000) (by decide +kernel) (by decide +kernel)
    [⟨0, 0, 0⟩, ⟨1, 0, 0⟩] [⟨0, 0, 0⟩] [⟨1 / 1000000000, 0, 0⟩, ⟨1, 0, 0⟩] [⟨0, 0, 0⟩] rfl rfl
    (by decide +kernel) (by decide +kernel) (by decide +kernel)

example : findFromPoints [⟨1 / 1000000000, 0, 0⟩, ⟨1, 0, 0⟩] [⟨0, 0, 0⟩] = [0] := by decide +kernel

end stable

/-! ### round 6d: the round-shape finder on the disk classes themselves, in every placement -/

section disk
open CBV.C19 (lookup sketchFromSource SketchIdx rimStart nPositions)
open CBV.C11 (DiskCls)

/-- **OneCoreDisk / QuarterDisk / HalfDisk / FourCoreDisk in ANY placement** (centre `c`, radius point `rp ≠ c`, unit normal
    `u` perpendicular to the radius; any ordered field, `h` with `2h² = 1` — ℝ with h = cos π/4; ratios within `DiskOK`):
    the positions `find_shell` looks up (points `[1:3]` of the faces in `.shell`, slice and `quad_map`/`grid` regenerated from
    the source) are exactly the positions of the sketch at the distance of the radius point from the centre, and the
    positions `find_core` looks up are exactly all the others -/
theorem T_C18_disk_finder_points {K : Type} [Field K] [LinearOrder K] [IsStrictOrderedRing K]
    (cl : DiskCls) (c rp u : CBV.C11.P3 K) (h k dg : K) (hok : CBV.C11.DiskOK cl h k dg) (hh : h * h + h * h = 1)
    (hu : CBV.C11.P3.nsq u = 1) (hp : CBV.C11.P3.dot u (CBV.C11.P3.sub rp c) = 0)
    (hr : 0 < CBV.C11.P3.nsq (CBV.C11.P3.sub rp c))
    (quads : List (List Nat)) (s : SketchIdx)
    (hq : lookup cl.name CBV.Gen.c19QuadMaps = some quads) (hs : sketchFromSource cl.name = some s) (i : Nat) :
    (i ∈ shellIds quads s ↔ i < nPositions cl ∧
      CBV.C11.P3.nsq (CBV.C11.P3.sub ((CBV.C11.diskPts cl c rp u h k dg).getD i c) c) =
        CBV.C11.P3.nsq (CBV.C11.P3.sub rp c)) ∧
    (i ∈ coreIds quads s ↔ i < nPositions cl ∧
      CBV.C11.P3.nsq (CBV.C11.P3.sub ((CBV.C11.diskPts cl c rp u h k dg).getD i c) c) ≠
        CBV.C11.P3.nsq (CBV.C11.P3.sub rp c)) := by
  obtain ⟨h1, h2⟩ := diskIds_spec cl quads s hq hs i
  constructor
  · rw [h1]
    constructor
    · rintro ⟨a, b⟩
      exact ⟨b, (CBV.C19.onCircle_iff cl c rp u h k dg hok hh hu hp hr i b).mpr a⟩
    · rintro ⟨b, a⟩
      exact ⟨(CBV.C19.onCircle_iff cl c rp u h k dg hok hh hu hp hr i b).mp a, b⟩
  · rw [h2]
    constructor
    · rintro ⟨a, b⟩
      exact ⟨b, fun e => absurd ((CBV.C19.onCircle_iff cl c rp u h k dg hok hh hu hp hr i b).mp e) (by omega)⟩
    · rintro ⟨b, a⟩
      refine ⟨?_, b⟩
      by_contra hge
      exact a ((CBV.C19.onCircle_iff cl c rp u h k dg hok hh hu hp hr i b).mpr (by omega))

/-- … hence, for every vertex list and every (rounded) position list of the end face: `find_shell` returns exactly the
    vertices within TOL of a position that comes from `get_outer_points`, `find_core` exactly those within TOL of one of
    the other positions — no probe instance, no rounded distance table involved -/
theorem T_C18_disk_find (cl : DiskCls) (quads : List (List Nat)) (s : SketchIdx)
    (hq : lookup cl.name CBV.Gen.c19QuadMaps = some quads) (hs : sketchFromSource cl.name = some s)
    (vs pts : List V3) (i : Nat) :
    (i ∈ findFromPoints vs (pickPts pts (shellIds quads s)) ↔
      i < vs.length ∧ ∃ k, rimStart cl ≤ k ∧ k < nPositions cl ∧ near (vs.getD i V3.zero) (pts.getD k V3.zero)) ∧
    (i ∈ findFromPoints vs (pickPts pts (coreIds quads s)) ↔
      i < vs.length ∧ ∃ k, k < rimStart cl ∧ near (vs.getD i V3.zero) (pts.getD k V3.zero)) := by
  have hsp := diskIds_spec cl quads s hq hs
  have hle : rimStart cl ≤ nPositions cl := Nat.le_add_right _ _
  constructor
  · simp only [findFromPoints, mem_findIdx, pickPts, List.any_map, List.any_eq_true, Function.comp, decide_eq_true_eq]
    constructor
    · rintro ⟨hi, k, hk, hn⟩
      exact ⟨hi, k, ((hsp k).1.mp hk).1, ((hsp k).1.mp hk).2, hn⟩
    · rintro ⟨hi, k, h1, h2, hn⟩
      exact ⟨hi, k, (hsp k).1.mpr ⟨h1, h2⟩, hn⟩
  · simp only [findFromPoints, mem_findIdx, pickPts, List.any_map, List.any_eq_true, Function.comp, decide_eq_true_eq]
    constructor
    · rintro ⟨hi, k, hk, hn⟩
      exact ⟨hi, k, ((hsp k).2.mp hk).1, hn⟩
    · rintro ⟨hi, k, h1, hn⟩
      exact ⟨hi, k, (hsp k).2.mpr ⟨h1, by omega⟩, hn⟩

/-- the sketch tables of the executable model (probe instances, points numbered by first appearance — what the
    correspondence runs on) are the canonical renumbering of this class-level structure: same quads, same core / shell
    faces, same shell-finder and core-finder points -/
theorem T_C18_disk_probe_tables : [DiskCls.oneCore, .quarter, .half, .fourCore].all probeAgrees = true := probe_table

/-- non-vacuity: the tables of the current source exist for all four classes -/
example : [DiskCls.oneCore, .quarter, .half, .fourCore].all (fun cl =>
    (lookup cl.name CBV.Gen.c19QuadMaps).isSome && (sketchFromSource cl.name).isSome) = true := by decide +kernel

end disk

/-! ### round 6d: what holds for EVERY block and view (adjacent sides less than 60° apart included) -/

/-- **Returns or raises `DegenerateGeometryError`, nothing else.**  For every point list, every list of simplices, every
    observer and ceiling for which the view directions are defined: a run of `reorient` that does not return ends in
    `notConvex` or `degenerate` — the two messages of `DegenerateGeometryError`; the `IndexError` of `common_2[0]`
    (repair 70219c0) and of an empty `sorted(...)[-2:]` cannot occur (twelve triangles last exactly six passes).
    Together with `T_C18_same_points` (a returned result is a permutation of the eight input points) this is what is
    guaranteed without the hull contract's `across` clause, i.e. also for blocks whose adjacent sides are less than 60°
    apart; that a returned result is then one of the 48 relabellings is NOT proved (there `Quadrangle` may accept a pair of
    triangles from two sides) and stays with the oracle clause `block-restructured`. -/
theorem T_C18_rejects_documented (pts : List V3) (sim : List (Nat × Nat × Nat)) (obs ceil : V3) (e : Err)
    (hview : ¬ ((dirsOf (average pts) obs ceil).o = V3.zero ∨ (dirsOf (average pts) obs ceil).t = V3.zero))
    (h : reorient pts sim obs ceil = .error e) : e = .notConvex ∨ e = .degenerate := by
  rcases reorient_error h with h1 | h1 | ⟨_, h1⟩
  · exact Or.inl h1
  · exact Or.inr h1
  · exact absurd h1 hview

/-- non-vacuity: a hull with ten triangles is rejected with `notConvex`, the exact tie of round 6c with `degenerate` -/
example : reorient cubePts (cubeHull.take 10) ⟨10, 1 / 2, 1 / 2⟩ ⟨1 / 2, 1 / 2, 10⟩ = .error .notConvex := by decide +kernel

/-! ### round 6c: every returning run, without any assumption on the view -/

theorem map_eq_relabel_toList (Q : Hex) (l : List Nat) (hl : l ∈ sym48) : l.map Q = (relabel Q (perm l)).toList := by
  obtain ⟨_, h2⟩ := sym48_perm l hl
  unfold Hex.toList relabel
  conv_lhs => rw [← h2, List.map_map]
  rfl

/-- **Returns ⇒ one of the 48 relabellings.**  Under the hull contract alone (`HullContract`: the oriented hull triangles
    are the two halves of each of the six sides of the block `Q`, twelve different triangles, corners distinct to TOL,
    and — a property of the block, not of the view — triangles of different sides are more than 60° apart), for EVERY
    observer and ceiling, every order of the triangles and of the input points: if `reorient` returns at all, what it
    writes back is `relabel Q σ` with `σ ∈ sym48`, i.e. a corner permutation that preserves the sides and edges of the
    block.  Ties, dubious views, whatever the six passes pick: the 60° rule (5ddf0fe) lets `Quadrangle` accept only the
    two halves of one side, and of the 720 assignments of six different sides to front/back/top/bottom/left/right
    exactly those that pass the eight triple intersections and the all-points-once check (e299470) are the 48. -/
theorem T_C18_returns_relabelling (Q : Hex) (hv : Nat → ITri × ITri) (hc : HullContract Q hv) (pts : List V3)
    (hp : pts.Perm Q.toList) (sim : List ITri)
    (htris : (orientedTris pts sim).Perm (sides6.flatMap (pairOf Q hv))) (obs ceil : V3) (out : List V3)
    (h : reorient pts sim obs ceil = .ok out) :
    ∃ l ∈ sym48, out = (relabel Q (perm l)).toList := by
  obtain ⟨tris, hmk, hcore⟩ := reorient_spec h
  have ht : tris = orientedTris pts sim := by
    unfold makeTriangles at hmk
    split at hmk
    · cases hmk
    · cases hmk; rfl
  rw [ht] at hcore
  obtain ⟨l, hl, rfl⟩ := reorientCore_sides hc hp htris hcore
  rw [map_eq_relabel_toList Q l hl]
  unfold fixHand
  simp only
  split
  · refine ⟨_, sym48_swap_closed l hl, ?_⟩
    rw [swapLR_toList]
    rfl
  · exact ⟨l, hl, rfl⟩

/-- … and right-handed, for every right-handed block (all eight corner triple products of `Q` positive) -/
theorem T_C18_returns_right_handed (Q : Hex) (hv : Nat → ITri × ITri) (hc : HullContract Q hv) (pts : List V3)
    (hp : pts.Perm Q.toList) (sim : List ITri)
    (htris : (orientedTris pts sim).Perm (sides6.flatMap (pairOf Q hv))) (obs ceil : V3) (out : List V3)
    (h : reorient pts sim obs ceil = .ok out) (hrh : ∀ i < 8, 0 < tp Q i) :
    ∀ i < 8, 0 < tp (Hex.ofList out) i := by
  obtain ⟨tris, hmk, hcore⟩ := reorient_spec h
  have ht : tris = orientedTris pts sim := by
    unfold makeTriangles at hmk
    split at hmk
    · cases hmk
    · cases hmk; rfl
  rw [ht] at hcore
  obtain ⟨l, hl, rfl⟩ := reorientCore_sides hc hp htris hcore
  rw [map_eq_relabel_toList Q l hl]
  apply T_C18_clear_view_right_handed
  rcases List.mem_append.mp hl with hl | hl
  · left
    intro i hi
    rw [tp_relabel_proper Q l hl i hi]
    exact hrh _ (perm_lt l (List.mem_append_left _ hl) i (List.mem_range.mpr hi))
  · right
    intro i hi
    rw [tp_relabel_improper Q l hl i hi]
    have := hrh _ (perm_lt l (List.mem_append_right _ hl) i (List.mem_range.mpr hi))
    linarith

/-- the validator behind the request `c18.contract` is sound: what it accepts satisfies the hull contract for the block
    numbered as the input, so every returning run on that input is one of the 48 relabellings of the input -/
theorem T_C18_contract_check (pts : List V3) (sim : List ITri) (hok : contractOk pts sim = true) (obs ceil : V3)
    (out : List V3) (h : reorient pts sim obs ceil = .ok out) :
    ∃ l ∈ sym48, out = (relabel (Hex.ofList pts) (perm l)).toList := by
  unfold contractOk at hok
  simp only [Bool.and_eq_true, beq_iff_eq, List.all_eq_true, decide_eq_true_eq, List.isPerm_iff, Bool.or_eq_true] at hok
  obtain ⟨⟨⟨⟨⟨h8, hsep⟩, hcut⟩, htris⟩, hnd⟩, hacross⟩ := hok
  refine T_C18_returns_relabelling (Hex.ofList pts) _ ⟨sep_of_sepOk hsep, hcut, hnd, ?_⟩ pts
    (by rw [toList_ofList h8]) sim htris obs ceil out h
  intro s hs s' hs' hne X hX Y hY
  rcases hacross s hs s' hs' with he | he
  · exact absurd he hne
  · exact he X hX Y hY

/-- non-vacuity: the unit cube with scipy-like simplices satisfies the contract … -/
example : contractOk cubePts cubeHull = true := by decide +kernel

/-- … a view almost between two sides (observer near the diagonal x = −y, not `ClearView` by any margin) returns one of
    the 48; the exact tie is rejected (the two best aligned triangles belong to different sides) -/
example : (reorient cubePts cubeHull ⟨-10, -9, 1 / 2⟩ ⟨1 / 2, 1 / 2, 10⟩).toOption.map (indicesIn cubePts)
    = some [3, 0, 1, 2, 7, 4, 5, 6] := by decide +kernel

example : reorient cubePts cubeHull ⟨-10, -10, 1 / 2⟩ ⟨1 / 2, 1 / 2, 10⟩ = .error .degenerate := by decide +kernel

/-! ### round 6b: duplicated vertices (merged patches)

`Mesh.merge_patches(master, slave)` keeps two vertex objects at every position of the common face.  A finder iterates
over vertex *objects*; "exact" on such a mesh means: of the objects at one position either all are returned or none. -/

/-- two vertex objects `i ≠ j` at the same position are returned together or not at all — by the sphere finder, the plane
    finder and the round-shape finder (`_find_from_points`, hence `find_core` / `find_shell`), for every query -/
theorem T_C18_duplicates_together (vs : List V3) (i j : Nat) (hi : i < vs.length) (hj : j < vs.length)
    (h : vs.getD i V3.zero = vs.getD j V3.zero) :
    (∀ c r, i ∈ findInSphere vs c r ↔ j ∈ findInSphere vs c r) ∧
    (∀ o n, i ∈ findOnPlane vs o n ↔ j ∈ findOnPlane vs o n) ∧
    (∀ ps, i ∈ findFromPoints vs ps ↔ j ∈ findFromPoints vs ps) := by
  refine ⟨fun c r => ?_, fun o n => ?_, fun ps => ?_⟩
  · simp only [findInSphere, mem_findIdx, hi, hj, h]
  · simp only [findOnPlane, mem_findIdx, hi, hj, h]
  · simp only [findFromPoints, mem_findIdx, hi, hj, h]

/-- both copies are found where one is: a mesh with the vertex of index 0 duplicated at index 2, default radius -/
example : findInSphere [⟨1, 0, 0⟩, ⟨2, 0, 0⟩, ⟨1, 0, 0⟩] ⟨1, 0, 0⟩ none = [0, 2] := by decide +kernel

/-! ### round 6: tie to the source text

`cbv/tables/c18.py` reads the anchored functions of the CURRENT source with `ast` on every run (comparisons, slices, the
corner recipe, the swap tuple, the handedness sides, the numeric limits) and emits them into `CBV.Gen`; the theorems below
say that the model's code is what these tables say.  A change of an operator, a constant, an index or the order of the
recipe in the source breaks one of them. -/

/-- `Except`-valued map in list order (what the list display `[a.f(), b.f(), …]` of the source does) -/
def mapE {α β : Type} (f : α → Except Err β) : List α → Except Err (List β)
  | [] => .ok []
  | a :: as => do
    let b ← f a
    let bs ← mapE f as
    pure (b :: bs)

/-- the eight triple intersections of the model are `quads[a].get_common_point(quads[b], quads[c])` of the source's
    `sorted_points` list, in its order -/
theorem T_C18_tie_corner_recipe (q : Quads) :
    cornersOf q = mapE (fun r => commonPoint (q.get r.1) (q.get r.2.1) (q.get r.2.2)) CBV.Gen.c18CornerRecipe := by
  simp [cornersOf, mapE, CBV.Gen.c18CornerRecipe, Quads.get, -bind_pure_comp]
  rfl

/-- the handedness swap uses the source's index tuple, the handedness test the source's three sides -/
theorem T_C18_tie_swap (out : List V3) : swapLR out = CBV.Gen.c18SwapIdx.map (fun i => out.getD i V3.zero) := rfl

theorem T_C18_tie_hand (out : List V3) :
    CBV.Gen.c18HandSides = [(1, 0), (3, 0), (4, 0)] ∧
    fixHand out =
      (let side (k : Nat) := out.getD (CBV.Gen.c18HandSides.getD k (0, 0)).1 V3.zero -
          out.getD (CBV.Gen.c18HandSides.getD k (0, 0)).2 V3.zero
       if det3 (side 0) (side 1) (side 2) < 0 then CBV.Gen.c18SwapIdx.map (fun i => out.getD i V3.zero) else out) :=
  ⟨by decide, rfl⟩

/-- `get_common_point` raises `DegenerateGeometryError` exactly when the number of common points of the three quads is
    not the source's constant (repair 70219c0: also when there is none — no bare `IndexError`) -/
theorem T_C18_tie_common_point_guard (q q1 q2 : List V3) :
    CBV.Gen.c18CommonPointGuard.1 = "NotEq" ∧
    ((commonPoints (commonPoints q q1) q2).length ≠ CBV.Gen.c18CommonPointGuard.2 →
      commonPoint q q1 q2 = .error .degenerate) ∧
    (∀ e, commonPoint q q1 q2 = .error e → e = .degenerate) := by
  have hn : CBV.Gen.c18CommonPointGuard.2 = 1 := rfl
  refine ⟨by decide, ?_, ?_⟩
  · intro h
    rw [hn] at h
    unfold commonPoint
    simp only [h, ne_eq, not_false_eq_true, if_true]
  · intro e he
    unfold commonPoint at he
    simp only at he
    split at he
    · cases he; rfl
    · rename_i hlen
      split at he
      · rename_i heq
        rw [heq] at hlen
        exact absurd hlen (by simp)
      · cases he

/-- `_make_triangles` rejects exactly the hulls whose number of simplices is not the source's constant -/
theorem T_C18_tie_hull_count (pts : List V3) (sim : List (Nat × Nat × Nat)) :
    CBV.Gen.c18HullCount.1 = "NotEq" ∧
    (makeTriangles pts sim = .error .notConvex ↔ sim.length ≠ CBV.Gen.c18HullCount.2) := by
  refine ⟨by decide, ?_⟩
  unfold makeTriangles
  have : CBV.Gen.c18HullCount.2 = 12 := rfl
  rw [this]
  split <;> simp [*]

/-- the 60° limit of `Quadrangle.__init__`: `dot(n0, n1)/(|n0||n1|) < num/den` with the source's constant, by squares -/
theorem T_C18_tie_steep (t0 t1 : Tri) :
    CBV.Gen.c18SteepLimit.1 = "Lt" ∧
    (tooSteep t0 t1 ↔ V3.dot t0.normalRaw t1.normalRaw < 0 ∨
      ((CBV.Gen.c18SteepLimit.2.2 : Rat) * CBV.Gen.c18SteepLimit.2.2) *
          (V3.dot t0.normalRaw t1.normalRaw * V3.dot t0.normalRaw t1.normalRaw) <
        ((CBV.Gen.c18SteepLimit.2.1 : Rat) * CBV.Gen.c18SteepLimit.2.1) *
          (V3.norm2 t0.normalRaw * V3.norm2 t1.normalRaw)) := by
  refine ⟨by decide, ?_⟩
  have h1 : CBV.Gen.c18SteepLimit.2.1 = 1 := rfl
  have h2 : CBV.Gen.c18SteepLimit.2.2 = 2 := rfl
  rw [h1, h2]
  unfold tooSteep
  norm_num

/-- `find_shell` takes `face.points[lower:upper]` with the source's bounds -/
theorem T_C18_tie_shell_slice (s : Sketch) :
    s.shellOuterPts = s.shell.flatMap (fun f =>
      ((s.quads.getD f []).drop CBV.Gen.c18ShellSlice.1).take (CBV.Gen.c18ShellSlice.2 - CBV.Gen.c18ShellSlice.1)) := rfl

/-- every comparison and every slice of the anchored functions, the dict literal of `_get_normals`, the sort key and the
    default radius read as the model implements them (`<` strict everywhere, `TOL` as the only tolerance, `!= 12`,
    `> 2`, `!= 2`, `> 1`, `!= 1`, `< 0.5`, `< 0`, `[-2:]`, `[1:3]`, front/back/top/bottom/left/right with their signs) -/
theorem T_C18_tie_guards :
    CBV.Gen.c18Compares =
      [("finder.FinderBase._find_by_position", "v1 is None"),
       ("finder.FinderBase._find_by_position", "f.norm(v3.position - v0) < v1"),
       ("functions.is_point_on_plane", "point_to_plane_distance(v0, v1, v2) < constants.TOL"),
       ("functions.point_to_plane_distance", "norm(v0 - v2) < constants.TOL"),
       ("viewpoint.Quadrangle.__init__", "len(v0) > 2"),
       ("viewpoint.Quadrangle.__init__", "np.dot(v0[0].normal, v0[1].normal) < 0.5"),
       ("viewpoint.Quadrangle.__init__", "len(v1) != 2"),
       ("viewpoint.Quadrangle.__init__", "len(v2) != 2"),
       ("viewpoint.Quadrangle.get_common_point", "len(v3) != 1"),
       ("viewpoint.Quadrangle.get_common_points", "f.norm(v3 - v4) < constants.TOL"),
       ("viewpoint.Quadrangle.get_unique_points", "f.norm(v4 - v6) < constants.TOL"),
       ("viewpoint.Triangle.orient", "np.dot(self.center - v0, self.normal) < 0"),
       ("viewpoint.ViewpointReorienter._make_triangles", "len(v1.simplices) != 12"),
       ("viewpoint.ViewpointReorienter.reorient", "sum((1 for v10 in v8 if f.norm(v10 - v9) < constants.TOL)) != 1"),
       ("viewpoint.ViewpointReorienter.reorient", "f.norm(v10 - v9) < constants.TOL"),
       ("viewpoint.ViewpointReorienter.reorient", "np.dot(np.cross(v11, v12), v13) < 0")] ∧
    CBV.Gen.c18Slices =
      [("shape.RoundSolidFinder.find_shell", "v2.points[1:3]"),
       ("viewpoint.ViewpointReorienter._get_aligned", "sorted(v0, key=lambda v2: np.dot(v2.normal, v1))[-2:]")] ∧
    CBV.Gen.c18AlignedSlice = (-2, true) ∧ CBV.Gen.c18AlignedKey = "np.dot(v2.normal, v1)" ∧
    CBV.Gen.c18DefaultRadius = ["constants.TOL"] ∧
    CBV.Gen.c18NormalsDict = [("front", "v1"), ("back", "-v1"), ("top", "v2"),
      ("bottom", "-v2"), ("left", "v4"), ("right", "-v4")] ∧
    CBV.Gen.c18NormalsDict.map (·.1) = (Dirs.all ⟨V3.zero, V3.zero, V3.zero⟩).map (·.1) := by
  decide +kernel

end CBV.C18
