/- C18 — property theorems.  Stub. -/
import CBV.Model.C18

namespace CBV.C18

end CBV.C18
