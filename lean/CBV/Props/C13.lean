/- C13 — property theorems.  Stub. -/
import CBV.Model.C13

namespace CBV.C13

end CBV.C13
