/-
C13 — property theorems about the optimiser model `CBV.C13.optimize` (Model/C13.lean), for EVERY
oracle: quality function, clamp position functions, link functions, list of parameter vectors the
solver / the sensitivity probe evaluates, sensitivities (hence every order of the clamps), tolerance
criterion, iteration limit.

  T_C13_frame      points that are neither clamped nor followers of a clamped leader never change
  T_C13_on         clamped points are at `pos j (params j)` (hence on the manifold), preserved always,
                   established by the first iteration from any state
  T_C13_links      followers are at `link(leader)`
  T_C13_bounds     parameters stay in any set that contains the initial and the evaluated ones
  T_C13_rollback   `optimize_clamp`: unless it reports an improvement the state is exactly the one before;
                   when it does, the grid quality is strictly smaller
  T_C13_sens       the sensitivity probe gives back the state
  T_C13_noworse    grid quality after `optimize_clamp` / `optimize` ≤ before (`_general`: from any state,
                   relative to the state the first probes leave)
  T_C13_noworse_again   a second `optimize` call keeps consistency; quality ≤ before the first call
  T_C13_noraise    no `ValueError` leaves `optimize` (rolled back, never half-applied)
  T_C13_fuel       the `while` loop needs at most `max_iterations` rounds
  T_C13_order      the sorted clamp order is a permutation of the probed clamps
  T_C13_setup_*    add_clamp / add_link: refused calls leave nothing behind, accepted ones hit the junction meant
  T_C13_on_line, T_C13_links_translation   C17's LineClamp / TranslationLink as instances
  T_C13_backport_mesh / _sketch   mesh vertices / sketch positions after the back-port = final grid points
  round 6:
  T_C13_tie_*      the guards / operators / constants / defaults / statement lists regenerated from the source by
                   `cbv/tables/c13.py` parse to the model's expressions, whose meaning is the model's functions
  T_C13_driver_*   IterationDriver: built by begin/end_iteration, its `converged` is the loop's exit test,
                   tolerance ≤ 0 never stops early, an iteration without improvement stops
  T_C13_report_*   the reporter records are truthful, telescope, one per clamp and iteration; the printed overall
                   improvement is initial − final = the sum of all step improvements
  T_C13_noworse_history   any number of optimize() calls
-/
import CBV.Lemmas.C13
import CBV.Lemmas.C13R6
import CBV.Lemmas.C13C17
import Mathlib.Data.List.Perm.Basic
import Mathlib.Order.Basic
import Mathlib.Algebra.Order.Ring.Int
import Mathlib.Tactic.IntervalCases
import Mathlib.Tactic.Ring
import Mathlib.Algebra.Order.Field.Rat
import CBV.Gen.TC13

namespace CBV.C13

variable {P Prm Q S : Type}

/-! ### frame -/

/-- **Frame.** For every configuration (well-formed or not), every oracle and every schedule: a grid
    point that carries no clamp and is not the follower of a link whose leader carries a clamp has
    the same value after `optimize` as before; the number of points does not change. -/
theorem T_C13_frame [LinearOrder Q] [LinearOrder S] (cfg : Cfg P Prm) (o : Oracles P Q)
    (conv : List (Q × Q) → Bool) (maxIter : Nat) (sched : Nat → IterSched Prm S) (st : St P Prm) :
    (optimize cfg o conv maxIter sched st).st.pts.length = st.pts.length ∧
      ∀ k, ¬ movable cfg k → (optimize cfg o conv maxIter sched st).st.pts[k]? = st.pts[k]? :=
  optimize_pres (preserved_frame st) conv maxIter sched (fun _ => ⟨fun _ _ _ => trivial, fun _ _ _ _ => trivial⟩)
    st ⟨rfl, fun _ _ => rfl⟩

/-! ### clamped points on their clamp position, followers on their link -/

/-- **On, preservation.** In a well-formed configuration, sizes and consistency (every clamped
    point equals `pos j (params j)`, every follower of a clamped leader equals `link(pos j (params j))`)
    are preserved by `optimize`, whatever happens inside (also when a `ValueError` escapes). -/
theorem T_C13_on [LinearOrder Q] [LinearOrder S] {cfg : Cfg P Prm} {n : Nat} (hwf : WF cfg n) (o : Oracles P Q)
    (conv : List (Q × Q) → Bool) (maxIter : Nat) (sched : Nat → IterSched Prm S) (st : St P Prm)
    (hr : Rest cfg n st) : Rest cfg n (optimize cfg o conv maxIter sched st).st := by
  have := optimize_pres (preserved_cons (o := o) hwf (fun _ => True)) conv maxIter sched
    (fun _ => ⟨fun _ _ _ => trivial, fun _ _ _ _ => trivial⟩) st ⟨hr.1, hr.2.1, fun j _ => hr.2.2 j⟩
  exact ⟨this.1, this.2.1, fun j => this.2.2 j trivial⟩

/-- **On, establishment.** From ANY state of the right size (clamped vertices need not sit exactly on
    their clamp position, followers need not match their link — the situation right after
    `add_clamp` / `add_link`): if `optimize` completes at least one iteration and nothing is raised,
    the final state is consistent. -/
theorem T_C13_on_established [LinearOrder Q] [LinearOrder S] {cfg : Cfg P Prm} {n : Nat} (hwf : WF cfg n)
    (o : Oracles P Q) (conv : List (Q × Q) → Bool) (maxIter : Nat) (sched : Nat → IterSched Prm S)
    (st : St P Prm) (hlen : st.pts.length = n) (hplen : st.prm.length = cfg.clampIdx.length)
    (hnr : (optimize cfg o conv maxIter sched st).raised = none)
    (hit : (optimize cfg o conv maxIter sched st).hist ≠ []) :
    Rest cfg n (optimize cfg o conv maxIter sched st).st :=
  optimizeLoop_establish hwf conv maxIter sched maxIter [] [] st hlen hplen hnr hit

/-- hence on the manifold: if every value of the clamp function lies on the clamp's manifold, the
    clamped point does -/
theorem T_C13_on_manifold {cfg : Cfg P Prm} {n : Nat} {st : St P Prm} (hr : Rest cfg n st)
    (On : Nat → P → Prop) (hOn : ∀ j p, On j (cfg.pos j p)) {j idx : Nat} (hj : cfg.clampIdx[j]? = some idx) :
    ∃ x, st.pts[idx]? = some x ∧ On j x := by
  obtain ⟨p, hp⟩ := hr.prm_some hj
  exact ⟨_, (hr.2.2 j idx p hj hp).1, hOn j p⟩

/-- `hOn` is satisfiable with geometric content: the `LineClamp` function `p1 + t·d` maps every
    parameter onto the line through `p1` with direction `d` … -/
example (p1 d : V3) (t : Rat) : V3.cross ((p1 + V3.smul t d) - p1) d = V3.zero := by
  apply V3.ext' <;> simp [V3.zero] <;> ring

/-- … and the `PlaneClamp` function `p + a·u + b·v` (u, v ⟂ n) onto the plane through `p` with normal `n`
    (C17 treats the library's clamps in full) -/
example (p u v n : V3) (a b : Rat) (hu : V3.dot u n = 0) (hv : V3.dot v n = 0) :
    V3.dot ((p + V3.smul a u + V3.smul b v) - p) n = 0 := by
  simp only [V3.dot] at hu hv ⊢
  simp only [V3.sub_x, V3.sub_y, V3.sub_z, V3.add_x, V3.add_y, V3.add_z, V3.smul_x, V3.smul_y, V3.smul_z]
  have : (p.x + a * u.x + b * v.x - p.x) * n.x + (p.y + a * u.y + b * v.y - p.y) * n.y +
      (p.z + a * u.z + b * v.z - p.z) * n.z
      = a * (u.x * n.x + u.y * n.y + u.z * n.z) + b * (v.x * n.x + v.y * n.y + v.z * n.z) := by ring
  rw [this, hu, hv]; ring

/-- **Links.** In a consistent state every follower of a clamped leader is the image of the
    leader's current position under its link. -/
theorem T_C13_links {cfg : Cfg P Prm} {n : Nat} {st : St P Prm} (hr : Rest cfg n st) {j idx : Nat}
    (hj : cfg.clampIdx[j]? = some idx) (l : Link) (hl : l ∈ cfg.links) (hlead : l.leader = idx) :
    ∃ x, st.pts[idx]? = some x ∧ st.pts[l.follower]? = some (cfg.linkFn l.lid x) := by
  obtain ⟨p, hp⟩ := hr.prm_some hj
  obtain ⟨h0, h1⟩ := hr.2.2 j idx p hj hp
  exact ⟨_, h0, h1 l (mem_linksOf.mpr ⟨hl, hlead⟩)⟩

/-- **Bounds.** If the parameters held at the start and every parameter vector the probe and the
    solver evaluate for clamp `j` satisfy `B j` (the solver respects the bounds), then so do the
    parameters held at the end. -/
theorem T_C13_bounds [LinearOrder Q] [LinearOrder S] (cfg : Cfg P Prm) (o : Oracles P Q)
    (conv : List (Q × Q) → Bool) (maxIter : Nat) (sched : Nat → IterSched Prm S) (st : St P Prm)
    (B : Nat → Prm → Prop) (h0 : ∀ j p, st.prm[j]? = some p → B j p) (hs : ∀ k, SchedOK B (sched k)) :
    ∀ j p, (optimize cfg o conv maxIter sched st).st.prm[j]? = some p → B j p :=
  optimize_pres (preserved_bounds B) conv maxIter sched hs st h0

/-! ### rollback, probe -/

/-- **Rollback.** `optimize_clamp` from a state that is consistent at the clamp: unless the step is
    reported as an improvement (rollback, skip after a degenerate cell / a solver error, or an
    exception at the start) the state afterwards is exactly the state before; if it is reported as an
    improvement the grid quality afterwards is defined and strictly smaller. -/
theorem T_C13_rollback [LinearOrder Q] {cfg : Cfg P Prm} {n : Nat} (hwf : WF cfg n) (o : Oracles P Q)
    (st : St P Prm) (hlen : st.pts.length = n) (j : Nat) (hc : ConsAt cfg st j) (evals : List Prm) (sr : Bool) :
    ((optimizeClamp cfg o st j evals sr).st = st ∧
        ∀ s, (optimizeClamp cfg o st j evals sr).step = some s → s.flag ≠ .improved) ∨
      ∃ gi gf, o.gq st.pts = some gi ∧ o.gq (optimizeClamp cfg o st j evals sr).st.pts = some gf ∧ gf < gi ∧
        (optimizeClamp cfg o st j evals sr).raised = none ∧
        (optimizeClamp cfg o st j evals sr).step = some ⟨j, .improved, gi, gf⟩ :=
  optimizeClamp_spec hwf st hlen j hc evals sr

/-- **Sensitivity probe.** `_get_sensitivity` gives back exactly the state it started from, whatever
    it evaluates and wherever the evaluations stop. -/
theorem T_C13_sens {cfg : Cfg P Prm} {n : Nat} (hwf : WF cfg n) (o : Oracles P Q) {st : St P Prm}
    (hr : Rest cfg n st) {j idx : Nat} (hj : cfg.clampIdx[j]? = some idx) (evals : List Prm) :
    (probeClamp cfg o st j idx evals).1 = st :=
  probeClamp_eq hwf hr hj evals

/-! ### quality never gets worse, nothing is raised -/

/-- **Quality, one clamp.** -/
theorem T_C13_noworse_clamp [LinearOrder Q] {cfg : Cfg P Prm} {n : Nat} (hwf : WF cfg n) (o : Oracles P Q)
    (st : St P Prm) (hr : Rest cfg n st) (q0 : Q) (hq : o.gq st.pts = some q0) (j : Nat) (evals : List Prm)
    (sr : Bool) : ∃ q1, o.gq (optimizeClamp cfg o st j evals sr).st.pts = some q1 ∧ q1 ≤ q0 :=
  ((restLe_preserved hwf o q0).solve st j evals sr ⟨hr, q0, hq, le_refl _⟩).2

/-- **Quality, whole run.** From a consistent state with defined grid quality `q0`, for every oracle,
    schedule, tolerance criterion and iteration limit: the grid quality after `optimize` is defined
    and `≤ q0` (also if an exception escaped). -/
theorem T_C13_noworse [LinearOrder Q] [LinearOrder S] {cfg : Cfg P Prm} {n : Nat} (hwf : WF cfg n)
    (o : Oracles P Q) (conv : List (Q × Q) → Bool) (maxIter : Nat) (sched : Nat → IterSched Prm S)
    (st : St P Prm) (hr : Rest cfg n st) (q0 : Q) (hq : o.gq st.pts = some q0) :
    ∃ q1, o.gq (optimize cfg o conv maxIter sched st).st.pts = some q1 ∧ q1 ≤ q0 :=
  (optimizeLoop_rest (restLe_preserved hwf o q0) conv maxIter sched maxIter [] [] st ⟨hr, q0, hq, le_refl _⟩).2

/-- **Quality, whole run, from any state.** The state right after `add_clamp` / `add_link` need not be
    consistent (clamp constructors project the vertex onto the manifold, closer than TOL). If
    `optimize` completes at least one iteration and nothing is raised, the final grid quality is
    defined and not larger than the grid quality of the state the first round of sensitivity probes
    leaves (every clamped vertex on its clamp position, every follower on its link). -/
theorem T_C13_noworse_general [LinearOrder Q] [LinearOrder S] {cfg : Cfg P Prm} {n : Nat} (hwf : WF cfg n)
    (o : Oracles P Q) (conv : List (Q × Q) → Bool) (maxIter : Nat) (sched : Nat → IterSched Prm S)
    (st : St P Prm) (hlen : st.pts.length = n) (hplen : st.prm.length = cfg.clampIdx.length)
    (hnr : (optimize cfg o conv maxIter sched st).raised = none)
    (hit : (optimize cfg o conv maxIter sched st).hist ≠ []) :
    ∃ qn q1, o.gq (probeAll cfg o (sched 0) cfg.clampIdx.zipIdx st).1.pts = some qn ∧
      o.gq (optimize cfg o conv maxIter sched st).st.pts = some q1 ∧ q1 ≤ qn :=
  optimizeLoop_noworse_general hwf conv maxIter sched maxIter [] [] st hlen hplen hnr hit

/-- **Histories.** `optimize` may be called again (other method, other schedule, other iteration limit,
    the same clamps and links — the same `cfg`, i.e. clamp functions and links that do not change
    between the calls): the second call starts from the rest state the first one left, so consistency
    is kept and the quality after the second call is not larger than before the first.  (A clamp
    function that silently changes between two calls — e.g. because it aliases a vertex array the
    back-port moves — is outside `cfg`; the harness detects it as a non-functional oracle graph.) -/
theorem T_C13_noworse_again [LinearOrder Q] [LinearOrder S] {cfg : Cfg P Prm} {n : Nat} (hwf : WF cfg n)
    (o : Oracles P Q) (conv conv' : List (Q × Q) → Bool) (maxIter maxIter' : Nat)
    (sched sched' : Nat → IterSched Prm S) (st : St P Prm) (hr : Rest cfg n st) (q0 : Q)
    (hq : o.gq st.pts = some q0) :
    Rest cfg n (optimize cfg o conv' maxIter' sched' (optimize cfg o conv maxIter sched st).st).st ∧
      ∃ q2, o.gq (optimize cfg o conv' maxIter' sched' (optimize cfg o conv maxIter sched st).st).st.pts = some q2 ∧
        q2 ≤ q0 := by
  have hr1 := T_C13_on hwf o conv maxIter sched st hr
  obtain ⟨q1, hq1, hle1⟩ := T_C13_noworse hwf o conv maxIter sched st hr q0 hq
  obtain ⟨q2, hq2, hle2⟩ := T_C13_noworse hwf o conv' maxIter' sched' _ hr1 q1 hq1
  exact ⟨T_C13_on hwf o conv' maxIter' sched' _ hr1, q2, hq2, le_trans hle2 hle1⟩

/-- **No exception, never half-applied.** If a defined grid quality implies a defined junction
    quality (every junction's cells are cells of the grid), then from a consistent state with defined
    grid quality no `ValueError` leaves `optimize`: degenerate cells met by the solver or by a probe
    are rolled back. -/
theorem T_C13_noraise [LinearOrder Q] [LinearOrder S] {cfg : Cfg P Prm} {n : Nat} (hwf : WF cfg n)
    (o : Oracles P Q) (hcoh : ∀ i pts, (o.gq pts).isSome → (o.jq i pts).isSome)
    (conv : List (Q × Q) → Bool) (maxIter : Nat) (sched : Nat → IterSched Prm S)
    (st : St P Prm) (hr : Rest cfg n st) (q0 : Q) (hq : o.gq st.pts = some q0) :
    (optimize cfg o conv maxIter sched st).raised = none := by
  have hp : NoRaise cfg o (RestLe cfg o n q0) :=
    { toRestPreserved := restLe_preserved hwf o q0
      probeOk := fun st j idx evals hj hR => by
        obtain ⟨q, hq, _⟩ := hR.2
        exact probeClamp_raised hwf hR.1 hj evals (by simp [hq]) hcoh
      solveOk := fun st j idx evals sr hj hR => by
        obtain ⟨q, hq, _⟩ := hR.2
        exact optimizeClamp_noraise hwf st hR.1 hj evals sr (by simp [hq]) hcoh
      gqOk := fun st hR => by obtain ⟨q, hq, _⟩ := hR.2; simp [hq] }
  exact optimizeLoop_noraise hp conv maxIter sched maxIter [] [] st ⟨hr, q0, hq, le_refl _⟩

/-! ### the loop -/

/-- **Fuel.** `max_iterations` rounds of the `while not driver.converged` loop always suffice: the
    fuelled recursion of the model ends by the loop's own exit condition, after at most
    `max_iterations` iterations. -/
theorem T_C13_fuel [LinearOrder Q] [LinearOrder S] (cfg : Cfg P Prm) (o : Oracles P Q)
    (conv : List (Q × Q) → Bool) (maxIter : Nat) (sched : Nat → IterSched Prm S) (st : St P Prm) :
    (optimize cfg o conv maxIter sched st).outOfFuel = false ∧
      (optimize cfg o conv maxIter sched st).hist.length ≤ maxIter := by
  have := optimizeLoop_fuel cfg o conv maxIter sched maxIter [] [] st (by simp)
  exact ⟨this.1, this.2 (by simp)⟩

/-- **Order.** Sorting by sensitivity only permutes the clamps: each is optimised exactly once per
    iteration, in whatever order the sensitivities dictate. -/
theorem T_C13_order [LinearOrder S] (keys : List (Nat × S)) : (sortDesc keys).Perm keys := by
  unfold sortDesc
  suffices h : ∀ acc : List (Nat × S), (keys.foldl (fun acc x => insertDesc x acc) acc).Perm (keys ++ acc) by
    simpa using h []
  induction keys with
  | nil => intro acc; simp
  | cons x xs ih =>
      intro acc
      simp only [List.foldl_cons, List.cons_append]
      exact (ih _).trans ((List.Perm.append_left xs (insertDesc_perm x acc)).trans List.perm_middle)

/-! ### back-port -/

/-- **Back-port, mesh.** `MeshOptimizer.backport` makes the mesh vertices equal to the grid's final
    points (the grid was built from as many points as the mesh has vertices). -/
theorem T_C13_backport_mesh (verts pts : List P) (h : verts.length = pts.length) :
    backportMesh verts pts = pts := by
  apply List.ext_getElem?
  intro i
  have := foldl_set_zipIdx pts 0 verts i
  simp only [Nat.zero_le, Nat.zero_add, true_and, Nat.sub_zero, h] at this
  unfold backportMesh
  have e : (fun (vs : List P) (x : P × Nat) => match x with | (p, i) => vs.set i p) = fun vs x => vs.set x.2 x.1 := by
    funext vs x; cases x; rfl
  rw [e, this]
  split
  · rfl
  · next hn =>
      have : pts.length ≤ i := by omega
      rw [List.getElem?_eq_none this, List.getElem?_eq_none (by omega)]

/-- **Back-port, sketch.** `SketchOptimizer.backport` = `MappedSketch.update(grid.points)`: when it
    succeeds (no index out of range) and every point index occurs in some quad (what `MappedSketch`
    needs anyway to reconstruct `positions`), the sketch's positions afterwards are the grid's final
    points. -/
theorem T_C13_backport_sketch (quads : List (List Nat)) (pts : List P) (faces : List (List P))
    (hu : sketchUpdate quads pts = some faces) (hcover : ∀ i, i < pts.length → i ∈ quads.flatten)
    (hne : pts ≠ []) : sketchPositions quads faces = some pts := by
  unfold sketchUpdate at hu
  obtain ⟨hl, hs⟩ := flatten_mapM (fun iq => pts[iq]?) quads faces hu
  have hrange : ∀ i ∈ quads.flatten, i < pts.length := by
    intro i hi
    obtain ⟨k, hk⟩ := List.getElem?_of_mem hi
    obtain ⟨b, _, hb⟩ := hs k i hk
    exact (List.getElem?_eq_some_iff.mp hb).1
  have hpos : 0 < pts.length := List.length_pos_iff.mpr hne
  have hlast : pts.length - 1 ∈ quads.flatten := hcover _ (by omega)
  unfold sketchPositions
  dsimp only
  cases hm : quads.flatten.max? with
  | none => rw [List.max?_eq_none_iff] at hm; rw [hm] at hlast; cases hlast
  | some mx =>
      obtain ⟨hmem, hmax⟩ := List.max?_eq_some_iff.mp hm
      have hmx : mx + 1 = pts.length := by
        have h1 := hrange mx hmem
        have h2 := hmax _ hlast
        omega
      dsimp only
      have hval : ∀ i, i < pts.length →
          (if i ∈ quads.flatten then faces.flatten[List.idxOf i quads.flatten]? else none) = pts[i]? := by
        intro i hi
        have hin := hcover i hi
        rw [if_pos hin]
        obtain ⟨b, hb1, hb2⟩ := hs _ i (List.getElem?_idxOf hin)
        rw [hb1, hb2]
      have hsome : ((List.range (mx + 1)).mapM
          (fun i => if i ∈ quads.flatten then faces.flatten[List.idxOf i quads.flatten]? else none)).isSome := by
        apply mapM_option_isSome
        intro a ha
        have : a < pts.length := by rw [← hmx]; exact List.mem_range.mp ha
        rw [hval a this, List.getElem?_eq_getElem this]; rfl
      obtain ⟨r, hr⟩ := Option.isSome_iff_exists.mp hsome
      rw [hr]
      obtain ⟨rl, rs⟩ := mapM_option_spec _ _ r hr
      congr 1
      apply List.ext_getElem?
      intro k
      by_cases hk : k < pts.length
      · have hk' : (List.range (mx + 1))[k]? = some k := by
          rw [List.getElem?_range (by omega)]
        obtain ⟨b, hb1, hb2⟩ := rs k k hk'
        rw [hb1, ← hb2, hval k hk]
      · have h1 : r.length ≤ k := by rw [rl, List.length_range]; omega
        rw [List.getElem?_eq_none h1, List.getElem?_eq_none (by omega)]

/-! ### set-up (round 5): `GridBase.add_clamp` / `add_link` -/

/-- **Refused calls leave nothing behind.** An `add_clamp` / `add_link` that raises (`NoJunctionError`,
    `ClampExistsError`, `InvalidLinkError`) leaves the registration of the grid exactly as it was. -/
theorem T_C13_setup_refused (tol2 : Rat) (pts : List V3) (r : Reg) (k : Nat) (a b : V3) :
    ((addClamp tol2 pts r k a).2 ≠ none → (addClamp tol2 pts r k a).1 = r) ∧
      ((addLink tol2 pts r k a b).2 ≠ none → (addLink tol2 pts r k a b).1 = r) :=
  ⟨(addClamp_spec tol2 pts r k a).1, (addLink_spec tol2 pts r k a b).1⟩

/-- **An accepted clamp** sits on the first junction closer than TOL to the clamp's position, that junction had
    no clamp, and nothing else changes. -/
theorem T_C13_setup_clamp (tol2 : Rat) (pts : List V3) (r : Reg) (cid : Nat) (pos : V3)
    (h : (addClamp tol2 pts r cid pos).2 = none) :
    ∃ i q, pts[i]? = some q ∧ near tol2 q pos = true ∧
      (∀ m q', m < i → pts[m]? = some q' → near tol2 q' pos = false) ∧ (∀ c ∈ r.clamps, c.1 ≠ i) ∧
      (addClamp tol2 pts r cid pos).1 = { r with clamps := r.clamps ++ [(i, cid)] } := by
  obtain ⟨i, q, _, h1, h2, h3, h4, h5⟩ := (addClamp_spec tol2 pts r cid pos).2 h
  exact ⟨i, q, h1, h2, h3, h4, h5⟩

/-- **The clamped vertex is the one found.** When the points of the grid are pairwise at least 2·TOL apart
    (any real mesh: coincident points have been merged), the junction an `add_clamp` finds for a position within
    TOL of point `k` is `k` — whatever the index order, whatever lies a little further away. -/
theorem T_C13_setup_unique (tol2 : Rat) (pts : List V3) (hs : Separated tol2 pts) (pos : V3) (k : Nat) (a : V3)
    (hk : pts[k]? = some a) (hn : near tol2 a pos = true) : findFirst tol2 pts pos = some k :=
  findFirst_unique tol2 pts hs pos k a hk hn

/-- **An accepted link** connects two different junctions of the grid, the leader's within TOL of the link's
    leader, the follower's within TOL of its follower, and is appended to the registered links. -/
theorem T_C13_setup_link (tol2 : Rat) (pts : List V3) (r : Reg) (lid : Nat) (leader follower : V3)
    (h : (addLink tol2 pts r lid leader follower).2 = none) :
    ∃ li fi a b, li ≠ fi ∧ pts[li]? = some a ∧ pts[fi]? = some b ∧ near tol2 leader a = true ∧
      near tol2 follower b = true ∧
      (addLink tol2 pts r lid leader follower).1 = { r with links := r.links ++ [⟨li, fi, lid⟩] } :=
  (addLink_spec tol2 pts r lid leader follower).2 h

/-- **The configuration read off the registration** (`GridBase.clamps` walks the junctions in order) has no
    junction twice and only junctions of the grid: the first two clauses of `WF`. -/
theorem T_C13_setup_cfg (r : Reg) (n : Nat) :
    (clampIdxOf r n).Nodup ∧ ∀ i ∈ clampIdxOf r n, i < n ∧ ∃ c ∈ r.clamps, c.1 = i := by
  refine ⟨List.Nodup.filter _ List.nodup_range, fun i hi => ?_⟩
  simp only [clampIdxOf, List.mem_filter, List.mem_range, List.any_eq_true] at hi
  obtain ⟨h1, c, hc, hci⟩ := hi
  exact ⟨h1, c, hc, by simpa using hci⟩

example : addClamp (1 / 100) [⟨0, 0, 0⟩, ⟨1, 0, 0⟩] ⟨[], []⟩ 7 ⟨1, 1 / 100, 0⟩ = (⟨[(1, 7)], []⟩, none) ∧
    addClamp (1 / 100) [⟨0, 0, 0⟩, ⟨1, 0, 0⟩] ⟨[(1, 7)], []⟩ 8 ⟨1, 0, 0⟩ = (⟨[(1, 7)], []⟩, some .clampExists) ∧
    addLink (1 / 100) [⟨0, 0, 0⟩, ⟨1, 0, 0⟩] ⟨[], []⟩ 3 ⟨1, 0, 0⟩ ⟨0, 0, 0⟩ = (⟨[], [⟨1, 0, 3⟩]⟩, none) ∧
    addLink (1 / 100) [⟨0, 0, 0⟩, ⟨1, 0, 0⟩] ⟨[], []⟩ 3 ⟨1, 0, 0⟩ ⟨5, 0, 0⟩ = (⟨[], []⟩, some .followerNotFound) := by
  decide +kernel

/-- hypothesis of `T_C13_setup_unique` -/
example : Separated (1 / 100) [⟨0, 0, 0⟩, ⟨1, 0, 0⟩] := by
  intro i j a b hi hj hij
  match i, j with
  | 0, 0 => exact absurd rfl hij
  | 1, 1 => exact absurd rfl hij
  | 0, 1 => simp at hi hj; subst hi hj; norm_num [V3.norm2, V3.dot]
  | 1, 0 => simp at hi hj; subst hi hj; norm_num [V3.norm2, V3.dot]
  | _ + 2, _ => simp at hi
  | 0, _ + 2 => simp at hj
  | 1, _ + 2 => simp at hj

/-! ### the library's clamps and links as instances (C17's model) -/

/-- **On the line.** If clamp `j` is a `LineClamp` (C17's `lineClamp p1 p2 s`, `s` the length of `p2 − p1`), the
    clamped point of a consistent state is collinear with `p1, p2` and its parameter is its signed distance
    from `p1` — `T_C13_on_manifold` with the statement of `T_C17_line_on` (re-proved in `Lemmas/C13C17.lean` from C17's model) supplying the hypothesis. -/
theorem T_C13_on_line {cfg : Cfg V3 Rat} {n : Nat} {st : St V3 Rat} (hr : Rest cfg n st) {j idx : Nat}
    (hj : cfg.clampIdx[j]? = some idx) (p1 p2 : V3) (s : Rat) (hs : s ≠ 0)
    (hw : s * s = V3.dot (p2 - p1) (p2 - p1)) (hpos : cfg.pos j = C17.lineClamp p1 p2 s) :
    ∃ x t, st.pts[idx]? = some x ∧ st.prm[j]? = some t ∧ V3.cross (x - p1) (p2 - p1) = V3.zero ∧
      V3.dot (x - p1) (p2 - p1) = t * s := by
  obtain ⟨t, ht⟩ := hr.prm_some hj
  have h := (hr.2.2 j idx t hj ht).1
  rw [hpos] at h
  obtain ⟨h1, h2⟩ := c17_line_on p1 p2 s t hs hw
  exact ⟨_, t, h, ht, h1, h2⟩

/-- **Translation kept.** If link `l` is a `TranslationLink` (C17's `translationLink l0 f0`), follower − leader
    of a consistent state is the vector the link was built with. -/
theorem T_C13_links_translation {cfg : Cfg V3 Rat} {n : Nat} {st : St V3 Rat} (hr : Rest cfg n st) {j idx : Nat}
    (hj : cfg.clampIdx[j]? = some idx) (l : Link) (hl : l ∈ cfg.links) (hlead : l.leader = idx) (l0 f0 : V3)
    (hfn : cfg.linkFn l.lid = C17.translationLink l0 f0) :
    ∃ x y, st.pts[idx]? = some x ∧ st.pts[l.follower]? = some y ∧ y - x = f0 - l0 := by
  obtain ⟨x, hx, hy⟩ := T_C13_links hr hj l hl hlead
  rw [hfn] at hy
  exact ⟨x, _, hx, hy, c17_translation l0 f0 x⟩

/-! ### non-vacuity: a concrete instance satisfying every hypothesis used above, on which the
optimiser really moves something, rolls back and skips.

Points and parameters are integers; one free clamp on junction 1 (`pos = id`), junction 2 follows
it at distance 10; quality `(x₁ - 2)²`, degenerate at `x₁ = 7`.  Iteration 0 evaluates 4, 3, 2 and
keeps 2 (quality 9 → 0); iteration 1 evaluates 3 and then the degenerate 7: skipped and restored. -/

def exCfg : Cfg Int Int :=
  { clampIdx := [1], pos := fun _ p => p, links := [⟨1, 2, 0⟩], linkFn := fun _ p => p + 10 }

def exQuality (pts : List Int) : Option Int :=
  match pts[1]? with
  | some x => if x = 7 then none else some ((x - 2) * (x - 2))
  | none => none

def exO : Oracles Int Int := { gq := exQuality, jq := fun _ pts => exQuality pts }

def exSt0 : St Int Int := { pts := [0, 5, 15], prm := [5] }

def exSched (it : Nat) : IterSched Int Int :=
  { probe := fun _ => ([5, 6], 1)
    solve := fun _ _ => if it = 0 then ([4, 3, 2], false) else ([3, 7], false) }

def exConv : List (Int × Int) → Bool := fun _ => false

theorem T_C13_ex_wf : WF exCfg 3 := ⟨by decide, by decide, by decide, by decide, by decide⟩

theorem T_C13_ex_rest : Rest exCfg 3 exSt0 := by
  refine ⟨rfl, rfl, fun j idx p hj hp => ?_⟩
  match j with
  | 0 =>
      simp [exCfg] at hj; subst hj
      simp [exSt0] at hp; subst hp
      refine ⟨rfl, fun l hl => ?_⟩
      simp [linksOf, exCfg] at hl; subst hl; rfl
  | j + 1 => simp [exCfg] at hj

/-- the instance run: vertex 1 moved from 5 to 2, its follower from 15 to 12, vertex 0 untouched,
    nothing raised, two iterations with qualities 9 → 0 → 0, second step skipped -/
example : (optimize exCfg exO exConv 2 exSched exSt0).st.pts = [0, 2, 12] ∧
    (optimize exCfg exO exConv 2 exSched exSt0).st.prm = [2] ∧
    (optimize exCfg exO exConv 2 exSched exSt0).raised = none ∧
    (optimize exCfg exO exConv 2 exSched exSt0).hist = [(9, 0), (0, 0)] ∧
    (optimize exCfg exO exConv 2 exSched exSt0).steps.map (·.map (·.flag)) = [[.improved], [.skip]] := by decide

/-- `T_C13_noworse_again` on the instance: a second call (other schedule order) from the state the first left -/
example : (optimize exCfg exO exConv 1 (fun _ => exSched 1) (optimize exCfg exO exConv 2 exSched exSt0).st).st.pts
    = [0, 2, 12] := by decide

/-- hypotheses of `T_C13_frame` (vertex 0 is not movable, vertices 1 and 2 are) -/
example : ¬ movable exCfg 0 ∧ movable exCfg 1 ∧ movable exCfg 2 := by
  unfold movable; decide

/-- hypotheses of `T_C13_on`, `T_C13_sens`, `T_C13_rollback`, `T_C13_noworse`, `T_C13_noraise` -/
example : WF exCfg 3 ∧ Rest exCfg 3 exSt0 ∧ exO.gq exSt0.pts = some 9 ∧
    (∀ i pts, (exO.gq pts).isSome → (exO.jq i pts).isSome) ∧ ConsAt exCfg exSt0 0 ∧ exCfg.clampIdx[0]? = some 1 :=
  ⟨T_C13_ex_wf, T_C13_ex_rest, by decide, fun _ _ h => h, T_C13_ex_rest.2.2 0, rfl⟩

/-- hypotheses of `T_C13_on_established` and `T_C13_noworse_general`: a state that is NOT consistent (vertex 1 at 6, clamp at 5)
    becomes consistent -/
example : ¬ Consistent exCfg ⟨[0, 6, 15], [5]⟩ ∧
    (optimize exCfg exO exConv 2 exSched ⟨[0, 6, 15], [5]⟩).raised = none ∧
    (optimize exCfg exO exConv 2 exSched ⟨[0, 6, 15], [5]⟩).hist ≠ [] ∧
    (optimize exCfg exO exConv 2 exSched ⟨[0, 6, 15], [5]⟩).st.pts = [0, 2, 12] := by
  refine ⟨fun h => ?_, by decide, by decide, by decide⟩
  have := (h 0 1 5 rfl rfl).1
  simp [exCfg] at this

/-- hypotheses of `T_C13_bounds` with the bounds 2 ≤ p ≤ 7 -/
example : (∀ (j : Nat) (p : Int), exSt0.prm[j]? = some p → 2 ≤ p ∧ p ≤ 7) ∧ ∀ k, SchedOK (fun _ p => 2 ≤ p ∧ p ≤ 7) (exSched k) := by
  refine ⟨fun j p h => ?_, fun k => ⟨fun j e he => ?_, fun k' j e he => ?_⟩⟩
  · match j with
    | 0 => simp [exSt0] at h; subst h; decide
    | j + 1 => simp [exSt0] at h
  · simp [exSched] at he; rcases he with rfl | rfl <;> decide
  · simp only [exSched] at he
    split at he <;> simp at he <;> rcases he with rfl | rfl | rfl <;> decide

/-- hypotheses of `T_C13_backport_sketch`: a 2 x 1 mapped sketch -/
example : sketchUpdate [[0, 1, 4, 3], [1, 2, 5, 4]] ([10, 11, 12, 13, 14, 15] : List Int)
      = some [[10, 11, 14, 13], [11, 12, 15, 14]] ∧
    (∀ i, i < ([10, 11, 12, 13, 14, 15] : List Int).length → i ∈ [[0, 1, 4, 3], [1, 2, 5, 4]].flatten) ∧
    sketchPositions [[0, 1, 4, 3], [1, 2, 5, 4]] [[10, 11, 14, 13], [11, 12, 15, 14]]
      = some ([10, 11, 12, 13, 14, 15] : List Int) := by
  refine ⟨by decide, ?_, by decide⟩
  intro i hi
  have : i < 6 := hi
  interval_cases i <;> decide

/-- hypothesis of `T_C13_backport_mesh` -/
example : backportMesh [10, 20, 30] [0, 2, 12] = ([0, 2, 12] : List Int) := by decide

/-! ## Round 6 -/

/-! ### tie: the source's guards, operators and constants, regenerated by `cbv/tables/c13.py` -/

/-- `TOL`, `VSMALL`, `VBIG` of `util/constants.py` are the model's constants. -/
theorem T_C13_tie_consts :
    CBV.Gen.c13Consts.map (fun c => (c.1, (c.2.1 : Rat) / (c.2.2 : Rat))) =
      [("TOL", tolGeom), ("VSMALL", vsmall), ("VBIG", vbig)] := by decide +kernel

/-- `ClampOptimizationData.improvement` as written in the source means `grid_initial − grid_final`, the model's
    `Reporter.improvement`, for every record. -/
theorem T_C13_tie_reporter_improvement (r : Reporter Rat) :
    (parseCascade CBV.Gen.c13SrcReporterImprovement).map (evalCascade (envReporter r)) = some (.num r.improvement) := by
  rw [parse_reporterImprovement]; exact congrArg some (eval_reporterImprovement r)

/-- The test in front of the roll-back in `optimize_clamp`, as written in the source (`reporter.improvement <= 0`),
    holds exactly when `grid_initial ≤ grid_final` — the test `optimizeClamp` makes (`if gi ≤ gf`). A `<` instead of
    `<=`, a swapped difference or another constant breaks this. -/
theorem T_C13_tie_rollback_test (r : Reporter Rat) :
    (parseRPN CBV.Gen.c13SrcRollbackTest).map (·.eval (envReporter r)) =
      some (.bool (decide (r.gridInitial ≤ r.gridFinal))) := by
  rw [parse_rollbackTest]; exact congrArg some (eval_rollbackTest r)

/-- `IterationData.improvement` (with its `VSMALL` floor) means the model's `IterData.improvement`. -/
theorem T_C13_tie_iter_improvement (d : IterData) :
    (parseCascade CBV.Gen.c13SrcIterImprovement).map (evalCascade (envIter d)) = some (.num d.improvement) := by
  rw [parse_iterImprovement]; exact congrArg some (eval_iterImprovement d)

/-- `IterationDriver.initial_improvement` / `last_improvement` mean the model's. -/
theorem T_C13_tie_driver_improvements (d : Driver) :
    (parseCascade CBV.Gen.c13SrcInitialImprovement).map (evalCascade (envDriver d)) = some (.num d.initialImprovement) ∧
      (parseCascade CBV.Gen.c13SrcLastImprovement).map (evalCascade (envDriver d)) = some (.num d.lastImprovement) := by
  rw [parse_initialImprovement, parse_lastImprovement]
  exact ⟨congrArg some (eval_initialImprovement d), congrArg some (eval_lastImprovement d)⟩

/-- `IterationDriver.converged` as written in the source — the order of its three tests, `>=`, `< 2`, the quotient
    and `< tolerance` — means the model's `Driver.converged`, `ZeroDivisionError` included, for every driver. -/
theorem T_C13_tie_converged (d : Driver) :
    (parseCascade CBV.Gen.c13SrcConverged).map (evalCascade (envDriver d)) = some d.converged.val := by
  rw [parse_converged]; exact congrArg some (eval_converged d)

/-- `GridBase.update` answers with the grid quality exactly when `len(junction.links) > 0` — the branch
    `gridUpdate` takes on `linksOf cfg idx`. -/
theorem T_C13_tie_update_guard (cfg : Cfg P Prm) (o : Oracles P Q) (pts : List P) (idx : Nat) (p : P) :
    (parseRPN CBV.Gen.c13SrcUpdateGuard).map (·.eval (fun i => if i = 13 then ((linksOf cfg idx).length : Rat) else 0)) =
        some (.bool (decide (0 < (linksOf cfg idx).length))) ∧
      (gridUpdate cfg o pts idx p).2 =
        if 0 < (linksOf cfg idx).length then o.gq (updPts cfg pts idx p) else o.jq idx (updPts cfg pts idx p) := by
  rw [parse_updateGuard]
  refine ⟨congrArg some (eval_updateGuard _), ?_⟩
  unfold gridUpdate
  cases linksOf cfg idx <;> simp

/-- the probe step `epsilon=10 * TOL` -/
theorem T_C13_tie_probe_epsilon :
    (parseRPN CBV.Gen.c13SrcProbeEpsilon).map (·.eval (fun _ => 0)) = some (.num (1 / 1000000)) := by
  rw [parse_probeEpsilon]; decide +kernel

/-- default arguments, method names: the model's constants are the source's. -/
theorem T_C13_tie_defaults :
    defaultMaxIter = CBV.Gen.c13DefaultMaxIterations ∧
      defaultTol = (CBV.Gen.c13DefaultTolerance.1 : Rat) / (CBV.Gen.c13DefaultTolerance.2 : Rat) ∧
      CBV.Gen.c13SrcOptimizeDefaults = [("max_iterations", "20"), ("tolerance", "0.1"), ("method", "'" ++ defaultMethod ++ "'")] ∧
      CBV.Gen.c13SrcAutoOptimizeDefaults = CBV.Gen.c13SrcOptimizeDefaults ∧
      methods = CBV.Gen.c13Methods := by decide +kernel

/-- **The control code, statement by statement.** The bodies of `optimize_clamp`, `_get_sensitivity`,
    `optimize_iteration`, `optimize`, `GridBase.update`, `GridBase.clamps`, `get_junction_from_clamp`, both
    back-ports, the reporter's `undo / rollback / skip`, its fields and defaults, `IterationData.__init__`,
    `IterationDriver.__init__ / begin_iteration / end_iteration`, the caught exception class, the arguments of the
    `scipy.optimize.minimize` call, `sorted(…, reverse=True)` and the default arguments, as regenerated from the
    current source (print / report statements, timing, comments, docstrings and type annotations dropped, every local
    name and parameter renamed `v0, v1, …` in order of first appearance, literals printed canonically), are the ones `Model/C13.lean` and
    `Model/C13Driver.lean` were written against. Any edit of these methods breaks this obligation. -/
theorem T_C13_tie_statements :
    CBV.Gen.c13SrcReporterFields =
      [("index", ""), ("grid_initial", ""), ("junction_initial", ""), ("junction_final", "1000000000000.0"), ("grid_final", "1000000000000.0"), ("skipped", "False"), ("rolled_back", "False")] ∧
    CBV.Gen.c13SrcReporterUndo =
      ["self.junction_final = self.junction_initial", "self.grid_final = self.grid_initial"] ∧
    CBV.Gen.c13SrcReporterRollback =
      ["self.rolled_back = True", "self.undo()"] ∧
    CBV.Gen.c13SrcReporterSkip =
      ["self.skipped = True", "self.undo()"] ∧
    CBV.Gen.c13SrcIterInit =
      ["self.index = v0", "self.initial_quality = v1", "self.final_quality = VBIG"] ∧
    CBV.Gen.c13SrcDriverInit =
      ["self.max_iterations = v0", "self.tolerance = v1", "self.iterations = []"] ∧
    CBV.Gen.c13SrcBeginIteration =
      ["v1 = IterationData(len(self.iterations), v0)", "v1.report_begin()", "self.iterations.append(v1)", "return v1"] ∧
    CBV.Gen.c13SrcEndIteration =
      ["v1 = self.iterations[-1]", "v1.final_quality = v0", "v1.report_end()"] ∧
    CBV.Gen.c13SrcOptimizeClamp =
      ["v2 = copy.copy(v0.params)", "v3 = self.grid.get_junction_from_clamp(v0)", "v4 = ClampOptimizationData(v3.index, self.grid.quality, v3.quality)", "v4.report_start()", "def v5(v6):", "  v0.update_params(v6)", "  return self.grid.update(v3.index, v0.position)", "try:", "  scipy.optimize.minimize(v5, v0.params, bounds=v0.bounds, method=v1)", "  v4.junction_final = v3.quality", "  v4.grid_final = self.grid.quality", "  if v4.improvement <= 0:", "    v4.rollback()", "    v0.update_params(v2)", "    self.grid.update(v3.index, v0.position)", "except ValueError:", "  v4.skip()", "  v0.update_params(v2)", "  self.grid.update(v3.index, v0.position)", "v4.report_end()"] ∧
    CBV.Gen.c13SrcClampExcept =
      ["ValueError"] ∧
    CBV.Gen.c13SrcMinimizeArgs =
      ["v5", "v0.params", "bounds=v0.bounds", "method=v1"] ∧
    CBV.Gen.c13SrcSensitivity =
      ["v1 = self.grid.get_junction_from_clamp(v0)", "v2 = copy.copy(v0.params)", "def v3(v0, v1, v4):", "  v0.update_params(v4)", "  self.grid.update(v1.index, v0.position)", "  return v1.quality", "try:", "  v5 = np.asarray(scipy.optimize.approx_fprime(v0.params, lambda v6: v3(v0, v1, v6), epsilon=10 * TOL))", "  v7 = np.linalg.norm(v5)", "except ValueError:", "  v7 = 0", "v0.update_params(v2)", "self.grid.update(v1.index, v0.position)", "return v7"] ∧
    CBV.Gen.c13SrcOptimizeIteration =
      ["v1 = sorted(self.grid.clamps, key=lambda v2: self._get_sensitivity(v2), reverse=True)", "for v3 in v1:", "  self.optimize_clamp(v3, v0)"] ∧
    CBV.Gen.c13SrcSortedReverse =
      ["reverse=True"] ∧
    CBV.Gen.c13SrcOptimize =
      ["v3 = IterationDriver(v0, v1)", "while not v3.converged:", "  v3.begin_iteration(self.grid.quality)", "  self.optimize_iteration(v2)", "  v3.end_iteration(self.grid.quality)", "if self.report:", "  v6 = v3.iterations[-1].final_quality", "  v7 = v3.iterations[0].initial_quality", "  v8 = v7 - v6", "  v9 = v8 / v7", "self.backport()", "return v3"] ∧
    CBV.Gen.c13SrcOptimizeDefaults =
      [("max_iterations", "20"), ("tolerance", "0.1"), ("method", "'SLSQP'")] ∧
    CBV.Gen.c13SrcAutoOptimizeDefaults =
      [("max_iterations", "20"), ("tolerance", "0.1"), ("method", "'SLSQP'")] ∧
    CBV.Gen.c13SrcGridUpdate =
      ["self.points[v0] = v1", "v2 = self.junctions[v0]", "if len(v2.links) > 0:", "  for v3 in v2.links:", "    v3.link.leader = v1", "    v3.link.update()", "    self.points[v3.follower_index] = v3.link.follower", "  return self.quality", "return v2.quality"] ∧
    CBV.Gen.c13SrcGridClamps =
      ["v0 = []", "for v1 in self.junctions:", "  if v1.clamp is not None:", "    v0.append(v1.clamp)", "return v0"] ∧
    CBV.Gen.c13SrcJunctionFromClamp =
      ["for v1 in self.junctions:", "  if v1.clamp == v0:", "    return v1", "raise NoJunctionError"] ∧
    CBV.Gen.c13SrcBackportMesh =
      ["for (v0, v1) in enumerate(self.grid.points):", "  self.mesh.vertices[v0].move_to(v1)"] ∧
    CBV.Gen.c13SrcBackportSketch =
      ["self.sketch.update(self.grid.points)"] := by
  refine ⟨?_, ?_, ?_, ?_, ?_, ?_, ?_, ?_, ?_, ?_, ?_, ?_, ?_, ?_, ?_, ?_, ?_, ?_, ?_, ?_, ?_, ?_⟩ <;> rfl


/-! ### the iteration driver -/

/-- **The driver object.** Alternating `begin_iteration(a)` / `end_iteration(b)` from a fresh
    `IterationDriver(max_iterations, tolerance)` never hits the `IndexError` and builds exactly the iterations
    `(index, a, b)` with indices `0, 1, 2, …`. -/
theorem T_C13_driver_build (m : Int) (t : Rat) (hist : List (Rat × Rat)) :
    hist.foldl (fun d h => ((d.beginIter h.1).endIter h.2).getD d) (Driver.new m t) = Driver.ofHist m t hist ∧
      ∀ d a b, ((d : Driver).beginIter a).endIter b ≠ none := by
  refine ⟨?_, fun d a b => by rw [driver_begin_end]; simp⟩
  rw [driver_fold]
  simp [Driver.new, Driver.ofHist]

/-- **The loop's exit test is the driver's.** The test `converged (convRat tol) maxIter hist` the model loop makes
    (and `c13.opt` runs) is `IterationDriver.converged` of the driver object holding these iterations — provided
    the first iteration's initial quality is not 0, where python raises `ZeroDivisionError` (and ℚ's `x / 0 = 0`
    would say "converged"). -/
theorem T_C13_driver_conv (maxIter : Nat) (tol : Rat) (hist : List (Rat × Rat))
    (h0 : ∀ a, hist.head? = some a → a.1 ≠ 0) :
    converged (convRat tol) maxIter hist = decide ((Driver.ofHist maxIter tol hist).converged = .yes) :=
  convRat_driver maxIter tol hist h0

example : (∀ a, [((9 : Rat), (4 : Rat)), (4, 4)].head? = some a → a.1 ≠ 0) ∧
    (Driver.ofHist 5 (1 / 10) [(9, 4), (4, 4)]).converged = .yes ∧
    (Driver.ofHist 5 (1 / 10) [(0, 0), (0, 0)]).converged = .zeroDiv ∧
    (Driver.ofHist 5 (1 / 10) [(9, 4)]).converged = .no := by
  refine ⟨fun a h => ?_, by decide +kernel, by decide +kernel, by decide +kernel⟩
  simp at h; subst h; norm_num

/-- **Tolerance ≤ 0 switches the tolerance rule off.** If no iteration made the quality worse (`T_C13_noworse`)
    and the first initial quality is positive, a driver with `tolerance ≤ 0` converges by the iteration limit
    only: `optimize` then runs exactly `max_iterations` iterations. -/
theorem T_C13_driver_tol0 (d : Driver) (htol : d.tol ≤ 0) (hmono : ∀ i ∈ d.its, i.final ≤ i.initial)
    (hpos : ∀ i0, d.its.head? = some i0 → 0 < i0.initial) :
    d.converged = .yes ↔ d.maxIter ≤ (d.its.length : Int) := by
  unfold Driver.converged
  by_cases h1 : d.maxIter ≤ (d.its.length : Int)
  · simp [h1]
  · simp only [h1, if_false, iff_false]
    by_cases h2 : d.its.length < 2
    · simp [h2]
    · simp only [h2, if_false]
      cases hh : d.its.head? with
      | none => simp
      | some i0 =>
          have hp := hpos i0 hh
          have hne : d.its ≠ [] := by intro h; rw [h] at hh; simp at hh
          have hlast : 0 < d.lastImprovement := by
            unfold Driver.lastImprovement
            rw [if_neg h2]
            cases hl : d.its.getLast? with
            | none => norm_num [vbig]
            | some l => exact iterData_improvement_pos l (hmono l (List.mem_of_getLast? hl))
          have : ¬ d.lastImprovement / i0.initial < d.tol := by
            have : 0 < d.lastImprovement / i0.initial := div_pos hlast hp
            intro h; linarith
          simp [ne_of_gt hp, this]

example : (Driver.ofHist 3 0 [(9, 4), (4, 4)]).tol ≤ 0 ∧ (Driver.ofHist 3 0 [(9, 4), (4, 4)]).converged = .no ∧
    (Driver.ofHist 2 0 [(9, 4), (4, 4)]).converged = .yes := by decide +kernel

/-- **A stalled iteration stops the loop.** From the second iteration on, an iteration that changed nothing
    (all steps rolled back or skipped: final = initial) ends `optimize`, as soon as
    `VSMALL < tolerance · (first initial quality)`. -/
theorem T_C13_driver_stall (d : Driver) (h2 : 2 ≤ d.its.length) (i0 l : IterData) (hh : d.its.head? = some i0)
    (hl : d.its.getLast? = some l) (hsame : l.final = l.initial) (hp : 0 < i0.initial)
    (htol : vsmall < d.tol * i0.initial) : d.converged = .yes := by
  unfold Driver.converged
  by_cases h1 : d.maxIter ≤ (d.its.length : Int)
  · simp [h1]
  · have h2' : ¬ d.its.length < 2 := by omega
    have hlast : d.lastImprovement = vsmall := by
      unfold Driver.lastImprovement
      rw [if_neg h2', hl]
      simp [IterData.improvement, hsame, ratAbs, vsmall]
    have : d.lastImprovement / i0.initial < d.tol := by
      rw [hlast, div_lt_iff₀ hp]; exact htol
    simp [h1, h2', hh, ne_of_gt hp, this]

example : (Driver.ofHist 9 (1 / 10) [(9, 4), (4, 4)]).converged = .yes ∧
    vsmall < (1 / 10 : Rat) * 9 := by decide +kernel

/-! ### the reporter -/

/-- **Roll-back and skip report nothing gained.** After `rollback()` or `skip()` (also `skip()` after `rollback()`,
    the path of a restore that raises) the record shows final = initial for grid and junction, improvement 0,
    and the status column says `Skip` whenever `skipped` is set. -/
theorem T_C13_reporter_undo (r : Reporter Rat) :
    r.rollback.improvement = 0 ∧ r.skip.improvement = 0 ∧ r.rollback.skip.improvement = 0 ∧
      r.rollback.gridFinal = r.gridInitial ∧ r.rollback.junctionFinal = r.junctionInitial ∧
      r.skip.gridFinal = r.gridInitial ∧ r.skip.junctionFinal = r.junctionInitial ∧
      r.rollback.skip.comment = "Skip" ∧ r.skip.comment = "Skip" ∧
      (r.skipped = false → r.rollback.comment = "Rollback") := by
  refine ⟨?_, ?_, ?_, rfl, rfl, rfl, rfl, rfl, rfl, ?_⟩ <;>
    simp [Reporter.improvement, Reporter.rollback, Reporter.skip, Reporter.undo, Reporter.comment]

/-- **A step record is truthful.** `optimize_clamp` from a rest state with grid quality `q0`, nothing raised:
    there is a record, for this clamp, its `grid_initial` is `q0`, its `grid_final` is the grid quality of the
    state the call leaves, never larger than `q0`, and strictly smaller exactly when the step is flagged as kept. -/
theorem T_C13_report_step [LinearOrder Q] {cfg : Cfg P Prm} {n : Nat} (hwf : WF cfg n) (o : Oracles P Q)
    (st : St P Prm) (hr : Rest cfg n st) (q0 : Q) (hq : o.gq st.pts = some q0) (j : Nat) (evals : List Prm) (sr : Bool)
    (hnr : (optimizeClamp cfg o st j evals sr).raised = none) :
    ∃ s, (optimizeClamp cfg o st j evals sr).step = some s ∧ s.clamp = j ∧ s.gridInitial = q0 ∧
      o.gq (optimizeClamp cfg o st j evals sr).st.pts = some s.gridFinal ∧ s.gridFinal ≤ q0 ∧
      (s.flag = .improved ↔ s.gridFinal < q0) :=
  optimizeClamp_report hwf st hr q0 hq j evals sr hnr

/-- **The records of a run.** `optimize` from a rest state with grid quality `q0`, nothing raised (`T_C13_noraise`):
    the iteration records `(initial, final)` telescope from `q0` to the final grid quality `q1` (each iteration
    starts where the previous one ended and never ends higher), and there is one list of step records per
    iteration, with exactly one record per clamp, telescoping from that iteration's initial to its final quality. -/
theorem T_C13_report_run [LinearOrder Q] [LinearOrder S] {cfg : Cfg P Prm} {n : Nat} (hwf : WF cfg n)
    (o : Oracles P Q) (conv : List (Q × Q) → Bool) (maxIter : Nat) (sched : Nat → IterSched Prm S)
    (st : St P Prm) (hr : Rest cfg n st) (q0 : Q) (hq : o.gq st.pts = some q0)
    (hnr : (optimize cfg o conv maxIter sched st).raised = none) :
    ∃ q1, o.gq (optimize cfg o conv maxIter sched st).st.pts = some q1 ∧
      HistChain q0 (optimize cfg o conv maxIter sched st).hist q1 ∧
      List.Forall₂ (fun h ss => Chain h.1 ss h.2 ∧ ss.length = cfg.clampIdx.length)
        (optimize cfg o conv maxIter sched st).hist (optimize cfg o conv maxIter sched st).steps := by
  obtain ⟨h', s', q1, e1, e2, e3, e4, e5⟩ := optimizeLoop_report hwf conv maxIter sched maxIter [] [] st hr q0 hq hnr
  simp only [List.nil_append] at e1 e2
  unfold optimize
  rw [e1, e2]
  exact ⟨q1, e3, e4, e5⟩

/-- **Number of `optimize_clamp` calls.** At most `max_iterations` iterations, `len(clamps)` calls in each:
    at most `max_iterations × len(clamps)` minimiser runs in one `optimize()`. -/
theorem T_C13_report_calls [LinearOrder Q] [LinearOrder S] {cfg : Cfg P Prm} {n : Nat} (hwf : WF cfg n)
    (o : Oracles P Q) (conv : List (Q × Q) → Bool) (maxIter : Nat) (sched : Nat → IterSched Prm S)
    (st : St P Prm) (hr : Rest cfg n st) (q0 : Q) (hq : o.gq st.pts = some q0)
    (hnr : (optimize cfg o conv maxIter sched st).raised = none) :
    ((optimize cfg o conv maxIter sched st).steps.map List.length).sum =
        (optimize cfg o conv maxIter sched st).hist.length * cfg.clampIdx.length ∧
      ((optimize cfg o conv maxIter sched st).steps.map List.length).sum ≤ maxIter * cfg.clampIdx.length := by
  obtain ⟨_, _, _, hf⟩ := T_C13_report_run hwf o conv maxIter sched st hr q0 hq hnr
  have hlen := (T_C13_fuel cfg o conv maxIter sched st).2
  have key : ∀ (hs : List (Q × Q)) (ss : List (List (Step Q))),
      List.Forall₂ (fun h ss => Chain h.1 ss h.2 ∧ ss.length = cfg.clampIdx.length) hs ss →
      (ss.map List.length).sum = hs.length * cfg.clampIdx.length := by
    intro hs ss h
    induction h with
    | nil => simp
    | cons h _ ih => simp only [List.map_cons, List.sum_cons, List.length_cons, ih, h.2]; ring
  rw [key _ _ hf]
  exact ⟨rfl, Nat.mul_le_mul_right _ hlen⟩

/-- **The printed overall improvement.** With rational qualities: the numbers of the summary line of `optimize`
    (`start_quality`, `end_quality`, `abs_improvement`) are the grid quality before, the grid quality after and
    their difference; that difference is ≥ 0, is the sum of the iterations' `initial − final`, and each
    iteration's `initial − final` is the sum of its step records' `grid_initial − grid_final`, all ≥ 0. -/
theorem T_C13_report_total [LinearOrder S] {cfg : Cfg P Prm} {n : Nat} (hwf : WF cfg n)
    (o : Oracles P Rat) (conv : List (Rat × Rat) → Bool) (maxIter : Nat) (sched : Nat → IterSched Prm S)
    (st : St P Prm) (hr : Rest cfg n st) (q0 : Rat) (hq : o.gq st.pts = some q0) (hq0 : q0 ≠ 0) (tol : Rat)
    (hnr : (optimize cfg o conv maxIter sched st).raised = none)
    (hit : (optimize cfg o conv maxIter sched st).hist ≠ []) :
    ∃ q1, o.gq (optimize cfg o conv maxIter sched st).st.pts = some q1 ∧ q1 ≤ q0 ∧
      (Driver.ofHist maxIter tol (optimize cfg o conv maxIter sched st).hist).summary true =
        .ok q0 q1 (q0 - q1) ((q0 - q1) / q0) ∧
      q0 - q1 = ((optimize cfg o conv maxIter sched st).hist.map (fun h => h.1 - h.2)).sum ∧
      List.Forall₂ (fun h ss => h.1 - h.2 = (ss.map (fun s => s.gridInitial - s.gridFinal)).sum ∧
          ∀ s ∈ ss, 0 ≤ s.gridInitial - s.gridFinal)
        (optimize cfg o conv maxIter sched st).hist (optimize cfg o conv maxIter sched st).steps := by
  obtain ⟨q1, g1, hc, hf⟩ := T_C13_report_run hwf o conv maxIter sched st hr q0 hq hnr
  obtain ⟨hsum, hle, hhead, hlast⟩ := histChain_sum hc
  refine ⟨q1, g1, hle, ?_, hsum, ?_⟩
  · generalize (optimize cfg o conv maxIter sched st).hist = hist at hit hhead hlast
    obtain ⟨a, ha⟩ : ∃ a, hist.head? = some a := by
      cases hist with
      | nil => exact absurd rfl hit
      | cons a t => exact ⟨a, rfl⟩
    obtain ⟨b, hb⟩ : ∃ b, hist.getLast? = some b := by
      cases h : hist.getLast? with
      | none => exact absurd (List.getLast?_eq_none_iff.mp h) hit
      | some b => exact ⟨b, rfl⟩
    have e1 := hhead a ha
    have e2 := hlast b hb
    unfold Driver.summary
    simp only [Bool.not_true, Bool.false_eq_true, if_false, ofHist_head, ofHist_last, ha, hb, Option.map_some, e1, e2,
      hq0]
  · exact hf.imp (fun _ _ h => ⟨(chain_sum h.1).1, (chain_sum h.1).2.2⟩)

/-- hypotheses and conclusions of the report theorems on the instance: 9 → 0 → 0, one record per iteration -/
example : (optimize exCfg exO exConv 2 exSched exSt0).raised = none ∧
    (optimize exCfg exO exConv 2 exSched exSt0).hist = [(9, 0), (0, 0)] ∧
    (optimize exCfg exO exConv 2 exSched exSt0).steps.map (·.map (fun s => (s.clamp, s.gridInitial, s.gridFinal)))
      = [[(0, 9, 0)], [(0, 0, 0)]] := by decide

/-! ### histories -/

/-- **Any number of `optimize()` calls** on one optimizer (other methods, schedules, limits, tolerances; the
    same clamps and links): every call starts from the rest state the previous one left; consistency is kept
    and the grid quality after the last call is defined and not larger than before the first. -/
theorem T_C13_noworse_history [LinearOrder Q] [LinearOrder S] {cfg : Cfg P Prm} {n : Nat} (hwf : WF cfg n)
    (o : Oracles P Q) (calls : List (Call Prm Q S)) (st : St P Prm) (hr : Rest cfg n st) (q0 : Q)
    (hq : o.gq st.pts = some q0) :
    Rest cfg n (runCalls cfg o calls st) ∧ ∃ q, o.gq (runCalls cfg o calls st).pts = some q ∧ q ≤ q0 := by
  induction calls generalizing st q0 with
  | nil => exact ⟨hr, q0, hq, le_refl _⟩
  | cons c cs ih =>
      have hr1 := T_C13_on hwf o c.conv c.maxIter c.sched st hr
      obtain ⟨q1, hq1, hle1⟩ := T_C13_noworse hwf o c.conv c.maxIter c.sched st hr q0 hq
      obtain ⟨h1, q, h2, h3⟩ := ih _ hr1 q1 hq1
      exact ⟨h1, q, h2, le_trans h3 hle1⟩

/-- three calls on the instance -/
example : (runCalls exCfg exO [⟨exConv, 2, exSched⟩, ⟨exConv, 1, fun _ => exSched 1⟩, ⟨exConv, 3, exSched⟩] exSt0).pts
    = [0, 2, 12] := by decide

/-! ### round 6b: negative qualities (tester change q3) -/

/-- **Why the roll-back test must be the plain difference.** The summed quality of an almost ideal grid is
    negative. A relative test `100·(gi − gf)/gi ≤ 0` agrees with the model's `gi ≤ gf` (`T_C13_tie_rollback_test`)
    only for a positive initial quality; for a negative one it is `gf ≤ gi`: it rolls back exactly the steps that
    improved and keeps the ones that made the grid worse. -/
theorem T_C13_rollback_sign (gi gf : Rat) :
    (0 < gi → (100 * (gi - gf) / gi ≤ 0 ↔ gi ≤ gf)) ∧ (gi < 0 → (100 * (gi - gf) / gi ≤ 0 ↔ gf ≤ gi)) := by
  constructor
  · intro h
    rw [div_le_iff₀ h]
    constructor <;> intro h' <;> linarith
  · intro h
    rw [div_le_iff_of_neg h]
    constructor <;> intro h' <;> linarith

/-- the quality theorems do not care about the sign: the instance with the quality shifted by −100 (grid quality
    −91 → −100 → −100), hypotheses of `T_C13_noworse` / `T_C13_report_run` with a negative `q0` -/
def exONeg : Oracles Int Int :=
  { gq := fun pts => (exQuality pts).map (· - 100), jq := fun _ pts => (exQuality pts).map (· - 100) }

example : exONeg.gq exSt0.pts = some (-91) ∧
    (optimize exCfg exONeg exConv 2 exSched exSt0).hist = [(-91, -100), (-100, -100)] ∧
    (optimize exCfg exONeg exConv 2 exSched exSt0).raised = none ∧
    (optimize exCfg exONeg exConv 2 exSched exSt0).st.pts = [0, 2, 12] := by decide

/-! ### round 6c: the remaining clamp / link kinds of C17's model as instances ("on their constraints" without
a hypothesis on the clamp function for these kinds). Parameters are vectors `List Rat`; facts about C17's model are
proved in `Lemmas/C13C17.lean` from `Model/C17.lean` / `Lemmas/C17*.lean` (no `Props` import). -/

/-- the clamped point of a rest state is its clamp function at the held parameters -/
theorem rest_clamped {cfg : Cfg P Prm} {n : Nat} {st : St P Prm} (hr : Rest cfg n st) {j idx : Nat}
    (hj : cfg.clampIdx[j]? = some idx) : ∃ p, st.prm[j]? = some p ∧ st.pts[idx]? = some (cfg.pos j p) := by
  obtain ⟨p, hp⟩ := hr.prm_some hj
  exact ⟨p, hp, (hr.2.2 j idx p hj hp).1⟩

/-- **On the plane** (`PlaneClamp`; also a plane `ParametricSurfaceClamp`, `C17.surfPlane`). -/
theorem T_C13_on_plane {cfg : Cfg V3 (List Rat)} {n : Nat} {st : St V3 (List Rat)} (hr : Rest cfg n st) {j idx : Nat}
    (hj : cfg.clampIdx[j]? = some idx) (point nrm u v : V3) (hu : V3.dot u nrm = 0) (hv : V3.dot v nrm = 0)
    (hpos : cfg.pos j = (fun p => C17.planeClamp point u v (p.getD 0 0) (p.getD 1 0)) ∨
      cfg.pos j = (fun p => C17.surfPlane point u v (p.getD 0 0) (p.getD 1 0))) :
    ∃ x, st.pts[idx]? = some x ∧ V3.dot (x - point) nrm = 0 := by
  obtain ⟨p, _, hx⟩ := rest_clamped hr hj
  rcases hpos with h | h <;> rw [h] at hx
  · exact ⟨_, hx, (c17_plane_on point nrm u v _ _ hu hv).1⟩
  · exact ⟨_, hx, (c17_plane_on point nrm u v _ _ hu hv).2⟩

/-- **On the curve** (`CurveClamp` on a `LineCurve`): collinear with the curve's end points. -/
theorem T_C13_on_curve_line {cfg : Cfg V3 (List Rat)} {n : Nat} {st : St V3 (List Rat)} (hr : Rest cfg n st) {j idx : Nat}
    (hj : cfg.clampIdx[j]? = some idx) (p1 p2 : V3) (hpos : cfg.pos j = fun p => C17.curveLine p1 p2 (p.getD 0 0)) :
    ∃ x, st.pts[idx]? = some x ∧ V3.cross (x - p1) (p2 - p1) = V3.zero := by
  obtain ⟨p, _, hx⟩ := rest_clamped hr hj
  rw [hpos] at hx
  exact ⟨_, hx, c17_curveLine_on p1 p2 _⟩

/-- **On the polyline** (`CurveClamp` on a `LinearInterpolatedCurve`, knots `ks` with increasing parameters): when
    the held parameter is inside the knot range (outside it the library's curve raises and the step is skipped —
    the guard of the totalised `getD`), the clamped point lies on the segment between two consecutive knots. -/
theorem T_C13_on_polyline {cfg : Cfg V3 (List Rat)} {n : Nat} {st : St V3 (List Rat)} (hr : Rest cfg n st) {j idx : Nat}
    (hj : cfg.clampIdx[j]? = some idx) (ks : List (Rat × V3)) (hk : C17.knotsOk ks = true) (dflt : V3)
    (hpos : cfg.pos j = fun p => (C17.polyEval ks (p.getD 0 0)).getD dflt)
    (hin : ∀ p, st.prm[j]? = some p → (C17.polyEval ks (p.getD 0 0)).isSome) :
    ∃ x a b lam, st.pts[idx]? = some x ∧ (a, b) ∈ ks.zip ks.tail ∧ 0 ≤ lam ∧ lam ≤ 1 ∧
      x = a.2 + V3.smul lam (b.2 - a.2) := by
  obtain ⟨p, hp, hx⟩ := rest_clamped hr hj
  rw [hpos] at hx
  obtain ⟨y, hy⟩ := Option.isSome_iff_exists.mp (hin p hp)
  simp only [hy, Option.getD_some] at hx
  obtain ⟨a, b, lam, hab, h0, h1, _, _, hxy, _⟩ := C17.polyEval_on_segment ks _ y hk hy
  exact ⟨y, a, b, lam, hx, hab, h0, h1, hxy⟩

/-- **On the circle** (`RadialClamp`: the creation point turned about the axis by a quaternion `(w p, μ p · n)` that
    depends on the parameter): height along the axis and distance from the centre are those of the creation point. -/
theorem T_C13_on_radial {cfg : Cfg V3 (List Rat)} {n : Nat} {st : St V3 (List Rat)} (hr : Rest cfg n st) {j idx : Nat}
    (hj : cfg.clampIdx[j]? = some idx) (center nrm initial : V3) (w mu : List Rat → Rat)
    (hN : ∀ p, w p * w p + V3.dot (V3.smul (mu p) nrm) (V3.smul (mu p) nrm) ≠ 0)
    (hpos : cfg.pos j = fun p => C17.radialClamp center nrm (w p) (mu p) initial) :
    ∃ x p, st.pts[idx]? = some x ∧ st.prm[j]? = some p ∧
      V3.dot (x - center) (V3.smul (mu p) nrm) = V3.dot (initial - center) (V3.smul (mu p) nrm) ∧
      V3.norm2 (x - center) = V3.norm2 (initial - center) := by
  obtain ⟨p, hp, hx⟩ := rest_clamped hr hj
  rw [hpos] at hx
  obtain ⟨h1, h2⟩ := c17_rot_keeps (w p) (V3.smul (mu p) nrm) center initial (hN p)
  exact ⟨_, p, hx, hp, h1, h2⟩

/-- **Mirror kept** (`SymmetryLink`): the midpoint of leader and follower lies on the plane, the connecting vector
    is parallel to the normal. -/
theorem T_C13_links_symmetry {cfg : Cfg V3 (List Rat)} {n : Nat} {st : St V3 (List Rat)} (hr : Rest cfg n st) {j idx : Nat}
    (hj : cfg.clampIdx[j]? = some idx) (l : Link) (hl : l ∈ cfg.links) (hlead : l.leader = idx) (nrm o : V3)
    (hn : V3.dot nrm nrm ≠ 0) (hfn : cfg.linkFn l.lid = C17.symmetryLink nrm o) :
    ∃ x y, st.pts[idx]? = some x ∧ st.pts[l.follower]? = some y ∧
      V3.dot (V3.smul (1 / 2) (x + y) - o) nrm = 0 ∧ V3.cross (y - x) nrm = V3.zero := by
  obtain ⟨x, hx, hy⟩ := T_C13_links hr hj l hl hlead
  rw [hfn] at hy
  obtain ⟨h1, h2⟩ := c17_symmetry nrm o x hn
  exact ⟨x, _, hx, hy, h1, h2⟩

/-- **Rotation kept** (`RotationLink`: the follower's creation point turned about the link's axis by the quaternion
    of the leader's turn): the follower keeps its height along the axis and its distance from the axis origin. -/
theorem T_C13_links_rotation {cfg : Cfg V3 (List Rat)} {n : Nat} {st : St V3 (List Rat)} (hr : Rest cfg n st) {j idx : Nat}
    (hj : cfg.clampIdx[j]? = some idx) (l : Link) (hl : l ∈ cfg.links) (hlead : l.leader = idx) (a o f0 : V3)
    (w mu : V3 → Rat) (hN : ∀ x, w x * w x + V3.dot (V3.smul (mu x) a) (V3.smul (mu x) a) ≠ 0)
    (hfn : cfg.linkFn l.lid = fun x => C17.rotationLink (w x) (V3.smul (mu x) a) o f0) :
    ∃ x y, st.pts[idx]? = some x ∧ st.pts[l.follower]? = some y ∧
      V3.dot (y - o) (V3.smul (mu x) a) = V3.dot (f0 - o) (V3.smul (mu x) a) ∧ V3.norm2 (y - o) = V3.norm2 (f0 - o) := by
  obtain ⟨x, hx, hy⟩ := T_C13_links hr hj l hl hlead
  rw [hfn] at hy
  obtain ⟨h1, h2⟩ := c17_rot_keeps (w x) (V3.smul (mu x) a) o f0 (hN x)
  exact ⟨x, _, hx, hy, h1, h2⟩

/-- non-vacuity: a rest state with a plane clamp (junction 0) leading a symmetry link to junction 1 -/
def exCfgG : Cfg V3 (List Rat) :=
  { clampIdx := [0], pos := fun _ p => C17.planeClamp ⟨0, 0, 0⟩ ⟨1, 0, 0⟩ ⟨0, 1, 0⟩ (p.getD 0 0) (p.getD 1 0),
    links := [⟨0, 1, 0⟩], linkFn := fun _ => C17.symmetryLink ⟨1, 0, 0⟩ ⟨2, 0, 0⟩ }

def exStG : St V3 (List Rat) := { pts := [⟨1, 3, 0⟩, ⟨3, 3, 0⟩], prm := [[1, 3]] }

theorem T_C13_exG_rest : Rest exCfgG 2 exStG := by
  refine ⟨rfl, rfl, fun j idx p hj hp => ?_⟩
  match j with
  | 0 =>
      simp [exCfgG] at hj; subst hj
      simp [exStG] at hp; subst hp
      refine ⟨by decide +kernel, fun l hl => ?_⟩
      simp [linksOf, exCfgG] at hl; subst hl; decide +kernel
  | j + 1 => simp [exCfgG] at hj

example : V3.dot (⟨1, 0, 0⟩ : V3) ⟨0, 0, 1⟩ = 0 ∧ V3.dot (⟨0, 1, 0⟩ : V3) ⟨0, 0, 1⟩ = 0 ∧
    V3.dot (⟨1, 0, 0⟩ : V3) ⟨1, 0, 0⟩ ≠ 0 ∧ exCfgG.clampIdx[0]? = some 0 ∧
    C17.knotsOk [(0, ⟨0, 0, 0⟩), (1, ⟨1, 0, 0⟩), (3, ⟨1, 2, 0⟩)] = true ∧
    (C17.polyEval [(0, ⟨0, 0, 0⟩), (1, ⟨1, 0, 0⟩), (3, ⟨1, 2, 0⟩)] 2).isSome ∧
    (2 : Rat) * 2 + V3.dot (V3.smul (1 / 2) (⟨1, 2, 2⟩ : V3)) (V3.smul (1 / 2) ⟨1, 2, 2⟩) ≠ 0 := by decide +kernel

/-! ### round 6c: clamps and links added between `optimize()` calls -/

/-- **Frame over a growing history.** Whatever is added between the calls: a point that is neither clamped nor
    follower of a clamped leader in ANY of the configurations the calls ran with is unchanged at the end; within a
    single call (one phase) only the points movable in that call's configuration change. No hypothesis. -/
theorem T_C13_frame_phases [LinearOrder Q] [LinearOrder S] (o : Oracles P Q) (phases : List (Phase P Prm Q S))
    (st : St P Prm) :
    (runPhases o phases st).pts.length = st.pts.length ∧
      ∀ k, (∀ ph ∈ phases, ¬ movable ph.cfg k) → (runPhases o phases st).pts[k]? = st.pts[k]? := by
  induction phases generalizing st with
  | nil => exact ⟨rfl, fun _ _ => rfl⟩
  | cons ph rest ih =>
      obtain ⟨h1, h2⟩ := T_C13_frame ph.cfg o ph.call.conv ph.call.maxIter ph.call.sched (ph.enter st)
      obtain ⟨i1, i2⟩ := ih (optimize ph.cfg o ph.call.conv ph.call.maxIter ph.call.sched (ph.enter st)).st
      refine ⟨by simp only [runPhases]; rw [i1, h1]; rfl, fun k hk => ?_⟩
      simp only [runPhases]
      rw [i2 k (fun p hp => hk p (List.mem_cons_of_mem _ hp)), h2 k (hk ph (List.mem_cons_self ..))]
      rfl

/-- **Quality over a growing history.** If every call is entered in a rest state of its (well-formed)
    configuration — clamps added between the calls sit exactly on their vertex, as the constructors
    `FreeClamp(v)`, `PlaneClamp(v, v, n)`, `LineClamp(v, v, v + d)` give — the grid quality after the last call is
    defined and not larger than before the first. -/
theorem T_C13_noworse_phases [LinearOrder Q] [LinearOrder S] {n : Nat} (o : Oracles P Q)
    (phases : List (Phase P Prm Q S)) (st : St P Prm) (hok : PhasesOK n o phases st) (q0 : Q)
    (hq : o.gq st.pts = some q0) : ∃ q, o.gq (runPhases o phases st).pts = some q ∧ q ≤ q0 := by
  induction phases generalizing st q0 with
  | nil => exact ⟨q0, hq, le_refl _⟩
  | cons ph rest ih =>
      obtain ⟨hwf, hr, hrest⟩ := hok
      obtain ⟨q1, hq1, hle1⟩ := T_C13_noworse hwf o ph.call.conv ph.call.maxIter ph.call.sched (ph.enter st) hr q0 hq
      obtain ⟨q, h2, h3⟩ := ih _ hrest q1 hq1
      exact ⟨q, h2, le_trans h3 hle1⟩

/-- non-vacuity: first a call with no clamp at all, then the clamp of `exCfg` is added (parameter 5 = the vertex'
    position) and a second call moves vertex 1 and its follower -/
def exCfg0 : Cfg Int Int := { clampIdx := [], pos := fun _ p => p, links := [⟨1, 2, 0⟩], linkFn := fun _ p => p + 10 }

def exPhases : List (Phase Int Int Int Int) :=
  [⟨exCfg0, fun _ => [], ⟨exConv, 2, exSched⟩⟩, ⟨exCfg, fun _ => [5], ⟨exConv, 2, exSched⟩⟩]

example : (runPhases exO exPhases ⟨[0, 5, 15], []⟩).pts = [0, 2, 12] ∧
    (optimize exCfg0 exO exConv 2 exSched ⟨[0, 5, 15], []⟩).st.pts = [0, 5, 15] ∧
    (∀ ph ∈ exPhases, ¬ movable ph.cfg 0) := by
  refine ⟨by decide, by decide, ?_⟩
  intro ph hph
  simp only [exPhases, List.mem_cons, List.not_mem_nil, or_false] at hph
  rcases hph with rfl | rfl <;> (unfold movable; decide)

example : PhasesOK 3 exO exPhases ⟨[0, 5, 15], []⟩ := by
  have e : (optimize exCfg0 exO exConv 2 exSched ⟨[0, 5, 15], []⟩).st.pts = [0, 5, 15] := by decide
  refine ⟨⟨by decide, by decide, by decide, by decide, by decide⟩, ⟨rfl, rfl, fun j idx p hj _ => ?_⟩, ?_⟩
  · simp [exCfg0] at hj
  · refine ⟨T_C13_ex_wf, ?_, trivial⟩
    show Rest exCfg 3 ⟨(optimize exCfg0 exO exConv 2 exSched ⟨[0, 5, 15], []⟩).st.pts, [5]⟩
    rw [e]
    exact T_C13_ex_rest

/-! ### round 6d: `add_clamp` between two calls, unconditionally for exact constructors -/

/-- **A clamp added between two `optimize()` calls.** Configuration `cfg` well-formed, state at rest, grid quality
    `q0`. Junction `idx` (inside the grid) has no clamp, leads no link and follows no clamped leader; `newPos p` is the
    position of that vertex *before the first call* (what `FreeClamp(v)`, `PlaneClamp(v, v, n)`, `LineClamp(v, v, v + d)`
    deliver). After the first call the clamp is added — as number `k` of `GridBase.clamps`, whatever `k`: the clamps on
    higher junctions are renumbered — and `optimize()` is called again (other schedule, criterion, limit): the second
    call is entered in a rest state of a well-formed configuration (so `PhasesOK` needs no hypothesis), the final
    state is at rest and the final grid quality is defined and `≤ q0`. -/
theorem T_C13_noworse_add_clamp [LinearOrder Q] [LinearOrder S] {cfg : Cfg P Prm} {n : Nat} (hwf : WF cfg n)
    (o : Oracles P Q) (c1 c2 : Call Prm Q S) (st : St P Prm) (hr : Rest cfg n st) (q0 : Q) (hq : o.gq st.pts = some q0)
    (k idx : Nat) (newPos : Prm → P) (p : Prm) (hk : k ≤ cfg.clampIdx.length) (hi : idx < n)
    (hnew : idx ∉ cfg.clampIdx) (hlead : ∀ l ∈ cfg.links, l.leader ≠ idx)
    (hfol : ∀ l ∈ cfg.links, l.leader ∈ cfg.clampIdx → l.follower ≠ idx) (hon : st.pts[idx]? = some (newPos p)) :
    let st1 := (optimize cfg o c1.conv c1.maxIter c1.sched st).st
    let cfg' := cfg.addClampAt k idx newPos
    let st2 := (optimize cfg' o c2.conv c2.maxIter c2.sched (st1.addPrmAt k p)).st
    WF cfg' n ∧ Rest cfg' n (st1.addPrmAt k p) ∧ Rest cfg' n st2 ∧ ∃ q2, o.gq st2.pts = some q2 ∧ q2 ≤ q0 := by
  intro st1 cfg' st2
  have hr1 : Rest cfg n st1 := T_C13_on hwf o c1.conv c1.maxIter c1.sched st hr
  obtain ⟨q1, hq1, hle1⟩ := T_C13_noworse hwf o c1.conv c1.maxIter c1.sched st hr q0 hq
  have hnm : ¬ movable cfg idx := by
    rintro (h | ⟨l, hl, hle, hf⟩)
    · exact hnew h
    · exact hfol l hl hle hf
  have hon1 : st1.pts[idx]? = some (newPos p) := by
    rw [(T_C13_frame cfg o c1.conv c1.maxIter c1.sched st).2 idx hnm]; exact hon
  have hwf' : WF cfg' n := wf_addClampAt hwf k idx newPos hi hnew hlead hfol
  have hr' : Rest cfg' n (st1.addPrmAt k p) :=
    rest_addClampAt hr1 k idx newPos p hk hon1 (fun l hl => absurd (mem_linksOf.mp hl).2 (hlead l (mem_linksOf.mp hl).1))
  obtain ⟨q2, hq2, hle2⟩ := T_C13_noworse hwf' o c2.conv c2.maxIter c2.sched _ hr' q1 hq1
  exact ⟨hwf', hr', T_C13_on hwf' o c2.conv c2.maxIter c2.sched _ hr', q2, hq2, le_trans hle2 hle1⟩

/-- non-vacuity: `exCfg0` plus a link-free variant: junction 0 of the instance gets a clamp after the first call.
    (`exCfg`: clamp on junction 1 leading junction 2; junction 0 is free, leads nothing, follows nothing.) -/
example : exCfg.clampIdx.length = 1 ∧ (0 : Nat) ≤ exCfg.clampIdx.length ∧ (0 : Nat) < 3 ∧ 0 ∉ exCfg.clampIdx ∧
    (∀ l ∈ exCfg.links, l.leader ≠ 0) ∧ (∀ l ∈ exCfg.links, l.leader ∈ exCfg.clampIdx → l.follower ≠ 0) ∧
    exSt0.pts[0]? = some ((fun (q : Int) => q) 0) ∧
    (exCfg.addClampAt 0 0 (fun q => q)).clampIdx = [0, 1] ∧
    (optimize (exCfg.addClampAt 0 0 (fun q => q)) exO exConv 1 (fun _ => ⟨fun _ => ([], 0), fun _ _ => ([1, 0], false)⟩)
      ((optimize exCfg exO exConv 2 exSched exSt0).st.addPrmAt 0 0)).st.prm = [0, 2] := by decide

/-! ### round 6d: an exception other than `ValueError` raised by a clamp function inside the minimiser -/

/-- **Mesh / sketch after a call.** `backport` is the last statement of `optimize`: when an exception propagated the
    vertices are exactly the ones before the call, otherwise exactly the optimiser's final points. -/
theorem T_C13_abort_mesh (verts final : List P) (h : verts.length = final.length) :
    afterCall verts final true = verts ∧ afterCall verts final false = final :=
  ⟨rfl, T_C13_backport_mesh verts final h⟩

/-- **The grid the exception leaves behind** (raised in evaluation `m` of the `s`-th `optimize_clamp` of iteration
    `it`): its points are those of a rest state — every clamped vertex on its clamp function at the parameters that were
    last *applied*, every follower on its link — only the raising clamp holds parameters it never applied; points
    that are neither clamped nor followers of a clamped leader are as before the call. (The quality may be worse than
    before: nothing is rolled back. The mesh does not see it, `T_C13_abort_mesh`.) -/
theorem T_C13_abort_state [LinearOrder Q] [LinearOrder S] {cfg : Cfg P Prm} {n : Nat} (hwf : WF cfg n) (o : Oracles P Q)
    (conv : List (Q × Q) → Bool) (sched : Nat → IterSched Prm S) (st : St P Prm) (hr : Rest cfg n st) (it s m : Nat) :
    (optimizeAbort cfg o conv sched st it s m).1.pts = (optimizeAbortPre cfg o conv sched st it s m).st.pts ∧
      Rest cfg n (optimizeAbortPre cfg o conv sched st it s m).st ∧
      (optimizeAbort cfg o conv sched st it s m).1.pts.length = st.pts.length ∧
      ∀ k, ¬ movable cfg k → (optimizeAbort cfg o conv sched st it s m).1.pts[k]? = st.pts[k]? := by
  have h1 := optimizeAbortPre_pres (preserved_cons (o := o) hwf (fun _ => True)) conv sched
    (fun _ => ⟨fun _ _ _ => trivial, fun _ _ _ _ => trivial⟩) st ⟨hr.1, hr.2.1, fun j _ => hr.2.2 j⟩ it s m
  have h2 := optimizeAbortPre_pres (preserved_frame (cfg := cfg) (o := o) st) conv sched
    (fun _ => ⟨fun _ _ _ => trivial, fun _ _ _ _ => trivial⟩) st ⟨rfl, fun _ _ => rfl⟩ it s m
  exact ⟨rfl, ⟨h1.1, h1.2.1, fun j => h1.2.2 j trivial⟩, h2.1, h2.2⟩

/-- on the instance: the clamp function raises in the third evaluation of the first `optimize_clamp` (parameters 2):
    the grid stays at the second evaluation (vertex at 3, follower at 13, quality 1 instead of 9 → 0), the clamp
    holds the 2 it never applied -/
example : (optimizeAbort exCfg exO exConv exSched exSt0 0 0 2).1.pts = [0, 3, 13] ∧
    (optimizeAbort exCfg exO exConv exSched exSt0 0 0 2).1.prm = [2] ∧
    (optimizeAbort exCfg exO exConv exSched exSt0 0 0 2).2 = true ∧
    afterCall [0, 5, 15] (optimizeAbort exCfg exO exConv exSched exSt0 0 0 2).1.pts true = [0, 5, 15] := by decide

/-! ### round 6f: `add_link` between two calls -/

/-- **A link added between two `optimize()` calls.** `cfg` well-formed, rest state, quality `q0`; after the first call
    a link with a new id is registered whose follower sits where the link puts it for the leader's current position
    (`hon`; vacuous when the leader carries no clamp), and — when the leader carries a clamp — whose follower is a grid
    point without clamp that no clamped leader's link writes yet. Then the second call is entered in a rest state of a
    well-formed configuration (the `PhasesOK` step), the final state is at rest and the final quality is `≤ q0`. -/
theorem T_C13_noworse_add_link [LinearOrder Q] [LinearOrder S] {cfg : Cfg P Prm} {n : Nat} (hwf : WF cfg n)
    (o : Oracles P Q) (c1 c2 : Call Prm Q S) (st : St P Prm) (hr : Rest cfg n st) (q0 : Q) (hq : o.gq st.pts = some q0)
    (l : Link) (fn : P → P) (hfresh : ∀ x ∈ cfg.links, x.lid ≠ l.lid)
    (hfol : l.leader ∈ cfg.clampIdx → l.follower < n ∧ l.follower ∉ cfg.clampIdx ∧
      ∀ x ∈ cfg.links, x.leader ∈ cfg.clampIdx → x.follower ≠ l.follower)
    (hon : ∀ j p, cfg.clampIdx[j]? = some l.leader →
      (optimize cfg o c1.conv c1.maxIter c1.sched st).st.prm[j]? = some p →
      (optimize cfg o c1.conv c1.maxIter c1.sched st).st.pts[l.follower]? = some (fn (cfg.pos j p))) :
    let st1 := (optimize cfg o c1.conv c1.maxIter c1.sched st).st
    let cfg' := cfg.addLink l fn
    let st2 := (optimize cfg' o c2.conv c2.maxIter c2.sched st1).st
    WF cfg' n ∧ Rest cfg' n st1 ∧ Rest cfg' n st2 ∧ ∃ q2, o.gq st2.pts = some q2 ∧ q2 ≤ q0 := by
  intro st1 cfg' st2
  have hr1 : Rest cfg n st1 := T_C13_on hwf o c1.conv c1.maxIter c1.sched st hr
  obtain ⟨q1, hq1, hle1⟩ := T_C13_noworse hwf o c1.conv c1.maxIter c1.sched st hr q0 hq
  have hwf' : WF cfg' n := wf_addLink hwf l fn hfol
  have hr' : Rest cfg' n st1 := rest_addLink hr1 l fn hfresh hon
  obtain ⟨q2, hq2, hle2⟩ := T_C13_noworse hwf' o c2.conv c2.maxIter c2.sched _ hr' q1 hq1
  exact ⟨hwf', hr', T_C13_on hwf' o c2.conv c2.maxIter c2.sched _ hr', q2, hq2, le_trans hle2 hle1⟩

/-- **… unconditionally for a `TranslationLink` built from the current positions** (`TranslationLink(leader.position,
    follower.position)` after the first call, whether or not the leader has moved in it): the consistency hypothesis
    `hon` of `T_C13_noworse_add_link` holds by construction. -/
theorem T_C13_noworse_add_translation_link [LinearOrder Q] [LinearOrder S] {cfg : Cfg V3 Prm} {n : Nat} (hwf : WF cfg n)
    (o : Oracles V3 Q) (c1 c2 : Call Prm Q S) (st : St V3 Prm) (hr : Rest cfg n st) (q0 : Q) (hq : o.gq st.pts = some q0)
    (l : Link) (l0 f0 : V3) (hfresh : ∀ x ∈ cfg.links, x.lid ≠ l.lid)
    (hfol : l.leader ∈ cfg.clampIdx → l.follower < n ∧ l.follower ∉ cfg.clampIdx ∧
      ∀ x ∈ cfg.links, x.leader ∈ cfg.clampIdx → x.follower ≠ l.follower)
    (hl0 : (optimize cfg o c1.conv c1.maxIter c1.sched st).st.pts[l.leader]? = some l0)
    (hf0 : (optimize cfg o c1.conv c1.maxIter c1.sched st).st.pts[l.follower]? = some f0) :
    let st1 := (optimize cfg o c1.conv c1.maxIter c1.sched st).st
    let cfg' := cfg.addLink l (C17.translationLink l0 f0)
    let st2 := (optimize cfg' o c2.conv c2.maxIter c2.sched st1).st
    WF cfg' n ∧ Rest cfg' n st1 ∧ Rest cfg' n st2 ∧ ∃ q2, o.gq st2.pts = some q2 ∧ q2 ≤ q0 := by
  refine T_C13_noworse_add_link hwf o c1 c2 st hr q0 hq l _ hfresh hfol ?_
  intro j p hj hp
  have hr1 : Rest cfg n (optimize cfg o c1.conv c1.maxIter c1.sched st).st :=
    T_C13_on hwf o c1.conv c1.maxIter c1.sched st hr
  have := (hr1.2.2 j l.leader p hj hp).1
  rw [hl0] at this
  rw [hf0, ← Option.some.inj this, c17_translation_at]

/-- non-vacuity on the instance: after the first call (vertex 1 at 2) a link from the clamped junction 1 to the free
    junction 0 is added, built from the current positions (offset −2); the second call evaluates 3 (junction 0 follows to 1, the quality
    gets worse) and rolls back: vertex 1 at 2, junction 0 at 0 again -/
example : (∀ x ∈ exCfg.links, x.lid ≠ 1) ∧ (0 : Nat) < 3 ∧ 0 ∉ exCfg.clampIdx ∧
    (∀ x ∈ exCfg.links, x.leader ∈ exCfg.clampIdx → x.follower ≠ 0) ∧
    (∀ j p, exCfg.clampIdx[j]? = some 1 → (optimize exCfg exO exConv 2 exSched exSt0).st.prm[j]? = some p →
      (optimize exCfg exO exConv 2 exSched exSt0).st.pts[0]? = some ((fun (x : Int) => x - 2) (exCfg.pos j p))) ∧
    (optimize (exCfg.addLink ⟨1, 0, 1⟩ (fun x => x - 2)) exO exConv 1
      (fun _ => ⟨fun _ => ([], 0), fun _ _ => ([3], false)⟩) (optimize exCfg exO exConv 2 exSched exSt0).st).st.pts
      = [0, 2, 12] := by
  refine ⟨by decide, by decide, by decide, by decide, ?_, by decide⟩
  intro j p hj hp
  match j with
  | 0 =>
      have e : (optimize exCfg exO exConv 2 exSched exSt0).st.prm = [2] := by decide
      rw [e] at hp; simp at hp; subst hp; decide
  | j + 1 => simp [exCfg] at hj

/-! ### round 6g: rotation and symmetry links added between two calls -/

/-- **A link whose transform reproduces the follower at the leader's current position.** `l0`, `f0` are the positions of
    leader and follower after the first call; `fn l0 = f0` is what the link's constructor has to deliver. Then the
    consistency hypothesis of `T_C13_noworse_add_link` holds and with it its conclusion. -/
theorem T_C13_noworse_add_link_current [LinearOrder Q] [LinearOrder S] {cfg : Cfg P Prm} {n : Nat} (hwf : WF cfg n)
    (o : Oracles P Q) (c1 c2 : Call Prm Q S) (st : St P Prm) (hr : Rest cfg n st) (q0 : Q) (hq : o.gq st.pts = some q0)
    (l : Link) (fn : P → P) (l0 f0 : P) (hfresh : ∀ x ∈ cfg.links, x.lid ≠ l.lid)
    (hfol : l.leader ∈ cfg.clampIdx → l.follower < n ∧ l.follower ∉ cfg.clampIdx ∧
      ∀ x ∈ cfg.links, x.leader ∈ cfg.clampIdx → x.follower ≠ l.follower)
    (hl0 : (optimize cfg o c1.conv c1.maxIter c1.sched st).st.pts[l.leader]? = some l0)
    (hf0 : (optimize cfg o c1.conv c1.maxIter c1.sched st).st.pts[l.follower]? = some f0) (hfn : fn l0 = f0) :
    let st1 := (optimize cfg o c1.conv c1.maxIter c1.sched st).st
    let cfg' := cfg.addLink l fn
    let st2 := (optimize cfg' o c2.conv c2.maxIter c2.sched st1).st
    WF cfg' n ∧ Rest cfg' n st1 ∧ Rest cfg' n st2 ∧ ∃ q2, o.gq st2.pts = some q2 ∧ q2 ≤ q0 := by
  refine T_C13_noworse_add_link hwf o c1 c2 st hr q0 hq l fn hfresh hfol ?_
  intro j p hj hp
  have hr1 : Rest cfg n (optimize cfg o c1.conv c1.maxIter c1.sched st).st :=
    T_C13_on hwf o c1.conv c1.maxIter c1.sched st hr
  have := (hr1.2.2 j l.leader p hj hp).1
  rw [hl0] at this
  rw [hf0, ← Option.some.inj this, hfn]

/-- **A `RotationLink` added between two calls**, built from the current positions: its transform turns the follower's
    creation point `f0` about the axis `(o, a)` by the quaternion `(w x, μ x · a)` of the leader's turn from its creation
    point to `x`; at the creation point the turn is the identity (`μ l0 = 0` — the condition the constructor needs). -/
theorem T_C13_noworse_add_rotation_link [LinearOrder Q] [LinearOrder S] {cfg : Cfg V3 Prm} {n : Nat} (hwf : WF cfg n)
    (o : Oracles V3 Q) (c1 c2 : Call Prm Q S) (st : St V3 Prm) (hr : Rest cfg n st) (q0 : Q) (hq : o.gq st.pts = some q0)
    (l : Link) (a org l0 f0 : V3) (w mu : V3 → Rat) (hid : mu l0 = 0) (hfresh : ∀ x ∈ cfg.links, x.lid ≠ l.lid)
    (hfol : l.leader ∈ cfg.clampIdx → l.follower < n ∧ l.follower ∉ cfg.clampIdx ∧
      ∀ x ∈ cfg.links, x.leader ∈ cfg.clampIdx → x.follower ≠ l.follower)
    (hl0 : (optimize cfg o c1.conv c1.maxIter c1.sched st).st.pts[l.leader]? = some l0)
    (hf0 : (optimize cfg o c1.conv c1.maxIter c1.sched st).st.pts[l.follower]? = some f0) :
    let st1 := (optimize cfg o c1.conv c1.maxIter c1.sched st).st
    let cfg' := cfg.addLink l (fun x => C17.rotationLink (w x) (V3.smul (mu x) a) org f0)
    let st2 := (optimize cfg' o c2.conv c2.maxIter c2.sched st1).st
    WF cfg' n ∧ Rest cfg' n st1 ∧ Rest cfg' n st2 ∧ ∃ q2, o.gq st2.pts = some q2 ∧ q2 ≤ q0 :=
  T_C13_noworse_add_link_current hwf o c1 c2 st hr q0 hq l _ l0 f0 hfresh hfol hl0 hf0
    (by show C17.rotationLink (w l0) (V3.smul (mu l0) a) org f0 = f0; rw [hid]; exact c17_rotation_identity _ _ _ _)

/-- **A `SymmetryLink` added between two calls**: the follower must be the mirror image of the leader's current
    position — met when the follower was created as the leader's mirror image, or the leader as the follower's. -/
theorem T_C13_noworse_add_symmetry_link [LinearOrder Q] [LinearOrder S] {cfg : Cfg V3 Prm} {n : Nat} (hwf : WF cfg n)
    (o : Oracles V3 Q) (c1 c2 : Call Prm Q S) (st : St V3 Prm) (hr : Rest cfg n st) (q0 : Q) (hq : o.gq st.pts = some q0)
    (l : Link) (nrm org l0 f0 : V3)
    (hmir : f0 = C17.symmetryLink nrm org l0 ∨ (V3.dot nrm nrm ≠ 0 ∧ l0 = C17.symmetryLink nrm org f0))
    (hfresh : ∀ x ∈ cfg.links, x.lid ≠ l.lid)
    (hfol : l.leader ∈ cfg.clampIdx → l.follower < n ∧ l.follower ∉ cfg.clampIdx ∧
      ∀ x ∈ cfg.links, x.leader ∈ cfg.clampIdx → x.follower ≠ l.follower)
    (hl0 : (optimize cfg o c1.conv c1.maxIter c1.sched st).st.pts[l.leader]? = some l0)
    (hf0 : (optimize cfg o c1.conv c1.maxIter c1.sched st).st.pts[l.follower]? = some f0) :
    let st1 := (optimize cfg o c1.conv c1.maxIter c1.sched st).st
    let cfg' := cfg.addLink l (C17.symmetryLink nrm org)
    let st2 := (optimize cfg' o c2.conv c2.maxIter c2.sched st1).st
    WF cfg' n ∧ Rest cfg' n st1 ∧ Rest cfg' n st2 ∧ ∃ q2, o.gq st2.pts = some q2 ∧ q2 ≤ q0 :=
  T_C13_noworse_add_link_current hwf o c1 c2 st hr q0 hq l _ l0 f0 hfresh hfol hl0 hf0 (c17_symmetry_at nrm org l0 f0 hmir)

/-- non-vacuity on `exCfgG` (plane clamp on junction 0 at (1,3,0), junction 1 its mirror image (3,3,0) about x = 2):
    with no iteration (`maxIter = 0`) the first call leaves the state, `hl0` / `hf0` hold, the mirror condition holds
    both ways, a quaternion family with `μ (1,3,0) = 0` exists, the link id 7 is fresh, and a link led by the unclamped junction 1
    satisfies the follower condition vacuously -/
def exOG : Oracles V3 Int := { gq := fun _ => some 0, jq := fun _ _ => some 0 }

example : (optimize exCfgG exOG (fun _ => false) 0 (fun _ => (⟨fun _ => ([], 0), fun _ _ => ([], false)⟩ : IterSched (List Rat) Int)) exStG).st.pts[0]?
      = some ⟨1, 3, 0⟩ ∧
    (optimize exCfgG exOG (fun _ => false) 0 (fun _ => (⟨fun _ => ([], 0), fun _ _ => ([], false)⟩ : IterSched (List Rat) Int)) exStG).st.pts[1]?
      = some ⟨3, 3, 0⟩ ∧
    (⟨3, 3, 0⟩ : V3) = C17.symmetryLink ⟨1, 0, 0⟩ ⟨2, 0, 0⟩ ⟨1, 3, 0⟩ ∧
    (V3.dot (⟨1, 0, 0⟩ : V3) ⟨1, 0, 0⟩ ≠ 0 ∧ (⟨1, 3, 0⟩ : V3) = C17.symmetryLink ⟨1, 0, 0⟩ ⟨2, 0, 0⟩ ⟨3, 3, 0⟩) ∧
    (fun (x : V3) => x.x - 1) ⟨1, 3, 0⟩ = 0 ∧
    C17.rotationLink 1 (V3.smul ((fun (x : V3) => x.x - 1) ⟨1, 3, 0⟩) ⟨0, 0, 1⟩) ⟨0, 0, 0⟩ ⟨3, 3, 0⟩ = ⟨3, 3, 0⟩ ∧
    (∀ x ∈ exCfgG.links, x.lid ≠ 7) ∧ 1 ∉ exCfgG.clampIdx := by decide +kernel

end CBV.C13
