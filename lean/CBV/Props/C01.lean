/-
C01 — property theorems on M-PROP (lean/CBV/Model/C01.lean): whenever `Mesh.grade` succeeds, the four
parallel edges of every block direction carry one count, every edge shared by two blocks carries the
same count in both, hence a whole family of edges carries one count; conflicting chops cannot be written.
All statements hold for every input, every schedule (`nbrs`, `coinc`) and every expansion oracle `ev`.
-/
import CBV.Model.C01
import CBV.Lemmas.C01Own
import CBV.Lemmas.C01Sched
import CBV.Model.C01Order
import CBV.Gen.TC01

namespace CBV.Prop

/-- success of `run` means: the schedule was complete and the final consistency check passed on the
    state that is written -/
theorem T_C01_checked (inp : Inp) (st : St) (h : run inp = .ok st) :
    coincComplete inp = true ∧ checkAll inp st = true := by
  unfold run at h
  split at h
  · cases h
  · rename_i hc
    split at h
    · cases h
    · split at h
      · rename_i hk
        cases h
        have hc' : (coincComplete inp && nbrsValid inp) = true := by simpa using hc
        rw [Bool.and_eq_true] at hc'
        exact ⟨hc'.1, hk⟩
      · cases h

theorem axisConsistent_of_checkAll {inp : Inp} {st : St} (h : checkAll inp st = true) {x : Nat}
    (hx : x < 3 * inp.nBlocks) : axisConsistent inp st x = true := by
  unfold checkAll at h
  rw [List.all_eq_true] at h
  exact h x (List.mem_range.mpr hx)

/-- the four parallel edges of a block direction carry the same count -/
theorem T_C01_block_axis (inp : Inp) (st : St) (h : run inp = .ok st) (x : Nat) (hx : x < 3 * inp.nBlocks) :
    ∀ w ∈ axisWires x, count (specOf st w) = count (specOf st (4 * x)) := by
  have hc := axisConsistent_of_checkAll (T_C01_checked inp st h).2 hx
  unfold axisConsistent at hc
  rw [Bool.and_eq_true] at hc
  have h1 := hc.1
  unfold countsEqual at h1
  rw [List.all_eq_true] at h1
  intro w hw
  simpa using h1 w hw

/-- two wires of the same block direction carry the same count -/
theorem same_axis_count (inp : Inp) (st : St) (h : run inp = .ok st) (w w' : Nat)
    (hw : w < 12 * inp.nBlocks) (hax : w / 4 = w' / 4) :
    count (specOf st w) = count (specOf st w') := by
  have hx : w / 4 < 3 * inp.nBlocks := by omega
  have m1 : w ∈ axisWires (w / 4) := by
    unfold axisWires; simp only [List.mem_cons, List.not_mem_nil, or_false]; omega
  have m2 : w' ∈ axisWires (w / 4) := by
    unfold axisWires; simp only [List.mem_cons, List.not_mem_nil, or_false]; omega
  rw [T_C01_block_axis inp st h _ hx w m1, T_C01_block_axis inp st h _ hx w' m2]

/-- an edge shared by two blocks (same vertex pair, either direction) carries the same count in both -/
theorem T_C01_shared (inp : Inp) (st : St) (h : run inp = .ok st) (w w' : Nat)
    (hw : w < 12 * inp.nBlocks) (hw' : w' < 12 * inp.nBlocks) (hb : w / 12 ≠ w' / 12)
    (hp : samePair inp w w' = true) :
    count (specOf st w) = count (specOf st w') := by
  obtain ⟨hcc, hck⟩ := T_C01_checked inp st h
  -- the schedule lists w' among the coincidents of w
  have hmem : (inp.coinc w).contains w' = true := by
    unfold coincComplete at hcc
    rw [List.all_eq_true] at hcc
    have h1 := hcc w (List.mem_range.mpr hw)
    rw [List.all_eq_true] at h1
    have h2 := h1 w' (List.mem_range.mpr hw')
    have hne : (w / 12 != w' / 12) = true := by simpa using hb
    simpa [hne, hp] using h2
  have hx : w / 4 < 3 * inp.nBlocks := by omega
  have hc := axisConsistent_of_checkAll hck hx
  unfold axisConsistent at hc
  rw [Bool.and_eq_true] at hc
  have h2 := hc.2
  rw [List.all_eq_true] at h2
  have m1 : w ∈ axisWires (w / 4) := by
    unfold axisWires; simp only [List.mem_cons, List.not_mem_nil, or_false]; omega
  have h3 := h2 w m1
  unfold wireConsistent at h3
  rw [List.all_eq_true] at h3
  have h4 := h3 w' (by simpa using hmem)
  rw [Bool.and_eq_true] at h4
  simpa using h4.1

/-- the family relation on wires: parallel edges of one block direction, and edges shared between blocks,
    joined transitively -/
inductive Fam (inp : Inp) : Nat → Nat → Prop
  | refl (w) : w < 12 * inp.nBlocks → Fam inp w w
  | axis {w w' w''} : Fam inp w w' → w'' < 12 * inp.nBlocks → w' / 4 = w'' / 4 → Fam inp w w''
  | shared {w w' w''} : Fam inp w w' → w'' < 12 * inp.nBlocks → w' / 12 ≠ w'' / 12 →
      samePair inp w' w'' = true → Fam inp w w''

theorem Fam.lt {inp : Inp} {w w' : Nat} (h : Fam inp w w') : w' < 12 * inp.nBlocks := by
  cases h <;> assumption

/-- every edge of a family carries the same count -/
theorem T_C01_family (inp : Inp) (st : St) (h : run inp = .ok st) (w w' : Nat) (hf : Fam inp w w') :
    count (specOf st w) = count (specOf st w') := by
  induction hf with
  | refl _ => rfl
  | axis hf hlt hax ih => rw [ih]; exact same_axis_count inp st h _ _ hf.lt hax
  | shared hf hlt hb hp ih => rw [ih]; exact T_C01_shared inp st h _ _ hf.lt hlt hb hp

/-- consequently a mesh in which two edges of one family would carry different counts is never written:
    whatever state the propagation reaches, `run` does not return it -/
theorem T_C01_conflict (inp : Inp) (w w' : Nat) (hf : Fam inp w w') :
    ∀ st, count (specOf st w) ≠ count (specOf st w') → run inp ≠ .ok st := by
  intro st hne h
  exact hne (T_C01_family inp st h w w' hf)

/-- the count written in the `hex` entry of an un-chopped block direction is the count of its edges -/
theorem T_C01_written_unchopped (inp : Inp) (st : St) (h : run inp = .ok st) (x : Nat)
    (hx : x < 3 * inp.nBlocks) (hu : userChopped inp x = false) :
    ∀ w ∈ axisWires x, count (specOf st w) = writtenCount inp st x := by
  intro w hw
  unfold writtenCount
  simp only [hu, Bool.false_eq_true, if_false]
  exact T_C01_block_axis inp st h x hx w hw

/-- total count the user's chops put on an axis -/
def chopTotal (inp : Inp) (x : Nat) : Nat := ((inp.chops x).map (·.count)).sum

/-- the count written in the `hex` entry is the count of each of the four edges, also for a chopped direction -/
theorem T_C01_written (inp : Inp) (st : St) (h : run inp = .ok st) (x : Nat) (hx : x < 3 * inp.nBlocks) :
    ∀ w ∈ axisWires x, count (specOf st w) = writtenCount inp st x := by
  by_cases hu : userChopped inp x = true
  · intro w hw
    have hw4 : w / 4 = x := by
      unfold axisWires at hw; simp only [List.mem_cons, List.not_mem_nil, or_false] at hw; omega
    unfold writtenCount
    simp only [hu, if_true]
    rw [run_inv inp st h x hx hu w hw4, count_map_secOn]
  · exact T_C01_written_unchopped inp st h x hx (by simpa using hu)

/-- every edge of a family that contains a chopped block direction carries that chop's total count -/
theorem T_C01_family_count (inp : Inp) (st : St) (h : run inp = .ok st) (x : Nat) (hx : x < 3 * inp.nBlocks)
    (hu : userChopped inp x = true) (w : Nat) (hf : Fam inp (4 * x) w) :
    count (specOf st w) = chopTotal inp x := by
  rw [← T_C01_family inp st h _ _ hf, run_inv inp st h x hx hu (4 * x) (by omega), count_map_secOn]
  rfl

/-- conflicting chops: two chopped block directions of one family with different totals are never written
    (the run ends with an error, for every schedule and every expansion oracle) -/
theorem T_C01_conflict_chops (inp : Inp) (x y : Nat) (hx : x < 3 * inp.nBlocks) (hy : y < 3 * inp.nBlocks)
    (hux : userChopped inp x = true) (huy : userChopped inp y = true) (hf : Fam inp (4 * x) (4 * y))
    (hne : chopTotal inp x ≠ chopTotal inp y) : ∀ st, run inp ≠ .ok st := by
  intro st h
  apply hne
  rw [← T_C01_family_count inp st h x hx hux (4 * y) hf,
    ← T_C01_family_count inp st h y hy huy (4 * y) (.refl _ (by omega))]

/-! ### the schedule is a function of the vertex indexes -/

/-- the schedule the code builds from the vertex indexes is complete and valid: `run` never answers `badSchedule` on it -/
theorem T_C01_built_schedule_ok (inp : Inp) :
    (coincComplete (withBuiltSchedule inp) && nbrsValid (withBuiltSchedule inp)) = true := by
  rw [Bool.and_eq_true]
  constructor
  · unfold coincComplete
    simp only [List.all_eq_true, List.mem_range]
    intro w hw w' hw'
    have hs : samePair (withBuiltSchedule inp) w w' = samePair inp w w' := rfl
    have hc : (withBuiltSchedule inp).coinc w = builtCoinc inp w := rfl
    have hn : (withBuiltSchedule inp).nBlocks = inp.nBlocks := rfl
    rw [hs, hc]
    rw [hn] at hw'
    by_cases hcond : (w / 12 != w' / 12 && samePair inp w w') = true
    · simp only [hcond, if_true, List.contains_iff_mem]
      rw [mem_builtCoinc]
      simp only [Bool.and_eq_true, bne_iff_ne] at hcond
      exact ⟨by omega, fun e => hcond.1 e.symm, hcond.2⟩
    · simp only [hcond, if_false, Bool.false_eq_true, Bool.not_eq_true', ← Bool.not_eq_true, List.contains_iff_mem]
      rw [mem_builtCoinc]
      rintro ⟨_, h2, h3⟩
      apply hcond
      simp only [Bool.and_eq_true, bne_iff_ne]
      exact ⟨fun e => h2 e.symm, h3⟩
  · unfold nbrsValid
    simp only [List.all_eq_true, List.mem_range, Bool.and_eq_true, decide_eq_true_eq]
    intro x _ nb hnb
    have hb : (withBuiltSchedule inp).nbrs x = builtNbrs inp x := rfl
    have ha : axisAligned (withBuiltSchedule inp) nb x = axisAligned inp nb x := rfl
    have hn : (withBuiltSchedule inp).nBlocks = inp.nBlocks := rfl
    rw [hb, mem_builtNbrs] at hnb
    rw [ha, hn]
    exact ⟨by omega, hnb.2.2⟩

/-! ### round 6: the statement order of the source, regenerated with `ast` on every run -/

/-- the outlines the model was written against, paired with the outlines `cbv/tables/c01.py` reads from the current
    source text (`ast`) -/
def orderPairs : List (Order.Outline × Order.Outline) :=
  [(Order.meshGrade, CBV.Gen.c01OrdMeshGrade), (Order.gradeBlocks, CBV.Gen.c01OrdGradeBlocks), (Order.propagate, CBV.Gen.c01OrdPropagate),
   (Order.listCheck, CBV.Gen.c01OrdListCheck), (Order.blockGrade, CBV.Gen.c01OrdBlockGrade), (Order.blockCopy, CBV.Gen.c01OrdBlockCopy),
   (Order.blockCheck, CBV.Gen.c01OrdBlockCheck), (Order.axisCopy, CBV.Gen.c01OrdAxisCopy), (Order.axisAligned, CBV.Gen.c01OrdAxisAligned),
   (Order.axisChop, CBV.Gen.c01OrdAxisChop), (Order.chopGrade, CBV.Gen.c01OrdChopGrade), (Order.chopReset, CBV.Gen.c01OrdChopReset),
   (Order.propGrade, CBV.Gen.c01OrdPropGrade), (Order.propReset, CBV.Gen.c01OrdPropReset),
   (Order.copyNeighbours, CBV.Gen.c01OrdCopyNeighbours), (Order.propagateGrading, CBV.Gen.c01OrdPropagateGrading),
   (Order.check, CBV.Gen.c01OrdCheck), (Order.baseReset, CBV.Gen.c01OrdBaseReset), (Order.isSimple, CBV.Gen.c01OrdIsSimple),
   (Order.length, CBV.Gen.c01OrdLength)]

/-- tie to the source: statement for statement (order, nesting, loop headers, conditions, calls), the twenty methods on
    the execution path of `Mesh.grade` read as the model mirrors them.  Re-proved on every run against the outlines
    regenerated from the current source. -/
theorem T_C01_order : orderPairs.all (fun p => p.1 == p.2) = true := by decide

end CBV.Prop

/-! ### non-vacuity: concrete inputs on which `run` succeeds / fails as the theorems' hypotheses need -/
namespace CBV.Prop.Examples
open CBV.Prop

/-- two boxes sharing the face x = 1; block 0 chopped in all three directions, block 1 only along x -/
def twoBoxes (n0 n1 : Nat) : Inp where
  nBlocks := 2
  verts := [[0, 1, 2, 3, 4, 5, 6, 7], [1, 8, 9, 2, 5, 10, 11, 6]]
  chops := fun x =>
    if x = 0 then [⟨0, 1, 4, false⟩] else if x = 1 then [⟨1, 1, n0, false⟩] else if x = 2 then [⟨2, 1, 3, false⟩]
    else if x = 3 then [⟨3, 1, 2, false⟩] else if x = 4 ∧ n1 ≠ 0 then [⟨4, 1, n1, false⟩] else []
  nbrs := fun x => if x = 1 then [4] else if x = 2 then [5] else if x = 4 then [1] else if x = 5 then [2] else []
  coinc := fun w =>
    -- block 0 wires 1-2 (5), 5-6 (6), 1-5 (9), 2-6 (10)  ↔  block 1 wires 0-3 (16), 4-7 (19), 0-4 (20), 3-7 (23)
    if w = 5 then [16] else if w = 6 then [19] else if w = 9 then [20] else if w = 10 then [23]
    else if w = 16 then [5] else if w = 19 then [6] else if w = 20 then [9] else if w = 23 then [10] else []
  ev := fun _ _ _ => 1

/-- well-posed: block 1 receives its y and z counts from block 0 — the run succeeds -/
example : (match run (twoBoxes 5 0) with | .ok st => (List.range 6).map (writtenCount (twoBoxes 5 0) st) | .error _ => [])
    = [4, 5, 3, 2, 5, 3] := by decide +kernel

/-- conflicting: both blocks chop y with different counts — the run fails with `inconsistent` -/
example : (match run (twoBoxes 5 7) with | .ok _ => none | .error e => some e) = some Err.inconsistent := by
  decide +kernel

/-- `T_C01_conflict_chops` applies to it: axes 1 (block 0, y) and 4 (block 1, y) are chopped, in one family
    (wire 4 ~axis~ wire 5 ~shared~ wire 16), with totals 5 ≠ 7 -/
example : userChopped (twoBoxes 5 7) 1 = true ∧ userChopped (twoBoxes 5 7) 4 = true ∧
    chopTotal (twoBoxes 5 7) 1 ≠ chopTotal (twoBoxes 5 7) 4 ∧ Fam (twoBoxes 5 7) (4 * 1) (4 * 4) :=
  ⟨by decide, by decide, by decide,
    .shared (.axis (.refl 4 (by decide)) (w'' := 5) (by decide) (by decide)) (by decide) (by decide) (by decide +kernel)⟩

/-- the shared wires 5 (block 0) and 16 (block 1) are in one family -/
example : Fam (twoBoxes 5 0) 5 16 :=
  .shared (.refl 5 (by decide)) (by decide) (by decide) (by decide +kernel)

/-- the hand-written schedule of the two boxes is the one the model builds from their vertex indexes -/
example : (List.range 6).map (builtNbrs (twoBoxes 5 0)) = (List.range 6).map (twoBoxes 5 0).nbrs ∧
    (List.range 24).map (builtCoinc (twoBoxes 5 0)) = (List.range 24).map (twoBoxes 5 0).coinc := by decide +kernel

/-- the order is not a formality: on the well-posed two boxes the consistency check applied *before* the propagation
    (to the state `grade_blocks` leaves) fails, while the run in the order of the source succeeds -/
example : checkAll (twoBoxes 5 0) (gradeBlocks (twoBoxes 5 0) (init (twoBoxes 5 0))) = false ∧
    (match run (twoBoxes 5 0) with | .ok _ => true | .error _ => false) = true := by decide +kernel

end CBV.Prop.Examples
