/-
C01 — property theorems on M-PROP (lean/CBV/Model/C01.lean): whenever `Mesh.grade` succeeds, the four
parallel edges of every block direction carry one count, every edge shared by two blocks carries the
same count in both, hence a whole family of edges carries one count; conflicting chops cannot be written.
All statements hold for every input, every schedule (`nbrs`, `coinc`) and every expansion oracle `ev`.
The proofs live in `Lemmas/C01Core.lean` (statements `C01_*`, shared with C02 and C04); this module restates them.
-/
import CBV.Lemmas.C01Core
import CBV.Model.C01Order
import CBV.Gen.TC01

namespace CBV.Prop

/-- success of `run` means: the schedule was complete and the final consistency check passed on the
    state that is written -/
theorem T_C01_checked (inp : Inp) (st : St) (h : run inp = .ok st) :
    coincComplete inp = true ∧ checkAll inp st = true := C01_checked inp st h

/-- the four parallel edges of a block direction carry the same count -/
theorem T_C01_block_axis (inp : Inp) (st : St) (h : run inp = .ok st) (x : Nat) (hx : x < 3 * inp.nBlocks) :
    ∀ w ∈ axisWires x, count (specOf st w) = count (specOf st (4 * x)) := C01_block_axis inp st h x hx

/-- an edge shared by two blocks (same vertex pair, either direction) carries the same count in both -/
theorem T_C01_shared (inp : Inp) (st : St) (h : run inp = .ok st) (w w' : Nat)
    (hw : w < 12 * inp.nBlocks) (hw' : w' < 12 * inp.nBlocks) (hb : w / 12 ≠ w' / 12)
    (hp : samePair inp w w' = true) :
    count (specOf st w) = count (specOf st w') := C01_shared inp st h w w' hw hw' hb hp

/-- every edge of a family (`Fam`: parallel edges of a block, joined transitively through shared edges) carries the same count -/
theorem T_C01_family (inp : Inp) (st : St) (h : run inp = .ok st) (w w' : Nat) (hf : Fam inp w w') :
    count (specOf st w) = count (specOf st w') := C01_family inp st h w w' hf

/-- consequently a mesh in which two edges of one family would carry different counts is never written:
    whatever state the propagation reaches, `run` does not return it -/
theorem T_C01_conflict (inp : Inp) (w w' : Nat) (hf : Fam inp w w') :
    ∀ st, count (specOf st w) ≠ count (specOf st w') → run inp ≠ .ok st := C01_conflict inp w w' hf

/-- the count written in the `hex` entry of an un-chopped block direction is the count of its edges -/
theorem T_C01_written_unchopped (inp : Inp) (st : St) (h : run inp = .ok st) (x : Nat)
    (hx : x < 3 * inp.nBlocks) (hu : userChopped inp x = false) :
    ∀ w ∈ axisWires x, count (specOf st w) = writtenCount inp st x := C01_written_unchopped inp st h x hx hu

/-- the count written in the `hex` entry is the count of each of the four edges, also for a chopped direction -/
theorem T_C01_written (inp : Inp) (st : St) (h : run inp = .ok st) (x : Nat) (hx : x < 3 * inp.nBlocks) :
    ∀ w ∈ axisWires x, count (specOf st w) = writtenCount inp st x := C01_written inp st h x hx

/-- every edge of a family that contains a chopped block direction carries that chop's total count -/
theorem T_C01_family_count (inp : Inp) (st : St) (h : run inp = .ok st) (x : Nat) (hx : x < 3 * inp.nBlocks)
    (hu : userChopped inp x = true) (w : Nat) (hf : Fam inp (4 * x) w) :
    count (specOf st w) = chopTotal inp x := C01_family_count inp st h x hx hu w hf

/-- conflicting chops: two chopped block directions of one family with different totals are never written
    (the run ends with an error, for every schedule and every expansion oracle) -/
theorem T_C01_conflict_chops (inp : Inp) (x y : Nat) (hx : x < 3 * inp.nBlocks) (hy : y < 3 * inp.nBlocks)
    (hux : userChopped inp x = true) (huy : userChopped inp y = true) (hf : Fam inp (4 * x) (4 * y))
    (hne : chopTotal inp x ≠ chopTotal inp y) : ∀ st, run inp ≠ .ok st := C01_conflict_chops inp x y hx hy hux huy hf hne

/-- the schedule the code builds from the vertex indexes is complete and valid: `run` never answers `badSchedule` on it -/
theorem T_C01_built_schedule_ok (inp : Inp) :
    (coincComplete (withBuiltSchedule inp) && nbrsValid (withBuiltSchedule inp)) = true := C01_built_schedule_ok inp

/-! ### round 6: the statement order of the source, regenerated with `ast` on every run -/

/-- the outlines the model was written against, paired with the outlines `cbv/tables/c01.py` reads from the current
    source text (`ast`) -/
def orderPairs : List (Order.Outline × Order.Outline) :=
  [(Order.meshGrade, CBV.Gen.c01OrdMeshGrade), (Order.gradeBlocks, CBV.Gen.c01OrdGradeBlocks), (Order.propagate, CBV.Gen.c01OrdPropagate),
   (Order.listCheck, CBV.Gen.c01OrdListCheck), (Order.blockGrade, CBV.Gen.c01OrdBlockGrade), (Order.blockCopy, CBV.Gen.c01OrdBlockCopy),
   (Order.blockCheck, CBV.Gen.c01OrdBlockCheck), (Order.axisCopy, CBV.Gen.c01OrdAxisCopy), (Order.axisAligned, CBV.Gen.c01OrdAxisAligned),
   (Order.axisChop, CBV.Gen.c01OrdAxisChop), (Order.chopGrade, CBV.Gen.c01OrdChopGrade), (Order.chopReset, CBV.Gen.c01OrdChopReset),
   (Order.propGrade, CBV.Gen.c01OrdPropGrade), (Order.propReset, CBV.Gen.c01OrdPropReset),
   (Order.copyNeighbours, CBV.Gen.c01OrdCopyNeighbours), (Order.propagateGrading, CBV.Gen.c01OrdPropagateGrading),
   (Order.check, CBV.Gen.c01OrdCheck), (Order.baseReset, CBV.Gen.c01OrdBaseReset), (Order.isSimple, CBV.Gen.c01OrdIsSimple),
   (Order.length, CBV.Gen.c01OrdLength)]

/-- tie to the source: statement for statement (order, nesting, loop headers, conditions, calls), the twenty methods on
    the execution path of `Mesh.grade` read as the model mirrors them.  Re-proved on every run against the outlines
    regenerated from the current source. -/
theorem T_C01_order : orderPairs.all (fun p => p.1 == p.2) = true := by decide

end CBV.Prop

/-! ### non-vacuity: concrete inputs on which `run` succeeds / fails as the theorems' hypotheses need -/
namespace CBV.Prop.Examples
open CBV.Prop

/-- well-posed: block 1 receives its y and z counts from block 0 — the run succeeds -/
example : (match run (twoBoxes 5 0) with | .ok st => (List.range 6).map (writtenCount (twoBoxes 5 0) st) | .error _ => [])
    = [4, 5, 3, 2, 5, 3] := by decide +kernel

/-- conflicting: both blocks chop y with different counts — the run fails with `inconsistent` -/
example : (match run (twoBoxes 5 7) with | .ok _ => none | .error e => some e) = some Err.inconsistent := by
  decide +kernel

/-- `T_C01_conflict_chops` applies to it: axes 1 (block 0, y) and 4 (block 1, y) are chopped, in one family
    (wire 4 ~axis~ wire 5 ~shared~ wire 16), with totals 5 ≠ 7 -/
example : userChopped (twoBoxes 5 7) 1 = true ∧ userChopped (twoBoxes 5 7) 4 = true ∧
    chopTotal (twoBoxes 5 7) 1 ≠ chopTotal (twoBoxes 5 7) 4 ∧ Fam (twoBoxes 5 7) (4 * 1) (4 * 4) :=
  ⟨by decide, by decide, by decide,
    .shared (.axis (.refl 4 (by decide)) (w'' := 5) (by decide) (by decide)) (by decide) (by decide) (by decide +kernel)⟩

/-- the shared wires 5 (block 0) and 16 (block 1) are in one family -/
example : Fam (twoBoxes 5 0) 5 16 :=
  .shared (.refl 5 (by decide)) (by decide) (by decide) (by decide +kernel)

/-- the hand-written schedule of the two boxes is the one the model builds from their vertex indexes -/
example : (List.range 6).map (builtNbrs (twoBoxes 5 0)) = (List.range 6).map (twoBoxes 5 0).nbrs ∧
    (List.range 24).map (builtCoinc (twoBoxes 5 0)) = (List.range 24).map (twoBoxes 5 0).coinc := by decide +kernel

/-- the order is not a formality: on the well-posed two boxes the consistency check applied *before* the propagation
    (to the state `grade_blocks` leaves) fails, while the run in the order of the source succeeds -/
example : checkAll (twoBoxes 5 0) (gradeBlocks (twoBoxes 5 0) (init (twoBoxes 5 0))) = false ∧
    (match run (twoBoxes 5 0) with | .ok _ => true | .error _ => false) = true := by decide +kernel

end CBV.Prop.Examples
