/- C01 — property theorems.  Stub. -/
import CBV.Model.C01

namespace CBV.C01

end CBV.C01
