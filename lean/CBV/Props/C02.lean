/-
C02 — property theorems.  On M-PROP° (lean/CBV/Model/C02.lean), for every adjacency (= every iteration
order of the neighbour sets), every set of initially defined (chopped) axes and every number of blocks:
the propagation loop terminates within the fuel the model gives it, ends `ok` exactly when every axis is
reachable from a chopped one (then every axis is defined), ends `undefined` otherwise, and the outcome
does not depend on the iteration order.  On the faithful model M-PROP: the count every edge of a family
receives is the chop's total, whatever the schedule (`T_C02_count_schedule_free`).
-/
import CBV.Lemmas.C02Term
import CBV.Lemmas.C01Core
import CBV.Lemmas.C02Sim
import CBV.Lemmas.C01Hist

namespace CBV.Prop0

/-- the propagation as `BlockList.propagate_gradings` starts it: all blocks on the work-list -/
def propagate (inp : Inp) (src : Def) : Def × Outcome :=
  loop inp (4 * inp.nBlocks + 1) src (List.range inp.nBlocks)

/-- termination: the unbounded `while` loop never needs more than 4·|blocks|+1 passes -/
theorem T_C02_terminates (inp : Inp) (src : Def) : (propagate inp src).2 ≠ .outOfFuel :=
  loop_terminates inp src

theorem off_init (inp : Inp) (d : Def) : Off inp d (List.range inp.nBlocks) := by
  intro b hb hnb; exact absurd (List.mem_range.mpr hb) hnb

/-- completeness / soundness of the outcome -/
theorem T_C02_outcome (inp : Inp) (wf : WF inp) (src : Def) :
    match (propagate inp src).2 with
    | .ok => ∀ b, b < inp.nBlocks → ∀ a ∈ axesOf b, Reach inp src a ∧ a ∈ (propagate inp src).1
    | .undefined => ∃ b, b < inp.nBlocks ∧ ∃ a ∈ axesOf b, ¬ Reach inp src a
    | .outOfFuel => True :=
  loop_result inp wf src _ src _ (fun _ h => h) (fun x hx => Reach.base hx) (off_init inp src)
    (fun b hb => List.mem_range.mp hb)

/-- every family contains a chopped axis ⇒ the loop ends `ok` (and every axis is defined) -/
theorem T_C02_wellposed (inp : Inp) (wf : WF inp) (src : Def)
    (h : ∀ b, b < inp.nBlocks → ∀ a ∈ axesOf b, Reach inp src a) : (propagate inp src).2 = .ok := by
  have h1 := T_C02_outcome inp wf src
  have h2 := T_C02_terminates inp src
  cases hc : (propagate inp src).2 with
  | ok => rfl
  | outOfFuel => exact absurd hc h2
  | undefined =>
    rw [hc] at h1
    obtain ⟨b, hb, a, ha, hn⟩ := h1
    exact absurd (h b hb a ha) hn

/-- some family has no chop ⇒ the loop ends `undefined` (never loops, never reports `ok`) -/
theorem T_C02_underspecified (inp : Inp) (wf : WF inp) (src : Def) (b a : Nat) (hb : b < inp.nBlocks)
    (ha : a ∈ axesOf b) (hn : ¬ Reach inp src a) : (propagate inp src).2 = .undefined := by
  have h1 := T_C02_outcome inp wf src
  have h2 := T_C02_terminates inp src
  cases hc : (propagate inp src).2 with
  | undefined => rfl
  | outOfFuel => exact absurd hc h2
  | ok =>
    rw [hc] at h1
    exact absurd (h1 b hb a ha).1 hn

theorem reach_congr (inp inp' : Inp) (h : ∀ a n, n ∈ inp.adj a → n ∈ inp'.adj a) (src : Def) (x : Nat)
    (hr : Reach inp src x) : Reach inp' src x := by
  induction hr with
  | base hs => exact Reach.base hs
  | step hn _ ih => exact Reach.step (h _ _ hn) ih

/-- order independence: two adjacency functions that list the same neighbours in different orders
    (any iteration order of the neighbour sets) give the same outcome -/
theorem T_C02_order_free (inp inp' : Inp) (wf : WF inp) (wf' : WF inp') (hn : inp.nBlocks = inp'.nBlocks)
    (hadj : ∀ a n, n ∈ inp.adj a ↔ n ∈ inp'.adj a) (src : Def) :
    (propagate inp src).2 = (propagate inp' src).2 := by
  by_cases hall : ∀ b, b < inp.nBlocks → ∀ a ∈ axesOf b, Reach inp src a
  · rw [T_C02_wellposed inp wf src hall]
    symm
    apply T_C02_wellposed inp' wf' src
    intro b hb a ha
    exact reach_congr inp inp' (fun a n h => (hadj a n).mp h) src a (hall b (hn ▸ hb) a ha)
  · have : ∃ b, b < inp.nBlocks ∧ ∃ a ∈ axesOf b, ¬ Reach inp src a := by
      apply Classical.byContradiction
      intro hne
      apply hall
      intro b hb a ha
      apply Classical.byContradiction
      intro hr
      exact hne ⟨b, hb, a, ha, hr⟩
    obtain ⟨b, hb, a, ha, hr⟩ := this
    rw [T_C02_underspecified inp wf src b a hb ha hr]
    symm
    apply T_C02_underspecified inp' wf' src b a (hn ▸ hb) ha
    intro hr'
    exact hr (reach_congr inp' inp (fun a n h => (hadj a n).mpr h) src a hr')

/-! the traced loop used by the correspondence computes the same outcome -/

theorem axesCopyT_eq (inp : Inp) (as : List Nat) : ∀ d,
    (axesCopyT inp d as).1 = (axesCopy inp d as).1 ∧ (axesCopyT inp d as).2.1 = (axesCopy inp d as).2 := by
  induction as with
  | nil => intro d; exact ⟨rfl, rfl⟩
  | cons a as ih =>
    intro d
    obtain ⟨h1, h2⟩ := ih (axisCopy inp d a).1
    unfold axesCopyT axesCopy
    exact ⟨h1, by dsimp only; rw [h2]⟩

theorem passT_eq (inp : Inp) (wl : List Nat) : ∀ d,
    (passT inp d wl).1 = (pass inp d wl).1 ∧ (passT inp d wl).2.1 = (pass inp d wl).2.1 ∧
      (passT inp d wl).2.2.1 = (pass inp d wl).2.2 := by
  induction wl with
  | nil => intro d; exact ⟨rfl, rfl, rfl⟩
  | cons b rest ih =>
    intro d
    unfold passT pass
    by_cases hb : BlockDef d b
    · simp [hb]
    · obtain ⟨e1, e2⟩ := axesCopyT_eq inp (axesOf b) d
      simp only [hb, if_false]
      have hbc : blockCopy inp d b = axesCopy inp d (axesOf b) := by unfold blockCopy; simp [hb]
      rw [hbc]
      obtain ⟨i1, i2, i3⟩ := ih (axesCopyT inp d (axesOf b)).1
      rw [← e1, ← e2]
      exact ⟨i1, by rw [i2], by rw [i3]⟩

theorem T_C02_trace_outcome (inp : Inp) : ∀ (fuel : Nat) (d : Def) (wl : List Nat) (tr : List (Nat × Bool)),
    (loopT inp fuel d wl tr).1 = (loop inp fuel d wl).2 := by
  intro fuel
  induction fuel with
  | zero => intro d wl tr; rfl
  | succ f ih =>
    intro d wl tr
    cases wl with
    | nil => rfl
    | cons b rest =>
      obtain ⟨e1, e2, e3⟩ := passT_eq inp (b :: rest) d
      unfold loopT loop
      dsimp only
      rw [e3]
      split
      · rw [ih, e1, e2]
      · rfl

/-- non-vacuity: three blocks in a row, the first chopped in all directions; x-axes (0,3,6) are not
    connected (each its own family), y (1,4,7) and z (2,5,8) are chained -/
def rowOfThree : Inp where
  nBlocks := 3
  adj := fun a => if a = 1 then [4] else if a = 4 then [1, 7] else if a = 7 then [4]
    else if a = 2 then [5] else if a = 5 then [2, 8] else if a = 8 then [5] else []

example : (propagate rowOfThree [0, 1, 2, 3, 6]).2 = .ok := by decide
example : (propagate rowOfThree [0, 1, 2, 3]).2 = .undefined := by decide
example : WF rowOfThree := ⟨by
  intro a n h
  show n < 3 * 3
  simp only [rowOfThree] at h
  repeat' split at h
  all_goals simp at h
  all_goals omega⟩

end CBV.Prop0

namespace CBV.Prop

/-- on the faithful model: whatever the schedule (iteration orders `nbrs`, `coinc`) and whatever the
    expansion oracle, a successful run gives every edge of a family that contains a chopped block direction
    the total count of that chop — the count is a function of the family and the chop only -/
theorem T_C02_count_schedule_free (inp inp' : Inp) (st st' : St)
    (hchops : inp.chops = inp'.chops) (hn : inp.nBlocks = inp'.nBlocks)
    (h : run inp = .ok st) (h' : run inp' = .ok st') (x : Nat) (hx : x < 3 * inp.nBlocks)
    (hu : userChopped inp x = true) (w : Nat) (hf : Fam inp (4 * x) w) (hf' : Fam inp' (4 * x) w) :
    count (specOf st w) = count (specOf st' w) := by
  rw [C01_family_count inp st h x hx hu w hf,
    C01_family_count inp' st' h' x (hn ▸ hx) (by unfold userChopped at hu ⊢; rw [← hchops]; exact hu) w hf']
  unfold chopTotal; rw [hchops]

end CBV.Prop


/-! ### the same facts for the faithful wire-level model M-PROP, through the proved simulation
    (Lemmas/C02Sim: every `copy_grading` / pass / loop of M-PROP is the corresponding step of M-PROP°) -/
namespace CBV.Prop

/-- the chopped axes, as the source set of the reachability relation -/
def sources (inp : Inp) : Prop0.Def := (List.range (3 * inp.nBlocks)).filter (userChopped inp)

/-- the propagation phase of `Mesh.grade`: `grade_blocks` then the `propagate_gradings` loop -/
def propagation (inp : Inp) : Except Err St :=
  loop inp (4 * inp.nBlocks + 1) (gradeBlocks inp (init inp)) (List.range inp.nBlocks)

/-- `a` lies in a family that contains a chopped block direction (reachable along neighbour lists) -/
def Fed (inp : Inp) (a : Nat) : Prop := Prop0.Reach (absInp inp) (sources inp) a

theorem propagation_sim (inp : Inp) (hv : nbrsValid inp = true) :
    match (Prop0.propagate (absInp inp) (sources inp)).2 with
    | .ok => ∃ st', propagation inp = .ok st' ∧ R inp st' (Prop0.propagate (absInp inp) (sources inp)).1
    | .undefined => propagation inp = .error .undefined
    | .outOfFuel => propagation inp = .error .outOfFuel :=
  loop_sim inp hv _ _ _ _ (fun b hb => List.mem_range.mp hb) (gradeBlocks_RJ inp).1 (gradeBlocks_RJ inp).2

/-- termination: the unbounded `while` of `propagate_gradings` needs at most 4·|blocks|+1 passes, for every
    assembly, chop placement, schedule and expansion oracle -/
theorem T_C02_terminates_faithful (inp : Inp) (hv : nbrsValid inp = true) :
    propagation inp ≠ .error .outOfFuel := by
  have hs := propagation_sim inp hv
  have ht := Prop0.T_C02_terminates (absInp inp) (sources inp)
  cases hc : (Prop0.propagate (absInp inp) (sources inp)).2 with
  | outOfFuel => exact absurd hc ht
  | ok => rw [hc] at hs; obtain ⟨st', e, _⟩ := hs; rw [e]; intro h; cases h
  | undefined => rw [hc] at hs; rw [hs]; intro h; cases h

/-- completeness: if every block direction lies in a family with a chopped direction, propagation succeeds
    and leaves every block direction defined -/
theorem T_C02_complete_faithful (inp : Inp) (hv : nbrsValid inp = true)
    (h : ∀ a, a < 3 * inp.nBlocks → Fed inp a) :
    ∃ st, propagation inp = .ok st ∧ ∀ a, a < 3 * inp.nBlocks → axisDefined st a = true := by
  have hs := propagation_sim inp hv
  have hw := Prop0.T_C02_wellposed (absInp inp) (absInp_wf inp hv) (sources inp) (by
    intro b hb a ha
    exact h a (Prop0.axesOf_lt hb ha))
  have ho := Prop0.T_C02_outcome (absInp inp) (absInp_wf inp hv) (sources inp)
  rw [hw] at hs ho
  obtain ⟨st', e, r⟩ := hs
  refine ⟨st', e, ?_⟩
  intro a ha
  have hb : a / 3 < (absInp inp).nBlocks := by show a / 3 < inp.nBlocks; omega
  exact (r a ha).mpr (ho (a / 3) hb a (Prop0.mem_axesOf_div a)).2

/-- under-specification: if some block direction lies in a family without any chop, propagation ends with the
    undefined-grading error — it neither loops nor succeeds -/
theorem T_C02_undefined_faithful (inp : Inp) (hv : nbrsValid inp = true) (a : Nat) (ha : a < 3 * inp.nBlocks)
    (hn : ¬ Fed inp a) : propagation inp = .error .undefined := by
  have hs := propagation_sim inp hv
  have hb : a / 3 < (absInp inp).nBlocks := by show a / 3 < inp.nBlocks; omega
  have hu := Prop0.T_C02_underspecified (absInp inp) (absInp_wf inp hv) (sources inp) (a / 3) a hb
    (Prop0.mem_axesOf_div a) hn
  rw [hu] at hs
  exact hs

/-- `Mesh.grade` as a whole: never out of fuel; `undefined` exactly for under-specified inputs -/
theorem T_C02_run (inp : Inp) :
    run inp ≠ .error .outOfFuel ∧
    ((coincComplete inp && nbrsValid inp) = true →
      ((∃ a, a < 3 * inp.nBlocks ∧ ¬ Fed inp a) ↔ run inp = .error .undefined)) := by
  have hrun : run inp = (if !(coincComplete inp && nbrsValid inp) then .error .badSchedule
      else match propagation inp with
        | .error e => .error e
        | .ok st => if checkAll inp st then .ok st else .error .inconsistent) := rfl
  constructor
  · rw [hrun]
    by_cases hv : (coincComplete inp && nbrsValid inp) = true
    · simp only [hv, Bool.not_true, Bool.false_eq_true, if_false]
      have hv' : nbrsValid inp = true := (Bool.and_eq_true _ _ ▸ hv).2
      have := T_C02_terminates_faithful inp hv'
      cases hp : propagation inp with
      | error e => simp only; intro h; cases h; exact this hp
      | ok st => simp only; split <;> (intro h; cases h)
    · simp only [hv, Bool.not_false, if_true]; intro h; cases h
  · intro hv
    have hv' : nbrsValid inp = true := (Bool.and_eq_true _ _ ▸ hv).2
    rw [hrun]
    simp only [hv, Bool.not_true, Bool.false_eq_true, if_false]
    constructor
    · rintro ⟨a, ha, hn⟩
      rw [T_C02_undefined_faithful inp hv' a ha hn]
    · intro h
      apply Classical.byContradiction
      intro hne
      have hall : ∀ a, a < 3 * inp.nBlocks → Fed inp a := by
        intro a ha
        apply Classical.byContradiction
        intro hf; exact hne ⟨a, ha, hf⟩
      obtain ⟨st, e, _⟩ := T_C02_complete_faithful inp hv' hall
      rw [e] at h
      simp only at h
      split at h <;> cases h

end CBV.Prop

/-! ### histories on one mesh object (M-HIST, `Model/C01Hist.lean`) -/
namespace CBV.Prop

/-- `Mesh.grade()` on *any* memory — a completed grading, the half-done state of a call that raised, copied chops —
    is the run of a fresh mesh on the chops the user has placed: nothing else survives the reset -/
theorem T_C02_grade_is_run (m : Mem) (sched : Inp) : m.grade sched = run (m.inp sched) :=
  grade_is_run m sched

/-- every `write` of a session (writes and `Block.chop` calls on the assembled mesh, in any order) gives exactly what
    a fresh mesh with the chops placed so far gives: outcome class and the written count of every block direction -/
theorem T_C02_session_history_free (sched : Inp) (calls : List Call) (m : Mem) (hw : m.WF sched) :
    session sched m calls = specSession sched m.userChops calls :=
  session_is_spec sched calls m hw

/-- in particular two meshes that hold the same user chops behave alike from then on, whatever else they remember -/
theorem T_C02_leftovers_irrelevant (sched : Inp) (calls : List Call) (m m' : Mem) (hw : m.WF sched) (hw' : m'.WF sched)
    (h : m.userChops = m'.userChops) : session sched m calls = session sched m' calls := by
  rw [session_is_spec sched calls m hw, session_is_spec sched calls m' hw', h]

/-- and a freshly assembled mesh starts from the chops given to its operations -/
theorem T_C02_fresh_session (inp : Inp) (calls : List Call) (h : ∀ x, inp.chops x ≠ [] → x < 3 * inp.nBlocks) :
    session inp (freshMem inp) calls = specSession inp inp.chops calls := by
  rw [session_is_spec inp calls _ (freshMem_WF inp h), freshMem_userChops]

end CBV.Prop

namespace CBV.Prop.Examples
open CBV.Prop

/-- non-vacuity of the faithful theorems: the two-box input has a valid, complete schedule … -/
example : (coincComplete (twoBoxes 5 0) && nbrsValid (twoBoxes 5 0)) = true := by decide +kernel
/-- … its un-chopped axis 4 (block 1, y) is fed by the chopped axis 1 (block 0, y) … -/
example : Fed (twoBoxes 5 0) 4 :=
  .step (n := 1) (by decide) (.base (by decide))
/-- … and without the chop on block 1's x-axis that axis is in a family of its own, without any chop -/
def twoBoxesUnder : Inp := { twoBoxes 5 0 with chops := fun x => if x = 3 then [] else (twoBoxes 5 0).chops x }
example : (match run twoBoxesUnder with | .ok _ => none | .error e => some e) = some Err.undefined := by
  decide +kernel


/-- a session on the two boxes: the first write succeeds; then the user chops block 1 along y with 7 cells against the
    5 of block 0 — every later write is refused (the late chop is not dropped, the earlier result is not reused) -/
example : (session (twoBoxes 5 0) (freshMem (twoBoxes 5 0)) [.write, .chop 4 ⟨9, 1, 7, false⟩, .write, .write]).map
      (fun o => match o with | .ok l => some l | .error _ => none)
    = [some [4, 5, 3, 2, 5, 3], none, none] := by decide +kernel

/-- the fresh memory of the two boxes is well-formed (hypothesis of `T_C02_session_history_free`) -/
example : (freshMem (twoBoxes 5 0)).WF (twoBoxes 5 0) := by
  apply freshMem_WF
  intro x hne
  by_cases hx : x < 6
  · exact hx
  · exfalso; apply hne
    have h0 : x ≠ 0 := by omega
    have h1 : x ≠ 1 := by omega
    have h2 : x ≠ 2 := by omega
    have h3 : x ≠ 3 := by omega
    simp [twoBoxes, h0, h1, h2, h3]

end CBV.Prop.Examples
