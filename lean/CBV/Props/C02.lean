/- C02 — property theorems.  Stub. -/
import CBV.Model.C02

namespace CBV.C02

end CBV.C02
