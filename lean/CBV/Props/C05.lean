/- C05 — property theorems.  Stub. -/
import CBV.Model.C05

namespace CBV.C05

end CBV.C05
