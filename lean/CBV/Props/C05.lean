/-
C05 — property theorems.  One vertex per position class and slave-patch set; vertex numbers are
dense; the assignment does not depend on the insertion order; slave copies are never shared with
corners that do not carry exactly the same slave patches.
-/
import CBV.Lemmas.C05
import CBV.Lemmas.C05First
import Mathlib.Data.String.Basic
import CBV.Gen.TC05

set_option linter.unusedSectionVars false

namespace CBV.C05

variable {P N : Type} [DecidableEq N] [LinearOrder N] (close : P → P → Bool)

/-! ### dense numbering (every history of `add` calls, the `None` branch included) -/

/-- **T_C05_dense.** After any sequence of `VertexList.add` calls (with a list or with `None`),
    from any dense state — in particular the empty one — the index of every vertex is its position
    in `vertices`, i.e. in the written list. -/
theorem T_C05_dense (calls : List (P × Option (List N))) :
    ∀ (vl : VList P N), Dense vl → Dense (runAddsOpt close vl calls).1 := by
  induction calls with
  | nil => intro vl h; exact h
  | cons c rest ih =>
    intro vl h
    obtain ⟨p, s⟩ := c
    exact ih _ (add_dense close h p s)

/-- the same for the vertex part of `Mesh.assemble` -/
theorem T_C05_dense_assemble {S : P → Prop} (hc : CloseEquivOn close S) (slaves : List N) (ops : List (Op P N))
    (hS : ∀ op ∈ ops, ∀ p ∈ op.pts, S p) :
    Dense (assemble close slaves {} ops).1 := by
  obtain ⟨hi, _⟩ := assemble_spec close hc slaves ops (inv_empty close S) hS
  intro i v hv
  rw [← hi.reg, List.getElem?_map] at hv
  cases hd : (assemble close slaves {} ops).1.duplicated[i]? with
  | none => rw [hd] at hv; simp at hv
  | some d =>
    rw [hd] at hv
    simp only [Option.map_some, Option.some.injEq] at hv
    subst hv
    exact hi.dense i d hd

/-! ### the key: same vertex ⇔ same position class and same slave-patch set -/

/-- **T_C05_key (call level).** In a run of `add(point, list)` calls starting from the empty list,
    two calls are handed the same vertex iff their points are close and their name lists are equal
    as sorted lists (i.e. up to order). -/
theorem T_C05_key_adds {S : P → Prop} (hc : CloseEquivOn close S) (calls : List (P × List N))
    (hS : ∀ c ∈ calls, S c.1) (i j : Nat) (c₁ c₂ : P × List N) (v₁ v₂ : Vertex P)
    (hi : calls[i]? = some c₁) (hj : calls[j]? = some c₂)
    (hv₁ : (runAdds close {} calls).2[i]? = some v₁) (hv₂ : (runAdds close {} calls).2[j]? = some v₂) :
    v₁.index = v₂.index ↔ (close c₁.1 c₂.1 = true ∧ sort c₁.2 = sort c₂.2) := by
  obtain ⟨h1, _, _, h4⟩ := runAdds_spec close hc calls (inv_empty close S) hS
  have m₁ : (c₁, v₁) ∈ calls.zip (runAdds close {} calls).2 :=
    List.mem_of_getElem? (List.getElem?_zip_eq_some.mpr ⟨hi, hv₁⟩)
  have m₂ : (c₂, v₂) ∈ calls.zip (runAdds close {} calls).2 :=
    List.mem_of_getElem? (List.getElem?_zip_eq_some.mpr ⟨hj, hv₂⟩)
  exact placed_same_iff close hc h1 (hS _ (List.mem_of_getElem? hi)) (hS _ (List.mem_of_getElem? hj))
    (h4 _ m₁) (h4 _ m₂)

/-- **T_C05_key.** After assembling any list of operations (any merged pairs, any patches): corner
    `c₁` of block `i` and corner `c₂` of block `j` refer to the same vertex iff their points are
    close (same position within the tolerance) and the sets of slave patches touching the two
    corners are equal. -/
theorem T_C05_key {S : P → Prop} (hc : CloseEquivOn close S) (slaves : List N) (ops : List (Op P N))
    (hS : ∀ op ∈ ops, ∀ p ∈ op.pts, S p)
    (i j c₁ c₂ : Nat) (o₁ o₂ : Op P N) (p₁ p₂ : P) (v₁ v₂ : Vertex P)
    (ho₁ : ops[i]? = some o₁) (ho₂ : ops[j]? = some o₂)
    (hp₁ : o₁.pts[c₁]? = some p₁) (hp₂ : o₂.pts[c₂]? = some p₂)
    (hv₁ : vertexAt (assemble close slaves {} ops).2 i c₁ = some v₁)
    (hv₂ : vertexAt (assemble close slaves {} ops).2 j c₂ = some v₂) :
    v₁.index = v₂.index ↔
      (close p₁ p₂ = true ∧ ∀ n, n ∈ slaveSet slaves o₁ c₁ ↔ n ∈ slaveSet slaves o₂ c₂) := by
  obtain ⟨h1, _⟩ := assemble_spec close hc slaves ops (inv_empty close S) hS
  have q₁ := placed_of_vertexAt close hc slaves ops hS ho₁ hp₁ hv₁
  have q₂ := placed_of_vertexAt close hc slaves ops hS ho₂ hp₂ hv₂
  have s₁ : S p₁ := hS o₁ (List.mem_of_getElem? ho₁) p₁ (List.mem_of_getElem? hp₁)
  have s₂ : S p₂ := hS o₂ (List.mem_of_getElem? ho₂) p₂ (List.mem_of_getElem? hp₂)
  rw [placed_same_iff close hc h1 s₁ s₂ q₁ q₂]
  have nd : ∀ (o : Op P N) (c : Nat), (slaveSet slaves o c).Nodup := by
    intro o c
    unfold slaveSet patchesAtCorner setOf
    exact (nodup_dedupe _).filter _
  simp only [sort_eq_sort_iff_of_nodup (nd o₁ c₁) (nd o₂ c₂)]

/-- every corner has a vertex (totality: the statement above is not vacuous) -/
theorem T_C05_total {S : P → Prop} (hc : CloseEquivOn close S) (slaves : List N) (ops : List (Op P N))
    (hS : ∀ op ∈ ops, ∀ p ∈ op.pts, S p) (i c : Nat) (o : Op P N) (p : P)
    (ho : ops[i]? = some o) (hp : o.pts[c]? = some p) :
    ∃ v, vertexAt (assemble close slaves {} ops).2 i c = some v :=
  vertexAt_total close hc slaves ops hS i c o p ho hp

/-- the vertex of a corner sits at the corner (within the tolerance) -/
theorem T_C05_position {S : P → Prop} (hc : CloseEquivOn close S) (slaves : List N) (ops : List (Op P N))
    (hS : ∀ op ∈ ops, ∀ p ∈ op.pts, S p) (i c : Nat) (o : Op P N) (p : P) (v : Vertex P)
    (ho : ops[i]? = some o) (hp : o.pts[c]? = some p)
    (hv : vertexAt (assemble close slaves {} ops).2 i c = some v) :
    close p v.pos = true :=
  vertexAt_position close hc slaves ops hS i c o p v ho hp hv

/-! ### consequences -/

/-- **T_C05_order.** The partition of the corners into vertices does not depend on the insertion
    order (nor on anything else but the corners themselves): if two assemblies — e.g. one a
    permutation of the other — both contain operations `o₁` and `o₂`, then corner `c₁` of `o₁` and
    corner `c₂` of `o₂` share a vertex in the one iff they do in the other.  (The vertex *numbers*
    differ by the bijection between the two partitions.) -/
theorem T_C05_order {S : P → Prop} (hc : CloseEquivOn close S) (slaves : List N) (ops ops' : List (Op P N))
    (hS : ∀ op ∈ ops, ∀ p ∈ op.pts, S p) (hS' : ∀ op ∈ ops', ∀ p ∈ op.pts, S p)
    (i j i' j' c₁ c₂ : Nat) (o₁ o₂ : Op P N) (p₁ p₂ : P) (v₁ v₂ w₁ w₂ : Vertex P)
    (ho₁ : ops[i]? = some o₁) (ho₂ : ops[j]? = some o₂)
    (ho₁' : ops'[i']? = some o₁) (ho₂' : ops'[j']? = some o₂)
    (hp₁ : o₁.pts[c₁]? = some p₁) (hp₂ : o₂.pts[c₂]? = some p₂)
    (hv₁ : vertexAt (assemble close slaves {} ops).2 i c₁ = some v₁)
    (hv₂ : vertexAt (assemble close slaves {} ops).2 j c₂ = some v₂)
    (hw₁ : vertexAt (assemble close slaves {} ops').2 i' c₁ = some w₁)
    (hw₂ : vertexAt (assemble close slaves {} ops').2 j' c₂ = some w₂) :
    v₁.index = v₂.index ↔ w₁.index = w₂.index := by
  rw [T_C05_key close hc slaves ops hS i j c₁ c₂ o₁ o₂ p₁ p₂ v₁ v₂ ho₁ ho₂ hp₁ hp₂ hv₁ hv₂,
    T_C05_key close hc slaves ops' hS' i' j' c₁ c₂ o₁ o₂ p₁ p₂ w₁ w₂ ho₁' ho₂' hp₁ hp₂ hw₁ hw₂]

/-- a permutation of the operations contains the same operations (so `T_C05_order` applies to
    every pair of corners) -/
theorem T_C05_order_perm (ops ops' : List (Op P N)) (h : ops.Perm ops') (i : Nat) (o : Op P N)
    (ho : ops[i]? = some o) : ∃ i' : Nat, ops'[i']? = some o :=
  List.mem_iff_getElem?.mp (h.subset (List.mem_of_getElem? ho))

/-- **T_C05_master_slave.** A corner touched by at least one slave patch never shares its vertex
    with a corner whose set of slave patches is different — in particular not with a corner that no
    slave patch touches (all corners of master-side blocks that are not themselves slaves). -/
theorem T_C05_master_slave {S : P → Prop} (hc : CloseEquivOn close S) (slaves : List N) (ops : List (Op P N))
    (hS : ∀ op ∈ ops, ∀ p ∈ op.pts, S p)
    (i j c₁ c₂ : Nat) (o₁ o₂ : Op P N) (p₁ p₂ : P) (v₁ v₂ : Vertex P)
    (ho₁ : ops[i]? = some o₁) (ho₂ : ops[j]? = some o₂)
    (hp₁ : o₁.pts[c₁]? = some p₁) (hp₂ : o₂.pts[c₂]? = some p₂)
    (hv₁ : vertexAt (assemble close slaves {} ops).2 i c₁ = some v₁)
    (hv₂ : vertexAt (assemble close slaves {} ops).2 j c₂ = some v₂)
    (n : N) (hn : n ∈ slaveSet slaves o₁ c₁) (hn' : n ∉ slaveSet slaves o₂ c₂) :
    v₁.index ≠ v₂.index := by
  intro h
  have := (T_C05_key close hc slaves ops hS i j c₁ c₂ o₁ o₂ p₁ p₂ v₁ v₂ ho₁ ho₂ hp₁ hp₂ hv₁ hv₂).mp h
  exact hn' ((this.2 n).mp hn)

/-- … and slave copies are shared among the blocks that carry the same slave patches there -/
theorem T_C05_slave_shared {S : P → Prop} (hc : CloseEquivOn close S) (slaves : List N) (ops : List (Op P N))
    (hS : ∀ op ∈ ops, ∀ p ∈ op.pts, S p)
    (i j c₁ c₂ : Nat) (o₁ o₂ : Op P N) (p₁ p₂ : P) (v₁ v₂ : Vertex P)
    (ho₁ : ops[i]? = some o₁) (ho₂ : ops[j]? = some o₂)
    (hp₁ : o₁.pts[c₁]? = some p₁) (hp₂ : o₂.pts[c₂]? = some p₂)
    (hv₁ : vertexAt (assemble close slaves {} ops).2 i c₁ = some v₁)
    (hv₂ : vertexAt (assemble close slaves {} ops).2 j c₂ = some v₂)
    (hclose : close p₁ p₂ = true) (hsame : ∀ n, n ∈ slaveSet slaves o₁ c₁ ↔ n ∈ slaveSet slaves o₂ c₂) :
    v₁.index = v₂.index :=
  (T_C05_key close hc slaves ops hS i j c₁ c₂ o₁ o₂ p₁ p₂ v₁ v₂ ho₁ ho₂ hp₁ hp₂ hv₁ hv₂).mpr ⟨hclose, hsame⟩

/-- **T_C05_sorted.** The order in which the names are listed (python iterates over a `set`) has
    no influence on `add`. -/
theorem T_C05_sorted (vl : VList P N) (p : P) (s s' : List N) (h : s.Perm s') :
    add close vl p (some s) = add close vl p (some s') := by
  rw [add_some_eq, add_some_eq, (sort_eq_sort_iff s s').mpr h]

/-- which names touch a corner: exactly the patches of the sides that contain the corner
    according to the generated `FACE_MAP` / `SIDES_MAP` -/
def sideOf (op : Op P N) (side : String) : Option N :=
  if side = "bottom" then op.bottom else if side = "top" then op.top
  else op.sides.getD (CBV.Gen.sidesMap.idxOf side) none

theorem T_C05_corner_sides (op : Op P N) (hs : op.sides.length = 4) (c : Nat) (hc : c < 8) (n : N) :
    n ∈ patchesAtCorner op c ↔
      ∃ e ∈ CBV.Gen.faceMap, c ∈ e.2 ∧ sideOf op e.1 = some n := by
  obtain ⟨pts, b, t, sides⟩ := op
  match sides, hs with
  | [s0, s1, s2, s3], _ =>
    unfold patchesAtCorner setOf
    rw [mem_dedupe]
    have : c = 0 ∨ c = 1 ∨ c = 2 ∨ c = 3 ∨ c = 4 ∨ c = 5 ∨ c = 6 ∨ c = 7 := by omega
    rcases this with h | h | h | h | h | h | h | h <;> subst h <;>
      simp [CBV.Gen.faceMap, CBV.Gen.sidesMap, sideOf, List.idxOf, List.findIdx, List.findIdx.go] <;> tauto

/-- the generated probe of `get_patches_at_corner` agrees with the model and with the blockMesh
    convention (corner `c` has coordinates `(c%4 ∈ {1,2}, c%4 ∈ {2,3}, c ≥ 4)`) -/
def bmCoord (c : Nat) : Bool × Bool × Bool := (c % 4 == 1 || c % 4 == 2, c % 4 == 2 || c % 4 == 3, decide (c ≥ 4))

def bmOnSide (side : String) (c : Nat) : Bool :=
  if side = "bottom" then !(bmCoord c).2.2 else if side = "top" then (bmCoord c).2.2
  else if side = "left" then !(bmCoord c).1 else if side = "right" then (bmCoord c).1
  else if side = "front" then !(bmCoord c).2.1 else if side = "back" then (bmCoord c).2.1 else false

def probeOp : Op Nat String :=
  { pts := [0, 1, 2, 3, 4, 5, 6, 7], bottom := some "bottom", top := some "top",
    sides := CBV.Gen.sidesMap.map some }

theorem T_C05_corner_table :
    CBV.Gen.c05CornerSides.length = 8 ∧
    ∀ c ∈ List.range 8, ∀ s ∈ ["bottom", "top", "left", "right", "front", "back"],
      (decide (s ∈ CBV.Gen.c05CornerSides.getD c [])) = bmOnSide s c ∧
      (decide (s ∈ patchesAtCorner probeOp c)) = bmOnSide s c := by decide

/-! ### histories: merges declared at different times, re-assembly -/

/-- **T_C05_history.** Whatever happened before (`h`: earlier assemblies, queries of the slave set,
    clears, …): after `clear`, further declarations `mid` and a new `assemble`, the vertex list and
    the blocks are those of a fresh assembly of *all* operations added so far with *all* pairs merged so
    far — nothing of an earlier assembly (no cached slave set, no stale registry) survives. -/
theorem T_C05_history (h mid : List (Step P N)) (hm : noAssemble mid = true) :
    (runHist close {} (h ++ [Step.clear] ++ mid ++ [Step.assemble])).2.getLast? =
      some (assemble close (slavePatches (mergesOf (h ++ mid))) {} (addsOf (h ++ mid))) :=
  runHist_reassemble close h mid hm

/-- … hence `T_C05_key` (and its consequences) hold after every re-assembly, with the slave patches
    of all pairs merged so far. -/
theorem T_C05_history_key {S : P → Prop} (hc : CloseEquivOn close S) (h mid : List (Step P N))
    (hm : noAssemble mid = true) (hS : ∀ op ∈ addsOf (h ++ mid), ∀ p ∈ op.pts, S p)
    (vl : VList P N) (blocks : List (List (Vertex P)))
    (hr : (runHist close {} (h ++ [Step.clear] ++ mid ++ [Step.assemble])).2.getLast? = some (vl, blocks))
    (i j c₁ c₂ : Nat) (o₁ o₂ : Op P N) (p₁ p₂ : P) (v₁ v₂ : Vertex P)
    (ho₁ : (addsOf (h ++ mid))[i]? = some o₁) (ho₂ : (addsOf (h ++ mid))[j]? = some o₂)
    (hp₁ : o₁.pts[c₁]? = some p₁) (hp₂ : o₂.pts[c₂]? = some p₂)
    (hv₁ : vertexAt blocks i c₁ = some v₁) (hv₂ : vertexAt blocks j c₂ = some v₂) :
    v₁.index = v₂.index ↔
      (close p₁ p₂ = true ∧ ∀ n, n ∈ slaveSet (slavePatches (mergesOf (h ++ mid))) o₁ c₁ ↔
        n ∈ slaveSet (slavePatches (mergesOf (h ++ mid))) o₂ c₂) := by
  rw [T_C05_history close h mid hm, Option.some.injEq] at hr
  have hb : blocks = (assemble close (slavePatches (mergesOf (h ++ mid))) {} (addsOf (h ++ mid))).2 := by rw [hr]
  subst hb
  exact T_C05_key close hc _ _ hS i j c₁ c₂ o₁ o₂ p₁ p₂ v₁ v₂ ho₁ ho₂ hp₁ hp₂ hv₁ hv₂

/-- merge (m1,s1) → assemble → clear → merge (m2,s2) → assemble: the second assembly duplicates the
    corners of *both* slave patches (cell 2 carries s1 on its left and m2 on its right, cell 3 carries s2) -/
def sampleHist : List (Step Nat String) :=
  [.add { pts := [0, 1, 2, 3, 4, 5, 6, 7], sides := [none, some "m1", none, none] },
   .add { pts := [1, 8, 9, 2, 5, 10, 11, 6], sides := [none, some "m2", none, some "s1"] },
   .add { pts := [8, 12, 13, 9, 10, 14, 15, 11], sides := [none, none, none, some "s2"] },
   .merge "m1" "s1", .assemble, .query, .clear, .merge "m2" "s2", .assemble]

example : ((runHist (fun (a b : Nat) => a == b) {} sampleHist).2.map (fun r => r.1.vertices.length)) = [20, 24] := by
  decide

/-! ### non-vacuity -/

/-- the hypothesis `CloseEquivOn closeV3 S` is satisfiable for the real tolerance test on a point
    set with two points inside one tolerance ball and others far away -/
def samplePts : List V3 := [⟨0, 0, 0⟩, ⟨1 / 100000000, 0, 0⟩, ⟨1, 0, 0⟩, ⟨1, 1 / 100000, 0⟩]

example : CloseEquivOn closeV3 (· ∈ samplePts) := closeEquivOn_of_check _ (by decide +kernel)

/-- two cells sharing a face, the second one with a slave patch on the shared side: the four
    shared corners get copies, 16 vertices instead of 12 -/
def sampleOps : List (Op Nat String) :=
  [{ pts := [0, 1, 2, 3, 4, 5, 6, 7] },
   { pts := [1, 8, 9, 2, 5, 10, 11, 6], sides := [none, none, none, some "slave"] }]

example : ((assemble (fun (a b : Nat) => a == b) ["slave"] {} sampleOps).2.map (·.map (·.index))) =
    [[0, 1, 2, 3, 4, 5, 6, 7], [8, 9, 10, 11, 12, 13, 14, 15]] := by decide

example : ((assemble (fun (a b : Nat) => a == b) [] {} sampleOps).2.map (·.map (·.index))) =
    [[0, 1, 2, 3, 4, 5, 6, 7], [1, 8, 9, 2, 5, 10, 11, 6]] := by decide

/-- the hypotheses of `T_C05_key` / `T_C05_master_slave` are satisfiable: corner 1 of the first cell and
    corner 0 of the second are the same point, the second is touched by the slave patch -/
example (v₁ v₂ : Vertex Nat)
    (h₁ : vertexAt (assemble (fun (a b : Nat) => a == b) ["slave"] {} sampleOps).2 0 1 = some v₁)
    (h₂ : vertexAt (assemble (fun (a b : Nat) => a == b) ["slave"] {} sampleOps).2 1 0 = some v₂) :
    v₂.index ≠ v₁.index :=
  T_C05_master_slave _ closeEquiv_eq ["slave"] sampleOps (fun _ _ _ _ => trivial) 1 0 0 1 _ _ 1 1 v₂ v₁
    rfl rfl rfl rfl h₂ h₁ "slave" (by decide) (by decide)

/-- the `None` branch (not reachable from `Mesh`): a second master-side request at a position
    whose first vertex is a slave copy creates yet another vertex -/
example : (runAddsOpt (fun (a b : Nat) => a == b) {} [(0, some ["s"]), (0, none), (0, none)]).2.map (·.index)
    = [0, 1, 2] := by decide

/-! ### without the clustering assumption: what `add` guarantees on near-chains (first-match semantics)

The theorems above assume that closeness is an equivalence on the points that occur (separated clusters).
The following ones need only that the test is reflexive and symmetric — which `norm(p − q) < TOL` is on
all of space (`closeV3_rs`) — so for the protocol instance they hold for *every* assembly. -/

/-- **T_C05_first_match.** For every assembly (any points, near-chains included): every corner is handed the
    *first* vertex of the final registry — in creation order — that lies within the tolerance of the corner
    and was created for the same sorted slave-patch set (`findDuplicated` on the final list); in particular
    the vertex lies within the tolerance of the corner. -/
theorem T_C05_first_match {S : P → Prop} (hc : CloseRSOn close S) (slaves : List N) (ops : List (Op P N))
    (hS : ∀ op ∈ ops, ∀ p ∈ op.pts, S p) :
    (assemble close slaves {} ops).2.length = ops.length ∧
    ∀ b ∈ ops.zip (assemble close slaves {} ops).2,
      b.2.length = (cornerCalls slaves b.1).length ∧
      ∀ x ∈ (cornerCalls slaves b.1).zip b.2,
        findDuplicated close (assemble close slaves {} ops).1 x.1.1 (sort x.1.2) = some x.2 ∧
        close x.1.1 x.2.pos = true := by
  obtain ⟨_, _, k3, k4⟩ := assemble_first close hc slaves ops (inv_empty close S) hS
  refine ⟨k3, fun b hb => ⟨(k4 b hb).1, fun x hx => ?_⟩⟩
  obtain ⟨⟨d, _, hdv, hk, _⟩, hf⟩ := (k4 b hb).2 x hx
  exact ⟨hf, hdv ▸ hk⟩

/-- **T_C05_first_match_separated.** For every assembly: the vertices are exactly the registry entries, numbered
    by position, and any two of them are either not within the tolerance of each other or were created for
    different slave-patch sets. -/
theorem T_C05_first_match_separated {S : P → Prop} (hc : CloseRSOn close S) (slaves : List N) (ops : List (Op P N))
    (hS : ∀ op ∈ ops, ∀ p ∈ op.pts, S p) :
    (assemble close slaves {} ops).1.duplicated.map Dup.vertex = (assemble close slaves {} ops).1.vertices ∧
    (∀ (i : Nat) (d : Dup P N), (assemble close slaves {} ops).1.duplicated[i]? = some d → d.vertex.index = i) ∧
    (assemble close slaves {} ops).1.duplicated.Pairwise
      (fun d e => ¬ (close d.vertex.pos e.vertex.pos = true ∧ d.patches = e.patches)) := by
  obtain ⟨hi, _⟩ := assemble_first close hc slaves ops (inv_empty close S) hS
  exact ⟨hi.reg, hi.dense, hi.distinct⟩

/-- the same for a run of direct `add(point, list)` calls -/
theorem T_C05_first_match_adds {S : P → Prop} (hc : CloseRSOn close S) (calls : List (P × List N))
    (hS : ∀ c ∈ calls, S c.1) :
    (∀ x ∈ calls.zip (runAdds close {} calls).2,
      findDuplicated close (runAdds close {} calls).1 x.1.1 (sort x.1.2) = some x.2 ∧ close x.1.1 x.2.pos = true) ∧
    (runAdds close {} calls).1.duplicated.Pairwise
      (fun d e => ¬ (close d.vertex.pos e.vertex.pos = true ∧ d.patches = e.patches)) := by
  obtain ⟨hi, _, _, k4⟩ := runAdds_first close hc calls (inv_empty close S) hS
  refine ⟨fun x hx => ?_, hi.distinct⟩
  obtain ⟨⟨d, _, hdv, hk, _⟩, hf⟩ := k4 x hx
  exact ⟨hf, hdv ▸ hk⟩

/-- **T_C05_first_match_real.** The protocol instance (`norm(p − q) < TOL` on exact coordinates, `TOL` regenerated
    from the source) satisfies the hypothesis on all of space: the two theorems hold for every assembly. -/
theorem T_C05_first_match_real (slaves : List String) (ops : List (Op V3 String)) :
    (∀ b ∈ ops.zip (assemble closeV3 slaves {} ops).2,
      ∀ x ∈ (cornerCalls slaves b.1).zip b.2,
        findDuplicated closeV3 (assemble closeV3 slaves {} ops).1 x.1.1 (sort x.1.2) = some x.2 ∧
        closeV3 x.1.1 x.2.pos = true) ∧
    (assemble closeV3 slaves {} ops).1.duplicated.Pairwise
      (fun d e => ¬ (closeV3 d.vertex.pos e.vertex.pos = true ∧ d.patches = e.patches)) :=
  ⟨fun b hb => ((T_C05_first_match closeV3 closeV3_rs slaves ops (fun _ _ _ _ => trivial)).2 b hb).2,
   (T_C05_first_match_separated closeV3 closeV3_rs slaves ops (fun _ _ _ _ => trivial)).2.2⟩

/-- a near-chain: `a`–`b` and `b`–`c` are 0.6·TOL apart, `a`–`c` 1.2·TOL -/
def chainA : V3 := ⟨0, 0, 0⟩
def chainB : V3 := ⟨6 / 100000000, 0, 0⟩
def chainC : V3 := ⟨12 / 100000000, 0, 0⟩

/-- **T_C05_near_chain_order** (a concrete witness, by evaluation; replayed on the implementation by the
    `chain` cases of the check). On a near-chain closeness is not transitive, and the result of `add` depends on
    the insertion order: in the order a, b, c the points get the vertices 0, 0, 1 (two vertices; `b` and `c`,
    although within the tolerance of each other, are separated), in the order b, a, c they all get vertex 0.
    Hence "one vertex per distinct point" presupposes separated clusters; `T_C05_key` cannot be had without it. -/
theorem T_C05_near_chain_order :
    closeV3 chainA chainB = true ∧ closeV3 chainB chainC = true ∧ closeV3 chainA chainC = false ∧
    (runAdds closeV3 {} [(chainA, ([] : List String)), (chainB, []), (chainC, [])]).2.map (·.index) = [0, 0, 1] ∧
    (runAdds closeV3 {} [(chainB, ([] : List String)), (chainA, []), (chainC, [])]).2.map (·.index) = [0, 0, 0] := by
  decide +kernel

/-! ### the `None` branch of `add` -/

/-- **T_C05_mesh_list_branch.** `Mesh._add_vertices` never takes the `None` branch: the calls it makes are a run of the
    general `add` on arguments that are all of the form `some slave_patches` (so the first-match theorems above cover
    everything `Mesh` does, and `T_C05_none_branch` is about direct users of `VertexList` only). -/
theorem T_C05_mesh_list_branch (calls : List (P × List N)) :
    ∀ vl : VList P N, runAdds close vl calls = runAddsOpt close vl (calls.map (fun c => (c.1, some c.2))) := by
  induction calls with
  | nil => intro vl; rfl
  | cons c rest ih =>
    intro vl
    obtain ⟨p, s⟩ := c
    simp only [runAdds, runAddsOpt, List.map_cons, ih]

theorem T_C05_mesh_list_branch_op (slaves : List N) (vl : VList P N) (op : Op P N) :
    addVertices close slaves vl op =
      runAddsOpt close vl ((cornerCalls slaves op).map (fun c => (c.1, some c.2))) :=
  T_C05_mesh_list_branch close _ vl

/-- **T_C05_none_branch.** What `add(point, None)` does, for any list and any reflexive closeness test: the registry is not
    touched; the vertex handed back is within the tolerance of the point; it is the *first* vertex of the list within
    the tolerance when that vertex is not a registered (slave) copy, and otherwise a new vertex appended at the end
    (also when the first vertex within the tolerance is a slave copy — observation O2). -/
theorem T_C05_none_branch (vl : VList P N) (p : P) (hr : close p p = true) :
    (add close vl p none).1.duplicated = vl.duplicated ∧
    close (add close vl p none).2.pos p = true ∧
    ((∃ u, findUnique close vl p = some u ∧ vl.duplicated.any (fun d => d.vertex.index == u.index) = false ∧
        add close vl p none = (vl, u)) ∨
     ((findUnique close vl p = none ∨
        ∃ u, findUnique close vl p = some u ∧ vl.duplicated.any (fun d => d.vertex.index == u.index) = true) ∧
      (add close vl p none).2 = newVertex vl p ∧
      (add close vl p none).1.vertices = vl.vertices ++ [newVertex vl p])) := by
  have hfresh : (findUnique close vl p = none ∨
      ∃ u, findUnique close vl p = some u ∧ vl.duplicated.any (fun d => d.vertex.index == u.index) = true) →
      add close vl p none = ({ vl with vertices := vl.vertices ++ [newVertex vl p] }, newVertex vl p) := by
    intro h
    rcases h with h | ⟨u, h, ha⟩
    · unfold add; simp only [h]
    · unfold add; simp only [h, ha, if_true]
  cases hf : findUnique close vl p with
  | none =>
    have h := hfresh (Or.inl hf)
    rw [h]
    exact ⟨rfl, hr, Or.inr ⟨Or.inl rfl, rfl, rfl⟩⟩
  | some u =>
    cases ha : vl.duplicated.any (fun d => d.vertex.index == u.index) with
    | true =>
      have h := hfresh (Or.inr ⟨u, hf, ha⟩)
      rw [h]
      exact ⟨rfl, hr, Or.inr ⟨Or.inr ⟨u, rfl, ha⟩, rfl, rfl⟩⟩
    | false =>
      have h : add close vl p none = (vl, u) := by
        unfold add; simp only [hf, ha, Bool.false_eq_true, if_false]
      rw [h]
      refine ⟨rfl, ?_, Or.inl ⟨u, rfl, ha, rfl⟩⟩
      unfold findUnique at hf
      have := List.find?_some hf
      simpa using this

example : (add (fun (a b : Nat) => a == b) ({} : VList Nat String) 3 none).2 = ⟨0, 3⟩ := by decide

end CBV.C05
