/-
C16 — property theorems (curve points, lengths and closest-parameter queries are mutually consistent).

  T_C16_ends               DiscreteCurve.discretize(a, b) starts at get_point(a) and ends at get_point(b), either order
  T_C16_ends_function      FunctionCurveBase.discretize(a, b, n) starts at f(a) and ends at f(b) (linspace end point exact)
  T_C16_params             argument handling of function curves: explicit parameters are kept (also an explicit 0), None is the bound
  T_C16_ends_bounds        … so discretize(a|None, b|None, n) runs from f(a or lower bound) to f(b or upper bound)
  T_C16_additive_polyline  a polyline length is additive over a split at any of its points (any distance oracle)
  T_C16_additive           DiscreteCurve.get_length(a, c) = get_length(a, b) + get_length(b, c) for a ≤ b ≤ c
  T_C16_order              … and does not depend on the order of the two parameters (symmetric distance)
  T_C16_length_general     InterpolatedCurveBase.get_length(a, b) = S(hi) − S(lo) for any knot parameters (chord-length or evenly
                           spaced) and any curve whose distances inside a knot interval are differences of a length function S
  T_C16_additive_interpolated  hence additive over every split
  T_C16_linear_length      chord-length case S t = t·T: get_length(a, b) = |b − a| · T for every curve whose distances
                           inside a knot interval are proportional to the parameter difference (hence additive, symmetric,
                           equal to the polyline through the break points; T = total length for chord-length parameters)
  T_C16_segment_metric     the linear interpolant with chord-length parameters is such a curve (one knot interval)
  T_C16_linear_exact       … so for the modelled linear interpolant (interp1d over chord-length knots) and every exact distance
                           function: get_length(a, b) = |b − a| · total polyline length, no hypothesis on the curve left
  T_C16_through            the linear interpolant passes through its defining points
  T_C16_argmin             the discrete closest parameter is the first minimum of the distance over all points
  T_C16_closest_linear     the closest parameter of the linear interpolant (exact projection) beats every point of every segment
  T_C16_edge               a curve edge's written points are the discretisation minus its ends; the polyline through
                           vertex 1, the written points and vertex 2 is the curve length between the two parameters
Round 6:
  T_C16_samples_split / T_C16_additive_samples   discretize over k+m+1 samples splits at the k-th sample; the polyline length is exactly
                           additive there, for every sample count, curve function and distance oracle
  T_C16_length_monotone / T_C16_prefix_le        the polyline up to a sample is at most the polyline up to a later one
  T_C16_circle_polyline_real / T_C16_circle_length_real   (ℝ) CircleCurve: chord sum ≤ radius × parameter range, any ascending samples
  T_C16_circle_closest_real                      (ℝ) the closest parameter of a query is its angle in the circle's frame
  T_C16_circle_point       the modelled circle function (Rodrigues) stays on the circle
  T_C16_closest_param_point   the parameter returned by LinearInterpolatedCurve.get_closest_param addresses the projection point:
                           get_point(get_closest_param(q)) beats every point of every segment
  T_C16_tie_params / _samples / _discrete        the model agrees with the guards, counts, operators regenerated from the source text
Round 6c (ℝ):
  T_C16_circle_resampling_real   arc·(1 − h²/24) ≤ chord sum ≤ arc for parameters ascending in steps ≤ h ≤ 2
  T_C16_circle_additive_real     lengths of independent discretisations are additive up to r(c − a)h²/24
  T_C16_linspace_steps / T_C16_circle_get_length_real   the model's linspace ascends in steps (b − a)/N: the bound for get_length, every count
Spline interpolation and scipy.optimize.minimize are oracles: validator checks only (see notes/C16.md).
-/
import CBV.Lemmas.C16
import CBV.Lemmas.C08
import CBV.Lemmas.C16Real
import CBV.Lemmas.C16Param
import CBV.Lemmas.C08Tie
import Mathlib.Tactic.NormNum
import CBV.Gen.TC16

namespace CBV.C16

open CBV.C08 (Vec sq_wit_unique)

variable {α : Type}

/-! ### end points -/

theorem T_C16_ends (pts : List α) (a b : Rat) (l : List α) (h : discretize pts a b = some l) :
    l.head? = getPoint pts a ∧ l.getLast? = getPoint pts b := by
  unfold discretize at h
  cases ha : checkParam pts.length a with
  | none => simp [ha] at h
  | some i =>
    cases hb : checkParam pts.length b with
    | none => simp [ha, hb] at h
    | some j =>
      simp only [ha, hb, Option.bind_eq_bind, Option.bind_some] at h
      have hi := (checkParam_spec ha).1
      have hj := (checkParam_spec hb).1
      unfold getPoint
      simp only [ha, hb, Option.bind_eq_bind, Option.bind_some]
      split at h
      · rename_i hgt
        cases h
        have hji : j ≤ i := checkParam_mono hb ha (le_of_lt hgt)
        rw [List.head?_reverse, List.getLast?_reverse, slice_last pts j i hji hi, slice_head pts j i hji]
        exact ⟨rfl, rfl⟩
      · rename_i hle
        cases h
        have hij : i ≤ j := checkParam_mono ha hb (not_lt.mp hle)
        rw [slice_last pts i j hij hj, slice_head pts i j hij]
        exact ⟨rfl, rfl⟩

/-- non-vacuity: reversed, non-integer parameters on a 5-point curve -/
example : discretize [10, 11, 12, 13, 14] (7 / 2) 1 = some [13, 12, 11] ∧
    getPoint [10, 11, 12, 13, 14] (7 / 2) = some 13 := by
  constructor <;> decide +kernel

theorem T_C16_ends_function (f : Rat → α) (a b : Rat) (n : Nat) (hn : 2 ≤ n) :
    (discretizeF f a b n).head? = some (f a) ∧ (discretizeF f a b n).getLast? = some (f b) := by
  unfold discretizeF linspace
  obtain ⟨m, rfl⟩ : ∃ m, n = m + 2 := ⟨n - 2, by omega⟩
  constructor
  · simp [List.range_succ_eq_map]
  · simp

/-- Argument handling of `discretize` / `get_length` of a function curve with bounds `(lo, hi)`: an explicitly given parameter is
    never replaced (in particular not an explicit 0 when `lo ≠ 0`), a missing one is the bound, anything outside the bounds is
    rejected. -/
theorem T_C16_params (lo hi : Rat) (pf pt : Option Rat) :
    (∀ p, getParamsF lo hi pf pt = some p →
        p = (pf.getD lo, pt.getD hi) ∧ lo ≤ p.1 ∧ p.1 ≤ hi ∧ lo ≤ p.2 ∧ p.2 ≤ hi) ∧
    (∀ a b, lo ≤ a → a ≤ hi → lo ≤ b → b ≤ hi → getParamsF lo hi (some a) (some b) = some (a, b)) ∧
    (lo ≤ hi → getParamsF lo hi none none = some (lo, hi)) := by
  refine ⟨?_, ?_, ?_⟩
  · intro p h
    unfold getParamsF at h
    simp only at h
    split at h
    · rename_i hb
      cases h
      exact ⟨rfl, hb⟩
    · cases h
  · intro a b h1 h2 h3 h4
    simp [getParamsF, h1, h2, h3, h4]
  · intro h
    simp [getParamsF, h]

/-- … hence the discretisation of a function curve starts at the curve point of the first parameter (the lower bound when it is
    omitted) and ends at that of the second (the upper bound when omitted) -/
theorem T_C16_ends_bounds (f : Rat → α) (lo hi : Rat) (pf pt : Option Rat) (n : Nat) (hn : 2 ≤ n) (l : List α)
    (h : discretizeFB f lo hi pf pt n = some l) :
    l.head? = some (f (pf.getD lo)) ∧ l.getLast? = some (f (pt.getD hi)) := by
  unfold discretizeFB at h
  cases hp : getParamsF lo hi pf pt with
  | none => simp [hp] at h
  | some p =>
    simp only [hp, Option.map_some, Option.some.injEq] at h
    obtain ⟨hpe, _⟩ := (T_C16_params lo hi pf pt).1 p hp
    subst h
    rw [hpe]
    exact T_C16_ends_function f _ _ n hn

example : getParamsF (-1) 2 (some 0) none = some (0, 2) ∧ getParamsF (-1) 2 none (some 3) = none ∧
    discretizeFB (fun t => 10 * t) (-1) 2 (some 0) none 3 = some [0, 10, 20] := by
  refine ⟨?_, ?_, ?_⟩ <;> decide +kernel

/-! ### additivity -/

/-- splitting a polyline at any of its points: the two parts add up, whatever the distance oracle -/
theorem T_C16_additive_polyline (d : α → α → Rat) (l1 : List α) (x : α) (l2 : List α) :
    polyLenD d (l1 ++ x :: l2) = polyLenD d (l1 ++ [x]) + polyLenD d (x :: l2) :=
  polyLenD_append d l1 x l2

theorem T_C16_additive (d : α → α → Rat) (pts : List α) (a b c : Rat) (hab : a ≤ b) (hbc : b ≤ c)
    (ha : 0 ≤ a) (hc : c ≤ ((pts.length : Int) - 1 : Int)) :
    ∃ l1 l2, getLength d pts a b = some l1 ∧ getLength d pts b c = some l2 ∧
      getLength d pts a c = some (l1 + l2) := by
  obtain ⟨i, hi⟩ := checkParam_some (n := pts.length) ha (le_trans (le_trans hab hbc) hc)
  obtain ⟨j, hj⟩ := checkParam_some (n := pts.length) (le_trans ha hab) (le_trans hbc hc)
  obtain ⟨k, hk⟩ := checkParam_some (n := pts.length) (le_trans ha (le_trans hab hbc)) hc
  have hij := checkParam_mono hi hj hab
  have hjk := checkParam_mono hj hk hbc
  have hkn := (checkParam_spec hk).1
  obtain ⟨l1, x, l2, h1, h2, h3, _⟩ := slice_split pts i j k hij hjk hkn
  refine ⟨polyLenD d (slice pts i j), polyLenD d (slice pts j k), ?_, ?_, ?_⟩
  · simp [getLength, discretize, hi, hj, not_lt.mpr hab]
  · simp [getLength, discretize, hj, hk, not_lt.mpr hbc]
  · simp only [getLength, discretize, hi, hk, not_lt.mpr (le_trans hab hbc), Option.bind_eq_bind,
      Option.bind_some, if_false, Option.map_some]
    rw [h1, h2, h3, polyLenD_append]

example : getLength (fun (x y : Int) => (if x < y then y - x else x - y : Int)) [0, 3, 4, 9] 0 (5 / 2) = some 4 ∧
    getLength (fun (x y : Int) => (if x < y then y - x else x - y : Int)) [0, 3, 4, 9] (5 / 2) 3 = some 5 ∧
    getLength (fun (x y : Int) => (if x < y then y - x else x - y : Int)) [0, 3, 4, 9] 0 3 = some 9 := by
  refine ⟨?_, ?_, ?_⟩ <;> decide +kernel

theorem T_C16_order (d : α → α → Rat) (hsym : ∀ x y, d x y = d y x) (pts : List α) (a b : Rat) :
    getLength d pts a b = getLength d pts b a := by
  unfold getLength discretize
  cases ha : checkParam pts.length a with
  | none => cases hb : checkParam pts.length b <;> simp
  | some i =>
    cases hb : checkParam pts.length b with
    | none => simp
    | some j =>
      simp only [Option.bind_eq_bind, Option.bind_some]
      rcases lt_trichotomy a b with h | h | h
      · simp [not_lt.mpr (le_of_lt h), h, polyLenD_reverse d hsym]
      · subst h
        rw [ha] at hb; cases hb; rfl
      · simp [not_lt.mpr (le_of_lt h), h, polyLenD_reverse d hsym]

/-! ### interpolated curves -/

/-- `get_length` of an interpolated curve in closed form, for **any** knot parameters (chord-length `equalize=True` or evenly
    spaced `equalize=False`).  `S` is a length-along-the-curve function; `hlin`: inside one knot interval (no knot strictly
    between `x` and `z`) the distance of two curve points is `S z − S x` — true for every linear interpolant (on the knot
    interval `i` with `S t = cum_i + (t − t_i)·T_i`, `T_i = d_i / (t_{i+1} − t_i)`, by `T_C16_segment_metric`), false for a
    spline.  Then the length between two parameters is `S hi − S lo`: the polyline between them, additive over any split,
    independent of the order.  It is `|b − a|·total` only when `S` is linear, i.e. for chord-length parameters. -/
theorem T_C16_length_general (d : α → α → Rat) (f : Rat → α) (ts : List Rat) (S : Rat → Rat)
    (hsorted : ts.Pairwise (· < ·))
    (hlin : ∀ x z, 0 ≤ x → x ≤ z → z ≤ 1 → (∀ t ∈ ts, ¬ (x < t ∧ t < z)) → d (f x) (f z) = S z - S x)
    (a b : Rat) (ha : 0 ≤ a ∧ a ≤ 1) (hb : 0 ≤ b ∧ b ≤ 1) :
    getLengthI d f ts a b = some (S (max a b) - S (min a b)) := by
  unfold getLengthI
  rw [if_pos ⟨ha.1, ha.2, hb.1, hb.2⟩]
  congr 1
  simp only [lengthParams]
  set lo := min a b
  set hi := max a b
  have hle : lo ≤ hi := min_le_max
  have hlo0 : 0 ≤ lo := le_min ha.1 hb.1
  have hhi1 : hi ≤ 1 := max_le ha.2 hb.2
  set F := ts.filter (fun t => decide (lo < t) && decide (t < hi)) with hF
  have hFmem : ∀ t, t ∈ F ↔ t ∈ ts ∧ lo < t ∧ t < hi := by
    intro t; simp [hF, List.mem_filter]
  rcases eq_or_lt_of_le hle with heq | hlt
  · -- both parameters coincide: no knot in between, a single segment of length 0
    have hFnil : F = [] := by
      apply List.eq_nil_iff_forall_not_mem.mpr
      intro t ht
      have := (hFmem t).mp ht
      rw [← heq] at this
      exact lt_irrefl _ (lt_trans this.2.1 this.2.2)
    rw [hFnil]
    show d (f lo) (f hi) + 0 = _
    rw [hlin lo hi hlo0 hle hhi1 (by
      intro t _ h; rw [← heq] at h; exact lt_irrefl _ (lt_trans h.1 h.2))]
    ring
  · have hsortedL : (lo :: F ++ [hi]).Pairwise (· < ·) := by
      rw [List.cons_append, List.pairwise_cons]
      constructor
      · intro t ht
        simp only [List.mem_append, List.mem_singleton] at ht
        rcases ht with ht | rfl
        · exact ((hFmem t).mp ht).2.1
        · exact hlt
      · rw [List.pairwise_append]
        refine ⟨hsorted.filter _, by simp, ?_⟩
        intro t ht u hu
        simp only [List.mem_singleton] at hu
        subst hu
        exact ((hFmem t).mp ht).2.2
    apply polyLenD_telescope d f S (lo :: F ++ [hi]) lo hi (by simp)
      (by rw [show lo :: F ++ [hi] = (lo :: F) ++ [hi] from rfl, List.getLast?_append]; simp)
    intro u v huv
    have hu : u ∈ lo :: F ++ [hi] := (List.of_mem_zip huv).1
    have hv : v ∈ (lo :: F ++ [hi]).tail := (List.of_mem_zip huv).2
    have hv' : v ∈ lo :: F ++ [hi] := List.mem_of_mem_tail hv
    have huv_lt : u < v := by
      -- consecutive elements of a strictly increasing list
      have := List.pairwise_iff_getElem.mp hsortedL
      obtain ⟨n, hn⟩ := List.mem_iff_getElem.mp (show (u, v) ∈ _ from huv)
      obtain ⟨hn1, hn2⟩ := hn
      simp only [List.getElem_zip] at hn2
      have hlen : n < ((lo :: F ++ [hi]).zip (lo :: F ++ [hi]).tail).length := hn1
      simp only [List.length_zip, List.length_tail] at hlen
      have e1 : (lo :: F ++ [hi])[n]'(by omega) = u := by
        have := congrArg Prod.fst hn2; simpa using this
      have e2 : (lo :: F ++ [hi]).tail[n]'(by simp only [List.length_tail]; omega) = v := by
        have := congrArg Prod.snd hn2; simpa using this
      rw [List.getElem_tail] at e2
      rw [← e1, ← e2]
      exact this n (n + 1) (by omega) (by omega) (by omega)
    have hbounds : ∀ w ∈ lo :: F ++ [hi], lo ≤ w ∧ w ≤ hi := by
      intro w hw
      simp only [List.cons_append, List.mem_cons, List.mem_append, List.not_mem_nil, or_false] at hw
      rcases hw with rfl | hw | rfl
      · exact ⟨le_refl _, hle⟩
      · have := (hFmem w).mp hw; exact ⟨le_of_lt this.2.1, le_of_lt this.2.2⟩
      · exact ⟨hle, le_refl _⟩
    apply hlin u v (le_trans hlo0 (hbounds u hu).1) (le_of_lt huv_lt) (le_trans (hbounds v hv').2 hhi1)
    intro t ht hbetween
    have htF : t ∈ F := (hFmem t).mpr ⟨ht, lt_of_le_of_lt (hbounds u hu).1 hbetween.1,
      lt_of_lt_of_le hbetween.2 (hbounds v hv').2⟩
    have htL : t ∈ lo :: F ++ [hi] := by simp [htF]
    exact consec_no_between _ hsortedL u v huv t htL hbetween

/-- non-vacuity with **evenly spaced** knots over uneven points (`equalize=False`): on the real line the points 0, 1, 4 at the
    parameters 0, 1/2, 1; `S` is the interpolant itself; the length between 1/2 and 1/8 is 3/4, not `|Δt|·total` = 3/2 -/
example : knotParamsEven 3 = [0, 1 / 2, 1] ∧
    getLengthI (fun (x y : Rat) => if x ≤ y then y - x else x - y)
      (fun t => if t ≤ 1 / 2 then 2 * t else 1 + 6 * (t - 1 / 2)) [0, 1 / 2, 1] (1 / 2) (1 / 8) = some (3 / 4) ∧
    ((1 / 2 - 1 / 8 : Rat) * 4 ≠ 3 / 4) := by
  refine ⟨by decide +kernel, by decide +kernel, by norm_num⟩

/-- additivity over a split for every such curve (in particular every linear interpolant, whatever its knot parameters) -/
theorem T_C16_additive_interpolated (d : α → α → Rat) (f : Rat → α) (ts : List Rat) (S : Rat → Rat)
    (hsorted : ts.Pairwise (· < ·))
    (hlin : ∀ x z, 0 ≤ x → x ≤ z → z ≤ 1 → (∀ t ∈ ts, ¬ (x < t ∧ t < z)) → d (f x) (f z) = S z - S x)
    (a b c : Rat) (ha : 0 ≤ a) (hab : a ≤ b) (hbc : b ≤ c) (hc : c ≤ 1) :
    ∃ l1 l2, getLengthI d f ts a b = some l1 ∧ getLengthI d f ts b c = some l2 ∧
      getLengthI d f ts a c = some (l1 + l2) := by
  have hb0 : 0 ≤ b := le_trans ha hab
  have hb1 : b ≤ 1 := le_trans hbc hc
  refine ⟨S b - S a, S c - S b, ?_, ?_, ?_⟩
  · have := T_C16_length_general d f ts S hsorted hlin a b ⟨ha, le_trans hab hb1⟩ ⟨hb0, hb1⟩
    rwa [max_eq_right hab, min_eq_left hab] at this
  · have := T_C16_length_general d f ts S hsorted hlin b c ⟨hb0, hb1⟩ ⟨le_trans hb0 hbc, hc⟩
    rwa [max_eq_right hbc, min_eq_left hbc] at this
  · have := T_C16_length_general d f ts S hsorted hlin a c ⟨ha, le_trans (le_trans hab hbc) hc⟩ ⟨le_trans hb0 hbc, hc⟩
    rw [max_eq_right (le_trans hab hbc), min_eq_left (le_trans hab hbc)] at this
    rw [this]; congr 1; ring

/-- chord-length parameters (`equalize=True`): `S t = t·T` -/
theorem T_C16_linear_length (d : α → α → Rat) (f : Rat → α) (ts : List Rat) (T : Rat)
    (hsorted : ts.Pairwise (· < ·))
    (hlin : ∀ x z, 0 ≤ x → x ≤ z → z ≤ 1 → (∀ t ∈ ts, ¬ (x < t ∧ t < z)) → d (f x) (f z) = (z - x) * T)
    (a b : Rat) (ha : 0 ≤ a ∧ a ≤ 1) (hb : 0 ≤ b ∧ b ≤ 1) :
    getLengthI d f ts a b = some ((max a b - min a b) * T) := by
  have := T_C16_length_general d f ts (fun t => t * T) hsorted
    (fun x z h0 hxz h1 hno => by rw [hlin x z h0 hxz h1 hno]; ring) a b ha hb
  rw [this]; congr 1; ring

/-- non-vacuity: on the real line with `f = id·4` distances are proportional everywhere; three knots -/
example : getLengthI (fun (x y : Rat) => if x ≤ y then y - x else x - y) (fun t => 4 * t) [0, 1 / 4, 1] (3 / 4) (1 / 8)
    = some ((3 / 4 - 1 / 8) * 4) := by
  norm_num [getLengthI, lengthParams, polyLenD, List.filter]

/-- One knot interval of the linear interpolant with chord-length parameters: `(t1 − t0)·T` is the (witnessed) distance
    `dseg` of the two interpolation points, and the (witnessed) distance `w` of the curve points at `x ≤ z` inside the
    interval is `(z − x)·T`. -/
theorem T_C16_segment_metric (p q : V) (t0 t1 x z dseg T w : Rat) (ht : t0 < t1) (hxz : x ≤ z)
    (hT : (t1 - t0) * T = dseg) (hd : dseg * dseg = Vec.nsq (Vec.sub q p)) (hT0 : 0 ≤ T)
    (hw0 : 0 ≤ w)
    (hw : w * w = Vec.nsq (Vec.sub (lerpV p q ((z - t0) / (t1 - t0))) (lerpV p q ((x - t0) / (t1 - t0))))) :
    w = (z - x) * T := by
  have hne : t1 - t0 ≠ 0 := ne_of_gt (sub_pos.mpr ht)
  apply sq_wit_unique hw0 (mul_nonneg (sub_nonneg.mpr hxz) hT0)
  rw [hw]
  have e : Vec.nsq (Vec.sub (lerpV p q ((z - t0) / (t1 - t0))) (lerpV p q ((x - t0) / (t1 - t0))))
      = ((z - x) / (t1 - t0)) * ((z - x) / (t1 - t0)) * Vec.nsq (Vec.sub q p) := by
    simp only [Vec.nsq, Vec.dot, Vec.sub, lerpV]
    field_simp
    ring
  rw [e, ← hd, ← hT]
  field_simp

example : ((1 / 2 - 0 : Rat) * 10 = 5) ∧ ((5 : Rat) * 5 = Vec.nsq (Vec.sub (⟨3, 4, 0⟩ : V) ⟨0, 0, 0⟩)) := by
  norm_num [Vec.nsq, Vec.dot, Vec.sub]

/-- The flagship statement without hypotheses on the curve: for the *modelled* linear interpolant (scipy `interp1d` over the
    chord-length parameters of exact, positive segment lengths `ds`) and any exact distance function `d`,
    `get_length(a, b) = |b − a| · (total polyline length)`, for all parameters in [0, 1] in either order. -/
theorem T_C16_linear_exact (ps : List V) (ds : List Rat) (hw : SegWitPos ps ds) (hlen : 2 ≤ ps.length)
    (d : V → V → Rat) (hd : ∀ p q, 0 ≤ d p q ∧ d p q * d p q = dist2 p q)
    (a b : Rat) (ha : 0 ≤ a ∧ a ≤ 1) (hb : 0 ≤ b ∧ b ≤ 1) :
    getLengthI d (fun t => (lerp (knotParams ds) ps t).getD default) (knotParams ds) a b
      = some ((max a b - min a b) * total ds) := by
  have hT := total_pos ps ds hw hlen
  obtain ⟨hok, _, hsorted, hlast, hlen'⟩ := knotsFrom_ok (total ds) hT ps ds 0 hw
  rw [← knotParams_eq] at hok hsorted hlast hlen'
  have hlast1 : (knotParams ds).getLast? = some 1 := by
    rw [hlast]; congr 1; rw [zero_add, div_self (ne_of_gt hT)]
  have hhead : (knotParams ds).head? = some 0 := by simp [knotParams]
  apply T_C16_linear_length d _ (knotParams ds) (total ds) hsorted _ a b ha hb
  intro x z hx hxz hz hno
  obtain ⟨q0, q1, s0, s1, hs, hseg, hlx, hlz⟩ :=
    lerp_same_segment (total ds) (knotParams ds) ps hok (by omega) x z 0 1 hhead hlast1 hx hxz hz hno
  simp only [hlx, hlz, Option.getD_some]
  apply T_C16_segment_metric q0 q1 s0 s1 x z ((s1 - s0) * total ds) (total ds) _ hs hxz rfl
    (by rw [hseg]; rfl) (le_of_lt hT) (hd _ _).1
  rw [(hd _ _).2, dist2_symm]; rfl

example : SegWitPos [⟨0, 0, 0⟩, ⟨3, 4, 0⟩, ⟨3, 4, 12⟩] [5, 12] ∧ knotParams [5, 12] = [0, 5 / 17, 1] := by
  constructor
  · norm_num [SegWitPos, dist2, Vec.nsq, Vec.dot, Vec.sub]
  · decide +kernel

/-- the linear interpolant passes through its defining points (strictly increasing knot parameters) -/
theorem T_C16_through : ∀ (ts : List Rat) (ps : List V), ts.length = ps.length → ts.Pairwise (· < ·) →
    ∀ (i : Nat) (h1 : i < ts.length) (h2 : i < ps.length), 2 ≤ ts.length → lerp ts ps ts[i] = some ps[i]
  | [], _, _, _, i, h1, _, _ => by simp at h1
  | [_], _, _, _, _, _, _, h => by simp at h
  | t0 :: t1 :: ts, [], hl, _, _, _, _, _ => by simp at hl
  | t0 :: t1 :: ts, [_], hl, _, _, _, _, _ => by simp at hl
  | t0 :: t1 :: ts, p0 :: p1 :: ps, hl, hs, i, h1, h2, _ => by
      rw [List.pairwise_cons] at hs
      obtain ⟨h0, hs'⟩ := hs
      have h01 : t0 < t1 := h0 t1 (by simp)
      have hne : t1 - t0 ≠ 0 := ne_of_gt (sub_pos.mpr h01)
      match i, h1, h2 with
      | 0, _, _ =>
          simp only [List.getElem_cons_zero, lerp]
          rw [if_pos ⟨le_refl _, le_of_lt h01⟩]
          simp [lerpV]
      | 1, _, _ =>
          simp only [List.getElem_cons_succ, List.getElem_cons_zero, lerp]
          rw [if_pos ⟨le_of_lt h01, le_refl _⟩]
          simp [lerpV, div_self hne]
      | i + 2, h1, h2 =>
          have hlt : t1 < (t0 :: t1 :: ts)[i + 2] := by
            rw [List.pairwise_cons] at hs'
            simp only [List.getElem_cons_succ]
            exact hs'.1 _ (List.getElem_mem _)
          simp only [lerp]
          rw [if_neg (by intro h; exact absurd h.2 (not_le.mpr hlt))]
          have hlen : (t1 :: ts).length = (p1 :: ps).length := by simpa using hl
          have h1' : i + 1 < (t1 :: ts).length := by simpa using h1
          have h2' : i + 1 < (p1 :: ps).length := by simpa using h2
          have := T_C16_through (t1 :: ts) (p1 :: ps) hlen hs' (i + 1) h1' h2' (by
            simp only [List.length_cons] at h1' ⊢; omega)
          simpa using this

example : ([0, 1 / 3, 1] : List Rat).Pairwise (· < ·) ∧
    lerp [0, 1 / 3, 1] [⟨0, 0, 0⟩, ⟨0, 1, 0⟩, ⟨2, 1, 0⟩] (1 / 3) = some ⟨0, 1, 0⟩ := by
  constructor
  · simp [List.pairwise_cons]; norm_num
  · norm_num [lerp, lerpV]

/-! ### closest parameter of a discrete curve -/

/-- `get_closest_param` of a discrete curve returns an index of the curve whose point is at least as close as every
    point of the curve, and strictly closer than every earlier one (the first minimum, as `np.argmin`) -/
theorem T_C16_argmin (dist : α → Rat) (pts : List α) (hne : pts ≠ []) :
    closestParam dist pts < pts.length ∧
    ∀ j, j < pts.length →
      (pts.map dist).getD (closestParam dist pts) 0 ≤ (pts.map dist).getD j 0 ∧
      (j < closestParam dist pts → (pts.map dist).getD (closestParam dist pts) 0 < (pts.map dist).getD j 0) := by
  unfold closestParam
  cases hp : pts.map dist with
  | nil => simp at hp; exact absurd hp hne
  | cons x xs =>
    have hlen : pts.length = (x :: xs).length := by rw [← hp]; simp
    have := argminAux_spec (x :: xs) xs [x] 0 x rfl (by simp) rfl (by
      intro j hj
      have : j = 0 := by simpa using hj
      subst this
      exact ⟨by simp, fun h => absurd h (Nat.lt_irrefl _)⟩)
    simp only [List.length_singleton] at this
    rw [hlen]
    exact this

example : closestParam (fun (x : Rat) => (x - 3) * (x - 3)) [0, 2, 4, 5] = 1 := by
  norm_num [closestParam, argmin, argminAux]

/-- `LinearInterpolatedCurve.get_closest_param` (repaired: exact projection): the chosen segment exists and its clipped
    projection point is at least as close to the query as *every* point of *every* segment of the polyline -/
theorem T_C16_closest_linear (ps : List V) (q : V) (hlen : 2 ≤ ps.length) :
    closestSeg ps q < (segments ps).length ∧
    ∀ (j : Nat) (hj : j < (segments ps).length) (lam : Rat), 0 ≤ lam → lam ≤ 1 →
      ((segments ps).map (fun s => segDist2 s.1 s.2 q)).getD (closestSeg ps q) 0
        ≤ dist2 (lerpV (segments ps)[j].1 (segments ps)[j].2 lam) q := by
  have hne : segments ps ≠ [] := by
    match ps, hlen with
    | _ :: _ :: _, _ => simp [segments]
  obtain ⟨h1, h2⟩ := T_C16_argmin (fun s : V × V => segDist2 s.1 s.2 q) (segments ps) hne
  refine ⟨h1, ?_⟩
  intro j hj lam h0 hl
  have := (h2 j hj).1
  unfold closestSeg
  unfold closestParam at this
  refine le_trans this ?_
  have hget : ((segments ps).map (fun s => segDist2 s.1 s.2 q)).getD j 0
      = segDist2 (segments ps)[j].1 (segments ps)[j].2 q := by
    simp [List.getD_eq_getElem?_getD, hj]
  rw [hget]
  exact seg_opt _ _ q lam h0 hl

example : closestSeg [⟨0, 0, 0⟩, ⟨0, 1, 0⟩, ⟨2, 1, 0⟩] ⟨1, 3, 0⟩ = 1 ∧
    closestParamL [0, 1 / 3, 1] [⟨0, 0, 0⟩, ⟨0, 1, 0⟩, ⟨2, 1, 0⟩] ⟨1, 3, 0⟩ = 2 / 3 ∧
    closestParamL [0, 1 / 3, 1] [⟨0, 0, 0⟩, ⟨0, 1, 0⟩, ⟨2, 1, 0⟩] ⟨5, 0, 0⟩ = 1 := by
  refine ⟨?_, ?_, ?_⟩ <;> decide +kernel

/-! ### round 6: function curves (Line / Circle / Analytic) — samples, exact additivity at sample points, monotone length -/

/-- `FunctionCurveBase.discretize(a, b, k + m + 1)` is `discretize(a, t_k, k + 1)` followed by `discretize(t_k, b, m + 1)` without
    its first point, for **every** sample count and every split sample `t_k` (`np.linspace` over ℚ, end points exact) -/
theorem T_C16_samples_split (f : Rat → α) (a b : Rat) (k m : Nat) (hk : 1 ≤ k) (hm : 1 ≤ m) :
    discretizeF f a b (k + m + 1) =
      discretizeF f a (sample a b (k + m) k) (k + 1) ++ (discretizeF f (sample a b (k + m) k) b (m + 1)).tail := by
  unfold discretizeF
  rw [linspace_split a b k m hk hm, List.map_append, List.map_tail]

/-- **Exact additivity of the model's polyline length of a function curve over a split at a sample point**, for every sample
    count, every curve function and every distance oracle: the polyline over `k + m + 1` samples is the polyline over the first
    `k + 1` plus the polyline over the last `m + 1`.  (The implementation's `get_length` always takes 100 samples of the range it
    is asked for, so the three lengths of `get_length(a, c)`, `get_length(a, b)`, `get_length(b, c)` belong to three different
    polylines; the discrepancy is only that re-sampling, not the summation.) -/
theorem T_C16_additive_samples (d : α → α → Rat) (f : Rat → α) (a b : Rat) (k m : Nat) (hk : 1 ≤ k) (hm : 1 ≤ m) :
    polyLenD d (discretizeF f a b (k + m + 1)) =
      polyLenD d (discretizeF f a (sample a b (k + m) k) (k + 1)) +
        polyLenD d (discretizeF f (sample a b (k + m) k) b (m + 1)) := by
  obtain ⟨mid, hmid⟩ : ∃ mid, mid = sample a b (k + m) k := ⟨_, rfl⟩
  rw [T_C16_samples_split f a b k m hk hm, ← hmid]
  have h1 : discretizeF f a mid (k + 1) = ((List.range k).map (sample a mid k)).map f ++ [f mid] := by
    unfold discretizeF; rw [linspace_eq]; simp
  obtain ⟨l2, h2⟩ : ∃ l2, discretizeF f mid b (m + 1) = f mid :: l2 := by
    obtain ⟨hh, _⟩ := T_C16_ends_function f mid b (m + 1) (by omega)
    cases hD : discretizeF f mid b (m + 1) with
    | nil => rw [hD] at hh; simp at hh
    | cons x l2 => rw [hD] at hh; simp at hh; exact ⟨l2, by rw [hh]⟩
  rw [h1, h2, List.tail_cons]
  have : (((List.range k).map (sample a mid k)).map f ++ [f mid]) ++ l2
      = ((List.range k).map (sample a mid k)).map f ++ f mid :: l2 := by simp
  rw [this, polyLenD_append]

/-- non-vacuity: 7 samples of `t ↦ t²` on [0, 3] split at the 4th sample (t = 2): 9 = 4 + 5 on the real line -/
example : sample 0 3 6 4 = 2 ∧
    polyLenD (fun (x y : Rat) => if x ≤ y then y - x else x - y) (discretizeF (fun t => t * t) 0 3 7) = 9 ∧
    polyLenD (fun (x y : Rat) => if x ≤ y then y - x else x - y) (discretizeF (fun t => t * t) 0 2 5) = 4 ∧
    polyLenD (fun (x y : Rat) => if x ≤ y then y - x else x - y) (discretizeF (fun t => t * t) 2 3 3) = 5 := by
  refine ⟨?_, ?_, ?_, ?_⟩ <;> decide +kernel

/-- **The length grows with the parameter**: for a non-negative distance oracle the polyline up to a sample is at most the
    polyline up to any later sample (in particular at most the whole length), for every sample count -/
theorem T_C16_length_monotone (d : α → α → Rat) (hd : ∀ x y, 0 ≤ d x y) (f : Rat → α) (a b : Rat) (k m : Nat)
    (hk : 1 ≤ k) (hm : 1 ≤ m) :
    0 ≤ polyLenD d (discretizeF f a (sample a b (k + m) k) (k + 1)) ∧
    polyLenD d (discretizeF f a (sample a b (k + m) k) (k + 1)) ≤ polyLenD d (discretizeF f a b (k + m + 1)) := by
  rw [T_C16_additive_samples d f a b k m hk hm]
  have h1 := polyLenD_nonneg d hd (discretizeF f a (sample a b (k + m) k) (k + 1))
  have h2 := polyLenD_nonneg d hd (discretizeF f (sample a b (k + m) k) b (m + 1))
  exact ⟨h1, by linarith⟩

/-- … and, for any polyline: a prefix is never longer than the whole -/
theorem T_C16_prefix_le (d : α → α → Rat) (hd : ∀ x y, 0 ≤ d x y) (l1 : List α) (x : α) (l2 : List α) :
    polyLenD d (l1 ++ [x]) ≤ polyLenD d (l1 ++ x :: l2) := by
  rw [polyLenD_append d l1 x l2]
  have := polyLenD_nonneg d hd (x :: l2)
  linarith

/-! ### round 6: CircleCurve over ℝ -/

open CBV.C08 (Frame circAt) in
/-- **Chord sum ≤ arc length** for `CircleCurve`, over ℝ: the polyline through the circle points of any ascending parameter list
    (any sample count, any spacing) is at most `radius × (last − first)`, the length of the arc. -/
theorem T_C16_circle_polyline_real {C e1 e2 : Vec ℝ} (hF : Frame e1 e2) {r : ℝ} (hr : 0 ≤ r) (ts : List ℝ)
    (first last : ℝ) (hf : ts.head? = some first) (hl : ts.getLast? = some last) (hs : ts.Pairwise (· ≤ ·)) :
    polyLenR distR (ts.map (circAt C e1 e2 r)) ≤ r * (last - first) := by
  have h1 := circle_polyline_le (C := C) hF hr ts
  rw [variation_sorted ts last hl hs first hf] at h1
  exact h1

open CBV.C08 (Frame circAt) in
/-- non-vacuity: a frame and an ascending parameter list -/
example : Frame (⟨1, 0, 0⟩ : Vec ℝ) ⟨0, 1, 0⟩ ∧ ([0, 1 / 4, 1 / 2, 1] : List ℝ).Pairwise (· ≤ ·) := by
  refine ⟨⟨?_, ?_, ?_⟩, ?_⟩
  · norm_num [Vec.nsq, Vec.dot]
  · norm_num [Vec.nsq, Vec.dot]
  · norm_num [Vec.dot]
  · simp only [List.pairwise_cons, List.mem_cons, List.not_mem_nil, forall_eq_or_imp, or_false]
    norm_num

open CBV.C08 (Frame circAt) in
/-- … hence the polyline of `AnalyticCurve.get_length` for a `CircleCurve` (the model's `linspace` with **any** sample count ≥ 2, read
    in ℝ) never exceeds the arc length `r·(b − a)` -/
theorem T_C16_circle_length_real {C e1 e2 : Vec ℝ} (hF : Frame e1 e2) {r : ℝ} (hr : 0 ≤ r) (a b : Rat) (hab : a ≤ b) (N : Nat)
    (hN : 1 ≤ N) :
    polyLenR distR (((linspace a b (N + 1)).map (fun t : Rat => (t : ℝ))).map (circAt C e1 e2 r)) ≤ r * ((b : ℝ) - (a : ℝ)) := by
  apply T_C16_circle_polyline_real hF hr
  · rw [linspace_eq]
    obtain ⟨n, rfl⟩ : ∃ n, N = n + 1 := ⟨N - 1, by omega⟩
    simp [List.range_succ_eq_map, sample]
  · rw [linspace_eq]; simp
  · rw [List.pairwise_map]
    exact (linspace_sorted a b hab N).imp (fun h => by exact_mod_cast h)

open CBV.C08 (Frame circAt) in
/-- **The closest parameter of a point is its angle**, over ℝ: for a query at the angle `φ` of the circle's frame — any
    distance `ρ ≥ 0` from the axis, any height `h` off the plane — the circle point at `φ` is at least as close as the circle
    point at every other parameter `t`. -/
theorem T_C16_circle_closest_real {C e1 e2 : Vec ℝ} (hF : Frame e1 e2) {r ρ : ℝ} (hr : 0 ≤ r) (hρ : 0 ≤ ρ) (φ h t : ℝ) :
    distR (circAt C e1 e2 r φ) (Vec.add (circAt C e1 e2 ρ φ) (Vec.smul h (Vec.cross e1 e2)))
      ≤ distR (circAt C e1 e2 r t) (Vec.add (circAt C e1 e2 ρ φ) (Vec.smul h (Vec.cross e1 e2))) := by
  unfold distR
  apply Real.sqrt_le_sqrt
  rw [circle_query_sq hF, circle_query_sq hF, sub_self, Real.cos_zero]
  have := mul_nonneg (mul_nonneg hr hρ) (sub_nonneg.mpr (Real.cos_le_one (t - φ)))
  linarith

/-- The model of `CircleCurve._circle_function` (Rodrigues' rotation of the rim point about the unit normal through the origin) stays
    on the circle for every `(ct, st)` of the unit circle: at the in-plane radius from the circle's centre `O + (n·v) n` and in the
    plane orthogonal to the normal -/
theorem T_C16_circle_point (O rim n : V) (ct st : Rat) (hn : Vec.nsq n = 1) (hcs : ct * ct + st * st = 1) :
    Vec.nsq (Vec.sub (circlePoint O rim n ct st) (Vec.add O (Vec.smul (Vec.dot n (Vec.sub rim O)) n)))
      = Vec.nsq (Vec.sub rim O) - Vec.dot n (Vec.sub rim O) * Vec.dot n (Vec.sub rim O) ∧
    Vec.dot (Vec.sub (circlePoint O rim n ct st) (Vec.add O (Vec.smul (Vec.dot n (Vec.sub rim O)) n))) n = 0 := by
  obtain ⟨v, hv⟩ : ∃ v, v = Vec.sub rim O := ⟨_, rfl⟩
  have e1 : Vec.nsq (Vec.sub (circlePoint O rim n ct st) (Vec.add O (Vec.smul (Vec.dot n (Vec.sub rim O)) n)))
      = ct * ct * (Vec.nsq v - 2 * (Vec.dot n v * Vec.dot n v) + Vec.dot n v * Vec.dot n v * Vec.nsq n)
        + st * st * (Vec.nsq n * (Vec.nsq v - 2 * (Vec.dot n v * Vec.dot n v) + Vec.dot n v * Vec.dot n v * Vec.nsq n)
            - (Vec.dot n v - Vec.dot n v * Vec.nsq n) * (Vec.dot n v - Vec.dot n v * Vec.nsq n)) := by
    rw [hv]; simp only [circlePoint, Vec.nsq, Vec.dot, Vec.sub, Vec.add, Vec.smul, Vec.cross]; ring
  have e2 : Vec.dot (Vec.sub (circlePoint O rim n ct st) (Vec.add O (Vec.smul (Vec.dot n (Vec.sub rim O)) n))) n
      = ct * Vec.dot n v * (1 - Vec.nsq n) := by
    rw [hv]; simp only [circlePoint, Vec.nsq, Vec.dot, Vec.sub, Vec.add, Vec.smul, Vec.cross]; ring
  rw [e1, e2, hn, ← hv]
  constructor
  · linear_combination (Vec.nsq v - Vec.dot n v * Vec.dot n v) * hcs
  · ring

example : Vec.nsq (⟨0, 0, 1⟩ : V) = 1 ∧ ((3 / 5 : Rat) * (3 / 5) + (4 / 5) * (4 / 5) = 1) ∧
    circlePoint ⟨1, 1, 0⟩ ⟨6, 1, 2⟩ ⟨0, 0, 1⟩ (3 / 5) (4 / 5) = ⟨4, 5, 2⟩ := by
  refine ⟨by decide +kernel, by norm_num, by decide +kernel⟩

/-! ### round 6c: the re-sampling error of `AnalyticCurve.get_length` on circles, additivity up to it -/

open CBV.C08 (Frame circAt) in
/-- **Two-sided bound for the polyline of a `CircleCurve`**, over ℝ: for parameters ascending in steps of at most `h ≤ 2`
    (any count, any spacing) `arc·(1 − h²/24) ≤ chord sum ≤ arc`, `arc = r·(last − first)`. -/
theorem T_C16_circle_resampling_real {C e1 e2 : Vec ℝ} (hF : Frame e1 e2) {r : ℝ} (hr : 0 ≤ r) {h : ℝ} (hh : h ≤ 2)
    (ts : List ℝ) (first last : ℝ) (hf : ts.head? = some first) (hl : ts.getLast? = some last) (hs : Steps h ts) :
    r * (last - first) * (1 - h * h / 24) ≤ polyLenR distR (ts.map (circAt C e1 e2 r)) ∧
    polyLenR distR (ts.map (circAt C e1 e2 r)) ≤ r * (last - first) := by
  refine ⟨circle_polyline_ge hF hr hh ts last hl hs first hf, ?_⟩
  have h1 := circle_polyline_le (C := C) hF hr ts
  rw [variation_steps ts last hl hs first hf] at h1
  exact h1

open CBV.C08 (Frame circAt) in
/-- **Additivity of `get_length` on a circle between arbitrary parameters, up to the re-sampling error**: the polylines of three
    independent discretisations of `[a, b]`, `[b, c]` and `[a, c]` (each ascending in steps of at most `h ≤ 2`, whatever their counts)
    satisfy `|L(a,c) − (L(a,b) + L(b,c))| ≤ r·(c − a)·h²/24`.  (100 samples of a range of at most 2π: `h ≤ 0.0635`, relative 1.7e-4 — the
    oracle's tolerance for analytic curves is 2e-3.) -/
theorem T_C16_circle_additive_real {C e1 e2 : Vec ℝ} (hF : Frame e1 e2) {r : ℝ} (hr : 0 ≤ r) {h : ℝ} (hh : h ≤ 2)
    (a b c : ℝ) (l1 l2 l3 : List ℝ)
    (h1 : l1.head? = some a ∧ l1.getLast? = some b ∧ Steps h l1)
    (h2 : l2.head? = some b ∧ l2.getLast? = some c ∧ Steps h l2)
    (h3 : l3.head? = some a ∧ l3.getLast? = some c ∧ Steps h l3) :
    |polyLenR distR (l3.map (circAt C e1 e2 r))
        - (polyLenR distR (l1.map (circAt C e1 e2 r)) + polyLenR distR (l2.map (circAt C e1 e2 r)))|
      ≤ r * (c - a) * (h * h / 24) := by
  obtain ⟨lo1, hi1⟩ := T_C16_circle_resampling_real (C := C) hF hr hh l1 a b h1.1 h1.2.1 h1.2.2
  obtain ⟨lo2, hi2⟩ := T_C16_circle_resampling_real (C := C) hF hr hh l2 b c h2.1 h2.2.1 h2.2.2
  obtain ⟨lo3, hi3⟩ := T_C16_circle_resampling_real (C := C) hF hr hh l3 a c h3.1 h3.2.1 h3.2.2
  rw [abs_le]
  constructor <;> nlinarith

open CBV.C08 (Frame circAt) in
/-- non-vacuity: three ascending parameter lists in steps of at most 1/2 -/
example : Steps (1 / 2) [0, 1 / 2, 1] ∧ Steps (1 / 2) [1, 5 / 4, 3 / 2] ∧ Steps (1 / 2) [0, 3 / 8, 3 / 4, 9 / 8, 3 / 2] := by
  refine ⟨?_, ?_, ?_⟩ <;> simp only [Steps] <;> norm_num

open CBV.C08 (Frame circAt) in
/-- the model's `np.linspace(a, b, N + 1)` (read in ℝ) ascends in steps of `(b − a)/N`: the bound applies to the polyline of
    `AnalyticCurve.get_length` for every sample count -/
theorem T_C16_linspace_steps (a b : Rat) (hab : a ≤ b) (N : Nat) (hN : 1 ≤ N) :
    Steps (((b : ℝ) - a) / N) ((linspace a b (N + 1)).map (fun t : Rat => (t : ℝ))) := by
  obtain ⟨n, rfl⟩ : ∃ n, N = n + 1 := ⟨N - 1, by omega⟩
  have hNpos : (0 : ℝ) < ((n + 1 : Nat) : ℝ) := by positivity
  obtain ⟨s, hs⟩ : ∃ s : ℝ, s = ((b : ℝ) - a) / ((n + 1 : Nat) : ℝ) := ⟨_, rfl⟩
  have hs0 : 0 ≤ s := by
    rw [hs]; exact div_nonneg (by exact_mod_cast sub_nonneg.mpr hab) (le_of_lt hNpos)
  have hsN : s * ((n : ℝ) + 1) = (b : ℝ) - a := by
    rw [hs]; push_cast; field_simp
  have e : (linspace a b (n + 1 + 1)).map (fun t : Rat => (t : ℝ))
      = (List.range' 0 (n + 1)).map (fun i : Nat => (a : ℝ) + (i : ℝ) * s) ++ [(b : ℝ)] := by
    rw [linspace_eq, List.map_append, List.map_map, List.range_eq_range', hs]
    congr 1
    apply List.map_congr_left
    intro i _
    simp only [Function.comp, sample]
    push_cast
    ring
  rw [e, ← hs]
  apply steps_range' _ _ _ n 0
  · simp only [Nat.zero_add]; nlinarith
  · simp only [Nat.zero_add]; nlinarith
  · intro i
    push_cast
    constructor <;> nlinarith

open CBV.C08 (Frame circAt) in
/-- … so the polyline that `AnalyticCurve.get_length` sums for a `CircleCurve` — the model's `linspace` with `N + 1` samples, read in ℝ —
    lies between `arc·(1 − ((b − a)/N)²/24)` and `arc = r·(b − a)`, for every sample count with `(b − a)/N ≤ 2`; with the
    100 samples of the source (`N = 99`) and a range of at most 2π the relative deficit is below `(2π/99)²/24 < 1.7e-4`. -/
theorem T_C16_circle_get_length_real {C e1 e2 : Vec ℝ} (hF : Frame e1 e2) {r : ℝ} (hr : 0 ≤ r) (a b : Rat) (hab : a ≤ b)
    (N : Nat) (hN : 1 ≤ N) (hstep : ((b : ℝ) - a) / N ≤ 2) :
    r * ((b : ℝ) - a) * (1 - (((b : ℝ) - a) / N) * (((b : ℝ) - a) / N) / 24)
      ≤ polyLenR distR (((linspace a b (N + 1)).map (fun t : Rat => (t : ℝ))).map (circAt C e1 e2 r)) ∧
    polyLenR distR (((linspace a b (N + 1)).map (fun t : Rat => (t : ℝ))).map (circAt C e1 e2 r)) ≤ r * ((b : ℝ) - a) := by
  apply T_C16_circle_resampling_real hF hr hstep _ _ _ _ _ (T_C16_linspace_steps a b hab N hN)
  · rw [linspace_eq]
    obtain ⟨n, rfl⟩ : ∃ n, N = n + 1 := ⟨N - 1, by omega⟩
    simp [List.range_succ_eq_map, sample]
  · rw [linspace_eq]; simp

example : ((2 : ℝ) * 3.15 / 99) * (2 * 3.15 / 99) / 24 < 1.7e-4 := by norm_num

/-! ### round 6d: descending parameters; additivity of the linear interpolant at arbitrary split parameters -/

open CBV.C08 (Frame circAt) in
/-- **Descending parameter lists** (`param_from > param_to`: the implementation discretises from the larger to the smaller parameter):
    the same two-sided bound, by symmetry of the distance — for a list whose reverse ascends in steps of at most `h ≤ 2`,
    `arc·(1 − h²/24) ≤ chord sum ≤ arc` with `arc = r·(first − last)`. -/
theorem T_C16_circle_resampling_desc_real {C e1 e2 : Vec ℝ} (hF : Frame e1 e2) {r : ℝ} (hr : 0 ≤ r) {h : ℝ} (hh : h ≤ 2)
    (ts : List ℝ) (first last : ℝ) (hf : ts.head? = some first) (hl : ts.getLast? = some last) (hs : Steps h ts.reverse) :
    r * (first - last) * (1 - h * h / 24) ≤ polyLenR distR (ts.map (circAt C e1 e2 r)) ∧
    polyLenR distR (ts.map (circAt C e1 e2 r)) ≤ r * (first - last) := by
  have e : polyLenR distR (ts.map (circAt C e1 e2 r)) = polyLenR distR (ts.reverse.map (circAt C e1 e2 r)) := by
    rw [List.map_reverse, polyLenR_reverse distR distR_symm]
  rw [e]
  exact T_C16_circle_resampling_real hF hr hh ts.reverse last first
    (by rw [List.head?_reverse]; exact hl) (by rw [List.getLast?_reverse]; exact hf) hs

example : Steps (1 / 2) ([1, 1 / 2, 1 / 4] : List ℝ).reverse := by
  simp only [List.reverse_cons, List.reverse_nil, List.nil_append, List.cons_append, Steps]; norm_num

/-- **`LinearInterpolatedCurve.get_length` is additive over a split at an arbitrary parameter** — on the exact polyline model
    (`interp1d` over chord-length knots of exact positive segment lengths, any exact distance function), no hypothesis on the curve:
    for `0 ≤ a ≤ b ≤ c ≤ 1`, `L(a, c) = L(a, b) + L(b, c)`; also with the parameters of any call in the other order
    (`T_C16_linear_exact` is symmetric in its two parameters). -/
theorem T_C16_linear_additive_exact (ps : List V) (ds : List Rat) (hw : SegWitPos ps ds) (hlen : 2 ≤ ps.length)
    (d : V → V → Rat) (hd : ∀ p q, 0 ≤ d p q ∧ d p q * d p q = dist2 p q)
    (a b c : Rat) (ha : 0 ≤ a) (hab : a ≤ b) (hbc : b ≤ c) (hc : c ≤ 1) :
    ∃ l1 l2,
      getLengthI d (fun t => (lerp (knotParams ds) ps t).getD default) (knotParams ds) a b = some l1 ∧
      getLengthI d (fun t => (lerp (knotParams ds) ps t).getD default) (knotParams ds) b c = some l2 ∧
      getLengthI d (fun t => (lerp (knotParams ds) ps t).getD default) (knotParams ds) a c = some (l1 + l2) ∧
      getLengthI d (fun t => (lerp (knotParams ds) ps t).getD default) (knotParams ds) c a = some (l1 + l2) := by
  have hb0 : 0 ≤ b := le_trans ha hab
  have hb1 : b ≤ 1 := le_trans hbc hc
  have hc0 : 0 ≤ c := le_trans hb0 hbc
  have ha1 : a ≤ 1 := le_trans hab hb1
  have hac : a ≤ c := le_trans hab hbc
  refine ⟨(b - a) * total ds, (c - b) * total ds, ?_, ?_, ?_, ?_⟩
  · have := T_C16_linear_exact ps ds hw hlen d hd a b ⟨ha, ha1⟩ ⟨hb0, hb1⟩
    rwa [max_eq_right hab, min_eq_left hab] at this
  · have := T_C16_linear_exact ps ds hw hlen d hd b c ⟨hb0, hb1⟩ ⟨hc0, hc⟩
    rwa [max_eq_right hbc, min_eq_left hbc] at this
  · have := T_C16_linear_exact ps ds hw hlen d hd a c ⟨ha, ha1⟩ ⟨hc0, hc⟩
    rw [max_eq_right hac, min_eq_left hac] at this
    rw [this]; congr 1; ring
  · have := T_C16_linear_exact ps ds hw hlen d hd c a ⟨hc0, hc⟩ ⟨ha, ha1⟩
    rw [max_eq_left hac, min_eq_right hac] at this
    rw [this]; congr 1; ring

/-- **The length of a function curve does not depend on the order of the two parameters** — in the model, exactly, for every curve
    function, sample count ≥ 2 and symmetric distance: `discretize(b, a, n)` is `discretize(a, b, n)` reversed (`linspace_reverse`), and a
    reversed polyline has the same length.  (In the implementation `np.linspace(b, a)` is the reversed list up to rounding: oracle, 1e-9.) -/
theorem T_C16_order_function (d : α → α → Rat) (hsym : ∀ x y, d x y = d y x) (f : Rat → α) (a b : Rat) (N : Nat) (hN : 1 ≤ N) :
    discretizeF f b a (N + 1) = (discretizeF f a b (N + 1)).reverse ∧
    polyLenD d (discretizeF f b a (N + 1)) = polyLenD d (discretizeF f a b (N + 1)) := by
  have e : discretizeF f b a (N + 1) = (discretizeF f a b (N + 1)).reverse := by
    unfold discretizeF; rw [linspace_reverse a b N hN, List.map_reverse]
  exact ⟨e, by rw [e, polyLenD_reverse d hsym]⟩

/-- … hence `AnalyticCurve.get_length(a, b) = get_length(b, a)` in the model (100 samples), whenever both are accepted -/
theorem T_C16_order_analytic (d : α → α → Rat) (hsym : ∀ x y, d x y = d y x) (f : Rat → α) (lo hi a b : Rat) :
    getLengthA d f lo hi (some a) (some b) = getLengthA d f lo hi (some b) (some a) := by
  unfold getLengthA discretizeFB getParamsF
  simp only [Option.getD_some]
  by_cases h : lo ≤ a ∧ a ≤ hi ∧ lo ≤ b ∧ b ≤ hi
  · have h' : lo ≤ b ∧ b ≤ hi ∧ lo ≤ a ∧ a ≤ hi := ⟨h.2.2.1, h.2.2.2, h.1, h.2.1⟩
    rw [if_pos h, if_pos h']
    simp only [Option.map_some]
    congr 1
    exact ((T_C16_order_function d hsym f b a 99 (by norm_num)).2)
  · have h' : ¬ (lo ≤ b ∧ b ≤ hi ∧ lo ≤ a ∧ a ≤ hi) := fun h' => h ⟨h'.2.2.1, h'.2.2.2, h'.1, h'.2.1⟩
    rw [if_neg h, if_neg h']

example : discretizeF (fun t : Rat => t * t) 3 0 4 = [9, 4, 1, 0] ∧ discretizeF (fun t : Rat => t * t) 0 3 4 = [0, 1, 4, 9] := by
  constructor <;> decide +kernel

/-! ### round 6: tie to the source text (tables regenerated by `cbv/tables/c16.py` with `ast` on every run) -/

open CBV.C08 (chain opsAt operandsAt cmpOp) in
/-- `CurveBase._check_param` is `if not (bounds[0] <= param <= bounds[1]): raise ValueError`, `_get_params` replaces a parameter only
    when it `is None` (defaults `None`): the model's `getParamsF` accepts exactly when the regenerated chained comparison (operators
    as they stand in the source now) holds for both parameters -/
theorem T_C16_tie_params (lo hi : Rat) (pf pt : Option Rat) :
    operandsAt CBV.Gen.c16CheckParamCompares 0 = ("self.bounds[0]", ["v0", "self.bounds[1]"]) ∧
    CBV.Gen.c16CheckParamNegated = [true] ∧
    CBV.Gen.c16GetParamsCompares = [("v0", ["Is"], ["None"]), ("v1", ["Is"], ["None"])] ∧
    CBV.Gen.c16GetParamsDefaults = [("v0", "None"), ("v1", "None")] ∧
    (do let x ← chain (opsAt CBV.Gen.c16CheckParamCompares 0) [lo, pf.getD lo, hi]
        let y ← chain (opsAt CBV.Gen.c16CheckParamCompares 0) [lo, pt.getD hi, hi]
        pure (x && y)) = some (getParamsF lo hi pf pt).isSome := by
  refine ⟨by decide, by decide, by decide, by decide, ?_⟩
  have h : opsAt CBV.Gen.c16CheckParamCompares 0 = ["LtE", "LtE"] := by decide
  rw [h]
  unfold getParamsF
  by_cases h1 : lo ≤ pf.getD lo <;> by_cases h2 : pf.getD lo ≤ hi <;> by_cases h3 : lo ≤ pt.getD hi <;>
    by_cases h4 : pt.getD hi ≤ hi <;> simp [chain, cmpOp, h1, h2, h3, h4]

open CBV.C08 (chain opsAt operandsAt cmpOp) in
/-- sample counts and calls: `AnalyticCurve.get_length` discretises with `count=100` (the model's `getLengthA`), `FunctionCurveBase.discretize`
    defaults to 15 samples and passes `num=count` to `np.linspace`; the break points of `InterpolatedCurveBase.get_length` are the knots with
    `lower < t < upper` (the model's `lengthParams` filter, for every knot and every pair of parameters) -/
theorem T_C16_tie_samples (d : α → α → Rat) (f : Rat → α) (lo hi : Rat) (pf pt : Option Rat) (ts : List Rat) (a b : Rat) :
    CBV.Gen.c16AnalyticLengthCall = [["v0", "v1", "count=100"]] ∧
    getLengthA d f lo hi pf pt = (discretizeFB f lo hi pf pt 100).map (polyLenD d) ∧
    CBV.Gen.c16LinspaceCall = [["v0", "v1", "num=v2"]] ∧
    CBV.Gen.c16DiscretizeDefaults =
      [("CurveBase", [("v0", "None"), ("v1", "None"), ("v2", "10")]),
       ("FunctionCurveBase", [("v0", "None"), ("v1", "None"), ("v2", "15")]),
       ("DiscreteCurve", [("v0", "None"), ("v1", "None"), ("v2", "0")])] ∧
    operandsAt CBV.Gen.c16InterpLengthCompares 0 = ("v2", ["v5", "v3"]) ∧
    lengthParams ts a b = min a b ::
      (ts.filter (fun t => chain (opsAt CBV.Gen.c16InterpLengthCompares 0) [min a b, t, max a b] == some true)) ++ [max a b] := by
  refine ⟨by decide, rfl, by decide, by decide, by decide, ?_⟩
  have h : opsAt CBV.Gen.c16InterpLengthCompares 0 = ["Lt", "Lt"] := by decide
  rw [h]
  unfold lengthParams
  simp [chain, cmpOp]

open CBV.C08 (chain opsAt operandsAt cmpOp) in
/-- `DiscreteCurve`: the flip test `param_from > param_to`, the slice `[start : end + 1]`, a single point has length 0
    (`len(points) < 2 → 0.0`); `LinearInterpolatedCurve.get_closest_param`: `np.where(lengths > 0, lengths, 1)`, `np.clip(ratios, 0, 1)`;
    `OnCurveEdge.point_array`: the slice `[1:-1]` -/
theorem T_C16_tie_discrete (x : Rat) :
    CBV.Gen.c16DiscreteCompares = [("v0", ["Gt"], ["v1"])] ∧
    CBV.Gen.c16DiscreteNumbers = [(0, 1), (1, 1), (0, 1)] ∧
    CBV.Gen.c16DiscreteLengthCompares = [("len(v2)", ["Lt"], ["2"])] ∧
    CBV.Gen.c16DiscreteLengthNumbers = [(2, 1), (0, 1)] ∧
    CBV.Gen.c16ClosestLinearCompares = [("v4", ["Gt"], ["0"])] ∧
    CBV.Gen.c16ClosestLinearClip = [["v5", "0", "1"]] ∧
    CBV.Gen.c16PointArrayNumbers = [(1, 1), (-1, 1)] ∧
    clip01 x = (if chain ["Lt"] [x, 0] = some true then 0 else if chain ["Gt"] [x, 1] = some true then 1 else x) := by
  refine ⟨by decide, by decide, by decide, by decide, by decide, by decide, by decide, ?_⟩
  unfold clip01
  simp [chain, cmpOp]

/-- The **parameter** returned by `LinearInterpolatedCurve.get_closest_param` addresses the projection point: for strictly increasing
    knot parameters (chord-length or evenly spaced), `get_point(get_closest_param(q))` exists, is the clipped projection of `q` on the
    chosen segment, and is at least as close to `q` as every point of every segment of the polyline.  (The return statement
    `params[i] + ratios[i] * (params[i+1] - params[i])` and scipy's `interp1d` are inverse to each other on a segment: `lerp_at_segment`.) -/
theorem T_C16_closest_param_point (ts : List Rat) (ps : List V) (q : V) (hl : ts.length = ps.length)
    (hs : ts.Pairwise (· < ·)) (hlen : 2 ≤ ps.length) :
    ∃ P, lerp ts ps (closestParamL ts ps q) = some P ∧
      ∀ (j : Nat) (hj : j < (segments ps).length) (lam : Rat), 0 ≤ lam → lam ≤ 1 →
        dist2 P q ≤ dist2 (lerpV (segments ps)[j].1 (segments ps)[j].2 lam) q := by
  obtain ⟨hi, hmin⟩ := T_C16_closest_linear ps q hlen
  have hseglen : (segments ps).length = ps.length - 1 := by
    simp only [segments, List.length_zip, List.length_tail]; omega
  have hi2 : closestSeg ps q + 1 < ps.length := by omega
  have hi1 : closestSeg ps q + 1 < ts.length := by omega
  obtain ⟨i, hidef⟩ : ∃ i, i = closestSeg ps q := ⟨_, rfl⟩
  rw [← hidef] at hi hi2 hi1 hmin
  have hρ := clip01_bounds (Vec.dot (Vec.sub q ps[i]) (Vec.sub ps[i + 1] ps[i]) /
      (if 0 < Vec.nsq (Vec.sub ps[i + 1] ps[i]) then Vec.nsq (Vec.sub ps[i + 1] ps[i]) else 1))
  have hpar : closestParamL ts ps q = ts[i] + segRatio ps[i] ps[i + 1] q * (ts[i + 1] - ts[i]) := by
    unfold closestParamL
    simp only [← hidef]
    rw [List.getD_eq_getElem?_getD, List.getD_eq_getElem?_getD, List.getD_eq_getElem?_getD, List.getD_eq_getElem?_getD,
      List.getElem?_eq_getElem (by omega), List.getElem?_eq_getElem hi1, List.getElem?_eq_getElem (by omega),
      List.getElem?_eq_getElem hi2]
    simp
  refine ⟨lerpV ps[i] ps[i + 1] (segRatio ps[i] ps[i + 1] q), ?_, ?_⟩
  · rw [hpar]
    exact lerp_at_segment ts ps hl hs i hi1 hi2 _ hρ.1 hρ.2
  · intro j hj lam h0 h1
    refine le_trans (le_of_eq ?_) (hmin j hj lam h0 h1)
    have hget : ((segments ps).map (fun s => segDist2 s.1 s.2 q)).getD i 0
        = segDist2 (segments ps)[i].1 (segments ps)[i].2 q := by
      simp [List.getD_eq_getElem?_getD, hi]
    rw [hget]
    have hseg : (segments ps)[i] = (ps[i], ps[i + 1]) := by
      simp [segments, List.getElem_zip, List.getElem_tail]
    rw [hseg]
    rfl

example : ([0, 1 / 3, 1] : List Rat).Pairwise (· < ·) ∧
    lerp [0, 1 / 3, 1] [⟨0, 0, 0⟩, ⟨0, 1, 0⟩, ⟨2, 1, 0⟩]
      (closestParamL [0, 1 / 3, 1] [⟨0, 0, 0⟩, ⟨0, 1, 0⟩, ⟨2, 1, 0⟩] ⟨1, 3, 0⟩) = some ⟨1, 1, 0⟩ := by
  constructor
  · simp [List.pairwise_cons]; norm_num
  · decide +kernel

/-! ### curve edges -/

/-- A curve edge writes `discretize(param_start, param_end)[1:-1]`: together with the two end points (the curve points at
    the parameters of the two vertices, by `T_C16_ends`) these are exactly the discretisation; hence the polyline through
    vertex 1, the written points and vertex 2 (`SplineEdge.length`) is the curve length between the two parameters. -/
theorem T_C16_edge (d : α → α → Rat) (disc : List α) (v1 v2 : α) (hlen : 2 ≤ disc.length)
    (h1 : disc.head? = some v1) (h2 : disc.getLast? = some v2) :
    v1 :: pointArray disc ++ [v2] = disc ∧ splineEdgeLength d v1 v2 (pointArray disc) = polyLenD d disc := by
  have key : v1 :: pointArray disc ++ [v2] = disc := by
    unfold pointArray
    match disc, hlen, h1, h2 with
    | x :: y :: rest, _, h1, h2 =>
        simp only [List.head?_cons, Option.some.injEq] at h1
        subst h1
        simp only [List.tail_cons]
        have hne : (y :: rest) ≠ [] := by simp
        have hl : (y :: rest).getLast? = some v2 := by simpa [List.getLast?_cons_cons] using h2
        have := List.dropLast_append_getLast? v2 (by simpa using hl)
        simpa using this
  exact ⟨key, by unfold splineEdgeLength; rw [key]⟩

example : pointArray [1, 2, 3, 4, 5] = [2, 3, 4] := rfl

end CBV.C16
