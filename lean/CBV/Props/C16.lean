/- C16 — property theorems.  Stub. -/
import CBV.Model.C16

namespace CBV.C16

end CBV.C16
