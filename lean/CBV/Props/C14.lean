/- C14 — property theorems.  Stub. -/
import CBV.Model.C14

namespace CBV.C14

end CBV.C14
