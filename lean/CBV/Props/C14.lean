/-
C14 — property theorems.  The quality value is `G (canon (Sig cell neighbours))` for an opaque float
function `G`; the theorems show that the rational signature `Sig` (resp. its scale-free form `Sig0`)
does not change under rigid motions, uniform scaling and rotational renumbering of the corners, and
what it is for a cuboid.  Side and edge tables are the ones regenerated from the source at every run.
-/
import CBV.Model.C14
import CBV.Lemmas.C14
import CBV.Lemmas.C14Side
import CBV.Lemmas.C14Sig
import CBV.Lemmas.C14Renum
import CBV.Lemmas.C14Box
import CBV.Lemmas.C14Quad
import CBV.Lemmas.C14Grid
import CBV.Lemmas.C14Guard
import CBV.Lemmas.C14Post
import CBV.Gen.TC14

namespace CBV.C14
open CBV

/-! ### the generated tables -/

/-- the side tables list 4 (hex) / 2 (quad) corners of the cell, the edge tables pairs of corners; side
    names and index lists correspond one to one -/
theorem T_C14_tables :
    TablesOk CBV.Gen.hexSideIdx CBV.Gen.hexAspectPairs 4 8 ∧
    TablesOk CBV.Gen.quadSideIdx CBV.Gen.quadAspectPairs 2 4 ∧
    CBV.Gen.hexSideIdx.length = 6 ∧ CBV.Gen.quadSideIdx.length = 4 ∧
    CBV.Gen.hexSideNames.length = 6 ∧ CBV.Gen.hexSideNames.Nodup ∧
    CBV.Gen.quadSideNames.length = 4 ∧ CBV.Gen.quadSideNames.Nodup ∧
    -- the aspect term measures exactly the edges of the cell (`edge_pairs`), each once
    (CBV.Gen.hexAspectPairs.map normPair).Perm (CBV.Gen.hexEdgePairs.map normPair) ∧
    (CBV.Gen.quadAspectPairs.map normPair).Perm (CBV.Gen.quadEdgePairs.map normPair) ∧
    CBV.Gen.vsmallIs1em6 = true := by
  unfold TablesOk; decide

/-! ### rigid motions -/

/-- Rotating (by any non-zero rational quaternion `(w, a)`) and translating a hexahedral cell together
    with the centres of its neighbours leaves the signature unchanged — entry by entry, in the same
    order; hence the quality value, for any post-processing. -/
theorem T_C14_rigid (pts : List V3) (hlen : pts.length = 8) (nb : Nat → Option V3) (w : Rat) (a t : V3)
    (hN : w * w + V3.dot a a ≠ 0) :
    sigHex (pts.map (rigid w a t)) (fun i => (nb i).map (rigid w a t)) = sigHex pts nb ∧
    quality false (sigHex (pts.map (rigid w a t)) (fun i => (nb i).map (rigid w a t))) =
      quality false (sigHex pts nb) := by
  have h : sigHex (pts.map (rigid w a t)) (fun i => (nb i).map (rigid w a t)) = sigHex pts nb :=
    sigHexWith_rigid _ _ pts nb w a t hN (by rw [hlen]; exact T_C14_tables.1)
      (by intro h; rw [h] at hlen; simp at hlen)
  exact ⟨h, by rw [h]⟩

theorem T_C14_rigid_quad (pts : List V3) (hlen : pts.length = 4) (nb : Nat → Option V3) (w : Rat) (a t : V3)
    (hN : w * w + V3.dot a a ≠ 0) :
    sigQuad (pts.map (rigid w a t)) (fun i => (nb i).map (rigid w a t)) = sigQuad pts nb ∧
    quality true (sigQuad (pts.map (rigid w a t)) (fun i => (nb i).map (rigid w a t))) =
      quality true (sigQuad pts nb) := by
  have h : sigQuad (pts.map (rigid w a t)) (fun i => (nb i).map (rigid w a t)) = sigQuad pts nb :=
    sigQuadWith_rigid _ _ pts nb w a t hN T_C14_tables.2.1 hlen (by decide)
  exact ⟨h, by rw [h]⟩

/-- the neighbour centre moves with the neighbour: the centre of a moved cell is the moved centre -/
theorem T_C14_rigid_centre (pts : List V3) (hne : pts ≠ []) (w : Rat) (a t : V3) :
    avg (pts.map (rigid w a t)) = rigid w a t (avg pts) := avg_map_rigid w a t pts hne

/-- non-vacuity: a quarter turn about z (quaternion (1,(0,0,1))) plus a shift really moves the points -/
example : ([⟨1, 0, 0⟩, ⟨0, 2, 0⟩] : List V3).map (rigid 1 ⟨0, 0, 1⟩ ⟨5, 0, 0⟩) = [⟨5, 1, 0⟩, ⟨3, 0, 0⟩] ∧
    (1 : Rat) * 1 + V3.dot ⟨0, 0, 1⟩ ⟨0, 0, 1⟩ ≠ 0 := by decide +kernel

/-! ### uniform scaling (idealised: guard = 0) -/

/-- Scaling the cell and its neighbours' centres by `k > 0` leaves the scale-free signature `Sig0`
    unchanged (signed squared cosines of all 24+24 angles, squared aspect ratio); hence the idealised
    value.  (With the guard `VSMALL` the code's value is *not* scale free; see the notes.) -/
theorem T_C14_scale (pts : List V3) (nb : Nat → Option V3) (k : Rat) (hk : 0 < k) :
    (sigHex (pts.map (V3.smul k)) (fun i => (nb i).map (V3.smul k))).norm = (sigHex pts nb).norm ∧
    quality0 (sigHex (pts.map (V3.smul k)) (fun i => (nb i).map (V3.smul k))) = quality0 (sigHex pts nb) := by
  have h := sigHexWith_smul CBV.Gen.hexSideIdx CBV.Gen.hexAspectPairs pts nb k hk
    (fun s hs => (T_C14_tables.1.1 s hs).1)
  exact ⟨h, by unfold quality0; unfold sigHex; rw [h]⟩

theorem T_C14_scale_quad (pts : List V3) (nb : Nat → Option V3) (k : Rat) (hk : 0 < k) :
    (sigQuad (pts.map (V3.smul k)) (fun i => (nb i).map (V3.smul k))).norm = (sigQuad pts nb).norm ∧
    quality0 (sigQuad (pts.map (V3.smul k)) (fun i => (nb i).map (V3.smul k))) = quality0 (sigQuad pts nb) := by
  have h := sigQuadWith_smul CBV.Gen.quadSideIdx CBV.Gen.quadAspectPairs pts nb k hk
    (fun s hs => (T_C14_tables.2.1.1 s hs).1)
  exact ⟨h, by unfold quality0; unfold sigQuad; rw [h]⟩

/-- scaling commutes with taking the centre of a neighbour -/
theorem T_C14_scale_centre (pts : List V3) (k : Rat) : avg (pts.map (V3.smul k)) = V3.smul k (avg pts) :=
  avg_map_smul k pts

/-! ### rotational renumbering of a hexahedron -/

/-- all 24 rotations of the blockMesh hexahedron, as corner permutations, from the coordinates of the
    corners: an even permutation of the axes with an even number of reflections or an odd one with
    an odd number (determinant +1). -/
theorem T_C14_rot24 : rot24.length = 24 ∧ rot24.Nodup ∧
    ∀ σ ∈ rot24, renumOk CBV.Gen.hexSideIdx CBV.Gen.hexAspectPairs 8 σ = true := by decide +kernel

/-- Renumbering the corners of a cell by any of the 24 rotations (new corner `k` = old corner `σ[k]`;
    the neighbour of a side follows the side) permutes the triangle entries, the corner entries and the
    edge lengths of the signature; hence the canonical signature and the quality value are unchanged.
    Holds because every rotation maps each entry of the generated `side_indexes` onto a cyclic shift of
    an entry and `edge_pairs` onto itself (decided on the tables of the current source). -/
theorem T_C14_renumber (σ : List Nat) (hσ : σ ∈ rot24) (pts : List V3) (hlen : pts.length = 8)
    (nb : Nat → Option V3) :
    let s' := sigHex (σ.map (pt pts)) (fun i => nb (sidePerm CBV.Gen.hexSideIdx σ i))
    let s := sigHex pts nb
    s'.tris.Perm s.tris ∧ s'.corners.Perm s.corners ∧ s'.edges.Perm s.edges ∧
      s'.canon = s.canon ∧ quality false s' = quality false s := by
  intro s' s
  have h := sigHexWith_renumber CBV.Gen.hexSideIdx CBV.Gen.hexAspectPairs 8 σ pts hlen nb T_C14_tables.1
    (T_C14_rot24.2.2 σ hσ)
  have hc : s'.canon = s.canon := canon_congr h.1 h.2.1 h.2.2
  exact ⟨h.1, h.2.1, h.2.2, hc, by unfold quality; rw [hc]⟩

/-- non-vacuity: a quarter turn about the 0-4 axis is one of the 24, it moves the sides left→front→right→back -/
example : [1, 2, 3, 0, 5, 6, 7, 4] ∈ rot24 ∧
    (List.range 6).map (sidePerm CBV.Gen.hexSideIdx [1, 2, 3, 0, 5, 6, 7, 4]) = [0, 1, 4, 5, 3, 2] := by
  decide +kernel

/-! ### whole grids: the neighbour centres are derived from the grid itself -/

/-- Moving *all points of a grid* by a rigid motion leaves the signature (hence the quality) of every
    hexahedral cell unchanged, the neighbour of each side being found by `_bind_cell_neighbours` as
    modelled in `C15.cellNbrs` (which only looks at the addressing). -/
theorem T_C14_rigid_grid (cells : List (List Nat)) (p : List V3) (ci : Nat) (hci : ci < cells.length)
    (hg : GridOk ⟨C15.hexKind, cells, p.length⟩ p 8) (w : Rat) (a t : V3) (hN : w * w + V3.dot a a ≠ 0) :
    sigOfCell ⟨C15.hexKind, cells, p.length⟩ (p.map (rigid w a t)) ci =
      sigOfCell ⟨C15.hexKind, cells, p.length⟩ p ci := by
  have hm := getD_mem_of_lt cells [] ci hci
  have hc := hg.2 _ hm
  unfold sigOfCell
  simp only [C15.hexKind, show ((8 : Nat) == 4) = false by decide, Bool.false_eq_true, if_false]
  rw [cellPts_map _ _ _ hc.2]
  have hnb : (fun i => ((C15.cellNbrs ⟨C15.hexKind, cells, p.length⟩ ci).getD i none).map
        (fun cj => avg (cellPts (p.map (rigid w a t)) (cells.getD cj [])))) =
      fun i => (((C15.cellNbrs ⟨C15.hexKind, cells, p.length⟩ ci).getD i none).map
        (fun cj => avg (cellPts p (cells.getD cj [])))).map (rigid w a t) := by
    funext i; exact nb_rigid _ p 8 hg ci i w a t
  simp only [C15.hexKind] at hnb
  rw [hnb]
  have hlen : (cellPts p (cells.getD ci [])).length = 8 := by
    unfold cellPts; rw [List.length_map]; exact hc.1
  exact sigHexWith_rigid _ _ _ _ w a t hN (by rw [hlen]; exact T_C14_tables.1)
    (by intro h; rw [h] at hlen; simp at hlen)

/-- the same for a grid of quadrilateral cells (`QuadGrid`), e.g. a sketch rotated out of its plane -/
theorem T_C14_rigid_grid_quad (cells : List (List Nat)) (p : List V3) (ci : Nat) (hci : ci < cells.length)
    (hg : GridOk ⟨C15.quadKind, cells, p.length⟩ p 4) (w : Rat) (a t : V3) (hN : w * w + V3.dot a a ≠ 0) :
    sigOfCell ⟨C15.quadKind, cells, p.length⟩ (p.map (rigid w a t)) ci =
      sigOfCell ⟨C15.quadKind, cells, p.length⟩ p ci := by
  have hm := getD_mem_of_lt cells [] ci hci
  have hc := hg.2 _ hm
  unfold sigOfCell
  simp only [C15.quadKind, show ((4 : Nat) == 4) = true by decide, if_true]
  rw [cellPts_map _ _ _ hc.2]
  have hnb : (fun i => ((C15.cellNbrs ⟨C15.quadKind, cells, p.length⟩ ci).getD i none).map
        (fun cj => avg (cellPts (p.map (rigid w a t)) (cells.getD cj [])))) =
      fun i => (((C15.cellNbrs ⟨C15.quadKind, cells, p.length⟩ ci).getD i none).map
        (fun cj => avg (cellPts p (cells.getD cj [])))).map (rigid w a t) := by
    funext i; exact nb_rigid _ p 4 hg ci i w a t
  simp only [C15.quadKind] at hnb
  rw [hnb]
  have hlen : (cellPts p (cells.getD ci [])).length = 4 := by
    unfold cellPts; rw [List.length_map]; exact hc.1
  exact sigQuadWith_rigid _ _ _ _ w a t hN T_C14_tables.2.1 hlen (by decide)

/-- the same for a uniform scaling of all grid points, on the scale-free signature -/
theorem T_C14_scale_grid (cells : List (List Nat)) (p : List V3) (ci : Nat) (k : Rat) (hk : 0 < k) :
    (sigOfCell ⟨C15.hexKind, cells, p.length⟩ (p.map (V3.smul k)) ci).norm =
      (sigOfCell ⟨C15.hexKind, cells, p.length⟩ p ci).norm := by
  unfold sigOfCell
  simp only [C15.hexKind, show ((8 : Nat) == 4) = false by decide, Bool.false_eq_true, if_false]
  rw [show cellPts (p.map (V3.smul k)) (cells.getD ci []) = (cellPts p (cells.getD ci [])).map (V3.smul k) from
    map_pt_map_smul k p _]
  have hnb : (fun i => ((C15.cellNbrs ⟨C15.hexKind, cells, p.length⟩ ci).getD i none).map
        (fun cj => avg (cellPts (p.map (V3.smul k)) (cells.getD cj [])))) =
      fun i => (((C15.cellNbrs ⟨C15.hexKind, cells, p.length⟩ ci).getD i none).map
        (fun cj => avg (cellPts p (cells.getD cj [])))).map (V3.smul k) := by
    funext i; exact nb_smul _ p ci i k
  simp only [C15.hexKind] at hnb
  rw [hnb]
  exact sigHexWith_smul _ _ _ _ k hk (fun s hs => (T_C14_tables.1.1 s hs).1)

/-- non-vacuity: two stacked unit cubes form a well-formed grid; the upper one is the top neighbour of the lower -/
example : C15.cellNbrs ⟨C15.hexKind, [[0, 1, 2, 3, 4, 5, 6, 7], [4, 5, 6, 7, 8, 9, 10, 11]], 12⟩ 0
    = [none, some 1, none, none, none, none] := by decide +kernel

/-! ### histories of `GridBase.update` (no memory of earlier reads) -/

/-- Whatever sequence of reads, `grid.update(i, position)` calls and whole-array writes `grid.points[:] = …` came before, a read reports for every
    cell exactly what a grid built freshly on the current points reports: the value depends on the shape
    now, not on the history of moves. -/
theorem T_C14_history (g : C15.Grid) (p : List V3) (ops : List HOp) :
    (runHist g p (ops ++ [HOp.read])).getLast? = some (cellQualities g (finalPts p ops)) := by
  unfold finalPts
  induction ops generalizing p with
  | nil => simp [runHist]
  | cons o os ih =>
    cases o with
    | read =>
      have h := ih p
      simp only [List.cons_append, runHist, List.foldl_cons, stepPts]
      rw [List.getLast?_cons_of_ne_nil ?_] <;> first | exact h | skip
      · intro hnil; rw [hnil] at h; simp at h
    | update i v =>
      simpa only [List.cons_append, runHist, List.foldl_cons, stepPts] using ih (p.set i v)
    | setAll q =>
      simpa only [List.cons_append, runHist, List.foldl_cons] using ih (stepPts p (.setAll q))

/-- … and also what a fresh grid on the rigidly moved current points reports (hexahedral grids) -/
theorem T_C14_history_rigid (cells : List (List Nat)) (p : List V3) (ops : List HOp)
    (hg : GridOk ⟨C15.hexKind, cells, p.length⟩ p 8) (w : Rat) (a t : V3) (hN : w * w + V3.dot a a ≠ 0) :
    (runHist ⟨C15.hexKind, cells, p.length⟩ p (ops ++ [HOp.read])).getLast? =
      some (cellQualities ⟨C15.hexKind, cells, p.length⟩ ((finalPts p ops).map (rigid w a t))) := by
  rw [T_C14_history]
  congr 1
  unfold cellQualities
  apply List.map_congr_left
  intro ci hci
  have hlen := finalPts_length p ops
  have hg' : GridOk ⟨C15.hexKind, cells, (finalPts p ops).length⟩ (finalPts p ops) 8 := by
    refine ⟨hg.1, fun c hc => ⟨(hg.2 c hc).1, fun i hi => ?_⟩⟩
    rw [hlen]; exact (hg.2 c hc).2 i hi
  have h := T_C14_rigid_grid cells (finalPts p ops) ci (List.mem_range.mp hci) hg' w a t hN
  rw [hlen] at h
  rw [h]

/-- the same for quadrilateral grids: after any history — including one that rotated all points of the grid out
    of their original plane, point by point or at once — a read equals a fresh grid on rigidly moved points -/
theorem T_C14_history_rigid_quad (cells : List (List Nat)) (p : List V3) (ops : List HOp)
    (hg : GridOk ⟨C15.quadKind, cells, p.length⟩ p 4) (w : Rat) (a t : V3) (hN : w * w + V3.dot a a ≠ 0) :
    (runHist ⟨C15.quadKind, cells, p.length⟩ p (ops ++ [HOp.read])).getLast? =
      some (cellQualities ⟨C15.quadKind, cells, p.length⟩ ((finalPts p ops).map (rigid w a t))) := by
  rw [T_C14_history]
  congr 1
  unfold cellQualities
  apply List.map_congr_left
  intro ci hci
  have hlen := finalPts_length p ops
  have hg' : GridOk ⟨C15.quadKind, cells, (finalPts p ops).length⟩ (finalPts p ops) 4 := by
    refine ⟨hg.1, fun c hc => ⟨(hg.2 c hc).1, fun i hi => ?_⟩⟩
    rw [hlen]; exact (hg.2 c hc).2 i hi
  have h := T_C14_rigid_grid_quad cells (finalPts p ops) ci (List.mem_range.mp hci) hg' w a t hN
  rw [hlen] at h
  rw [h]

/-- non-vacuity: a history that moves a point of the lower of two stacked cubes and reads in between -/
example : finalPts [⟨0, 0, 0⟩, ⟨1, 0, 0⟩] [HOp.read, HOp.update 0 ⟨1 / 4, 0, 0⟩, HOp.read, HOp.update 1 ⟨2, 0, 0⟩]
    = [⟨1 / 4, 0, 0⟩, ⟨2, 0, 0⟩] := by decide +kernel

/-! ### rotational renumbering of a planar convex quadrilateral -/

/-- For a quadrilateral in any plane `o + x·u + y·v` whose four corner turns have the same sign (convex),
    each of the three non-trivial cyclic renumberings (new corner `k` = old corner `k+r`, neighbours follow
    their sides) only rotates the lists of the scale-free signature; the canonical scale-free signature
    and the idealised value are unchanged.  (`QuadCell.normal` is taken at corner 0, so the *raw* signature
    changes by the positive factor turn(r)/turn(0); the quad code has no guard on these entries.) -/
theorem T_C14_renumber_quad (o u v : V3) (x0 y0 x1 y1 x2 y2 x3 y3 : Rat) (nb : Nat → Option V3)
    (h01 : 0 < turn x1 y1 x2 y2 x0 y0 * turn x0 y0 x1 y1 x3 y3)
    (h12 : 0 < turn x2 y2 x3 y3 x1 y1 * turn x1 y1 x2 y2 x0 y0)
    (h23 : 0 < turn x3 y3 x0 y0 x2 y2 * turn x2 y2 x3 y3 x1 y1) :
    let P0 := planePt o u v x0 y0; let P1 := planePt o u v x1 y1
    let P2 := planePt o u v x2 y2; let P3 := planePt o u v x3 y3
    let s := sigQuad [P0, P1, P2, P3] nb
    let s1 := sigQuad [P1, P2, P3, P0] (fun i => nb ((i + 1) % 4))
    let s2 := sigQuad [P2, P3, P0, P1] (fun i => nb ((i + 2) % 4))
    let s3 := sigQuad [P3, P0, P1, P2] (fun i => nb ((i + 3) % 4))
    (s1.norm.tris = rollL s.norm.tris ∧ s1.norm.corners = rollL s.norm.corners ∧ s1.norm.aspect2 = s.norm.aspect2) ∧
    s1.norm.canon = s.norm.canon ∧ s2.norm.canon = s.norm.canon ∧ s3.norm.canon = s.norm.canon ∧
    quality0 s1 = quality0 s ∧ quality0 s2 = quality0 s ∧ quality0 s3 = quality0 s := by
  intro P0 P1 P2 P3 s s1 s2 s3
  have r1 := sigQuad_roll P0 P1 P2 P3 (V3.cross u v) _ _ (planar_cross o u v x0 y0 x1 y1 x3 y3)
    (planar_cross o u v x1 y1 x2 y2 x0 y0) h01 nb
  have r2 := sigQuad_roll P1 P2 P3 P0 (V3.cross u v) _ _ (planar_cross o u v x1 y1 x2 y2 x0 y0)
    (planar_cross o u v x2 y2 x3 y3 x1 y1) h12 (fun i => nb ((i + 1) % 4))
  rw [shift_nb2] at r2
  have r3 := sigQuad_roll P2 P3 P0 P1 (V3.cross u v) _ _ (planar_cross o u v x2 y2 x3 y3 x1 y1)
    (planar_cross o u v x3 y3 x0 y0 x2 y2) h23 (fun i => nb ((i + 2) % 4))
  rw [shift_nb3] at r3
  have q1 := quality0_of_roll s1 s r1.1 r1.2.1 r1.2.2
  have q2 := quality0_of_roll s2 s1 r2.1 r2.2.1 r2.2.2
  have q3 := quality0_of_roll s3 s2 r3.1 r3.2.1 r3.2.2
  exact ⟨r1, q1.1, q2.1.trans q1.1, q3.1.trans (q2.1.trans q1.1), q1.2, q2.2.trans q1.2,
    q3.2.trans (q2.2.trans q1.2)⟩

/-- non-vacuity: a convex kite in the plane z = x + 1 (all four turns positive) -/
example : 0 < turn 2 0 1 3 0 0 * turn 0 0 2 0 (-1) 1 ∧ 0 < turn 1 3 (-1) 1 2 0 * turn 2 0 1 3 0 0 ∧
    0 < turn (-1) 1 0 0 1 3 * turn 1 3 (-1) 1 2 0 := by decide +kernel

/-! ### stretching a cube into a box -/

/-- The scale-free signature of the cuboid `a × b × c` (any position and orientation by `T_C14_rigid`):
    all 24 triangle normals are parallel to their centre-to-centre vector, all 24 corners are right
    angles — exactly the entries of the cube — and the aspect entry is (longest/shortest)², a symmetric
    function of (a, b, c). -/
theorem T_C14_box (a b c : Rat) (ha : 0 < a) (hb : 0 < b) (hc : 0 < c) :
    (sigHex (box a b c) (fun _ => none)).norm =
      ⟨List.replicate 24 ⟨1, 1⟩, List.replicate 24 ⟨0, 0⟩,
        max (max (a * a) (b * b)) (c * c) / min (min (a * a) (b * b)) (c * c)⟩ := box_sig0 a b c ha hb hc

/-- Stretching the cube of side `L` by the factor `s ≥ 1` along any one of its three directions gives the
    same scale-free signature whichever direction is chosen: the cube's angle entries and the aspect
    entry `s²` — which does not decrease when `s` grows; hence equal idealised values for the three
    directions.  (That the value then does not decrease is `T_C14_stretch_value` / `T_C14_stretch_aspect_term`: for every
    aspect term that is monotone, in particular `q_scale₂ ∘ log10 ∘ √` with the regenerated constants.) -/
theorem T_C14_stretch (L s : Rat) (hL : 0 < L) (hs : 1 ≤ s) :
    let cube := ⟨List.replicate 24 ⟨1, 1⟩, List.replicate 24 ⟨0, 0⟩, s * s⟩
    (sigHex (box (s * L) L L) (fun _ => none)).norm = cube ∧
    (sigHex (box L (s * L) L) (fun _ => none)).norm = cube ∧
    (sigHex (box L L (s * L)) (fun _ => none)).norm = cube ∧
    quality0 (sigHex (box (s * L) L L) (fun _ => none)) = quality0 (sigHex (box L (s * L) L) (fun _ => none)) ∧
    quality0 (sigHex (box (s * L) L L) (fun _ => none)) = quality0 (sigHex (box L L (s * L)) (fun _ => none)) ∧
    (∀ s' : Rat, s ≤ s' → s * s ≤ s' * s') := by
  have hs0 : 0 < s := lt_of_lt_of_le one_pos hs
  have hsL : 0 < s * L := mul_pos hs0 hL
  have hLL : 0 < L * L := mul_pos hL hL
  have h1 : L ≤ s * L := by nlinarith
  have hle : L * L ≤ s * L * (s * L) := mul_le_mul h1 h1 (le_of_lt hL) (le_of_lt hsL)
  have hasp : s * L * (s * L) / (L * L) = s * s := by field_simp
  have e1 := T_C14_box (s * L) L L hsL hL hL
  have e2 := T_C14_box L (s * L) L hL hsL hL
  have e3 := T_C14_box L L (s * L) hL hL hsL
  rw [max_eq_left hle, max_eq_left hle, min_eq_right hle, min_self, hasp] at e1
  rw [max_eq_right hle, max_eq_left hle, min_eq_left hle, min_self, hasp] at e2
  rw [max_self, max_eq_right hle, min_self, min_eq_left hle, hasp] at e3
  refine ⟨e1, e2, e3, ?_, ?_, ?_⟩
  · unfold quality0; rw [e1, e2]
  · unfold quality0; rw [e1, e3]
  · intro s' h; nlinarith

/-- the same for a square stretched into a rectangle (quad cell) -/
theorem T_C14_stretch_quad (L s : Rat) (hL : 0 < L) (hs : 1 ≤ s) :
    let sq := ⟨List.replicate 4 ⟨1, 1⟩, List.replicate 4 ⟨0, 0⟩, s * s⟩
    (sigQuad (rect (s * L) L) (fun _ => none)).norm = sq ∧
    (sigQuad (rect L (s * L)) (fun _ => none)).norm = sq ∧
    quality0 (sigQuad (rect (s * L) L) (fun _ => none)) = quality0 (sigQuad (rect L (s * L)) (fun _ => none)) := by
  have hs0 : 0 < s := lt_of_lt_of_le one_pos hs
  have hsL : 0 < s * L := mul_pos hs0 hL
  have h1 : L ≤ s * L := by nlinarith
  have hle : L * L ≤ s * L * (s * L) := mul_le_mul h1 h1 (le_of_lt hL) (le_of_lt hsL)
  have hasp : s * L * (s * L) / (L * L) = s * s := by field_simp
  have e1 := rect_sig0 (s * L) L hsL hL
  have e2 := rect_sig0 L (s * L) hL hsL
  rw [max_eq_left hle, min_eq_right hle, hasp] at e1
  rw [max_eq_right hle, min_eq_left hle, hasp] at e2
  exact ⟨e1, e2, by unfold quality0; rw [e1, e2]⟩

/-- non-vacuity / sanity: the model's signature of the 5:1:1 box -/
example : (sigHex (box 5 1 1) (fun _ => none)).norm.aspect2 = 25 ∧
    (sigHex (box 1 5 1) (fun _ => none)).norm.aspect2 = 25 := by decide +kernel

/-! ### the `VSMALL` guard under scaling: a bound instead of an exclusion -/

/-- The exact signature of a hexahedron scaled by `k` (neighbour centres scaled with it), entry by entry: a triangle
    entry `(n·c, |n|², |c|²)` becomes `(k³·n·c, k⁴·|n|², k²·|c|²)` (the normal is a cross product of two lengths), a
    corner entry and every squared edge length are multiplied by `k²`. -/
theorem T_C14_scale_entries (pts : List V3) (nb : Nat → Option V3) (k : Rat) :
    sigHex (pts.map (V3.smul k)) (fun i => (nb i).map (V3.smul k)) =
      ⟨(sigHex pts nb).tris.map (Tri.scale (k * k) k), (sigHex pts nb).corners.map (Tri.scale k k),
       (sigHex pts nb).edges.map (fun x => (k * k) * x)⟩ :=
  sigHexWith_smul_entries CBV.Gen.hexSideIdx CBV.Gen.hexAspectPairs pts nb k (fun s hs => (T_C14_tables.1.1 s hs).1)

/-- **Scale invariance with the guard, as a bound.**  In any linearly ordered field (ℚ, ℝ), with `a = |n|`, `b = |c|`
    (resp. the two side lengths at a corner, resp. longest / shortest edge) the norms of the *unscaled* cell and `e`
    the guard (`VSMALL`): the guarded quantities `CellBase.quality` forms for the cell scaled by `k > 0` — whose
    entries are those of `T_C14_scale_entries`, i.e. norms `k²a, kb`, `ka, kb`, `k·edge` — differ from the unguarded,
    scale-free ones by at most
    * `e / (k²·a)` for the cosine of a triangle normal against the centre-to-centre vector,
    * `e / (k·a) + e / (k·b)` for the cosine of a corner angle,
    * the relative amount `e / (k·min edge)` (and never upwards) for the aspect ratio,
    so the dependence on size vanishes like `1/k` as the cell grows ("for sizes well above the guard"), and is as
    large as the quantity itself when `k·min edge ≈ e`. -/
theorem T_C14_guard_scale {K : Type} [Field K] [LinearOrder K] [IsStrictOrderedRing K]
    (nc a b e k : K) (hk : 0 < k) (ha : 0 < a) (hb : 0 < b) (he : 0 ≤ e) (hcs : |nc| ≤ a * b) :
    |gcos (k * k * k * nc) (k * k * a) (k * b) e - gcos nc a b 0| ≤ e / (k * k * a) ∧
    |gcorner (k * k * nc) (k * a) (k * b) e - gcorner nc a b 0| ≤ e / (k * a) + e / (k * b) ∧
    (∀ smax, 0 ≤ smax →
      gaspect (k * smax) (k * a) e ≤ gaspect smax a 0 ∧
      gaspect smax a 0 - gaspect (k * smax) (k * a) e ≤ gaspect smax a 0 * (e / (k * a))) := by
  have hkk : 0 < k * k := mul_pos hk hk
  refine ⟨?_, ?_, fun smax hmax => ?_⟩
  · rw [gcos_scale nc a b e k hk]
    exact (gcos_guard_bound nc a b (e / (k * k)) ha hb (div_nonneg he (le_of_lt hkk)) hcs).trans_eq (div_div _ _ _)
  · rw [gcorner_scale nc a b e k hk]
    exact (gcorner_guard_bound nc a b (e / k) ha hb (div_nonneg he (le_of_lt hk)) hcs).trans_eq
      (by rw [div_div, div_div])
  · rw [gaspect_scale smax a e k hk]
    have h := gaspect_guard_bound smax a (e / k) hmax ha (div_nonneg he (le_of_lt hk))
    rw [div_div] at h
    exact h

/-- non-vacuity, with the guard of the source (`VSMALL = 1e-6`, `T_C14_tables`): unit cube face (`|n| = 1/2`,
    `|c| = 1/2`, `n·c = 1/4`), scaled by 100: the guarded cosine is within `2·10⁻¹⁰` of 1; scaled by 1/1000 it is
    `1/3` — the same cell, three times as "non-orthogonal" -/
example : |gcos (100 * 100 * 100 * (1 / 4 : Rat)) (100 * 100 * (1 / 2)) (100 * (1 / 2)) (1 / 1000000) - 1| ≤ 2 / 10000000000 ∧
    gcos ((1 / 1000) * (1 / 1000) * (1 / 1000) * (1 / 4 : Rat)) ((1 / 1000) * (1 / 1000) * (1 / 2)) ((1 / 1000) * (1 / 2))
      (1 / 1000000) = 1 / 3 := by
  unfold gcos; norm_num [abs_le]

/-! ### quadrilaterals: the exact domain of the renumbering clause -/

/-- The domain, stated through the corner normals (no plane parametrisation): whenever the normals at two
    consecutive corners, `(P1-P0)×(P3-P0)` and `(P2-P1)×(P0-P1)`, are *positive* multiples of one vector, moving the
    first corner to the end only rotates the lists of the scale-free signature.  All four corner normals are
    positive multiples of one vector exactly for the planar, strictly convex quadrilaterals (`T_C14_renumber_quad`). -/
theorem T_C14_renumber_quad_normals (P0 P1 P2 P3 W : V3) (D0 D1 : Rat)
    (h0 : V3.cross (P1 - P0) (P3 - P0) = V3.smul D0 W) (h1 : V3.cross (P2 - P1) (P0 - P1) = V3.smul D1 W)
    (hpos : 0 < D1 * D0) (nb : Nat → Option V3) :
    let s := sigQuad [P0, P1, P2, P3] nb
    let s1 := sigQuad [P1, P2, P3, P0] (fun i => nb ((i + 1) % 4))
    s1.norm.tris = rollL s.norm.tris ∧ s1.norm.corners = rollL s.norm.corners ∧ s1.norm.aspect2 = s.norm.aspect2 ∧
      s1.norm.canon = s.norm.canon ∧ quality0 s1 = quality0 s := by
  intro s s1
  have r := sigQuad_roll P0 P1 P2 P3 W D0 D1 h0 h1 hpos nb
  have q := quality0_of_roll s1 s r.1 r.2.1 r.2.2
  exact ⟨r.1, r.2.1, r.2.2, q.1, q.2⟩

theorem canon0_ne_of_mem (s s' : Sig0) (t : Tri0) (h1 : t ∈ s'.tris) (h2 : t ∉ s.tris) : s'.canon ≠ s.canon := by
  intro h
  have ht : s'.tris.mergeSort Tri0.le = s.tris.mergeSort Tri0.le := congrArg Sig0.tris h
  have p1 := List.mergeSort_perm s'.tris Tri0.le
  have p2 := List.mergeSort_perm s.tris Tri0.le
  exact h2 (p2.mem_iff.mp (ht ▸ p1.mem_iff.mpr h1))

/-- a planar quadrilateral with a reflex corner at `(1,1)` -/
def concaveQuad : List V3 := [⟨0, 0, 0⟩, ⟨4, 0, 0⟩, ⟨1, 1, 0⟩, ⟨0, 4, 0⟩]
/-- the unit square with one corner lifted out of the plane -/
def twistedQuad : List V3 := [⟨0, 0, 0⟩, ⟨1, 0, 0⟩, ⟨1, 1, 1⟩, ⟨0, 1, 0⟩]

/-- **Outside the domain the value depends on the numbering** (so the hypotheses of `T_C14_renumber_quad` cannot be
    dropped): for a planar *concave* quadrilateral started at the reflex corner, and for a *non-planar* (twisted)
    quadrilateral started at the next corner, the canonical scale-free signature differs from that of the original
    numbering (the model's values: 5251 vs 182745 resp. 26.8 vs 34.6). -/
theorem T_C14_renumber_quad_counterexamples :
    (sigQuad (rollL (rollL concaveQuad)) (fun _ => none)).norm.canon ≠ (sigQuad concaveQuad (fun _ => none)).norm.canon ∧
    (sigQuad (rollL twistedQuad) (fun _ => none)).norm.canon ≠ (sigQuad twistedQuad (fun _ => none)).norm.canon ∧
    turn 1 1 0 4 4 0 * turn 4 0 1 1 0 0 < 0 := by
  refine ⟨canon0_ne_of_mem _ _ ⟨1, 4 / 85⟩ (by decide +kernel) (by decide +kernel),
    canon0_ne_of_mem _ _ ⟨1, 3 / 5⟩ (by decide +kernel) (by decide +kernel), by decide +kernel⟩

/-! ### tie to the source text -/

/-- The statement skeletons of the methods on the execution path of `CellBase.quality` and `GridBase.quality` /
    `update`, regenerated from the *current* source with `ast` on every run (`cbv/tables/c14.py`; one string per
    statement, `depth:text`, locals renamed a0, a1, …), are the ones the model (`hexSide`, `quadSide`, `c2c`, `G`,
    `degenerate`, `cellQualities`, `junctionQuality`) was transcribed from: the neighbour-or-side-centre choice of
    `c2c`, the clip before `arccos`, the three `q_scale` terms (their constants are tied by value: `T_C14_qscale_tie`), `min edge + VSMALL`, the `RuntimeWarning → ValueError` conversion; `edge_pairs`
    in `get_edge_lengths`; corners 0, 1, 3 of `QuadCell.normal`; `(i-1) % 4, i, (i+1) % 4` of the quad corner angle;
    the `np.roll(±1)` and the `+ VSMALL` guards of the hexahedron's normals and corner sides.  A change of any of
    these breaks this proof obligation. -/
theorem T_C14_source_skeleton :
    CBV.Gen.c14SrcQuality =
      ["def quality(self)",
       "0:a0 = 0",
       "0:a1 = self.center",
       "0:def q_scale(a2, a3, a4, a5)",
       "1:return a4 * a2 ** (a3 * a5) - a4",
       "0:try",
       "1:warnings.filterwarnings('error')",
       "1:for (a6, a7) in self.neighbours.items()",
       "2:a8 = self.side_names.index(a6)",
       "2:if a7 is None",
       "3:a9 = a1 - self.get_side_center(a8)",
       "2:else",
       "3:a9 = a1 - a7.center",
       "2:a10 = a9 / np.linalg.norm(a9)",
       "2:a11 = 180 * np.arccos(np.clip(np.dot(self.get_side_normals(a8), a10), -1.0, 1.0)) / np.pi",
       "2:a0 += np.sum(q_scale(#, #, #, a11))",
       "2:a0 += np.sum(q_scale(#, #, #, abs(self.get_inner_angles(a8))))",
       "1:a12 = self.get_edge_lengths()",
       "1:a13 = max(a12)",
       "1:a14 = min(a12) + VSMALL",
       "1:a15 = np.log10(a13 / a14)",
       "1:a0 += np.sum(q_scale(#, #, #, a15))",
       "0:except RuntimeWarning",
       "1:raise ValueError(f'Degenerate Cell: {self}') from RuntimeWarning",
       "0:finally",
       "1:warnings.resetwarnings()",
       "0:return a0"] ∧
    CBV.Gen.c14SrcEdgeLengths =
      ["def get_edge_lengths(self)",
       "0:a0 = self.points",
       "0:return np.array([f.norm(a0[a1[1]] - a0[a1[0]]) for a1 in self.edge_pairs])"] ∧
    CBV.Gen.c14SrcPoints =
      ["def points(self)",
       "0:return np.take(self.grid_points, self.indexes, axis=0)"] ∧
    CBV.Gen.c14SrcCenter =
      ["def center(self)",
       "0:return np.average(self.points, axis=0)"] ∧
    CBV.Gen.c14SrcSidePoints =
      ["def get_side_points(self, a0)",
       "0:return np.take(self.points, self.side_indexes[a0], axis=0)"] ∧
    CBV.Gen.c14SrcSideCenter =
      ["def get_side_center(self, a0)",
       "0:return np.average(self.get_side_points(a0), axis=0)"] ∧
    CBV.Gen.c14SrcQuadNormal =
      ["def normal(self)",
       "0:a0 = self.points",
       "0:return np.cross(a0[1] - a0[0], a0[3] - a0[0])"] ∧
    CBV.Gen.c14SrcQuadSideNormals =
      ["def get_side_normals(self, a0)",
       "0:a1 = self.get_side_points(a0)",
       "0:a2 = a1[1] - a1[0]",
       "0:a3 = np.cross(self.normal, a2)",
       "0:return [f.unit_vector(a3)]"] ∧
    CBV.Gen.c14SrcQuadInnerAngles =
      ["def get_inner_angles(self, a0)",
       "0:a1 = np.take(self.points, ((a0 - 1) % 4, a0, (a0 + 1) % 4), axis=0)",
       "0:a2 = f.unit_vector(a1[2] - a1[1])",
       "0:a3 = f.unit_vector(a1[0] - a1[1])",
       "0:return np.expand_dims(180 * np.arccos(np.clip(np.dot(a2, a3), -1.0, 1.0)) / np.pi - 90, axis=0)"] ∧
    CBV.Gen.c14SrcHexSideNormals =
      ["def get_side_normals(self, a0)",
       "0:a1 = self.get_side_center(a0)",
       "0:a2 = self.get_side_points(a0)",
       "0:a3 = a2 - a1",
       "0:a4 = np.roll(a2, -1, axis=0) - a1",
       "0:a5 = np.cross(a3, a4)",
       "0:a6 = np.linalg.norm(a5, axis=1) + VSMALL",
       "0:return a5 / a6[:, np.newaxis]"] ∧
    CBV.Gen.c14SrcHexInnerAngles =
      ["def get_inner_angles(self, a0)",
       "0:a1 = self.get_side_points(a0)",
       "0:a2 = np.roll(a1, -1, axis=0) - a1",
       "0:a3 = np.linalg.norm(a2, axis=1) + VSMALL",
       "0:a2 = a2 / a3[:, np.newaxis]",
       "0:a4 = np.roll(a1, 1, axis=0) - a1",
       "0:a5 = np.linalg.norm(a4, axis=1) + VSMALL",
       "0:a4 = a4 / a5[:, np.newaxis]",
       "0:a6 = np.sum(a2 * a4, axis=1)",
       "0:return 180 * np.arccos(np.clip(a6, -1.0, 1.0)) / np.pi - 90"] ∧
    CBV.Gen.c14SrcGridQuality =
      ["def quality(self)",
       "0:return sum([a0.quality for a0 in self.cells])"] ∧
    CBV.Gen.c14SrcJunctionQuality =
      ["def quality(self)",
       "0:return sum([a0.quality for a0 in self.cells]) / len(self.cells)"] ∧
    CBV.Gen.c14SrcGridUpdate =
      ["def update(self, a0, a1)",
       "0:self.points[a0] = a1",
       "0:a2 = self.junctions[a0]",
       "0:if len(a2.links) > 0",
       "1:for a3 in a2.links",
       "2:a3.link.leader = a1",
       "2:a3.link.update()",
       "2:self.points[a3.follower_index] = a3.link.follower",
       "1:return self.quality",
       "0:return a2.quality"] := by
  decide

/-- **Interpreted tie of the weighting constants.**  The `(base, exponent, factor)` triples of the three `q_scale(…)` calls
    of `CellBase.quality` and `VSMALL` are read off the current source on every run (`c14QScale`, `c14Vsmall`, exact
    values of the floats) and the model's `G` / `G0` compute with them (`qsAt`, `vsmall`) — nothing is pinned.  What the
    property needs of them holds for the regenerated values: there are exactly three triples of three constants, every
    base is `> 1` and every exponent and factor `> 0` — each term `factor·base^(exponent·x) − factor` is zero at `x = 0`
    and increasing in `x` (so a larger angle defect or aspect ratio never lowers the value) — and the guard is positive. -/
theorem T_C14_qscale_tie :
    qTablesOk = true ∧
    (∀ t ∈ CBV.Gen.c14QScale, ∀ b e f, t = [b, e, f] →
      (1 : Rat) < mkRat b.1 b.2 ∧ (0 : Rat) < mkRat e.1 e.2 ∧ (0 : Rat) < mkRat f.1 f.2) ∧
    (0 : Rat) < mkRat CBV.Gen.c14Vsmall.1 CBV.Gen.c14Vsmall.2 := by
  refine ⟨by decide +kernel, ?_, by decide +kernel⟩
  intro t ht b e f h
  have hall : CBV.Gen.c14QScale.all (fun t => match t with
      | [b, e, f] => decide ((1 : Rat) < mkRat b.1 b.2) && decide ((0 : Rat) < mkRat e.1 e.2) && decide ((0 : Rat) < mkRat f.1 f.2)
      | _ => false) = true := by decide +kernel
  have := List.all_eq_true.mp hall t ht
  subst h
  simp only [Bool.and_eq_true, decide_eq_true_eq] at this
  exact ⟨this.1.1, this.1.2, this.2⟩

/-- the model's functions are the ones that use the regenerated constants, for every signature -/
theorem T_C14_qscale_model (quad : Bool) (eps : Float) (s : Sig) :
    G quad eps s =
      fsum (s.tris.map (fun t => qScaleWith (qsAt 0) (degOfCos
        (if quad then ratToFloat t.nc / (Float.sqrt (ratToFloat t.nn) * Float.sqrt (ratToFloat t.cc))
         else ratToFloat t.nc / ((Float.sqrt (ratToFloat t.nn) + eps) * Float.sqrt (ratToFloat t.cc)))))) +
      fsum (s.corners.map (fun t => qScaleWith (qsAt 1) (Float.abs (degOfCos
        (if quad then ratToFloat t.nc / (Float.sqrt (ratToFloat t.nn) * Float.sqrt (ratToFloat t.cc))
         else ratToFloat t.nc / ((Float.sqrt (ratToFloat t.nn) + eps) * (Float.sqrt (ratToFloat t.cc) + eps))) - 90.0)))) +
      qScaleWith (qsAt 2) (Float.log10 (Float.sqrt (ratToFloat (maxL s.edges)) / (Float.sqrt (ratToFloat (minL s.edges)) + eps))) := rfl

/-! ### the float post-processing as an abstract contract -/

/-- **The guard bounds transfer to the value** for every Lipschitz post-processing.  `tris`, `corners`: the entries
    `(n·c, |n|, |c|)` resp. `(s₁·s₂, |s₁|, |s₂|)` of the unscaled cell with positive norms and `|n·c| ≤ |n||c|`; `smax`, `smin`
    its longest / shortest edge; `A`, `B`, `C` the three term functions (in the code `q_scale ∘ deg ∘ acos`,
    `q_scale ∘ |deg ∘ acos − 90|`, `q_scale ∘ log10`), assumed `L`-Lipschitz on the arguments.  Then the value the code forms
    for the cell scaled by `k > 0` *with* the guard `e` differs from the guard-free, scale-free value by at most
    `L·(Σ e/(k²|n|) + Σ (e/(k|s₁|) + e/(k|s₂|)) + (smax/smin)·e/(k·smin))` — explicit, and `O(1/k)`. -/
theorem T_C14_guard_value (A B C : Rat → Rat) (L : Rat) (hL0 : 0 ≤ L)
    (hA : ∀ x y, |A x - A y| ≤ L * |x - y|) (hB : ∀ x y, |B x - B y| ≤ L * |x - y|)
    (hC : ∀ x y, |C x - C y| ≤ L * |x - y|)
    (tris corners : List (Rat × Rat × Rat))
    (ht : ∀ t ∈ tris, 0 < t.2.1 ∧ 0 < t.2.2 ∧ |t.1| ≤ t.2.1 * t.2.2)
    (hc : ∀ t ∈ corners, 0 < t.2.1 ∧ 0 < t.2.2 ∧ |t.1| ≤ t.2.1 * t.2.2)
    (smax smin e k : Rat) (hmax : 0 ≤ smax) (hmin : 0 < smin) (he : 0 ≤ e) (hk : 0 < k) :
    |valueOf A B C (tris.map (fun t => gcos (k * k * k * t.1) (k * k * t.2.1) (k * t.2.2) e))
        (corners.map (fun t => gcorner (k * k * t.1) (k * t.2.1) (k * t.2.2) e)) (gaspect (k * smax) (k * smin) e)
      - valueOf A B C (tris.map (fun t => gcos t.1 t.2.1 t.2.2 0)) (corners.map (fun t => gcorner t.1 t.2.1 t.2.2 0))
        (gaspect smax smin 0)|
      ≤ L * ((tris.map (fun t => e / (k * k * t.2.1))).sum
             + (corners.map (fun t => e / (k * t.2.1) + e / (k * t.2.2))).sum
             + gaspect smax smin 0 * (e / (k * smin))) := by
  have h := value_lipschitz A B C L hL0 hA hB hC
    (tris.map (fun t => (gcos (k * k * k * t.1) (k * k * t.2.1) (k * t.2.2) e, gcos t.1 t.2.1 t.2.2 0, e / (k * k * t.2.1))))
    (corners.map (fun t => (gcorner (k * k * t.1) (k * t.2.1) (k * t.2.2) e, gcorner t.1 t.2.1 t.2.2 0,
      e / (k * t.2.1) + e / (k * t.2.2))))
    (gaspect (k * smax) (k * smin) e) (gaspect smax smin 0) (gaspect smax smin 0 * (e / (k * smin)))
    (by
      intro t' ht'
      obtain ⟨t, htm, rfl⟩ := List.mem_map.mp ht'
      obtain ⟨h1, h2, h3⟩ := ht t htm
      exact (T_C14_guard_scale t.1 t.2.1 t.2.2 e k hk h1 h2 he h3).1)
    (by
      intro t' ht'
      obtain ⟨t, htm, rfl⟩ := List.mem_map.mp ht'
      obtain ⟨h1, h2, h3⟩ := hc t htm
      exact (T_C14_guard_scale t.1 t.2.1 t.2.2 e k hk h1 h2 he h3).2.1)
    (by
      have h := (T_C14_guard_scale (0 : Rat) smin 1 e k hk hmin one_pos he (by simp; positivity)).2.2 smax hmax
      rw [abs_le]; constructor <;> linarith [h.1, h.2])
  simpa only [List.map_map, Function.comp_def] using h

/-- non-vacuity of the contract: the identity is 1-Lipschitz; one triangle `(1/4, 1/2, 1/2)` (a cube face), no corner -/
example : (∀ x y : Rat, |id x - id y| ≤ 1 * |x - y|) ∧
    (∀ t ∈ [((1 / 4 : Rat), (1 / 2 : Rat), (1 / 2 : Rat))], 0 < t.2.1 ∧ 0 < t.2.2 ∧ |t.1| ≤ t.2.1 * t.2.2) := by
  refine ⟨fun x y => by simp, ?_⟩
  intro t ht; simp only [List.mem_singleton] at ht; subst ht; norm_num [abs_le]

/-- **The stretch clause for every monotone post-processing.**  For arbitrary term functions `A`, `B` on the (sign,
    squared cosine) entries and every aspect term `C` that is non-decreasing on `[1, ∞)`: stretching the cube of side
    `L` by `s ≥ 1` gives the same value whichever of the three directions is stretched, and a longer stretch `s' ≥ s`
    never gives a smaller value. -/
theorem T_C14_stretch_value (A B : Tri0 → Rat) (C : Rat → Rat) (hC : ∀ x y, 1 ≤ x → x ≤ y → C x ≤ C y)
    (L s s' : Rat) (hL : 0 < L) (hs : 1 ≤ s) (hss : s ≤ s') :
    value0 A B C (sigHex (box (s * L) L L) (fun _ => none)).norm = value0 A B C (sigHex (box L (s * L) L) (fun _ => none)).norm ∧
    value0 A B C (sigHex (box (s * L) L L) (fun _ => none)).norm = value0 A B C (sigHex (box L L (s * L)) (fun _ => none)).norm ∧
    value0 A B C (sigHex (box (s * L) L L) (fun _ => none)).norm ≤ value0 A B C (sigHex (box (s' * L) L L) (fun _ => none)).norm := by
  have h1 := T_C14_stretch L s hL hs
  have h2 := T_C14_stretch L s' hL (hs.trans hss)
  simp only at h1 h2
  rw [h1.1, h1.2.1, h1.2.2.1, h2.1]
  refine ⟨rfl, rfl, ?_⟩
  unfold value0
  simp only
  have hs0 : 0 ≤ s := by linarith
  have : C (s * s) ≤ C (s' * s') := hC _ _ (by nlinarith) (by nlinarith)
  linarith

/-- **Each term of the measure is monotone, with the regenerated constants**: for every power function that is
    non-decreasing in its exponent for bases above 1 (as the real `b ^ x` is), each of the three `q_scale` terms
    `x ↦ factor·pw base (exponent·x) − factor` — with `(base, exponent, factor)` read off the current source
    (`c14QScale`, `T_C14_qscale_tie`) — is non-decreasing in `x`. -/
theorem T_C14_qscale_monotone (pw : Rat → Rat → Rat) (hpw : ∀ b, 1 < b → ∀ x y, x ≤ y → pw b x ≤ pw b y)
    (t : List (Int × Nat)) (ht : t ∈ CBV.Gen.c14QScale) (b e f : Int × Nat) (h : t = [b, e, f]) (x y : Rat) (hxy : x ≤ y) :
    qterm pw (mkRat b.1 b.2) (mkRat e.1 e.2) (mkRat f.1 f.2) x ≤ qterm pw (mkRat b.1 b.2) (mkRat e.1 e.2) (mkRat f.1 f.2) y := by
  obtain ⟨hb, he, hf⟩ := T_C14_qscale_tie.2.1 t ht b e f h
  exact qterm_mono pw hpw _ _ _ hb he hf x y hxy

/-- … and so the stretch clause holds for the aspect term the code actually uses: `q_scale₂ ∘ lg` with the third
    regenerated constant triple, for every power function monotone in the exponent and every `lg` non-decreasing on
    `[1, ∞)` (as `x ↦ log10 √x` is), whatever the angle terms are. -/
theorem T_C14_stretch_aspect_term (pw : Rat → Rat → Rat) (hpw : ∀ b, 1 < b → ∀ x y, x ≤ y → pw b x ≤ pw b y)
    (lg : Rat → Rat) (hlg : ∀ x y, 1 ≤ x → x ≤ y → lg x ≤ lg y)
    (b e f : Int × Nat) (h2 : CBV.Gen.c14QScale[2]? = some [b, e, f])
    (A B : Tri0 → Rat) (L s s' : Rat) (hL : 0 < L) (hs : 1 ≤ s) (hss : s ≤ s') :
    let C := fun a2 => qterm pw (mkRat b.1 b.2) (mkRat e.1 e.2) (mkRat f.1 f.2) (lg a2)
    value0 A B C (sigHex (box (s * L) L L) (fun _ => none)).norm = value0 A B C (sigHex (box L (s * L) L) (fun _ => none)).norm ∧
    value0 A B C (sigHex (box (s * L) L L) (fun _ => none)).norm = value0 A B C (sigHex (box L L (s * L)) (fun _ => none)).norm ∧
    value0 A B C (sigHex (box (s * L) L L) (fun _ => none)).norm ≤ value0 A B C (sigHex (box (s' * L) L L) (fun _ => none)).norm := by
  intro C
  apply T_C14_stretch_value A B C _ L s s' hL hs hss
  intro x y hx hxy
  exact T_C14_qscale_monotone pw hpw _ (List.mem_of_getElem? h2) b e f rfl _ _ (hlg x y hx hxy)

/-- non-vacuity: the third regenerated triple is `(3, 5/2, 3)`; `pw b x := b·x` is monotone in `x` for `b > 1` -/
example : CBV.Gen.c14QScale[2]? = some [(3, 1), (5, 2), (3, 1)] ∧
    (∀ b : Rat, 1 < b → ∀ x y, x ≤ y → b * x ≤ b * y) :=
  ⟨by decide, fun b hb x y h => mul_le_mul_of_nonneg_left h (by linarith)⟩

/-- the same for a square stretched into a rectangle (quad cell), for every monotone aspect term -/
theorem T_C14_stretch_value_quad (A B : Tri0 → Rat) (C : Rat → Rat) (hC : ∀ x y, 1 ≤ x → x ≤ y → C x ≤ C y)
    (L s s' : Rat) (hL : 0 < L) (hs : 1 ≤ s) (hss : s ≤ s') :
    value0 A B C (sigQuad (rect (s * L) L) (fun _ => none)).norm = value0 A B C (sigQuad (rect L (s * L)) (fun _ => none)).norm ∧
    value0 A B C (sigQuad (rect (s * L) L) (fun _ => none)).norm ≤ value0 A B C (sigQuad (rect (s' * L) L) (fun _ => none)).norm := by
  have h1 := T_C14_stretch_quad L s hL hs
  have h2 := T_C14_stretch_quad L s' hL (hs.trans hss)
  simp only at h1 h2
  rw [h1.1, h1.2.1, h2.1]
  refine ⟨rfl, ?_⟩
  unfold value0
  simp only
  have : C (s * s) ≤ C (s' * s') := hC _ _ (by nlinarith) (by nlinarith)
  linarith

end CBV.C14
