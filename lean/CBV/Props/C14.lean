/- C14 — property theorems (work in progress). -/
import CBV.Model.C14

namespace CBV.C14

end CBV.C14
