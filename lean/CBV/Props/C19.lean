/-
C19 — property theorems: grid, slice and core/shell addressing is geometric.

For all sizes (induction / list lemmas on the loops of `Grid.__init__`, `LoftedShape.__init__`,
`TransformedStack.__init__`, `Stack.get_slice`):
* `T_C19_grid_sketch`  `Grid(nx, ny).grid[j][i]` is the face over column i, row j;
* `T_C19_lofted`       `LoftedShape.grid[i][j]` is the loft of `sketch_1.grid[i][j]` and its image, for every sketch;
* `T_C19_grid`         `stack.grid[k][j][i]` is the operation over column i, row j, on tier k;
* `T_C19_slice`        `get_slice(a, idx)` holds exactly the operations whose index along `a` is `idx`, each once;
* `T_C19_slice_reject` an index beyond the size is an IndexError;
* `T_C19_delete`       removing `grid[k][j][i]` from `stack.operations` removes that one operation and no other.
By `decide` on the tables regenerated from the source at every run:
* `T_C19_core_shell`, `T_C19_shape_core_shell`  core ++ shell partition the faces / operations, shell = those with a point
  on the outer rim, `RoundSolidShape.core/shell` = take/drop of the flattened sketch grid;
* `T_C19_wrapped_partial` + `T_C19_wrapped_counterexample`  what holds and what does not for `WrappedDisk`.
-/
import CBV.Lemmas.C19

namespace CBV.C19

/-! ### cartesian grids, all sizes -/

/-- `Grid(p1, p2, nx, ny)`: ny rows of nx faces, `grid[j][i]` is the face over column i, row j
    (its points are the lattice nodes (i,j) (i+1,j) (i+1,j+1) (i,j+1)) -/
theorem T_C19_grid_sketch (nx ny level : Nat) :
    (gridSketch nx ny level).length = ny ∧ (∀ row ∈ gridSketch nx ny level, row.length = nx) ∧
    ∀ i j, i < nx → j < ny →
      ((gridSketch nx ny level)[j]?).bind (·[i]?) = some ⟨i, j, level⟩ ∧
      (⟨i, j, level⟩ : Face3).nodes = [(i, j), (i + 1, j), (i + 1, j + 1), (i, j + 1)] := by
  rw [gridSketch_eq]
  refine ⟨by simp, ?_, ?_⟩
  · intro row hrow
    simp only [List.mem_map, List.mem_range] at hrow
    obtain ⟨_, _, rfl⟩ := hrow
    simp
  · intro i j hi hj
    simp [hi, hj, Face3.nodes]

/-- `LoftedShape(sketch_1, sketch_2)` with `sketch_2` a transformed copy: the grid of operations has the shape of
    `sketch_1.grid` and `lofts[i][j]` is made from `sketch_1.grid[i][j]` and its image — any sketch, any sizes -/
theorem T_C19_lofted {α : Type} (τ : α → α) (g : List (List α)) :
    ∃ L : List (List (α × α)), loftedGrid g (g.map (·.map τ)) = some L ∧ L.length = g.length ∧
      ∀ i j : Nat, (L[i]?).bind (·[j]?) = ((g[i]?).bind (·[j]?)).map (fun f => (f, τ f)) := by
  refine ⟨_, loftedGrid_map τ g, by simp, ?_⟩
  intro i j
  simp only [List.getElem?_map]
  cases g[i]? with
  | none => rfl
  | some row =>
    simp only [Option.map_some, Option.bind_some, List.getElem?_map]

/-- `ExtrudedStack / RevolvedStack / TransformedStack(Grid(nx, ny), …, nz).grid[k][j][i]` is the operation whose
    bottom face is cell (i, j) on level k and whose top face is the same cell on level k+1 -/
theorem T_C19_grid (nx ny nz : Nat) :
    ∃ G, stackGrid nx ny nz = some G ∧ G.length = nz ∧
      ∀ i j k, i < nx → j < ny → k < nz →
        (((G[k]?).bind (·[j]?)).bind (·[i]?)) = some (cell i j k) ∧
        (cell i j k).bottom = ⟨i, j, k⟩ ∧ (cell i j k).top = ⟨i, j, k + 1⟩ := by
  refine ⟨_, stackGrid_eq nx ny nz, by simp, ?_⟩
  intro i j k hi hj hk
  simp [tier_eq, hi, hj, hk, cell]

/-- the index of an operation along axis 0 (column), 1 (row), 2 (tier) -/
def coord (a : Nat) (c : Loft) : Nat := if a = 0 then c.bottom.ix else if a = 1 then c.bottom.iy else c.bottom.level

def dim (nx ny nz a : Nat) : Nat := if a = 0 then nx else if a = 1 then ny else nz

/-- `get_slice(a, idx)`, a ∈ {0, 1, 2}, valid idx: exactly the operations of the stack with index `idx` along `a`, each once -/
theorem T_C19_slice (nx ny nz a idx : Nat) (ha : a ≤ 2) (hidx : idx < dim nx ny nz a) :
    ∃ G L, stackGrid nx ny nz = some G ∧ getSlice G a idx = some L ∧ L.Nodup ∧
      ∀ c, c ∈ L ↔ (c ∈ stackOps G ∧ coord a c = idx) := by
  refine ⟨_, ?_, stackGrid_eq nx ny nz, ?_⟩
  · exact if a = 0 then (List.range nz).flatMap (fun k => (List.range ny).map (fun j => cell idx j k))
      else if a = 1 then (List.range nz).flatMap (fun k => (List.range nx).map (fun i => cell i idx k))
      else (List.range ny).flatMap (fun j => (List.range nx).map (fun i => cell i j idx))
  have h3 : a = 0 ∨ a = 1 ∨ a = 2 := by omega
  rcases h3 with rfl | rfl | rfl
  · simp only [dim, if_true] at hidx
    refine ⟨by simpa using slice0_eq nx ny nz idx hidx, ?_, ?_⟩
    · simp only [if_true]
      apply nodup_flatMap_range
      · intro k; apply nodup_map_range; intro x y h; exact (cell_inj _ _ _ _ _ _ h).2.1
      · intro x y hxy c hc hc'
        simp only [List.mem_map, List.mem_range] at hc hc'
        obtain ⟨j, _, rfl⟩ := hc
        obtain ⟨j', _, h⟩ := hc'
        exact hxy (cell_inj _ _ _ _ _ _ h).2.2.symm
    · intro c
      rw [mem_stackOps]
      simp only [if_true, List.mem_flatMap, List.mem_map, List.mem_range, coord]
      constructor
      · rintro ⟨k, hk, j, hj, rfl⟩; exact ⟨⟨idx, j, k, hidx, hj, hk, rfl⟩, rfl⟩
      · rintro ⟨⟨i, j, k, hi, hj, hk, rfl⟩, h⟩
        simp only [cell] at h
        subst h
        exact ⟨k, hk, j, hj, rfl⟩
  · simp only [dim, show ¬ (1 : Nat) = 0 by decide, if_false, if_true] at hidx
    refine ⟨by simpa using slice1_eq nx ny nz idx hidx, ?_, ?_⟩
    · simp only [show ¬ (1 : Nat) = 0 by decide, if_false, if_true]
      apply nodup_flatMap_range
      · intro k; apply nodup_map_range; intro x y h; exact (cell_inj _ _ _ _ _ _ h).1
      · intro x y hxy c hc hc'
        simp only [List.mem_map, List.mem_range] at hc hc'
        obtain ⟨i, _, rfl⟩ := hc
        obtain ⟨i', _, h⟩ := hc'
        exact hxy (cell_inj _ _ _ _ _ _ h).2.2.symm
    · intro c
      rw [mem_stackOps]
      simp only [show ¬ (1 : Nat) = 0 by decide, if_false, if_true, List.mem_flatMap, List.mem_map, List.mem_range, coord]
      constructor
      · rintro ⟨k, hk, i, hi, rfl⟩; exact ⟨⟨i, idx, k, hi, hidx, hk, rfl⟩, rfl⟩
      · rintro ⟨⟨i, j, k, hi, hj, hk, rfl⟩, h⟩
        simp only [cell] at h
        subst h
        exact ⟨k, hk, i, hi, rfl⟩
  · simp only [dim, show ¬ (2 : Nat) = 0 by decide, show ¬ (2 : Nat) = 1 by decide, if_false] at hidx
    refine ⟨by simpa using slice2_eq nx ny nz idx hidx, ?_, ?_⟩
    · simp only [show ¬ (2 : Nat) = 0 by decide, show ¬ (2 : Nat) = 1 by decide, if_false]
      apply nodup_flatMap_range
      · intro j; apply nodup_map_range; intro x y h; exact (cell_inj _ _ _ _ _ _ h).1
      · intro x y hxy c hc hc'
        simp only [List.mem_map, List.mem_range] at hc hc'
        obtain ⟨i, _, rfl⟩ := hc
        obtain ⟨i', _, h⟩ := hc'
        exact hxy (cell_inj _ _ _ _ _ _ h).2.1.symm
    · intro c
      rw [mem_stackOps]
      simp only [show ¬ (2 : Nat) = 0 by decide, show ¬ (2 : Nat) = 1 by decide, if_false, List.mem_flatMap,
        List.mem_map, List.mem_range, coord]
      constructor
      · rintro ⟨j, hj, i, hi, rfl⟩; exact ⟨⟨i, j, idx, hi, hj, hidx, rfl⟩, rfl⟩
      · rintro ⟨⟨i, j, k, hi, hj, hk, rfl⟩, h⟩
        simp only [cell] at h
        subst h
        exact ⟨j, hj, i, hi, rfl⟩

/-- non-vacuity of `T_C19_slice`: a 2 x 5 grid, 3 tiers, as in the docstring of `get_slice`: 15 / 6 / 10 operations -/
example : ((stackGrid 2 5 3).bind (getSlice · 0 1)).map List.length = some 15 ∧
    ((stackGrid 2 5 3).bind (getSlice · 1 4)).map List.length = some 6 ∧
    ((stackGrid 2 5 3).bind (getSlice · 2 2)).map List.length = some 10 := by decide

/-- the rejecting branch: an index beyond the size is an IndexError, on every axis (the stack is not empty) -/
theorem T_C19_slice_reject (nx ny nz a idx : Nat) (ha : a ≤ 2) (hn : 0 < nx ∧ 0 < ny ∧ 0 < nz)
    (hidx : dim nx ny nz a ≤ idx) :
    ∃ G, stackGrid nx ny nz = some G ∧ getSlice G a idx = none := by
  refine ⟨_, stackGrid_eq nx ny nz, ?_⟩
  have h3 : a = 0 ∨ a = 1 ∨ a = 2 := by omega
  rcases h3 with rfl | rfl | rfl
  · simp only [dim, if_true] at hidx
    simp only [getSlice]
    rw [if_neg (by decide : ¬ ((0 : Nat) = 2)), if_pos trivial]
    have : allSome (((List.range nz).map (tier nx ny)).map (fun g => allSome (g.map (fun row => row[idx]?)))) = none := by
      apply allSome_none
      simp only [List.mem_map, List.mem_range]
      refine ⟨tier nx ny 0, ⟨0, hn.2.2, rfl⟩, ?_⟩
      apply allSome_none
      simp only [tier_eq, List.mem_map, List.mem_range]
      refine ⟨_, ⟨0, hn.2.1, rfl⟩, ?_⟩
      simp [hidx]
    rw [this]; rfl
  · simp only [dim, show ¬ (1 : Nat) = 0 by decide, if_false, if_true] at hidx
    simp only [getSlice]
    rw [if_neg (by decide : ¬ ((1 : Nat) = 2)), if_neg (by decide : ¬ ((1 : Nat) = 0))]
    have : allSome (((List.range nz).map (tier nx ny)).map (fun g => g[idx]?)) = none := by
      apply allSome_none
      simp only [List.mem_map, List.mem_range]
      refine ⟨tier nx ny 0, ⟨0, hn.2.2, rfl⟩, ?_⟩
      simp [tier_eq, hidx]
    rw [this]; rfl
  · simp only [dim, show ¬ (2 : Nat) = 0 by decide, show ¬ (2 : Nat) = 1 by decide, if_false] at hidx
    simp [getSlice, hidx]

/-- Deleting the addressed operation `grid[k][j][i]` from `stack.operations` (what `Mesh.delete` + assembly do,
    see `T_C12_delete`: the blocks are the operations that are not deleted) removes that operation — it occurs once —
    and no other. -/
theorem T_C19_delete (nx ny nz i j k : Nat) (hi : i < nx) (hj : j < ny) (hk : k < nz) :
    ∃ G, stackGrid nx ny nz = some G ∧ (stackOps G).Nodup ∧ (stackOps G).length = nz * (ny * nx) ∧
      cell i j k ∈ stackOps G ∧
      ((stackOps G).filter (fun o => decide (o ≠ cell i j k))).length + 1 = (stackOps G).length ∧
      ∀ o, o ∈ (stackOps G).filter (fun o => decide (o ≠ cell i j k)) ↔ (o ∈ stackOps G ∧ o ≠ cell i j k) := by
  refine ⟨_, stackGrid_eq nx ny nz, stackOps_nodup nx ny nz, ?_, ?_, ?_, ?_⟩
  · rw [stackOps_eq]
    simp [List.length_flatMap]
  · rw [mem_stackOps]; exact ⟨i, j, k, hi, hj, hk, rfl⟩
  · have hm : cell i j k ∈ stackOps ((List.range nz).map (tier nx ny)) := by
      rw [mem_stackOps]; exact ⟨i, j, k, hi, hj, hk, rfl⟩
    have hnd := stackOps_nodup nx ny nz
    have he := List.Nodup.erase_eq_filter hnd (cell i j k)
    have hl := List.length_erase_of_mem hm
    have hpos : 0 < (stackOps ((List.range nz).map (tier nx ny))).length := List.length_pos_of_mem hm
    have : (stackOps ((List.range nz).map (tier nx ny))).filter (fun o => decide (o ≠ cell i j k))
        = (stackOps ((List.range nz).map (tier nx ny))).erase (cell i j k) := by
      rw [he]
      apply List.filter_congr
      intro o _
      by_cases h : o = cell i j k <;> simp [h]
    rw [this, hl]
    omega
  · intro o
    simp [List.mem_filter]

/-- a stack and a copy of it in one mesh (`stack.copy().translate(…)`): operations are objects, a copy is another object -/
def withCopy (ops : List Loft) : List (Bool × Loft) := ops.map (fun o => (false, o)) ++ ops.map (fun o => (true, o))

/-- Deleting `copy.grid[k][j][i]` (or `stack.grid[k][j][i]`) from the operations of a stack *and its copy* removes that one
    object: its sibling at the same grid index in the other stack stays, as does everything else. -/
theorem T_C19_delete_copy (nx ny nz i j k : Nat) (which : Bool) (hi : i < nx) (hj : j < ny) (hk : k < nz) :
    ∃ G, stackGrid nx ny nz = some G ∧ (withCopy (stackOps G)).Nodup ∧
      (which, cell i j k) ∈ withCopy (stackOps G) ∧
      (!which, cell i j k) ∈ (withCopy (stackOps G)).filter (fun o => decide (o ≠ (which, cell i j k))) ∧
      ((withCopy (stackOps G)).filter (fun o => decide (o ≠ (which, cell i j k)))).length + 1 = (withCopy (stackOps G)).length ∧
      ∀ o, o ∈ (withCopy (stackOps G)).filter (fun o => decide (o ≠ (which, cell i j k))) ↔
        (o ∈ withCopy (stackOps G) ∧ o ≠ (which, cell i j k)) := by
  have hm : cell i j k ∈ stackOps ((List.range nz).map (tier nx ny)) := by
    rw [mem_stackOps]; exact ⟨i, j, k, hi, hj, hk, rfl⟩
  have hnd : (withCopy (stackOps ((List.range nz).map (tier nx ny)))).Nodup := by
    unfold withCopy
    rw [List.nodup_append]
    refine ⟨?_, ?_, ?_⟩
    · exact List.Nodup.map (fun a b h => by simpa using h) (stackOps_nodup nx ny nz)
    · exact List.Nodup.map (fun a b h => by simpa using h) (stackOps_nodup nx ny nz)
    · intro a ha b hb
      simp only [List.mem_map] at ha hb
      obtain ⟨x, _, rfl⟩ := ha
      obtain ⟨y, _, rfl⟩ := hb
      simp
  have hmem : ∀ w : Bool, (w, cell i j k) ∈ withCopy (stackOps ((List.range nz).map (tier nx ny))) := by
    intro w
    unfold withCopy
    cases w
    · exact List.mem_append_left _ (List.mem_map.mpr ⟨_, hm, rfl⟩)
    · exact List.mem_append_right _ (List.mem_map.mpr ⟨_, hm, rfl⟩)
  refine ⟨_, stackGrid_eq nx ny nz, hnd, hmem which, ?_, ?_, ?_⟩
  · simp only [List.mem_filter]
    refine ⟨hmem (!which), ?_⟩
    cases which <;> simp
  · have he := List.Nodup.erase_eq_filter hnd (which, cell i j k)
    have hl := List.length_erase_of_mem (hmem which)
    have hpos := List.length_pos_of_mem (hmem which)
    have : (withCopy (stackOps ((List.range nz).map (tier nx ny)))).filter (fun o => decide (o ≠ (which, cell i j k)))
        = (withCopy (stackOps ((List.range nz).map (tier nx ny)))).erase (which, cell i j k) := by
      rw [he]
      apply List.filter_congr
      intro o _
      by_cases h : o = (which, cell i j k) <;> simp [h]
    rw [this, hl]
    omega
  · intro o
    simp [List.mem_filter]

/-! ### round sketches and shapes: `decide` on the tables generated from the current source -/

/-! ### beyond the probe instances -/

/-- `RoundSolidShape.core / .shell` for *every* sketch whose `core` is the first row of its grid (all disk sketches), any sizes:
    `operations[:len(core)]` is exactly the first row, `operations[len(core):]` are exactly the other rows in order, and the two
    lists partition the operations. -/
theorem T_C19_core_shell_split {α : Type} (core : List α) (rest : List (List α)) :
    (operations (core :: rest)).take core.length = core ∧
    (operations (core :: rest)).drop core.length = operations rest ∧
    (operations (core :: rest)).take core.length ++ (operations (core :: rest)).drop core.length = operations (core :: rest) := by
  simp [operations]

/-- `Annulus` / `ExtrudedRing` with any number of segments n > 0: every face has a point on the outer circle, so
    `shell = all faces`, `core = []` (`RoundHollowShape.shell = operations`) is the split the property asks for — and no face
    has *only* rim points (the inner circle is not on the outer surface). -/
theorem T_C19_annulus (n k : Nat) (hk : k < n) :
    (annulusCells n).length = n ∧ touches (annulusCells n) (annulusRim n) k = true ∧
    (2 * k) ∈ (annulusCells n).getD k [] ∧ (2 * k) ∉ annulusRim n := by
  refine ⟨by simp [annulusCells], ?_, ?_, ?_⟩
  · simp only [touches, annulusCells, annulusRim]
    simp only [List.getD_eq_getElem?_getD, List.getElem?_map, List.getElem?_range hk, Option.map_some, Option.getD_some,
      List.any_cons, List.contains_eq_mem, List.mem_map, List.mem_range]
    simp
    exact Or.inr (Or.inl ⟨k, hk, rfl⟩)
  · simp [annulusCells, hk]
  · simp only [annulusRim, List.mem_map, List.mem_range, not_exists, not_and]
    intro a _
    omega

/-- non-vacuity: a ring of 6 segments, the last face closes the ring -/
example : (annulusCells 6).getD 5 [] = [10, 11, 1, 0] ∧ touches (annulusCells 6) (annulusRim 6) 5 = true := by decide

/-- the parametric annulus is the one of the source: for the sizes in the generated table (4, 8, 5 segments) its faces and
    rim, numbered by first appearance, are the table rows read off the probe instances -/
def annulusMatchesTable (n : Nat) : Bool :=
  match sketchRow? s!"Annulus{n}" with
  | some r => r.2.1 == canonCells (annulusCells n) && r.2.2.2.2.2 == canonPoints (annulusCells n) (annulusRim n) &&
      r.2.2.2.1 == [] && r.2.2.2.2.1 == List.range n
  | none => false

theorem T_C19_annulus_table : [4, 5, 8].all annulusMatchesTable = true := by decide

/-- `WrappedDisk` is a disk inside a square: its middle ring is neither in `core` nor in `shell` (see below) -/
def exceptions : List String := ["WrappedDisk", "RoundSolidShape(WrappedDisk)"]

/-- core ++ shell is a partition of the faces; the grid is a partition of the faces; a face is in `shell` iff one of its
    points is on the outer rim; `RoundSolidShape.core/shell` (take/drop on the flattened grid) are `core`/`shell` -/
def sketchOk (r : SketchRow) : Bool :=
  let n := r.2.1.length
  isPerm (operations r.2.2.1) n && isPerm (r.2.2.2.1 ++ r.2.2.2.2.1) n &&
  (List.range n).all (fun k => r.2.2.2.2.1.contains k == touches r.2.1 r.2.2.2.2.2 k) &&
  (coreShell r == (r.2.2.2.1, r.2.2.2.2.1))

theorem T_C19_core_shell :
    (CBV.Gen.c19Sketches.filter (fun r => !exceptions.contains r.1)).all sketchOk = true := by decide

/-- for a shape: core ++ shell partition the operations, an operation is in `shell` iff one of its 8 points is on the
    outer surface, the operations are the flattened sketch grid and `core`/`shell` are `RoundSolidShape.core/shell`
    of the model -/
def shapeOk (r : ShapeRow) : Bool :=
  let n := r.2.2.1.length
  isPerm (r.2.2.2.2.1 ++ r.2.2.2.2.2.1) n &&
  (List.range n).all (fun k => r.2.2.2.2.2.1.contains k == touches r.2.2.1 r.2.2.2.2.2.2 k) &&
  (r.2.1 == "-" ||
    match sketchRow? r.2.1 with
    | some s => r.2.2.2.1 == operations s.2.2.1 &&
        r.2.2.2.2.1.map (r.2.2.2.1.getD · 0) == (coreShell s).1 && r.2.2.2.2.2.1.map (r.2.2.2.1.getD · 0) == (coreShell s).2
    | none => false)

theorem T_C19_shape_core_shell :
    (CBV.Gen.c19Shapes.filter (fun r => !exceptions.contains r.1)).all shapeOk = true := by decide

/-- non-vacuity: the tables are not empty and hold the shipped shapes -/
example : 12 ≤ (CBV.Gen.c19Sketches.filter (fun r => !exceptions.contains r.1)).length ∧
    ["Cylinder", "SemiCylinder", "Frustum", "Elbow", "ExtrudedRing8", "Hemisphere"].all
      (fun n => (CBV.Gen.c19Shapes.filter (fun r => !exceptions.contains r.1)).any (fun r => r.1 == n)) = true := by decide

/-- `WrappedDisk`: `shell` is exactly the set of faces on the outer rim and `core`/`shell` are disjoint;
    `RoundSolidShape(WrappedDisk)`: core ++ shell partition the operations and every operation on the rim is in `shell` -/
def wrappedPartialOk : Bool :=
  (match sketchRow? "WrappedDisk" with
    | some r => (List.range r.2.1.length).all (fun k => r.2.2.2.2.1.contains k == touches r.2.1 r.2.2.2.2.2 k) &&
        r.2.2.2.1.all (fun k => !r.2.2.2.2.1.contains k)
    | none => false) &&
  (match shapeRow? "RoundSolidShape(WrappedDisk)" with
    | some r => isPerm (r.2.2.2.2.1 ++ r.2.2.2.2.2.1) r.2.2.1.length &&
        (List.range r.2.2.1.length).all (fun k => !touches r.2.2.1 r.2.2.2.2.2.2 k || r.2.2.2.2.2.1.contains k)
    | none => false)

theorem T_C19_wrapped_partial : wrappedPartialOk = true := by decide

/-- … but the full statement fails there: the four faces between the inner square and the circle are in neither list of
    the sketch, and `RoundSolidShape(WrappedDisk).shell` holds them although they do not touch the outer surface
    (known finding `WrappedDisk.core/shell:middle-ring`) -/
theorem T_C19_wrapped_counterexample :
    (sketchRow? "WrappedDisk").map sketchOk = some false ∧
    (shapeRow? "RoundSolidShape(WrappedDisk)").map shapeOk = some false := by decide

end CBV.C19
