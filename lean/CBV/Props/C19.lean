/-
C19 — property theorems: grid, slice and core/shell addressing is geometric.

For all sizes (induction / list lemmas on the loops of `Grid.__init__`, `LoftedShape.__init__`,
`TransformedStack.__init__`, `Stack.get_slice`):
* `T_C19_grid_sketch`  `Grid(nx, ny).grid[j][i]` is the face over column i, row j;
* `T_C19_lofted`       `LoftedShape.grid[i][j]` is the loft of `sketch_1.grid[i][j]` and its image, for every sketch;
* `T_C19_grid`         `stack.grid[k][j][i]` is the operation over column i, row j, on tier k;
* `T_C19_slice`        `get_slice(a, idx)` holds exactly the operations whose index along `a` is `idx`, each once;
* `T_C19_slice_reject` an index beyond the size is an IndexError;
* `T_C19_delete`       removing `grid[k][j][i]` from `stack.operations` removes that one operation and no other.
By `decide` on the tables regenerated from the source at every run:
* `T_C19_core_shell`, `T_C19_shape_core_shell`  core ++ shell partition the faces / operations, shell = those with a point
  on the outer rim, `RoundSolidShape.core/shell` = take/drop of the flattened sketch grid;
* `T_C19_wrapped_partial` + `T_C19_wrapped_counterexample`  what holds and what does not for `WrappedDisk`.
-/
import CBV.Lemmas.C19
import CBV.Lemmas.C19Geo
import CBV.Lemmas.C19Rim
import CBV.Lemmas.C19Rev
import CBV.Lemmas.C19Oval
import CBV.Model.C19Merge
import Mathlib.Data.List.Basic
import Mathlib.Analysis.Real.Sqrt
import Mathlib.Tactic.NormNum
import CBV.Gen.TC19

namespace CBV.C19

/-! ### cartesian grids, all sizes -/

/-- `Grid(p1, p2, nx, ny)`: ny rows of nx faces, `grid[j][i]` is the face over column i, row j
    (its points are the lattice nodes (i,j) (i+1,j) (i+1,j+1) (i,j+1)) -/
theorem T_C19_grid_sketch (nx ny level : Nat) :
    (gridSketch nx ny level).length = ny ∧ (∀ row ∈ gridSketch nx ny level, row.length = nx) ∧
    ∀ i j, i < nx → j < ny →
      ((gridSketch nx ny level)[j]?).bind (·[i]?) = some ⟨i, j, level⟩ ∧
      (⟨i, j, level⟩ : Face3).nodes = [(i, j), (i + 1, j), (i + 1, j + 1), (i, j + 1)] := by
  rw [gridSketch_eq]
  refine ⟨by simp, ?_, ?_⟩
  · intro row hrow
    simp only [List.mem_map, List.mem_range] at hrow
    obtain ⟨_, _, rfl⟩ := hrow
    simp
  · intro i j hi hj
    simp [hi, hj, Face3.nodes]

/-- `LoftedShape(sketch_1, sketch_2)` with `sketch_2` a transformed copy: the grid of operations has the shape of
    `sketch_1.grid` and `lofts[i][j]` is made from `sketch_1.grid[i][j]` and its image — any sketch, any sizes -/
theorem T_C19_lofted {α : Type} (τ : α → α) (g : List (List α)) :
    ∃ L : List (List (α × α)), loftedGrid g (g.map (·.map τ)) = some L ∧ L.length = g.length ∧
      ∀ i j : Nat, (L[i]?).bind (·[j]?) = ((g[i]?).bind (·[j]?)).map (fun f => (f, τ f)) := by
  refine ⟨_, loftedGrid_map τ g, by simp, ?_⟩
  intro i j
  simp only [List.getElem?_map]
  cases g[i]? with
  | none => rfl
  | some row =>
    simp only [Option.map_some, Option.bind_some, List.getElem?_map]

/-- `ExtrudedStack / RevolvedStack / TransformedStack(Grid(nx, ny), …, nz).grid[k][j][i]` is the operation whose
    bottom face is cell (i, j) on level k and whose top face is the same cell on level k+1 -/
theorem T_C19_grid (nx ny nz : Nat) :
    ∃ G, stackGrid nx ny nz = some G ∧ G.length = nz ∧
      ∀ i j k, i < nx → j < ny → k < nz →
        (((G[k]?).bind (·[j]?)).bind (·[i]?)) = some (cell i j k) ∧
        (cell i j k).bottom = ⟨i, j, k⟩ ∧ (cell i j k).top = ⟨i, j, k + 1⟩ := by
  refine ⟨_, stackGrid_eq nx ny nz, by simp, ?_⟩
  intro i j k hi hj hk
  simp [tier_eq, hi, hj, hk, cell]

/-- the index of an operation along axis 0 (column), 1 (row), 2 (tier) -/
def coord (a : Nat) (c : Loft) : Nat := if a = 0 then c.bottom.ix else if a = 1 then c.bottom.iy else c.bottom.level

def dim (nx ny nz a : Nat) : Nat := if a = 0 then nx else if a = 1 then ny else nz

/-- `get_slice(a, idx)`, a ∈ {0, 1, 2}, valid idx: exactly the operations of the stack with index `idx` along `a`, each once -/
theorem T_C19_slice (nx ny nz a idx : Nat) (ha : a ≤ 2) (hidx : idx < dim nx ny nz a) :
    ∃ G L, stackGrid nx ny nz = some G ∧ getSlice G a idx = some L ∧ L.Nodup ∧
      ∀ c, c ∈ L ↔ (c ∈ stackOps G ∧ coord a c = idx) := by
  refine ⟨_, ?_, stackGrid_eq nx ny nz, ?_⟩
  · exact if a = 0 then (List.range nz).flatMap (fun k => (List.range ny).map (fun j => cell idx j k))
      else if a = 1 then (List.range nz).flatMap (fun k => (List.range nx).map (fun i => cell i idx k))
      else (List.range ny).flatMap (fun j => (List.range nx).map (fun i => cell i j idx))
  have h3 : a = 0 ∨ a = 1 ∨ a = 2 := by omega
  rcases h3 with rfl | rfl | rfl
  · simp only [dim, if_true] at hidx
    refine ⟨by simpa using slice0_eq nx ny nz idx hidx, ?_, ?_⟩
    · simp only [if_true]
      apply nodup_flatMap_range
      · intro k; apply nodup_map_range; intro x y h; exact (cell_inj _ _ _ _ _ _ h).2.1
      · intro x y hxy c hc hc'
        simp only [List.mem_map, List.mem_range] at hc hc'
        obtain ⟨j, _, rfl⟩ := hc
        obtain ⟨j', _, h⟩ := hc'
        exact hxy (cell_inj _ _ _ _ _ _ h).2.2.symm
    · intro c
      rw [mem_stackOps]
      simp only [if_true, List.mem_flatMap, List.mem_map, List.mem_range, coord]
      constructor
      · rintro ⟨k, hk, j, hj, rfl⟩; exact ⟨⟨idx, j, k, hidx, hj, hk, rfl⟩, rfl⟩
      · rintro ⟨⟨i, j, k, hi, hj, hk, rfl⟩, h⟩
        simp only [cell] at h
        subst h
        exact ⟨k, hk, j, hj, rfl⟩
  · simp only [dim, show ¬ (1 : Nat) = 0 by decide, if_false, if_true] at hidx
    refine ⟨by simpa using slice1_eq nx ny nz idx hidx, ?_, ?_⟩
    · simp only [show ¬ (1 : Nat) = 0 by decide, if_false, if_true]
      apply nodup_flatMap_range
      · intro k; apply nodup_map_range; intro x y h; exact (cell_inj _ _ _ _ _ _ h).1
      · intro x y hxy c hc hc'
        simp only [List.mem_map, List.mem_range] at hc hc'
        obtain ⟨i, _, rfl⟩ := hc
        obtain ⟨i', _, h⟩ := hc'
        exact hxy (cell_inj _ _ _ _ _ _ h).2.2.symm
    · intro c
      rw [mem_stackOps]
      simp only [show ¬ (1 : Nat) = 0 by decide, if_false, if_true, List.mem_flatMap, List.mem_map, List.mem_range, coord]
      constructor
      · rintro ⟨k, hk, i, hi, rfl⟩; exact ⟨⟨i, idx, k, hi, hidx, hk, rfl⟩, rfl⟩
      · rintro ⟨⟨i, j, k, hi, hj, hk, rfl⟩, h⟩
        simp only [cell] at h
        subst h
        exact ⟨k, hk, i, hi, rfl⟩
  · simp only [dim, show ¬ (2 : Nat) = 0 by decide, show ¬ (2 : Nat) = 1 by decide, if_false] at hidx
    refine ⟨by simpa using slice2_eq nx ny nz idx hidx, ?_, ?_⟩
    · simp only [show ¬ (2 : Nat) = 0 by decide, show ¬ (2 : Nat) = 1 by decide, if_false]
      apply nodup_flatMap_range
      · intro j; apply nodup_map_range; intro x y h; exact (cell_inj _ _ _ _ _ _ h).1
      · intro x y hxy c hc hc'
        simp only [List.mem_map, List.mem_range] at hc hc'
        obtain ⟨i, _, rfl⟩ := hc
        obtain ⟨i', _, h⟩ := hc'
        exact hxy (cell_inj _ _ _ _ _ _ h).2.1.symm
    · intro c
      rw [mem_stackOps]
      simp only [show ¬ (2 : Nat) = 0 by decide, show ¬ (2 : Nat) = 1 by decide, if_false, List.mem_flatMap,
        List.mem_map, List.mem_range, coord]
      constructor
      · rintro ⟨j, hj, i, hi, rfl⟩; exact ⟨⟨i, j, idx, hi, hj, hidx, rfl⟩, rfl⟩
      · rintro ⟨⟨i, j, k, hi, hj, hk, rfl⟩, h⟩
        simp only [cell] at h
        subst h
        exact ⟨j, hj, i, hi, rfl⟩

/-- non-vacuity of `T_C19_slice`: a 2 x 5 grid, 3 tiers, as in the docstring of `get_slice`: 15 / 6 / 10 operations -/
example : ((stackGrid 2 5 3).bind (getSlice · 0 1)).map List.length = some 15 ∧
    ((stackGrid 2 5 3).bind (getSlice · 1 4)).map List.length = some 6 ∧
    ((stackGrid 2 5 3).bind (getSlice · 2 2)).map List.length = some 10 := by decide

/-- the body of `get_slice` without its guard: an index beyond the size would be an IndexError, on every axis (the stack is not
    empty); with the guard of repair 2f93ac1 it is a ValueError before the body is reached: `T_C19_slice_guard` -/
theorem T_C19_slice_reject (nx ny nz a idx : Nat) (ha : a ≤ 2) (hn : 0 < nx ∧ 0 < ny ∧ 0 < nz)
    (hidx : dim nx ny nz a ≤ idx) :
    ∃ G, stackGrid nx ny nz = some G ∧ getSlice G a idx = none := by
  refine ⟨_, stackGrid_eq nx ny nz, ?_⟩
  have h3 : a = 0 ∨ a = 1 ∨ a = 2 := by omega
  rcases h3 with rfl | rfl | rfl
  · simp only [dim, if_true] at hidx
    simp only [getSlice]
    rw [if_neg (by decide : ¬ ((0 : Nat) = 2)), if_pos trivial]
    have : allSome (((List.range nz).map (tier nx ny)).map (fun g => allSome (g.map (fun row => row[idx]?)))) = none := by
      apply allSome_none
      simp only [List.mem_map, List.mem_range]
      refine ⟨tier nx ny 0, ⟨0, hn.2.2, rfl⟩, ?_⟩
      apply allSome_none
      simp only [tier_eq, List.mem_map, List.mem_range]
      refine ⟨_, ⟨0, hn.2.1, rfl⟩, ?_⟩
      simp [hidx]
    rw [this]; rfl
  · simp only [dim, show ¬ (1 : Nat) = 0 by decide, if_false, if_true] at hidx
    simp only [getSlice]
    rw [if_neg (by decide : ¬ ((1 : Nat) = 2)), if_neg (by decide : ¬ ((1 : Nat) = 0))]
    have : allSome (((List.range nz).map (tier nx ny)).map (fun g => g[idx]?)) = none := by
      apply allSome_none
      simp only [List.mem_map, List.mem_range]
      refine ⟨tier nx ny 0, ⟨0, hn.2.2, rfl⟩, ?_⟩
      simp [tier_eq, hidx]
    rw [this]; rfl
  · simp only [dim, show ¬ (2 : Nat) = 0 by decide, show ¬ (2 : Nat) = 1 by decide, if_false] at hidx
    simp [getSlice, hidx]

/-- the guard of the repaired `get_slice` (2f93ac1) measures the stack: `n_slices` is nx / ny / nz on axis 0 / 1 / 2, so on a non-empty
    stack every valid index returns its slice (`T_C19_slice`) and every index ≥ the size — which the body alone would answer with
    an IndexError (`T_C19_slice_reject`) — is a ValueError -/
theorem T_C19_slice_guard (nx ny nz a idx : Nat) (ha : a ≤ 2) (hn : 0 < nx ∧ 0 < ny ∧ 0 < nz) :
    ∃ G, stackGrid nx ny nz = some G ∧ nSlices G a = some (dim nx ny nz a) ∧
      (dim nx ny nz a ≤ idx → getSliceGuarded G a idx = .error "ValueError") ∧
      (idx < dim nx ny nz a → ∃ L, getSliceGuarded G a idx = .ok L ∧ getSlice G a idx = some L) := by
  obtain ⟨G, L0, hG, _, _, _⟩ := T_C19_slice nx ny nz a 0 ha (by
    have h3 : a = 0 ∨ a = 1 ∨ a = 2 := by omega
    rcases h3 with rfl | rfl | rfl <;> simp [dim] <;> omega)
  have hN : nSlices ((List.range nz).map (tier nx ny)) a = some (dim nx ny nz a) := by
    obtain ⟨mz, rfl⟩ : ∃ m, nz = m + 1 := ⟨nz - 1, by omega⟩
    obtain ⟨my, rfl⟩ : ∃ m, ny = m + 1 := ⟨ny - 1, by omega⟩
    have h3 : a = 0 ∨ a = 1 ∨ a = 2 := by omega
    rcases h3 with rfl | rfl | rfl <;>
      simp [nSlices, tier_eq, List.range_succ_eq_map, dim]
  refine ⟨_, stackGrid_eq nx ny nz, hN, ?_, ?_⟩
  · intro h
    simp [getSliceGuarded, hN, h]
  · intro h
    obtain ⟨G', L, hG', hL, _, _⟩ := T_C19_slice nx ny nz a idx ha h
    rw [stackGrid_eq] at hG'
    cases hG'
    refine ⟨L, ?_, hL⟩
    simp [getSliceGuarded, hN, hL, Nat.not_le.mpr h]

/-- non-vacuity: the 2 x 5 x 3 stack of the docstring: index 2 on axis 0 is a ValueError, index 1 gives 15 operations -/
example : (stackGrid 2 5 3).map (fun G => (getSliceGuarded G 0 2, (getSliceGuarded G 0 1).toOption.map List.length))
    = some (.error "ValueError", some 15) := by decide

/-- Deleting the addressed operation `grid[k][j][i]` from `stack.operations` (what `Mesh.delete` + assembly do,
    see `T_C12_delete`: the blocks are the operations that are not deleted) removes that operation — it occurs once —
    and no other. -/
theorem T_C19_delete (nx ny nz i j k : Nat) (hi : i < nx) (hj : j < ny) (hk : k < nz) :
    ∃ G, stackGrid nx ny nz = some G ∧ (stackOps G).Nodup ∧ (stackOps G).length = nz * (ny * nx) ∧
      cell i j k ∈ stackOps G ∧
      ((stackOps G).filter (fun o => decide (o ≠ cell i j k))).length + 1 = (stackOps G).length ∧
      ∀ o, o ∈ (stackOps G).filter (fun o => decide (o ≠ cell i j k)) ↔ (o ∈ stackOps G ∧ o ≠ cell i j k) := by
  refine ⟨_, stackGrid_eq nx ny nz, stackOps_nodup nx ny nz, ?_, ?_, ?_, ?_⟩
  · rw [stackOps_eq]
    simp [List.length_flatMap]
  · rw [mem_stackOps]; exact ⟨i, j, k, hi, hj, hk, rfl⟩
  · have hm : cell i j k ∈ stackOps ((List.range nz).map (tier nx ny)) := by
      rw [mem_stackOps]; exact ⟨i, j, k, hi, hj, hk, rfl⟩
    have hnd := stackOps_nodup nx ny nz
    have he := List.Nodup.erase_eq_filter hnd (cell i j k)
    have hl := List.length_erase_of_mem hm
    have hpos : 0 < (stackOps ((List.range nz).map (tier nx ny))).length := List.length_pos_of_mem hm
    have : (stackOps ((List.range nz).map (tier nx ny))).filter (fun o => decide (o ≠ cell i j k))
        = (stackOps ((List.range nz).map (tier nx ny))).erase (cell i j k) := by
      rw [he]
      apply List.filter_congr
      intro o _
      by_cases h : o = cell i j k <;> simp [h]
    rw [this, hl]
    omega
  · intro o
    simp [List.mem_filter]

/-- a stack and a copy of it in one mesh (`stack.copy().translate(…)`): operations are objects, a copy is another object -/
def withCopy (ops : List Loft) : List (Bool × Loft) := ops.map (fun o => (false, o)) ++ ops.map (fun o => (true, o))

/-- Deleting `copy.grid[k][j][i]` (or `stack.grid[k][j][i]`) from the operations of a stack *and its copy* removes that one
    object: its sibling at the same grid index in the other stack stays, as does everything else. -/
theorem T_C19_delete_copy (nx ny nz i j k : Nat) (which : Bool) (hi : i < nx) (hj : j < ny) (hk : k < nz) :
    ∃ G, stackGrid nx ny nz = some G ∧ (withCopy (stackOps G)).Nodup ∧
      (which, cell i j k) ∈ withCopy (stackOps G) ∧
      (!which, cell i j k) ∈ (withCopy (stackOps G)).filter (fun o => decide (o ≠ (which, cell i j k))) ∧
      ((withCopy (stackOps G)).filter (fun o => decide (o ≠ (which, cell i j k)))).length + 1 = (withCopy (stackOps G)).length ∧
      ∀ o, o ∈ (withCopy (stackOps G)).filter (fun o => decide (o ≠ (which, cell i j k))) ↔
        (o ∈ withCopy (stackOps G) ∧ o ≠ (which, cell i j k)) := by
  have hm : cell i j k ∈ stackOps ((List.range nz).map (tier nx ny)) := by
    rw [mem_stackOps]; exact ⟨i, j, k, hi, hj, hk, rfl⟩
  have hnd : (withCopy (stackOps ((List.range nz).map (tier nx ny)))).Nodup := by
    unfold withCopy
    rw [List.nodup_append]
    refine ⟨?_, ?_, ?_⟩
    · exact List.Nodup.map (fun a b h => by simpa using h) (stackOps_nodup nx ny nz)
    · exact List.Nodup.map (fun a b h => by simpa using h) (stackOps_nodup nx ny nz)
    · intro a ha b hb
      simp only [List.mem_map] at ha hb
      obtain ⟨x, _, rfl⟩ := ha
      obtain ⟨y, _, rfl⟩ := hb
      simp
  have hmem : ∀ w : Bool, (w, cell i j k) ∈ withCopy (stackOps ((List.range nz).map (tier nx ny))) := by
    intro w
    unfold withCopy
    cases w
    · exact List.mem_append_left _ (List.mem_map.mpr ⟨_, hm, rfl⟩)
    · exact List.mem_append_right _ (List.mem_map.mpr ⟨_, hm, rfl⟩)
  refine ⟨_, stackGrid_eq nx ny nz, hnd, hmem which, ?_, ?_, ?_⟩
  · simp only [List.mem_filter]
    refine ⟨hmem (!which), ?_⟩
    cases which <;> simp
  · have he := List.Nodup.erase_eq_filter hnd (which, cell i j k)
    have hl := List.length_erase_of_mem (hmem which)
    have hpos := List.length_pos_of_mem (hmem which)
    have : (withCopy (stackOps ((List.range nz).map (tier nx ny)))).filter (fun o => decide (o ≠ (which, cell i j k)))
        = (withCopy (stackOps ((List.range nz).map (tier nx ny)))).erase (which, cell i j k) := by
      rw [he]
      apply List.filter_congr
      intro o _
      by_cases h : o = (which, cell i j k) <;> simp [h]
    rw [this, hl]
    omega
  · intro o
    simp [List.mem_filter]


/-! ### round 6 — every sketch and transformation; where the cells are (ℚ); slices partition the stack; `Stack.chop` -/

/-- `TransformedStack(base, τ, n)` (also behind `ExtrudedStack`, `RevolvedStack`) for ANY sketch (`base.grid = g`, cartesian or
    round), ANY transformation τ and any number of tiers: `stack.grid[k][i][j]` is the loft from the k-fold image of
    `base.grid[i][j]` to its (k+1)-fold image — in particular the top face of tier k is the bottom face of tier k+1 -/
theorem T_C19_tstack {α : Type} (τ : α → α) (n : Nat) (g : List (List α)) :
    ∃ S, tstack τ n g = some S ∧ S.length = n ∧
      ∀ k i j : Nat, k < n → ((S[k]?).bind (·[i]?)).bind (·[j]?) =
        ((g[i]?).bind (·[j]?)).map (fun f => (τ^[k] f, τ^[k + 1] f)) := by
  refine ⟨_, tstack_eq τ n g, by simp, ?_⟩
  intro k i j hk
  simp only [List.getElem?_map, List.getElem?_range hk, Option.map_some, Option.bind_some, ttier]
  cases g[i]? with
  | none => rfl
  | some row => simp only [Option.map_some, Option.bind_some, List.getElem?_map]

/-- non-vacuity: a sketch with rows of different lengths (a disk: 1 core face, 2 shell faces), 3 tiers -/
example : ((tstack (· + 10) 3 [[0], [1, 2]]).bind (·[2]?)).bind (·[1]?) = some [(21, 31), (22, 32)] := by decide

/-- the point of the lattice at parameters (a / nx, b / ny) between `point_1` and `point_2` -/
def latticePt (g : GridArgs) (a b : Nat) : V3 :=
  ⟨g.x0 + ((a : Rat) / (g.nx : Rat)) * (g.x1 - g.x0), g.y0 + ((b : Rat) / (g.ny : Rat)) * (g.y1 - g.y0), 0⟩

/-- `Grid(point_1, point_2, nx, ny)`, all sizes and corner points: the face `grid[j][i]` has the corner points at the
    parameters (i/nx, j/ny), ((i+1)/nx, j/ny), ((i+1)/nx, (j+1)/ny), (i/nx, (j+1)/ny) of the rectangle — it *is* column i, row j;
    the lattice starts in `point_1` and ends in `point_2` -/
theorem T_C19_grid_geometry (g : GridArgs) (i j : Nat) (hi : i < g.nx) (hj : j < g.ny) :
    ((gridFaces g)[j]?).bind (·[i]?) =
      some [latticePt g i j, latticePt g (i + 1) j, latticePt g (i + 1) (j + 1), latticePt g i (j + 1)] ∧
    latticePt g 0 0 = ⟨g.x0, g.y0, 0⟩ ∧ latticePt g g.nx g.ny = ⟨g.x1, g.y1, 0⟩ := by
  have hx : 0 < g.nx := by omega
  have hy : 0 < g.ny := by omega
  have hxq : (g.nx : Rat) ≠ 0 := by exact_mod_cast (Nat.pos_iff_ne_zero.mp hx)
  have hyq : (g.ny : Rat) ≠ 0 := by exact_mod_cast (Nat.pos_iff_ne_zero.mp hy)
  refine ⟨?_, ?_, ?_⟩
  · simp only [gridFaces, gridSketch_eq, List.getElem?_map, List.getElem?_range hj, List.getElem?_range hi, Option.map_some,
      Option.bind_some, facePts, Face3.nodes, List.map_cons, List.map_nil, nodePos, latticePt]
    rw [linspace_eq g.x0 g.x1 g.nx i hx (by omega), linspace_eq g.x0 g.x1 g.nx (i + 1) hx (by omega),
      linspace_eq g.y0 g.y1 g.ny j hy (by omega), linspace_eq g.y0 g.y1 g.ny (j + 1) hy (by omega)]
  · simp [latticePt]
  · simp only [latticePt, div_self hxq, div_self hyq]
    apply V3.ext' <;> simp

/-- non-vacuity: a 2 x 5 grid between (0, 0) and (1, 10): cell (1, 4) -/
example : ((gridFaces ⟨0, 0, 1, 10, 2, 5⟩)[4]?).bind (·[1]?) =
    some [⟨1/2, 8, 0⟩, ⟨1, 8, 0⟩, ⟨1, 10, 0⟩, ⟨1/2, 10, 0⟩] := by decide +kernel

/-- cells are where their index says: with `point_1` left of / below `point_2` the lattice coordinates grow strictly with the
    index, so column i lies left of column i' for i < i' (and the same for rows); for ANY two different corner points with
    different x and y the first corner identifies the cell (what the harness uses to recognise a face by position) -/
theorem T_C19_grid_cells_ordered (g : GridArgs) (i i' j j' : Nat) (hi : i' ≤ g.nx) (hj : j' ≤ g.ny) :
    (g.x0 < g.x1 → i < i' → (nodePos g (i, j)).x < (nodePos g (i', j)).x) ∧
    (g.y0 < g.y1 → j < j' → (nodePos g (i, j)).y < (nodePos g (i, j')).y) ∧
    (g.x0 ≠ g.x1 → g.y0 ≠ g.y1 → i ≤ g.nx → j ≤ g.ny → nodePos g (i, j) = nodePos g (i', j') → i = i' ∧ j = j') := by
  refine ⟨fun h hii => linspace_lt _ _ _ _ _ h hii hi, fun h hjj => linspace_lt _ _ _ _ _ h hjj hj, ?_⟩
  intro hx hy hi0 hj0 h
  simp only [nodePos, V3.mk.injEq] at h
  exact ⟨linspace_inj _ _ _ _ _ hx hi0 hi h.1, linspace_inj _ _ _ _ _ hy hj0 hj h.2.1⟩

/-- `ExtrudedStack(Grid(…), amount, nz)`, all sizes, corner points and amounts: the operation `grid[k][j][i]` has the points of
    cell (i, j) moved by `k/nz · amount` as bottom face and by `(k+1)/nz · amount` as top face: tier k is the k-th of nz equal
    steps along the extrusion, and the top of the last tier is the base moved by the whole amount -/
theorem T_C19_extruded_geometry (g : GridArgs) (v : V3) (nz i j k : Nat) (hi : i < g.nx) (hj : j < g.ny) (hk : k < nz) :
    ∃ S, extrudedStack g v nz = some S ∧ S.length = nz ∧
      ((S[k]?).bind (·[j]?)).bind (·[i]?) =
        some ((facePts g ⟨i, j, 0⟩).map (· + V3.smul ((k : Rat) / (nz : Rat)) v),
              (facePts g ⟨i, j, 0⟩).map (· + V3.smul (((k + 1 : Nat) : Rat) / (nz : Rat)) v)) ∧
      (k + 1 = nz → (facePts g ⟨i, j, 0⟩).map (· + V3.smul (((k + 1 : Nat) : Rat) / (nz : Rat)) v)
        = (facePts g ⟨i, j, 0⟩).map (· + v)) := by
  have hz : (nz : Rat) ≠ 0 := by
    have : 0 < nz := by omega
    exact_mod_cast (Nat.pos_iff_ne_zero.mp this)
  refine ⟨_, tstack_eq _ nz (gridFaces g), by simp, ?_, ?_⟩
  · simp only [List.getElem?_map, List.getElem?_range hk, Option.map_some, Option.bind_some, ttier, gridFaces, gridSketch_eq,
      List.getElem?_range hj, List.getElem?_range hi, iterate_translate]
    congr 2
    · apply List.map_congr_left
      intro p _
      apply V3.ext' <;> simp <;> ring
    · apply List.map_congr_left
      intro p _
      apply V3.ext' <;> simp <;> ring
  · intro h
    apply List.map_congr_left
    intro p _
    rw [h, div_self hz]
    apply V3.ext' <;> simp

/-- non-vacuity: one cell, two tiers, 3 up: the second tier goes from height 3/2 to 3 -/
example : (((extrudedStack ⟨0, 0, 1, 1, 1, 1⟩ ⟨0, 0, 3⟩ 2).bind (·[1]?)).bind (·[0]?)).bind (·[0]?) =
    some ([⟨0, 0, 3/2⟩, ⟨1, 0, 3/2⟩, ⟨1, 1, 3/2⟩, ⟨0, 1, 3/2⟩], [⟨0, 0, 3⟩, ⟨1, 0, 3⟩, ⟨1, 1, 3⟩, ⟨0, 1, 3⟩]) := by
  decide +kernel

/-- the closed form of `get_slice(a, idx)` -/
def sliceCells (nx ny nz a idx : Nat) : List Loft :=
  if a = 0 then (List.range nz).flatMap (fun k => (List.range ny).map (fun j => cell idx j k))
  else if a = 1 then (List.range nz).flatMap (fun k => (List.range nx).map (fun i => cell i idx k))
  else (List.range ny).flatMap (fun j => (List.range nx).map (fun i => cell i j idx))

/-- the slices along an axis partition the stack: for a ∈ {0, 1, 2} the slices `get_slice(a, 0) … get_slice(a, size − 1)`
    put one after the other are a permutation of `stack.operations`, and each slice has ny·nz / nx·nz / nx·ny operations -/
theorem T_C19_slices_partition (nx ny nz a : Nat) (ha : a ≤ 2) :
    ∃ G, stackGrid nx ny nz = some G ∧
      (∀ idx, idx < dim nx ny nz a → getSlice G a idx = some (sliceCells nx ny nz a idx) ∧
        (sliceCells nx ny nz a idx).length = (if a = 0 then nz * ny else if a = 1 then nz * nx else ny * nx)) ∧
      ((List.range (dim nx ny nz a)).flatMap (sliceCells nx ny nz a)).Perm (stackOps G) := by
  refine ⟨_, stackGrid_eq nx ny nz, ?_, ?_⟩
  · intro idx hidx
    have h3 : a = 0 ∨ a = 1 ∨ a = 2 := by omega
    rcases h3 with rfl | rfl | rfl
    · simp only [dim, if_true] at hidx
      exact ⟨by simpa [sliceCells] using slice0_eq nx ny nz idx hidx, by simp [sliceCells, List.length_flatMap]⟩
    · simp only [dim, show ¬ (1 : Nat) = 0 by decide, if_false, if_true] at hidx
      exact ⟨by simpa [sliceCells] using slice1_eq nx ny nz idx hidx, by simp [sliceCells, List.length_flatMap]⟩
    · simp only [dim, show ¬ (2 : Nat) = 0 by decide, show ¬ (2 : Nat) = 1 by decide, if_false] at hidx
      exact ⟨by simpa [sliceCells] using slice2_eq nx ny nz idx hidx, by simp [sliceCells, List.length_flatMap]⟩
  · have hmem : ∀ c, c ∈ (List.range (dim nx ny nz a)).flatMap (sliceCells nx ny nz a) ↔
        c ∈ stackOps ((List.range nz).map (tier nx ny)) := by
      intro c
      rw [mem_stackOps]
      have h3 : a = 0 ∨ a = 1 ∨ a = 2 := by omega
      rcases h3 with rfl | rfl | rfl
      · simp only [dim, sliceCells, if_true, List.mem_flatMap, List.mem_map, List.mem_range]
        constructor
        · rintro ⟨i, hi, k, hk, j, hj, rfl⟩; exact ⟨i, j, k, hi, hj, hk, rfl⟩
        · rintro ⟨i, j, k, hi, hj, hk, rfl⟩; exact ⟨i, hi, k, hk, j, hj, rfl⟩
      · simp only [dim, sliceCells, show ¬ (1 : Nat) = 0 by decide, if_false, if_true, List.mem_flatMap, List.mem_map,
          List.mem_range]
        constructor
        · rintro ⟨j, hj, k, hk, i, hi, rfl⟩; exact ⟨i, j, k, hi, hj, hk, rfl⟩
        · rintro ⟨i, j, k, hi, hj, hk, rfl⟩; exact ⟨j, hj, k, hk, i, hi, rfl⟩
      · simp only [dim, sliceCells, show ¬ (2 : Nat) = 0 by decide, show ¬ (2 : Nat) = 1 by decide, if_false,
          List.mem_flatMap, List.mem_map, List.mem_range]
        constructor
        · rintro ⟨k, hk, j, hj, i, hi, rfl⟩; exact ⟨i, j, k, hi, hj, hk, rfl⟩
        · rintro ⟨i, j, k, hi, hj, hk, rfl⟩; exact ⟨k, hk, j, hj, i, hi, rfl⟩
    refine (List.perm_ext_iff_of_nodup ?_ (stackOps_nodup nx ny nz)).mpr hmem
    apply nodup_flatMap_range
    · intro idx
      have h3 : a = 0 ∨ a = 1 ∨ a = 2 := by omega
      rcases h3 with rfl | rfl | rfl
      · simp only [sliceCells, if_true]
        apply nodup_flatMap_range
        · intro k; apply nodup_map_range; intro x y h; exact (cell_inj _ _ _ _ _ _ h).2.1
        · intro x y hxy c hc hc'
          simp only [List.mem_map, List.mem_range] at hc hc'
          obtain ⟨j, _, rfl⟩ := hc
          obtain ⟨j', _, h⟩ := hc'
          exact hxy (cell_inj _ _ _ _ _ _ h).2.2.symm
      · simp only [sliceCells, show ¬ (1 : Nat) = 0 by decide, if_false, if_true]
        apply nodup_flatMap_range
        · intro k; apply nodup_map_range; intro x y h; exact (cell_inj _ _ _ _ _ _ h).1
        · intro x y hxy c hc hc'
          simp only [List.mem_map, List.mem_range] at hc hc'
          obtain ⟨i, _, rfl⟩ := hc
          obtain ⟨i', _, h⟩ := hc'
          exact hxy (cell_inj _ _ _ _ _ _ h).2.2.symm
      · simp only [sliceCells, show ¬ (2 : Nat) = 0 by decide, show ¬ (2 : Nat) = 1 by decide, if_false]
        apply nodup_flatMap_range
        · intro j; apply nodup_map_range; intro x y h; exact (cell_inj _ _ _ _ _ _ h).1
        · intro x y hxy c hc hc'
          simp only [List.mem_map, List.mem_range] at hc hc'
          obtain ⟨i, _, rfl⟩ := hc
          obtain ⟨i', _, h⟩ := hc'
          exact hxy (cell_inj _ _ _ _ _ _ h).2.1.symm
    · intro x y hxy c hc hc'
      have h3 : a = 0 ∨ a = 1 ∨ a = 2 := by omega
      rcases h3 with rfl | rfl | rfl
      · simp only [sliceCells, if_true, List.mem_flatMap, List.mem_map, List.mem_range] at hc hc'
        obtain ⟨k, _, j, _, rfl⟩ := hc
        obtain ⟨k', _, j', _, h⟩ := hc'
        exact hxy (cell_inj _ _ _ _ _ _ h).1.symm
      · simp only [sliceCells, show ¬ (1 : Nat) = 0 by decide, if_false, if_true, List.mem_flatMap, List.mem_map,
          List.mem_range] at hc hc'
        obtain ⟨k, _, i, _, rfl⟩ := hc
        obtain ⟨k', _, i', _, h⟩ := hc'
        exact hxy (cell_inj _ _ _ _ _ _ h).2.1.symm
      · simp only [sliceCells, show ¬ (2 : Nat) = 0 by decide, show ¬ (2 : Nat) = 1 by decide, if_false, List.mem_flatMap,
          List.mem_map, List.mem_range] at hc hc'
        obtain ⟨j, _, i, _, rfl⟩ := hc
        obtain ⟨j', _, i', _, h⟩ := hc'
        exact hxy (cell_inj _ _ _ _ _ _ h).2.2.symm

/-- `Stack.chop(…)` on a stack of an nx × ny grid (nx, ny > 0) with nz tiers: the operations that receive the axis-2 chop are
    `grid[k][0][0]`, k = 0 … nz−1 — one in every tier, all different, none missed -/
theorem T_C19_stack_chop (nx ny nz : Nat) (hx : 0 < nx) (hy : 0 < ny) :
    ∃ G L, stackGrid nx ny nz = some G ∧ stackChop G = some L ∧ L.Nodup ∧ L.length = nz ∧
      (∀ c ∈ L, c ∈ stackOps G) ∧
      ∀ k, k < nz → L.filter (fun c => coord 2 c = k) = [cell 0 0 k] := by
  refine ⟨_, _, stackGrid_eq nx ny nz, stackChop_eq nx ny nz hx hy, ?_, by simp, ?_, ?_⟩
  · apply nodup_map_range; intro a b h; exact (cell_inj _ _ _ _ _ _ h).2.2
  · intro c hc
    simp only [List.mem_map, List.mem_range] at hc
    obtain ⟨k, hk, rfl⟩ := hc
    rw [mem_stackOps]; exact ⟨0, 0, k, hx, hy, hk, rfl⟩
  · intro k hk
    rw [List.filter_map]
    have : (List.range nz).filter ((fun c => decide (coord 2 c = k)) ∘ fun k => cell 0 0 k) = [k] := by
      have h1 : ((fun c => decide (coord 2 c = k)) ∘ fun k => cell 0 0 k) = fun x => decide (x = k) := by
        funext x; simp [coord, cell]
      rw [h1]
      induction nz with
      | zero => omega
      | succ n ih =>
        rw [List.range_succ, List.filter_append]
        by_cases hkn : k < n
        · rw [ih hkn]; simp; omega
        · have : k = n := by omega
          subst this
          have : (List.range k).filter (fun x => decide (x = k)) = [] := by
            rw [List.filter_eq_nil_iff]; intro a ha; simp only [List.mem_range] at ha; simp; omega
          rw [this]; simp
    rw [this]; rfl

/-- the rejecting branch: a stack of a sketch without faces in its first row has no `grid[0][0]` (IndexError) -/
theorem T_C19_stack_chop_reject (nx ny nz : Nat) (hz : 0 < nz) (h0 : nx = 0 ∨ ny = 0) :
    ∃ G, stackGrid nx ny nz = some G ∧ stackChop G = none :=
  ⟨_, stackGrid_eq nx ny nz, stackChop_reject nx ny nz hz h0⟩

/-- non-vacuity: 2 x 5 x 3 — three operations are chopped, the first of every tier -/
example : (stackGrid 2 5 3).bind stackChop = some [cell 0 0 0, cell 0 0 1, cell 0 0 2] := by decide


/-! ### round 6 — the model computes from what the source says (tables regenerated with `ast` at every run) -/

/-- `Stack.get_slice`: its branches as regenerated from the source (`CBV.Gen.c19SliceSpec`: the axis tested, the element
    expression of the comprehension, what is iterated), interpreted, are the model's `getSlice` on every stack, axis, index -/
theorem T_C19_tie_get_slice {β : Type} (G : List (List (List β))) (a idx : Nat) :
    getSliceBy CBV.Gen.c19SliceSpec G a idx = getSlice G a idx := by
  by_cases h2 : a = 2
  · subst h2; rfl
  by_cases h0 : a = 0
  · subst h0; rfl
  have hb : sliceBranch CBV.Gen.c19SliceSpec a = some ["shape.grid[v1][loop]", "range(len(shape.grid[v1]))"] := by
    have e2 : ((2 : Nat) == a) = false := by simpa using Ne.symm h2
    have e0 : ((0 : Nat) == a) = false := by simpa using Ne.symm h0
    by_cases h99 : a = 99
    · subst h99; rfl
    · have e99 : ((99 : Nat) == a) = false := by simpa using Ne.symm h99
      simp [sliceBranch, CBV.Gen.c19SliceSpec, List.find?, e2, e0, e99]
  simp only [getSliceBy, hb, getSlice, if_neg h2, if_neg h0]
  rfl

/-- `Stack.chop` as regenerated from the source is the model's `stackChop`, and the chop is along the stack (axis 2) -/
theorem T_C19_tie_stack_chop {β : Type} (G : List (List (List β))) :
    stackChopBy CBV.Gen.c19StackChop G = (stackChop G).map (·, 2) := rfl

/-- `Grid.__init__` (names as the translator renames them in order of first appearance: v0 v1 = `point_1 point_2`, v2 v3 =
    `count_1 count_2`, v4 v5 = `coords_1 coords_2`, v6 v7 = `iy ix`): the outer loop runs over the rows (v6 over v3), the inner one
    over the columns (v7 over v2) — the order of `gridSketch`; v4 are the x coordinates (component 0, v2 + 1 entries) and v5 the y
    coordinates — `nodePos`; the four points of the face made for `(ix, iy)` are `Face3.nodes` -/
theorem T_C19_tie_grid_init :
    CBV.Gen.c19GridLoops = [("v6", "v3"), ("v7", "v2")] ∧
    CBV.Gen.c19GridCoords = [("v4", 0, "v2"), ("v5", 1, "v3")] ∧
    CBV.Gen.c19GridPoints.all (fun p => p.1.1 == "v4" && p.1.2.1 == "v7" && p.2.1 == "v5" && p.2.2.1 == "v6") = true ∧
    ∀ ix iy l, (⟨ix, iy, l⟩ : Face3).nodes = CBV.Gen.c19GridPoints.map (fun p => (ix + p.1.2.2, iy + p.2.2.2)) :=
  ⟨by decide, by decide, by decide, fun _ _ _ => rfl⟩

/-- the one-line properties the model takes literally -/
def modelledReturns : List (String × String) :=
  [("RoundSolidShape.core", "self.operations[:len(self.sketch_1.core)]"),   -- `coreShell`, `T_C19_core_shell_split`
   ("RoundSolidShape.shell", "self.operations[len(self.sketch_1.core):]"),
   ("RoundHollowShape.shell", "self.operations"),                           -- `T_C19_annulus`
   ("LoftedShape.operations", "f.flatten_2d_list(self.lofts)"),             -- `operations`
   ("LoftedShape.grid", "self.lofts"),                                      -- `loftedGrid`
   ("Stack.grid", "[v0.grid for v0 in self.shapes]"),                 -- `stackGrid`
   ("Stack.operations", "f.flatten_2d_list([v0.operations for v0 in self.shapes])"),  -- `stackOps`
   ("Annulus.faces", "self.shell"), ("MappedSketch.faces", "self._faces"), ("Grid.faces", "f.flatten_2d_list(self.grid)")]

theorem T_C19_tie_returns :
    modelledReturns.all (fun m => (lookup m.1 CBV.Gen.c19Returns).map (·.2) == some m.2) = true := by decide

/-- what the model computes from the source text of a sketch class (`quad_map`, merges, the `grid` expression, `core`, `shell`)
    is what the probe instance of that class shows: number of faces, the faces (classes with their own `quad_map`), grid, core, shell -/
def srcMatchesTable (r : SketchRow) : Bool :=
  match sketchFromSource r.1 with
  | some s => s.n == r.2.1.length && s.grid == r.2.2.1 && s.core == r.2.2.2.1 && s.shell == r.2.2.2.2.1 &&
      (match lookup r.1 CBV.Gen.c19QuadMaps with
        | some q => canonCells q == r.2.1
        | none => true)
  | none => false

theorem T_C19_sketch_from_source :
    (CBV.Gen.c19Sketches.filter (fun r => (lookup r.1 CBV.Gen.c19GridSpecs).isSome)).all srcMatchesTable = true := by
  decide +kernel

/-- non-vacuity: the twelve classes with a fixed topology are in both tables -/
example : (CBV.Gen.c19Sketches.filter (fun r => (lookup r.1 CBV.Gen.c19GridSpecs).isSome)).length = 12 := by decide +kernel

/-- a prefix split `[faces[:c], faces[c:]]` (OneCoreDisk, HalfDisk, FourCoreDisk, Oval; with c = 1 also `[[faces[0]], faces[1:]]` of
    QuarterDisk / QuarterSplineDisk) for ANY number of faces n ≥ c: the first row holds the faces 0 … c−1, the second c … n−1, and
    the flattened grid is the list of faces in order (so `shape.operations[k]` is made of `faces[k]`) -/
theorem T_C19_split_grid (n c : Nat) (hc : c ≤ n) :
    evalGrid n [(0, 0, c + 1, 1), (0, c, 0, 1)] = some [List.range c, List.range' c (n - c)] ∧
    operations [List.range c, List.range' c (n - c)] = List.range n ∧
    (0 < n → evalRow n (1, 0, 0, 0) = evalRow n (0, 0, 2, 1)) := by
  have hsplit : List.range n = List.range' 0 c ++ List.range' c (n - c) := by
    have h := @List.range'_append_1 0 c (n - c)
    simp only [Nat.zero_add] at h
    rw [List.range_eq_range', h]; congr 1; omega
  refine ⟨?_, ?_, ?_⟩
  · have r1 : evalRow n (0, 0, c + 1, 1) = some (List.range c) := by
      simp only [evalRow, if_true, sliceIdx]
      simp only [show ¬ ((1 : Nat) = 0) by decide, if_false, show ¬ (c + 1 = 0) by omega, Nat.add_sub_cancel]
      congr 1
      rw [hsplit, List.filter_append, List.range_eq_range']
      have h1 : (List.range' 0 c).filter (fun i => decide (0 ≤ i) && decide (i < c) && (i - 0) % 1 == 0) = List.range' 0 c := by
        rw [List.filter_eq_self]; intro a ha; simp only [List.mem_range'_1] at ha; simp; omega
      have h2 : (List.range' c (n - c)).filter (fun i => decide (0 ≤ i) && decide (i < c) && (i - 0) % 1 == 0) = [] := by
        rw [List.filter_eq_nil_iff]; intro a ha; simp only [List.mem_range'_1] at ha; simp; omega
      rw [h1, h2]; simp
    have r2 : evalRow n (0, c, 0, 1) = some (List.range' c (n - c)) := by
      simp only [evalRow, if_true, sliceIdx]
      simp only [show ¬ ((1 : Nat) = 0) by decide, if_false]
      congr 1
      rw [hsplit, List.filter_append]
      have h1 : (List.range' 0 c).filter (fun i => decide (c ≤ i) && true && (i - c) % 1 == 0) = [] := by
        rw [List.filter_eq_nil_iff]; intro a ha; simp only [List.mem_range'_1] at ha; simp; omega
      have h2 : (List.range' c (n - c)).filter (fun i => decide (c ≤ i) && true && (i - c) % 1 == 0) = List.range' c (n - c) := by
        rw [List.filter_eq_self]; intro a ha; simp only [List.mem_range'_1] at ha; simp; omega
      rw [h1, h2]; simp
    simp [evalGrid, allSome, r1, r2]
  · rw [hsplit, List.range_eq_range']; simp [operations]
  · intro hn
    have key : ∀ p : Nat → Bool, p 0 = true → (∀ i, p (i + 1) = false) → (List.range n).filter p = [0] := by
      intro p h0 hs
      obtain ⟨m, rfl⟩ : ∃ m, n = m + 1 := ⟨n - 1, by omega⟩
      rw [List.range_succ_eq_map, List.filter_cons, if_pos h0, List.filter_map]
      have : (List.range m).filter (p ∘ Nat.succ) = [] := by
        rw [List.filter_eq_nil_iff]; intro a _; simp [hs a]
      rw [this]; rfl
    have e1 : evalRow n (1, 0, 0, 0) = some [0] := by simp [evalRow, hn]
    have e2 : evalRow n (0, 0, 2, 1) = some [0] := by
      simp only [evalRow, if_true, sliceIdx, show ¬ ((1 : Nat) = 0) by decide, show ¬ ((2 : Nat) = 0) by decide, if_false]
      congr 1
      apply key
      · rfl
      · intro i; simp
    rw [e1, e2]

/-- non-vacuity: FourCoreDisk's expression on its 12 faces -/
example : evalGrid 12 [(0, 0, 5, 1), (0, 4, 0, 1)] = some [[0, 1, 2, 3], [4, 5, 6, 7, 8, 9, 10, 11]] := by decide

/-- the split of the spline disks `[faces[::3], [face for i, face in enumerate(faces) if not i % 3 == 0]]` for ANY number of faces
    (Half: 6, full: 12, and every further merge of quarters): the two rows are duplicate free, every face is in exactly one of them,
    the first row holds exactly the faces with index ≡ 0 (mod 3) — `merge` appends the three faces of a quarter (core, shell, shell)
    block by block, so these are the core faces of the quarters — and the second the others -/
theorem T_C19_mod3_grid (n : Nat) :
    ∃ r0 r1, evalGrid n [(0, 0, 0, 3), (2, 3, 0, 0)] = some [r0, r1] ∧ r0.Nodup ∧ r1.Nodup ∧
      (r0 ++ r1).Perm (List.range n) ∧
      (∀ i, i ∈ r0 ↔ (i < n ∧ i % 3 = 0)) ∧ (∀ i, i ∈ r1 ↔ (i < n ∧ i % 3 ≠ 0)) := by
  refine ⟨(List.range n).filter (fun i => i % 3 == 0), (List.range n).filter (fun i => !(i % 3 == 0)), ?_,
    List.Nodup.filter _ List.nodup_range, List.Nodup.filter _ List.nodup_range, List.filter_append_perm _ _, ?_, ?_⟩
  · have r1 : evalRow n (0, 0, 0, 3) = some ((List.range n).filter (fun i => i % 3 == 0)) := by
      simp [evalRow, sliceIdx]
    have r2 : evalRow n (2, 3, 0, 0) = some ((List.range n).filter (fun i => !(i % 3 == 0))) := by
      simp [evalRow]
    simp [evalGrid, allSome, r1, r2]
  · intro i; simp [List.mem_filter]
  · intro i; simp [List.mem_filter]

/-- the quarter the spline disks are merged from: its face 0 has no point on the rim, faces 1 and 2 have (generated table row) -/
theorem T_C19_spline_quarter :
    (sketchRow? "QuarterSplineDisk").map (fun r => (List.range 3).map (touches r.2.1 r.2.2.2.2.2)) = some [false, true, true] := by
  decide

/-- non-vacuity / instances: the spline disks of the source take this branch (their face count exceeds the guard) -/
example : (sketchFromSource "HalfSplineDisk").map (·.grid) = some [[0, 3], [1, 2, 4, 5]] ∧
    (sketchFromSource "SplineDisk").map (·.grid) = some [[0, 3, 6, 9], [1, 2, 4, 5, 7, 8, 10, 11]] := by decide +kernel

/-- `Sketch.chops` (indexes into `shape.operations`, along which `LoftedShape.chop` chops the radial and the tangential direction)
    address operations that exist and lie outside the core, for every sketch class of the source -/
def chopsOk (name : String) : Bool :=
  match sketchFromSource name, lookup name CBV.Gen.c19Chops with
  | some s, some ch => ch.all (fun axis => axis.all (fun i => decide (s.core.length ≤ i) && decide (i < s.n)))
  | _, _ => false

theorem T_C19_chops_address_shell :
    ((CBV.Gen.c19GridSpecs.map (·.1)).filter (fun n => (sketchFromSource n).isSome)).all chopsOk = true := by decide +kernel

example : 12 ≤ ((CBV.Gen.c19GridSpecs.map (·.1)).filter (fun n => (sketchFromSource n).isSome)).length := by decide +kernel


/-! ### round 6c — the rim of the disk sketches on their exact positions, for every placement -/

section rim
open CBV.C11 (P3 DiskCls diskPts DiskOK)

/-- the combinatorial half, decided on the `quad_map` regenerated from the source: the `shell` the source's `grid` expression gives
    is the set of faces with a side whose two ends are both positions from `get_outer_points`; every index of a quad is a position -/
def rimEdgeOk (cl : DiskCls) : Bool :=
  match lookup cl.name CBV.Gen.c19QuadMaps, sketchFromSource cl.name with
  | some quads, some s =>
      s.shell == shellByEdges (fun i => decide (rimStart cl ≤ i)) quads && s.n == quads.length &&
      quads.all (fun q => (List.range 4).all (fun j => decide (q.getD j 0 < nPositions cl)))
  | _, _ => false

theorem T_C19_rim_edges_table :
    [DiskCls.oneCore, .quarter, .half, .fourCore].all rimEdgeOk = true := by decide +kernel

/-- **OneCoreDisk / QuarterDisk / HalfDisk / FourCoreDisk in ANY placement** (centre `c`, radius point `rp ≠ c`, unit normal `u`
    perpendicular to the radius; any ordered field, `h` with `2h² = 1` — ℝ with h = cos π/4 —, the class's ratios within `DiskOK`):
    a face is in `shell` iff it has a side both ends of which lie on the circle through the radius point
    (squared distance from the centre = r²), the positions being the ones the class's constructor computes -/
theorem T_C19_shell_iff_rim_edge {K : Type} [Field K] [LinearOrder K] [IsStrictOrderedRing K]
    (cl : DiskCls) (c rp u : P3 K) (h k dg : K) (hok : DiskOK cl h k dg) (hh : h * h + h * h = 1)
    (hu : P3.nsq u = 1) (hp : P3.dot u (P3.sub rp c) = 0) (hr : 0 < P3.nsq (P3.sub rp c))
    (quads : List (List Nat)) (s : SketchIdx)
    (hq : lookup cl.name CBV.Gen.c19QuadMaps = some quads) (hs : sketchFromSource cl.name = some s) (f : Nat) (hf : f < s.n) :
    f ∈ s.shell ↔
      ∃ j, j < 4 ∧
        P3.nsq (P3.sub ((diskPts cl c rp u h k dg).getD ((quads.getD f []).getD j 0) c) c) = P3.nsq (P3.sub rp c) ∧
        P3.nsq (P3.sub ((diskPts cl c rp u h k dg).getD ((quads.getD f []).getD ((j + 1) % 4) 0) c) c) = P3.nsq (P3.sub rp c) := by
  have hT : rimEdgeOk cl = true := by
    have := T_C19_rim_edges_table
    simp only [List.all_cons, List.all_nil, Bool.and_true, Bool.and_eq_true] at this
    cases cl
    · exact this.1
    · exact this.2.1
    · exact this.2.2.1
    · exact this.2.2.2
  simp only [rimEdgeOk, hq, hs, Bool.and_eq_true, beq_iff_eq, List.all_eq_true, List.mem_range, decide_eq_true_eq] at hT
  obtain ⟨⟨hshell, hn⟩, hidx⟩ := hT
  have hfl : f < quads.length := hn ▸ hf
  have hmem : quads.getD f [] ∈ quads := by
    rw [List.getD_eq_getElem?_getD, List.getElem?_eq_getElem hfl]
    exact List.getElem_mem hfl
  rw [hshell]
  simp only [shellByEdges, List.mem_filter, List.mem_range]
  rw [edgeOn_iff (fun i => P3.nsq (P3.sub ((diskPts cl c rp u h k dg).getD i c) c) = P3.nsq (P3.sub rp c))
    (fun i => decide (rimStart cl ≤ i)) (nPositions cl)
    (fun i hi => by
      rw [onCircle_iff cl c rp u h k dg hok hh hu hp hr i hi]
      simp)
    (quads.getD f []) (fun j hj => hidx _ hmem j hj)]
  exact ⟨fun h => h.2, fun h => ⟨hfl, h⟩⟩

/-- non-vacuity of the hypotheses: over ℝ with `h = √2/2`, ratios 4/5 and 9/10, a disk about (1, 2, 3) with radius point (1, 4, 3)
    and normal (0, 0, 1) -/
example : ∃ h : ℝ, h * h + h * h = 1 ∧ DiskOK DiskCls.fourCore h (4 / 5) (9 / 10) ∧ DiskOK DiskCls.oneCore h (4 / 5) (9 / 10) ∧
    P3.nsq (⟨0, 0, 1⟩ : P3 ℝ) = 1 ∧ P3.dot (⟨0, 0, 1⟩ : P3 ℝ) (P3.sub ⟨1, 4, 3⟩ ⟨1, 2, 3⟩) = 0 ∧
    0 < P3.nsq (P3.sub (⟨1, 4, 3⟩ : P3 ℝ) ⟨1, 2, 3⟩) := by
  have hs : Real.sqrt 2 * Real.sqrt 2 = 2 := Real.mul_self_sqrt (by norm_num)
  have hs0 : 0 < Real.sqrt 2 := Real.sqrt_pos.mpr (by norm_num)
  have hs2 : 7 / 5 < Real.sqrt 2 := by nlinarith
  refine ⟨Real.sqrt 2 / 2, by nlinarith, ?_, ?_, ?_, ?_, ?_⟩
  · refine ⟨by norm_num, by norm_num, by linarith, by nlinarith, by nlinarith⟩
  · exact ⟨by norm_num, by norm_num⟩
  · norm_num [P3.nsq, P3.dot]
  · norm_num [P3.dot, P3.sub]
  · norm_num [P3.nsq, P3.dot, P3.sub]

/-- the executable side (over ℚ no `h` has `2h² = 1`; the driver runs with the float witness of cos π/4 and a 1e-9 tolerance):
    FourCoreDisk's shell from the source is faces 4 … 11, and the executable `rimShell` with the float witness of cos π/4 finds
    the eight outer positions and the same faces on a placed instance -/
example : (sketchFromSource "FourCoreDisk").map (·.shell) = some [4, 5, 6, 7, 8, 9, 10, 11] ∧
    (lookup "FourCoreDisk" CBV.Gen.c19QuadMaps).map (fun q =>
      rimShell .fourCore q ⟨1, 2, 3⟩ ⟨1, 4, 3⟩ ⟨0, 0, 1⟩ (7071067811865476 / 10000000000000000) (4 / 5) (9 / 10))
      = some ([9, 10, 11, 12, 13, 14, 15, 16], [4, 5, 6, 7, 8, 9, 10, 11]) := by decide +kernel

end rim


/-! ### round 6e — where the tiers of a `RevolvedStack` are -/

section revolved
open CBV.C11 (P3 rotAbout)

/-- `RevolvedStack(base, angle, axis, origin, n)` for ANY sketch (faces given by their points), any number of tiers, any field:
    with `(cs, sn)` the cosine and sine of one step `angle / n` and `u` the unit axis, the operation `grid[k][i][j]` has as bottom
    face the face `base.grid[i][j]` turned about the axis by **k steps** — one Rodrigues rotation with the (cos, sin) pair
    `stepAngle cs sn k` obtained from the step by the addition formulas — and as top face the same turned by k + 1 steps; every
    such pair is again on the unit circle, and every point keeps its height along the axis and its distance from the origin of
    the rotation: tier k lies on the circles of the base points, k steps round -/
theorem T_C19_revolved_geometry {K : Type} [Field K] (cs sn : K) (u o : P3 K) (hu : P3.nsq u = 1)
    (hcs : cs * cs + sn * sn = 1) (n : Nat) (g : List (List (List (P3 K)))) :
    ∃ S, revolvedStack cs sn u o n g = some S ∧ S.length = n ∧
      (∀ k i j : Nat, k < n → ((S[k]?).bind (·[i]?)).bind (·[j]?) =
        ((g[i]?).bind (·[j]?)).map (fun f =>
          (f.map (rotAbout (stepAngle cs sn k).1 (stepAngle cs sn k).2 u o),
           f.map (rotAbout (stepAngle cs sn (k + 1)).1 (stepAngle cs sn (k + 1)).2 u o)))) ∧
      (∀ k, (stepAngle cs sn k).1 * (stepAngle cs sn k).1 + (stepAngle cs sn k).2 * (stepAngle cs sn k).2 = 1) ∧
      (∀ k p, P3.dot u (P3.sub (rotAbout (stepAngle cs sn k).1 (stepAngle cs sn k).2 u o p) o) = P3.dot u (P3.sub p o) ∧
        P3.nsq (P3.sub (rotAbout (stepAngle cs sn k).1 (stepAngle cs sn k).2 u o p) o) = P3.nsq (P3.sub p o)) := by
  obtain ⟨S, hS, hlen, hcell⟩ := T_C19_tstack (rotateFace cs sn u o) n g
  refine ⟨S, hS, hlen, ?_, stepAngle_unit cs sn hcs, ?_⟩
  · intro k i j hk
    rw [hcell k i j hk]
    cases (g[i]?).bind (·[j]?) with
    | none => rfl
    | some f => simp only [Option.map_some, iterate_rotateFace cs sn u o hu]
  · intro k p
    exact ⟨rotAbout_height _ _ u o p hu, rotAbout_dist _ _ u o p hu (stepAngle_unit cs sn hcs k)⟩

/-- non-vacuity (ℚ, the 3-4-5 angle about the y axis through the origin, a sketch of one face with one point (1, 7, 0), two tiers):
    the second tier goes from the point turned by two steps, (−7/25, 7, −24/25), to the point turned by three steps -/
example : (3 / 5 : Rat) * (3 / 5) + (4 / 5) * (4 / 5) = 1 ∧ P3.nsq (⟨0, 1, 0⟩ : P3 Rat) = 1 ∧
    (((revolvedStack (3 / 5 : Rat) (4 / 5) ⟨0, 1, 0⟩ ⟨0, 0, 0⟩ 3 [[[⟨1, 7, 0⟩]]]).bind (·[2]?)).bind (·[0]?)).bind (·[0]?)
      = some ([⟨-7 / 25, 7, -24 / 25⟩], [⟨-117 / 125, 7, -44 / 125⟩]) := by decide +kernel

end revolved


/-! ### round 6e — `MappedSketch.merge` -/

/-- `MappedSketch.merge` for ALL sketches (positions of any decidable type, any quads): the merged sketch has the faces of the first
    sketch followed by those of the second (so face `len(first) + f` is face `f` of the second: what `faceCount` and `T_C19_mod3_grid`
    rely on); every index of the first sketch still addresses its point; every re-indexed index of the second sketch addresses the
    very point it addressed before; a point of the second sketch that the first one has too gets the first sketch's index (the two
    sketches are stitched), and two indices of the second sketch at the same point get the same new index -/
theorem T_C19_merge {α : Type} [DecidableEq α] (s1 s2 : Mapped α) (d : α) :
    (mergeMapped s1 s2 d).quads.length = s1.quads.length + s2.quads.length ∧
    (mergeMapped s1 s2 d).quads.take s1.quads.length = s1.quads ∧
    (∀ i, i < s1.positions.length → (mergeMapped s1 s2 d).point d i = s1.point d i) ∧
    (∀ i, i < s2.positions.length →
      (mergeMapped s1 s2 d).point d (reindex s1.positions s2.positions d i) = s2.point d i ∧
      (s2.point d i ∈ s1.positions →
        reindex s1.positions s2.positions d i = s1.positions.idxOf (s2.point d i) ∧
        reindex s1.positions s2.positions d i < s1.positions.length) ∧
      ∀ i', s2.point d i' = s2.point d i → reindex s1.positions s2.positions d i' = reindex s1.positions s2.positions d i) := by
  refine ⟨by simp [mergeMapped], by simp [mergeMapped], ?_, ?_⟩
  · intro i hi
    simp [Mapped.point, mergeMapped, mergePositions, List.getD_eq_getElem?_getD, List.getElem?_append_left hi]
  · intro i hi
    have hmem2 : s2.positions.getD i d ∈ s2.positions := by
      rw [List.getD_eq_getElem?_getD, List.getElem?_eq_getElem hi]
      exact List.getElem_mem hi
    have hmem : s2.positions.getD i d ∈ mergePositions s1.positions s2.positions := by
      unfold mergePositions
      by_cases h1 : s2.positions.getD i d ∈ s1.positions
      · exact List.mem_append_left _ h1
      · exact List.mem_append_right _ (List.mem_filter.mpr ⟨hmem2, by simpa using h1⟩)
    refine ⟨?_, ?_, ?_⟩
    · have hlt : (mergePositions s1.positions s2.positions).idxOf (s2.positions.getD i d) <
          (mergePositions s1.positions s2.positions).length := List.idxOf_lt_length_iff.mpr hmem
      simp only [Mapped.point, mergeMapped, reindex]
      rw [List.getD_eq_getElem?_getD, List.getElem?_eq_getElem hlt]
      simp
    · intro h1
      have : reindex s1.positions s2.positions d i = s1.positions.idxOf (s2.point d i) := by
        simp only [reindex, mergePositions, Mapped.point]
        exact List.idxOf_append_of_mem h1
      exact ⟨this, this ▸ List.idxOf_lt_length_iff.mpr h1⟩
    · intro i' h
      simp only [reindex]
      simp only [Mapped.point] at h
      rw [h]

/-- non-vacuity: two quarters sharing an edge (points 11, 12): the second quarter's quad [0,1,2,3] over (11, 14, 15, 12) becomes
    [1, 4, 5, 2] -/
example : (mergeMapped (⟨[10, 11, 12, 13], [[0, 1, 2, 3]]⟩ : Mapped Nat) ⟨[11, 14, 15, 12], [[0, 1, 2, 3]]⟩ 0).positions =
      [10, 11, 12, 13, 14, 15] ∧
    (mergeMapped (⟨[10, 11, 12, 13], [[0, 1, 2, 3]]⟩ : Mapped Nat) ⟨[11, 14, 15, 12], [[0, 1, 2, 3]]⟩ 0).quads =
      [[0, 1, 2, 3], [1, 4, 5, 2]] := by decide


/-! ### round 6f — `WrappedDisk`: what `shell` is, for every placement -/

section wrapped
open CBV.C11 (P3 wrappedPts)

/-- the combinatorial half on the `quad_map` regenerated from the source: `shell` (the source's `grid[-1]`) is the set of faces with a
    side between two of the four outer positions (index ≥ 8), `core` is the inner square, and the four faces of the ring between
    square and circle are in neither list (the known finding) although none of them has such a side -/
def wrappedEdgeOk : Bool :=
  match lookup "WrappedDisk" CBV.Gen.c19QuadMaps, sketchFromSource "WrappedDisk" with
  | some quads, some s =>
      s.shell == shellByEdges (fun i => decide (8 ≤ i)) quads && s.n == quads.length &&
      quads.all (fun q => (List.range 4).all (fun j => decide (q.getD j 0 < 12))) &&
      s.core == [0] && s.shell == [5, 6, 7, 8] &&
      [1, 2, 3, 4].all (fun f => !s.core.contains f && !s.shell.contains f && !edgeOn (fun i => decide (8 ≤ i)) (quads.getD f []))
  | _, _ => false

theorem T_C19_wrapped_edges_table : wrappedEdgeOk = true := by decide +kernel

/-- **WrappedDisk in ANY placement** (centre `c`, corner point ≠ centre, unit normal perpendicular to centre → corner, any ordered
    field, `0 < diagonal_ratio < 1`, the circle inside the square: `0 < radius / |corner − centre| < 1`): a face is in `shell` iff it
    has a side both ends of which are at the distance of the corner point from the centre — the four corners of the square, so
    such a side is a side of the square: `shell` is exactly the set of faces on the outer boundary. (`core ++ shell` is still not
    all faces: the ring between square and circle is in neither list — `T_C19_wrapped_counterexample`, `T_C19_wrapped_edges_table`.) -/
theorem T_C19_wrapped_shell_iff_boundary_edge {K : Type} [Field K] [LinearOrder K] [IsStrictOrderedRing K]
    (c corner u : P3 K) (h dg radius wn : K) (hd0 : 0 < dg) (hd1 : dg < 1) (hr0 : 0 < radius / wn) (hr1 : radius / wn < 1)
    (hu : P3.nsq u = 1) (hp : P3.dot u (P3.sub corner c) = 0) (hr : 0 < P3.nsq (P3.sub corner c))
    (quads : List (List Nat)) (s : SketchIdx)
    (hq : lookup "WrappedDisk" CBV.Gen.c19QuadMaps = some quads) (hs : sketchFromSource "WrappedDisk" = some s)
    (f : Nat) (hf : f < s.n) :
    f ∈ s.shell ↔
      ∃ j, j < 4 ∧
        P3.nsq (P3.sub ((wrappedPts c corner u h dg radius wn).getD ((quads.getD f []).getD j 0) c) c)
          = P3.nsq (P3.sub corner c) ∧
        P3.nsq (P3.sub ((wrappedPts c corner u h dg radius wn).getD ((quads.getD f []).getD ((j + 1) % 4) 0) c) c)
          = P3.nsq (P3.sub corner c) := by
  have hT := T_C19_wrapped_edges_table
  simp only [wrappedEdgeOk, hq, hs, Bool.and_eq_true, beq_iff_eq, List.all_eq_true, List.mem_range, decide_eq_true_eq] at hT
  obtain ⟨⟨⟨⟨⟨hshell, hn⟩, hidx⟩, _⟩, _⟩, _⟩ := hT
  have hfl : f < quads.length := hn ▸ hf
  have hmem : quads.getD f [] ∈ quads := by
    rw [List.getD_eq_getElem?_getD, List.getElem?_eq_getElem hfl]
    exact List.getElem_mem hfl
  rw [hshell]
  simp only [shellByEdges, List.mem_filter, List.mem_range]
  rw [edgeOn_iff (fun i => P3.nsq (P3.sub ((wrappedPts c corner u h dg radius wn).getD i c) c) = P3.nsq (P3.sub corner c))
    (fun i => decide (8 ≤ i)) 12
    (fun i hi => by
      rw [wrapped_onCorner_iff c corner u h dg radius wn hd0 hd1 hr0 hr1 hu hp hr i hi]
      simp)
    (quads.getD f []) (fun j hj => hidx _ hmem j hj)]
  exact ⟨fun h => h.2, fun h => ⟨hfl, h⟩⟩

/-- non-vacuity (ℚ suffices here: no `h` is needed for the quarter turns): centre (1, 2, 3), corner (3, 2, 3), normal (0, 0, 1),
    `diagonal_ratio` 9/10, radius 1 of a half diagonal 2 -/
example : (0 : Rat) < 9 / 10 ∧ (9 / 10 : Rat) < 1 ∧ (0 : Rat) < 1 / 2 ∧ (1 / 2 : Rat) < 1 ∧ P3.nsq (⟨0, 0, 1⟩ : P3 Rat) = 1 ∧
    P3.dot (⟨0, 0, 1⟩ : P3 Rat) (P3.sub ⟨3, 2, 3⟩ ⟨1, 2, 3⟩) = 0 ∧ 0 < P3.nsq (P3.sub (⟨3, 2, 3⟩ : P3 Rat) ⟨1, 2, 3⟩) ∧
    (sketchFromSource "WrappedDisk").map (·.shell) = some [5, 6, 7, 8] := by decide +kernel

end wrapped


/-! ### round 6g — `Oval`: shell = the faces with a side on the outline -/

section oval
open CBV.C11 (P3 ovalPts frame ovalL)

/-- the combinatorial half on the regenerated `quad_map` / `grid` expression of `Oval`: `shell` = the faces with a side between two
    positions from the two `get_outer_points` lists (index ≥ 12), 16 faces, every quad index one of the 22 positions -/
def ovalEdgeOk : Bool :=
  match lookup "Oval" CBV.Gen.c19QuadMaps, sketchFromSource "Oval" with
  | some quads, some s =>
      s.shell == shellByEdges (fun i => decide (12 ≤ i)) quads && s.n == quads.length &&
      quads.all (fun q => (List.range 4).all (fun j => decide (q.getD j 0 < 22))) &&
      s.core == [0, 1, 2, 3, 4, 5] && s.shell == [6, 7, 8, 9, 10, 11, 12, 13, 14, 15]
  | _, _ => false

theorem T_C19_oval_edges_table : ovalEdgeOk = true := by decide +kernel

/-- a point of the placed oval lies on the outline: its distance to the nearer centre is the radius (`R2` = squared radius) -/
def onOvalOutline {K : Type} [Field K] [LinearOrder K] (c1 c2 : P3 K) (R2 : K) (p : P3 K) : Prop :=
  (P3.nsq (P3.sub p c1) = R2 ∧ R2 ≤ P3.nsq (P3.sub p c2)) ∨ (P3.nsq (P3.sub p c2) = R2 ∧ R2 ≤ P3.nsq (P3.sub p c1))

/-- the positions `Oval(center_point_1, center_point_2, normal, radius)` computes, in ANY placement: on the outline iff they come
    from one of the two `get_outer_points` lists -/
theorem oval_position_on_outline_iff {K : Type} [Field K] [LinearOrder K] [IsStrictOrderedRing K]
    (c1 c2 u : P3 K) (h k dg radius wd : K) (hk0 : 0 < k) (hk1 : k < 1) (hd0 : 0 < dg) (hd1 : dg < 1) (hh0 : 0 < h)
    (hh : h * h + h * h = 1) (hr : 0 < radius) (hw : 0 < wd) (hu : P3.nsq u = 1) (hp : P3.dot u (P3.sub c2 c1) = 0)
    (hR : 0 < P3.nsq (P3.smul (radius / wd) (P3.cross u (P3.sub c2 c1)))) (i : Nat) (hi : i < 22) :
    onOvalOutline c1 c2 (P3.nsq (P3.smul (radius / wd) (P3.cross u (P3.sub c2 c1))))
      ((ovalPts c1 c2 u h k dg radius wd).getD i c1) ↔ 12 ≤ i := by
  have hαt : radius / wd * (wd / radius) = 1 := by
    have := ne_of_gt hr; have := ne_of_gt hw; field_simp
  have ht : 0 < wd / radius := div_pos hw hr
  obtain ⟨hz, hon⟩ := oval_onOutline_iff h k dg (wd / radius) hk0 hk1 hd0 hd1 hh0 hh ht i hi
  have hρ : P3.dot u (P3.smul (radius / wd) (P3.cross u (P3.sub c2 c1))) = 0 := CBV.C11.dot_cross_self _ _ _
  have hc2 := CBV.C11.oval_c2 (radius / wd) (wd / radius) u c1 c2 hαt hu hp
  rw [← hon, CBV.C11.ovalPts_frame c1 c2 u h k dg radius wd hr hw hu hp, CBV.C11.getD_map_frame]
  generalize (ovalL h k dg (wd / radius)).getD i ⟨0, 0, 0⟩ = p at hz ⊢
  generalize hρd : P3.smul (radius / wd) (P3.cross u (P3.sub c2 c1)) = ρ at hR hρ hc2 ⊢
  unfold onOvalOutline onOutlineL
  have d1 : P3.nsq (P3.sub (frame c1 ρ u p) c1) = (p.x * p.x + p.y * p.y) * P3.nsq ρ := by
    rw [CBV.C11.nsq_frame _ _ _ _ hu hρ, hz]; ring
  have d2 : P3.nsq (P3.sub (frame c1 ρ u p) c2) = (p.x * p.x + (p.y + wd / radius) * (p.y + wd / radius)) * P3.nsq ρ := by
    conv => lhs; rw [hc2]
    rw [nsq_frame_sub _ _ _ _ _ hu hρ, hz]; ring
  rw [d1, d2]
  have eqv : ∀ A : K, (A * P3.nsq ρ = P3.nsq ρ ↔ A = 1) := by
    intro A
    constructor
    · intro e
      have e' : (A - 1) * P3.nsq ρ = 0 := by linear_combination e
      rcases mul_eq_zero.mp e' with h0 | h0
      · linarith
      · exact absurd h0 (ne_of_gt hR)
    · intro e; rw [e]; ring
  have lev : ∀ B : K, (P3.nsq ρ ≤ B * P3.nsq ρ ↔ 1 ≤ B) := by
    intro B
    constructor
    · intro e
      by_contra hlt
      have : B * P3.nsq ρ < 1 * P3.nsq ρ := mul_lt_mul_of_pos_right (not_le.mp hlt) hR
      linarith
    · intro e
      have : 1 * P3.nsq ρ ≤ B * P3.nsq ρ := mul_le_mul_of_nonneg_right e hR.le
      linarith
  rw [eqv, eqv, lev, lev]

/-- **Oval in ANY placement** (two centres, unit normal ⊥ c1 → c2, radius > 0, `wd` > 0 the witness of `|normal × (c2 − c1)|`, any
    ordered field with `2h² = 1`, `0 < core_ratio, diagonal_ratio < 1`): a face is in `shell` iff it has a side both ends of which lie
    on the outline (distance to the nearer centre = radius) -/
theorem T_C19_oval_shell_iff_outline_edge {K : Type} [Field K] [LinearOrder K] [IsStrictOrderedRing K]
    (c1 c2 u : P3 K) (h k dg radius wd : K) (hk0 : 0 < k) (hk1 : k < 1) (hd0 : 0 < dg) (hd1 : dg < 1) (hh0 : 0 < h)
    (hh : h * h + h * h = 1) (hr : 0 < radius) (hw : 0 < wd) (hu : P3.nsq u = 1) (hp : P3.dot u (P3.sub c2 c1) = 0)
    (hR : 0 < P3.nsq (P3.smul (radius / wd) (P3.cross u (P3.sub c2 c1))))
    (quads : List (List Nat)) (s : SketchIdx)
    (hq : lookup "Oval" CBV.Gen.c19QuadMaps = some quads) (hs : sketchFromSource "Oval" = some s) (f : Nat) (hf : f < s.n) :
    f ∈ s.shell ↔
      ∃ j, j < 4 ∧
        onOvalOutline c1 c2 (P3.nsq (P3.smul (radius / wd) (P3.cross u (P3.sub c2 c1))))
          ((ovalPts c1 c2 u h k dg radius wd).getD ((quads.getD f []).getD j 0) c1) ∧
        onOvalOutline c1 c2 (P3.nsq (P3.smul (radius / wd) (P3.cross u (P3.sub c2 c1))))
          ((ovalPts c1 c2 u h k dg radius wd).getD ((quads.getD f []).getD ((j + 1) % 4) 0) c1) := by
  have hT := T_C19_oval_edges_table
  simp only [ovalEdgeOk, hq, hs, Bool.and_eq_true, beq_iff_eq, List.all_eq_true, List.mem_range, decide_eq_true_eq] at hT
  obtain ⟨⟨⟨⟨hshell, hn⟩, hidx⟩, _⟩, _⟩ := hT
  have hfl : f < quads.length := hn ▸ hf
  have hmem : quads.getD f [] ∈ quads := by
    rw [List.getD_eq_getElem?_getD, List.getElem?_eq_getElem hfl]
    exact List.getElem_mem hfl
  rw [hshell]
  simp only [shellByEdges, List.mem_filter, List.mem_range]
  rw [edgeOn_iff (fun i => onOvalOutline c1 c2 (P3.nsq (P3.smul (radius / wd) (P3.cross u (P3.sub c2 c1))))
      ((ovalPts c1 c2 u h k dg radius wd).getD i c1))
    (fun i => decide (12 ≤ i)) 22
    (fun i hi => by
      rw [oval_position_on_outline_iff c1 c2 u h k dg radius wd hk0 hk1 hd0 hd1 hh0 hh hr hw hu hp hR i hi]
      simp)
    (quads.getD f []) (fun j hj => hidx _ hmem j hj)]
  exact ⟨fun h => h.2, fun h => ⟨hfl, h⟩⟩

/-- non-vacuity of the hypotheses over ℝ: `h = √2/2`, ratios 4/5 and 9/10, centres (0,0,0) and (3,0,0), normal (0,0,1), radius 1,
    `wd = |normal × (c2 − c1)| = 3` -/
example : ∃ h : ℝ, 0 < h ∧ h * h + h * h = 1 ∧ P3.nsq (⟨0, 0, 1⟩ : P3 ℝ) = 1 ∧
    P3.dot (⟨0, 0, 1⟩ : P3 ℝ) (P3.sub ⟨3, 0, 0⟩ ⟨0, 0, 0⟩) = 0 ∧
    0 < P3.nsq (P3.smul ((1 : ℝ) / 3) (P3.cross ⟨0, 0, 1⟩ (P3.sub ⟨3, 0, 0⟩ ⟨0, 0, 0⟩))) := by
  have hs : Real.sqrt 2 * Real.sqrt 2 = 2 := Real.mul_self_sqrt (by norm_num)
  have hs0 : 0 < Real.sqrt 2 := Real.sqrt_pos.mpr (by norm_num)
  refine ⟨Real.sqrt 2 / 2, by positivity, by nlinarith, ?_, ?_, ?_⟩
  · norm_num [P3.nsq, P3.dot]
  · norm_num [P3.dot, P3.sub]
  · norm_num [P3.nsq, P3.dot, P3.sub, P3.smul, P3.cross]

end oval

/-! ### round sketches and shapes: `decide` on the tables generated from the current source -/

/-! ### beyond the probe instances -/

/-- `RoundSolidShape.core / .shell` for *every* sketch whose `core` is the first row of its grid (all disk sketches), any sizes:
    `operations[:len(core)]` is exactly the first row, `operations[len(core):]` are exactly the other rows in order, and the two
    lists partition the operations. -/
theorem T_C19_core_shell_split {α : Type} (core : List α) (rest : List (List α)) :
    (operations (core :: rest)).take core.length = core ∧
    (operations (core :: rest)).drop core.length = operations rest ∧
    (operations (core :: rest)).take core.length ++ (operations (core :: rest)).drop core.length = operations (core :: rest) := by
  simp [operations]

/-- `Annulus` / `ExtrudedRing` with any number of segments n > 0: every face has a point on the outer circle, so
    `shell = all faces`, `core = []` (`RoundHollowShape.shell = operations`) is the split the property asks for — and no face
    has *only* rim points (the inner circle is not on the outer surface). -/
theorem T_C19_annulus (n k : Nat) (hk : k < n) :
    (annulusCells n).length = n ∧ touches (annulusCells n) (annulusRim n) k = true ∧
    (2 * k) ∈ (annulusCells n).getD k [] ∧ (2 * k) ∉ annulusRim n := by
  refine ⟨by simp [annulusCells], ?_, ?_, ?_⟩
  · simp only [touches, annulusCells, annulusRim]
    simp only [List.getD_eq_getElem?_getD, List.getElem?_map, List.getElem?_range hk, Option.map_some, Option.getD_some,
      List.any_cons, List.contains_eq_mem, List.mem_map, List.mem_range]
    simp
    exact Or.inr (Or.inl hk)
  · simp [annulusCells, hk]
  · simp only [annulusRim, List.mem_map, List.mem_range, not_exists, not_and]
    intro a _
    omega

/-- non-vacuity: a ring of 6 segments, the last face closes the ring -/
example : (annulusCells 6).getD 5 [] = [10, 11, 1, 0] ∧ touches (annulusCells 6) (annulusRim 6) 5 = true := by decide

/-- the parametric annulus is the one of the source: for the sizes in the generated table (4, 8, 5 segments) its faces and
    rim, numbered by first appearance, are the table rows read off the probe instances -/
def annulusMatchesTable (n : Nat) : Bool :=
  match sketchRow? s!"Annulus{n}" with
  | some r => r.2.1 == canonCells (annulusCells n) && r.2.2.2.2.2 == canonPoints (annulusCells n) (annulusRim n) &&
      r.2.2.2.1 == [] && r.2.2.2.2.1 == List.range n
  | none => false

theorem T_C19_annulus_table : [4, 5, 8].all annulusMatchesTable = true := by decide

/-- `WrappedDisk` is a disk inside a square: its middle ring is neither in `core` nor in `shell` (see below) -/
def exceptions : List String := ["WrappedDisk", "RoundSolidShape(WrappedDisk)"]

/-- core ++ shell is a partition of the faces; the grid is a partition of the faces; a face is in `shell` iff one of its
    points is on the outer rim; `RoundSolidShape.core/shell` (take/drop on the flattened grid) are `core`/`shell` -/
def sketchOk (r : SketchRow) : Bool :=
  let n := r.2.1.length
  isPerm (operations r.2.2.1) n && isPerm (r.2.2.2.1 ++ r.2.2.2.2.1) n &&
  (List.range n).all (fun k => r.2.2.2.2.1.contains k == touches r.2.1 r.2.2.2.2.2 k) &&
  (coreShell r == (r.2.2.2.1, r.2.2.2.2.1))

theorem T_C19_core_shell :
    (CBV.Gen.c19Sketches.filter (fun r => !exceptions.contains r.1)).all sketchOk = true := by decide

/-- for a shape: core ++ shell partition the operations, an operation is in `shell` iff one of its 8 points is on the
    outer surface, the operations are the flattened sketch grid and `core`/`shell` are `RoundSolidShape.core/shell`
    of the model -/
def shapeOk (r : ShapeRow) : Bool :=
  let n := r.2.2.1.length
  isPerm (r.2.2.2.2.1 ++ r.2.2.2.2.2.1) n &&
  (List.range n).all (fun k => r.2.2.2.2.2.1.contains k == touches r.2.2.1 r.2.2.2.2.2.2 k) &&
  (r.2.1 == "-" ||
    match sketchRow? r.2.1 with
    | some s => r.2.2.2.1 == operations s.2.2.1 &&
        r.2.2.2.2.1.map (r.2.2.2.1.getD · 0) == (coreShell s).1 && r.2.2.2.2.2.1.map (r.2.2.2.1.getD · 0) == (coreShell s).2
    | none => false)

theorem T_C19_shape_core_shell :
    (CBV.Gen.c19Shapes.filter (fun r => !exceptions.contains r.1)).all shapeOk = true := by decide

/-- non-vacuity: the tables are not empty and hold the shipped shapes -/
example : 12 ≤ (CBV.Gen.c19Sketches.filter (fun r => !exceptions.contains r.1)).length ∧
    ["Cylinder", "SemiCylinder", "Frustum", "Elbow", "ExtrudedRing8", "Hemisphere"].all
      (fun n => (CBV.Gen.c19Shapes.filter (fun r => !exceptions.contains r.1)).any (fun r => r.1 == n)) = true := by decide

/-- `WrappedDisk`: `shell` is exactly the set of faces on the outer rim and `core`/`shell` are disjoint;
    `RoundSolidShape(WrappedDisk)`: core ++ shell partition the operations and every operation on the rim is in `shell` -/
def wrappedPartialOk : Bool :=
  (match sketchRow? "WrappedDisk" with
    | some r => (List.range r.2.1.length).all (fun k => r.2.2.2.2.1.contains k == touches r.2.1 r.2.2.2.2.2 k) &&
        r.2.2.2.1.all (fun k => !r.2.2.2.2.1.contains k)
    | none => false) &&
  (match shapeRow? "RoundSolidShape(WrappedDisk)" with
    | some r => isPerm (r.2.2.2.2.1 ++ r.2.2.2.2.2.1) r.2.2.1.length &&
        (List.range r.2.2.1.length).all (fun k => !touches r.2.2.1 r.2.2.2.2.2.2 k || r.2.2.2.2.2.1.contains k)
    | none => false)

theorem T_C19_wrapped_partial : wrappedPartialOk = true := by decide

/-- … but the full statement fails there: the four faces between the inner square and the circle are in neither list of
    the sketch, and `RoundSolidShape(WrappedDisk).shell` holds them although they do not touch the outer surface
    (known finding `WrappedDisk.core/shell:middle-ring`) -/
theorem T_C19_wrapped_counterexample :
    (sketchRow? "WrappedDisk").map sketchOk = some false ∧
    (shapeRow? "RoundSolidShape(WrappedDisk)").map shapeOk = some false := by decide

end CBV.C19
