/- C19 — property theorems.  Stub. -/
import CBV.Model.C19

namespace CBV.C19

end CBV.C19
