/-
C03 — property theorems.  Cell count and total expansion returned by `Chop.calculate` obey blockMesh's
geometric-progression law.

Reading guide
* `geomSum r n = 1 + r + … + r^(n-1)`; blockMesh, given `n` cells and total expansion `T` on an edge of
  length `L`, uses the ratio `r > 0` with `r^(n-1) = T` (unique: `T_C03_ratio_unique`) and lays out the
  cells `cell L n r i = firstCell L n r * r^i`, `firstCell L n r = L / geomSum r n` (`T_C03_cells`).
* `calculate t L o v` is the model of `Chop(**v).calculate(L)`; `o` carries what the implementation got
  from `log`/`int`/`brentq`/`**`, accepted only when it meets the exact specification of the step; the
  theorems are stated for the exact tolerance `T0` (all slack 0) unless they hold for every `t`.
* The relation table, `TOL` and the plans are those generated from the source at every run.
-/
import CBV.Lemmas.C03Calc
import CBV.Lemmas.C03Geom
import CBV.Lemmas.C03Mono
import CBV.Lemmas.C03Hist
import CBV.Lemmas.C03Guards
import CBV.Lemmas.C03Trans
import CBV.Lemmas.C03Rev
import CBV.Lemmas.C03CalcGen
import CBV.Lemmas.C03Decode
import CBV.Lemmas.C03Sem
import CBV.Gen.TC03

namespace CBV.C03

/-! ### 1. the closure loop of `Chop.calculate` on the generated relation table -/

/-- twelve relations; for each of the ten pairs the loop terminates within 3 of its 12 rounds with all five
    values known, after exactly three relation calls each producing a new value from known ones -/
theorem T_C03_closure :
    relTable.map List.length = some 12 ∧
    ∀ K ∈ pairs, planSound K = true ∧
      (plan K).map (fun p => (p.1.length, decide (p.2.1 ≤ 3), p.2.2)) = some (3, true, true) := by decide

/-- for every set of given quantities the plan is sound, and the loop succeeds iff at least two are given -/
theorem T_C03_closure_all :
    ∀ K ∈ knownSets, planSound K = true ∧ (plan K).map (fun p => p.2.2) = some (decide (2 ≤ K.length)) := by
  decide

/-- which relation produces which value, for every pair (names as in the source: `out<in1+in2`) -/
theorem T_C03_closure_table :
    pairs.map (fun K => (plan K).map (fun p => p.1.map Rel.name)) =
      [some ["c2c_expansion<count+start_size", "total_expansion<count+c2c_expansion", "end_size<start_size+total_expansion"],
       some ["c2c_expansion<count+end_size", "start_size<count+c2c_expansion", "total_expansion<count+c2c_expansion"],
       some ["start_size<count+c2c_expansion", "total_expansion<count+c2c_expansion", "end_size<start_size+total_expansion"],
       some ["c2c_expansion<count+total_expansion", "start_size<count+c2c_expansion", "end_size<start_size+total_expansion"],
       some ["total_expansion<start_size+end_size", "count<total_expansion+start_size", "c2c_expansion<count+end_size"],
       some ["count<start_size+c2c_expansion", "total_expansion<count+c2c_expansion", "end_size<start_size+total_expansion"],
       some ["count<total_expansion+start_size", "end_size<start_size+total_expansion", "c2c_expansion<count+end_size"],
       some ["count<end_size+c2c_expansion", "start_size<count+c2c_expansion", "total_expansion<count+c2c_expansion"],
       some ["start_size<end_size+total_expansion", "count<total_expansion+start_size", "c2c_expansion<count+end_size"],
       some ["count<total_expansion+c2c_expansion", "start_size<count+c2c_expansion", "end_size<start_size+total_expansion"]] := by
  decide

/-- The loop constants of `Chop.calculate` read from its source text: exactly one `range(N)` loop (its bound is the
    `calcRounds` the plans above were computed with, and it leaves a margin over the 3 rounds ever needed), and the one
    set literal is the five quantities `allFive` tests for. -/
theorem T_C03_loop_constants :
    CBV.Gen.c03CalcRounds = [calcRounds] ∧ 4 ≤ calcRounds ∧
    CBV.Gen.c03RequiredKeys.map (fun ks => ks.mapM Q.ofString?) = [some [.c2c, .count, .end_, .start, .total]] := by
  decide

/-- The `_validate_*` calls and the number of explicit `raise` statements of every relation, read from the source text
    at every run, are exactly the guards the model functions implement (`modelGuards`), relation by relation and in
    the order of the relation table. -/
theorem T_C03_guard_table :
    guardTable = some modelGuards ∧ relTable = some (modelGuards.map (·.1)) := by decide

/-- … and the model functions really implement them: a relation that returns has passed every validator listed for it
    (positive length, count `>= 1` resp. `> 1`, positive sizes, non-zero ratios), for every tolerance and solver answer. -/
theorem T_C03_guards_hold {t : Tol} {L : ℚ} {o : Oracle} {v v' : Vals} :
    ∀ p ∈ modelGuards, applyRel t L o v p.1 = .ok v' → ∀ g ∈ p.2.1, g.holds L v :=
  guards_hold

example : (Guard.size .end_).holds 1 { count := some 3, end_ := some (1 / 2) } ∧
    ¬ (Guard.ratio .c2c).holds 1 { count := some 3, c2c := some 0 } := by
  constructor
  · exact ⟨1 / 2, rfl, by norm_num⟩
  · rintro ⟨x, hx, hne⟩
    simp only [Vals.get, Option.some.injEq] at hx
    exact hne hx.symm

/-- a given count is the returned count, for every set of given parameters (no relation recomputes it) -/
theorem T_C03_given_count {t : Tol} {L : ℚ} {o : Oracle} {v res : Vals} {n : ℕ}
    (h : calculate t L o v = .ok res) (hn : v.count = some n) : res.count = some n :=
  given_count h hn

/-- `__post_init__`: a single parameter is completed by `c2c_expansion = 1`; a count is clamped to `>= 1` -/
theorem T_C03_defaults (c : ℤ) (x : ℚ) :
    postInit (some c) none none none none = { count := some (max c 1).toNat, c2c := some 1 } ∧
    postInit none (some x) none none none = { start := some x, c2c := some 1 } ∧
    postInit none none (some x) none none = { end_ := some x, c2c := some 1 } ∧
    postInit none none none none (some x) = { c2c := some 1, total := some x } ∧
    postInit none none none (some x) none = { c2c := some x } ∧
    1 ≤ (max c 1).toNat := by
  refine ⟨rfl, rfl, rfl, rfl, rfl, ?_⟩
  omega

/-- a count written as a float (`count = length / size`) is truncated before anything is calculated: the chop holds
    the whole number of cells `n` with `n ≤ q < n + 1` (one cell for `q < 1`), and that `n` is what every relation sees -/
theorem T_C03_count_truncation (q : ℚ) (x : ℚ) :
    (postInit (some (countOfRat q)) none none (some x) none).count = some (max (countOfRat q) 1).toNat ∧
    1 ≤ (max (countOfRat q) 1).toNat ∧
    (1 ≤ q → ((max (countOfRat q) 1).toNat : ℚ) ≤ q ∧ q < ((max (countOfRat q) 1).toNat : ℚ) + 1) ∧
    (q < 1 → (max (countOfRat q) 1).toNat = 1) := by
  have hle := Rat.floor_le q
  have hlt := Rat.lt_floor_add_one q
  unfold countOfRat
  refine ⟨rfl, by omega, ?_, ?_⟩
  · intro h1
    have hf : 1 ≤ q.floor := Rat.le_floor_iff.mpr (by simpa using h1)
    have hm : max q.floor 1 = q.floor := max_eq_left hf
    have hc : (((max q.floor 1).toNat : ℕ) : ℚ) = (q.floor : ℚ) := by
      rw [hm]
      have : ((q.floor.toNat : ℕ) : ℤ) = q.floor := Int.toNat_of_nonneg (by omega)
      exact_mod_cast this
    rw [hc]
    refine ⟨hle, ?_⟩
    have : ((q.floor + 1 : ℤ) : ℚ) = (q.floor : ℚ) + 1 := by push_cast; ring
    rw [← this]; exact hlt
  · intro h1
    have hf : q.floor < 1 := Rat.floor_lt_iff.mpr (by simpa using h1)
    have hm : max q.floor 1 = 1 := max_eq_right (by omega)
    rw [hm]; rfl

example : countOfRat (15 / 2) = 7 ∧ countOfRat 10 = 10 ∧ (max (countOfRat (1 / 2)) 1).toNat = 1 := by decide +kernel

/-! ### 2. the progression -/

/-- the cells fill the edge, consecutive cells have ratio `r`, last / first = `r^(n-1)` -/
theorem T_C03_cells {L r : ℚ} {n : ℕ} (hr : 0 < r) (hn : 0 < n) :
    cellSum L n r n = L ∧ (∀ i, cell L n r (i + 1) = cell L n r i * r) ∧
      lastCell L n r = firstCell L n r * r ^ (n - 1) := by
  refine ⟨?_, fun i => cell_succ L r n i, rfl⟩
  rw [cellSum_eq, firstCell_mul (le_of_lt hr) hn]

example : cellSum 1 4 2 4 = 1 ∧ cell 1 4 2 0 = 1 / 15 ∧ lastCell 1 4 2 = 8 / 15 := by decide +kernel

/-- the ratio blockMesh derives from the total expansion is well defined -/
theorem T_C03_ratio_unique {a b : ℚ} {n : ℕ} (ha : 0 < a) (hb : 0 < b) (hn : 2 ≤ n)
    (h : a ^ (n - 1) = b ^ (n - 1)) : a = b :=
  ratio_unique ha hb (by omega) h

/-- `get_start_size__count__c2c_expansion`: the returned start size is the first cell of the progression,
    `start * (1 + r + … + r^(n-1)) = L` (on the uniform branch: of the uniform progression) -/
theorem T_C03_sum {L r s : ℚ} {n : ℕ} (h : startCountC2c L n r = .ok s) :
    (TOL < absR (r - 1) → s * geomSum r n = L ∧ s = firstCell L n r) ∧
    (absR (r - 1) ≤ TOL → s * n = L ∧ s = firstCell L n 1) := by
  obtain ⟨hL, hn, hr0, hb⟩ := startCountC2c_ok h
  have hnq : (n : ℚ) ≠ 0 := by exact_mod_cast (show n ≠ 0 by omega)
  constructor
  · intro hex
    rcases hb with ⟨_, hne, hs⟩ | ⟨hle, _⟩
    · have hr1 : r ≠ 1 := by
        intro h1; subst h1
        have : absR ((1 : ℚ) - 1) = 0 := by simp [absR]
        rw [this] at hex; exact absurd hex (not_lt.mpr (le_of_lt TOL_pos))
      have hfc := startFormula_eq_firstCell (L := L) hr1 hne
      have h1' : (1 - r) ≠ 0 := sub_ne_zero.mpr (Ne.symm hr1)
      have hc := geomSum_closed r n
      have hg : geomSum r n = (1 - r ^ n) / (1 - r) := by field_simp; linarith
      refine ⟨?_, by rw [hs, hfc]⟩
      rw [hs, hg]; field_simp
    · exact absurd hex (not_lt.mpr hle)
  · intro hun
    rcases hb with ⟨hex, _, _⟩ | ⟨_, hs⟩
    · exact absurd hex (not_lt.mpr hun)
    · refine ⟨by rw [hs]; field_simp, by rw [hs, uniformFormula_eq_firstCell]⟩

example : startCountC2c 1 4 2 = .ok (1 / 15) := by decide +kernel

/-- `get_end_size__start_size__total_expansion` applied to the first cell and `r^(n-1)` is the last cell -/
theorem T_C03_end {L r e : ℚ} {n : ℕ} (h : endStartTotal L (firstCell L n r) (r ^ (n - 1)) = .ok e) :
    e = lastCell L n r := by
  obtain ⟨_, _, he⟩ := endStartTotal_ok h
  exact he

/-! ### 3. the count specification -/

/-- the partial sums are strictly increasing, so the (strict) count specification has one solution -/
theorem T_C03_mono {s r L : ℚ} {n m : ℕ} (hs : 0 < s) (hr : 0 < r) :
    (geomSum r n < geomSum r (n + 1)) ∧
    (CountSpec s r L n → CountSpec s r L m → n = m) ∧
    (CountSpecW s r L n → CountSpecW s r L m →
      n = m ∨ (m = n + 1 ∧ L = s * geomSum r n) ∨ (n = m + 1 ∧ L = s * geomSum r m)) :=
  ⟨geomSum_lt_succ hr n, countSpec_unique hs hr, countSpecW_near_unique hs hr⟩

example : CountSpec (1 / 10) (11 / 10) 1 8 := by
  unfold CountSpec; decide +kernel

/-- the count specification says: never coarser than requested, and coarser (equal at a tie) with one cell fewer -/
theorem T_C03_never_coarser {s r L : ℚ} {n : ℕ} (hr : 0 < r) (h : CountSpecW s r L n) :
    firstCell L n r ≤ s ∧ (2 ≤ n → s ≤ firstCell L (n - 1) r) :=
  never_coarser hr h

/-- the executable exact count satisfies the strict specification, and finds the count when there is one -/
theorem T_C03_search {s r L : ℚ} {fuel n : ℕ} (hs : 0 < s) (hr : 0 < r) (hL : 0 ≤ L) :
    (searchCount s r L fuel = some n → CountSpec s r L n) ∧
    (CountSpec s r L n → n ≤ fuel → searchCount s r L fuel = some n) :=
  ⟨searchCount_spec hL, fun h hf => searchCount_complete hs hr h hf⟩

example : searchCount (1 / 10) (11 / 10) 1 (searchFuel (1 / 10) (11 / 10) 1) = some 8 := by decide +kernel

/-- the exact count always exists and is found with the fuel `searchFuel`, whenever the progression can reach the
    end of the edge at all (for `r < 1`: `s / (1 - r) > L`, the condition under which the code's logarithm exists) -/
theorem T_C03_search_total {s r L : ℚ} (hs : 0 < s) (hr : 0 < r) (hL : 0 ≤ L)
    (ha : r < 1 → 0 < 1 - L * (1 - r) / s) :
    ∃ n, searchCount s r L (searchFuel s r L) = some n ∧ CountSpec s r L n := by
  obtain ⟨n, hn⟩ := searchFrom_total (searchFuel s r L) 0 0 1 (by simp [geomSum]) (by simp) hL
    (by rw [Nat.zero_add]; exact searchFuel_enough hs hr hL ha)
  exact ⟨n, hn, searchCount_spec hL hn⟩

example : (0 : ℚ) < 1 - 1 * (1 - 9 / 10) / (1 / 5) := by norm_num

/-- for a fixed total expansion, one more cell makes the progression longer (relative to its first cell) and
    hence its first cell smaller: if `a^(m-1) = T = b^m` then `1+a+…+a^(m-1) < 1+b+…+b^m`.  (Weighted AM-GM on
    the exponents; this is what makes the count of the size+total pairs well defined.) -/
theorem T_C03_total_mono {a b L : ℚ} {m : ℕ} (ha : 0 < a) (hb : 0 < b) (hm : 1 ≤ m) (hL : 0 < L)
    (h : a ^ (m - 1) = b ^ m) :
    geomSum a m < geomSum b (m + 1) ∧ firstCell L (m + 1) b < firstCell L m a := by
  have hlt := geomSum_total_step ha hb hm h
  refine ⟨hlt, ?_⟩
  have hga := geomSum_pos (le_of_lt ha) (show 0 < m by omega)
  unfold firstCell
  exact div_lt_div_of_pos_left hL hga hlt

example : (8 : ℚ) ^ (3 - 1) = 4 ^ 3 ∧ geomSum 8 3 = 73 ∧ geomSum 4 4 = 85 := by decide +kernel

/-- uniqueness of the count for the size+total pairs: with `ρ m` the ratio for `m` cells (`ρ m ^ (m-1) = T`),
    at most one `n` has "`n-1` cells do not exceed the edge, `n` cells do" -/
theorem T_C03_size_total_unique {T L s : ℚ} {ρ : ℕ → ℚ} {hi n n' : ℕ} (hf : IsRatioFamily T ρ hi) (hs : 0 < s)
    (hn : SizeTotalStrict L s ρ n) (hn' : SizeTotalStrict L s ρ n') (h1 : n ≤ hi) (h2 : n' ≤ hi) : n = n' :=
  sizeTotalStrict_unique hf hs hn hn' h1 h2

/-- the same for what the pair theorems actually deliver (`SizeTotalSpec`, non-strict, existential roots):
    two admissible counts are equal or differ by one at an exact tie -/
theorem T_C03_size_total_near_unique {T L s : ℚ} {ρ : ℕ → ℚ} {hi n n' : ℕ} (hf : IsRatioFamily T ρ hi)
    (hs : 0 < s) (hn1 : 1 ≤ n) (hn1' : 1 ≤ n') (h1 : n ≤ hi) (h2 : n' ≤ hi)
    (hn : SizeTotalSpec L s T n) (hn' : SizeTotalSpec L s T n') :
    n = n' ∨ (n' = n + 1 ∧ L = s * totalLen ρ n) ∨ (n = n' + 1 ∧ L = s * totalLen ρ n') :=
  sizeTotalWeak_near_unique hf hs (sizeTotalWeak_of_spec hf hn1 h1 hn) (sizeTotalWeak_of_spec hf hn1' h2 hn') h1 h2

example : IsRatioFamily 64 (fun m => if m = 2 then 64 else if m = 3 then 8 else 4) 4 ∧
    SizeTotalStrict 1 (1 / 80) (fun m => if m = 2 then 64 else if m = 3 then 8 else 4) 4 := by
  constructor
  · intro m h1 h2
    have : m = 2 ∨ m = 3 ∨ m = 4 := by omega
    rcases this with rfl | rfl | rfl <;> norm_num
  · unfold SizeTotalStrict totalLen; decide +kernel

/-! ### 4. the ten pairs, end to end on the model of `Chop.calculate` -/

/-- (count, c2c): count and ratio are reproduced exactly; sizes are those of the progression -/
theorem T_C03_pair_count_c2c {t : Tol} {L r : ℚ} {n : ℕ} {o : Oracle} {res : Vals}
    (h : calculate t L o { count := some n, c2c := some r } = .ok res) :
    res.count = some n ∧ res.total = some (r ^ (n - 1)) ∧ 0 < L ∧ 1 ≤ n ∧ r ≠ 0 ∧ (0 < r → 0 < r ^ (n - 1)) ∧
      (TOL < absR (r - 1) → res.start = some (firstCell L n r) ∧ res.end_ = some (lastCell L n r)) ∧
      (absR (r - 1) ≤ TOL → res.start = some (firstCell L n 1)) := by
  obtain ⟨s, T, e, hs, hT, he, rfl⟩ := pair_count_c2c h
  obtain ⟨hL, hn, hr0, hTv⟩ := totalCountC2c_ok hT
  obtain ⟨_, _, hev⟩ := endStartTotal_ok he
  have hsum := T_C03_sum hs
  refine ⟨rfl, by rw [hTv], hL, hn, hr0, fun hr => pow_pos hr _, ?_, ?_⟩
  · intro hex
    have := (hsum.1 hex).2
    refine ⟨by rw [this], ?_⟩
    rw [hev, this, hTv]; rfl
  · intro hun
    rw [(hsum.2 hun).2]

example : (returned (calculate T0 1 {} { count := some 4, c2c := some 2 })).map (fun p => p.2) = some (some 8) := by
  decide +kernel

/-- (count, total): count and total expansion are reproduced exactly, the expansion is positive -/
theorem T_C03_pair_count_total {L T : ℚ} {n : ℕ} {o : Oracle} {res : Vals}
    (h : calculate T0 L o { count := some n, total := some T } = .ok res) :
    res.count = some n ∧ res.total = some T ∧ 0 < L ∧ 2 ≤ n ∧ 0 < T ∧
      ∃ c, res.c2c = some c ∧ 0 < c ∧ c ^ (n - 1) = T ∧
        (TOL < absR (c - 1) → res.start = some (firstCell L n c) ∧ res.end_ = some (lastCell L n c)) := by
  obtain ⟨c, s, e, hc, hs, he, rfl⟩ := pair_count_total h
  obtain ⟨hL, hn, hT, _, hpow⟩ := c2cCountTotal_ok hc
  obtain ⟨hc0, hcp⟩ := powOK_zero hpow
  obtain ⟨_, _, hev⟩ := endStartTotal_ok he
  have hsum := T_C03_sum hs
  refine ⟨rfl, rfl, hL, hn, hT, c, rfl, hc0, hcp, ?_⟩
  intro hex
  have := (hsum.1 hex).2
  refine ⟨by rw [this], ?_⟩
  rw [hev, this, ← hcp]; rfl

example : returned (calculate T0 1 { c2c := some 2 } { count := some 4, total := some 8 }) = some (some 4, some 8) := by
  decide +kernel

/-- (count, start size): the count is reproduced; unless the count is 1 (see the counterexample below)
    the first cell of the realised progression is the requested size — exactly, or within `TOL` of the
    uniform size on the near-uniform branch -/
theorem T_C03_pair_count_start {L s : ℚ} {n : ℕ} {o : Oracle} {res : Vals}
    (h : calculate T0 L o { count := some n, start := some s } = .ok res) :
    res.count = some n ∧ 0 < L ∧ 1 ≤ n ∧ 0 < s ∧ s < L ∧
      ∃ c, res.c2c = some c ∧ 0 < c ∧ res.total = some (c ^ (n - 1)) ∧ 0 < c ^ (n - 1) ∧
        ((n = 1 ∧ c = 1) ∨ (2 ≤ n ∧ absR (n * s - L) / L < TOL ∧ c = 1) ∨ (2 ≤ n ∧ firstCell L n c = s)) := by
  obtain ⟨c, T, e, hc, hT, he, rfl⟩ := pair_count_start h
  obtain ⟨hL, hn, hs0, hsL, hcase⟩ := c2cCountStart_ok hc
  obtain ⟨_, _, _, hTv⟩ := totalCountC2c_ok hT
  have hcpos : 0 < c := by
    rcases hcase with ⟨_, rfl⟩ | ⟨_, _, rfl⟩ | ⟨_, _, _, hroot⟩
    · exact one_pos
    · exact one_pos
    · exact (rootOK_zero hroot).1
  refine ⟨rfl, hL, hn, hs0, hsL, c, rfl, hcpos, by rw [hTv], pow_pos hcpos _, ?_⟩
  rcases hcase with ⟨h1, hc1⟩ | ⟨h2, hnear, hc1⟩ | ⟨h2, _, _, hroot⟩
  · exact Or.inl ⟨h1, hc1⟩
  · exact Or.inr (Or.inl ⟨h2, hnear, hc1⟩)
  · refine Or.inr (Or.inr ⟨h2, ?_⟩)
    obtain ⟨hc0, hsum⟩ := rootOK_zero hroot
    have hg := geomSum_pos (le_of_lt hc0) (show 0 < n by omega)
    unfold firstCell
    rw [← hsum]; field_simp

example : (returned (calculate T0 1 { c2c := some 2 } { count := some 4, start := some (1 / 15) })).map (fun p => p.2) = some (some 8) := by
  decide +kernel

/-- (count, end size): the count is reproduced and the last cell of the realised progression is the requested size -/
theorem T_C03_pair_count_end {L e : ℚ} {n : ℕ} {o : Oracle} {res : Vals}
    (h : calculate T0 L o { count := some n, end_ := some e } = .ok res) :
    res.count = some n ∧ 0 < L ∧ 1 ≤ n ∧ 0 < e ∧
      ∃ c, res.c2c = some c ∧ 0 < c ∧ res.total = some (c ^ (n - 1)) ∧ 0 < c ^ (n - 1) ∧
        ((absR (n * e - L) / L < TOL ∧ c = 1) ∨ (2 ≤ n ∧ lastCell L n c = e)) := by
  obtain ⟨c, s, T, hc, hs, hT, rfl⟩ := pair_count_end h
  obtain ⟨hL, hn, he0, hcase⟩ := c2cCountEnd_ok hc
  obtain ⟨_, _, _, hTv⟩ := totalCountC2c_ok hT
  have hcpos : 0 < c := by
    rcases hcase with ⟨_, rfl⟩ | ⟨_, _, _, hroot⟩
    · exact one_pos
    · have := (rootOK_zero hroot).1
      rw [one_div] at this
      exact inv_pos.mp this
  refine ⟨rfl, hL, hn, he0, c, rfl, hcpos, by rw [hTv], pow_pos hcpos _, ?_⟩
  rcases hcase with ⟨hnear, hc1⟩ | ⟨h2, _, _, hroot⟩
  · exact Or.inl ⟨hnear, hc1⟩
  · refine Or.inr ⟨h2, ?_⟩
    obtain ⟨hc0, hsum⟩ := rootOK_zero hroot
    rw [one_div] at hsum hc0
    have hg := geomSum_pos (le_of_lt hc0) (show 0 < n by omega)
    rw [lastCell_eq hcpos (by omega), div_eq_iff (ne_of_gt hg)]; exact hsum.symm

example : (returned (calculate T0 1 { c2c := some 2 } { count := some 4, end_ := some (8 / 15) })).map (fun p => p.2) = some (some 8) := by
  decide +kernel

/-- (start size, c2c): the ratio is reproduced exactly (`T = r^(n-1)`), the count is the rounding to the next
    whole cell: the realised first cell is never coarser than requested, and it is with one cell fewer -/
theorem T_C03_pair_start_c2c {L s r : ℚ} {o : Oracle} {res : Vals}
    (h : calculate T0 L o { start := some s, c2c := some r } = .ok res) :
    ∃ n, res.count = some n ∧ 1 ≤ n ∧ res.total = some (r ^ (n - 1)) ∧ 0 < L ∧ 0 < s ∧ r ≠ 0 ∧
      (TOL < absR (r - 1) → 0 < r ∧ 0 < r ^ (n - 1) ∧ CountSpecW s r L n ∧
        firstCell L n r ≤ s ∧ (2 ≤ n → s ≤ firstCell L (n - 1) r)) ∧
      (absR (r - 1) ≤ TOL → CountSpecW s 1 L n ∧ firstCell L n 1 ≤ s ∧ (2 ≤ n → s ≤ firstCell L (n - 1) 1)) := by
  obtain ⟨n, T, e, hn, hT, he, rfl⟩ := pair_start_c2c h
  obtain ⟨hL, hs, hr0, _, hn1, hcase⟩ := countStartC2c_ok hn
  obtain ⟨_, _, _, hTv⟩ := totalCountC2c_ok hT
  refine ⟨n, rfl, hn1, by rw [hTv], hL, hs, hr0, ?_, ?_⟩
  · intro hex
    rcases hcase with ⟨_, hr, _, hok⟩ | ⟨hun, _⟩
    · have hspec := countOK_zero hok
      have := never_coarser hr hspec
      exact ⟨hr, pow_pos hr _, hspec, this.1, this.2⟩
    · exact absurd hex (not_lt.mpr hun)
  · intro hun
    rcases hcase with ⟨hex, _⟩ | ⟨_, hok⟩
    · exact absurd hex (not_lt.mpr hun)
    · have hspec := countOK_zero hok
      have := never_coarser one_pos hspec
      exact ⟨hspec, this.1, this.2⟩

example : (returned (calculate T0 1 { count := some 8 } { start := some (1 / 10), c2c := some (11 / 10) })).map (fun p => p.1) = some (some 8) := by
  decide +kernel

/-- (end size, c2c): the same, seen from the last cell -/
theorem T_C03_pair_end_c2c {L e r : ℚ} {o : Oracle} {res : Vals}
    (h : calculate T0 L o { end_ := some e, c2c := some r } = .ok res) :
    ∃ n, res.count = some n ∧ 1 ≤ n ∧ res.total = some (r ^ (n - 1)) ∧ 0 < L ∧ 0 < e ∧ r ≠ 0 ∧
      (TOL < absR (r - 1) → 0 < r ∧ 0 < r ^ (n - 1) ∧ CountSpecW e r⁻¹ L n ∧
        lastCell L n r ≤ e ∧ (2 ≤ n → e ≤ lastCell L (n - 1) r)) ∧
      (absR (r - 1) ≤ TOL → CountSpecW e 1 L n ∧ firstCell L n 1 ≤ e ∧ (2 ≤ n → e ≤ firstCell L (n - 1) 1)) := by
  obtain ⟨n, s, T, hn, hs, hT, rfl⟩ := pair_end_c2c h
  obtain ⟨hL, he, hr0, _, hn1, hcase⟩ := countEndC2c_ok hn
  obtain ⟨_, _, _, hTv⟩ := totalCountC2c_ok hT
  refine ⟨n, rfl, hn1, by rw [hTv], hL, he, hr0, ?_, ?_⟩
  · intro hex
    rcases hcase with ⟨_, hr, _, hok⟩ | ⟨hun, _⟩
    · have hspec := countOK_zero hok
      rw [one_div] at hspec
      have := never_coarser (inv_pos.mpr hr) hspec
      refine ⟨hr, pow_pos hr _, hspec, ?_, ?_⟩
      · rw [← firstCell_inv hr (by omega)]; exact this.1
      · intro h2; rw [← firstCell_inv hr (by omega)]; exact this.2 h2
    · exact absurd hex (not_lt.mpr hun)
  · intro hun
    rcases hcase with ⟨hex, _⟩ | ⟨_, hok⟩
    · exact absurd hex (not_lt.mpr hun)
    · have hspec := countOK_zero hok
      have := never_coarser one_pos hspec
      exact ⟨hspec, this.1, this.2⟩

example : (returned (calculate T0 1 { count := some 26 } { end_ := some (1 / 10), c2c := some (11 / 10) })).map (fun p => p.1) = some (some 26) := by
  decide +kernel

/-- (total, c2c): the total expansion is reproduced exactly, it is positive, both ratios lie on the same side
    of 1 and the count is the rounding of `log T / log r`: `r^(n-1)` has not passed `T`, `r^n` has -/
theorem T_C03_pair_c2c_total {L r T : ℚ} {o : Oracle} {res : Vals}
    (h : calculate T0 L o { c2c := some r, total := some T } = .ok res) :
    ∃ n, res.count = some n ∧ 1 ≤ n ∧ res.total = some T ∧ 0 < L ∧ 0 < T ∧ 0 < r ∧ TOL < absR (r - 1) ∧
      ((1 < r ∧ r ^ (n - 1) ≤ T ∧ T ≤ r ^ n) ∨ (r < 1 ∧ T ≤ r ^ (n - 1) ∧ r ^ n ≤ T)) := by
  obtain ⟨n, s, e, hn, hs, he, rfl⟩ := pair_c2c_total h
  obtain ⟨hL, hT, hr, hex, _, _, hn1, hok⟩ := countTotalC2c_ok hn
  rw [powCountOK_iff] at hok
  refine ⟨n, rfl, hn1, rfl, hL, hT, hr, hex, ?_⟩
  simpa using hok.2

example : (returned (calculate T0 1 { count := some 12 } { c2c := some (11 / 10), total := some 3 })).map (fun p => p.1) = some (some 12) := by
  decide +kernel

/-- (start size, total): the total expansion is reproduced exactly; the count is the rounding to the next whole
    cell (never coarser, coarser with one fewer) — for `|T-1| < TOL` with respect to the uniform cells of size
    `d_min`, otherwise with respect to the progressions with total expansion `T` -/
theorem T_C03_pair_start_total {L s T : ℚ} {o : Oracle} {res : Vals}
    (h : calculate T0 L o { start := some s, total := some T } = .ok res) :
    ∃ n, res.count = some n ∧ 1 ≤ n ∧ res.total = some T ∧ 0 < L ∧ 0 < s ∧ T ≠ 0 ∧
      (absR (T - 1) < TOL → CountSpecW (dMin T s) 1 L n ∧ firstCell L n 1 ≤ dMin T s ∧
        (2 ≤ n → dMin T s ≤ firstCell L (n - 1) 1)) ∧
      (TOL ≤ absR (T - 1) → 0 < T ∧ SizeTotalSpec L s T n) := by
  obtain ⟨n, e, c, hn, he, hc, rfl⟩ := pair_start_total h
  obtain ⟨hL, hs, hT0, _, hn1, hcase⟩ := countTotalStart_ok hn
  refine ⟨n, rfl, hn1, rfl, hL, hs, hT0, ?_, ?_⟩
  · intro hun
    rcases hcase with ⟨_, hok⟩ | ⟨hex, _⟩
    · have hspec := countOK_zero hok
      have := never_coarser one_pos hspec
      exact ⟨hspec, this.1, this.2⟩
    · exact absurd hun (not_lt.mpr hex)
  · intro hex
    rcases hcase with ⟨hun, _⟩ | ⟨_, hT, hok⟩
    · exact absurd hun (not_lt.mpr hex)
    · exact ⟨hT, (sizeTotalSpec_of_countTOK hok).2⟩

example : (returned (calculate T0 1 { count := some 4, c2c := some 4, w1 := some 4, w2 := some 8 }
    { start := some (1 / 85), total := some 64 })).map (fun p => p.1) = some (some 4) := by
  decide +kernel

/-- (end size, total): as (start size, total) with the start size `e / T` -/
theorem T_C03_pair_end_total {L e T : ℚ} {o : Oracle} {res : Vals}
    (h : calculate T0 L o { end_ := some e, total := some T } = .ok res) :
    ∃ n, res.count = some n ∧ 1 ≤ n ∧ res.total = some T ∧ 0 < L ∧ 0 < e / T ∧ T ≠ 0 ∧
      (absR (T - 1) < TOL → CountSpecW (dMin T (e / T)) 1 L n) ∧
      (TOL ≤ absR (T - 1) → 0 < T ∧ 0 < e ∧ SizeTotalSpec L (e / T) T n ∧
        (2 ≤ n → ∃ w, 0 < w ∧ w ^ (n - 1) = T ∧ lastCell L n w ≤ e)) := by
  obtain ⟨s, n, c, hs, hn, hc, rfl⟩ := pair_end_total h
  obtain ⟨_, hT0, hsv⟩ := startEndTotal_ok hs
  subst hsv
  obtain ⟨hL, hs0, _, _, hn1, hcase⟩ := countTotalStart_ok hn
  refine ⟨n, rfl, hn1, rfl, hL, hs0, hT0, ?_, ?_⟩
  · intro hun
    rcases hcase with ⟨_, hok⟩ | ⟨hex, _⟩
    · exact countOK_zero hok
    · exact absurd hun (not_lt.mpr hex)
  · intro hex
    rcases hcase with ⟨hun, _⟩ | ⟨_, hT, hok⟩
    · exact absurd hun (not_lt.mpr hex)
    · have hspec := (sizeTotalSpec_of_countTOK hok).2
      have he : 0 < e := by
        have := mul_pos hs0 hT
        rwa [div_mul_cancel₀ e hT0] at this
      refine ⟨hT, he, hspec, ?_⟩
      intro h2
      obtain ⟨w, hw, hpw, hle⟩ := hspec.2.1 h2
      refine ⟨w, hw, hpw, ?_⟩
      rw [lastCell_eq_first_mul, hpw]
      have := mul_le_mul_of_nonneg_right hle (le_of_lt hT)
      rwa [div_mul_cancel₀ e hT0] at this

example : (returned (calculate T0 1 { count := some 4, c2c := some 4, w1 := some 4, w2 := some 8 }
    { end_ := some (64 / 85), total := some 64 })).map (fun p => p.1) = some (some 4) := by
  decide +kernel

/-- (start size, end size): the returned total expansion is `e / s`; the count as for (start size, total) -/
theorem T_C03_pair_start_end {L s e : ℚ} {o : Oracle} {res : Vals}
    (h : calculate T0 L o { start := some s, end_ := some e } = .ok res) :
    ∃ n, res.count = some n ∧ 1 ≤ n ∧ res.total = some (e / s) ∧ 0 < L ∧ 0 < s ∧ 0 < e ∧ 0 < e / s ∧
      (absR (e / s - 1) < TOL → CountSpecW (dMin (e / s) s) 1 L n) ∧
      (TOL ≤ absR (e / s - 1) → SizeTotalSpec L s (e / s) n ∧
        (2 ≤ n → ∃ w, 0 < w ∧ w ^ (n - 1) = e / s ∧ firstCell L n w ≤ s ∧ lastCell L n w ≤ e)) := by
  obtain ⟨T, n, c, hT, hn, hc, rfl⟩ := pair_start_end h
  obtain ⟨hL, hs, he, hTv⟩ := totalStartEnd_ok hT
  subst hTv
  obtain ⟨_, _, _, _, hn1, hcase⟩ := countTotalStart_ok hn
  have hTpos : 0 < e / s := div_pos he hs
  refine ⟨n, rfl, hn1, rfl, hL, hs, he, hTpos, ?_, ?_⟩
  · intro hun
    rcases hcase with ⟨_, hok⟩ | ⟨hex, _⟩
    · exact countOK_zero hok
    · exact absurd hun (not_lt.mpr hex)
  · intro hex
    rcases hcase with ⟨hun, _⟩ | ⟨_, _, hok⟩
    · exact absurd hun (not_lt.mpr hex)
    · have hspec := (sizeTotalSpec_of_countTOK hok).2
      refine ⟨hspec, ?_⟩
      intro h2
      obtain ⟨w, hw, hpw, hle⟩ := hspec.2.1 h2
      refine ⟨w, hw, hpw, hle, ?_⟩
      rw [lastCell_eq_first_mul, hpw]
      have := mul_le_mul_of_nonneg_right hle (le_of_lt hTpos)
      have hs0 : s ≠ 0 := ne_of_gt hs
      rwa [mul_div_cancel₀ e hs0] at this

example : (returned (calculate T0 1 { count := some 4, c2c := some 4, w1 := some 4, w2 := some 8 }
    { start := some (1 / 85), end_ := some (64 / 85) })).map (fun p => p.1) = some (some 4) := by
  decide +kernel

/-! ### 5. rejections -/

/-- no relation accepts a non-positive length (so no chop that needs a calculation does) -/
theorem T_C03_reject_length {t : Tol} {L : ℚ} {o : Oracle} {v v' : Vals} {rel : Rel} (hL : L ≤ 0) :
    applyRel t L o v rel ≠ .ok v' := by
  intro h
  unfold applyRel at h
  split at h <;> (try contradiction) <;> (split at h <;> try contradiction) <;>
    (rw [map_ok] at h; obtain ⟨a, ha, _⟩ := h) <;>
    first
      | (have := (c2cCountEnd_ok ha).1; linarith)
      | (have := (c2cCountStart_ok ha).1; linarith)
      | (have := (c2cCountTotal_ok ha).1; linarith)
      | (have := (countEndC2c_ok ha).1; linarith)
      | (have := (countStartC2c_ok ha).1; linarith)
      | (have := (countTotalC2c_ok ha).1; linarith)
      | (have := (countTotalStart_ok ha).1; linarith)
      | (have := (endStartTotal_ok ha).1; linarith)
      | (have := (startCountC2c_ok ha).1; linarith)
      | (have := (startEndTotal_ok ha).1; linarith)
      | (have := (totalCountC2c_ok ha).1; linarith)
      | (have := (totalStartEnd_ok ha).1; linarith)

/-- what success implies about the given parameters, for every tolerance and every solver answer:
    sizes positive, ratios non-zero, a start size given with a count below the length, a total expansion
    given with a count needs at least two cells, total and c2c away from 1 on the same side -/
theorem T_C03_reject {t : Tol} {L : ℚ} {o : Oracle} {res : Vals} :
    (∀ n s, calculate t L o { count := some n, start := some s } = .ok res → 0 < L ∧ 1 ≤ n ∧ 0 < s ∧ s < L) ∧
    (∀ n e, calculate t L o { count := some n, end_ := some e } = .ok res → 0 < L ∧ 1 ≤ n ∧ 0 < e) ∧
    (∀ n r, calculate t L o { count := some n, c2c := some r } = .ok res → 0 < L ∧ 1 ≤ n ∧ r ≠ 0) ∧
    (∀ n T, calculate t L o { count := some n, total := some T } = .ok res → 0 < L ∧ 2 ≤ n ∧ 0 < T) ∧
    (∀ s e, calculate t L o { start := some s, end_ := some e } = .ok res → 0 < L ∧ 0 < s ∧ 0 < e) ∧
    (∀ s r, calculate t L o { start := some s, c2c := some r } = .ok res →
      0 < L ∧ 0 < s ∧ r ≠ 0 ∧ (TOL < absR (r - 1) → 0 < r ∧ 0 < 1 - L / s * (1 - r))) ∧
    (∀ s T, calculate t L o { start := some s, total := some T } = .ok res → 0 < L ∧ 0 < s ∧ T ≠ 0) ∧
    (∀ e r, calculate t L o { end_ := some e, c2c := some r } = .ok res →
      0 < L ∧ 0 < e ∧ r ≠ 0 ∧ (TOL < absR (r - 1) → 0 < r ∧ 0 < 1 + L / e * (1 - r) / r)) ∧
    (∀ e T, calculate t L o { end_ := some e, total := some T } = .ok res → 0 < L ∧ T ≠ 0 ∧ 0 < e / T) ∧
    (∀ r T, calculate t L o { c2c := some r, total := some T } = .ok res →
      0 < L ∧ 0 < T ∧ 0 < r ∧ TOL < absR (r - 1) ∧ 0 ≤ (T - 1) * (r - 1)) := by
  refine ⟨?_, ?_, ?_, ?_, ?_, ?_, ?_, ?_, ?_, ?_⟩
  · intro n s h
    obtain ⟨c, T, e, hc, _, _, _⟩ := pair_count_start h
    obtain ⟨h1, h2, h3, h4, _⟩ := c2cCountStart_ok hc
    exact ⟨h1, h2, h3, h4⟩
  · intro n e h
    obtain ⟨c, s, T, hc, _, _, _⟩ := pair_count_end h
    obtain ⟨h1, h2, h3, _⟩ := c2cCountEnd_ok hc
    exact ⟨h1, h2, h3⟩
  · intro n r h
    obtain ⟨s, T, e, hs, _, _, _⟩ := pair_count_c2c h
    obtain ⟨h1, h2, h3, _⟩ := startCountC2c_ok hs
    exact ⟨h1, h2, h3⟩
  · intro n T h
    obtain ⟨c, s, e, hc, _, _, _⟩ := pair_count_total h
    obtain ⟨h1, h2, h3, _⟩ := c2cCountTotal_ok hc
    exact ⟨h1, h2, h3⟩
  · intro s e h
    obtain ⟨T, n, c, hT, _, _, _⟩ := pair_start_end h
    obtain ⟨h1, h2, h3, _⟩ := totalStartEnd_ok hT
    exact ⟨h1, h2, h3⟩
  · intro s r h
    obtain ⟨n, T, e, hn, _, _, _⟩ := pair_start_c2c h
    obtain ⟨h1, h2, h3, _, _, hcase⟩ := countStartC2c_ok hn
    refine ⟨h1, h2, h3, ?_⟩
    intro hex
    rcases hcase with ⟨_, hr, ha, _⟩ | ⟨hun, _⟩
    · exact ⟨hr, ha⟩
    · exact absurd hex (not_lt.mpr hun)
  · intro s T h
    obtain ⟨n, e, c, hn, _, _, _⟩ := pair_start_total h
    obtain ⟨h1, h2, h3, _⟩ := countTotalStart_ok hn
    exact ⟨h1, h2, h3⟩
  · intro e r h
    obtain ⟨n, s, T, hn, _, _, _⟩ := pair_end_c2c h
    obtain ⟨h1, h2, h3, _, _, hcase⟩ := countEndC2c_ok hn
    refine ⟨h1, h2, h3, ?_⟩
    intro hex
    rcases hcase with ⟨_, hr, ha, _⟩ | ⟨hun, _⟩
    · exact ⟨hr, ha⟩
    · exact absurd hex (not_lt.mpr hun)
  · intro e T h
    obtain ⟨s, n, c, hs, hn, _, _⟩ := pair_end_total h
    obtain ⟨h1, h2, hsv⟩ := startEndTotal_ok hs
    subst hsv
    obtain ⟨_, h3, _⟩ := countTotalStart_ok hn
    exact ⟨h1, h2, h3⟩
  · intro r T h
    obtain ⟨n, s, e, hn, _, _, _⟩ := pair_c2c_total h
    obtain ⟨h1, h2, h3, h4, h5, _⟩ := countTotalC2c_ok hn
    exact ⟨h1, h2, h3, h4, h5⟩

/-- the rejecting branches are really taken: contradictory ratios, a progression shorter than the edge,
    a start size not below the length, non-positive length / size, zero ratio, one cell with an end size -/
example :
    calculate T0 1 { count := some 1 } { c2c := some (9 / 10), total := some (21 / 20) } = .error (.value, some ⟨.count, .total, .c2c⟩) ∧
    calculate T0 1 { count := some 9 } { start := some (1 / 10), c2c := some (4 / 5) } = .error (.value, some ⟨.count, .start, .c2c⟩) ∧
    calculate T0 1 {} { count := some 3, start := some 1 } = .error (.value, some ⟨.c2c, .count, .start⟩) ∧
    calculate T0 0 {} { count := some 3, c2c := some 1 } = .error (.value, some ⟨.start, .count, .c2c⟩) ∧
    calculate T0 1 {} { end_ := some (-2), c2c := some 1 } = .error (.value, some ⟨.count, .end_, .c2c⟩) ∧
    calculate T0 1 {} { count := some 5, total := some 0 } = .error (.value, some ⟨.c2c, .count, .total⟩) ∧
    calculate T0 1 {} { count := some 5, c2c := some 0 } = .error (.value, some ⟨.start, .count, .c2c⟩) ∧
    calculate T0 1 {} { count := some 1, end_ := some (3 / 10) } = .error (.zeroDiv, some ⟨.c2c, .count, .end_⟩) ∧
    calculate T0 1 {} { c2c := some 1 } = .error (.value, none) := by decide +kernel

/-! ### 6. the known finding: one cell with a smaller start size is accepted -/

/-- The model (as the code: `if count == 1: return 1`) accepts `count = 1` with any start size below the
    length and answers "1 cell, expansion 1", although that single cell has size `L`, not `s`. -/
theorem T_C03_count1_start_counterexample {t : Tol} {L s : ℚ} {o : Oracle} (hs : 0 < s) (hsL : s < L) :
    calculate t L o { count := some 1, start := some s } =
      .ok { count := some 1, start := some s, end_ := some s, c2c := some 1, total := some 1 } ∧
    firstCell L 1 1 ≠ s := by
  have hL : 0 < L := lt_trans hs hsL
  constructor
  · rw [calculate_ok_iff (k := 2) (by exact plan_count_start), runSteps3]
    refine ⟨{ count := some 1, start := some s, c2c := some 1 },
      { count := some 1, start := some s, c2c := some 1, total := some 1 }, ?_, ?_, ?_⟩
    · simp only [applyRel, map_ok]
      refine ⟨1, ?_, rfl⟩
      unfold c2cCountStart
      simp only [guardLen_bind, guardCountGe1_bind]
      rw [if_neg (not_le.mpr hL), if_neg (by omega), if_neg (not_not.mpr ⟨hsL, hs⟩)]
      simp [pure, Except.pure]
    · simp only [applyRel, map_ok]
      refine ⟨1, ?_, rfl⟩
      unfold totalCountC2c
      simp only [guardLen_bind, guardCountGe1_bind, guardRatio_bind]
      rw [if_neg (not_le.mpr hL), if_neg (by omega), if_neg one_ne_zero]
      simp [pure, Except.pure]
    · simp only [applyRel, map_ok]
      refine ⟨s, ?_, rfl⟩
      unfold endStartTotal
      simp only [guardLen_bind, guardRatio_bind]
      rw [if_neg (not_le.mpr hL), if_neg one_ne_zero]
      simp [pure, Except.pure]
  · rw [firstCell_one]; exact ne_of_gt hsL

/-! ### 7. reversal -/

/-- reversing the progression: same count, reciprocal ratio and total expansion, first and last cell swapped,
    cell `i` becomes cell `n-1-i` -/
theorem T_C03_invert {L r : ℚ} {n : ℕ} (hr : 0 < r) (hn : 0 < n) :
    r⁻¹ ^ (n - 1) = (r ^ (n - 1))⁻¹ ∧ firstCell L n r⁻¹ = lastCell L n r ∧ lastCell L n r⁻¹ = firstCell L n r ∧
      ∀ i, i < n → cell L n r⁻¹ i = cell L n r (n - 1 - i) :=
  ⟨inv_pow_total r n, firstCell_inv hr hn, lastCell_inv hr hn, fun _ hi => cell_inv hr hi⟩

/-- `Chop.invert` swaps the sizes and takes the reciprocal of the ratios; doing it twice restores the chop -/
theorem T_C03_invert_chop {v w : Vals} (h : invert v = .ok w) :
    w.count = v.count ∧ w.start = v.end_ ∧ w.end_ = v.start ∧ w.c2c = v.c2c.map (fun c => 1 / c) ∧
      w.total = v.total.map (fun T => 1 / T) ∧ invert w = .ok v := by
  unfold invert at h
  split_ifs at h with h0
  simp only [pure, Except.pure, Except.ok.injEq] at h
  subst h
  push Not at h0
  refine ⟨rfl, rfl, rfl, rfl, rfl, ?_⟩
  unfold invert
  obtain ⟨c, s, e, r, T⟩ := v
  simp only at h0 ⊢
  have hr : r.map (fun c => 1 / c) ≠ some 0 := by
    cases r with
    | none => simp
    | some x => simp only [Option.map_some, ne_eq, Option.some.injEq, one_div, inv_eq_zero]; intro hx; exact h0.1 (by rw [hx])
  have hT : T.map (fun c => 1 / c) ≠ some 0 := by
    cases T with
    | none => simp
    | some x => simp only [Option.map_some, ne_eq, Option.some.injEq, one_div, inv_eq_zero]; intro hx; exact h0.2 (by rw [hx])
  rw [if_neg (by push Not; exact ⟨hr, hT⟩)]
  simp only [pure, Except.pure, Except.ok.injEq, Vals.mk.injEq, true_and]
  refine ⟨?_, ?_⟩
  · cases r <;> simp
  · cases T <;> simp

/-- a chop given by start size and ratio (or by count and start size) and its inversion (end size, reciprocal
    ratio) are validated by literally the same count / root specification — `count<end_size+c2c` checks
    `countOK s (1/c')`, `c2c<count+end_size` checks `rootOK e (1/c')` with `c' = 1/c` — and have reciprocal
    total expansion -/
theorem T_C03_invert_pair {s r L : ℚ} {n : ℕ} (ε : ℚ) :
    countOK ε s (1 / (1 / r)) L n = countOK ε s r L n ∧ rootOK ε s (1 / (1 / r)) L n = rootOK ε s r L n ∧
      (1 / r) ^ (n - 1) = 1 / r ^ (n - 1) := by
  refine ⟨by rw [one_div_one_div], by rw [one_div_one_div], ?_⟩
  rw [one_div, one_div, inv_pow]

/-- reversal, end to end on the model: if the chop (start size `s`, ratio `r`) resolves to `(n, T)`, then the inverted
    chop (`Chop.invert`: end size `s`, ratio `1/r`) resolves, with the same solver answer for the count, to
    `(n, 1/T)` — provided both ratios are on the exact branch of the `TOL` switch -/
theorem T_C03_invert_start_c2c {L s r : ℚ} {o : Oracle} {res : Vals}
    (h : calculate T0 L o { start := some s, c2c := some r } = .ok res)
    (hb : TOL < absR (r - 1)) (hb' : TOL < absR (1 / r - 1)) :
    ∃ res', calculate T0 L o { end_ := some s, c2c := some (1 / r) } = .ok res' ∧
      res'.count = res.count ∧ res'.total = res.total.map (fun T => 1 / T) := by
  obtain ⟨n, T, e, hn, hT, he, rfl⟩ := pair_start_c2c h
  obtain ⟨hL, hs, hr0, ho, hn1, hcase⟩ := countStartC2c_ok hn
  obtain ⟨_, _, _, hTv⟩ := totalCountC2c_ok hT
  rcases hcase with ⟨_, hr, ha, hok⟩ | ⟨hun, _⟩
  swap
  · exact absurd hb (not_lt.mpr hun)
  have hri : 0 < 1 / r := by positivity
  have hri1 : (1 / r) ≠ 1 := by
    intro h1
    rw [h1] at hb'
    simp [absR] at hb'
    exact absurd hb' (not_lt.mpr (le_of_lt TOL_pos))
  refine ⟨{ count := some n, start := some (L * (1 - 1 / r) / (1 - (1 / r) ^ n)), end_ := some s, c2c := some (1 / r),
            total := some ((1 / r) ^ (n - 1)) }, ?_, rfl, ?_⟩
  · rw [calculate_ok_iff (k := 1) (by exact plan_end_c2c), runSteps3]
    refine ⟨{ count := some n, end_ := some s, c2c := some (1 / r) },
      { count := some n, start := some (L * (1 - 1 / r) / (1 - (1 / r) ^ n)), end_ := some s, c2c := some (1 / r) },
      ?_, ?_, ?_⟩
    · simp only [applyRel, map_ok]
      refine ⟨n, ?_, rfl⟩
      unfold countEndC2c
      simp only [guardLen_bind, guardSize_bind, guardRatio_bind]
      rw [if_neg (not_le.mpr hL), if_neg (not_le.mpr hs), if_neg (ne_of_gt hri), if_pos hb', if_neg (not_lt.mpr (le_of_lt hri))]
      have hbval : 1 + L / s * (1 - 1 / r) / (1 / r) = 1 - L / s * (1 - r) := by field_simp; ring
      simp only [hbval]
      rw [if_neg (not_lt.mpr (le_of_lt ha)), if_neg (ne_of_gt ha)]
      apply oracleCount_intro ho hn1
      rw [one_div_one_div]; exact hok
    · simp only [applyRel, map_ok]
      refine ⟨_, ?_, rfl⟩
      unfold startCountC2c
      simp only [guardLen_bind, guardCountGe1_bind, guardRatio_bind]
      rw [if_neg (not_le.mpr hL), if_neg (by omega), if_neg (ne_of_gt hri), if_pos hb',
        if_neg (sub_ne_zero.mpr (Ne.symm (pow_ne_one_of_pos hri hri1 hn1)))]
      rfl
    · simp only [applyRel, map_ok]
      refine ⟨_, ?_, rfl⟩
      unfold totalCountC2c
      simp only [guardLen_bind, guardCountGe1_bind, guardRatio_bind]
      rw [if_neg (not_le.mpr hL), if_neg (by omega), if_neg (ne_of_gt hri)]
      rfl
  · simp only [Option.map_some, hTv, one_div, inv_pow]

example : TOL < absR ((11 : ℚ) / 10 - 1) ∧ TOL < absR (1 / ((11 : ℚ) / 10) - 1) ∧
    returned (calculate T0 1 { count := some 8 } { end_ := some (1 / 10), c2c := some (1 / (11 / 10)) }) =
      some (some 8, some (1 / (19487171 / 10000000))) := by decide +kernel

/-- the mirrored statement: (end size `e`, ratio `r`) → `Chop.invert` → (start size `e`, ratio `1/r`) resolves to `(n, 1/T)` -/
theorem T_C03_invert_end_c2c {L e r : ℚ} {o : Oracle} {res : Vals}
    (h : calculate T0 L o { end_ := some e, c2c := some r } = .ok res)
    (hb : TOL < absR (r - 1)) (hb' : TOL < absR (1 / r - 1)) :
    ∃ res', calculate T0 L o { start := some e, c2c := some (1 / r) } = .ok res' ∧
      res'.count = res.count ∧ res'.total = res.total.map (fun T => 1 / T) := by
  obtain ⟨n, s, T, hn, hs, hT, rfl⟩ := pair_end_c2c h
  obtain ⟨hL, he, hr0, ho, hn1, hcase⟩ := countEndC2c_ok hn
  obtain ⟨_, _, _, hTv⟩ := totalCountC2c_ok hT
  rcases hcase with ⟨_, hr, hbpos, hok⟩ | ⟨hun, _⟩
  swap
  · exact absurd hb (not_lt.mpr hun)
  have hri : 0 < 1 / r := by positivity
  have hTi : (1 / r) ^ (n - 1) ≠ 0 := pow_ne_zero _ (ne_of_gt hri)
  refine ⟨{ count := some n, start := some e, end_ := some (e * (1 / r) ^ (n - 1)), c2c := some (1 / r),
            total := some ((1 / r) ^ (n - 1)) }, ?_, rfl, ?_⟩
  · rw [calculate_ok_iff (k := 2) (by exact plan_start_c2c), runSteps3]
    refine ⟨{ count := some n, start := some e, c2c := some (1 / r) },
      { count := some n, start := some e, c2c := some (1 / r), total := some ((1 / r) ^ (n - 1)) }, ?_, ?_, ?_⟩
    · simp only [applyRel, map_ok]
      refine ⟨n, ?_, rfl⟩
      unfold countStartC2c
      simp only [guardLen_bind, guardSize_bind, guardRatio_bind]
      rw [if_neg (not_le.mpr hL), if_neg (not_le.mpr he), if_neg (ne_of_gt hri), if_pos hb', if_neg (not_lt.mpr (le_of_lt hri))]
      have hval : 1 - L / e * (1 - 1 / r) = 1 + L / e * (1 - r) / r := by field_simp; ring
      simp only [hval]
      rw [if_neg (not_lt.mpr (le_of_lt hbpos)), if_neg (ne_of_gt hbpos)]
      exact oracleCount_intro ho hn1 hok
    · simp only [applyRel, map_ok]
      refine ⟨_, ?_, rfl⟩
      unfold totalCountC2c
      simp only [guardLen_bind, guardCountGe1_bind, guardRatio_bind]
      rw [if_neg (not_le.mpr hL), if_neg (by omega), if_neg (ne_of_gt hri)]
      rfl
    · simp only [applyRel, map_ok]
      refine ⟨_, ?_, rfl⟩
      unfold endStartTotal
      simp only [guardLen_bind, guardRatio_bind]
      rw [if_neg (not_le.mpr hL), if_neg hTi]
      rfl
  · simp only [Option.map_some, hTv, one_div, inv_pow]

example : TOL < absR ((10 : ℚ) / 11 - 1) ∧ TOL < absR (1 / ((10 : ℚ) / 11) - 1) ∧
    returned (calculate T0 1 { count := some 8 } { end_ := some (1 / 10), c2c := some (10 / 11) }) =
      some (some 8, some ((10 / 11) ^ 7)) := by decide +kernel

/-- (count, ratio `r`) → `Chop.invert` → (count, ratio `1/r`): same count, reciprocal expansion, when `r > 0` and both
    ratios fall on the same side of the `TOL` switch -/
theorem T_C03_invert_count_c2c {t : Tol} {L r : ℚ} {n : ℕ} {o : Oracle} {res : Vals}
    (h : calculate t L o { count := some n, c2c := some r } = .ok res) (hr : 0 < r)
    (hb : (TOL < absR (r - 1) ∧ TOL < absR (1 / r - 1)) ∨ (absR (r - 1) ≤ TOL ∧ absR (1 / r - 1) ≤ TOL)) :
    ∃ res', calculate t L o { count := some n, c2c := some (1 / r) } = .ok res' ∧
      res'.count = res.count ∧ res'.total = res.total.map (fun T => 1 / T) := by
  obtain ⟨s, T, e, hs, hT, he, rfl⟩ := pair_count_c2c h
  obtain ⟨hL, hn1, _, hTv⟩ := totalCountC2c_ok hT
  have hri : 0 < 1 / r := by positivity
  have hTi : (1 / r) ^ (n - 1) ≠ 0 := pow_ne_zero _ (ne_of_gt hri)
  have hstart : ∃ s', startCountC2c L n (1 / r) = .ok s' := by
    unfold startCountC2c
    simp only [guardLen_bind, guardCountGe1_bind, guardRatio_bind]
    rw [if_neg (not_le.mpr hL), if_neg (by omega), if_neg (ne_of_gt hri)]
    rcases hb with ⟨_, hb'⟩ | ⟨_, hb'⟩
    · have hri1 : (1 / r) ≠ 1 := by
        intro h1
        rw [h1] at hb'
        simp [absR] at hb'
        exact absurd hb' (not_lt.mpr (le_of_lt TOL_pos))
      rw [if_pos hb', if_neg (sub_ne_zero.mpr (Ne.symm (pow_ne_one_of_pos hri hri1 hn1)))]
      exact ⟨_, rfl⟩
    · rw [if_neg (not_lt.mpr hb')]
      exact ⟨_, rfl⟩
  obtain ⟨s', hs'⟩ := hstart
  refine ⟨{ count := some n, start := some s', end_ := some (s' * (1 / r) ^ (n - 1)), c2c := some (1 / r),
            total := some ((1 / r) ^ (n - 1)) }, ?_, rfl, ?_⟩
  · rw [calculate_ok_iff (k := 2) (by exact plan_count_c2c), runSteps3]
    refine ⟨{ count := some n, start := some s', c2c := some (1 / r) },
      { count := some n, start := some s', c2c := some (1 / r), total := some ((1 / r) ^ (n - 1)) }, ?_, ?_, ?_⟩
    · simp only [applyRel, map_ok]
      exact ⟨s', hs', rfl⟩
    · simp only [applyRel, map_ok]
      refine ⟨_, ?_, rfl⟩
      unfold totalCountC2c
      simp only [guardLen_bind, guardCountGe1_bind, guardRatio_bind]
      rw [if_neg (not_le.mpr hL), if_neg (by omega), if_neg (ne_of_gt hri)]
      rfl
    · simp only [applyRel, map_ok]
      refine ⟨_, ?_, rfl⟩
      unfold endStartTotal
      simp only [guardLen_bind, guardRatio_bind]
      rw [if_neg (not_le.mpr hL), if_neg hTi]
      rfl
  · simp only [Option.map_some, hTv, one_div, inv_pow]

example : returned (calculate T0 1 {} { count := some 4, c2c := some (1 / 2) }) = some (some 4, some (1 / 8)) := by
  decide +kernel

/-- (count, total expansion) reversed, end to end: the chop `(count, 1/T)` — with the mirrored solver answer `1/c` for
    `(1/T) ** (1/(n-1))`, which is exact when `c` was — resolves to the same count, the reciprocal total expansion and the
    reciprocal cell-to-cell ratio (both ratios on the same side of the `TOL` switch of the start-size formula). -/
theorem T_C03_invert_count_total {L T : ℚ} {n : ℕ} {o : Oracle} {res : Vals} {c : ℚ}
    (h : calculate T0 L o { count := some n, total := some T } = .ok res) (hc : o.c2c = some c)
    (hb : (TOL < absR (c - 1) ∧ TOL < absR (1 / c - 1)) ∨ (absR (c - 1) ≤ TOL ∧ absR (1 / c - 1) ≤ TOL)) :
    ∃ res', calculate T0 L { o with c2c := some (1 / c) } { count := some n, total := some (1 / T) } = .ok res' ∧
      res'.count = res.count ∧ res'.total = res.total.map (fun T => 1 / T) ∧
      res'.c2c = res.c2c.map (fun c => 1 / c) := by
  obtain ⟨c', s, e, hc', hs, he, rfl⟩ := pair_count_total h
  obtain ⟨hL, hn, hT, hoc, hpow⟩ := c2cCountTotal_ok hc'
  have hcc : c' = c := by rw [hc] at hoc; exact (Option.some.inj hoc).symm
  subst hcc
  obtain ⟨hc0, hcp⟩ := powOK_zero hpow
  have hci : 0 < 1 / c' := by positivity
  have hTi : (1 : ℚ) / T ≠ 0 := by positivity
  obtain ⟨s', hs'⟩ := startCountC2c_inv_ok hs hc0 hb
  refine ⟨{ count := some n, start := some s', end_ := some (s' * (1 / T)), c2c := some (1 / c'),
            total := some (1 / T) }, ?_, rfl, rfl, rfl⟩
  rw [calculate_ok_iff (k := 2) (by exact plan_count_total), runSteps3]
  refine ⟨{ count := some n, c2c := some (1 / c'), total := some (1 / T) },
    { count := some n, start := some s', c2c := some (1 / c'), total := some (1 / T) }, ?_, ?_, ?_⟩
  · simp only [applyRel, map_ok]
    refine ⟨1 / c', ?_, rfl⟩
    unfold c2cCountTotal
    simp only [guardLen_bind, guardRatio_bind]
    rw [if_neg (not_le.mpr hL), if_neg (by omega), if_neg hTi, if_neg (not_lt.mpr (by positivity))]
    unfold oracleC2c
    simp only
    rw [if_pos]
    · rfl
    · rw [powOK_iff]
      refine ⟨hci, ?_⟩
      rw [one_div_pow, hcp]; simp
  · simp only [applyRel, map_ok]
    exact ⟨s', hs', rfl⟩
  · simp only [applyRel, map_ok]
    refine ⟨_, ?_, rfl⟩
    unfold endStartTotal
    simp only [guardLen_bind, guardRatio_bind]
    rw [if_neg (not_le.mpr hL), if_neg hTi]
    rfl


example : returned (calculate T0 1 { c2c := some 2 } { count := some 4, total := some 8 }) = some (some 4, some 8) ∧
    returned (calculate T0 1 { c2c := some (1 / 2) } { count := some 4, total := some (1 / 8) }) =
      some (some 4, some (1 / 8)) ∧ TOL < absR ((2 : ℚ) - 1) ∧ TOL < absR (1 / (2 : ℚ) - 1) := by decide +kernel

/-- (total expansion, cell-to-cell ratio) reversed, end to end: the chop `(1/T, 1/r)` resolves, with the *same* solver
    answer for `int(log T / log r) + 1`, to the same count and the reciprocal total expansion (the reciprocal ratio
    must itself be off the `TOL` switch, as the relation demands). -/
theorem T_C03_invert_c2c_total {L r T : ℚ} {o : Oracle} {res : Vals}
    (h : calculate T0 L o { c2c := some r, total := some T } = .ok res)
    (hb : TOL < absR (1 / r - 1)) :
    ∃ res', calculate T0 L o { c2c := some (1 / r), total := some (1 / T) } = .ok res' ∧
      res'.count = res.count ∧ res'.total = res.total.map (fun T => 1 / T) := by
  obtain ⟨n, s, e, hn, hs, he, rfl⟩ := pair_c2c_total h
  obtain ⟨hL, hT, hr, hex, hside, ho, hn1, hok⟩ := countTotalC2c_ok hn
  have hri : 0 < 1 / r := by positivity
  have hTi : 0 < 1 / T := by positivity
  obtain ⟨s', hs'⟩ := startCountC2c_inv_ok hs hr (Or.inl ⟨hex, hb⟩)
  refine ⟨{ count := some n, start := some s', end_ := some (s' * (1 / T)), c2c := some (1 / r),
            total := some (1 / T) }, ?_, rfl, rfl⟩
  rw [calculate_ok_iff (k := 2) (by exact plan_c2c_total), runSteps3]
  refine ⟨{ count := some n, c2c := some (1 / r), total := some (1 / T) },
    { count := some n, start := some s', c2c := some (1 / r), total := some (1 / T) }, ?_, ?_, ?_⟩
  · simp only [applyRel, map_ok]
    refine ⟨n, ?_, rfl⟩
    unfold countTotalC2c
    simp only [guardLen_bind, guardRatio_bind]
    have hside' : ¬ ((1 / T - 1) * (1 / r - 1) < 0) := by
      have : (1 / T - 1) * (1 / r - 1) = (T - 1) * (r - 1) / (T * r) := by
        field_simp
        ring
      rw [this]
      exact not_lt.mpr (div_nonneg hside (by positivity))
    rw [if_neg (not_le.mpr hL), if_neg (ne_of_gt hTi), if_neg (ne_of_gt hri), if_neg (not_le.mpr hb),
      if_neg (by rintro (h | h) <;> linarith), if_neg hside']
    exact oracleCount_intro ho hn1 (powCountOK_inv hr hT hok)
  · simp only [applyRel, map_ok]
    exact ⟨s', hs', rfl⟩
  · simp only [applyRel, map_ok]
    refine ⟨_, ?_, rfl⟩
    unfold endStartTotal
    simp only [guardLen_bind, guardRatio_bind]
    rw [if_neg (not_le.mpr hL), if_neg (ne_of_gt hTi)]
    rfl


example : returned (calculate T0 1 { count := some 4 } { c2c := some 2, total := some 8 }) = some (some 4, some 8) ∧
    returned (calculate T0 1 { count := some 4 } { c2c := some (1 / 2), total := some (1 / 8) }) =
      some (some 4, some (1 / 8)) ∧ TOL < absR (1 / (2 : ℚ) - 1) := by decide +kernel

/-- (count, start size) reversed, end to end, for **every tolerance**: the chop `(count, end size = s)` with the mirrored
    solver answer `1/c` resolves to the same count, the reciprocal ratio and the reciprocal total expansion — the root
    validator of the reversed chop (`rootOK s (1/(1/c))`) is literally the one the original passed, the near-uniform branch
    is taken by both or by neither.  (`count ≥ 2`: one cell with a smaller start size is the known finding.) -/
theorem T_C03_invert_count_start {t : Tol} {L s : ℚ} {n : ℕ} {o : Oracle} {res : Vals} (hn : 2 ≤ n)
    (h : calculate t L o { count := some n, start := some s } = .ok res) :
    ∃ c, res.c2c = some c ∧ 0 < c ∧
      ∃ res', calculate t L { o with c2c := some (1 / c) } { count := some n, end_ := some s } = .ok res' ∧
        res'.count = res.count ∧ res'.total = res.total.map (fun T => 1 / T) ∧ res'.c2c = some (1 / c) := by
  obtain ⟨c, T, e, hc, hT, he, rfl⟩ := pair_count_start h
  obtain ⟨hL, hn1, hs0, hsL, hcase⟩ := c2cCountStart_ok hc
  obtain ⟨_, _, _, hTv⟩ := totalCountC2c_ok hT
  have hc0 : 0 < c := by
    rcases hcase with ⟨_, rfl⟩ | ⟨_, _, rfl⟩ | ⟨_, _, _, hok⟩
    · exact one_pos
    · exact one_pos
    · exact (rootOK_iff.mp hok).1
  have hci : 0 < 1 / c := by positivity
  have hend : c2cCountEnd t { o with c2c := some (1 / c) } L n s = .ok (1 / c) := by
    unfold c2cCountEnd
    simp only [guardLen_bind, guardCountGe1_bind, guardSize_bind]
    rw [if_neg (not_le.mpr hL), if_neg (by omega), if_neg (not_le.mpr hs0)]
    rcases hcase with ⟨h1, _⟩ | ⟨_, hu, rfl⟩ | ⟨_, hnu, _, hok⟩
    · omega
    · rw [if_pos hu]; simp [pure, Except.pure]
    · rw [if_neg (not_lt.mpr hnu), if_neg (by omega)]
      unfold oracleC2c
      simp only [one_div_one_div]
      rw [if_pos hok]
      rfl
  obtain ⟨s', hs'⟩ := startCountC2c_ok_of_pos (n := n) hL hn1 hci
  refine ⟨c, rfl, hc0, (⟨some n, some s', some s, some (1 / c), some ((1 / c) ^ (n - 1))⟩ : Vals), ?_, rfl, ?_, rfl⟩
  · rw [calculate_ok_iff (k := 1) (by exact plan_count_end), runSteps3]
    refine ⟨{ count := some n, end_ := some s, c2c := some (1 / c) },
      { count := some n, start := some s', end_ := some s, c2c := some (1 / c) }, ?_, ?_, ?_⟩
    · simp only [applyRel, map_ok]
      exact ⟨1 / c, hend, rfl⟩
    · simp only [applyRel, map_ok]
      exact ⟨s', hs', rfl⟩
    · simp only [applyRel, map_ok]
      refine ⟨_, ?_, rfl⟩
      unfold totalCountC2c
      simp only [guardLen_bind, guardCountGe1_bind, guardRatio_bind]
      rw [if_neg (not_le.mpr hL), if_neg (by omega), if_neg (ne_of_gt hci)]
      rfl
  · simp only [Option.map_some, hTv, one_div, inv_pow]


example : returned (calculate T0 1 { c2c := some 2 } { count := some 3, start := some (1 / 7) }) = some (some 3, some 4) ∧
    returned (calculate T0 1 { c2c := some (1 / 2) } { count := some 3, end_ := some (1 / 7) }) =
      some (some 3, some (1 / 4)) := by decide +kernel

/-- (count, end size) reversed likewise (the start-size relation additionally demands `size < length`). -/
theorem T_C03_invert_count_end {t : Tol} {L e : ℚ} {n : ℕ} {o : Oracle} {res : Vals} (hn : 2 ≤ n) (heL : e < L)
    (h : calculate t L o { count := some n, end_ := some e } = .ok res) :
    ∃ c, res.c2c = some c ∧ 0 < c ∧
      ∃ res', calculate t L { o with c2c := some (1 / c) } { count := some n, start := some e } = .ok res' ∧
        res'.count = res.count ∧ res'.total = res.total.map (fun T => 1 / T) ∧ res'.c2c = some (1 / c) := by
  obtain ⟨c, s, T, hc, hs, hT, rfl⟩ := pair_count_end h
  obtain ⟨hL, hn1, he0, hcase⟩ := c2cCountEnd_ok hc
  obtain ⟨_, _, _, hTv⟩ := totalCountC2c_ok hT
  have hc0 : 0 < c := by
    rcases hcase with ⟨_, rfl⟩ | ⟨_, _, _, hok⟩
    · exact one_pos
    · exact one_div_pos.mp (rootOK_iff.mp hok).1
  have hci : 0 < 1 / c := by positivity
  have hTi : (1 / c) ^ (n - 1) ≠ 0 := pow_ne_zero _ (ne_of_gt hci)
  have hstart : c2cCountStart t { o with c2c := some (1 / c) } L n e = .ok (1 / c) := by
    unfold c2cCountStart
    simp only [guardLen_bind, guardCountGe1_bind]
    rw [if_neg (not_le.mpr hL), if_neg (by omega), if_neg (not_not.mpr ⟨heL, he0⟩), if_neg (by omega)]
    rcases hcase with ⟨hu, rfl⟩ | ⟨_, hnu, _, hok⟩
    · rw [if_pos hu]; simp [pure, Except.pure]
    · rw [if_neg (not_lt.mpr hnu)]
      unfold oracleC2c
      simp only
      rw [if_pos hok]
      rfl
  refine ⟨c, rfl, hc0, (⟨some n, some e, some (e * (1 / c) ^ (n - 1)), some (1 / c), some ((1 / c) ^ (n - 1))⟩ : Vals),
    ?_, rfl, ?_, rfl⟩
  · rw [calculate_ok_iff (k := 2) (by exact plan_count_start), runSteps3]
    refine ⟨{ count := some n, start := some e, c2c := some (1 / c) },
      { count := some n, start := some e, c2c := some (1 / c), total := some ((1 / c) ^ (n - 1)) }, ?_, ?_, ?_⟩
    · simp only [applyRel, map_ok]
      exact ⟨1 / c, hstart, rfl⟩
    · simp only [applyRel, map_ok]
      refine ⟨_, ?_, rfl⟩
      unfold totalCountC2c
      simp only [guardLen_bind, guardCountGe1_bind, guardRatio_bind]
      rw [if_neg (not_le.mpr hL), if_neg (by omega), if_neg (ne_of_gt hci)]
      rfl
    · simp only [applyRel, map_ok]
      refine ⟨_, ?_, rfl⟩
      unfold endStartTotal
      simp only [guardLen_bind, guardRatio_bind]
      rw [if_neg (not_le.mpr hL), if_neg hTi]
      rfl
  · simp only [Option.map_some, hTv, one_div, inv_pow]


example : returned (calculate T0 1 { c2c := some 2 } { count := some 3, end_ := some (4 / 7) }) = some (some 3, some 4) ∧
    returned (calculate T0 1 { c2c := some (1 / 2) } { count := some 3, start := some (4 / 7) }) =
      some (some 3, some (1 / 4)) := by decide +kernel

/-- (start size, total expansion) reversed, end to end with exact solver answers, **under the existence hypothesis** that
    the reversed chop's last relation (`c2c<count+end_size` on the count and the size `s`, now the last cell) accepts a
    rational ratio `c'` (`hroot`; that root is a different number from `1/c` — the original's ratio belongs to the
    progression counted from its last cell `s·T`, the cells are only "never coarser", not exact — and need not be rational).
    Then the chop `(end size s, 1/T)`, with the same count answer and the reciprocal root witnesses (`mirrorOracle`),
    resolves to the same count and the reciprocal total expansion.  Three or more cells: for two cells the count
    validator of the size+total relation is not mirror-symmetric (a single cell carries no expansion).  `hb`: `T` and
    `1/T` on the same side of the `TOL` switch of that relation. -/
theorem T_C03_invert_start_total {L s T c' : ℚ} {o : Oracle} {res : Vals} {n : ℕ}
    (h : calculate T0 L o { start := some s, total := some T } = .ok res) (hcnt : res.count = some n) (hn : 3 ≤ n)
    (hb : absR (T - 1) < TOL ↔ absR (1 / T - 1) < TOL)
    (hroot : c2cCountEnd T0 (mirrorOracle o c') L n s = .ok c') :
    ∃ res', calculate T0 L (mirrorOracle o c') { end_ := some s, total := some (1 / T) } = .ok res' ∧
      res'.count = res.count ∧ res'.total = res.total.map (fun T => 1 / T) := by
  obtain ⟨n', e, c, hn', he, hc, rfl⟩ := pair_start_total h
  have : n' = n := by simpa using hcnt
  subst this
  obtain ⟨hL, hs, hT0, hoc, hn1, hcase⟩ := countTotalStart_ok hn'
  have hT : 0 < T := by
    rcases hcase with ⟨hu, _⟩ | ⟨_, hT, _⟩
    · by_contra hneg
      have hle : T ≤ 0 := not_lt.mp hneg
      have h1 : absR (T - 1) = 1 - T := by unfold absR; rw [if_pos (by linarith)]; ring
      rw [h1] at hu
      have := TOL_lt_one
      linarith
    · exact hT
  have hTi : (0 : ℚ) < 1 / T := by positivity
  have hst : s / (1 / T) = s * T := by field_simp
  have hcount : countTotalStart T0 (mirrorOracle o c') L (1 / T) (s * T) = .ok n' := by
    unfold countTotalStart
    simp only [guardLen_bind, guardSize_bind, guardRatio_bind]
    rw [if_neg (not_le.mpr hL), if_neg (not_le.mpr (by positivity)), if_neg (ne_of_gt hTi)]
    rcases hcase with ⟨hu, hok⟩ | ⟨hnu, _, hok⟩
    · rw [if_pos (hb.mp hu), dMin_inv hT]
      exact oracleCount_intro hoc hn1 hok
    · rw [if_neg (fun hh => absurd (hb.mpr hh) (not_lt.mpr hnu)), if_neg (not_lt.mpr (le_of_lt hTi))]
      exact oracleCount_intro hoc hn1 (countTOK_inv hn hok)
  refine ⟨(⟨some n', some (s * T), some s, some c', some (1 / T)⟩ : Vals), ?_, rfl, rfl⟩
  rw [calculate_ok_iff (k := 3) (by exact plan_end_total), runSteps3]
  refine ⟨{ start := some (s * T), end_ := some s, total := some (1 / T) },
    { count := some n', start := some (s * T), end_ := some s, total := some (1 / T) }, ?_, ?_, ?_⟩
  · simp only [applyRel, map_ok]
    refine ⟨s * T, ?_, rfl⟩
    unfold startEndTotal
    simp only [guardLen_bind, guardRatio_bind]
    rw [if_neg (not_le.mpr hL), if_neg (ne_of_gt hTi), hst]
    rfl
  · simp only [applyRel, map_ok]
    exact ⟨n', hcount, rfl⟩
  · simp only [applyRel, map_ok]
    exact ⟨c', hroot, rfl⟩


example :
    let o : Oracle := { count := some 3, c2c := some 2, w1 := some 2, w2 := some 4 }
    returned (calculate T0 1 o { start := some (1 / 7), total := some 4 }) = some (some 3, some 4) ∧
    c2cCountEnd T0 (mirrorOracle o (1 / 2)) 1 3 (1 / 7) = .ok (1 / 2) ∧
    returned (calculate T0 1 (mirrorOracle o (1 / 2)) { end_ := some (1 / 7), total := some (1 / 4) }) =
      some (some 3, some (1 / 4)) ∧
    ¬ absR ((4 : ℚ) - 1) < TOL ∧ ¬ absR (1 / (4 : ℚ) - 1) < TOL := by decide +kernel

/-- (end size, total expansion) reversed likewise: `(start size e, 1/T)` resolves to the same count and the reciprocal
    total expansion, under the same existence hypothesis for the ratio of the reversed chop (now on the last cell `e/T`). -/
theorem T_C03_invert_end_total {L e T c' : ℚ} {o : Oracle} {res : Vals} {n : ℕ}
    (h : calculate T0 L o { end_ := some e, total := some T } = .ok res) (hcnt : res.count = some n) (hn : 3 ≤ n)
    (hb : absR (T - 1) < TOL ↔ absR (1 / T - 1) < TOL)
    (hroot : c2cCountEnd T0 (mirrorOracle o c') L n (e * (1 / T)) = .ok c') :
    ∃ res', calculate T0 L (mirrorOracle o c') { start := some e, total := some (1 / T) } = .ok res' ∧
      res'.count = res.count ∧ res'.total = res.total.map (fun T => 1 / T) := by
  obtain ⟨s, n', c, hs, hn', hc, rfl⟩ := pair_end_total h
  have : n' = n := by simpa using hcnt
  subst this
  obtain ⟨_, hT0', hsv⟩ := startEndTotal_ok hs
  obtain ⟨hL, hs0, hT0, hoc, hn1, hcase⟩ := countTotalStart_ok hn'
  have hT : 0 < T := by
    rcases hcase with ⟨hu, _⟩ | ⟨_, hT, _⟩
    · by_contra hneg
      have hle : T ≤ 0 := not_lt.mp hneg
      have h1 : absR (T - 1) = 1 - T := by unfold absR; rw [if_pos (by linarith)]; ring
      rw [h1] at hu
      have := TOL_lt_one
      linarith
    · exact hT
  have hTi : (0 : ℚ) < 1 / T := by positivity
  have hse : s * T = e := by rw [hsv]; field_simp
  have he0 : 0 < e := by rw [← hse]; positivity
  have hcount : countTotalStart T0 (mirrorOracle o c') L (1 / T) e = .ok n' := by
    unfold countTotalStart
    simp only [guardLen_bind, guardSize_bind, guardRatio_bind]
    rw [if_neg (not_le.mpr hL), if_neg (not_le.mpr he0), if_neg (ne_of_gt hTi)]
    rcases hcase with ⟨hu, hok⟩ | ⟨hnu, _, hok⟩
    · rw [if_pos (hb.mp hu), ← hse, dMin_inv hT]
      exact oracleCount_intro hoc hn1 hok
    · rw [if_neg (fun hh => absurd (hb.mpr hh) (not_lt.mpr hnu)), if_neg (not_lt.mpr (le_of_lt hTi)), ← hse]
      exact oracleCount_intro hoc hn1 (countTOK_inv hn hok)
  refine ⟨(⟨some n', some e, some (e * (1 / T)), some c', some (1 / T)⟩ : Vals), ?_, rfl, rfl⟩
  rw [calculate_ok_iff (k := 2) (by exact plan_start_total), runSteps3]
  refine ⟨{ count := some n', start := some e, total := some (1 / T) },
    { count := some n', start := some e, end_ := some (e * (1 / T)), total := some (1 / T) }, ?_, ?_, ?_⟩
  · simp only [applyRel, map_ok]
    exact ⟨n', hcount, rfl⟩
  · simp only [applyRel, map_ok]
    refine ⟨e * (1 / T), ?_, rfl⟩
    unfold endStartTotal
    simp only [guardLen_bind, guardRatio_bind]
    rw [if_neg (not_le.mpr hL), if_neg (ne_of_gt hTi)]
    rfl
  · simp only [applyRel, map_ok]
    exact ⟨c', hroot, rfl⟩


example :
    let o : Oracle := { count := some 3, c2c := some 2, w1 := some 2, w2 := some 4 }
    returned (calculate T0 1 o { end_ := some (4 / 7), total := some 4 }) = some (some 3, some 4) ∧
    c2cCountEnd T0 (mirrorOracle o (1 / 2)) 1 3 (4 / 7 * (1 / 4)) = .ok (1 / 2) ∧
    returned (calculate T0 1 (mirrorOracle o (1 / 2)) { start := some (4 / 7), total := some (1 / 4) }) =
      some (some 3, some (1 / 4)) := by decide +kernel

/-- (start size, end size) reversed: the chop with the two sizes exchanged resolves to the same count and the reciprocal
    total expansion `s/e`, under the same existence hypothesis (the ratio of the reversed chop on its last cell `s`).
    With this all ten pairs are proved end to end. -/
theorem T_C03_invert_start_end {L s e c' : ℚ} {o : Oracle} {res : Vals} {n : ℕ}
    (h : calculate T0 L o { start := some s, end_ := some e } = .ok res) (hcnt : res.count = some n) (hn : 3 ≤ n)
    (hb : absR (e / s - 1) < TOL ↔ absR (s / e - 1) < TOL)
    (hroot : c2cCountEnd T0 (mirrorOracle o c') L n s = .ok c') :
    ∃ res', calculate T0 L (mirrorOracle o c') { start := some e, end_ := some s } = .ok res' ∧
      res'.count = res.count ∧ res'.total = res.total.map (fun T => 1 / T) := by
  obtain ⟨T, n', c, hT, hn', hc, rfl⟩ := pair_start_end h
  have : n' = n := by simpa using hcnt
  subst this
  obtain ⟨hL, hs, he, hTv⟩ := totalStartEnd_ok hT
  subst hTv
  obtain ⟨_, _, _, hoc, hn1, hcase⟩ := countTotalStart_ok hn'
  have hTpos : 0 < e / s := by positivity
  have hinv : 1 / (e / s) = s / e := by field_simp
  have hse : s * (e / s) = e := by field_simp
  have hcount : countTotalStart T0 (mirrorOracle o c') L (s / e) e = .ok n' := by
    unfold countTotalStart
    simp only [guardLen_bind, guardSize_bind, guardRatio_bind]
    rw [if_neg (not_le.mpr hL), if_neg (not_le.mpr he), if_neg (ne_of_gt (by positivity))]
    rcases hcase with ⟨hu, hok⟩ | ⟨hnu, _, hok⟩
    · rw [if_pos (hb.mp hu)]
      have := dMin_inv (s := s) hTpos
      rw [hinv, hse] at this
      rw [this]
      exact oracleCount_intro hoc hn1 hok
    · rw [if_neg (fun hh => absurd (hb.mpr hh) (not_lt.mpr hnu)), if_neg (not_lt.mpr (le_of_lt (by positivity)))]
      have := countTOK_inv hn hok
      rw [hinv, hse] at this
      exact oracleCount_intro hoc hn1 this
  refine ⟨(⟨some n', some e, some s, some c', some (s / e)⟩ : Vals), ?_, rfl, ?_⟩
  · rw [calculate_ok_iff (k := 3) (by exact plan_start_end), runSteps3]
    refine ⟨{ start := some e, end_ := some s, total := some (s / e) },
      { count := some n', start := some e, end_ := some s, total := some (s / e) }, ?_, ?_, ?_⟩
    · simp only [applyRel, map_ok]
      refine ⟨s / e, ?_, rfl⟩
      unfold totalStartEnd
      simp only [guardLen_bind, guardSize_bind]
      rw [if_neg (not_le.mpr hL), if_neg (not_le.mpr he), if_neg (not_le.mpr hs)]
      rfl
    · simp only [applyRel, map_ok]
      exact ⟨n', hcount, rfl⟩
    · simp only [applyRel, map_ok]
      exact ⟨c', hroot, rfl⟩
  · simp only [Option.map_some, hinv]


example :
    let o : Oracle := { count := some 3, c2c := some 2, w1 := some 2, w2 := some 4 }
    returned (calculate T0 1 o { start := some (1 / 7), end_ := some (4 / 7) }) = some (some 3, some 4) ∧
    c2cCountEnd T0 (mirrorOracle o (1 / 2)) 1 3 (1 / 7) = .ok (1 / 2) ∧
    returned (calculate T0 1 (mirrorOracle o (1 / 2)) { start := some (4 / 7), end_ := some (1 / 7) }) =
      some (some 3, some (1 / 4)) := by decide +kernel

/-! ### 7b. histories on one `Chop` object: `calculate` keeps no memory -/

/-- Every `calculate` inside a history of calls on one object answers exactly what a fresh chop with the current
    parameter record answers on that length; and the step leaves no trace: the record afterwards, and every later
    answer, are those of the history without it. -/
theorem T_C03_history_calc (v : Vals) (pre post : List Step) (t : Tol) (L : ℚ) (o : Oracle) :
    (runHistory v (pre ++ .eval t L o :: post)).2 =
        (runHistory v pre).2 ++ some (calculate t L o (runHistory v pre).1) :: (runHistory (runHistory v pre).1 post).2 ∧
    (runHistory v (pre ++ .eval t L o :: post)).1 = (runHistory v (pre ++ post)).1 ∧
    (runHistory v (pre ++ post)).2 = (runHistory v pre).2 ++ (runHistory (runHistory v pre).1 post).2 := by
  simp only [runHistory_append, runHistory, and_self]

/-- Without attribute assignments the record an object holds after a history is the original one after an even
    number of inversions and the inverted one after an odd number — whatever evaluations happened in between. -/
theorem T_C03_history_state {v w : Vals} (h : invert v = .ok w) (steps : List Step) (hna : noAssign steps = true) :
    (runHistory v steps).1 = (if flipped steps then w else v) :=
  (runHistory_state h steps hna).1

/-- evaluate, reverse in place, evaluate again on the same edge (the sequence of the round-2 finding): the second
    answer has the same count and the reciprocal expansion (start size + ratio, exact branch of the `TOL` switch) -/
theorem T_C03_history_reverse {L s r : ℚ} {o : Oracle} {res : Vals}
    (h : calculate T0 L o { start := some s, c2c := some r } = .ok res)
    (hb : TOL < absR (r - 1)) (hb' : TOL < absR (1 / r - 1)) :
    ∃ res', (runHistory { start := some s, c2c := some r } [.eval T0 L o, .invert, .eval T0 L o]).2 =
        [some (.ok res), none, some (.ok res')] ∧
      res'.count = res.count ∧ res'.total = res.total.map (fun T => 1 / T) := by
  obtain ⟨res', h1, h2, h3⟩ := T_C03_invert_start_c2c h hb hb'
  obtain ⟨_, _, e, hn, _, _, _⟩ := pair_start_c2c h
  obtain ⟨_, _, hr0, _⟩ := countStartC2c_ok hn
  have hinv : invert { start := some s, c2c := some r } = .ok { end_ := some s, c2c := some (1 / r) } := by
    unfold invert
    rw [if_neg (by simp [hr0])]
    rfl
  refine ⟨res', ?_, h2, h3⟩
  simp only [runHistory, hinv, h, h1]

example : (runHistory { start := some (1 / 10), c2c := some (11 / 10) }
    [.eval T0 1 { count := some 8 }, .invert, .eval T0 1 { count := some 8 }, .invert, .eval T0 2 { count := some 12 }]).2.map
      (fun r => r.map returned) =
    [some (some (some 8, some (19487171 / 10000000))), none, some (some (some 8, some (10000000 / 19487171))), none,
     some (some (some 12, some (285311670611 / 100000000000)))] := by decide +kernel

/-! ### 7c. preserving copies: asking for a (reversed) copy leaves the chop alone -/

/-- A `copy_preserving` step inside a history leaves no trace on the object: parameters, `preserve` and `results`
    afterwards, and every later answer, are those of the history without the step. -/
theorem T_C03_copy_no_alias (ob : Obj) (pre post : List OStep) (inv : Bool) (t : Tol) (L : ℚ) (o : Oracle) :
    (runObj ob (pre ++ .copy inv t L o :: post)).1 = (runObj ob (pre ++ post)).1 ∧
    (runObj ob (pre ++ .copy inv t L o :: post)).2 =
        (runObj ob pre).2 ++ (runObj (runObj ob pre).1 [.copy inv t L o]).2 ++ (runObj (runObj ob pre).1 post).2 ∧
    (runObj ob (pre ++ post)).2 = (runObj ob pre).2 ++ (runObj (runObj ob pre).1 post).2 := by
  refine ⟨?_, ?_, ?_⟩
  · simp only [runObj_append, runObj]
  · simp only [runObj_append, runObj, List.append_assoc, List.cons_append, List.nil_append]
  · simp only [runObj_append]

/-- whatever copies are requested in between, the parameter record of the object follows only the calls made on
    the object itself (`runHistory`), so all history theorems above keep holding -/
theorem T_C03_copy_params (ob : Obj) (steps : List OStep) :
    (runObj ob steps).1.params = (runHistory ob.params (plainSteps steps)).1 :=
  runObj_params ob steps

/-- the copy of a chop that preserves the cell-to-cell ratio: count and ratio of the last results; evaluated on any
    length it returns that count with total expansion `c^(n-1)`, the reversed copy the reciprocal `1 / c^(n-1)` -/
theorem T_C03_copy_preserving {ob : Obj} {res : Vals} {n : ℕ} {c : ℚ} (hl : ob.last = some res) (hp : ob.preserve = .c2c)
    (hn : res.count = some n) (hn1 : 1 ≤ n) (hc : res.c2c = some c) (hc0 : c ≠ 0) :
    copyPreserving ob false = .ok { count := some n, c2c := some c } ∧
    copyPreserving ob true = .ok { count := some n, c2c := some (1 / c) } ∧
    ∀ (t : Tol) (L : ℚ) (o : Oracle) (r : Vals),
      (calculate t L o { count := some n, c2c := some c } = .ok r → r.count = some n ∧ r.total = some (c ^ (n - 1))) ∧
      (calculate t L o { count := some n, c2c := some (1 / c) } = .ok r →
        r.count = some n ∧ r.total = some (1 / c ^ (n - 1))) := by
  have hmax : max n 1 = n := by omega
  refine ⟨?_, ?_, ?_⟩
  · unfold copyPreserving
    simp only [hl, hn, hp, Vals.get, hc, Vals.assign, hmax]
    rfl
  · unfold copyPreserving
    simp only [hl, hn, hp, Vals.get, hc, Vals.assign, hmax]
    simp only [reduceCtorEq, if_false, if_true]
    unfold invert
    rw [if_neg (by simp [hc0])]
    rfl
  · intro t L o r
    constructor
    · intro h
      obtain ⟨h1, h2, _⟩ := T_C03_pair_count_c2c h
      exact ⟨h1, h2⟩
    · intro h
      obtain ⟨h1, h2, _⟩ := T_C03_pair_count_c2c h
      refine ⟨h1, ?_⟩
      rw [h2, one_div, one_div, inv_pow]

example : (runObj { params := { count := some 10, c2c := some (6 / 5) } }
    [.plain (.eval T0 1 {}), .copy true T0 1 {}, .plain (.eval T0 1 {}), .copy false T0 1 {}]).2.map (fun r => r.map returned) =
    [some (some (some 10, some (10077696 / 1953125))), some (some (some 10, some (1953125 / 10077696))),
     some (some (some 10, some (10077696 / 1953125))), some (some (some 10, some (10077696 / 1953125)))] := by
  decide +kernel

/-! ### 7d. the written grading -/

/-- `Grading.description` writes exactly the counts and total expansions of the specification (a bare total
    expansion for a single division, the full list otherwise) and raises for an undefined grading -/
theorem T_C03_description (spec : List Division) :
    (spec = [] → description spec = .error .value) ∧
    (spec ≠ [] → ∃ w, description spec = .ok w ∧ w.read.map (·.2) = spec.map (·.total) ∧
      (2 ≤ spec.length → w.read.map (·.1) = spec.map (fun d => some d.count))) := by
  constructor
  · intro h; subst h; rfl
  · intro h
    match spec, h with
    | [d], _ => exact ⟨.single d.total, rfl, rfl, fun h2 => by simp at h2⟩
    | d1 :: d2 :: rest, _ =>
      refine ⟨.multi (d1 :: d2 :: rest), rfl, ?_, fun _ => ?_⟩
      · simp [Written.read]
      · simp [Written.read]

example : description [⟨1 / 2, 30, (3 / 5) ^ 29⟩, ⟨1 / 2, 10, 1⟩] =
    .ok (.multi [⟨1 / 2, 30, (3 / 5) ^ 29⟩, ⟨1 / 2, 10, 1⟩]) := by decide +kernel

/-- `Grading.inverted`: divisions in reverse order, same counts (and sum), reciprocal expansion, an involution -/
theorem T_C03_invert_grading {spec inv : List Division} (h : inverted spec = .ok inv) :
    inv.map (·.count) = (spec.map (·.count)).reverse ∧ inv.map (·.ratio) = (spec.map (·.ratio)).reverse ∧
      inv.map (·.total) = (spec.map (fun d => 1 / d.total)).reverse ∧ gradingCount inv = gradingCount spec ∧
      inverted inv = .ok spec := by
  unfold inverted at h
  split_ifs at h with h0
  simp only [pure, Except.pure, Except.ok.injEq] at h
  subst h
  have hne : ∀ d ∈ spec, d.total ≠ 0 := by
    intro d hd hz
    apply h0
    simp only [List.any_eq_true, decide_eq_true_eq]
    exact ⟨d, hd, hz⟩
  refine ⟨?_, ?_, ?_, ?_, ?_⟩
  · simp [List.map_reverse, Function.comp_def]
  · simp [List.map_reverse, Function.comp_def]
  · simp [List.map_reverse, Function.comp_def]
  · unfold gradingCount
    simp only [List.map_map, List.map_reverse, Function.comp_def, List.sum_reverse]
  · unfold inverted
    have h1 : (List.map (fun d : Division => { d with total := 1 / d.total }) spec.reverse).any (fun d => d.total = 0) = false := by
      rw [List.any_eq_false]
      intro d hd
      simp only [List.mem_map, List.mem_reverse] at hd
      obtain ⟨d0, hd0, rfl⟩ := hd
      simp only [one_div, decide_eq_true_eq, inv_eq_zero]
      exact hne d0 hd0
    rw [if_neg (by rw [h1]; simp)]
    simp only [pure, Except.pure, Except.ok.injEq, List.map_reverse, List.reverse_reverse, List.map_map]
    rw [List.map_congr_left (g := id) (fun d _ => by cases d; simp), List.map_id]

example : inverted [⟨1 / 2, 8, 3 / 2⟩, ⟨1 / 2, 4, 2 / 3⟩] = .ok [⟨1 / 2, 4, 3 / 2⟩, ⟨1 / 2, 8, 2 / 3⟩] := by
  decide +kernel

/-- `Grading.add_chop` rejects length ratios outside `(0, 1]` and otherwise appends the division calculated
    on the sub-length `L * ratio` -/
theorem T_C03_add_chop {t : Tol} {L q : ℚ} {o : Oracle} {v : Vals} {spec spec' : List Division}
    (h : addChop t L spec q o v = .ok spec') :
    0 < q ∧ q ≤ 1 ∧ ∃ res n T, calculate t (L * q) o v = .ok res ∧ res.count = some n ∧ res.total = some T ∧
      spec' = spec ++ [⟨q, n, T⟩] := by
  unfold addChop at h
  split_ifs at h with hq
  have hq' := hq
  split at h
  · contradiction
  · next res hres =>
    split at h
    · next n T hn hT =>
      simp only [pure, Except.pure, Except.ok.injEq] at h
      exact ⟨hq'.1, hq'.2, res, n, T, hres, hn, hT, h.symm⟩
    · contradiction

/-- A multi-section grading: every chop is calculated on its own sub-length `L * ratio` (so each division obeys the
    pair theorems above on that sub-length), the divisions are appended in order, the ratios are stored and lie in
    `(0, 1]`; the cell count of the edge is the sum of the counts. -/
theorem T_C03_grading_sections {t : Tol} {L : ℚ} :
    ∀ (items : List (ℚ × Oracle × Vals)) (spec spec' : List Division), addChops t L spec items = .ok spec' →
      ∃ ds, spec' = spec ++ ds ∧ gradingCount spec' = gradingCount spec + gradingCount ds ∧
        List.Forall₂ (fun (item : ℚ × Oracle × Vals) (d : Division) =>
          0 < item.1 ∧ item.1 ≤ 1 ∧ d.ratio = item.1 ∧
            ∃ res, calculate t (L * item.1) item.2.1 item.2.2 = .ok res ∧ res.count = some d.count ∧
              res.total = some d.total) items ds := by
  intro items
  induction items with
  | nil =>
    intro spec spec' h
    simp only [addChops, pure, Except.pure, Except.ok.injEq] at h
    exact ⟨[], by simp [h], by simp [h, gradingCount], List.Forall₂.nil⟩
  | cons item rest ih =>
    intro spec spec' h
    obtain ⟨q, o, v⟩ := item
    simp only [addChops] at h
    split at h
    · contradiction
    · next s1 hs1 =>
      obtain ⟨hq0, hq1, res, n, T, hres, hn, hT, rfl⟩ := T_C03_add_chop hs1
      obtain ⟨ds, hds, _, hall⟩ := ih _ _ h
      refine ⟨⟨q, n, T⟩ :: ds, by rw [hds]; simp, ?_, List.Forall₂.cons ⟨hq0, hq1, rfl, res, hres, hn, hT⟩ hall⟩
      rw [hds]
      simp only [gradingCount, List.map_append, List.map_cons, List.map_nil, List.sum_append, List.sum_cons, List.sum_nil]
      omega

example : (addChops T0 2 [] [(1 / 2, { count := some 8 }, { start := some (1 / 10), c2c := some (11 / 10) }),
      (1 / 2, {}, { count := some 4, c2c := some 2 })]).toOption.map (fun sp => (sp.map (·.count), gradingCount sp)) =
    some ([8, 4], 12) := by decide +kernel


/-- Sections that are all uniform (every total expansion exactly 1) are still *reversed* by `Grading.inverted`: the
    result is the list of divisions in reverse order, unchanged otherwise — so it equals the original only for a
    palindromic grading (one section, or mirror-symmetric ratios and counts), never "because uniform cells look the
    same from both ends". -/
theorem T_C03_invert_uniform_sections {spec : List Division} (h : ∀ d ∈ spec, d.total = 1) :
    inverted spec = .ok spec.reverse ∧ (inverted spec = .ok spec ↔ spec.reverse = spec) := by
  have h0 : spec.any (fun d => decide (d.total = 0)) = false := by
    rw [List.any_eq_false]
    intro d hd
    simp [h d hd]
  have hmap : spec.reverse.map (fun d => { d with total := 1 / d.total }) = spec.reverse := by
    conv_rhs => rw [← List.map_id spec.reverse]
    apply List.map_congr_left
    intro d hd
    rw [List.mem_reverse] at hd
    cases d with
    | mk r n T =>
      have : T = 1 := h _ hd
      subst this
      simp
  have hinv : inverted spec = .ok spec.reverse := by
    unfold inverted
    rw [h0]
    simp only [Bool.false_eq_true, if_false, pure, Except.pure]
    rw [hmap]
  refine ⟨hinv, ?_⟩
  rw [hinv]
  constructor
  · intro hh; exact Except.ok.inj hh
  · intro hh; rw [hh]

example : inverted [⟨1 / 4, 5, 1⟩, ⟨3 / 4, 3, 1⟩] = .ok [⟨3 / 4, 3, 1⟩, ⟨1 / 4, 5, 1⟩] ∧
    inverted [⟨1 / 4, 5, 1⟩, ⟨3 / 4, 3, 1⟩] ≠ .ok [⟨1 / 4, 5, 1⟩, ⟨3 / 4, 3, 1⟩] :=
  ⟨(T_C03_invert_uniform_sections (by decide)).1,
   fun hh => absurd ((T_C03_invert_uniform_sections (by decide)).2.mp hh) (by decide +kernel)⟩

/-! ### 8. the bodies of the relations, translated from the source text at every run

`cbv/tables/c03.py` turns (Python `ast`) the body of every `get_*` relation — validator calls, guards with their
comparison operators and constants, branch order, every arithmetic expression, the `np.log` / `int` / `np.ceil` /
`**` / `brentq` calls with their operands — into a prefix token list (`CBV.Gen.c03RelBodies`).  `relBodies` are the same
bodies as trees of the model (`Stmt`), `run` is their semantics over exact rationals. -/

/-- The trees the model holds are the source: the token encoding of each is the generated table of that relation (one
    statement per relation; locals are compared up to renaming, comments / docstrings / annotations are not tokens). -/
theorem T_C03_translated_source_c2c_count_end : encBody body_c2c_count_end = CBV.Gen.c03Body_c2c_expansion__count__end_size := body_c2c_count_end_source
theorem T_C03_translated_source_c2c_count_start : encBody body_c2c_count_start = CBV.Gen.c03Body_c2c_expansion__count__start_size := body_c2c_count_start_source
theorem T_C03_translated_source_c2c_count_total : encBody body_c2c_count_total = CBV.Gen.c03Body_c2c_expansion__count__total_expansion := body_c2c_count_total_source
theorem T_C03_translated_source_count_end_c2c : encBody body_count_end_c2c = CBV.Gen.c03Body_count__end_size__c2c_expansion := body_count_end_c2c_source
theorem T_C03_translated_source_count_start_c2c : encBody body_count_start_c2c = CBV.Gen.c03Body_count__start_size__c2c_expansion := body_count_start_c2c_source
theorem T_C03_translated_source_count_total_c2c : encBody body_count_total_c2c = CBV.Gen.c03Body_count__total_expansion__c2c_expansion := body_count_total_c2c_source
theorem T_C03_translated_source_count_total_start : encBody body_count_total_start = CBV.Gen.c03Body_count__total_expansion__start_size := body_count_total_start_source
theorem T_C03_translated_source_end_start_total : encBody body_end_start_total = CBV.Gen.c03Body_end_size__start_size__total_expansion := body_end_start_total_source
theorem T_C03_translated_source_start_count_c2c : encBody body_start_count_c2c = CBV.Gen.c03Body_start_size__count__c2c_expansion := body_start_count_c2c_source
theorem T_C03_translated_source_start_end_total : encBody body_start_end_total = CBV.Gen.c03Body_start_size__end_size__total_expansion := body_start_end_total_source
theorem T_C03_translated_source_total_count_c2c : encBody body_total_count_c2c = CBV.Gen.c03Body_total_expansion__count__c2c_expansion := body_total_count_c2c_source
theorem T_C03_translated_source_total_start_end : encBody body_total_start_end = CBV.Gen.c03Body_total_expansion__start_size__end_size := body_total_start_end_source

/-- every relation of the relation table has its tree, in table order; the bodies of the four simple validators -/
theorem T_C03_translated_source :
    relTable = some (relBodies.map (·.1)) ∧ validatorBodiesEnc = CBV.Gen.c03ValidatorBodies :=
  ⟨by decide, validatorBodies_source⟩

/-- the bodies of `_validate_length`, `_validate_start_end_size`, `_validate_c2c_expansion`,
    `_validate_total_expansion` reject exactly `<= 0`, `<= 0`, `== 0`, `== 0` — what `validateSem` (the meaning of a
    validator call inside `run`) and the guards of the model functions implement -/
theorem T_C03_translated_validators (P : Prims) (q : ℚ) :
    validatorBodies.map (fun p => (p.1, run P [("v0", LVal.num q), ("v1", LVal.num q)] (p.2.2 ++ [.ret (.lit 0)]))) =
      [("_validate_length", if q ≤ 0 then .error .value else .ok 0),
       ("_validate_start_end_size", if q ≤ 0 then .error .value else .ok 0),
       ("_validate_c2c_expansion", if q = 0 then .error .value else .ok 0),
       ("_validate_total_expansion", if q = 0 then .error .value else .ok 0)] :=
  validators_sem P q

/-- The five relations without a numeric library step: for all arguments (and whatever the slots answer) the tree of
    the source evaluates to what the model function returns — same guards in the same order, same branch, same
    closed formula, same `ZeroDivisionError`. -/
theorem T_C03_translated_closed (P : Prims) (L a b : ℚ) (n : ℕ) :
    run P (relEnv ⟨.start, .count, .c2c⟩ L n b) body_start_count_c2c = startCountC2c L n b ∧
    run P (relEnv ⟨.start, .end_, .total⟩ L a b) body_start_end_total = startEndTotal L a b ∧
    run P (relEnv ⟨.end_, .start, .total⟩ L a b) body_end_start_total = endStartTotal L a b ∧
    run P (relEnv ⟨.total, .count, .c2c⟩ L n b) body_total_count_c2c = totalCountC2c L n b ∧
    run P (relEnv ⟨.total, .start, .end_⟩ L a b) body_total_start_end = totalStartEnd L a b :=
  ⟨run_start_count_c2c P L b n, run_start_end_total P L a b, run_end_start_total P L a b,
   run_total_count_c2c P L b n, run_total_start_end P L a b⟩

/-- The four count relations: for all arguments, tolerances and solver answers the tree of the source evaluates to the
    model function.  Guards, the `TOL` switch, the operands of the logarithms (whose signs decide `nan` / `-inf`), the
    `isnan` test, the sign test `count < 0`, `d_min` and the bracket `length / d_min` are evaluated from the tree;
    `int(log A / log B) + 1`, `int(q) + 1`, `int(ceil q)`, `int(brentq …) + 1` are the oracle count under the model's
    validator (`countOK` / `powCountOK` on the operands / `countTOK`). -/
theorem T_C03_translated_count (t : Tol) (o : Oracle) (L a b : ℚ) :
    run (primsCountStartC2c t o L a) (relEnv ⟨.count, .start, .c2c⟩ L a b) body_count_start_c2c =
      natRes (countStartC2c t o L a b) ∧
    run (primsCountEndC2c t o L a) (relEnv ⟨.count, .end_, .c2c⟩ L a b) body_count_end_c2c =
      natRes (countEndC2c t o L a b) ∧
    run (primsCountTotalC2c t o) (relEnv ⟨.count, .total, .c2c⟩ L a b) body_count_total_c2c =
      natRes (countTotalC2c t o L a b) ∧
    run (primsCountTotalStart t o L a b) (relEnv ⟨.count, .total, .start⟩ L a b) body_count_total_start =
      natRes (countTotalStart t o L a b) :=
  ⟨run_count_start_c2c t o L a b, run_count_end_c2c t o L a b, run_count_total_c2c t o L a b,
   run_count_total_start t o L a b⟩

/-- The three relations returning a cell-to-cell ratio: guards, the test `length > start_size > 0`, `count == 1`, the
    near-uniform test `|count·size − length| / length < TOL`, the `ZeroDivisionError` of `1 / (count − 1)` come from
    the tree; `brentq` (with its bracket test) and `T ** (1/(count−1))` are the oracle ratio under `rootOK` / `powOK`
    (the latter on the operands of `**`). -/
theorem T_C03_translated_c2c (t : Tol) (o : Oracle) (L x : ℚ) (n : ℕ) :
    run (primsC2cCountStart t o L n x) (relEnv ⟨.c2c, .count, .start⟩ L n x) body_c2c_count_start =
      c2cCountStart t o L n x ∧
    run (primsC2cCountEnd t o L n x) (relEnv ⟨.c2c, .count, .end_⟩ L n x) body_c2c_count_end =
      c2cCountEnd t o L n x ∧
    run (primsC2cCountTotal t o) (relEnv ⟨.c2c, .count, .total⟩ L n x) body_c2c_count_total =
      c2cCountTotal t o L n x :=
  ⟨run_c2c_count_start t o L x n, run_c2c_count_end t o L x n, run_c2c_count_total t o L x n⟩

/-- the trees compute: 3 cells, ratio 2 on a unit edge start with 1/7; a zero ratio is rejected by the validator -/
example : (run (primsCountTotalC2c T0 {}) (relEnv ⟨.start, .count, .c2c⟩ 1 3 2) body_start_count_c2c).toOption = some (1 / 7) ∧
    (run (primsCountTotalC2c T0 {}) (relEnv ⟨.start, .count, .c2c⟩ 1 3 0) body_start_count_c2c).toOption = none ∧
    (run (primsCountTotalC2c T0 { count := some 4 }) (relEnv ⟨.count, .total, .c2c⟩ 1 8 2) body_count_total_c2c).toOption
      = some 4 := by decide +kernel

/-- The solver contract stated on the source: the function the body of `get_c2c_expansion__count__start_size` /
    `…__count__end_size` hands to `scipy.optimize.brentq` (`fexp`, as *translated* from the current source and evaluated
    exactly by `solverFn` at a rational point `c ≠ 1`) has a value `y`, and the validator of the `brentq` slot
    (`rootOK`, used by the model and by `T_C03_translated_c2c`) says exactly: the returned ratio is positive and
    `|size · y| ≤ ε · length` — the residual of the translated function, scaled by the cell size. -/
theorem T_C03_translated_solver_fn {ε L x c : ℚ} {n : ℕ} (hx : x ≠ 0) (hc : c ≠ 1) :
    (∃ y, solverFn (relEnv ⟨.c2c, .count, .start⟩ L n x) body_c2c_count_start c = .ok y ∧
      rootOK ε x c L n = (decide (0 < c) && decide (absR (x * y) ≤ ε * L))) ∧
    (n ≠ 0 → c ≠ 0 → ∃ y, solverFn (relEnv ⟨.c2c, .count, .end_⟩ L n x) body_c2c_count_end c = .ok y ∧
      rootOK ε x (1 / c) L n = (decide (0 < c) && decide (absR (x * y) ≤ ε * L))) :=
  ⟨⟨_, solverFn_c2c_count_start hx hc, rootOK_start_resid hx hc⟩,
   fun hn hc0 => ⟨_, solverFn_c2c_count_end hn hx hc hc0, rootOK_end_resid hn hx hc hc0⟩⟩

/-- the translated `fexp` evaluates: 3 cells of first size 1/7 on a unit edge have the root 2 (residual 0), not 3 -/
example : (solverFn (relEnv ⟨.c2c, .count, .start⟩ 1 3 (1 / 7)) body_c2c_count_start 2).toOption = some 0 ∧
    (solverFn (relEnv ⟨.c2c, .count, .start⟩ 1 3 (1 / 7)) body_c2c_count_start 3).toOption = some 6 ∧
    (solverFn (relEnv ⟨.c2c, .count, .end_⟩ 1 3 (4 / 7)) body_c2c_count_end 2).toOption = some 0 ∧
    rootOK 0 (1 / 7) 2 1 3 = true ∧ rootOK 0 (1 / 7) 3 1 3 = false := by decide +kernel

/-- `Chop.calculate` interpreted statement by statement from the source as it is now.  `cbv/tables/c03.py` matches every
    statement of the method (all non-`None` fields start as known; `for _ in range(N)`: first the completeness test on the
    key set with `return data["count"], data["total_expansion"]`, then one pass over
    `ChopRelation.get_possible_combinations()` — skip when the output is known, call
    `function(length, data[input_1], data[input_2])` when both inputs are known and mark the output known; `raise` after the
    loop) and emits its constants; `calcGen` runs that loop as the source does — the set `calculated` and the dictionary
    `data` move together, a relation that raises aborts — on the generated relation table.  For every chop, edge length,
    tolerance and solver answers it is the model's `calculate` (which first plans on the names, then makes the calls):
    planning ahead and running interleaved are the same thing. -/
theorem T_C03_translated_calculate (t : Tol) (L : ℚ) (o : Oracle) (v : Vals) :
    calcGen CBV.Gen.c03CalcLoop t L o v = some (calculate t L o v) :=
  calcGen_eq t L o v

/-- the interpretation computes, and reacts to its table: one round is not enough for (count, start size), an argument
    order other than `(length, input_1, input_2)` or another returned pair is refused -/
example :
    (calcGen CBV.Gen.c03CalcLoop T0 1 { c2c := some 2 } { count := some 3, start := some (1 / 7) }).map returned =
      some (some (some 3, some 4)) ∧
    (calcGen (1, ["c2c_expansion", "count", "end_size", "start_size", "total_expansion"], ("count", "total_expansion"),
        ("length", "input_1", "input_2")) T0 1 { c2c := some 2 } { count := some 3, start := some (1 / 7) }).map returned =
      some none ∧
    calcGen (12, ["c2c_expansion", "count", "end_size", "start_size", "total_expansion"], ("count", "total_expansion"),
        ("length", "input_2", "input_1")) T0 1 {} { count := some 3 } = none := by decide +kernel

/-- `Chop.__post_init__` interpreted from the source as it is now (`cbv/tables/c03.py` reads the list of counted
    attributes, the threshold of `len(params) - params.count(None) < 2`, the defaulted attribute with its value and the
    clamp `max(int(self.count), 1)` with `ast`): for all constructor arguments it is the model's `postInit`. -/
theorem T_C03_translated_post_init (count : Option Int) (start end_ c2c total : Option ℚ) :
    postInitGen CBV.Gen.c03PostInit count start end_ c2c total = some (postInit count start end_ c2c total) :=
  postInitGen_eq count start end_ c2c total

/-- the interpretation reacts to its table: with threshold 3 a chop given two parameters would get `c2c = 1` as well -/
example : (postInitGen CBV.Gen.c03PostInit (some 0) none none none none).map (fun v => (v.count, v.c2c)) = some (some 1, some 1) ∧
    (postInitGen (["start_size", "end_size", "count", "total_expansion", "c2c_expansion"], 3, ("c2c_expansion", 1), ("count", 1))
      (some 5) (some (1 / 10)) none none none).map (·.c2c) = some (some 1) ∧
    (postInitGen CBV.Gen.c03PostInit (some 5) (some (1 / 10)) none none none).map (·.c2c) = some none := by decide +kernel

/-- `Chop.copy_preserving` interpreted from the source as it is now (its seven statements are matched one by one with
    `ast`: arguments from `dataclasses.asdict(self)`, `args["count"] = self.results["count"]`, the list of keys set to
    `None`, the preserved quantity from `results`, `Chop(**args)` — i.e. the interpreted `__post_init__` —, the conditional
    `invert()`): for every object whose last results hold a count `>= 1` (what `calculate` returns) and both flags it is
    the model's `copyPreserving`.  In particular the copy depends on the chop's own parameters not at all: every one of
    the four sizes / ratios is cleared before the preserved one is set. -/
theorem T_C03_translated_copy_preserving (ob : Obj) (inverted : Bool)
    (hn : ∀ res n, ob.last = some res → res.count = some n → 1 ≤ n) :
    copyGen CBV.Gen.c03CopyPreserving CBV.Gen.c03PostInit ob inverted = copyPreserving ob inverted :=
  copyGen_eq ob inverted hn

/-- a chop (start 1/10, ratio 2) with results (3 cells, …): the reversed copy is (3, ratio 1/2); an interpretation whose
    cleared list forgets `start_size` would carry the chop's own start size into the copy -/
example :
    let ob : Obj := { params := { start := some (1 / 10), c2c := some 2 },
                      last := some { count := some 3, start := some (1 / 7), end_ := some (4 / 7), c2c := some 2, total := some 4 } }
    (copyGen CBV.Gen.c03CopyPreserving CBV.Gen.c03PostInit ob true).toOption = some { count := some 3, c2c := some (1 / 2) } ∧
    (copyPreserving ob true).toOption = some { count := some 3, c2c := some (1 / 2) } ∧
    (copyGen (("count", "count"), ["total_expansion", "c2c_expansion", "end_size"], true) CBV.Gen.c03PostInit ob false).toOption =
      some { count := some 3, start := some (1 / 10), c2c := some 2 } := by decide +kernel

/-- `Chop.invert`, statement by statement as the source has it now (tuple swap of the sizes, `1 / c2c_expansion` and
    `1 / total_expansion` under their `is not None` tests, the `preserve` field moved to the other end — in this order):
    run on any parameter record it yields the model's `invert` and `swapPreserve`, and when a reciprocal raises
    (`1 / 0`) it leaves exactly the half-inverted record `invertLeft` that the histories continue with. -/
theorem T_C03_translated_invert :
    encIBody invertBody = CBV.Gen.c03InvertBody ∧
    ∀ (v : Vals) (p : Q), runI invertBody (v, p) =
      match invert v with
      | .ok w => ((w, swapPreserve p), none)
      | .error e => ((invertLeft v, p), some e) :=
  ⟨invertBody_source, runI_invert⟩

/-! ### 9. the token encoding checked in Lean: a total decoder that inverts it -/

/-- `decodeBody` (a total prefix parser for statements, conditions and expressions, fuelled by the length of the token
    list) inverts `encBody` on every well-formed body — single-digit literals, arities and branch lengths, which is what the
    translator emits (it refuses anything larger).  So the encoding is uniquely decodable: … -/
theorem T_C03_decode_encode (l : List Stmt) (hw : ∀ s ∈ l, s.wf) : decodeBody (encBody l) = some l :=
  decodeBody_encBody l hw

/-- … two different well-formed bodies never share a token list (`T_C03_translated_source_*` therefore pins the tree, not
    just a string of tokens) -/
theorem T_C03_encode_injective {l l' : List Stmt} (hw : ∀ s ∈ l, s.wf) (hw' : ∀ s ∈ l', s.wf)
    (h : encBody l = encBody l') : l = l' :=
  encBody_injective hw hw' h

example : (∀ s ∈ body_count_end_c2c, s.wf) ∧ decodeBody (encBody body_count_end_c2c) = some body_count_end_c2c := by
  have hw : ∀ s ∈ body_count_end_c2c, s.wf := by
    simp [body_count_end_c2c, Stmt.wf, Cond.wf, Expr.wf, assignsWf]
  exact ⟨hw, T_C03_decode_encode _ hw⟩

/-- The ties read through the decoder: the token list generated from the current source *decodes* (in Lean, by the
    kernel) to the tree the model holds, relation by relation. -/
theorem T_C03_decoded_source_c2c_count_end : decodeBody CBV.Gen.c03Body_c2c_expansion__count__end_size = some body_c2c_count_end := body_c2c_count_end_decoded
theorem T_C03_decoded_source_c2c_count_start : decodeBody CBV.Gen.c03Body_c2c_expansion__count__start_size = some body_c2c_count_start := body_c2c_count_start_decoded
theorem T_C03_decoded_source_c2c_count_total : decodeBody CBV.Gen.c03Body_c2c_expansion__count__total_expansion = some body_c2c_count_total := body_c2c_count_total_decoded
theorem T_C03_decoded_source_count_end_c2c : decodeBody CBV.Gen.c03Body_count__end_size__c2c_expansion = some body_count_end_c2c := body_count_end_c2c_decoded
theorem T_C03_decoded_source_count_start_c2c : decodeBody CBV.Gen.c03Body_count__start_size__c2c_expansion = some body_count_start_c2c := body_count_start_c2c_decoded
theorem T_C03_decoded_source_count_total_c2c : decodeBody CBV.Gen.c03Body_count__total_expansion__c2c_expansion = some body_count_total_c2c := body_count_total_c2c_decoded
theorem T_C03_decoded_source_count_total_start : decodeBody CBV.Gen.c03Body_count__total_expansion__start_size = some body_count_total_start := body_count_total_start_decoded
theorem T_C03_decoded_source_end_start_total : decodeBody CBV.Gen.c03Body_end_size__start_size__total_expansion = some body_end_start_total := body_end_start_total_decoded
theorem T_C03_decoded_source_start_count_c2c : decodeBody CBV.Gen.c03Body_start_size__count__c2c_expansion = some body_start_count_c2c := body_start_count_c2c_decoded
theorem T_C03_decoded_source_start_end_total : decodeBody CBV.Gen.c03Body_start_size__end_size__total_expansion = some body_start_end_total := body_start_end_total_decoded
theorem T_C03_decoded_source_total_count_c2c : decodeBody CBV.Gen.c03Body_total_expansion__count__c2c_expansion = some body_total_count_c2c := body_total_count_c2c_decoded
theorem T_C03_decoded_source_total_start_end : decodeBody CBV.Gen.c03Body_total_expansion__start_size__end_size = some body_total_start_end := body_total_start_end_decoded

/-- the same for the statements of `Chop.invert` (`IStmt`): decoder, round trip, and the generated tokens decode to
    `invertBody`; the bodies of the four simple validators decode to the model's `validatorBodies` -/
theorem T_C03_decode_encode_invert (l : List IStmt) (hw : ∀ s ∈ l, s.wf) : decodeIBody (encIBody l) = some l :=
  decodeIBody_encIBody l hw

example : (∀ s ∈ invertBody, s.wf) ∧ decodeIBody (encIBody invertBody) = some invertBody := by
  have hw : ∀ s ∈ invertBody, s.wf := by simp [invertBody, IStmt.wf]
  exact ⟨hw, T_C03_decode_encode_invert _ hw⟩

theorem T_C03_decoded_source_invert_validators :
    decodeIBody CBV.Gen.c03InvertBody = some invertBody ∧
    CBV.Gen.c03ValidatorBodies.map (fun p => (p.1, p.2.1, decodeBody p.2.2)) =
      validatorBodies.map (fun p => (p.1, p.2.1, some p.2.2)) :=
  ⟨invertBody_decoded, validatorBodies_decoded⟩

/-! ### 10. the semantic tie for the closed-form relations

`SemEq b₁ b₂`: two bodies have the same outcome under every slot interpretation and environment.  The obligation has
the shape `decodeBody tokens = some t ∧ SemEq t body_<rel> ∧ run body_<rel> = model` (`semantic_tie`); today the decoded
tree *is* the model's (`SemEq.refl`), a semantically equal rewrite of the source needs only a proof of `SemEq`. -/

/-- For the five relations without a numeric library step: what the tokens generated from the current source decode
    to evaluates, for all arguments and any slots, to the model function. -/
theorem T_C03_semantic_source_start_count_c2c (P : Prims) (L r : ℚ) (n : ℕ) :
    (decodeBody CBV.Gen.c03Body_start_size__count__c2c_expansion).map
      (fun b => run P (relEnv ⟨.start, .count, .c2c⟩ L n r) b) = some (startCountC2c L n r) :=
  semantic_start_count_c2c P L r n

theorem T_C03_semantic_source_start_end_total (P : Prims) (L e T : ℚ) :
    (decodeBody CBV.Gen.c03Body_start_size__end_size__total_expansion).map
      (fun b => run P (relEnv ⟨.start, .end_, .total⟩ L e T) b) = some (startEndTotal L e T) :=
  semantic_start_end_total P L e T

theorem T_C03_semantic_source_end_start_total (P : Prims) (L s T : ℚ) :
    (decodeBody CBV.Gen.c03Body_end_size__start_size__total_expansion).map
      (fun b => run P (relEnv ⟨.end_, .start, .total⟩ L s T) b) = some (endStartTotal L s T) :=
  semantic_end_start_total P L s T

theorem T_C03_semantic_source_total_count_c2c (P : Prims) (L r : ℚ) (n : ℕ) :
    (decodeBody CBV.Gen.c03Body_total_expansion__count__c2c_expansion).map
      (fun b => run P (relEnv ⟨.total, .count, .c2c⟩ L n r) b) = some (totalCountC2c L n r) :=
  semantic_total_count_c2c P L r n

theorem T_C03_semantic_source_total_start_end (P : Prims) (L s e : ℚ) :
    (decodeBody CBV.Gen.c03Body_total_expansion__start_size__end_size).map
      (fun b => run P (relEnv ⟨.total, .start, .end_⟩ L s e) b) = some (totalStartEnd L s e) :=
  semantic_total_start_end P L s e

/-- the general shape, with its hypotheses met by a concrete instance below -/
theorem T_C03_semantic_tie {toks : List String} {t body : List Stmt} {P : Prims} {env : PEnv} {res : Except Err ℚ}
    (hdec : decodeBody toks = some t) (hsem : SemEq t body) (hrun : run P env body = res) :
    (decodeBody toks).map (fun b => run P env b) = some res :=
  semantic_tie hdec hsem hrun

example : decodeBody CBV.Gen.c03Body_end_size__start_size__total_expansion = some body_end_start_total ∧
    SemEq body_end_start_total body_end_start_total :=
  ⟨body_end_start_total_decoded, SemEq.refl _⟩

/-- A first normaliser for `SemEq` proofs: `canonE` sorts the operands of every `+` and `*` by their token encodings
    (bottom up — the order the Python translator writes for the closed-form relations).  It does not change the value of
    an expression in any environment; when *both* operands of a commuted node fail, the kind of error reported may differ,
    hence the statement on `toOption`. -/
theorem T_C03_canon_value (env : PEnv) (e : Expr) : (evalE env (canonE e)).toOption = (evalE env e).toOption :=
  evalE_canonE env e

/-- the source's `length * (1 - c)` and the commuted `(1 - c) * length` have the same normal form — the one the model's
    tree of `get_start_size__count__c2c_expansion` holds -/
example :
    canonE (.mul (.var "length") (.sub (.lit 1) (.var "c2c_expansion"))) =
      canonE (.mul (.sub (.lit 1) (.var "c2c_expansion")) (.var "length")) ∧
    canonE (.mul (.var "length") (.sub (.lit 1) (.var "c2c_expansion"))) =
      .mul (.sub (.lit 1) (.var "c2c_expansion")) (.var "length") := by decide +kernel

end CBV.C03
