/- C03 — property theorems.  Stub. -/
import CBV.Model.C03

namespace CBV.C03

end CBV.C03
