/- C20 — property theorems.  Stub. -/
import CBV.Model.C20

namespace CBV.C20

end CBV.C20
