/-
C20 — property theorems.  Every guard of the catalogue rejects exactly the arguments that violate the
documented precondition — on both sides of every boundary.
-/
import CBV.Model.C20
import CBV.Lemmas.C20
import CBV.Lemmas.C20Guards
import Mathlib.Tactic.LinearCombination
import Mathlib.Tactic.Ring
import Mathlib.Tactic.Linarith
import Mathlib.Algebra.Order.Field.Rat
import CBV.Gen.TC20

namespace CBV.C20

set_option linter.unusedSimpArgs false
set_option linter.unusedVariables false
set_option linter.unnecessarySeqFocus false

/-! ### index guards: the documented range, enforced at both ends -/

/-- `Face.add_edge(corner, …)` is rejected iff the corner is not one of 0…3 (for every integer) -/
theorem T_C20_face_add_edge (tol : Rat) (c : Int) :
    (run tol (.faceAddEdge c)).isReject = true ↔ ¬ (0 ≤ c ∧ c ≤ 3) := by
  simp only [run, checks_isReject, faceCornerBad, List.any_cons, List.any_nil, Bool.or_false,
    Bool.or_eq_true, decide_eq_true_eq]
  omega

theorem T_C20_face_project_edge (tol : Rat) (c : Int) :
    (run tol (.faceProjectEdge c)).isReject = true ↔ ¬ (0 ≤ c ∧ c ≤ 3) := by
  simp only [run, checks_isReject, faceCornerBad, List.any_cons, List.any_nil, Bool.or_false,
    Bool.or_eq_true, decide_eq_true_eq]
  omega

theorem T_C20_op_add_side_edge (tol : Rat) (c : Int) :
    (run tol (.opAddSideEdge c)).isReject = true ↔ ¬ (0 ≤ c ∧ c ≤ 3) := by
  simp only [run, checks_isReject, List.any_cons, List.any_nil, Bool.or_false,
    Bool.or_eq_true, decide_eq_true_eq]
  omega

theorem T_C20_op_project_corner (tol : Rat) (c : Int) :
    (run tol (.opProjectCorner c)).isReject = true ↔ ¬ (0 ≤ c ∧ c ≤ 7) := by
  simp only [run, checks_isReject, List.any_cons, List.any_nil, Bool.or_false,
    Bool.or_eq_true, decide_eq_true_eq]
  omega

theorem T_C20_op_chop (tol : Rat) (axis : Int) :
    ((run tol (.opChop axis)).isReject = true ↔ ¬ (0 ≤ axis ∧ axis ≤ 2)) ∧
    ((run tol (.opUnchop axis)).isReject = true ↔ ¬ (0 ≤ axis ∧ axis ≤ 2)) := by
  simp only [run, checks_isReject, List.any_cons, List.any_nil, Bool.or_false,
    Bool.or_eq_true, Bool.not_eq_true', beq_iff_eq, Bool.or_eq_false_iff, beq_eq_false_iff_ne]
  omega


/-! ### counts: one below, at, one above the documented number -/

/-- `Face(points)`: rejected iff the array is not 4 × 3 -/
theorem T_C20_face_shape (tol : Rat) (n m : Nat) :
    (run tol (.faceShape n m)).isReject = true ↔ ¬ (n = 4 ∧ m = 3) := by
  simp only [run, checks_isReject, List.any_cons, List.any_nil, Bool.or_false, Bool.or_eq_true,
    Bool.not_eq_true', beq_iff_eq, Bool.and_eq_false_iff, beq_eq_false_iff_ne]
  omega

theorem T_C20_face_edges (tol : Rat) (k : Nat) :
    (run tol (.faceEdges k)).isReject = true ↔ ¬ (k = 4) := by
  simp [run, checks_isReject]

theorem T_C20_point_shape (tol : Rat) (dims : List Nat) :
    (run tol (.pointShape dims)).isReject = true ↔ ¬ (dims = [3]) := by
  simp [run, checks_isReject]

/-- `Array(points)`: rejected iff the points are not 3-dimensional or there are fewer than two -/
theorem T_C20_array_shape (tol : Rat) (n m : Nat) :
    (run tol (.arrayShape n m)).isReject = true ↔ ¬ (m = 3 ∧ 2 ≤ n) := by
  simp only [run, checks_isReject, List.any_cons, List.any_nil, Bool.or_false, Bool.or_eq_true,
    bne_iff_ne, beq_iff_eq, decide_eq_true_eq]
  omega

theorem T_C20_side_vertices (tol : Rat) (k : Nat) :
    (run tol (.sideVertices k)).isReject = true ↔ ¬ (k = 8) := by
  simp [run, checks_isReject]

theorem T_C20_from_series (tol : Rat) (k : Nat) :
    (run tol (.fromSeries k)).isReject = true ↔ ¬ (2 ≤ k) := by
  simp [run, checks_isReject]

/-- `Project(labels)`: rejected iff there are not one or two labels -/
theorem T_C20_project_labels (tol : Rat) (n : Nat) :
    (run tol (.projectLabels n)).isReject = true ↔ ¬ (1 ≤ n ∧ n ≤ 2) := by
  simp only [run, checks_isReject, List.any_cons, List.any_nil, Bool.or_false,
    Bool.not_eq_true', Bool.and_eq_false_iff, decide_eq_false_iff_not]
  omega

theorem T_C20_cylinder_fill (tol : Rat) (n : Nat) :
    (run tol (.cylinderFill n)).isReject = true ↔ ¬ (n = 8) := by
  simp [run, checks_isReject]

/-- `LoftedShape`: rejected iff some sketch has another number of faces than the first -/
theorem T_C20_lofted_shape (tol : Rat) (n1 n2 : Nat) (mids : List Nat) :
    (run tol (.loftedShape n1 n2 mids)).isReject = true ↔ ¬ (n1 = n2 ∧ ∀ m ∈ mids, m = n1) := by
  simp only [run, checks_isReject, List.any_cons, List.any_nil, Bool.or_false, Bool.or_eq_true,
    bne_iff_ne, List.any_eq_true]
  constructor
  · rintro (h | ⟨m, hm, hne⟩) ⟨h1, h2⟩
    · exact h h1
    · exact hne (h2 m hm)
  · intro h
    by_cases h1 : n1 = n2
    · right
      by_contra hc
      apply h
      refine ⟨h1, fun m hm => ?_⟩
      by_contra hne
      exact hc ⟨m, hm, hne⟩
    · left; exact h1

/-! ### intervals of rationals -/

/-- the length ratio of a chop must lie in (0, 1] -/
theorem T_C20_length_ratio (tol r : Rat) :
    (run tol (.lengthRatio r)).isReject = true ↔ ¬ (0 < r ∧ r ≤ 1) := by
  simp only [run, checks_isReject, List.any_cons, List.any_nil, Bool.or_false,
    Bool.not_eq_true', Bool.and_eq_false_iff, decide_eq_false_iff_not]
  constructor
  · rintro (h | h) ⟨h1, h2⟩
    · exact h h1
    · exact h h2
  · intro h
    by_cases h1 : 0 < r
    · right; intro h2; exact h ⟨h1, h2⟩
    · left; exact h1

/-- chaining: a length that is not positive is rejected -/
theorem T_C20_chain (tol : Rat) (kind : Nat) (len : Rat) :
    (run tol (.chain kind len)).isReject = true ↔ ¬ (0 < len) := by
  simp only [run, checks_isReject, List.any_cons, List.any_nil, Bool.or_false, Bool.or_eq_true,
    decide_eq_true_eq]
  constructor
  · rintro (h | h) <;> linarith
  · intro h
    rcases lt_trichotomy len 0 with h1 | h1 | h1
    · left; exact h1
    · right; exact h1
    · exact absurd h1 h

/-- `ExtrudedRing.contract`: the new inner radius must be positive and below the source's by at least `tol` -/
theorem T_C20_ring_contract (tol rnew rsrc : Rat) :
    (run tol (.ringContract rnew rsrc)).isReject = true ↔ ¬ (0 < rnew ∧ rnew + tol ≤ rsrc) := by
  simp only [run, checks_isReject, List.any_cons, List.any_nil, Bool.or_false, Bool.or_eq_true,
    decide_eq_true_eq]
  constructor
  · rintro (h | h) ⟨h1, h2⟩ <;> linarith
  · intro h
    by_cases h1 : rnew ≤ 0
    · left; exact h1
    · right
      by_contra hc
      apply h
      constructor <;> linarith

/-- with a positive tolerance an accepted contraction is to a strictly smaller radius, and a radius that is
    not below the source's (equal included) is rejected -/
theorem T_C20_ring_contract_strict (tol rnew rsrc : Rat) (htol : 0 < tol) :
    ((run tol (.ringContract rnew rsrc)).isReject = false → rnew < rsrc) ∧
    (rsrc ≤ rnew → (run tol (.ringContract rnew rsrc)).isReject = true) := by
  constructor
  · intro h
    have := (T_C20_ring_contract tol rnew rsrc).not.mp (by simp [h])
    have := not_not.mp this
    linarith [this.2]
  · intro h
    apply (T_C20_ring_contract tol rnew rsrc).mpr
    intro ⟨_, h2⟩
    linarith


/-- non-vacuity: the library's tolerance is positive; 0.3 is an accepted contraction of a ring of inner radius 0.5 -/
example : (0 : Rat) < 1 / 10000000 ∧ (run (1 / 10000000) (.ringContract (3 / 10) (1 / 2))).isReject = false := by
  decide +kernel

/-! ### symmetric conditions: coplanar / perpendicular within the tolerance, on both sides -/

/-- `Face(..., check_coplanar=True)`: rejected iff the triple product leaves [-tol, tol] on either side -/
theorem T_C20_face_coplanar (tol : Rat) (p0 p1 p2 p3 : V3) :
    (run tol (.faceCoplanar p0 p1 p2 p3)).isReject = true ↔
      ¬ (-tol ≤ triple p0 p1 p2 p3 ∧ triple p0 p1 p2 p3 ≤ tol) := by
  simp only [run, checks_isReject, List.any_cons, List.any_nil, Bool.or_false, decide_eq_true_eq]
  exact absR_gt_iff _ _

/-- `Cylinder` / `SemiCylinder`: rejected iff the axis or the radius vector vanishes or their dot product
    leaves [-tol, tol] **on either side** -/
theorem T_C20_cylinder_perp (tol : Rat) (a1 a2 rp : V3) :
    (run tol (.cylinder a1 a2 rp)).isReject = true ↔
      ¬ (a2 - a1 ≠ V3.zero ∧ rp - a1 ≠ V3.zero ∧
          -tol ≤ V3.dot (a2 - a1) (rp - a1) ∧ V3.dot (a2 - a1) (rp - a1) ≤ tol) := by
  simp only [run, checks_isReject, List.any_cons, List.any_nil, Bool.or_false, Bool.or_eq_true,
    decide_eq_true_eq, isZero_iff, absR_gt_iff]
  tauto

theorem T_C20_frustum_perp (tol : Rat) (a1 a2 rp : V3) :
    (run tol (.frustum a1 a2 rp)).isReject = true ↔
      ¬ (a2 - a1 ≠ V3.zero ∧ rp - a1 ≠ V3.zero ∧
          -tol ≤ V3.dot (a2 - a1) (rp - a1) ∧ V3.dot (a2 - a1) (rp - a1) ≤ tol) := by
  simp only [run, checks_isReject, List.any_cons, List.any_nil, Bool.or_false, Bool.or_eq_true,
    decide_eq_true_eq, isZero_iff, absR_gt_iff]
  tauto

/-- the symmetry itself: two radius points whose deviations from perpendicularity are opposite get the same verdict
    from `Cylinder` and from `Frustum` -/
theorem T_C20_perp_symmetric (tol : Rat) (a1 a2 rp rp' : V3)
    (hdot : V3.dot (a2 - a1) (rp' - a1) = -V3.dot (a2 - a1) (rp - a1))
    (hzero : rp' - a1 = V3.zero ↔ rp - a1 = V3.zero) :
    (run tol (.cylinder a1 a2 rp')).isReject = (run tol (.cylinder a1 a2 rp)).isReject ∧
    (run tol (.frustum a1 a2 rp')).isReject = (run tol (.frustum a1 a2 rp)).isReject := by
  constructor <;> rw [Bool.eq_iff_iff]
  · rw [T_C20_cylinder_perp, T_C20_cylinder_perp, hdot, not_iff_not]
    constructor <;> rintro ⟨h1, h2, h3, h4⟩
    · exact ⟨h1, fun h => h2 (hzero.mpr h), by linarith, by linarith⟩
    · exact ⟨h1, fun h => h2 (hzero.mp h), by linarith, by linarith⟩
  · rw [T_C20_frustum_perp, T_C20_frustum_perp, hdot, not_iff_not]
    constructor <;> rintro ⟨h1, h2, h3, h4⟩
    · exact ⟨h1, fun h => h2 (hzero.mpr h), by linarith, by linarith⟩
    · exact ⟨h1, fun h => h2 (hzero.mp h), by linarith, by linarith⟩

example : V3.dot ((⟨0, 0, 1⟩ : V3) - ⟨0, 0, 0⟩) ((⟨1, 0, -1 / 2⟩ : V3) - ⟨0, 0, 0⟩)
      = -V3.dot ((⟨0, 0, 1⟩ : V3) - ⟨0, 0, 0⟩) ((⟨1, 0, 1 / 2⟩ : V3) - ⟨0, 0, 0⟩) ∧
    (((⟨1, 0, -1 / 2⟩ : V3) - ⟨0, 0, 0⟩ = V3.zero) ↔ ((⟨1, 0, 1 / 2⟩ : V3) - ⟨0, 0, 0⟩ = V3.zero)) := by
  decide +kernel

/-- the guard as it was before the repair (`diff > TOL` without `abs`) -/
def cylinderOld (tol : Rat) (a1 a2 rp : V3) : Out :=
  checks [(decide (V3.dot (a2 - a1) (rp - a1) > tol), "CylinderCreationError")]

/-- … does *not* enforce the symmetric condition: a radius point leaning by −1/2 is accepted -/
theorem T_C20_onesided_counterexample :
    ¬ ∀ a1 a2 rp : V3, (cylinderOld (1 / 10000000) a1 a2 rp).isReject = true ↔
      ¬ (-(1 / 10000000) ≤ V3.dot (a2 - a1) (rp - a1) ∧ V3.dot (a2 - a1) (rp - a1) ≤ 1 / 10000000) := by
  intro h
  have := (h ⟨0, 0, 0⟩ ⟨0, 0, 1⟩ ⟨1, 0, -1 / 2⟩).mpr (by decide +kernel)
  revert this
  decide +kernel

/-! ### the ring: radii and perpendicularity.  The model compares squares; the code compares norms. -/

/-- the coded comparison `outer_radius - inner_radius < TOL` of two norms is the squared comparison of the model,
    for every non-negative root `s` of `|v|²` -/
theorem T_C20_radii_squared (tol rin s : Rat) (v : V3) (hs : 0 ≤ s) (hss : s * s = V3.norm2 v)
    (hr : 0 ≤ rin) (htol : 0 ≤ tol) :
    (s - rin < tol ↔ V3.norm2 v < (rin + tol) * (rin + tol)) ∧
    (rin + tol ≤ s ↔ (rin + tol) * (rin + tol) ≤ V3.norm2 v) := by
  rw [← hss]
  constructor
  · rw [← lt_iff_sq_lt hs (by linarith)]
    constructor <;> intro h <;> linarith
  · exact le_iff_sq_le (by linarith) hs

example : (0 : Rat) ≤ 5 ∧ (5 : Rat) * 5 = V3.norm2 ⟨3, 4, 0⟩ ∧ (0 : Rat) ≤ 1 / 2 ∧ (0 : Rat) ≤ 1 / 10000000 := by
  decide +kernel

/-- the coded comparison `abs(dot(normal / |normal|, v)) > TOL` and the documented two-sided condition, in squared
    form, for every positive root `s` of `|n|²` -/
theorem T_C20_lean_squared (tol s : Rat) (n v : V3) (hs : 0 < s) (hss : s * s = V3.norm2 n) (htol : 0 ≤ tol) :
    (absR (V3.dot n v / s) > tol ↔ V3.dot n v * V3.dot n v > tol * tol * V3.norm2 n) ∧
    ((-tol ≤ V3.dot n v / s ∧ V3.dot n v / s ≤ tol) ↔ V3.dot n v * V3.dot n v ≤ tol * tol * V3.norm2 n) := by
  have key : absR (V3.dot n v / s) > tol ↔ V3.dot n v * V3.dot n v > tol * tol * V3.norm2 n := by
    rw [← hss]
    have hne : s ≠ 0 := ne_of_gt hs
    have e : V3.dot n v / s * s = V3.dot n v := div_mul_cancel₀ _ hne
    have h1 : V3.dot n v * V3.dot n v = (absR (V3.dot n v / s) * s) * (absR (V3.dot n v / s) * s) := by
      have : (absR (V3.dot n v / s) * s) * (absR (V3.dot n v / s) * s)
          = (absR (V3.dot n v / s) * absR (V3.dot n v / s)) * (s * s) := by ring
      rw [this, absR_mul_self]
      have : V3.dot n v / s * (V3.dot n v / s) * (s * s) = (V3.dot n v / s * s) * (V3.dot n v / s * s) := by ring
      rw [this, e]
    rw [h1]
    have ha := absR_nonneg (V3.dot n v / s)
    have : tol * tol * (s * s) = (tol * s) * (tol * s) := by ring
    rw [this, gt_iff_lt, gt_iff_lt, ← lt_iff_sq_lt (mul_nonneg htol hs.le) (mul_nonneg ha hs.le)]
    constructor
    · intro h; exact mul_lt_mul_of_pos_right h hs
    · intro h; exact lt_of_mul_lt_mul_right h hs.le
  refine ⟨key, ?_⟩
  have := (absR_gt_iff (V3.dot n v / s) tol)
  constructor
  · intro h
    by_contra hc
    exact (this.mp (key.mpr (not_le.mp hc))) h
  · intro h
    by_contra hc
    have := key.mp (this.mpr hc)
    linarith

example : (0 : Rat) < 7 ∧ (7 : Rat) * 7 = V3.norm2 ⟨2, 3, 6⟩ := by decide +kernel

/-- `Annulus` / `ExtrudedRing`: rejected iff a vector vanishes, there are fewer than two segments, the inner radius
    is negative or not below the outer one by `tol`, or the radius vector leans out of the plane on either side -/
theorem T_C20_annulus (tol : Rat) (c p n : V3) (rin : Rat) (nseg : Int) :
    (run tol (.annulus c p n rin nseg)).isReject = true ↔
      ¬ (n ≠ V3.zero ∧ p - c ≠ V3.zero ∧ 2 ≤ nseg ∧ 0 ≤ rin ∧
          (rin + tol) * (rin + tol) ≤ V3.norm2 (p - c) ∧
          V3.dot n (p - c) * V3.dot n (p - c) ≤ tol * tol * V3.norm2 n) := by
  simp only [run, checks_isReject, List.any_cons, List.any_nil, Bool.or_false, Bool.or_eq_true,
    decide_eq_true_eq, isZero_iff, beq_iff_eq]
  constructor
  · rintro (h | h | h | h | h | h | h) ⟨h1, h2, h3, h4, h5, h6⟩
    · linarith
    · omega
    · rcases h with h | h
      · exact h1 h
      · exact h2 h
    · omega
    · omega
    · linarith
    · linarith
  · intro h
    by_contra hc
    simp only [not_or, not_lt] at hc
    obtain ⟨c1, c2, c3, c4, c5, c6, c7⟩ := hc
    apply h
    refine ⟨c3.1, c3.2, by omega, c1, c6, c7⟩

/-- consequences in the documented, unsquared form: an accepted ring has its inner radius strictly below the
    outer one, and an inner radius that is not below the outer one (equal included) is rejected -/
theorem T_C20_annulus_radii (tol : Rat) (c p n : V3) (rin : Rat) (nseg : Int) (s : Rat)
    (htol : 0 < tol) (hs : 0 ≤ s) (hss : s * s = V3.norm2 (p - c)) :
    ((run tol (.annulus c p n rin nseg)).isReject = false → 0 ≤ rin ∧ rin < s) ∧
    (s ≤ rin → (run tol (.annulus c p n rin nseg)).isReject = true) := by
  constructor
  · intro h
    have h' := not_not.mp ((T_C20_annulus tol c p n rin nseg).not.mp (by simp [h]))
    obtain ⟨_, _, _, h4, h5, _⟩ := h'
    have := ((T_C20_radii_squared tol rin s (p - c) hs hss h4 htol.le).2).mpr h5
    exact ⟨h4, by linarith⟩
  · intro h
    apply (T_C20_annulus tol c p n rin nseg).mpr
    rintro ⟨_, _, _, h4, h5, _⟩
    have := ((T_C20_radii_squared tol rin s (p - c) hs hss h4 htol.le).2).mpr h5
    linarith

/-- non-vacuity: a ring with outer radius 5 (root witness of |(3,4,0)|² = 25), inner radius 2, is accepted -/
example : (0 : Rat) < 1 / 10000000 ∧ (0 : Rat) ≤ 5 ∧ (5 : Rat) * 5 = V3.norm2 ((⟨3, 4, 0⟩ : V3) - ⟨0, 0, 0⟩) ∧
    (run (1 / 10000000) (.annulus ⟨0, 0, 0⟩ ⟨3, 4, 0⟩ ⟨0, 0, 2⟩ 2 8)).isReject = false := by decide +kernel

/-! ### lists of corners, side names -/

/-- `Face.remove_edges(corners)`: rejected iff some corner is not one of 0…3 -/
theorem T_C20_face_remove_edges (tol : Rat) (cs : List Int) :
    (run tol (.faceRemoveEdges cs)).isReject = true ↔ ¬ (∀ c ∈ cs, 0 ≤ c ∧ c ≤ 3) := by
  simp only [run, removeEdgesRun_isReject]
  constructor
  · rintro ⟨c, hc, hn⟩ h; exact hn (h c hc)
  · intro h
    by_contra hc
    apply h
    intro c hmem
    by_contra hn
    exact hc ⟨c, hmem, hn⟩

/-- `set_patch` / `project_side`: with the generated `SIDES_MAP`, exactly the six side names of the hexahedron
    are accepted (`decide` on the table regenerated from the source) -/
theorem T_C20_sides_table :
    ∀ s ∈ sideNames, (s == "bottom" || s == "top" || CBV.Gen.sidesMap.contains s) = true := by decide

theorem T_C20_op_side (tol : Rat) (side : String) :
    (run tol (.opSide side)).isReject = true ↔ ¬ (side ∈ sideNames) := by
  simp only [run, checks_isReject, List.any_cons, List.any_nil, Bool.or_false, Bool.not_eq_true',
    Bool.or_eq_false_iff, beq_eq_false_iff_ne, CBV.Gen.sidesMap, sideNames, List.contains_eq_mem,
    List.mem_cons, List.not_mem_nil, or_false, decide_eq_false_iff_not]
  tauto

/-! ### pairs of corners: exactly the 12 edges of blockMesh's hexahedron (tables regenerated from the source) -/

/-- on the generated tables: `Frame` holds a beam, `edge_map` holds a location and `valid_pairs` holds the pair
    exactly for the corner pairs that differ in one local coordinate -/
theorem T_C20_pair_tables :
    ∀ a ∈ List.range 8, ∀ b ∈ List.range 8,
      frameHas a b = isEdge a b ∧ edgeMapHas a b = isEdge a b ∧ validPair (a : Int) (b : Int) = isEdge a b := by
  decide

/-- `Operation.project_edge`: rejected iff an index is not a corner (0…7) or the corners are not joined by an edge -/
theorem T_C20_op_project_edge (tol : Rat) (c1 c2 : Int) :
    (run tol (.opProjectEdge c1 c2)).isReject = true ↔
      ¬ (0 ≤ c1 ∧ c1 ≤ 7 ∧ 0 ≤ c2 ∧ c2 ≤ 7 ∧ isEdge c1.toNat c2.toNat = true) := by
  simp only [run, checks_isReject, List.any_cons, List.any_nil, Bool.or_false, Bool.or_eq_true,
    Bool.not_eq_true', Bool.and_eq_false_iff, decide_eq_false_iff_not]
  by_cases hr : 0 ≤ c1 ∧ c1 ≤ 7 ∧ 0 ≤ c2 ∧ c2 ≤ 7
  · obtain ⟨h1, h2, h3, h4⟩ := hr
    have ha := toNat_mem_range8 c1 h1 h2
    have hb := toNat_mem_range8 c2 h3 h4
    obtain ⟨t1, t2, _⟩ := T_C20_pair_tables _ ha.1 _ hb.1
    rw [t1, t2]
    constructor
    · rintro (h | h | h) ⟨_, _, _, _, he⟩
      · omega
      · rw [he] at h; exact Bool.noConfusion h
      · rw [he] at h; exact Bool.noConfusion h
    · intro h
      right; left
      cases he : isEdge c1.toNat c2.toNat
      · rfl
      · exact absurd ⟨h1, h2, h3, h4, he⟩ h
  · constructor
    · intro _ h; exact hr ⟨h.1, h.2.1, h.2.2.1, h.2.2.2.1⟩
    · intro _; left; omega

/-- `Block.add_edge` -/
theorem T_C20_block_add_edge (tol : Rat) (c1 c2 : Int) :
    (run tol (.blockAddEdge c1 c2)).isReject = true ↔
      ¬ (0 ≤ c1 ∧ c1 ≤ 7 ∧ 0 ≤ c2 ∧ c2 ≤ 7 ∧ isEdge c1.toNat c2.toNat = true) := by
  simp only [run, checks_isReject, List.any_cons, List.any_nil, Bool.or_false, Bool.or_eq_true,
    Bool.not_eq_true', Bool.and_eq_false_iff, decide_eq_false_iff_not]
  by_cases hr : 0 ≤ c1 ∧ c1 ≤ 7 ∧ 0 ≤ c2 ∧ c2 ≤ 7
  · obtain ⟨h1, h2, h3, h4⟩ := hr
    have ha := toNat_mem_range8 c1 h1 h2
    have hb := toNat_mem_range8 c2 h3 h4
    obtain ⟨t1, _, _⟩ := T_C20_pair_tables _ ha.1 _ hb.1
    rw [t1]
    constructor
    · rintro (h | h) ⟨_, _, _, _, he⟩
      · omega
      · rw [he] at h; exact Bool.noConfusion h
    · intro h
      right
      cases he : isEdge c1.toNat c2.toNat
      · rfl
      · exact absurd ⟨h1, h2, h3, h4, he⟩ h
  · constructor
    · intro _ h; exact hr ⟨h.1, h.2.1, h.2.2.1, h.2.2.2.1⟩
    · intro _; left; omega

/-- `Frame.add_beam` -/
theorem T_C20_frame_add_beam (tol : Rat) (c1 c2 : Int) :
    (run tol (.frameAddBeam c1 c2)).isReject = true ↔
      ¬ (0 ≤ c1 ∧ c1 ≤ 7 ∧ 0 ≤ c2 ∧ c2 ≤ 7 ∧ isEdge c1.toNat c2.toNat = true) := by
  simp only [run, checks_isReject, List.any_cons, List.any_nil, Bool.or_false, Bool.not_eq_true']
  by_cases hr : 0 ≤ c1 ∧ c1 ≤ 7 ∧ 0 ≤ c2 ∧ c2 ≤ 7
  · obtain ⟨h1, h2, h3, h4⟩ := hr
    have ha := toNat_mem_range8 c1 h1 h2
    have hb := toNat_mem_range8 c2 h3 h4
    obtain ⟨_, _, t3⟩ := T_C20_pair_tables _ ha.1 _ hb.1
    rw [ha.2, hb.2] at t3
    rw [t3]
    constructor
    · intro h ⟨_, _, _, _, he⟩
      rw [he] at h; exact Bool.noConfusion h
    · intro h
      cases he : isEdge c1.toNat c2.toNat
      · rfl
      · exact absurd ⟨h1, h2, h3, h4, he⟩ h
  · constructor
    · intro _ h; exact hr ⟨h.1, h.2.1, h.2.2.1, h.2.2.2.1⟩
    · intro _
      cases hv : validPair c1 c2
      · rfl
      · exact absurd (validPair_range c1 c2 hv) hr

/-! ### slices of a stack -/

theorem T_C20_stack_slice (tol : Rat) (axis idx : Int) (n0 n1 n2 : Nat) (h1 : 0 < n1) (h2 : 0 < n2) :
    (run tol (.stackSlice axis idx n0 n1 n2)).isReject = true ↔
      ¬ (0 ≤ axis ∧ axis ≤ 2 ∧ 0 ≤ idx ∧
          idx < (if axis = 0 then (n0 : Int) else if axis = 1 then (n1 : Int) else (n2 : Int))) := by
  by_cases ha : axis = 0
  · subst ha; simp [run, checks_isReject, slicesAlong]; omega
  · by_cases hb : axis = 1
    · subst hb; simp [run, checks_isReject, slicesAlong]; omega
    · simp [run, checks_isReject, slicesAlong, ha, hb]; omega

/-- the repaired `Stack.get_slice` gives an index beyond the last slice the class it gives a negative one -/
theorem T_C20_stack_slice_same_class (tol : Rat) (axis idx : Int) (n0 n1 n2 : Nat)
    (ha : axis = 0 ∨ axis = 1 ∨ axis = 2) (h : idx < 0 ∨ slicesAlong axis n0 n1 n2 ≤ idx) :
    run tol (.stackSlice axis idx n0 n1 n2) = .reject "ValueError" := by
  rcases ha with rfl | rfl | rfl <;> simp [run, checks, h]

example : (0 : Nat) < 3 ∧ (0 : Nat) < 4 := by decide

/-! ### labels of a projected edge -/

/-- `Project.add_label`: the merged label list has no repetitions and holds exactly the labels of both lists
    (so its length is the number of distinct surfaces); the call is rejected iff that number exceeds 2 -/
theorem T_C20_project_add_label (tol : Rat) (h new : List Nat) (hh : 0 < h.length) :
    ((run tol (.projectAddLabel h new)).isReject = true ↔ ¬ ((mergeLabels h new).length ≤ 2)) ∧
    (∀ x, x ∈ mergeLabels h new ↔ x ∈ h ∨ x ∈ new) ∧ (h.Nodup → (mergeLabels h new).Nodup) := by
  refine ⟨?_, mergeLabels_mem h new, mergeLabels_nodup h new⟩
  have := mergeLabels_length h new
  simp only [run, checks_isReject, List.any_cons, List.any_nil, Bool.or_false,
    Bool.not_eq_true', Bool.and_eq_false_iff, decide_eq_false_iff_not]
  omega

example : 0 < ([0, 1] : List Nat).length ∧ ([0, 1] : List Nat).Nodup := by decide

/-! ### round 5: guards of functions and constructors outside the first catalogue -/

/-- `curve.get_point(p)` / `discretize`: rejected iff the parameter leaves `[lo, hi]` on either side -/
theorem T_C20_curve_param (tol p lo hi : Rat) :
    (run tol (.curveParam p lo hi)).isReject = true ↔ ¬ (lo ≤ p ∧ p ≤ hi) := by
  simp only [run, checks_isReject, List.any_cons, List.any_nil, Bool.or_false,
    Bool.not_eq_true', Bool.and_eq_false_iff, decide_eq_false_iff_not]
  constructor
  · rintro (h | h) ⟨h1, h2⟩
    · exact h h1
    · exact h h2
  · intro h
    by_cases h1 : lo ≤ p
    · right; intro h2; exact h ⟨h1, h2⟩
    · left; exact h1

/-- `polyline_length(points)`: rejected iff the points are not an n × 3 array with n ≥ 2 -/
theorem T_C20_polyline_shape (tol : Rat) (dims : List Nat) :
    (run tol (.polylineShape dims)).isReject = true ↔ ¬ (∃ n, dims = [n, 3] ∧ 2 ≤ n) := by
  match dims with
  | [] => simp [run, Out.isReject]
  | [a] => simp [run, Out.isReject]
  | [n, m] =>
      simp only [run, checks_isReject, List.any_cons, List.any_nil, Bool.or_false, Bool.or_eq_true,
        beq_iff_eq, bne_iff_ne, decide_eq_true_eq, List.cons.injEq, and_true]
      constructor
      · rintro h ⟨k, ⟨rfl, rfl⟩, hk⟩; omega
      · intro h
        by_contra hc
        apply h
        exact ⟨n, ⟨rfl, by omega⟩, by omega⟩
  | a :: b :: c :: rest => simp [run, Out.isReject]

/-- `to_cartesian(point, direction, axis)`: rejected iff the direction is not ±1 or the axis not 'x' / 'z' -/
theorem T_C20_polar_args (tol : Rat) (direction : Int) (axis : String) :
    (run tol (.polarArgs direction axis)).isReject = true ↔
      ¬ ((direction = -1 ∨ direction = 1) ∧ (axis = "x" ∨ axis = "z")) := by
  simp only [run, checks_isReject, List.any_cons, List.any_nil, Bool.or_false, Bool.or_eq_true,
    Bool.not_eq_true', Bool.or_eq_false_iff, beq_eq_false_iff_ne]
  tauto

/-- `RotationLink`: rejected iff the leader is closer than `tol` to the rotation axis (squared form, |axis|² cleared) -/
theorem T_C20_rotation_link (tol : Rat) (leader origin axis : V3) :
    (run tol (.rotationLink leader origin axis)).isReject = true ↔
      ¬ (tol * tol * V3.norm2 axis ≤ V3.norm2 (leader - origin) * V3.norm2 axis
            - V3.dot (leader - origin) axis * V3.dot (leader - origin) axis) := by
  simp only [run, checks_isReject, List.any_cons, List.any_nil, Bool.or_false, decide_eq_true_eq, not_le]

/-- the squared form is the coded comparison `norm(radius vector) < TOL`: for every root `s > 0` of `|axis|²` and
    every non-negative root `ρ` of the squared distance `|d|² − (d·axis / s)²` of the leader from the axis -/
theorem T_C20_rotation_link_squared (tol s ρ : Rat) (d axis : V3) (hs : 0 < s) (hss : s * s = V3.norm2 axis)
    (hρ : 0 ≤ ρ) (hρρ : ρ * ρ = V3.norm2 d - (V3.dot d axis / s) * (V3.dot d axis / s)) (htol : 0 ≤ tol) :
    ρ < tol ↔ V3.norm2 d * V3.norm2 axis - V3.dot d axis * V3.dot d axis < tol * tol * V3.norm2 axis := by
  have hne : s ≠ 0 := ne_of_gt hs
  have e : V3.dot d axis / s * s = V3.dot d axis := div_mul_cancel₀ _ hne
  have key : V3.norm2 d * V3.norm2 axis - V3.dot d axis * V3.dot d axis = (ρ * ρ) * (s * s) := by
    rw [hρρ, ← hss]
    have : (V3.norm2 d - V3.dot d axis / s * (V3.dot d axis / s)) * (s * s)
        = V3.norm2 d * (s * s) - (V3.dot d axis / s * s) * (V3.dot d axis / s * s) := by ring
    rw [this, e]
  rw [key, ← hss, lt_iff_sq_lt hρ htol]
  have hpos : 0 < s * s := mul_pos hs hs
  constructor
  · intro h; exact mul_lt_mul_of_pos_right h hpos
  · intro h; exact lt_of_mul_lt_mul_right h hpos.le

example : (0 : Rat) < 3 ∧ (3 : Rat) * 3 = V3.norm2 ⟨1, 2, 2⟩ ∧ (0 : Rat) ≤ 3 ∧
    (3 : Rat) * 3 = V3.norm2 ⟨2, 1, -2⟩ - (V3.dot ⟨2, 1, -2⟩ ⟨1, 2, 2⟩ / 3) * (V3.dot ⟨2, 1, -2⟩ ⟨1, 2, 2⟩ / 3) := by
  norm_num [V3.norm2, V3.dot]

theorem T_C20_elbow_chain (tol : Rat) (isDisk : Bool) :
    (run tol (.elbowChain isDisk)).isReject = true ↔ ¬ (isDisk = true) := by
  cases isDisk <;> simp [run, checks_isReject]

/-! ### the whole catalogue in one statement -/

/-! ### round 6b: the sector angle of an `Angle` edge, the ends of an edge -/

/-- `arc_from_theta` (the `Angle` edge) is rejected iff the sector angle is zero or leaves (−2π, 2π) on *either* side
    (`twoPi` is the float the code compares with) -/
theorem T_C20_arc_theta (tol a twoPi : Rat) :
    (run tol (.arcTheta a twoPi)).isReject = true ↔ ¬ (a ≠ 0 ∧ -twoPi < a ∧ a < twoPi) := by
  simp only [run, checks_isReject, List.any_cons, List.any_nil, Bool.or_false, Bool.not_eq_true', ← arcTheta_cond]
  exact (Bool.not_eq_true _).symm ▸ Iff.rfl

/-- opposite sector angles get the same verdict -/
theorem T_C20_arc_theta_symmetric (tol a twoPi : Rat) :
    run tol (.arcTheta (-a) twoPi) = run tol (.arcTheta a twoPi) := by
  have habs : absR (-a) = absR a := by
    unfold absR
    by_cases h1 : a < 0 <;> by_cases h2 : -a < 0 <;> simp [h1, h2] <;> linarith
  simp only [run, habs]

/-- an edge is rejected iff one of its ends — either one — is not a `Vertex` -/
theorem T_C20_edge_vertices (tol : Rat) (v1 v2 : Bool) :
    (run tol (.edgeVertices v1 v2)).isReject = true ↔ ¬ (v1 = true ∧ v2 = true) := by
  cases v1 <;> cases v2 <;> simp [run, checks, Out.isReject]

/-- **Every guard of the catalogue rejects exactly the calls that violate the documented precondition**, for every
    tolerance and all arguments (`wf`: a stack has at least one shape and one row; a `Project` that receives a label
    already has one). -/
theorem T_C20_enforced (tol : Rat) (c : Call) (hwf : wf c = true) :
    (run tol c).isReject = !(pre tol c) := by
  rw [Bool.eq_iff_iff]
  cases c with
  | faceShape n m => rw [T_C20_face_shape]; exact not_iff_bnot (by simp [pre])
  | faceEdges k => rw [T_C20_face_edges]; exact not_iff_bnot (by simp [pre])
  | faceCoplanar p0 p1 p2 p3 => rw [T_C20_face_coplanar]; exact not_iff_bnot (by simp [pre])
  | faceAddEdge c => rw [T_C20_face_add_edge]; exact not_iff_bnot (by simp [pre, inRange])
  | faceProjectEdge c => rw [T_C20_face_project_edge]; exact not_iff_bnot (by simp [pre, inRange])
  | faceRemoveEdges cs => rw [T_C20_face_remove_edges]; exact not_iff_bnot (by simp [pre, inRange])
  | pointShape dims => rw [T_C20_point_shape]; exact not_iff_bnot (by simp [pre])
  | arrayShape n m => rw [T_C20_array_shape]; exact not_iff_bnot (by simp [pre])
  | sideVertices k => rw [T_C20_side_vertices]; exact not_iff_bnot (by simp [pre])
  | opAddSideEdge c => rw [T_C20_op_add_side_edge]; exact not_iff_bnot (by simp [pre, inRange])
  | opProjectCorner c => rw [T_C20_op_project_corner]; exact not_iff_bnot (by simp [pre, inRange])
  | opProjectEdge c1 c2 =>
      rw [T_C20_op_project_edge]; exact not_iff_bnot (by simp [pre, inRange, cornerPairOk, and_assoc])
  | opChop axis => rw [(T_C20_op_chop tol axis).1]; exact not_iff_bnot (by simp [pre, inRange])
  | opUnchop axis => rw [(T_C20_op_chop tol axis).2]; exact not_iff_bnot (by simp [pre, inRange])
  | opSide side => rw [T_C20_op_side]; exact not_iff_bnot (by simp [pre])
  | fromSeries k => rw [T_C20_from_series]; exact not_iff_bnot (by simp [pre])
  | blockAddEdge c1 c2 =>
      rw [T_C20_block_add_edge]; exact not_iff_bnot (by simp [pre, inRange, cornerPairOk, and_assoc])
  | frameAddBeam c1 c2 =>
      rw [T_C20_frame_add_beam]; exact not_iff_bnot (by simp [pre, inRange, cornerPairOk, and_assoc])
  | projectLabels n => rw [T_C20_project_labels]; exact not_iff_bnot (by simp [pre])
  | projectAddLabel h new =>
      have hh : 0 < h.length := by
        simp only [wf, Bool.and_eq_true, decide_eq_true_eq] at hwf; exact hwf.1
      rw [(T_C20_project_add_label tol h new hh).1]
      have := mergeLabels_length h new
      refine not_iff_bnot ?_
      simp only [pre, Bool.and_eq_true, decide_eq_true_eq]
      omega
  | lengthRatio r => rw [T_C20_length_ratio]; exact not_iff_bnot (by simp [pre])
  | annulus c p n rin nseg =>
      rw [T_C20_annulus]; exact not_iff_bnot (by simp [pre, isZero_false_iff, and_assoc])
  | cylinder a1 a2 rp => rw [T_C20_cylinder_perp]; exact not_iff_bnot (by simp [pre, isZero_false_iff, and_assoc])
  | frustum a1 a2 rp => rw [T_C20_frustum_perp]; exact not_iff_bnot (by simp [pre, isZero_false_iff, and_assoc])
  | chain kind len => rw [T_C20_chain]; exact not_iff_bnot (by simp [pre])
  | ringContract rnew rsrc => rw [T_C20_ring_contract]; exact not_iff_bnot (by simp [pre])
  | cylinderFill nseg => rw [T_C20_cylinder_fill]; exact not_iff_bnot (by simp [pre])
  | loftedShape n1 n2 mids => rw [T_C20_lofted_shape]; exact not_iff_bnot (by simp [pre])
  | stackSlice axis idx n0 n1 n2 =>
      simp only [wf, Bool.and_eq_true, decide_eq_true_eq] at hwf
      rw [T_C20_stack_slice tol axis idx n0 n1 n2 hwf.1 hwf.2]
      exact not_iff_bnot (by simp [pre, inRange, and_assoc])
  | curveParam p lo hi => rw [T_C20_curve_param]; exact not_iff_bnot (by simp [pre])
  | polylineShape dims =>
      rw [T_C20_polyline_shape]
      refine not_iff_bnot ?_
      match dims with
      | [] => simp [pre]
      | [a] => simp [pre]
      | [n, m] => simp [pre]
      | a :: b :: c :: rest => simp [pre]
  | polarArgs direction axis => rw [T_C20_polar_args]; exact not_iff_bnot (by simp [pre])
  | rotationLink leader origin axis => rw [T_C20_rotation_link]; exact not_iff_bnot (by simp [pre])
  | arcTheta a t => rw [T_C20_arc_theta]; exact not_iff_bnot (by simp [pre, and_assoc])
  | edgeVertices v1 v2 => rw [T_C20_edge_vertices]; exact not_iff_bnot (by simp [pre])
  | elbowChain isDisk => rw [T_C20_elbow_chain]; exact not_iff_bnot (by simp [pre])

example : wf (.stackSlice 1 2 2 3 4) = true ∧ wf (.projectAddLabel [0] [1, 2]) = true := by decide

/-! ### the probe table: outcomes of the real implementation, regenerated from the source on every run -/

abbrev Probe := String × List (Int × Nat) × List String × String

def probeCall (p : Probe) : Option Call :=
  callOf p.1 (p.2.1.map (fun q => mkRat q.1 q.2)) p.2.2.1

/-- does the outcome recorded for the implementation agree with the model's guard? (`*`: any exception) -/
def outMatches (o : Out) (s : String) : Bool :=
  match o with
  | .accept => s == "accepted"
  | .reject c => if c == "*" then s != "accepted" else s == c

/-- the probe is a well-formed call of the catalogue, the model's guard reproduces the recorded outcome, and the
    recorded outcome is a rejection exactly when the documented precondition is violated -/
def probeOk (tol : Rat) (p : Probe) : Bool :=
  match probeCall p with
  | some c => wf c && outMatches (run tol c) p.2.2.2 && ((p.2.2.2 != "accepted") == !(pre tol c))
  | none => false

def probeChunks : List (List Probe) :=
  [CBV.Gen.c20Probes0, CBV.Gen.c20Probes1, CBV.Gen.c20Probes2, CBV.Gen.c20Probes3, CBV.Gen.c20Probes4,
   CBV.Gen.c20Probes5, CBV.Gen.c20Probes6, CBV.Gen.c20Probes7, CBV.Gen.c20Probes8, CBV.Gen.c20Probes9]

/-- On every probe of the generated table (both sides of every boundary, executed against the current source by
    the translator): the implementation rejected the call iff the documented precondition is violated, and the
    model's guard gives the same outcome (same exception class). -/
theorem T_C20_probe_table : ∀ ch ∈ probeChunks, ∀ p ∈ ch, probeOk tolGen p = true := by
  decide +kernel

/-- the table is not empty and the tolerance read from the source is positive -/
theorem T_C20_probe_table_nonempty : 400 ≤ (probeChunks.map List.length).sum ∧ 0 < tolGen := by
  decide +kernel

/-! ### clamps on the optimiser's grid: all histories -/

/-- a clamp whose position matches no vertex (within `tol`) is rejected — and only such a clamp gets
    `NoJunctionError` -/
theorem T_C20_clamp_no_vertex (tol : Rat) (pts : List V3) (st : List Nat) (pos : V3) :
    (addClamp tol pts st pos).1 = .reject "NoJunctionError" ↔ ∀ p ∈ pts, near tol p pos = false := by
  rw [← firstNear_none_iff tol pos pts 0]
  unfold addClamp
  cases h : firstNear tol pos pts 0 with
  | none => simp
  | some i => by_cases hc : i ∈ st <;> simp [hc]

/-- a clamp is accepted iff its position matches a vertex that has no clamp yet -/
theorem T_C20_clamp_accept_iff (tol : Rat) (pts : List V3) (st : List Nat) (pos : V3) :
    (addClamp tol pts st pos).1 = .accept ↔ ∃ i, firstNear tol pos pts 0 = some i ∧ i ∉ st := by
  unfold addClamp
  cases h : firstNear tol pos pts 0 with
  | none => simp
  | some i => by_cases hc : i ∈ st <;> simp [hc]

/-- **a second clamp on one vertex is rejected**: after an accepted clamp, every clamp whose position matches the
    same vertex raises `ClampExistsError`, whatever the state before -/
theorem T_C20_second_clamp (tol : Rat) (pts : List V3) (st : List Nat) (pos pos' : V3)
    (hacc : (addClamp tol pts st pos).1 = .accept)
    (hsame : firstNear tol pos' pts 0 = firstNear tol pos pts 0) :
    (addClamp tol pts (addClamp tol pts st pos).2 pos').1 = .reject "ClampExistsError" := by
  obtain ⟨i, hi, hni⟩ := (T_C20_clamp_accept_iff tol pts st pos).mp hacc
  have hst : (addClamp tol pts st pos).2 = i :: st := by
    unfold addClamp
    simp [hi, hni]
  rw [hst]
  unfold addClamp
  rw [hsame, hi]
  simp

example : (addClamp (1 / 10000000) [⟨0, 0, 0⟩, ⟨1, 0, 0⟩] [] ⟨1, 0, 0⟩).1 = .accept ∧
    firstNear (1 / 10000000) ⟨1, 0, 1 / 20000000⟩ [⟨0, 0, 0⟩, ⟨1, 0, 0⟩] 0
      = firstNear (1 / 10000000) ⟨1, 0, 0⟩ [⟨0, 0, 0⟩, ⟨1, 0, 0⟩] 0 := by decide +kernel

/-- over every history of `add_clamp` / `add_link` / `auto_optimize` calls no vertex ever holds two clamps -/
theorem T_C20_clamp_history (tol : Rat) (pts : List V3) (interior : List Nat) (ops : List GridOp) (st : List Nat)
    (h : st.Nodup) : (gridState tol pts interior ops st).Nodup := by
  induction ops generalizing st with
  | nil => simpa [gridState]
  | cons op ops ih =>
      cases op with
      | clamp pos => exact ih _ (addClamp_nodup tol pts st pos h)
      | link l f => exact ih _ h
      | auto => exact ih _ (autoClamps_nodup tol pts interior st h)

/-- **`auto_optimize()` on a sketch one of whose non-boundary vertices already carries a clamp is rejected**
    (`ClampExistsError`, or whatever the offending `add_clamp` raises): whatever else is clamped, in every state -/
theorem T_C20_auto_second_clamp (tol : Rat) (pts : List V3) (interior st : List Nat) (j i : Nat) (p : V3)
    (hj : j ∈ interior) (hp : pts[j]? = some p)
    (hi : firstNear tol p pts 0 = some i) (hst : i ∈ st) :
    (autoClamps tol pts interior st).1.isReject = true := by
  induction interior generalizing st with
  | nil => simp at hj
  | cons k ks ih =>
      unfold autoClamps
      cases hpk : pts[k]? with
      | none => simp [Out.isReject]
      | some q =>
          simp only
          cases ha : (addClamp tol pts st q).1 with
          | reject c => simp [Out.isReject]
          | accept =>
              simp only
              rcases List.mem_cons.mp hj with rfl | hj'
              · -- the clamped vertex itself: `add_clamp` cannot have accepted
                exfalso
                rw [hp] at hpk; cases hpk
                obtain ⟨i', hi', hni'⟩ := (T_C20_clamp_accept_iff tol pts st p).mp ha
                rw [hi] at hi'; cases hi'
                exact hni' hst
              · exact ih _ hj' (addClamp_mono tol pts st q i hst)

/-- after an accepted clamping loop every non-boundary vertex carries a clamp … -/
theorem T_C20_auto_clamps_all (tol : Rat) (pts : List V3) (interior st : List Nat)
    (h : (autoClamps tol pts interior st).1 = .accept) :
    ∀ j ∈ interior, ∃ p i, pts[j]? = some p ∧ firstNear tol p pts 0 = some i ∧
      i ∈ (autoClamps tol pts interior st).2 := by
  induction interior generalizing st with
  | nil => intro j hj; simp at hj
  | cons k ks ih =>
      intro j hj
      unfold autoClamps at h ⊢
      cases hpk : pts[k]? with
      | none => simp only [hpk] at h; exact Out.noConfusion h
      | some q =>
          simp only [hpk] at h ⊢
          cases ha : (addClamp tol pts st q).1 with
          | reject c => simp only [ha] at h; exact Out.noConfusion h
          | accept =>
              simp only [ha] at h ⊢
              rcases List.mem_cons.mp hj with rfl | hj'
              · obtain ⟨i, hi, hni⟩ := (T_C20_clamp_accept_iff tol pts st q).mp ha
                refine ⟨q, i, hpk, hi, autoClamps_mono tol pts ks _ i ?_⟩
                unfold addClamp
                simp [hi, hni]
              · exact ih _ h j hj'

/-- … hence **a repeated `auto_optimize()` is rejected** whenever the sketch has a non-boundary vertex -/
theorem T_C20_auto_twice (tol : Rat) (pts : List V3) (interior st : List Nat) (j : Nat) (hj : j ∈ interior)
    (h : (autoClamps tol pts interior st).1 = .accept) :
    (autoClamps tol pts interior (autoClamps tol pts interior st).2).1.isReject = true := by
  obtain ⟨p, i, hp, hi, hmem⟩ := T_C20_auto_clamps_all tol pts interior st h j hj
  exact T_C20_auto_second_clamp tol pts interior _ j i p hj hp hi hmem

/-- non-vacuity: a 2 × 2 lattice of quads, its centre vertex 4 is the only non-boundary one -/
example :
    let pts : List V3 := [⟨0,0,0⟩, ⟨1,0,0⟩, ⟨2,0,0⟩, ⟨0,1,0⟩, ⟨1,1,0⟩, ⟨2,1,0⟩, ⟨0,2,0⟩, ⟨1,2,0⟩, ⟨2,2,0⟩]
    gridRun (1 / 10000000) pts [4] [.auto, .auto] [] = [.accept, .reject "ClampExistsError"] ∧
    gridRun (1 / 10000000) pts [4] [.clamp ⟨1, 1, 0⟩, .auto] [] = [.accept, .reject "ClampExistsError"] ∧
    gridRun (1 / 10000000) pts [4] [.clamp ⟨0, 1, 0⟩, .auto, .clamp ⟨1, 1, 0⟩] []
      = [.accept, .accept, .reject "ClampExistsError"] := by decide +kernel

example : ([] : List Nat).Nodup := List.nodup_nil

/-! ### links: leader and follower must match two different vertices -/

/-- **a link is accepted iff its leader matches a vertex and its follower matches another vertex** (one that the
    leader does not match); in particular a link whose two ends match the same vertex, or no vertex, is rejected -/
theorem T_C20_link (tol : Rat) (pts : List V3) (leader follower : V3) :
    addLink tol pts leader follower = .accept ↔
      (∃ p ∈ pts, near tol leader p = true) ∧
      (∃ q ∈ pts, near tol leader q = false ∧ near tol follower q = true) := by
  have spec := linkScan_spec tol leader follower pts [] pts none none (by simp)
  simp only [List.length_nil, Option.isSome_none, Bool.false_eq_true, false_or, reduceCtorEq] at spec
  obtain ⟨a, b, c, d⟩ := spec
  unfold addLink
  rw [← a, ← b]
  generalize hr : linkScan tol leader follower pts 0 none none = r at a b c d ⊢
  obtain ⟨r1, r2⟩ := r
  cases r1 with
  | none => simp
  | some l =>
      cases r2 with
      | none => simp
      | some f =>
          have hne : l ≠ f := by
            intro hlf
            obtain ⟨p, hp, hnp⟩ := c l rfl
            obtain ⟨q, hq, hnq⟩ := d f rfl
            rw [hlf, hq] at hp
            cases hp
            rw [hnp] at hnq
            exact Bool.noConfusion hnq
          simp [hne]

/-! ### grading / back-porting before assembly: all histories of `Mesh` calls -/

/-- **`grade()` and `backport()` are rejected (RuntimeError) exactly when the mesh is not assembled**, at any
    point of any history of add / assemble / clear / grade / backport calls; "assembled" is the history predicate
    `assembledSpec` above. -/
theorem T_C20_mesh_guard (before after : List MeshOp) (op : MeshOp) (hop : op = .grade ∨ op = .backport) :
    (meshRun {} (before ++ op :: after))[before.length]? =
      some (if assembledSpec before.reverse then .accept else .reject "RuntimeError") := by
  rw [meshRun_append, List.getElem?_append_right (by rw [meshRun_length]), meshRun_length,
    Nat.sub_self, meshFold_eq_stateRev]
  have h := (stateRev_assembled before.reverse).1
  rcases hop with rfl | rfl
  · simp only [meshRun, meshStep, List.getElem?_cons_zero, h]
  · simp only [meshRun, meshStep, List.getElem?_cons_zero, h]
    cases assembledSpec before.reverse <;> simp

/-- non-vacuity: a concrete history in which `grade` is first rejected, then accepted, then rejected again -/
example : meshRun {} [.grade, .add, .assemble, .grade, .clear, .backport] =
    [.reject "RuntimeError", .accept, .accept, .accept, .accept, .reject "RuntimeError"] := by decide

/-- all other calls of the history are always accepted -/
theorem T_C20_mesh_others (s : MeshSt) (op : MeshOp) (h : op = .add ∨ op = .assemble ∨ op = .clear) :
    (meshStep s op).1 = .accept := by
  rcases h with rfl | rfl | rfl <;> rfl

example : assembledSpec [MeshOp.grade, .assemble, .add].reverse.reverse = true ∧
    assembledSpec [MeshOp.clear, .assemble, .add] = false ∧ assembledSpec [MeshOp.assemble] = false := by decide

/-! ### more than two projection surfaces on an edge: every path, all histories -/

/-- **one edge, any stored labels**: labels `new` (non-empty, no repetition) are accepted on an edge that carries
    `stored` iff the union has at most two members — whether the edge is fresh (`Project(new)`) or already projected
    (`add_label`); the union is `mergeLabels` (exactly the labels of both lists, without repetition, by
    `T_C20_project_add_label`) -/
theorem T_C20_slot_update (stored new : List Nat) (hne : new ≠ []) (hnd : new.Nodup) :
    (slotUpdate stored new).1 = .accept ↔ (mergeLabels stored new).length ≤ 2 := by
  have hpos : 0 < new.length := List.length_pos_iff.mpr hne
  simp only [slotUpdate]
  by_cases he : stored.isEmpty = true
  · have : stored = [] := by simpa using he
    subst this
    rw [mergeLabels_nil new hnd]
    split_ifs with h1 <;> simp <;> omega
  · have hlen := mergeLabels_length stored new
    have : 0 < stored.length := by
      cases stored with
      | nil => simp at he
      | cons a t => simp
    split_ifs with h1 <;> simp <;> omega

example : ([2] : List Nat) ≠ [] ∧ ([2] : List Nat).Nodup ∧ (slotUpdate [0, 1] [2]).1 = .reject "EdgeCreationError" ∧
    (slotUpdate [0, 1] [1]).1 = .accept := by decide

/-- every call of the catalogue of projection paths (`Operation.project_edge`, `Project.add_label` on the stored
    edge, `Operation.project_side`, `Face.project_edge`, `Face.project`) that is accepted on an operation whose
    edges carry at most two labels leaves every edge with at most two labels -/
theorem T_C20_proj_step_bounded (st : PState) (op : ProjOp) (hb : Bounded st)
    (h : (projStep st op).1 = .accept) : Bounded (projStep st op).2 := by
  cases op with
  | pedge c1 c2 new =>
      cases hr : run 0 (.opProjectEdge c1 c2) with
      | reject c => simp only [projStep, hr] at h; exact Out.noConfusion h
      | accept =>
          cases hs : edgeSlot c1.toNat c2.toNat with
          | none => simp only [projStep, hr, hs] at h; exact Out.noConfusion h
          | some s =>
              simp only [projStep, hr, hs] at h ⊢
              exact applySlot_bounded st s new hb h
  | pside side label edges =>
      simp only [projStep] at h ⊢
      by_cases h1 : (side == "bottom") = true
      · simp only [h1, if_true] at h ⊢
        cases edges
        · simpa using hb
        · simp only [if_true] at h ⊢; exact seqSlots_bounded _ _ st hb h
      · simp only [h1, Bool.false_eq_true, if_false] at h ⊢
        by_cases h2 : (side == "top") = true
        · simp only [h2, if_true] at h ⊢
          cases edges
          · simpa using hb
          · simp only [if_true] at h ⊢; exact seqSlots_bounded _ _ st hb h
        · simp only [h2, Bool.false_eq_true, if_false] at h ⊢
          by_cases h3 : List.idxOf side CBV.Gen.sidesMap < CBV.Gen.sidesMap.length
          · simp only [h3, if_true] at h ⊢
            cases edges
            · simpa using hb
            · simp only [if_true] at h ⊢
              cases hs : sideSlots (List.idxOf side CBV.Gen.sidesMap) with
              | none => simp only [hs] at h; exact Out.noConfusion h
              | some slots => simp only [hs] at h ⊢; exact seqSlots_bounded _ _ st hb h
          · simp only [h3, if_false] at h; exact Out.noConfusion h
  | fpedge top corner new =>
      simp only [projStep] at h ⊢
      by_cases h1 : faceCornerBad corner = true
      · simp only [h1, if_true] at h; exact Out.noConfusion h
      · simp only [h1, Bool.false_eq_true, if_false] at h ⊢
        exact applySlot_bounded st _ new hb h
  | fproj top label edges =>
      simp only [projStep] at h ⊢
      cases edges
      · simpa using hb
      · simp only [if_true] at h ⊢; exact seqSlots_bounded _ _ st hb h

/-- **over every history of projection calls on a fresh operation in which no call was rejected, no edge ever
    carries more than two surfaces** -/
theorem T_C20_proj_history (ops : List ProjOp) (st : PState) (hb : Bounded st)
    (hacc : ∀ r ∈ projRun st ops, r.1 = .accept) : ∀ r ∈ projRun st ops, Bounded r.2 := by
  induction ops generalizing st with
  | nil => intro r hr; simp [projRun] at hr
  | cons op ops ih =>
      intro r hr
      simp only [projRun, List.mem_cons] at hr hacc
      have h1 := hacc (projStep st op) (Or.inl rfl)
      have hb' := T_C20_proj_step_bounded st op hb h1
      rcases hr with rfl | hr
      · exact hb'
      · exact ih _ hb' (fun r hr => hacc r (Or.inr hr)) r hr

theorem T_C20_proj_empty_bounded : Bounded emptyP := by
  intro ls hls
  simp only [emptyP, List.mem_replicate] at hls
  rw [hls.2]; simp

/-- non-vacuity: an accepted history; and the history of the tester's breaking change, whose last call the model rejects -/
example : (projRun emptyP [.pside "front" 0 true, .pside "right" 1 true, .pedge 5 1 [0]]).map (·.1)
      = [.accept, .accept, .accept] ∧
    (projRun emptyP [.pedge 0 1 [0], .pedge 1 0 [1], .pedge 0 1 [2]]).map (·.1)
      = [.accept, .accept, .reject "EdgeCreationError"] := by decide

/-! ### round 5: what a rejected call leaves behind (model of the code as it is; compared after every call by the
correspondence: clamp holders per vertex, labels per edge) -/

/-- a rejected `add_clamp` leaves the clamps as they were -/
theorem T_C20_clamp_reject_unchanged (tol : Rat) (pts : List V3) (st : List Nat) (pos : V3)
    (h : (addClamp tol pts st pos).1.isReject = true) : (addClamp tol pts st pos).2 = st := by
  unfold addClamp at h ⊢
  cases hf : firstNear tol pos pts 0 with
  | none => rfl
  | some i =>
      by_cases hc : i ∈ st
      · simp [hc]
      · simp [hf, hc, Out.isReject] at h

/-- a rejected `grade` / `backport` (and any other rejected call) leaves the mesh state as it was -/
theorem T_C20_mesh_reject_unchanged (s : MeshSt) (op : MeshOp) (h : (meshStep s op).1.isReject = true) :
    (meshStep s op).2 = s := by
  cases op <;> simp only [meshStep, Out.isReject] at h ⊢
  · exact absurd h (by simp)
  · exact absurd h (by simp)
  · exact absurd h (by simp)
  · by_cases ha : s.assembled = true <;> simp_all

/-- a rejected projection of a *fresh* edge (`Project(labels)` with 0 or more than 2 labels) leaves the edge a line … -/
theorem T_C20_fresh_edge_reject_unchanged (new : List Nat) (h : (slotUpdate [] new).1.isReject = true) :
    (slotUpdate [] new).2 = [] := by
  simp only [slotUpdate, List.isEmpty_nil, if_true] at h ⊢
  split_ifs at h ⊢ with h1
  · simp [Out.isReject] at h
  · rfl

/-- … but `Project.add_label` appends before it checks: a rejected third label **stays on the edge object**
    (the code's behaviour, reproduced by the model and compared by the correspondence; not a clause of the property) -/
theorem T_C20_add_label_keeps_rejected_label :
    (slotUpdate [0, 1] [2]).1 = .reject "EdgeCreationError" ∧ (slotUpdate [0, 1] [2]).2 = [0, 1, 2] ∧
    ¬ ∀ stored new, (slotUpdate stored new).1.isReject = true → (slotUpdate stored new).2 = stored := by
  refine ⟨by decide, by decide, fun h => ?_⟩
  have := h [0, 1] [2] (by decide)
  revert this
  decide

example : (addClamp (1 / 10000000) [⟨0, 0, 0⟩] [0] ⟨0, 0, 0⟩).1.isReject = true ∧
    (meshStep {} .grade).1.isReject = true ∧ (slotUpdate [] [0, 1, 2]).1.isReject = true := by decide +kernel


/-! ## Round 6: the guards regenerated from the source -/

/-- the rows the translator printed from the current source: the same entry points in the same order as the
    model's table, and every row that is not marked `untranslatable` decodes to the model's guards of that entry
    point.  (A marked row — the translator met a construct it does not read — breaks the theorems about that one entry
    point below, `genGuards e = G_e`, and nothing else.) -/
theorem T_C20_guards_table :
    CBV.Gen.c20Guards.map (·.1) = modelGuardTable.map (·.1) ∧
    CBV.Gen.c20Guards.all (fun p => untranslatable p.1 || decide (decode p.2 = some (modelGuards p.1))) = true := by
  decide +kernel

/-- and they are exactly the encoding of the model's table (no token or constant more or less) -/
theorem T_C20_guards_table_encoded :
    CBV.Gen.c20Guards.all (fun p => untranslatable p.1 || decide (p.2 = encode (modelGuards p.1))) = true := by
  decide +kernel

/-- every entry point of the table has guards (a translator that finds nothing fails; an empty table proves nothing) -/
theorem T_C20_guards_table_nonempty :
    40 ≤ CBV.Gen.c20Guards.length ∧
      CBV.Gen.c20Guards.all (fun p => untranslatable p.1 ||
        !((genGuards p.1).flatMap Stmt.raises ++ (genGuards p.1).flatMap Stmt.implicits).isEmpty) = true := by
  decide +kernel

/-! ### evaluating the regenerated guards on the arguments of a call gives the model's outcome, class included -/

theorem T_C20_guards_translated_faceShape (tol : Rat) (rt : Rat → Rat) (n m : Nat) :
    runStmts (envOf tol rt (.faceShape n m)) (genGuards "faceShape") = run tol (.faceShape n m) := by
  rw [show genGuards "faceShape" = G_faceShape by decide +kernel]
  by_cases h : n = 0 <;> simp [G_faceShape, evalC, envOf, run, checks, h]

theorem T_C20_guards_translated_faceEdges (tol : Rat) (rt : Rat → Rat) (k : Nat) :
    runStmts (envOf tol rt (.faceEdges k)) (genGuards "faceEdges") = run tol (.faceEdges k) := by
  rw [show genGuards "faceEdges" = G_faceEdges by decide +kernel]
  simp [G_faceEdges, evalC, evalE, evalOp, envOf, run, checks]

theorem T_C20_guards_translated_faceCoplanar (tol : Rat) (rt : Rat → Rat) (p0 p1 p2 p3 : V3) :
    runStmts (envOf tol rt (.faceCoplanar p0 p1 p2 p3)) (genGuards "faceCoplanar") = run tol (.faceCoplanar p0 p1 p2 p3) := by
  rw [show genGuards "faceCoplanar" = G_faceCoplanar by decide +kernel]
  simp [G_faceCoplanar, evalC, evalE, evalV, evalOp, envOf, run, checks, triple]

theorem T_C20_guards_translated_faceAddEdge (tol : Rat) (rt : Rat → Rat) (c : Int) :
    runStmts (envOf tol rt (.faceAddEdge c)) (genGuards "faceAddEdge") = run tol (.faceAddEdge c) := by
  rw [show genGuards "faceAddEdge" = G_faceAddEdge by decide +kernel]
  simp [G_faceAddEdge, evalC, evalE, evalOp, envOf, nm, run, checks, faceCornerBad]
  exact implicit_index_unreachable c 3 "FaceCreationError" (by omega)

theorem T_C20_guards_translated_faceProjectEdge (tol : Rat) (rt : Rat → Rat) (c : Int) :
    runStmts (envOf tol rt (.faceProjectEdge c)) (genGuards "faceProjectEdge") = run tol (.faceProjectEdge c) := by
  rw [show genGuards "faceProjectEdge" = G_faceProjectEdge by decide +kernel]
  simp [G_faceProjectEdge, evalC, evalE, evalOp, envOf, nm, run, checks, faceCornerBad]
  exact implicit_index_unreachable c 3 "FaceCreationError" (by omega)

theorem T_C20_guards_translated_faceRemoveEdges (tol : Rat) (rt : Rat → Rat) (cs : List Int) :
    runStmts (envOf tol rt (.faceRemoveEdges cs)) (genGuards "faceRemoveEdges") = run tol (.faceRemoveEdges cs) := by
  rw [show genGuards "faceRemoveEdges" = G_faceRemoveEdges by decide +kernel]
  simp only [G_faceRemoveEdges, runStmts_each, runStmts_nil, eachOut_removeEdges, envOf, run]
  cases removeEdgesRun cs <;> rfl

theorem T_C20_guards_translated_pointShape (tol : Rat) (rt : Rat → Rat) (dims : List Nat) :
    runStmts (envOf tol rt (.pointShape dims)) (genGuards "pointShape") = run tol (.pointShape dims) := by
  rw [show genGuards "pointShape" = G_pointShape by decide +kernel]
  simp [G_pointShape, evalC, envOf, run, checks]

theorem T_C20_guards_translated_arrayShape (tol : Rat) (rt : Rat → Rat) (n m : Nat) :
    runStmts (envOf tol rt (.arrayShape n m)) (genGuards "arrayShape") = run tol (.arrayShape n m) := by
  rw [show genGuards "arrayShape" = G_arrayShape by decide +kernel]
  by_cases h : n = 0 <;> simp [G_arrayShape, evalC, evalE, evalOp, envOf, run, checks, h]

theorem T_C20_guards_translated_sideVertices (tol : Rat) (rt : Rat → Rat) (k : Nat) :
    runStmts (envOf tol rt (.sideVertices k)) (genGuards "sideVertices") = run tol (.sideVertices k) := by
  rw [show genGuards "sideVertices" = G_sideVertices by decide +kernel]
  simp [G_sideVertices, evalC, evalE, evalOp, envOf, run, checks]

theorem T_C20_guards_translated_opAddSideEdge (tol : Rat) (rt : Rat → Rat) (c : Int) :
    runStmts (envOf tol rt (.opAddSideEdge c)) (genGuards "opAddSideEdge") = run tol (.opAddSideEdge c) := by
  rw [show genGuards "opAddSideEdge" = G_opAddSideEdge by decide +kernel]
  simp [G_opAddSideEdge, evalC, evalE, evalOp, envOf, nm, run, checks]
  exact implicit_index_unreachable c 3 "EdgeCreationError" (by omega)

theorem T_C20_guards_translated_opProjectCorner (tol : Rat) (rt : Rat → Rat) (c : Int) :
    runStmts (envOf tol rt (.opProjectCorner c)) (genGuards "opProjectCorner") = run tol (.opProjectCorner c) := by
  rw [show genGuards "opProjectCorner" = G_opProjectCorner by decide +kernel]
  simp [G_opProjectCorner, evalC, evalE, evalOp, envOf, nm, run, checks]

/-- what follows an accepted explicit guard: the rejections that come from look-ups and numpy further down -/
def thenBelow (o : Out) (below : Out) : Out :=
  match o with
  | .reject cls => .reject cls
  | .accept => below

theorem T_C20_guards_translated_opProjectEdge (tol : Rat) (rt : Rat → Rat) (c1 c2 : Int) :
    run tol (.opProjectEdge c1 c2) =
      thenBelow (runStmts (envOf tol rt (.opProjectEdge c1 c2)) (genGuards "opProjectEdge"))
        (checks [(!(frameHas c1.toNat c2.toNat), "KeyError"), (!(edgeMapHas c1.toNat c2.toNat), "AttributeError")]) := by
  rw [show genGuards "opProjectEdge" = G_opProjectEdge by decide +kernel]
  simp [G_opProjectEdge, evalC, evalE, evalOp, envOf, nm2, run, checks, thenBelow]
  split <;> rename_i h
  · have h' : (c1 < 0 ∨ 8 ≤ c1) ∨ c2 < 0 ∨ 8 ≤ c2 := by omega
    simp [h']
  · have h' : ¬((c1 < 0 ∨ 8 ≤ c1) ∨ c2 < 0 ∨ 8 ≤ c2) := by omega
    simp [h']

theorem T_C20_guards_translated_opUnchop (tol : Rat) (rt : Rat → Rat) (a : Int) :
    runStmts (envOf tol rt (.opUnchop a)) (genGuards "opUnchop") = run tol (.opUnchop a) := by
  rw [show genGuards "opUnchop" = G_opUnchop by decide +kernel]
  simp [G_opUnchop, evalC, evalE, evalOp, envOf, nm, run, checks]
  by_cases h0 : a = 0 <;> by_cases h1 : a = 1 <;> by_cases h2 : a = 2 <;> simp_all <;> omega

/-- `Operation.chop` has no explicit guard: the look-up `self.chops[axis]` in the dict with the literal keys 0, 1, 2 is its
    guard (an implicit one, read from the source as such) -/
theorem T_C20_guards_translated_opChop (tol : Rat) (rt : Rat → Rat) (a : Int) :
    runStmts (envOf tol rt (.opChop a)) (genGuards "opChop") = run tol (.opChop a) := by
  rw [show genGuards "opChop" = G_opChop by decide +kernel]
  simp [G_opChop, evalC, evalE, evalOp, envOf, nm, run, checks]
  by_cases h0 : a = 0 <;> by_cases h1 : a = 1 <;> by_cases h2 : a = 2 <;> simp_all <;> omega

theorem T_C20_guards_translated_opSide (tol : Rat) (rt : Rat → Rat) (side : String) :
    runStmts (envOf tol rt (.opSide side)) (genGuards "opSide") = run tol (.opSide side) := by
  rw [show genGuards "opSide" = G_opSide by decide +kernel]
  simp [G_opSide, evalC, envOf, run, checks, CBV.Gen.sidesMap]
  by_cases hb : side = "bottom" <;> by_cases ht : side = "top" <;> simp [hb, ht]

theorem T_C20_guards_translated_fromSeries (tol : Rat) (rt : Rat → Rat) (k : Nat) :
    runStmts (envOf tol rt (.fromSeries k)) (genGuards "fromSeries") = run tol (.fromSeries k) := by
  rw [show genGuards "fromSeries" = G_fromSeries by decide +kernel]
  simp [G_fromSeries, evalC, evalE, evalOp, envOf, run, checks]

theorem T_C20_guards_translated_blockAddEdge (tol : Rat) (rt : Rat → Rat) (c1 c2 : Int) :
    run tol (.blockAddEdge c1 c2) =
      thenBelow (runStmts (envOf tol rt (.blockAddEdge c1 c2)) (genGuards "blockAddEdge"))
        (checks [(!(frameHas c1.toNat c2.toNat), "KeyError")]) := by
  rw [show genGuards "blockAddEdge" = G_blockAddEdge by decide +kernel]
  simp [G_blockAddEdge, evalC, evalE, evalOp, envOf, nm2, run, checks, thenBelow]
  split <;> rename_i h
  · have h' : (c1 < 0 ∨ 8 ≤ c1) ∨ c2 < 0 ∨ 8 ≤ c2 := by omega
    simp [h']
  · have h' : ¬((c1 < 0 ∨ 8 ≤ c1) ∨ c2 < 0 ∨ 8 ≤ c2) := by omega
    simp [h']

theorem T_C20_guards_translated_projectLabels (tol : Rat) (rt : Rat → Rat) (n : Nat) :
    runStmts (envOf tol rt (.projectLabels n)) (genGuards "projectLabels") = run tol (.projectLabels n) := by
  rw [show genGuards "projectLabels" = G_projectLabels by decide +kernel]
  simp [G_projectLabels, evalC, evalE, evalOp, envOf, run, checks]

theorem T_C20_guards_translated_projectAddLabel (tol : Rat) (rt : Rat → Rat) (h new : List Nat) :
    runStmts (envOf tol rt (.projectAddLabel h new)) (genGuards "projectAddLabel") = run tol (.projectAddLabel h new) := by
  rw [show genGuards "projectAddLabel" = G_projectAddLabel by decide +kernel]
  simp [G_projectAddLabel, evalC, evalE, evalOp, envOf, run, checks]

theorem T_C20_guards_translated_lengthRatio (tol : Rat) (rt : Rat → Rat) (r : Rat) :
    runStmts (envOf tol rt (.lengthRatio r)) (genGuards "lengthRatio") = run tol (.lengthRatio r) := by
  rw [show genGuards "lengthRatio" = G_lengthRatio by decide +kernel]
  simp [G_lengthRatio, evalC, evalE, evalOp, envOf, nm, run, checks]

theorem T_C20_guards_translated_cylinder (tol : Rat) (rt : Rat → Rat) (a1 a2 rp : V3) :
    run tol (.cylinder a1 a2 rp) =
      thenBelow (runStmts (envOf tol rt (.cylinder a1 a2 rp)) (genGuards "cylinder"))
        (checks [(isZero (a2 - a1) || isZero (rp - a1), "*")]) := by
  rw [show genGuards "cylinder" = G_cylinder by decide +kernel]
  simp [G_cylinder, evalC, evalE, evalV, evalOp, envOf, run, checks, thenBelow]
  split <;> simp_all

theorem T_C20_guards_translated_frustum (tol : Rat) (rt : Rat → Rat) (a1 a2 rp : V3) :
    run tol (.frustum a1 a2 rp) =
      thenBelow (runStmts (envOf tol rt (.frustum a1 a2 rp)) (genGuards "frustum"))
        (checks [(isZero (a2 - a1) || isZero (rp - a1), "*")]) := by
  rw [show genGuards "frustum" = G_frustum by decide +kernel]
  simp [G_frustum, evalC, evalE, evalV, evalOp, envOf, run, checks, thenBelow]
  split <;> simp_all

theorem T_C20_guards_translated_chain (tol : Rat) (rt : Rat → Rat) (kind : Nat) (len : Rat) :
    run tol (.chain kind len) =
      thenBelow (runStmts (envOf tol rt (.chain kind len))
          (genGuards (if kind = 0 then "chainCylinder" else if kind = 1 then "chainFrustum" else "chainRing")))
        (checks [(decide (len = 0), "*")]) := by
  rcases kind with _ | _ | k
  · rw [if_pos rfl, show genGuards "chainCylinder" = G_chainCylinder by decide +kernel]
    simp [G_chainCylinder, evalC, evalE, evalOp, envOf, nm, run, checks, thenBelow, chainClass]
    split <;> simp_all
  · rw [if_neg (by omega), if_pos rfl, show genGuards "chainFrustum" = G_chainFrustum by decide +kernel]
    simp [G_chainFrustum, evalC, evalE, evalOp, envOf, nm, run, checks, thenBelow, chainClass]
    split <;> simp_all
  · rw [if_neg (by omega), if_neg (by omega), show genGuards "chainRing" = G_chainRing by decide +kernel]
    simp [G_chainRing, evalC, evalE, evalOp, envOf, nm, run, checks, thenBelow, chainClass]
    split <;> simp_all

theorem T_C20_guards_translated_ringContract (tol : Rat) (rt : Rat → Rat) (rnew rsrc : Rat) :
    runStmts (envOf tol rt (.ringContract rnew rsrc)) (genGuards "ringContract") = run tol (.ringContract rnew rsrc) := by
  rw [show genGuards "ringContract" = G_ringContract by decide +kernel]
  simp [G_ringContract, evalC, evalE, evalOp, envOf, nm2, run, checks]

theorem T_C20_guards_translated_cylinderFill (tol : Rat) (rt : Rat → Rat) (nseg : Nat) :
    runStmts (envOf tol rt (.cylinderFill nseg)) (genGuards "cylinderFill") = run tol (.cylinderFill nseg) := by
  rw [show genGuards "cylinderFill" = G_cylinderFill by decide +kernel]
  simp [G_cylinderFill, evalC, evalE, evalOp, envOf, nm, run, checks]

theorem T_C20_guards_translated_loftedShape (tol : Rat) (rt : Rat → Rat) (n1 n2 : Nat) (mids : List Nat) :
    runStmts (envOf tol rt (.loftedShape n1 n2 mids)) (genGuards "loftedShape") = run tol (.loftedShape n1 n2 mids) := by
  rw [show genGuards "loftedShape" = G_loftedShape by decide +kernel]
  cases mids <;> simp [G_loftedShape, evalC, evalE, evalOp, envOf, nm2, run, checks]

theorem T_C20_guards_translated_stackSlice (tol : Rat) (rt : Rat → Rat) (axis idx : Int) (n0 n1 n2 : Nat) :
    runStmts (envOf tol rt (.stackSlice axis idx n0 n1 n2)) (genGuards "stackSlice")
      = run tol (.stackSlice axis idx n0 n1 n2) := by
  rw [show genGuards "stackSlice" = G_stackSlice by decide +kernel]
  simp [G_stackSlice, evalC, evalE, evalOp, envOf, run, checks,
    eq_comm (a := (0 : ℤ)), eq_comm (a := (1 : ℤ)), eq_comm (a := (2 : ℤ))]
  by_cases h0 : axis = 0 <;> by_cases h1 : axis = 1 <;> by_cases h2 : axis = 2 <;> simp_all

theorem T_C20_guards_translated_curveParam (tol : Rat) (rt : Rat → Rat) (p lo hi : Rat) :
    runStmts (envOf tol rt (.curveParam p lo hi)) (genGuards "curveParam") = run tol (.curveParam p lo hi) := by
  rw [show genGuards "curveParam" = G_curveParam by decide +kernel]
  simp [G_curveParam, evalC, evalE, evalOp, envOf, run, checks]

theorem T_C20_guards_translated_polarArgs (tol : Rat) (rt : Rat → Rat) (d : Int) (axis : String) :
    runStmts (envOf tol rt (.polarArgs d axis)) (genGuards "polarCartesian") = run tol (.polarArgs d axis) := by
  rw [show genGuards "polarCartesian" = G_polarCartesian by decide +kernel]
  simp [G_polarCartesian, evalC, evalE, evalOp, envOf, nm, run, checks,
    eq_comm (a := (-1 : ℤ)), eq_comm (a := (1 : ℤ))]

theorem T_C20_guards_translated_polarPolar (tol : Rat) (axis : String) :
    runStmts { tol := tol, str := fun _ => axis } (genGuards "polarPolar")
      = checks [(!(axis == "x" || axis == "z"), "ValueError")] := by
  rw [show genGuards "polarPolar" = G_polarPolar by decide +kernel]
  simp [G_polarPolar, evalC, checks]

theorem T_C20_guards_translated_elbowChain (tol : Rat) (rt : Rat → Rat) (isDisk : Bool) :
    runStmts (envOf tol rt (.elbowChain isDisk)) (genGuards "elbowChain") = run tol (.elbowChain isDisk) := by
  rw [show genGuards "elbowChain" = G_elbowChain by decide +kernel]
  simp [G_elbowChain, evalC, envOf, run, checks]

theorem T_C20_guards_translated_polylineShape (tol : Rat) (rt : Rat → Rat) (dims : List Nat) :
    runStmts (envOf tol rt (.polylineShape dims)) (genGuards "polylineShape") = run tol (.polylineShape dims) := by
  rw [show genGuards "polylineShape" = G_polylineShape by decide +kernel]
  match dims with
  | [] => simp [G_polylineShape, evalC, evalE, evalOp, envOf, run, checks, pyShape]
  | [a] => simp [G_polylineShape, evalC, evalE, evalOp, envOf, run, checks, pyShape_one]
  | [n, m] =>
      by_cases hn : n = 0
      · subst hn; simp [G_polylineShape, evalC, evalE, evalOp, envOf, run, checks, pyShape]
      · simp [G_polylineShape, evalC, evalE, evalOp, envOf, run, checks, pyShape_two n m hn, hn]
  | a :: b :: c :: r =>
      cases a <;> cases b <;> cases c <;> simp [G_polylineShape, evalC, evalE, evalOp, envOf, run, checks, pyShape]
      intro h
      exfalso
      have := Nat.cast_nonneg (α := ℚ) (pyShape r).length
      linarith

/-- `Frame.add_beam`: `if {corner_1, corner_2} not in self.valid_pairs: raise ValueError` with the 12 pairs the translator
    resolved from `Frame.valid_pairs`; they are the generated `EDGE_PAIRS` as unordered pairs, which is all the look-up
    depends on (`pairHas_congr`) -/
theorem T_C20_guards_translated_frameAddBeam (tol : Rat) (rt : Rat → Rat) (c1 c2 : Int) :
    runStmts (envOf tol rt (.frameAddBeam c1 c2)) (genGuards "frameAddBeam") = run tol (.frameAddBeam c1 c2) := by
  rw [show genGuards "frameAddBeam" = G_frameAddBeam by decide +kernel]
  have hP : ∀ p ∈ framePairs, ∃ q ∈ edgePairsInt, samePair p q = true := by decide +kernel
  have hQ : ∀ q ∈ edgePairsInt, ∃ p ∈ framePairs, samePair q p = true := by decide +kernel
  have h := pairHas_congr framePairs edgePairsInt hP hQ c1 c2
  have e1 : evalC (envOf tol rt (.frameAddBeam c1 c2)) (.pairin (.var "corner_1") (.var "corner_2") framePairs)
      = pairHas framePairs c1 c2 :=
    evalC_pairin _ "corner_1" "corner_2" c1 c2 framePairs (by simp [envOf, nm2]) (by simp [envOf, nm2])
  have e2 : evalC (envOf tol rt (.frameAddBeam c1 c2))
      (.not (.pairin (.var "corner_1") (.var "corner_2") framePairs)) = !(validPair c1 c2) := by
    rw [evalC, e1, h, validPair_eq_pairHas]
  simp only [G_frameAddBeam, runStmts_raise, runStmts_nil, run, checks]
  rw [show (C.not (C.pairin (E.var "corner_1") (E.var "corner_2")
        [(0, 1), (2, 3), (6, 7), (4, 5), (0, 3), (1, 2), (5, 6), (4, 7), (0, 4), (1, 5), (2, 6), (3, 7)]))
      = C.not (C.pairin (E.var "corner_1") (E.var "corner_2") framePairs) from rfl, e2]

/-- the state machines: the guards of `Mesh.grade`, `Mesh.backport`, `Junction.add_clamp`, `GridBase.add_link` -/
theorem T_C20_guards_translated_mesh (s : MeshSt) :
    (meshStep s .grade).1 = runStmts { tol := 0, flag := fun _ => s.assembled } (genGuards "meshGrade") ∧
    (meshStep s .backport).1 = runStmts { tol := 0, flag := fun _ => s.assembled } (genGuards "meshBackport") := by
  rw [show genGuards "meshGrade" = G_meshGrade by decide +kernel,
    show genGuards "meshBackport" = G_meshBackport by decide +kernel]
  cases h : s.assembled <;> simp [G_meshGrade, G_meshBackport, evalC, meshStep, h]

theorem T_C20_guards_translated_junction (tol : Rat) (pts : List V3) (clamped : List Nat) (pos : V3) (i : Nat)
    (h : firstNear tol pos pts 0 = some i) :
    (addClamp tol pts clamped pos).1 =
      runStmts { tol := tol, flag := fun _ => clamped.contains i } (genGuards "junctionAddClamp") := by
  rw [show genGuards "junctionAddClamp" = G_junctionAddClamp by decide +kernel]
  simp only [addClamp, h]
  cases hc : clamped.contains i <;> simp [G_junctionAddClamp, evalC, hc]

example : firstNear (1 / 10000000) ⟨0, 0, 0⟩ [⟨0, 0, 0⟩] 0 = some 0 := by decide +kernel

def idxOf? : Option Nat → Rat
  | none => -1
  | some i => (i : Rat)

theorem T_C20_guards_translated_link (tol : Rat) (pts : List V3) (leader follower : V3) :
    addLink tol pts leader follower =
      runStmts { tol := tol, rat := nm2 "leader_index" (idxOf? (linkScan tol leader follower pts 0 none none).1)
                                       "follower_index" (idxOf? (linkScan tol leader follower pts 0 none none).2) }
        (genGuards "gridAddLink") := by
  rw [show genGuards "gridAddLink" = G_gridAddLink by decide +kernel]
  unfold addLink
  rcases hs : linkScan tol leader follower pts 0 none none with ⟨li, fi⟩
  have hneg : ∀ k : Nat, ¬ ((k : Rat) = -1) := by
    intro k hk
    have : (0 : Rat) ≤ (k : Rat) := Nat.cast_nonneg k
    linarith
  cases li with
  | none => simp [G_gridAddLink, evalC, evalE, evalOp, nm2, idxOf?]
  | some l =>
      cases fi with
      | none => simp [G_gridAddLink, evalC, evalE, evalOp, nm2, idxOf?, hneg]
      | some f =>
          simp [G_gridAddLink, evalC, evalE, evalOp, nm2, idxOf?, hneg]

theorem T_C20_guards_translated_annulus (tol : Rat) (rt : Rat → Rat) (c p n : V3) (rin : Rat) (nseg : Int)
    (htol : 0 ≤ tol)
    (hn : 0 < rt (V3.norm2 n)) (hnn : rt (V3.norm2 n) * rt (V3.norm2 n) = V3.norm2 n)
    (hv : 0 ≤ rt (V3.norm2 (p - c))) (hvv : rt (V3.norm2 (p - c)) * rt (V3.norm2 (p - c)) = V3.norm2 (p - c)) :
    ∃ c0 c1 c2,
      (genGuards "annulus").flatMap Stmt.raises =
        [("AnnulusCreationError", c0), ("AnnulusCreationError", c1), ("AnnulusCreationError", c2)] ∧
      run tol (.annulus c p n rin nseg) = checks [
        (evalC (envOf tol rt (.annulus c p n rin nseg)) c0, "AnnulusCreationError"),
        (nseg == 0, "ZeroDivisionError"), (isZero n || isZero (p - c), "*"), (decide (nseg < 0), "IndexError"),
        (nseg == 1, "AnnulusCreationError"),
        (evalC (envOf tol rt (.annulus c p n rin nseg)) c1, "AnnulusCreationError"),
        (evalC (envOf tol rt (.annulus c p n rin nseg)) c2, "AnnulusCreationError")] := by
  rw [show genGuards "annulus" = G_annulus by decide +kernel]
  refine ⟨_, _, _, rfl, ?_⟩
  by_cases hr : rin < 0
  · simp [run, checks, evalC, evalE, evalOp, envOf, hr]
  · have h0 : 0 ≤ rin := not_lt.mp hr
    have h1 := (T_C20_radii_squared tol rin _ (p - c) hv hvv h0 htol).1
    have h2 := (T_C20_lean_squared tol _ n (p - c) hn hnn htol).1
    have e : V3.dot (V3.smul (1 / rt (V3.norm2 n)) n) (p - c) = V3.dot n (p - c) / rt (V3.norm2 n) := by
      rw [dot_smul_left]; ring
    simp only [run, checks, evalC, evalE, evalV, evalOp, envOf, e]
    simp only [show (("self.outer_radius" : String) == "inner_radius") = false by decide,
      show (("self.outer_radius" : String) == "self.inner_radius") = false by decide,
      show (("self.inner_radius" : String) == "inner_radius") = false by decide,
      show (("outer_radius_point" : String) == "normal") = false by decide,
      show (("center_point" : String) == "normal") = false by decide,
      show (("center_point" : String) == "outer_radius_point") = false by decide,
      beq_self_eq_true, if_true, Bool.false_eq_true, if_false, Int.cast_zero]
    rw [decide_eq_decide.mpr h1, e, decide_eq_decide.mpr h2]

example : (0 : Rat) ≤ 1 / 10000000 ∧ (0 : Rat) < 2 ∧ (2 : Rat) * 2 = V3.norm2 ⟨0, 0, 2⟩ ∧
    (0 : Rat) ≤ 5 ∧ (5 : Rat) * 5 = V3.norm2 ((⟨3, 4, 0⟩ : V3) - ⟨0, 0, 0⟩) := by decide +kernel

/-- `RotationLink.__init__`: the one guard is `f.norm(<leader radius vector>) < TOL`; evaluated with root witnesses
    of `|axis|²` and of the squared norm of the radius vector it is the model's squared comparison -/
theorem T_C20_guards_translated_rotationLink (tol : Rat) (rt : Rat → Rat) (leader origin axis : V3)
    (htol : 0 ≤ tol)
    (hs : 0 < rt (V3.norm2 axis)) (hss : rt (V3.norm2 axis) * rt (V3.norm2 axis) = V3.norm2 axis)
    (hρ : 0 ≤ rt (V3.norm2 (radiusVector rt leader origin axis)))
    (hρρ : rt (V3.norm2 (radiusVector rt leader origin axis)) * rt (V3.norm2 (radiusVector rt leader origin axis))
            = V3.norm2 (radiusVector rt leader origin axis)) :
    runStmts (envOf tol rt (.rotationLink leader origin axis)) (genGuards "rotationLink")
      = run tol (.rotationLink leader origin axis) := by
  rw [show genGuards "rotationLink" = G_rotationLink by decide +kernel]
  have key : V3.norm2 (radiusVector rt leader origin axis)
      = V3.norm2 (leader - origin) - (V3.dot (leader - origin) axis / rt (V3.norm2 axis)) *
          (V3.dot (leader - origin) axis / rt (V3.norm2 axis)) := by
    have hne : rt (V3.norm2 axis) ≠ 0 := ne_of_gt hs
    obtain ⟨u, hu⟩ : ∃ u, u * rt (V3.norm2 axis) = 1 := ⟨1 / rt (V3.norm2 axis), one_div_mul_cancel hne⟩
    have h1 : 1 / rt (V3.norm2 axis) = u := by
      rw [div_eq_iff hne]; exact hu.symm
    have hd : ∀ x : Rat, x / rt (V3.norm2 axis) = x * u := by
      intro x; rw [div_eq_mul_one_div, h1]
    simp only [radiusVector, hd, h1]
    generalize rt (V3.norm2 axis) = s at hu hss
    have hss' : s * s = axis.x * axis.x + axis.y * axis.y + axis.z * axis.z := hss
    simp only [V3.norm2, V3.dot, V3.sub_x, V3.sub_y, V3.sub_z, V3.smul_x, V3.smul_y, V3.smul_z]
    linear_combination
      (-(u ^ 4 * ((leader.x - origin.x) * axis.x + (leader.y - origin.y) * axis.y + (leader.z - origin.z) * axis.z) ^ 2)) * hss'
      + (u ^ 2 * ((leader.x - origin.x) * axis.x + (leader.y - origin.y) * axis.y + (leader.z - origin.z) * axis.z) ^ 2
          * (u * s + 1)) * hu
  have h := T_C20_rotation_link_squared tol _ _ (leader - origin) axis hs hss hρ (hρρ.trans key) htol
  simp only [G_rotationLink, runStmts_mut, runStmts_raise, runStmts_nil, evalC, evalE, evalV, evalOp, envOf, run, checks]
  apply if_congr _ rfl rfl
  simp only [decide_eq_true_eq]
  exact decide_eq_true_iff.trans h

/-- non-vacuity of the root witnesses of `T_C20_guards_translated_rotationLink`: axis (0,0,2), leader − origin (3,4,5) -/
example :
    let rt : Rat → Rat := fun x => if x = 4 then 2 else if x = 25 then 5 else 0
    (0 : Rat) < rt (V3.norm2 ⟨0, 0, 2⟩) ∧ rt (V3.norm2 ⟨0, 0, 2⟩) * rt (V3.norm2 ⟨0, 0, 2⟩) = V3.norm2 ⟨0, 0, 2⟩ ∧
    0 ≤ rt (V3.norm2 (radiusVector rt ⟨3, 4, 5⟩ ⟨0, 0, 0⟩ ⟨0, 0, 2⟩)) ∧
    rt (V3.norm2 (radiusVector rt ⟨3, 4, 5⟩ ⟨0, 0, 0⟩ ⟨0, 0, 2⟩)) * rt (V3.norm2 (radiusVector rt ⟨3, 4, 5⟩ ⟨0, 0, 0⟩ ⟨0, 0, 2⟩))
      = V3.norm2 (radiusVector rt ⟨3, 4, 5⟩ ⟨0, 0, 0⟩ ⟨0, 0, 2⟩) := by decide +kernel

/-! ### symmetry, read off the regenerated guards themselves -/

/-- in every regenerated guard, a signed deviation (a dot or triple product) is compared with `TOL` only in the
    form `abs(…) > TOL`: a dropped `abs` in the source breaks this -/
theorem T_C20_guards_abs_symmetric :
    CBV.Gen.c20Guards.all (fun p => absSymmetric (genGuards p.1)) = true := by decide +kernel

/-- … and a guard of that form gives opposite deviations the same verdict, whatever the expression and the values -/
theorem T_C20_guards_abs_mirror (env env' : Env) (e : E) (htol : env'.tol = env.tol)
    (h : evalE env' e = - evalE env e) :
    evalC env' (.cmp .gt (.abs e) .tol) = evalC env (.cmp .gt (.abs e) .tol) := by
  have habs : ∀ x : Rat, absR (-x) = absR x := by
    intro x
    unfold absR
    by_cases h1 : x < 0 <;> by_cases h2 : -x < 0 <;> simp [h1, h2] <;> linarith
  simp only [evalC, evalE, evalOp, h, habs, htol]
  exact decide_eq_decide.mpr Iff.rfl

/-- mirrored inputs through the regenerated guards of `Cylinder` / `Frustum`: a radius point leaning by `+d` and one
    leaning by `−d` towards the axis get the same outcome -/
theorem T_C20_guards_mirrored_lean (tol : Rat) (rt : Rat → Rat) (a1 a2 rp rp' : V3)
    (h : V3.dot (a2 - a1) (rp' - a1) = - V3.dot (a2 - a1) (rp - a1)) :
    runStmts (envOf tol rt (.cylinder a1 a2 rp')) (genGuards "cylinder")
        = runStmts (envOf tol rt (.cylinder a1 a2 rp)) (genGuards "cylinder") ∧
    (runStmts (envOf tol rt (.frustum a1 a2 rp')) (genGuards "frustum")).isReject
        = (runStmts (envOf tol rt (.frustum a1 a2 rp)) (genGuards "frustum")).isReject := by
  have habs : ∀ x : Rat, absR (-x) = absR x := by
    intro x
    unfold absR
    by_cases h1 : x < 0 <;> by_cases h2 : -x < 0 <;> simp [h1, h2] <;> linarith
  rw [show genGuards "cylinder" = G_cylinder by decide +kernel, show genGuards "frustum" = G_frustum by decide +kernel]
  simp [G_cylinder, G_frustum, evalC, evalE, evalV, evalOp, envOf, h, habs]

example : V3.dot ((⟨0, 0, 1⟩ : V3) - ⟨0, 0, 0⟩) ((⟨1, 0, -1 / 2⟩ : V3) - ⟨0, 0, 0⟩)
    = - V3.dot ((⟨0, 0, 1⟩ : V3) - ⟨0, 0, 0⟩) ((⟨1, 0, 1 / 2⟩ : V3) - ⟨0, 0, 0⟩) := by decide +kernel

/-- index and range arguments are bounded from both sides by the regenerated guards (a removed lower or upper bound
    breaks this) -/
theorem T_C20_guards_two_sided :
    [("faceAddEdge", "corner"), ("faceProjectEdge", "corner"), ("faceRemoveEdges", "corner"),
     ("opAddSideEdge", "corner_idx"), ("opProjectCorner", "corner"), ("opProjectEdge", "corner_1"),
     ("opProjectEdge", "corner_2"), ("blockAddEdge", "corner_1"), ("blockAddEdge", "corner_2"),
     ("lengthRatio", "chop.length_ratio"), ("curveParam", "param")].all
      (fun p => untranslatable p.1 || twoSided p.2 (genGuards p.1)) = true := by decide +kernel

/-- entry points that mirror each other carry the same guard: `Face.add_edge` / `Face.project_edge`,
    `Operation.project_edge` / `Block.add_edge`, `Cylinder` / `Frustum`, the three `chain`s, `Mesh.grade` /
    `Mesh.backport`, `to_polar` / `to_cartesian` (axis) — same conditions, in the same order -/
theorem T_C20_guards_mirrored_entry_points :
    (untranslatable "faceAddEdge" || untranslatable "faceProjectEdge" ||
      decide (genGuards "faceAddEdge" = genGuards "faceProjectEdge")) = true ∧
    (untranslatable "opProjectEdge" || untranslatable "blockAddEdge" ||
      decide (genGuards "opProjectEdge" = genGuards "blockAddEdge")) = true ∧
    (untranslatable "cylinder" || untranslatable "frustum" ||
      decide ((genGuards "cylinder").flatMap Stmt.conds = (genGuards "frustum").flatMap Stmt.conds)) = true ∧
    (untranslatable "chainCylinder" || untranslatable "chainFrustum" ||
      decide ((genGuards "chainCylinder").flatMap Stmt.conds = (genGuards "chainFrustum").flatMap Stmt.conds)) = true ∧
    (untranslatable "chainCylinder" || untranslatable "chainRing" ||
      decide ((genGuards "chainCylinder").flatMap Stmt.conds = (genGuards "chainRing").flatMap Stmt.conds)) = true ∧
    (untranslatable "meshGrade" || untranslatable "meshBackport" ||
      decide (genGuards "meshGrade" = genGuards "meshBackport")) = true ∧
    (untranslatable "polarPolar" || untranslatable "polarCartesian" ||
      decide ((genGuards "polarPolar").flatMap Stmt.conds = ((genGuards "polarCartesian").flatMap Stmt.conds).drop 1)) = true := by
  decide +kernel

/-! ### what a rejected call leaves behind -/

/-- the mutators and functions whose regenerated statements up to the last guard change no state -/
def atomicEntries : List String :=
  ["faceAddEdge", "faceProjectEdge", "opAddSideEdge", "opProjectCorner", "opProjectEdge", "opUnchop", "opChop", "opSide",
   "fromSeries", "blockAddEdge", "frameAddBeam", "lengthRatio", "chainCylinder", "chainFrustum", "chainRing",
   "ringContract", "cylinderFill", "stackSlice", "curveParam", "polylineShape", "polarCartesian", "polarPolar",
   "elbowChain", "meshGrade", "meshBackport", "junctionAddClamp", "gridAddLink"]

theorem T_C20_guards_no_mutation_before_guard :
    atomicEntries.all (fun e => mutFree (genGuards e)) = true := by decide +kernel

/-- **whatever the arguments and whatever the outcome, these entry points have changed no state when their last
    guard has been passed or has fired** — in particular a rejected call leaves everything as it was.  Moving an
    assignment in front of a guard in the source breaks `T_C20_guards_no_mutation_before_guard`. -/
theorem T_C20_guards_reject_unchanged (e : String) (he : e ∈ atomicEntries) (env : Env) :
    (traceStmts env (genGuards e) []).2 = [] := by
  apply traceStmts_of_mutFree
  have h := T_C20_guards_no_mutation_before_guard
  rw [List.all_eq_true] at h
  exact h e he

/-- the two proved exceptions (as the code is): `Project.add_label` has merged the labels before it checks their
    number, and `Face.remove_edges` has replaced the edges of the corners before the offending one -/
theorem T_C20_guards_mutation_before_guard_exceptions :
    (traceStmts (envOf 0 (fun _ => 0) (.projectAddLabel [0, 1] [2])) (genGuards "projectAddLabel") [])
        = (.reject "EdgeCreationError", ["self.label", "self.label"]) ∧
    (traceStmts (envOf 0 (fun _ => 0) (.faceRemoveEdges [0, -1])) (genGuards "faceRemoveEdges") [])
        = (.reject "FaceCreationError", ["self.edges"]) ∧
    (traceStmts (envOf 0 (fun _ => 0) (.faceRemoveEdges [-1, 0])) (genGuards "faceRemoveEdges") [])
        = (.reject "FaceCreationError", []) := by decide +kernel

theorem T_C20_guards_translated_arcTheta (tol : Rat) (rt : Rat → Rat) (a twoPi : Rat) :
    runStmts (envOf tol rt (.arcTheta a twoPi)) (genGuards "arcTheta") = run tol (.arcTheta a twoPi) := by
  rw [show genGuards "arcTheta" = G_arcTheta by decide +kernel]
  simp [G_arcTheta, evalC, evalE, evalOp, envOf, nm2, run, checks]

theorem T_C20_guards_translated_edgeVertices (tol : Rat) (rt : Rat → Rat) (v1 v2 : Bool) :
    runStmts (envOf tol rt (.edgeVertices v1 v2)) (genGuards "edgeVertices") = run tol (.edgeVertices v1 v2) := by
  rw [show genGuards "edgeVertices" = G_edgeVertices by decide +kernel]
  cases v1 <;> cases v2 <;> simp [G_edgeVertices, evalC, envOf, run, checks]


/-! ### round 6c: implicit guards (what a bare subscript / look-up rejects), read from the source -/

/-- where the translator found an implicit guard: a subscript with an argument on a list attribute of fixed length
    (`IndexError` outside −n … n−1) or a look-up in a dict attribute with literal keys (`KeyError`) -/
theorem T_C20_guards_implicit_table :
    (CBV.Gen.c20Guards.flatMap (fun p => ((genGuards p.1).flatMap Stmt.implicits).map (fun q => (p.1, q.1))))
      = [("faceAddEdge", "IndexError"), ("faceProjectEdge", "IndexError"), ("faceRemoveEdges", "IndexError"),
         ("opAddSideEdge", "IndexError"), ("opChop", "KeyError")].filter (fun p => !untranslatable p.1) := by
  decide +kernel

/-- **no argument reaches the bare `IndexError`**: for every entry point that subscripts a fixed-length list with an
    argument, the explicit guards in front of the subscript already reject everything the subscript would reject
    (and −4 … −1, which the subscript alone would accept) — removing the implicit guards changes no outcome -/
theorem T_C20_guards_implicit_unreachable (tol : Rat) (rt : Rat → Rat) (c : Int) (cs : List Int) :
    runStmts (envOf tol rt (.faceAddEdge c)) (genGuards "faceAddEdge")
      = runStmts (envOf tol rt (.faceAddEdge c)) (explicitOnly (genGuards "faceAddEdge")) ∧
    runStmts (envOf tol rt (.faceProjectEdge c)) (genGuards "faceProjectEdge")
      = runStmts (envOf tol rt (.faceProjectEdge c)) (explicitOnly (genGuards "faceProjectEdge")) ∧
    runStmts (envOf tol rt (.opAddSideEdge c)) (genGuards "opAddSideEdge")
      = runStmts (envOf tol rt (.opAddSideEdge c)) (explicitOnly (genGuards "opAddSideEdge")) ∧
    runStmts (envOf tol rt (.faceRemoveEdges cs)) (genGuards "faceRemoveEdges")
      = runStmts (envOf tol rt (.faceRemoveEdges cs)) (explicitOnly (genGuards "faceRemoveEdges")) := by
  refine ⟨?_, ?_, ?_, ?_⟩
  · rw [T_C20_guards_translated_faceAddEdge,
      show explicitOnly (genGuards "faceAddEdge") = [.s (.raise "FaceCreationError"
        (.or (.cmp .lt (.var "corner") (.int 0)) (.cmp .gt (.var "corner") (.int 3))))] by decide +kernel]
    simp [evalC, evalE, evalOp, envOf, nm, run, checks, faceCornerBad]
  · rw [T_C20_guards_translated_faceProjectEdge,
      show explicitOnly (genGuards "faceProjectEdge") = [.s (.raise "FaceCreationError"
        (.or (.cmp .lt (.var "corner") (.int 0)) (.cmp .gt (.var "corner") (.int 3))))] by decide +kernel]
    simp [evalC, evalE, evalOp, envOf, nm, run, checks, faceCornerBad]
  · rw [T_C20_guards_translated_opAddSideEdge,
      show explicitOnly (genGuards "opAddSideEdge") = [.s (.raise "EdgeCreationError"
        (.or (.cmp .lt (.var "corner_idx") (.int 0)) (.cmp .gt (.var "corner_idx") (.int 3))))] by decide +kernel]
    simp [evalC, evalE, evalOp, envOf, nm, run, checks]
  · rw [T_C20_guards_translated_faceRemoveEdges,
      show explicitOnly (genGuards "faceRemoveEdges") = [.each "corner" "corners"
        [.raise "FaceCreationError" (.or (.cmp .lt (.var "corner") (.int 0)) (.cmp .gt (.var "corner") (.int 3))),
         .mutate "self.edges"]] by decide +kernel]
    simp only [runStmts_each, runStmts_nil, eachOut_removeEdges_explicit, envOf, run]
    cases removeEdgesRun cs <;> rfl

/-- the one implicit guard that *is* reached: `Operation.chop(axis)` relies on the look-up alone.  It gives every axis
    the verdict and the exception class (`KeyError`, one of the classes the property lists) that the mirrored
    `Operation.unchop` gives through its explicit `raise KeyError(axis)` -/
theorem T_C20_guards_implicit_chop_mirrors_unchop (tol : Rat) (rt : Rat → Rat) (a : Int) :
    explicitOnly (genGuards "opChop") = [] ∧
    runStmts (envOf tol rt (.opChop a)) (genGuards "opChop")
      = runStmts (envOf tol rt (.opUnchop a)) (genGuards "opUnchop") := by
  refine ⟨by decide +kernel, ?_⟩
  rw [T_C20_guards_translated_opChop, T_C20_guards_translated_opUnchop]
  rfl

/-- why the explicit lower bounds are there: the subscript alone (the implicit guard of `Face.add_edge`, taken from the
    regenerated table) accepts corner −1 and −4 — python's negative indexing — and rejects −5 and 4 -/
example :
    let imp := (genGuards "faceAddEdge").drop 1
    imp.flatMap Stmt.implicits ≠ [] ∧
    runStmts (envOf 0 (fun _ => 0) (.faceAddEdge (-1))) imp = .accept ∧
    runStmts (envOf 0 (fun _ => 0) (.faceAddEdge (-4))) imp = .accept ∧
    runStmts (envOf 0 (fun _ => 0) (.faceAddEdge (-5))) imp = .reject "IndexError" ∧
    runStmts (envOf 0 (fun _ => 0) (.faceAddEdge 4)) imp = .reject "IndexError" := by decide +kernel

end CBV.C20
