/-
C08 — property theorems.  All of them hold over every linearly ordered field `K` (so over ℝ, where the
square-root witnesses always exist, and over ℚ, where the driver executes the same definitions).
A witness `w` of `sqrt x` is a number with `0 ≤ w` and `w * w = x`.

  T_C08_origin          arc_from_origin (flatness 1, equidistant origin): the written point is the arc's middle
  T_C08_origin_adjust   the adjusted centre of arc_from_origin is at the requested radius from both ends, in the plane
  T_C08_unique          the specification `OnArcMid` has at most one solution
  T_C08_theta_centre    the centre of arc_from_theta is equidistant and sees the chord under the angle θ about the axis
  T_C08_theta_mid       the written point of arc_from_theta is p1 rotated about the axis through the centre by θ/2,
                        for every θ in (0, 2π) of either sign (closed form: pm + tan(θ/4)/2 · (dp × axis))
  T_C08_theta_onarc     … hence it satisfies `OnArcMid`
  T_C08_valid_theta / T_C08_valid_origin   the quantity tested by ArcEdgeBase.is_valid is chord × rise for the written point
  T_C08_arc_chord       over ℝ with (c, s) = (cos θ/2, sin θ/2): chord ≤ radius × |θ| (arc length ≥ chord for Angle arcs)
  T_C08_arc3_centre     the centre computed by arc_length_3point is equidistant from the 3 points, in their plane
  T_C08_arc3_side_mid   the interior/exterior test is right whenever the third point is the arc's middle
  T_C08_arc3_side_partial one direction of the (false) equivalence `0 ≤ test ↔ interior`: an "exterior" decision is always right
  T_C08_arc3_side_counterexample   … an "interior" decision is not (known finding, same as blockMesh)
  T_C08_chord           polyline length ≥ distance of the end points (every point list, every witness list)
The `acos` step (arc length = radius × angle) is validator-checked only.
-/
import CBV.Lemmas.C08
import Mathlib.Tactic.NormNum
import Mathlib.Algebra.Order.Field.Rat
import Mathlib.Analysis.SpecialFunctions.Trigonometric.Bounds

namespace CBV.C08
open Vec

variable {K : Type} [Field K] [LinearOrder K] [IsStrictOrderedRing K]
set_option linter.unusedSectionVars false

/-! ### origin specification -/

/-- `arc_from_origin` with an equidistant origin and flatness 1 returns `arc_mid(center, p1, p2)`;
    that point is on the circle, equidistant from both ends, in the plane of `p1, p2, C`, on the chord's side
    (the minor arc, which is what the origin specification means). -/
theorem T_C08_origin (p1 p2 C : Vec K) (wR ws : K)
    (heq : nsq (sub p1 C) = nsq (sub p2 C))
    (hR0 : 0 < wR) (hR : wR * wR = nsq (sub C p1))
    (hs0 : 0 < ws) (hs : ws * ws = nsq (sub (midPoint p1 p2) C)) :
    OnArcMid p1 p2 C (cross (sub p1 C) (sub p2 C)) (sub (midPoint p1 p2) C) (arcMid C p1 p2 wR ws) := by
  obtain ⟨t, ht⟩ : ∃ t, wR / ws = t := ⟨_, rfl⟩
  have hRt : wR = t * ws := by rw [← ht]; field_simp
  have hne : ws ≠ 0 := ne_of_gt hs0
  have hx : ∀ v : K, wR * (v / ws) = t * v := by intro v; rw [← ht]; field_simp
  refine ⟨?_, ?_, ?_, ?_⟩
  · simp only [arcMid, nsq, dot, sub, add, smul, midPoint, unitVec, hx] at hs hR ⊢
    linear_combination (-(t^2)) * hs + hR - (t*ws + wR) * hRt
  · simp only [arcMid, nsq, dot, sub, add, smul, midPoint, unitVec, hx] at heq ⊢
    linear_combination (1 - t) * heq
  · simp only [arcMid, dot, sub, add, smul, midPoint, unitVec, cross, hx]
    ring
  · have key : dot (sub (arcMid C p1 p2 wR ws) C) (sub (midPoint p1 p2) C) = wR * ws := by
      simp only [arcMid, nsq, dot, sub, add, smul, midPoint, unitVec, hx] at hs ⊢
      rw [hRt]
      linear_combination (-t) * hs
    rw [key]; exact mul_pos hR0 hs0

/-- non-vacuity: radius 25, half angle with cos 4/5 -/
example : (nsq (sub (⟨25, 0, 0⟩ : Vec Rat) ⟨0, 0, 0⟩) = nsq (sub (⟨7, 24, 0⟩ : Vec Rat) ⟨0, 0, 0⟩)) ∧
    (25 : Rat) * 25 = nsq (sub (⟨0, 0, 0⟩ : Vec Rat) ⟨25, 0, 0⟩) ∧
    (20 : Rat) * 20 = nsq (sub (midPoint (⟨25, 0, 0⟩ : Vec Rat) ⟨7, 24, 0⟩) ⟨0, 0, 0⟩) ∧
    arcMid (⟨0, 0, 0⟩ : Vec Rat) ⟨25, 0, 0⟩ ⟨7, 24, 0⟩ 25 20 = ⟨20, 15, 0⟩ := by
  norm_num [nsq, dot, sub, midPoint, arcMid, add, smul, unitVec]

/-- the adjusted centre (`needs_adjust` branch) lies at distance `radius` from both end points and in the plane of
    `p1, p3` and the given origin -/
theorem T_C08_origin_adjust (p1 p3 C : Vec K) (radius wh wac : K)
    (hh : wh * wh = radius * radius - nsq (sub p3 p1) / 4)
    (hac0 : 0 < wac) (hac : wac * wac = nsq (cross (cross (sub p1 C) (sub p3 C)) (sub p3 p1))) :
    let N := originNewCentre p1 p3 C wh wac
    nsq (sub p1 N) = radius * radius ∧ nsq (sub p3 N) = radius * radius ∧
      dot (sub N (midPoint p1 p3)) (cross (sub p1 C) (sub p3 C)) = 0 := by
  intro N
  obtain ⟨t, ht⟩ : ∃ t, wh / wac = t := ⟨_, rfl⟩
  have hne : wac ≠ 0 := ne_of_gt hac0
  have hx : ∀ v : K, wh * (v / wac) = t * v := by intro v; rw [← ht]; field_simp
  have hwh : wh = t * wac := by rw [← ht]; field_simp
  have hN : N = add (midPoint p1 p3) (smul t (cross (cross (sub p1 C) (sub p3 C)) (sub p3 p1))) := by
    apply Vec.ext' <;> simp only [N, originNewCentre, add, smul, unitVec, hx]
  have hh' : t * t * (wac * wac) = radius * radius - nsq (sub p3 p1) / 4 := by rw [← hh, hwh]; ring
  rw [hac] at hh'
  obtain ⟨g, hg⟩ : ∃ g, g = cross (sub p1 C) (sub p3 C) := ⟨_, rfl⟩
  rw [← hg] at hh' hN ⊢
  rw [hN]
  refine ⟨?_, ?_, ?_⟩
  · simp only [nsq, dot, sub, add, smul, midPoint, cross] at hh' ⊢
    linear_combination hh'
  · simp only [nsq, dot, sub, add, smul, midPoint, cross] at hh' ⊢
    linear_combination hh'
  · simp only [dot, sub, add, smul, midPoint, cross]; ring

example : ((6 : Rat) * 6 = (13 / 2) * (13 / 2) - nsq (sub (⟨0, 4, 0⟩ : Vec Rat) ⟨3, 0, 0⟩) / 4) ∧
    (60 : Rat) * 60 = nsq (cross (cross (sub (⟨3, 0, 0⟩ : Vec Rat) ⟨0, 0, 0⟩) (sub ⟨0, 4, 0⟩ ⟨0, 0, 0⟩)) (sub ⟨0, 4, 0⟩ ⟨3, 0, 0⟩)) := by
  norm_num [nsq, dot, sub, cross]

/-! ### uniqueness of the specification -/

/-- there is at most one middle point: the four clauses of `OnArcMid` determine `M` -/
theorem T_C08_unique (p1 p2 C n g M M' : Vec K)
    (heq : nsq (sub p1 C) = nsq (sub p2 C))
    (hk : nsq (cross (sub p2 p1) n) ≠ 0)
    (h : OnArcMid p1 p2 C n g M) (h' : OnArcMid p1 p2 C n g M') : M = M' := by
  obtain ⟨hc, he, hn, hg⟩ := h
  obtain ⟨hc', he', hn', hg'⟩ := h'
  have hd : dot (sub M C) (sub p2 p1) = 0 := by
    simp only [nsq, dot, sub] at heq he ⊢
    linear_combination (1/2 : K) * he - (1/2 : K) * heq
  have hd' : dot (sub M' C) (sub p2 p1) = 0 := by
    simp only [nsq, dot, sub] at heq he' ⊢
    linear_combination (1/2 : K) * he' - (1/2 : K) * heq
  have hp := perp_parallel _ _ _ hn hd
  have hp' := perp_parallel _ _ _ hn' hd'
  have hs := perp_dot_sq _ _ _ hn hd
  have hs' := perp_dot_sq _ _ _ hn' hd'
  set k := cross (sub p2 p1) n with hkdef
  set α := dot (sub M C) k
  set β := dot (sub M' C) k
  have hsq : (α - β) * (α + β) = 0 := by
    have : α * α = β * β := by rw [hs, hs', hc, hc']
    linear_combination this
  rcases mul_eq_zero.mp hsq with h1 | h1
  · have hαβ : α = β := by linear_combination h1
    rw [hαβ, ← hp'] at hp
    have kx := congrArg Vec.x hp
    have ky := congrArg Vec.y hp
    have kz := congrArg Vec.z hp
    simp only [smul, sub] at kx ky kz
    have cx := mul_left_cancel₀ hk kx
    have cy := mul_left_cancel₀ hk ky
    have cz := mul_left_cancel₀ hk kz
    apply Vec.ext' <;> linarith
  · exfalso
    have hαβ : α = -β := by linear_combination h1
    -- then M − C = −(M' − C), which contradicts the side condition
    have hneg : smul (nsq k) (sub M C) = smul (nsq k) (smul (-1) (sub M' C)) := by
      rw [hp, hαβ]
      apply Vec.ext' <;> simp only [smul] <;>
        [have := congrArg Vec.x hp'; have := congrArg Vec.y hp'; have := congrArg Vec.z hp'] <;>
        simp only [smul] at this <;> linear_combination this
    have kx := congrArg Vec.x hneg
    have ky := congrArg Vec.y hneg
    have kz := congrArg Vec.z hneg
    simp only [smul, sub] at kx ky kz
    have cx := mul_left_cancel₀ hk kx
    have cy := mul_left_cancel₀ hk ky
    have cz := mul_left_cancel₀ hk kz
    have : dot (sub M C) g = - dot (sub M' C) g := by
      simp only [dot, sub]; rw [cx, cy, cz]; ring
    linarith

example : OnArcMid (⟨25, 0, 0⟩ : Vec Rat) ⟨7, 24, 0⟩ ⟨0, 0, 0⟩ ⟨0, 0, 1⟩ ⟨16, 12, 0⟩ ⟨20, 15, 0⟩ ∧
    nsq (cross (sub (⟨7, 24, 0⟩ : Vec Rat) ⟨25, 0, 0⟩) ⟨0, 0, 1⟩) ≠ 0 := by
  norm_num [OnArcMid, nsq, dot, sub, cross]

/-! ### sector angle and axis -/

/-- The centre of `arc_from_theta` (unit axis `a`, chord orthogonal to it, `(c, s) = (cos θ/2, sin θ/2)`):
    equidistant from both ends, in the plane of the end points orthogonal to the axis, and `p2 − C` is `p1 − C`
    rotated about the axis by θ (cos θ = c² − s², sin θ = 2sc): the chord is seen under the signed angle θ. -/
theorem T_C08_theta_centre (p1 p2 a : Vec K) (c s wrm wc : K) (ha : nsq a = 1)
    (hl : dot (sub p2 p1) a = 0) (hcs : c * c + s * s = 1) (hs : s ≠ 0)
    (hrm0 : 0 < wrm) (hrm : wrm * wrm = nsq (cross (sub p2 p1) a))
    (hc0 : 0 ≤ wc) (hc : wc * wc = nsq (thetaChord p1 p2 a)) :
    let C := thetaCentre p1 p2 a c s wrm wc
    nsq (sub p1 C) = nsq (sub p2 C) ∧ dot (sub C p1) a = 0 ∧
      sub p2 C = rotPerp a (sub p1 C) (c * c - s * s) (2 * s * c) := by
  intro C
  have hC : C = _ := theta_centre_closed p1 p2 a c s wrm wc ha hl hs hrm0 hrm hc0 hc
  obtain ⟨q, hq0⟩ : ∃ q, q = c / (2 * s) := ⟨_, rfl⟩
  have hq : 2 * s * q = c := by rw [hq0]; field_simp
  rw [← hq0] at hC
  have hrot := rot_centre p1 p2 a c s q ha hl hcs hq
  simp only at hrot
  rw [hC]
  refine ⟨?_, ?_, hrot⟩
  · simp only [nsq, dot, sub, smul, midPoint, cross]; ring
  · simp only [dot, sub] at hl
    simp only [dot, sub, smul, midPoint, cross]
    linear_combination (1 / 2 : K) * hl

/-- The point written by (the repaired) `arc_from_theta`, for every sector angle in (0, 2π) of either sign
    (`hθ`: the sign of θ is the sign of `sin θ/2`; `c < 0` is the case |θ| > π): `M − C` is `p1 − C` rotated about
    the axis by θ/2 — the middle of the arc of angle θ —, `|M − C|` is the radius, and in closed form
    `M = pm + (1 − c)/(2s) · (dp × a)`, i.e. the sagitta is `|chord|/2 · tan(θ/4)`. -/
theorem T_C08_theta_mid (p1 p2 a : Vec K) (θ c s wrm wc wR : K) (ha : nsq a = 1)
    (hl : dot (sub p2 p1) a = 0) (hcs : c * c + s * s = 1)
    (hθ : (0 < θ ∧ 0 < s) ∨ (θ < 0 ∧ s < 0))
    (hrm0 : 0 < wrm) (hrm : wrm * wrm = nsq (cross (sub p2 p1) a))
    (hc0 : 0 ≤ wc) (hc : wc * wc = nsq (thetaChord p1 p2 a))
    (hR0 : 0 ≤ wR) (hR : wR * wR = nsq (sub p1 (thetaCentre p1 p2 a c s wrm wc))) :
    let C := thetaCentre p1 p2 a c s wrm wc
    let M := thetaMid p1 p2 a θ c s wrm wc wR
    sub M C = rotPerp a (sub p1 C) c s ∧ nsq (sub M C) = wR * wR ∧
      M = add (midPoint p1 p2) (smul ((1 - c) / (2 * s)) (cross (sub p2 p1) a)) := by
  intro C M
  have hs : s ≠ 0 := by rcases hθ with h | h <;> [exact ne_of_gt h.2; exact ne_of_lt h.2]
  have hM : M = _ := theta_mid_closed p1 p2 a θ c s wrm wc wR ha hl hcs hθ hrm0 hrm hc0 hc hR0 hR
  have h4 := theta_radius p1 p2 a c s wrm wc wR ha hl hcs hs hrm0 hrm hc0 hc hR
  have hC : C = _ := theta_centre_closed p1 p2 a c s wrm wc ha hl hs hrm0 hrm hc0 hc
  obtain ⟨q, hq0⟩ : ∃ q, q = c / (2 * s) := ⟨_, rfl⟩
  have hq : 2 * s * q = c := by rw [hq0]; field_simp
  obtain ⟨r, hr0⟩ : ∃ r, r = 1 / (2 * s) := ⟨_, rfl⟩
  have hr : 2 * s * r = 1 := by rw [hr0]; field_simp
  rw [← hq0] at hC
  rw [← hr0] at hM
  have hrot := rot_mid p1 p2 a c s q r ha hl hcs hq hr
  simp only at hrot
  have hMC : sub M C = smul r (cross (sub p2 p1) a) := by
    rw [hM]; apply Vec.ext' <;> simp only [sub, add, smul] <;> ring
  refine ⟨?_, ?_, ?_⟩
  · rw [hMC, hC]; exact hrot
  · rw [hMC]
    have : nsq (smul r (cross (sub p2 p1) a)) = r * r * nsq (cross (sub p2 p1) a) := by
      simp only [nsq, dot, smul]; ring
    rw [this, ← hrm]
    linear_combination (-(r * r)) * h4 + (wR * wR * (2 * s * r + 1)) * hr
  · rw [hM]
    have hrq : (1 - c) / (2 * s) = r - q := by rw [hr0, hq0]; field_simp
    rw [hrq]
    change add C _ = _
    rw [hC]
    apply Vec.ext' <;> simp only [sub, add, smul] <;> ring

/-- … hence the written point satisfies the specification `OnArcMid` (plane normal = the axis, side = `s · (dp × a)`),
    which by `T_C08_unique` has no other solution. -/
theorem T_C08_theta_onarc (p1 p2 a : Vec K) (θ c s wrm wc wR : K) (ha : nsq a = 1)
    (hl : dot (sub p2 p1) a = 0) (hcs : c * c + s * s = 1)
    (hθ : (0 < θ ∧ 0 < s) ∨ (θ < 0 ∧ s < 0))
    (hrm0 : 0 < wrm) (hrm : wrm * wrm = nsq (cross (sub p2 p1) a))
    (hc0 : 0 ≤ wc) (hc : wc * wc = nsq (thetaChord p1 p2 a))
    (hR0 : 0 ≤ wR) (hR : wR * wR = nsq (sub p1 (thetaCentre p1 p2 a c s wrm wc))) :
    OnArcMid p1 p2 (thetaCentre p1 p2 a c s wrm wc) a (smul s (cross (sub p2 p1) a))
      (thetaMid p1 p2 a θ c s wrm wc wR) := by
  have hs : s ≠ 0 := by rcases hθ with h | h <;> [exact ne_of_gt h.2; exact ne_of_lt h.2]
  obtain ⟨h1, h2, h3⟩ := T_C08_theta_mid p1 p2 a θ c s wrm wc wR ha hl hcs hθ hrm0 hrm hc0 hc hR0 hR
  have hM : thetaMid p1 p2 a θ c s wrm wc wR = _ :=
    theta_mid_closed p1 p2 a θ c s wrm wc wR ha hl hcs hθ hrm0 hrm hc0 hc hR0 hR
  have hMC : sub (thetaMid p1 p2 a θ c s wrm wc wR) (thetaCentre p1 p2 a c s wrm wc)
      = smul (1 / (2 * s)) (cross (sub p2 p1) a) := by
    rw [hM]; apply Vec.ext' <;> simp only [sub, add, smul] <;> ring
  refine ⟨by rw [h2, hR], ?_, ?_, ?_⟩
  · rw [h3]; simp only [nsq, dot, sub, add, smul, midPoint, cross]; ring
  · rw [hMC]; simp only [dot, smul, cross]; ring
  · rw [hMC]
    have : dot (smul (1 / (2 * s)) (cross (sub p2 p1) a)) (smul s (cross (sub p2 p1) a))
        = nsq (cross (sub p2 p1) a) / 2 := by
      simp only [nsq, dot, smul]; field_simp
    rw [this, ← hrm]
    have := mul_pos hrm0 hrm0
    linarith

/-- non-vacuity: a sector angle above π (θ/2 has cos −3/5, sin 4/5, θ ≈ 253.7°), chord 8, radius 5:
    the written point is the middle of the *major* arc -/
example :
    let p1 : Vec Rat := ⟨0, 0, 0⟩; let p2 : Vec Rat := ⟨8, 0, 0⟩; let a : Vec Rat := ⟨0, 0, 1⟩
    nsq a = 1 ∧ dot (sub p2 p1) a = 0 ∧ ((-3 / 5 : Rat) * (-3 / 5) + (4 / 5) * (4 / 5) = 1) ∧
    ((8 : Rat) * 8 = nsq (cross (sub p2 p1) a)) ∧ ((8 : Rat) * 8 = nsq (thetaChord p1 p2 a)) ∧
    thetaCentre p1 p2 a (-3 / 5) (4 / 5) 8 8 = ⟨4, -3, 0⟩ ∧
    ((5 : Rat) * 5 = nsq (sub p1 (thetaCentre p1 p2 a (-3 / 5) (4 / 5) 8 8))) ∧
    thetaMid p1 p2 a 4 (-3 / 5) (4 / 5) 8 8 5 = ⟨4, -8, 0⟩ := by
  norm_num [nsq, dot, sub, cross, thetaChord, thetaCentre, thetaMid, midPoint, unitVec, smul, add, sgn]

/-! ### validity (collinearity test) of the written arcs -/

/-- `cross(arm_1, arm_2)` of `ArcEdgeBase.is_valid` is `chord × (third point − chord middle)` -/
theorem validCross_eq (p1 p2 M : Vec K) :
    validCross p1 p2 M = cross (sub p2 p1) (sub M (midPoint p1 p2)) := by
  apply Vec.ext' <;> simp only [validCross, cross, sub, midPoint] <;> ring

/-- For the point written by `arc_from_theta` the quantity tested by `ArcEdgeBase.is_valid` is, exactly,
    `|cross(arm_1, arm_2)|² = ((1 − c)/(2s))² · |chord|⁴`, i.e. `|cross| = chord² · |tan(θ/4)| / 2 = chord × rise`:
    the arc is kept iff `chord × rise > TOL` — whatever the radius (flat arcs) and however close the ends (nearly full turns). -/
theorem T_C08_valid_theta (p1 p2 a : Vec K) (θ c s wrm wc wR : K) (ha : nsq a = 1)
    (hl : dot (sub p2 p1) a = 0) (hcs : c * c + s * s = 1)
    (hθ : (0 < θ ∧ 0 < s) ∨ (θ < 0 ∧ s < 0))
    (hrm0 : 0 < wrm) (hrm : wrm * wrm = nsq (cross (sub p2 p1) a))
    (hc0 : 0 ≤ wc) (hc : wc * wc = nsq (thetaChord p1 p2 a))
    (hR0 : 0 ≤ wR) (hR : wR * wR = nsq (sub p1 (thetaCentre p1 p2 a c s wrm wc))) :
    nsq (validCross p1 p2 (thetaMid p1 p2 a θ c s wrm wc wR))
      = ((1 - c) / (2 * s)) * ((1 - c) / (2 * s)) * (nsq (sub p2 p1) * nsq (sub p2 p1)) := by
  obtain ⟨_, _, h3⟩ := T_C08_theta_mid p1 p2 a θ c s wrm wc wR ha hl hcs hθ hrm0 hrm hc0 hc hR0 hR
  rw [validCross_eq, h3]
  obtain ⟨r, hr⟩ : ∃ r, r = (1 - c) / (2 * s) := ⟨_, rfl⟩
  rw [← hr]
  have key : nsq (cross (sub p2 p1) (sub (add (midPoint p1 p2) (smul r (cross (sub p2 p1) a))) (midPoint p1 p2)))
      = r * r * (nsq (sub p2 p1) * nsq (sub p2 p1) * nsq a
          - nsq (sub p2 p1) * (dot (sub p2 p1) a * dot (sub p2 p1) a)) := by
    simp only [nsq, dot, cross, sub, add, smul, midPoint]; ring
  rw [key, ha, hl]; ring

/-- For the point written by `arc_from_origin` (equidistant origin): `|cross(arm_1, arm_2)|² = (R − |pm − C|)² · |chord|²`,
    i.e. `|cross| = chord × rise` again. -/
theorem T_C08_valid_origin (p1 p2 C : Vec K) (wR ws : K)
    (heq : nsq (sub p1 C) = nsq (sub p2 C))
    (hs0 : 0 < ws) (hs : ws * ws = nsq (sub (midPoint p1 p2) C)) :
    nsq (validCross p1 p2 (arcMid C p1 p2 wR ws)) = (wR - ws) * (wR - ws) * nsq (sub p2 p1) := by
  obtain ⟨t, ht⟩ : ∃ t, wR / ws = t := ⟨_, rfl⟩
  have hne : ws ≠ 0 := ne_of_gt hs0
  have hx : ∀ v : K, wR * (v / ws) = t * v := by intro v; rw [← ht]; field_simp
  have hwR : wR = t * ws := by rw [← ht]; field_simp
  rw [validCross_eq]
  have hperp : dot (sub p2 p1) (sub (midPoint p1 p2) C) = 0 := by
    simp only [nsq, dot, sub, midPoint] at heq ⊢
    linear_combination (-1 / 2 : K) * heq
  have key : nsq (cross (sub p2 p1) (sub (arcMid C p1 p2 wR ws) (midPoint p1 p2)))
      = (t - 1) * (t - 1) * (nsq (sub p2 p1) * nsq (sub (midPoint p1 p2) C)
          - dot (sub p2 p1) (sub (midPoint p1 p2) C) * dot (sub p2 p1) (sub (midPoint p1 p2) C)) := by
    simp only [arcMid, nsq, dot, cross, sub, add, smul, midPoint, unitVec, hx]; ring
  rw [key, hperp, ← hs, hwR]; ring

example : nsq (validCross (⟨25, 0, 0⟩ : Vec Rat) ⟨7, 24, 0⟩ (arcMid ⟨0, 0, 0⟩ ⟨25, 0, 0⟩ ⟨7, 24, 0⟩ 25 20))
    = (25 - 20) * (25 - 20) * nsq (sub (⟨7, 24, 0⟩ : Vec Rat) ⟨25, 0, 0⟩) := by
  norm_num [validCross, nsq, dot, sub, cross, midPoint, arcMid, add, smul, unitVec]

/-! ### arc length ≥ chord (over ℝ) -/

/-- radius × |sector angle| ≥ chord: the arc of `arc_from_theta` is at least as long as the distance of its end points
    (over ℝ, `(c, s) = (cos θ/2, sin θ/2)`; `|sin x| ≤ |x|`). -/
theorem T_C08_arc_chord (p1 p2 a : Vec ℝ) (θ wrm wc wR : ℝ) (ha : nsq a = 1)
    (hl : dot (sub p2 p1) a = 0) (hs : Real.sin (θ / 2) ≠ 0)
    (hrm0 : 0 < wrm) (hrm : wrm * wrm = nsq (cross (sub p2 p1) a))
    (hc0 : 0 ≤ wc) (hc : wc * wc = nsq (thetaChord p1 p2 a))
    (hR0 : 0 ≤ wR)
    (hR : wR * wR = nsq (sub p1 (thetaCentre p1 p2 a (Real.cos (θ / 2)) (Real.sin (θ / 2)) wrm wc))) :
    wc ≤ wR * |θ| := by
  have hcs : Real.cos (θ / 2) * Real.cos (θ / 2) + Real.sin (θ / 2) * Real.sin (θ / 2) = 1 := by
    have := Real.cos_sq_add_sin_sq (θ / 2); nlinarith
  obtain ⟨hw, _⟩ := theta_wits p1 p2 a wrm wc ha hl hrm0 hrm hc0 hc
  have h4 := theta_radius p1 p2 a _ _ wrm wc wR ha hl hcs hs hrm0 hrm hc0 hc hR
  have hsin := Real.abs_sin_le_abs (x := θ / 2)
  have hwc : wc = 2 * |Real.sin (θ / 2)| * wR := by
    apply sq_wit_unique hc0 (by positivity)
    rw [hw, ← h4]
    have := abs_mul_abs_self (Real.sin (θ / 2))
    nlinarith [this]
  rw [hwc]
  have h2 : |θ / 2| = |θ| / 2 := by rw [abs_div]; simp
  rw [h2] at hsin
  nlinarith [mul_nonneg hR0 (abs_nonneg (Real.sin (θ / 2)))]
example :
    let p1 : Vec ℝ := ⟨0, 0, 0⟩; let p2 : Vec ℝ := ⟨2, 0, 0⟩; let a : Vec ℝ := ⟨0, 0, 1⟩
    nsq a = 1 ∧ dot (sub p2 p1) a = 0 ∧ Real.sin (Real.pi / 2) ≠ 0 ∧
    ((2 : ℝ) * 2 = nsq (cross (sub p2 p1) a)) ∧ ((2 : ℝ) * 2 = nsq (thetaChord p1 p2 a)) ∧
    ((1 : ℝ) * 1 = nsq (sub p1 (thetaCentre p1 p2 a (Real.cos (Real.pi / 2)) (Real.sin (Real.pi / 2)) 2 2))) := by
  simp only [Real.cos_pi_div_two, Real.sin_pi_div_two]
  norm_num [nsq, dot, sub, cross, thetaChord, thetaCentre, midPoint, unitVec, smul]

/-! ### three-point arc -/

/-- the centre computed by `arc_length_3point` is equidistant from the three points and lies in their plane -/
theorem T_C08_arc3_centre (pS pB pE : Vec K) (hden : arc3Denom pS pB pE ≠ 0) :
    let C := arc3Centre pS pB pE
    nsq (sub C pS) = nsq (sub C pB) ∧ nsq (sub C pS) = nsq (sub C pE) ∧
      dot (sub C pS) (cross (sub pB pS) (sub pE pS)) = 0 := by
  intro C
  obtain ⟨f, hf⟩ : ∃ f, f = (nsq (sub pE pS) - dot (sub pB pS) (sub pE pS)) / (2 * arc3Denom pS pB pE) := ⟨_, rfl⟩
  have hfD : f * arc3Denom pS pB pE = (nsq (sub pE pS) - dot (sub pB pS) (sub pE pS)) / 2 := by
    rw [hf]; field_simp
  have hC : C = add (add pS (unitVec (sub pB pS) 2)) (smul f (cross (cross (sub pB pS) (sub pE pS)) (sub pB pS))) := by
    simp only [C, arc3Centre, hf]
  have h1 : dot (sub C pS) (sub pB pS) = nsq (sub pB pS) / 2 := by
    rw [hC]; simp only [nsq, dot, sub, add, smul, cross, unitVec]; ring
  have h2 : dot (sub C pS) (sub pE pS) = dot (sub pB pS) (sub pE pS) / 2 + f * arc3Denom pS pB pE := by
    rw [hC]; simp only [arc3Denom, nsq, dot, sub, add, smul, cross, unitVec]; ring
  refine ⟨?_, ?_, ?_⟩
  · rw [nsq_sub_shift C pS pB, h1]; ring
  · rw [nsq_sub_shift C pS pE, h2, hfD]; ring
  · rw [hC]; simp only [dot, sub, add, smul, cross, unitVec]; ring

example : arc3Denom (⟨1, 0, 0⟩ : Vec Rat) ⟨0, 1, 0⟩ ⟨-1, 0, 0⟩ ≠ 0 ∧
    arc3Centre (⟨1, 0, 0⟩ : Vec Rat) ⟨0, 1, 0⟩ ⟨-1, 0, 0⟩ = ⟨0, 0, 0⟩ := by
  norm_num [arc3Denom, arc3Centre, nsq, dot, sub, add, smul, cross, unitVec]

/-- when the code decides "exterior" (`dot(cross(r1,r2), cross(r1,r3)) < 0`) the third point is indeed not inside
    the minor sector -/
theorem T_C08_arc3_side_partial (r1 r2 r3 : Vec K) (h : arc3SideTest r1 r2 r3 < 0) : ¬ GeomInterior r1 r2 r3 := by
  intro hg; exact absurd hg.1 (not_lt.mpr (le_of_lt h))

/-- for a third point on the bisector of `r1, r3` (what `OriginEdge`/`AngleEdge` pass: the middle of the arc)
    the code's decision is exactly right: interior on the same side, exterior on the opposite side -/
theorem T_C08_arc3_side_mid (r1 r3 : Vec K) (lam : K) (hn : nsq (cross r1 r3) ≠ 0) :
    let r2 := smul lam (add r1 r3)
    (0 < lam → 0 ≤ arc3SideTest r1 r2 r3 ∧ GeomInterior r1 r2 r3) ∧
    (lam < 0 → arc3SideTest r1 r2 r3 < 0 ∧ ¬ GeomInterior r1 r2 r3) := by
  intro r2
  have hpos : 0 < nsq (cross r1 r3) := by
    have : 0 ≤ nsq (cross r1 r3) := by
      simp only [nsq, dot]
      have := mul_self_nonneg (cross r1 r3).x
      have := mul_self_nonneg (cross r1 r3).y
      have := mul_self_nonneg (cross r1 r3).z
      linarith
    exact lt_of_le_of_ne this (Ne.symm hn)
  have e1 : arc3SideTest r1 r2 r3 = lam * nsq (cross r1 r3) := by
    simp only [r2, arc3SideTest, nsq, dot, cross, smul, add]; ring
  have e2 : dot (cross r2 r3) (cross r1 r3) = lam * nsq (cross r1 r3) := by
    simp only [r2, nsq, dot, cross, smul, add]; ring
  constructor
  · intro hl
    have : 0 < lam * nsq (cross r1 r3) := mul_pos hl hpos
    refine ⟨by rw [e1]; exact le_of_lt this, ?_, ?_⟩
    · have := e1; unfold arc3SideTest at this; rw [this]; assumption
    · rw [e2]; assumption
  · intro hl
    have : lam * nsq (cross r1 r3) < 0 := mul_neg_of_neg_of_pos hl hpos
    refine ⟨by rw [e1]; exact this, ?_⟩
    exact T_C08_arc3_side_partial _ _ _ (by rw [e1]; exact this)

example : nsq (cross (⟨1, 0, 0⟩ : Vec Rat) ⟨0, 1, 0⟩) ≠ 0 := by norm_num [nsq, dot, cross]

/-- Full statement that does NOT hold for the code (and not for blockMesh's arcEdge, which decides the same way):
      `0 ≤ arc3SideTest r1 r2 r3 → GeomInterior r1 r2 r3`   for three radii of one circle.
    Counterexample (known finding `arc_length_3point:third-point-between-end-and-antipode`): on the unit circle,
    start at 0°, end at 90°, third point at 126.9°: the arc through the third point is the 270° arc, the test says interior. -/
theorem T_C08_arc3_side_counterexample :
    ∃ r1 r2 r3 : Vec Rat, nsq r1 = 1 ∧ nsq r2 = 1 ∧ nsq r3 = 1 ∧ dot r2 (cross r1 r3) = 0 ∧
      0 ≤ arc3SideTest r1 r2 r3 ∧ ¬ GeomInterior r1 r2 r3 := by
  refine ⟨⟨1, 0, 0⟩, ⟨-3 / 5, 4 / 5, 0⟩, ⟨0, 1, 0⟩, ?_⟩
  norm_num [nsq, dot, cross, arc3SideTest, GeomInterior]

/-! ### every polyline is at least as long as its chord -/

/-- `polyline_length` (sum of the segment lengths, each a witnessed square root) is non-negative and its square is at
    least the squared distance of the first and the last point — for every point list and every witness list
    (`SplineEdge`, `PolyLineEdge`, `OnCurveEdge`/`DiscreteCurve` lengths are polyline lengths from vertex 1 to vertex 2).
    For two points the polyline length *is* the chord (line and project edges). -/
theorem T_C08_chord (pts : List (Vec K)) (ds : List K) (first last : Vec K) (h : SegWit pts ds)
    (hf : pts.head? = some first) (hl : pts.getLast? = some last) :
    0 ≤ polyLen ds ∧ nsq (sub first last) ≤ polyLen ds * polyLen ds :=
  chord_aux pts ds last h hl first hf

example : SegWit ([⟨0, 0, 0⟩, ⟨3, 4, 0⟩, ⟨3, 4, 12⟩] : List (Vec Rat)) [5, 12] ∧
    nsq (sub (⟨0, 0, 0⟩ : Vec Rat) ⟨3, 4, 12⟩) = 13 * 13 ∧ polyLen ([5, 12] : List Rat) = 17 := by
  norm_num [SegWit, nsq, dot, sub, polyLen]

end CBV.C08
