/-
C08 — property theorems.  All of them hold over every linearly ordered field `K` (so over ℝ, where the
square-root witnesses always exist, and over ℚ, where the driver executes the same definitions).
A witness `w` of `sqrt x` is a number with `0 ≤ w` and `w * w = x`.

  T_C08_origin          arc_from_origin (flatness 1, equidistant origin): the written point is the arc's middle
  T_C08_origin_adjust   the adjusted centre of arc_from_origin is at the requested radius from both ends, in the plane
  T_C08_unique          the specification `OnArcMid` has at most one solution
  T_C08_theta_centre    the centre of arc_from_theta is equidistant and sees the chord under the angle θ about the axis
  T_C08_theta_mid       the written point of arc_from_theta is p1 rotated about the axis through the centre by θ/2,
                        for every θ in (0, 2π) of either sign (closed form: pm + tan(θ/4)/2 · (dp × axis))
  T_C08_theta_onarc     … hence it satisfies `OnArcMid`
  T_C08_valid_theta / T_C08_valid_origin   the quantity tested by ArcEdgeBase.is_valid is chord × rise for the written point
  T_C08_arc_chord       over ℝ with (c, s) = (cos θ/2, sin θ/2): chord ≤ radius × |θ| (arc length ≥ chord for Angle arcs)
  T_C08_arc3_centre     the centre computed by arc_length_3point is equidistant from the 3 points, in their plane
  T_C08_arc3_side_mid   the interior/exterior test is right whenever the third point is the arc's middle
  T_C08_arc3_side_partial one direction of the (false) equivalence `0 ≤ test ↔ interior`: an "exterior" decision is always right
  T_C08_arc3_side_counterexample   … an "interior" decision is not (known finding, same as blockMesh)
  T_C08_chord           polyline length ≥ distance of the end points (every point list, every witness list)
Round 6 (over ℝ, Mathlib's arccos):
  T_C08_arc3_centre_unique / _circle   the computed centre is the unique circumcentre; for circle points it is the circle's centre
  T_C08_arc3_length_real   arc_length_3point as modelled (Real.sqrt / clip / Real.arccos, the code's side test) = radius × angle for
                           circle points at 0 < ψ < θ < 2π, provided θ ≤ π or ψ < π
  T_C08_arc3_length_real_beyond / _iff   … and r·(2π − θ) ≠ r·θ otherwise: the hypothesis is exactly the complement of the known finding
  T_C08_specs_real         ArcEdge through the point at θ/2, Angle(θ, axis) for every witness choice, Origin (flatness 1) give the same
                           third point, the circle's centre and radius, and the length r·θ
  T_C08_tie_theta_guard / _arc3 / _origin / _valid   the model agrees with guards, constants, defaults regenerated from the source text
Round 6c:
  T_C08_arc3_length_coords   the ℝ length theorem on coordinates: R·arccos(r1·r3/R²) or R·(2π − that) by the code's side test
  T_C08_arc3_chord_real      arc length ≥ chord for every accepted three-point arc
  T_C08_arc3_param           frame and angles 0 < ψ < θ < 2π derived from the coordinates of any accepted triple
  T_C08_arc3_length_all      length = r·θ ↔ (θ ≤ π ∨ ψ < π) for every accepted input, r·(2π − θ) otherwise
  T_C08_arc3_translation_real   the length does not depend on where the arc is
-/
import CBV.Lemmas.C08
import CBV.Lemmas.C08Real
import CBV.Lemmas.C08Tie
import Mathlib.Tactic.NormNum
import Mathlib.Algebra.Order.Field.Rat
import Mathlib.Analysis.SpecialFunctions.Trigonometric.Bounds
import CBV.Gen.TC08

namespace CBV.C08
open Vec

variable {K : Type} [Field K] [LinearOrder K] [IsStrictOrderedRing K]
set_option linter.unusedSectionVars false

/-! ### origin specification -/

/-- `arc_from_origin` with an equidistant origin and flatness 1 returns `arc_mid(center, p1, p2)`;
    that point is on the circle, equidistant from both ends, in the plane of `p1, p2, C`, on the chord's side
    (the minor arc, which is what the origin specification means). -/
theorem T_C08_origin (p1 p2 C : Vec K) (wR ws : K)
    (heq : nsq (sub p1 C) = nsq (sub p2 C))
    (hR0 : 0 < wR) (hR : wR * wR = nsq (sub C p1))
    (hs0 : 0 < ws) (hs : ws * ws = nsq (sub (midPoint p1 p2) C)) :
    OnArcMid p1 p2 C (cross (sub p1 C) (sub p2 C)) (sub (midPoint p1 p2) C) (arcMid C p1 p2 wR ws) := by
  obtain ⟨t, ht⟩ : ∃ t, wR / ws = t := ⟨_, rfl⟩
  have hRt : wR = t * ws := by rw [← ht]; field_simp
  have hne : ws ≠ 0 := ne_of_gt hs0
  have hx : ∀ v : K, wR * (v / ws) = t * v := by intro v; rw [← ht]; field_simp
  refine ⟨?_, ?_, ?_, ?_⟩
  · simp only [arcMid, nsq, dot, sub, add, smul, midPoint, unitVec, hx] at hs hR ⊢
    linear_combination (-(t^2)) * hs + hR - (t*ws + wR) * hRt
  · simp only [arcMid, nsq, dot, sub, add, smul, midPoint, unitVec, hx] at heq ⊢
    linear_combination (1 - t) * heq
  · simp only [arcMid, dot, sub, add, smul, midPoint, unitVec, cross, hx]
    ring
  · have key : dot (sub (arcMid C p1 p2 wR ws) C) (sub (midPoint p1 p2) C) = wR * ws := by
      simp only [arcMid, nsq, dot, sub, add, smul, midPoint, unitVec, hx] at hs ⊢
      rw [hRt]
      linear_combination (-t) * hs
    rw [key]; exact mul_pos hR0 hs0

/-- non-vacuity: radius 25, half angle with cos 4/5 -/
example : (nsq (sub (⟨25, 0, 0⟩ : Vec Rat) ⟨0, 0, 0⟩) = nsq (sub (⟨7, 24, 0⟩ : Vec Rat) ⟨0, 0, 0⟩)) ∧
    (25 : Rat) * 25 = nsq (sub (⟨0, 0, 0⟩ : Vec Rat) ⟨25, 0, 0⟩) ∧
    (20 : Rat) * 20 = nsq (sub (midPoint (⟨25, 0, 0⟩ : Vec Rat) ⟨7, 24, 0⟩) ⟨0, 0, 0⟩) ∧
    arcMid (⟨0, 0, 0⟩ : Vec Rat) ⟨25, 0, 0⟩ ⟨7, 24, 0⟩ 25 20 = ⟨20, 15, 0⟩ := by
  norm_num [nsq, dot, sub, midPoint, arcMid, add, smul, unitVec]

/-- the adjusted centre (`needs_adjust` branch) lies at distance `radius` from both end points and in the plane of
    `p1, p3` and the given origin -/
theorem T_C08_origin_adjust (p1 p3 C : Vec K) (radius wh wac : K)
    (hh : wh * wh = radius * radius - nsq (sub p3 p1) / 4)
    (hac0 : 0 < wac) (hac : wac * wac = nsq (cross (cross (sub p1 C) (sub p3 C)) (sub p3 p1))) :
    let N := originNewCentre p1 p3 C wh wac
    nsq (sub p1 N) = radius * radius ∧ nsq (sub p3 N) = radius * radius ∧
      dot (sub N (midPoint p1 p3)) (cross (sub p1 C) (sub p3 C)) = 0 := by
  intro N
  obtain ⟨t, ht⟩ : ∃ t, wh / wac = t := ⟨_, rfl⟩
  have hne : wac ≠ 0 := ne_of_gt hac0
  have hx : ∀ v : K, wh * (v / wac) = t * v := by intro v; rw [← ht]; field_simp
  have hwh : wh = t * wac := by rw [← ht]; field_simp
  have hN : N = add (midPoint p1 p3) (smul t (cross (cross (sub p1 C) (sub p3 C)) (sub p3 p1))) := by
    apply Vec.ext' <;> simp only [N, originNewCentre, add, smul, unitVec, hx]
  have hh' : t * t * (wac * wac) = radius * radius - nsq (sub p3 p1) / 4 := by rw [← hh, hwh]; ring
  rw [hac] at hh'
  obtain ⟨g, hg⟩ : ∃ g, g = cross (sub p1 C) (sub p3 C) := ⟨_, rfl⟩
  rw [← hg] at hh' hN ⊢
  rw [hN]
  refine ⟨?_, ?_, ?_⟩
  · simp only [nsq, dot, sub, add, smul, midPoint, cross] at hh' ⊢
    linear_combination hh'
  · simp only [nsq, dot, sub, add, smul, midPoint, cross] at hh' ⊢
    linear_combination hh'
  · simp only [dot, sub, add, smul, midPoint, cross]; ring

example : ((6 : Rat) * 6 = (13 / 2) * (13 / 2) - nsq (sub (⟨0, 4, 0⟩ : Vec Rat) ⟨3, 0, 0⟩) / 4) ∧
    (60 : Rat) * 60 = nsq (cross (cross (sub (⟨3, 0, 0⟩ : Vec Rat) ⟨0, 0, 0⟩) (sub ⟨0, 4, 0⟩ ⟨0, 0, 0⟩)) (sub ⟨0, 4, 0⟩ ⟨3, 0, 0⟩)) := by
  norm_num [nsq, dot, sub, cross]

/-! ### uniqueness of the specification -/

/-- there is at most one middle point: the four clauses of `OnArcMid` determine `M` -/
theorem T_C08_unique (p1 p2 C n g M M' : Vec K)
    (heq : nsq (sub p1 C) = nsq (sub p2 C))
    (hk : nsq (cross (sub p2 p1) n) ≠ 0)
    (h : OnArcMid p1 p2 C n g M) (h' : OnArcMid p1 p2 C n g M') : M = M' := by
  obtain ⟨hc, he, hn, hg⟩ := h
  obtain ⟨hc', he', hn', hg'⟩ := h'
  have hd : dot (sub M C) (sub p2 p1) = 0 := by
    simp only [nsq, dot, sub] at heq he ⊢
    linear_combination (1/2 : K) * he - (1/2 : K) * heq
  have hd' : dot (sub M' C) (sub p2 p1) = 0 := by
    simp only [nsq, dot, sub] at heq he' ⊢
    linear_combination (1/2 : K) * he' - (1/2 : K) * heq
  have hp := perp_parallel _ _ _ hn hd
  have hp' := perp_parallel _ _ _ hn' hd'
  have hs := perp_dot_sq _ _ _ hn hd
  have hs' := perp_dot_sq _ _ _ hn' hd'
  set k := cross (sub p2 p1) n with hkdef
  set α := dot (sub M C) k
  set β := dot (sub M' C) k
  have hsq : (α - β) * (α + β) = 0 := by
    have : α * α = β * β := by rw [hs, hs', hc, hc']
    linear_combination this
  rcases mul_eq_zero.mp hsq with h1 | h1
  · have hαβ : α = β := by linear_combination h1
    rw [hαβ, ← hp'] at hp
    have kx := congrArg Vec.x hp
    have ky := congrArg Vec.y hp
    have kz := congrArg Vec.z hp
    simp only [smul, sub] at kx ky kz
    have cx := mul_left_cancel₀ hk kx
    have cy := mul_left_cancel₀ hk ky
    have cz := mul_left_cancel₀ hk kz
    apply Vec.ext' <;> linarith
  · exfalso
    have hαβ : α = -β := by linear_combination h1
    -- then M − C = −(M' − C), which contradicts the side condition
    have hneg : smul (nsq k) (sub M C) = smul (nsq k) (smul (-1) (sub M' C)) := by
      rw [hp, hαβ]
      apply Vec.ext' <;> simp only [smul] <;>
        [have := congrArg Vec.x hp'; have := congrArg Vec.y hp'; have := congrArg Vec.z hp'] <;>
        simp only [smul] at this <;> linear_combination this
    have kx := congrArg Vec.x hneg
    have ky := congrArg Vec.y hneg
    have kz := congrArg Vec.z hneg
    simp only [smul, sub] at kx ky kz
    have cx := mul_left_cancel₀ hk kx
    have cy := mul_left_cancel₀ hk ky
    have cz := mul_left_cancel₀ hk kz
    have : dot (sub M C) g = - dot (sub M' C) g := by
      simp only [dot, sub]; rw [cx, cy, cz]; ring
    linarith

example : OnArcMid (⟨25, 0, 0⟩ : Vec Rat) ⟨7, 24, 0⟩ ⟨0, 0, 0⟩ ⟨0, 0, 1⟩ ⟨16, 12, 0⟩ ⟨20, 15, 0⟩ ∧
    nsq (cross (sub (⟨7, 24, 0⟩ : Vec Rat) ⟨25, 0, 0⟩) ⟨0, 0, 1⟩) ≠ 0 := by
  norm_num [OnArcMid, nsq, dot, sub, cross]

/-! ### sector angle and axis -/

/-- The centre of `arc_from_theta` (unit axis `a`, chord orthogonal to it, `(c, s) = (cos θ/2, sin θ/2)`):
    equidistant from both ends, in the plane of the end points orthogonal to the axis, and `p2 − C` is `p1 − C`
    rotated about the axis by θ (cos θ = c² − s², sin θ = 2sc): the chord is seen under the signed angle θ. -/
theorem T_C08_theta_centre (p1 p2 a : Vec K) (c s wrm wc : K) (ha : nsq a = 1)
    (hl : dot (sub p2 p1) a = 0) (hcs : c * c + s * s = 1) (hs : s ≠ 0)
    (hrm0 : 0 < wrm) (hrm : wrm * wrm = nsq (cross (sub p2 p1) a))
    (hc0 : 0 ≤ wc) (hc : wc * wc = nsq (thetaChord p1 p2 a)) :
    let C := thetaCentre p1 p2 a c s wrm wc
    nsq (sub p1 C) = nsq (sub p2 C) ∧ dot (sub C p1) a = 0 ∧
      sub p2 C = rotPerp a (sub p1 C) (c * c - s * s) (2 * s * c) := by
  intro C
  have hC : C = _ := theta_centre_closed p1 p2 a c s wrm wc ha hl hs hrm0 hrm hc0 hc
  obtain ⟨q, hq0⟩ : ∃ q, q = c / (2 * s) := ⟨_, rfl⟩
  have hq : 2 * s * q = c := by rw [hq0]; field_simp
  rw [← hq0] at hC
  have hrot := rot_centre p1 p2 a c s q ha hl hcs hq
  simp only at hrot
  rw [hC]
  refine ⟨?_, ?_, hrot⟩
  · simp only [nsq, dot, sub, smul, midPoint, cross]; ring
  · simp only [dot, sub] at hl
    simp only [dot, sub, smul, midPoint, cross]
    linear_combination (1 / 2 : K) * hl

/-- The point written by (the repaired) `arc_from_theta`, for every sector angle in (0, 2π) of either sign
    (`hθ`: the sign of θ is the sign of `sin θ/2`; `c < 0` is the case |θ| > π): `M − C` is `p1 − C` rotated about
    the axis by θ/2 — the middle of the arc of angle θ —, `|M − C|` is the radius, and in closed form
    `M = pm + (1 − c)/(2s) · (dp × a)`, i.e. the sagitta is `|chord|/2 · tan(θ/4)`. -/
theorem T_C08_theta_mid (p1 p2 a : Vec K) (θ c s wrm wc wR : K) (ha : nsq a = 1)
    (hl : dot (sub p2 p1) a = 0) (hcs : c * c + s * s = 1)
    (hθ : (0 < θ ∧ 0 < s) ∨ (θ < 0 ∧ s < 0))
    (hrm0 : 0 < wrm) (hrm : wrm * wrm = nsq (cross (sub p2 p1) a))
    (hc0 : 0 ≤ wc) (hc : wc * wc = nsq (thetaChord p1 p2 a))
    (hR0 : 0 ≤ wR) (hR : wR * wR = nsq (sub p1 (thetaCentre p1 p2 a c s wrm wc))) :
    let C := thetaCentre p1 p2 a c s wrm wc
    let M := thetaMid p1 p2 a θ c s wrm wc wR
    sub M C = rotPerp a (sub p1 C) c s ∧ nsq (sub M C) = wR * wR ∧
      M = add (midPoint p1 p2) (smul ((1 - c) / (2 * s)) (cross (sub p2 p1) a)) := by
  intro C M
  have hs : s ≠ 0 := by rcases hθ with h | h <;> [exact ne_of_gt h.2; exact ne_of_lt h.2]
  have hM : M = _ := theta_mid_closed p1 p2 a θ c s wrm wc wR ha hl hcs hθ hrm0 hrm hc0 hc hR0 hR
  have h4 := theta_radius p1 p2 a c s wrm wc wR ha hl hcs hs hrm0 hrm hc0 hc hR
  have hC : C = _ := theta_centre_closed p1 p2 a c s wrm wc ha hl hs hrm0 hrm hc0 hc
  obtain ⟨q, hq0⟩ : ∃ q, q = c / (2 * s) := ⟨_, rfl⟩
  have hq : 2 * s * q = c := by rw [hq0]; field_simp
  obtain ⟨r, hr0⟩ : ∃ r, r = 1 / (2 * s) := ⟨_, rfl⟩
  have hr : 2 * s * r = 1 := by rw [hr0]; field_simp
  rw [← hq0] at hC
  rw [← hr0] at hM
  have hrot := rot_mid p1 p2 a c s q r ha hl hcs hq hr
  simp only at hrot
  have hMC : sub M C = smul r (cross (sub p2 p1) a) := by
    rw [hM]; apply Vec.ext' <;> simp only [sub, add, smul] <;> ring
  refine ⟨?_, ?_, ?_⟩
  · rw [hMC, hC]; exact hrot
  · rw [hMC]
    have : nsq (smul r (cross (sub p2 p1) a)) = r * r * nsq (cross (sub p2 p1) a) := by
      simp only [nsq, dot, smul]; ring
    rw [this, ← hrm]
    linear_combination (-(r * r)) * h4 + (wR * wR * (2 * s * r + 1)) * hr
  · rw [hM]
    have hrq : (1 - c) / (2 * s) = r - q := by rw [hr0, hq0]; field_simp
    rw [hrq]
    change add C _ = _
    rw [hC]
    apply Vec.ext' <;> simp only [sub, add, smul] <;> ring

/-- … hence the written point satisfies the specification `OnArcMid` (plane normal = the axis, side = `s · (dp × a)`),
    which by `T_C08_unique` has no other solution. -/
theorem T_C08_theta_onarc (p1 p2 a : Vec K) (θ c s wrm wc wR : K) (ha : nsq a = 1)
    (hl : dot (sub p2 p1) a = 0) (hcs : c * c + s * s = 1)
    (hθ : (0 < θ ∧ 0 < s) ∨ (θ < 0 ∧ s < 0))
    (hrm0 : 0 < wrm) (hrm : wrm * wrm = nsq (cross (sub p2 p1) a))
    (hc0 : 0 ≤ wc) (hc : wc * wc = nsq (thetaChord p1 p2 a))
    (hR0 : 0 ≤ wR) (hR : wR * wR = nsq (sub p1 (thetaCentre p1 p2 a c s wrm wc))) :
    OnArcMid p1 p2 (thetaCentre p1 p2 a c s wrm wc) a (smul s (cross (sub p2 p1) a))
      (thetaMid p1 p2 a θ c s wrm wc wR) := by
  have hs : s ≠ 0 := by rcases hθ with h | h <;> [exact ne_of_gt h.2; exact ne_of_lt h.2]
  obtain ⟨h1, h2, h3⟩ := T_C08_theta_mid p1 p2 a θ c s wrm wc wR ha hl hcs hθ hrm0 hrm hc0 hc hR0 hR
  have hM : thetaMid p1 p2 a θ c s wrm wc wR = _ :=
    theta_mid_closed p1 p2 a θ c s wrm wc wR ha hl hcs hθ hrm0 hrm hc0 hc hR0 hR
  have hMC : sub (thetaMid p1 p2 a θ c s wrm wc wR) (thetaCentre p1 p2 a c s wrm wc)
      = smul (1 / (2 * s)) (cross (sub p2 p1) a) := by
    rw [hM]; apply Vec.ext' <;> simp only [sub, add, smul] <;> ring
  refine ⟨by rw [h2, hR], ?_, ?_, ?_⟩
  · rw [h3]; simp only [nsq, dot, sub, add, smul, midPoint, cross]; ring
  · rw [hMC]; simp only [dot, smul, cross]; ring
  · rw [hMC]
    have : dot (smul (1 / (2 * s)) (cross (sub p2 p1) a)) (smul s (cross (sub p2 p1) a))
        = nsq (cross (sub p2 p1) a) / 2 := by
      simp only [nsq, dot, smul]; field_simp
    rw [this, ← hrm]
    have := mul_pos hrm0 hrm0
    linarith

/-- non-vacuity: a sector angle above π (θ/2 has cos −3/5, sin 4/5, θ ≈ 253.7°), chord 8, radius 5:
    the written point is the middle of the *major* arc -/
example :
    let p1 : Vec Rat := ⟨0, 0, 0⟩; let p2 : Vec Rat := ⟨8, 0, 0⟩; let a : Vec Rat := ⟨0, 0, 1⟩
    nsq a = 1 ∧ dot (sub p2 p1) a = 0 ∧ ((-3 / 5 : Rat) * (-3 / 5) + (4 / 5) * (4 / 5) = 1) ∧
    ((8 : Rat) * 8 = nsq (cross (sub p2 p1) a)) ∧ ((8 : Rat) * 8 = nsq (thetaChord p1 p2 a)) ∧
    thetaCentre p1 p2 a (-3 / 5) (4 / 5) 8 8 = ⟨4, -3, 0⟩ ∧
    ((5 : Rat) * 5 = nsq (sub p1 (thetaCentre p1 p2 a (-3 / 5) (4 / 5) 8 8))) ∧
    thetaMid p1 p2 a 4 (-3 / 5) (4 / 5) 8 8 5 = ⟨4, -8, 0⟩ := by
  norm_num [nsq, dot, sub, cross, thetaChord, thetaCentre, thetaMid, midPoint, unitVec, smul, add, sgn]

/-! ### validity (collinearity test) of the written arcs -/

/-- `cross(arm_1, arm_2)` of `ArcEdgeBase.is_valid` is `chord × (third point − chord middle)` -/
theorem validCross_eq (p1 p2 M : Vec K) :
    validCross p1 p2 M = cross (sub p2 p1) (sub M (midPoint p1 p2)) := by
  apply Vec.ext' <;> simp only [validCross, cross, sub, midPoint] <;> ring

/-- For the point written by `arc_from_theta` the quantity tested by `ArcEdgeBase.is_valid` is, exactly,
    `|cross(arm_1, arm_2)|² = ((1 − c)/(2s))² · |chord|⁴`, i.e. `|cross| = chord² · |tan(θ/4)| / 2 = chord × rise`:
    the arc is kept iff `chord × rise > TOL` — whatever the radius (flat arcs) and however close the ends (nearly full turns). -/
theorem T_C08_valid_theta (p1 p2 a : Vec K) (θ c s wrm wc wR : K) (ha : nsq a = 1)
    (hl : dot (sub p2 p1) a = 0) (hcs : c * c + s * s = 1)
    (hθ : (0 < θ ∧ 0 < s) ∨ (θ < 0 ∧ s < 0))
    (hrm0 : 0 < wrm) (hrm : wrm * wrm = nsq (cross (sub p2 p1) a))
    (hc0 : 0 ≤ wc) (hc : wc * wc = nsq (thetaChord p1 p2 a))
    (hR0 : 0 ≤ wR) (hR : wR * wR = nsq (sub p1 (thetaCentre p1 p2 a c s wrm wc))) :
    nsq (validCross p1 p2 (thetaMid p1 p2 a θ c s wrm wc wR))
      = ((1 - c) / (2 * s)) * ((1 - c) / (2 * s)) * (nsq (sub p2 p1) * nsq (sub p2 p1)) := by
  obtain ⟨_, _, h3⟩ := T_C08_theta_mid p1 p2 a θ c s wrm wc wR ha hl hcs hθ hrm0 hrm hc0 hc hR0 hR
  rw [validCross_eq, h3]
  obtain ⟨r, hr⟩ : ∃ r, r = (1 - c) / (2 * s) := ⟨_, rfl⟩
  rw [← hr]
  have key : nsq (cross (sub p2 p1) (sub (add (midPoint p1 p2) (smul r (cross (sub p2 p1) a))) (midPoint p1 p2)))
      = r * r * (nsq (sub p2 p1) * nsq (sub p2 p1) * nsq a
          - nsq (sub p2 p1) * (dot (sub p2 p1) a * dot (sub p2 p1) a)) := by
    simp only [nsq, dot, cross, sub, add, smul, midPoint]; ring
  rw [key, ha, hl]; ring

/-- For the point written by `arc_from_origin` (equidistant origin): `|cross(arm_1, arm_2)|² = (R − |pm − C|)² · |chord|²`,
    i.e. `|cross| = chord × rise` again. -/
theorem T_C08_valid_origin (p1 p2 C : Vec K) (wR ws : K)
    (heq : nsq (sub p1 C) = nsq (sub p2 C))
    (hs0 : 0 < ws) (hs : ws * ws = nsq (sub (midPoint p1 p2) C)) :
    nsq (validCross p1 p2 (arcMid C p1 p2 wR ws)) = (wR - ws) * (wR - ws) * nsq (sub p2 p1) := by
  obtain ⟨t, ht⟩ : ∃ t, wR / ws = t := ⟨_, rfl⟩
  have hne : ws ≠ 0 := ne_of_gt hs0
  have hx : ∀ v : K, wR * (v / ws) = t * v := by intro v; rw [← ht]; field_simp
  have hwR : wR = t * ws := by rw [← ht]; field_simp
  rw [validCross_eq]
  have hperp : dot (sub p2 p1) (sub (midPoint p1 p2) C) = 0 := by
    simp only [nsq, dot, sub, midPoint] at heq ⊢
    linear_combination (-1 / 2 : K) * heq
  have key : nsq (cross (sub p2 p1) (sub (arcMid C p1 p2 wR ws) (midPoint p1 p2)))
      = (t - 1) * (t - 1) * (nsq (sub p2 p1) * nsq (sub (midPoint p1 p2) C)
          - dot (sub p2 p1) (sub (midPoint p1 p2) C) * dot (sub p2 p1) (sub (midPoint p1 p2) C)) := by
    simp only [arcMid, nsq, dot, cross, sub, add, smul, midPoint, unitVec, hx]; ring
  rw [key, hperp, ← hs, hwR]; ring

example : nsq (validCross (⟨25, 0, 0⟩ : Vec Rat) ⟨7, 24, 0⟩ (arcMid ⟨0, 0, 0⟩ ⟨25, 0, 0⟩ ⟨7, 24, 0⟩ 25 20))
    = (25 - 20) * (25 - 20) * nsq (sub (⟨7, 24, 0⟩ : Vec Rat) ⟨25, 0, 0⟩) := by
  norm_num [validCross, nsq, dot, sub, cross, midPoint, arcMid, add, smul, unitVec]

/-! ### arc length ≥ chord (over ℝ) -/

/-- radius × |sector angle| ≥ chord: the arc of `arc_from_theta` is at least as long as the distance of its end points
    (over ℝ, `(c, s) = (cos θ/2, sin θ/2)`; `|sin x| ≤ |x|`). -/
theorem T_C08_arc_chord (p1 p2 a : Vec ℝ) (θ wrm wc wR : ℝ) (ha : nsq a = 1)
    (hl : dot (sub p2 p1) a = 0) (hs : Real.sin (θ / 2) ≠ 0)
    (hrm0 : 0 < wrm) (hrm : wrm * wrm = nsq (cross (sub p2 p1) a))
    (hc0 : 0 ≤ wc) (hc : wc * wc = nsq (thetaChord p1 p2 a))
    (hR0 : 0 ≤ wR)
    (hR : wR * wR = nsq (sub p1 (thetaCentre p1 p2 a (Real.cos (θ / 2)) (Real.sin (θ / 2)) wrm wc))) :
    wc ≤ wR * |θ| := by
  have hcs : Real.cos (θ / 2) * Real.cos (θ / 2) + Real.sin (θ / 2) * Real.sin (θ / 2) = 1 := by
    have := Real.cos_sq_add_sin_sq (θ / 2); nlinarith
  obtain ⟨hw, _⟩ := theta_wits p1 p2 a wrm wc ha hl hrm0 hrm hc0 hc
  have h4 := theta_radius p1 p2 a _ _ wrm wc wR ha hl hcs hs hrm0 hrm hc0 hc hR
  have hsin := Real.abs_sin_le_abs (x := θ / 2)
  have hwc : wc = 2 * |Real.sin (θ / 2)| * wR := by
    apply sq_wit_unique hc0 (by positivity)
    rw [hw, ← h4]
    have := abs_mul_abs_self (Real.sin (θ / 2))
    nlinarith [this]
  rw [hwc]
  have h2 : |θ / 2| = |θ| / 2 := by rw [abs_div]; simp
  rw [h2] at hsin
  nlinarith [mul_nonneg hR0 (abs_nonneg (Real.sin (θ / 2)))]
example :
    let p1 : Vec ℝ := ⟨0, 0, 0⟩; let p2 : Vec ℝ := ⟨2, 0, 0⟩; let a : Vec ℝ := ⟨0, 0, 1⟩
    nsq a = 1 ∧ dot (sub p2 p1) a = 0 ∧ Real.sin (Real.pi / 2) ≠ 0 ∧
    ((2 : ℝ) * 2 = nsq (cross (sub p2 p1) a)) ∧ ((2 : ℝ) * 2 = nsq (thetaChord p1 p2 a)) ∧
    ((1 : ℝ) * 1 = nsq (sub p1 (thetaCentre p1 p2 a (Real.cos (Real.pi / 2)) (Real.sin (Real.pi / 2)) 2 2))) := by
  simp only [Real.cos_pi_div_two, Real.sin_pi_div_two]
  norm_num [nsq, dot, sub, cross, thetaChord, thetaCentre, midPoint, unitVec, smul]

/-! ### three-point arc -/

/-- the centre computed by `arc_length_3point` is equidistant from the three points and lies in their plane -/
theorem T_C08_arc3_centre (pS pB pE : Vec K) (hden : arc3Denom pS pB pE ≠ 0) :
    let C := arc3Centre pS pB pE
    nsq (sub C pS) = nsq (sub C pB) ∧ nsq (sub C pS) = nsq (sub C pE) ∧
      dot (sub C pS) (cross (sub pB pS) (sub pE pS)) = 0 := by
  intro C
  obtain ⟨f, hf⟩ : ∃ f, f = (nsq (sub pE pS) - dot (sub pB pS) (sub pE pS)) / (2 * arc3Denom pS pB pE) := ⟨_, rfl⟩
  have hfD : f * arc3Denom pS pB pE = (nsq (sub pE pS) - dot (sub pB pS) (sub pE pS)) / 2 := by
    rw [hf]; field_simp
  have hC : C = add (add pS (unitVec (sub pB pS) 2)) (smul f (cross (cross (sub pB pS) (sub pE pS)) (sub pB pS))) := by
    simp only [C, arc3Centre, hf]
  have h1 : dot (sub C pS) (sub pB pS) = nsq (sub pB pS) / 2 := by
    rw [hC]; simp only [nsq, dot, sub, add, smul, cross, unitVec]; ring
  have h2 : dot (sub C pS) (sub pE pS) = dot (sub pB pS) (sub pE pS) / 2 + f * arc3Denom pS pB pE := by
    rw [hC]; simp only [arc3Denom, nsq, dot, sub, add, smul, cross, unitVec]; ring
  refine ⟨?_, ?_, ?_⟩
  · rw [nsq_sub_shift C pS pB, h1]; ring
  · rw [nsq_sub_shift C pS pE, h2, hfD]; ring
  · rw [hC]; simp only [dot, sub, add, smul, cross, unitVec]; ring

example : arc3Denom (⟨1, 0, 0⟩ : Vec Rat) ⟨0, 1, 0⟩ ⟨-1, 0, 0⟩ ≠ 0 ∧
    arc3Centre (⟨1, 0, 0⟩ : Vec Rat) ⟨0, 1, 0⟩ ⟨-1, 0, 0⟩ = ⟨0, 0, 0⟩ := by
  norm_num [arc3Denom, arc3Centre, nsq, dot, sub, add, smul, cross, unitVec]

/-- when the code decides "exterior" (`dot(cross(r1,r2), cross(r1,r3)) < 0`) the third point is indeed not inside
    the minor sector -/
theorem T_C08_arc3_side_partial (r1 r2 r3 : Vec K) (h : arc3SideTest r1 r2 r3 < 0) : ¬ GeomInterior r1 r2 r3 := by
  intro hg; exact absurd hg.1 (not_lt.mpr (le_of_lt h))

/-- for a third point on the bisector of `r1, r3` (what `OriginEdge`/`AngleEdge` pass: the middle of the arc)
    the code's decision is exactly right: interior on the same side, exterior on the opposite side -/
theorem T_C08_arc3_side_mid (r1 r3 : Vec K) (lam : K) (hn : nsq (cross r1 r3) ≠ 0) :
    let r2 := smul lam (add r1 r3)
    (0 < lam → 0 ≤ arc3SideTest r1 r2 r3 ∧ GeomInterior r1 r2 r3) ∧
    (lam < 0 → arc3SideTest r1 r2 r3 < 0 ∧ ¬ GeomInterior r1 r2 r3) := by
  intro r2
  have hpos : 0 < nsq (cross r1 r3) := by
    have : 0 ≤ nsq (cross r1 r3) := by
      simp only [nsq, dot]
      have := mul_self_nonneg (cross r1 r3).x
      have := mul_self_nonneg (cross r1 r3).y
      have := mul_self_nonneg (cross r1 r3).z
      linarith
    exact lt_of_le_of_ne this (Ne.symm hn)
  have e1 : arc3SideTest r1 r2 r3 = lam * nsq (cross r1 r3) := by
    simp only [r2, arc3SideTest, nsq, dot, cross, smul, add]; ring
  have e2 : dot (cross r2 r3) (cross r1 r3) = lam * nsq (cross r1 r3) := by
    simp only [r2, nsq, dot, cross, smul, add]; ring
  constructor
  · intro hl
    have : 0 < lam * nsq (cross r1 r3) := mul_pos hl hpos
    refine ⟨by rw [e1]; exact le_of_lt this, ?_, ?_⟩
    · have := e1; unfold arc3SideTest at this; rw [this]; assumption
    · rw [e2]; assumption
  · intro hl
    have : lam * nsq (cross r1 r3) < 0 := mul_neg_of_neg_of_pos hl hpos
    refine ⟨by rw [e1]; exact this, ?_⟩
    exact T_C08_arc3_side_partial _ _ _ (by rw [e1]; exact this)

example : nsq (cross (⟨1, 0, 0⟩ : Vec Rat) ⟨0, 1, 0⟩) ≠ 0 := by norm_num [nsq, dot, cross]

/-- Full statement that does NOT hold for the code (and not for blockMesh's arcEdge, which decides the same way):
      `0 ≤ arc3SideTest r1 r2 r3 → GeomInterior r1 r2 r3`   for three radii of one circle.
    Counterexample (known finding `arc_length_3point:third-point-between-end-and-antipode`): on the unit circle,
    start at 0°, end at 90°, third point at 126.9°: the arc through the third point is the 270° arc, the test says interior. -/
theorem T_C08_arc3_side_counterexample :
    ∃ r1 r2 r3 : Vec Rat, nsq r1 = 1 ∧ nsq r2 = 1 ∧ nsq r3 = 1 ∧ dot r2 (cross r1 r3) = 0 ∧
      0 ≤ arc3SideTest r1 r2 r3 ∧ ¬ GeomInterior r1 r2 r3 := by
  refine ⟨⟨1, 0, 0⟩, ⟨-3 / 5, 4 / 5, 0⟩, ⟨0, 1, 0⟩, ?_⟩
  norm_num [nsq, dot, cross, arc3SideTest, GeomInterior]

/-! ### round 6: the circumcentre is unique; `arc_length_3point` over ℝ equals radius × angle -/

/-- the centre computed by `arc_length_3point` is *the* circumcentre: any point equidistant from the three points and in their
    plane is the computed one (so it is the centre of the circle the three points were taken from) -/
theorem T_C08_arc3_centre_unique (pS pB pE X : Vec K) (hden : arc3Denom pS pB pE ≠ 0)
    (h1 : nsq (sub X pS) = nsq (sub X pB)) (h2 : nsq (sub X pS) = nsq (sub X pE))
    (h3 : dot (sub X pS) (cross (sub pB pS) (sub pE pS)) = 0) : X = arc3Centre pS pB pE := by
  obtain ⟨c1, c2, c3⟩ := T_C08_arc3_centre pS pB pE hden
  obtain ⟨Cc, hCc⟩ : ∃ Cc, Cc = arc3Centre pS pB pE := ⟨_, rfl⟩
  rw [← hCc] at c1 c2 c3 ⊢
  have split : ∀ v : Vec K, dot (sub X Cc) v = dot (sub X pS) v - dot (sub Cc pS) v := by
    intro v; simp only [dot, sub]; ring
  have ha : dot (sub X Cc) (sub pB pS) = 0 := by
    have e1 := nsq_sub_shift X pS pB
    have e2 := nsq_sub_shift Cc pS pB
    rw [split]; linarith
  have hb : dot (sub X Cc) (sub pE pS) = 0 := by
    have e1 := nsq_sub_shift X pS pE
    have e2 := nsq_sub_shift Cc pS pE
    rw [split]; linarith
  have hn : dot (sub X Cc) (cross (sub pB pS) (sub pE pS)) = 0 := by rw [split, h3, c3]; ring
  have hp := perp_parallel (sub X Cc) (sub pB pS) (sub pE pS) hb ha
  rw [hn, ← arc3Denom_eq] at hp
  have hz : smul (arc3Denom pS pB pE) (sub X Cc) = ⟨0, 0, 0⟩ := by
    rw [hp]; apply Vec.ext' <;> simp only [smul] <;> ring
  have hw := smul_eq_zero_vec hden hz
  have hx := congrArg Vec.x hw
  have hy := congrArg Vec.y hw
  have hzz := congrArg Vec.z hw
  simp only [sub] at hx hy hzz
  apply Vec.ext' <;> linarith

/-- three points `C + x_i e1 + y_i e2` of one circle about `C` (frame `e1, e2` of its plane) that are not collinear:
    `arc_length_3point` does not reject them and the centre it computes is `C` -/
theorem T_C08_arc3_centre_circle {C e1 e2 : Vec K} (hF : Frame e1 e2) (x0 y0 x1 y1 x2 y2 : K)
    (h01 : x0 * x0 + y0 * y0 = x1 * x1 + y1 * y1) (h02 : x0 * x0 + y0 * y0 = x2 * x2 + y2 * y2)
    (hD : (x1 - x0) * (y2 - y0) - (y1 - y0) * (x2 - x0) ≠ 0) :
    arc3Denom (circPt C e1 e2 x0 y0) (circPt C e1 e2 x1 y1) (circPt C e1 e2 x2 y2) ≠ 0 ∧
    arc3Centre (circPt C e1 e2 x0 y0) (circPt C e1 e2 x1 y1) (circPt C e1 e2 x2 y2) = C := by
  have hden : arc3Denom (circPt C e1 e2 x0 y0) (circPt C e1 e2 x1 y1) (circPt C e1 e2 x2 y2) ≠ 0 := by
    rw [arc3Denom_eq, sub_circPt, sub_circPt, cross_comb]
    unfold nsq
    rw [dot_smul_n hF]
    exact mul_self_ne_zero.mpr hD
  refine ⟨hden, (T_C08_arc3_centre_unique _ _ _ C hden ?_ ?_ ?_).symm⟩
  · rw [sub_C_circPt, sub_C_circPt, nsq_comb hF, nsq_comb hF]; linear_combination h01
  · rw [sub_C_circPt, sub_C_circPt, nsq_comb hF, nsq_comb hF]; linear_combination h02
  · rw [sub_C_circPt, sub_circPt, sub_circPt, cross_comb, dot_comb_smul_n]

example : Frame (⟨1, 0, 0⟩ : Vec Rat) ⟨0, 1, 0⟩ ∧ ((0 - 5 : Rat) * (-5 - 0) - (5 - 0) * (0 - 5) ≠ 0) ∧
    arc3Centre (circPt (⟨1, 2, 3⟩ : Vec Rat) ⟨1, 0, 0⟩ ⟨0, 1, 0⟩ 5 0) (circPt ⟨1, 2, 3⟩ ⟨1, 0, 0⟩ ⟨0, 1, 0⟩ 0 5)
      (circPt ⟨1, 2, 3⟩ ⟨1, 0, 0⟩ ⟨0, 1, 0⟩ 0 (-5)) = ⟨1, 2, 3⟩ := by
  refine ⟨⟨?_, ?_, ?_⟩, ?_, ?_⟩ <;>
    norm_num [circPt, comb, arc3Centre, arc3Denom, nsq, dot, sub, add, smul, cross, unitVec]

/-- the three circle points at the angles 0 < ψ < θ < 2π are accepted and the computed centre is the circle's -/
theorem T_C08_arc3_centre_real {C e1 e2 : Vec ℝ} (hF : Frame e1 e2) {r ψ θ : ℝ} (hr : 0 < r)
    (hψ : 0 < ψ) (hψθ : ψ < θ) (hθ : θ < 2 * Real.pi) :
    arc3Denom (circAt C e1 e2 r 0) (circAt C e1 e2 r ψ) (circAt C e1 e2 r θ) ≠ 0 ∧
    arc3Centre (circAt C e1 e2 r 0) (circAt C e1 e2 r ψ) (circAt C e1 e2 r θ) = C := by
  unfold circAt
  apply T_C08_arc3_centre_circle hF
  · linear_combination (r * r) * (Real.cos_sq_add_sin_sq 0) - (r * r) * (Real.cos_sq_add_sin_sq ψ)
  · linear_combination (r * r) * (Real.cos_sq_add_sin_sq 0) - (r * r) * (Real.cos_sq_add_sin_sq θ)
  · have hD := circ_D_pos hψ hψθ hθ
    rw [Real.cos_zero, Real.sin_zero]
    have : (r * Real.cos ψ - r * 1) * (r * Real.sin θ - r * 0) - (r * Real.sin ψ - r * 0) * (r * Real.cos θ - r * 1)
        = r * r * ((Real.cos ψ - 1) * Real.sin θ - Real.sin ψ * (Real.cos θ - 1)) := by ring
    rw [this]
    exact ne_of_gt (mul_pos (mul_pos hr hr) hD)

/-- **Length = radius × included angle, over ℝ, the `arccos` step included.**  Three points of a circle of radius `r > 0`
    (centre `C`, any orthonormal frame `e1, e2` of its plane) at the angles `0 < ψ < θ < 2π` — start, third point, end.
    `arc3LengthR` is the model function `arc3` (same `arc3Centre`, same side test `dot(cross(r1,r2), cross(r1,r3)) < 0`) with
    `Float.sqrt/clip/acos` read as `Real.sqrt/clipR/Real.arccos`.  It accepts the points (`denom ≠ 0`) and returns `r·θ`,
    provided `θ ≤ π` or the third point lies before the antipode of the start (`ψ < π`).  That hypothesis is exactly the
    complement of the known finding's region, see `T_C08_arc3_length_real_beyond`. -/
theorem T_C08_arc3_length_real {C e1 e2 : Vec ℝ} (hF : Frame e1 e2) {r ψ θ : ℝ} (hr : 0 < r)
    (hψ : 0 < ψ) (hψθ : ψ < θ) (hθ : θ < 2 * Real.pi) (hside : θ ≤ Real.pi ∨ ψ < Real.pi) :
    arc3Denom (circAt C e1 e2 r 0) (circAt C e1 e2 r ψ) (circAt C e1 e2 r θ) ≠ 0 ∧
    arc3LengthR (circAt C e1 e2 r 0) (circAt C e1 e2 r ψ) (circAt C e1 e2 r θ) = r * θ := by
  obtain ⟨hden, hC⟩ := T_C08_arc3_centre_real (C := C) hF hr hψ hψθ hθ
  refine ⟨hden, ?_⟩
  unfold arc3LengthR
  rw [hC, arc3LengthAt_circle hF hr]
  have hr4 : 0 < r * r * (r * r) := by positivity
  by_cases hle : θ ≤ Real.pi
  · have s1 : 0 < Real.sin ψ := Real.sin_pos_of_pos_of_lt_pi hψ (by linarith)
    have s2 : 0 ≤ Real.sin θ := Real.sin_nonneg_of_nonneg_of_le_pi (by linarith) hle
    have : ¬ (r * r * (r * r) * (Real.sin ψ * Real.sin θ) < 0) :=
      not_lt.mpr (mul_nonneg (le_of_lt hr4) (mul_nonneg (le_of_lt s1) s2))
    rw [if_neg this, Real.arccos_cos (by linarith) hle]; ring
  · have hψπ : ψ < Real.pi := hside.resolve_left hle
    have hgt : Real.pi < θ := not_le.mp hle
    have s1 : 0 < Real.sin ψ := Real.sin_pos_of_pos_of_lt_pi hψ hψπ
    have s2 : Real.sin θ < 0 := sin_neg_upper hgt hθ
    have : r * r * (r * r) * (Real.sin ψ * Real.sin θ) < 0 :=
      mul_neg_of_pos_of_neg hr4 (mul_neg_of_pos_of_neg s1 s2)
    rw [if_pos this, arccos_cos_upper (le_of_lt hgt) (le_of_lt hθ)]; ring

/-- non-vacuity: unit circle in the x-y plane, third point at 90°, end at 270° (a major arc; `ψ < π`) -/
example : Frame (⟨1, 0, 0⟩ : Vec ℝ) ⟨0, 1, 0⟩ ∧ (0 : ℝ) < Real.pi / 2 ∧ Real.pi / 2 < 3 * Real.pi / 2 ∧
    3 * Real.pi / 2 < 2 * Real.pi ∧ (3 * Real.pi / 2 ≤ Real.pi ∨ Real.pi / 2 < Real.pi) := by
  have := Real.pi_pos
  refine ⟨⟨?_, ?_, ?_⟩, by linarith, by linarith, by linarith, Or.inr (by linarith)⟩ <;> norm_num [nsq, dot]

/-- **The hypothesis of `T_C08_arc3_length_real` is necessary** (known finding
    `arc_length_3point:third-point-between-end-and-antipode`, over ℝ): for a third point at or beyond the antipode of the start
    (`π ≤ ψ < θ < 2π`) the modelled function returns `r·(2π − θ)`, the length of the *other* arc, which is not `r·θ`.
    Together: for `0 < ψ < θ < 2π`, `arc3LengthR = r·θ ↔ (θ ≤ π ∨ ψ < π)`. -/
theorem T_C08_arc3_length_real_beyond {C e1 e2 : Vec ℝ} (hF : Frame e1 e2) {r ψ θ : ℝ} (hr : 0 < r)
    (hψ : Real.pi ≤ ψ) (hψθ : ψ < θ) (hθ : θ < 2 * Real.pi) :
    arc3LengthR (circAt C e1 e2 r 0) (circAt C e1 e2 r ψ) (circAt C e1 e2 r θ) = r * (2 * Real.pi - θ) ∧
    arc3LengthR (circAt C e1 e2 r 0) (circAt C e1 e2 r ψ) (circAt C e1 e2 r θ) ≠ r * θ := by
  have hπ := Real.pi_pos
  obtain ⟨_, hC⟩ := T_C08_arc3_centre_real (C := C) hF hr (by linarith) hψθ hθ
  have key : arc3LengthR (circAt C e1 e2 r 0) (circAt C e1 e2 r ψ) (circAt C e1 e2 r θ) = r * (2 * Real.pi - θ) := by
    unfold arc3LengthR
    rw [hC, arc3LengthAt_circle hF hr]
    have hr4 : 0 < r * r * (r * r) := by positivity
    have s1 : Real.sin ψ ≤ 0 := sin_nonpos_upper hψ (by linarith)
    have s2 : Real.sin θ ≤ 0 := sin_nonpos_upper (by linarith) (le_of_lt hθ)
    have : ¬ (r * r * (r * r) * (Real.sin ψ * Real.sin θ) < 0) :=
      not_lt.mpr (mul_nonneg (le_of_lt hr4) (mul_nonneg_of_nonpos_of_nonpos s1 s2))
    rw [if_neg this, arccos_cos_upper (by linarith) (le_of_lt hθ)]; ring
  refine ⟨key, ?_⟩
  rw [key]
  intro h
  have : 2 * Real.pi - θ = θ := mul_left_cancel₀ (ne_of_gt hr) h
  linarith

theorem T_C08_arc3_length_real_iff {C e1 e2 : Vec ℝ} (hF : Frame e1 e2) {r ψ θ : ℝ} (hr : 0 < r)
    (hψ : 0 < ψ) (hψθ : ψ < θ) (hθ : θ < 2 * Real.pi) :
    arc3LengthR (circAt C e1 e2 r 0) (circAt C e1 e2 r ψ) (circAt C e1 e2 r θ) = r * θ ↔ (θ ≤ Real.pi ∨ ψ < Real.pi) := by
  constructor
  · intro h
    by_contra hn
    rw [not_or, not_le, not_lt] at hn
    exact (T_C08_arc3_length_real_beyond (C := C) hF hr hn.2 hψθ hθ).2 h
  · intro h; exact (T_C08_arc3_length_real hF hr hψ hψθ hθ h).2

/-- the region of the finding is not empty: third point at 225°, end at 270° -/
example : Real.pi ≤ 5 * Real.pi / 4 ∧ 5 * Real.pi / 4 < 3 * Real.pi / 2 ∧ 3 * Real.pi / 2 < 2 * Real.pi := by
  have := Real.pi_pos
  refine ⟨by linarith, by linarith, by linarith⟩

/-- **The three specifications of one arc agree, over ℝ.**  Circle of radius `r > 0` about `C` in the plane of the frame
    `e1, e2`, end points at the angles 0 and `θ ∈ (0, 2π)`, `M` the circle point at `θ/2`:
    * `Angle(θ, e1 × e2)`: for **every** choice of the square-root witnesses (the equations the driver checks over ℚ are the
      hypotheses here), `arc_from_theta` with `(c, s) = (cos θ/2, sin θ/2)` finds the centre `C`, the radius `r`, and writes `M`;
    * `Origin(C)` with flatness 1 (`θ < π`: the origin specification means the minor arc): `arc_mid` writes `M`;
    * the classic three-point arc through `M`: `arc_length_3point` (over ℝ) returns `r·θ` — so all three report radius × angle. -/
theorem T_C08_specs_real {C e1 e2 : Vec ℝ} (hF : Frame e1 e2) {r θ : ℝ} (hr : 0 < r) (h0 : 0 < θ) (h2 : θ < 2 * Real.pi) :
    (∀ wrm wc wR : ℝ, 0 < wrm →
        wrm * wrm = nsq (cross (sub (circAt C e1 e2 r θ) (circAt C e1 e2 r 0)) (cross e1 e2)) → 0 ≤ wc →
        wc * wc = nsq (thetaChord (circAt C e1 e2 r 0) (circAt C e1 e2 r θ) (cross e1 e2)) → 0 ≤ wR →
        wR * wR = nsq (sub (circAt C e1 e2 r 0) (thetaCentre (circAt C e1 e2 r 0) (circAt C e1 e2 r θ) (cross e1 e2)
            (Real.cos (θ / 2)) (Real.sin (θ / 2)) wrm wc)) →
        thetaCentre (circAt C e1 e2 r 0) (circAt C e1 e2 r θ) (cross e1 e2) (Real.cos (θ / 2)) (Real.sin (θ / 2)) wrm wc = C ∧
        wR = r ∧
        thetaMid (circAt C e1 e2 r 0) (circAt C e1 e2 r θ) (cross e1 e2) θ (Real.cos (θ / 2)) (Real.sin (θ / 2)) wrm wc wR
          = circAt C e1 e2 r (θ / 2)) ∧
    (θ < Real.pi → ∀ wR ws : ℝ, 0 ≤ wR → wR * wR = nsq (sub C (circAt C e1 e2 r 0)) → 0 < ws →
        ws * ws = nsq (sub (midPoint (circAt C e1 e2 r 0) (circAt C e1 e2 r θ)) C) →
        arcMid C (circAt C e1 e2 r 0) (circAt C e1 e2 r θ) wR ws = circAt C e1 e2 r (θ / 2)) ∧
    arc3LengthR (circAt C e1 e2 r 0) (circAt C e1 e2 r (θ / 2)) (circAt C e1 e2 r θ) = r * θ := by
  obtain ⟨c, hc⟩ : ∃ c, c = Real.cos (θ / 2) := ⟨_, rfl⟩
  obtain ⟨s, hs⟩ : ∃ s, s = Real.sin (θ / 2) := ⟨_, rfl⟩
  have hcs : c * c + s * s = 1 := by rw [hc, hs]; linear_combination Real.cos_sq_add_sin_sq (θ / 2)
  have hs0 : 0 < s := by rw [hs]; exact Real.sin_pos_of_pos_of_lt_pi (by linarith) (by linarith)
  have hcθ : Real.cos θ = 2 * c * c - 1 := by
    have := Real.cos_two_mul (θ / 2); rw [show 2 * (θ / 2) = θ by ring] at this; rw [this, hc]; ring
  have hsθ : Real.sin θ = 2 * s * c := by
    have := Real.sin_two_mul (θ / 2); rw [show 2 * (θ / 2) = θ by ring] at this; rw [this, hc, hs]
  have hdp : sub (circAt C e1 e2 r θ) (circAt C e1 e2 r 0) = comb e1 e2 (r * (2 * c * c - 1) - r) (r * (2 * s * c)) := by
    unfold circAt; rw [sub_circPt, Real.cos_zero, Real.sin_zero, hcθ, hsθ]; congr 1 <;> ring
  have hk : cross (sub (circAt C e1 e2 r θ) (circAt C e1 e2 r 0)) (cross e1 e2)
      = comb e1 e2 (r * (2 * s * c)) (-(r * (2 * c * c - 1) - r)) := by rw [hdp, cross_comb_n hF]
  have hm : midPoint (circAt C e1 e2 r 0) (circAt C e1 e2 r θ) = circPt C e1 e2 (r * c * c) (r * s * c) := by
    unfold circAt; rw [midPoint_circPt, Real.cos_zero, Real.sin_zero, hcθ, hsθ]; congr 1 <;> ring
  have hM : circAt C e1 e2 r (θ / 2) = circPt C e1 e2 (r * c) (r * s) := by unfold circAt; rw [hc, hs]
  have hS : sub (circAt C e1 e2 r 0) C = comb e1 e2 r 0 := by
    unfold circAt; rw [sub_circPt_C, Real.cos_zero, Real.sin_zero]; congr 1 <;> ring
  refine ⟨?_, ?_, ?_⟩
  · intro wrm wc wR hrm0 hrm hc0 hcw hR0 hR
    rw [← hc, ← hs] at hR ⊢
    have ha : nsq (cross e1 e2) = 1 := nsq_cross_frame hF
    have hl : dot (sub (circAt C e1 e2 r θ) (circAt C e1 e2 r 0)) (cross e1 e2) = 0 := by rw [hdp]; exact dot_comb_n _ _ _ _
    have hcl := theta_centre_closed _ _ _ c s wrm wc ha hl (ne_of_gt hs0) hrm0 hrm hc0 hcw
    have hmid := (T_C08_theta_mid _ _ _ θ c s wrm wc wR ha hl hcs (Or.inl ⟨h0, hs0⟩) hrm0 hrm hc0 hcw hR0 hR).2.2
    obtain ⟨q, hq0⟩ : ∃ q, q = c / (2 * s) := ⟨_, rfl⟩
    have hq : 2 * s * q = c := by rw [hq0]; field_simp
    obtain ⟨k, hk0⟩ : ∃ k, k = (1 - c) / (2 * s) := ⟨_, rfl⟩
    have hk2 : 2 * s * k = 1 - c := by rw [hk0]; field_simp
    rw [← hq0, hk, hm, circPt_sub_smul] at hcl
    have hX : r * c * c - q * (r * (2 * s * c)) = 0 := by linear_combination (-(r * c)) * hq
    have hY : r * s * c - q * (-(r * (2 * c * c - 1) - r)) = 0 := by
      linear_combination (-(r * s)) * hq + (2 * q * r) * hcs
    rw [hX, hY, circPt_zero] at hcl
    refine ⟨hcl, ?_, ?_⟩
    · apply sq_wit_unique hR0 (le_of_lt hr)
      rw [hR, hcl, hS, nsq_comb hF]; ring
    · rw [hmid, ← hk0, hk, hm, circPt_add_smul, hM]
      congr 1
      · linear_combination (r * c) * hk2
      · linear_combination (r * s) * hk2 - (2 * k * r) * hcs
  · intro hlt wR ws hR0 hR hws0 hws
    have hc0 : 0 < c := by
      rw [hc]; exact Real.cos_pos_of_mem_Ioo ⟨by linarith, by linarith⟩
    have hwR : wR = r := by
      apply sq_wit_unique hR0 (le_of_lt hr)
      rw [hR]; unfold circAt; rw [sub_C_circPt, nsq_comb hF, Real.cos_zero, Real.sin_zero]; ring
    have hw : ws = r * c := by
      apply sq_wit_unique (le_of_lt hws0) (le_of_lt (mul_pos hr hc0))
      rw [hws, hm, sub_circPt_C, nsq_comb hF]
      linear_combination (r * r * c * c) * hcs
    have hne : r * c ≠ 0 := ne_of_gt (mul_pos hr hc0)
    have hrne : r ≠ 0 := ne_of_gt hr
    have hcne : c ≠ 0 := ne_of_gt hc0
    unfold arcMid
    rw [hm, sub_circPt_C, hM, hwR, hw]
    apply Vec.ext' <;> simp only [circPt, comb, unitVec, add, smul] <;> field_simp
  · exact (T_C08_arc3_length_real hF hr (by linarith) (by linarith) h2 (Or.inr (by linarith))).2

/-- non-vacuity of the witness hypotheses: unit circle, θ = π (`(c, s) = (0, 1)`): witnesses 2, 2, 1 -/
example :
    let pS : Vec ℝ := circPt ⟨0, 0, 0⟩ ⟨1, 0, 0⟩ ⟨0, 1, 0⟩ 1 0
    let pE : Vec ℝ := circPt ⟨0, 0, 0⟩ ⟨1, 0, 0⟩ ⟨0, 1, 0⟩ (-1) 0
    let n : Vec ℝ := cross ⟨1, 0, 0⟩ ⟨0, 1, 0⟩
    ((2 : ℝ) * 2 = nsq (cross (sub pE pS) n)) ∧ ((2 : ℝ) * 2 = nsq (thetaChord pS pE n)) ∧
    ((1 : ℝ) * 1 = nsq (sub pS (thetaCentre pS pE n 0 1 2 2))) := by
  norm_num [circPt, comb, nsq, dot, sub, add, cross, thetaChord, thetaCentre, midPoint, unitVec, smul]

/-! ### round 6c: the length theorem directly on coordinates; arc ≥ chord for every three-point arc -/

/-- **`arc_length_3point` on coordinates, over ℝ** — no frame, no angles given: for *any* three points of ℝ³ that the guard accepts
    (`denom ≠ 0`), with `C` the computed centre, `r_i` the radius vectors, `R = |r1|` and `φ = arccos(r1·r3 / R²) ∈ [0, π]` the included
    angle: `R > 0`, `|r3|² = R²`, the cosine is never clipped, and the reported length is `R·φ` when the code's side test
    `dot(cross(r1,r2), cross(r1,r3)) < 0` is false and `R·(2π − φ)` when it is true. -/
theorem T_C08_arc3_length_coords (pS pB pE : Vec ℝ) (hden : arc3Denom pS pB pE ≠ 0) :
    0 < Real.sqrt (nsq (sub pS (arc3Centre pS pB pE))) ∧
    nsq (sub pE (arc3Centre pS pB pE)) = nsq (sub pS (arc3Centre pS pB pE)) ∧
    arc3LengthR pS pB pE =
      Real.sqrt (nsq (sub pS (arc3Centre pS pB pE))) *
        (if arc3SideTest (sub pS (arc3Centre pS pB pE)) (sub pB (arc3Centre pS pB pE)) (sub pE (arc3Centre pS pB pE)) < 0
          then 2 * Real.pi - Real.arccos (dot (sub pS (arc3Centre pS pB pE)) (sub pE (arc3Centre pS pB pE))
                / nsq (sub pS (arc3Centre pS pB pE)))
          else Real.arccos (dot (sub pS (arc3Centre pS pB pE)) (sub pE (arc3Centre pS pB pE))
                / nsq (sub pS (arc3Centre pS pB pE)))) := by
  obtain ⟨c1, c2, _⟩ := T_C08_arc3_centre pS pB pE hden
  obtain ⟨C, hC⟩ : ∃ C, C = arc3Centre pS pB pE := ⟨_, rfl⟩
  rw [← hC] at c1 c2 ⊢
  have sym : ∀ u v : Vec ℝ, nsq (sub u v) = nsq (sub v u) := by
    intro u v; simp only [nsq, dot, sub]; ring
  have h2 : nsq (sub pB C) = nsq (sub pS C) := by rw [sym pB C, sym pS C, c1]
  have h3 : nsq (sub pE C) = nsq (sub pS C) := by rw [sym pE C, sym pS C, c2]
  have hnn : ∀ v : Vec ℝ, 0 ≤ nsq v := by
    intro v; simp only [nsq, dot]; nlinarith [mul_self_nonneg v.x, mul_self_nonneg v.y, mul_self_nonneg v.z]
  -- the radius is positive: otherwise the three points coincide and the denominator vanishes
  have hR2 : 0 < nsq (sub pS C) := by
    rcases lt_or_eq_of_le (hnn (sub pS C)) with h | h
    · exact h
    · exfalso
      have ha : nsq (sub pB pS) ≤ 2 * nsq (sub pB C) + 2 * nsq (sub pS C) := by
        have : 2 * nsq (sub pB C) + 2 * nsq (sub pS C) - nsq (sub pB pS)
            = nsq (add (sub pB C) (sub pS C)) := by simp only [nsq, dot, sub, add]; ring
        linarith [hnn (add (sub pB C) (sub pS C))]
      have ha0 : nsq (sub pB pS) = 0 := le_antisymm (by rw [h2, ← h] at ha; linarith) (hnn _)
      have hcs := cauchy_schwarz (sub pB pS) (sub pE pS)
      have hd : arc3Denom pS pB pE = nsq (sub pB pS) * nsq (sub pE pS) - dot (sub pB pS) (sub pE pS) * dot (sub pB pS) (sub pE pS) := rfl
      have hd2 := arc3Denom_eq pS pB pE
      have : arc3Denom pS pB pE = 0 := by
        apply le_antisymm
        · rw [hd, ha0]; nlinarith [mul_self_nonneg (dot (sub pB pS) (sub pE pS))]
        · rw [hd2]; exact hnn _
      exact hden this
  obtain ⟨R, hR⟩ : ∃ R, R = Real.sqrt (nsq (sub pS C)) := ⟨_, rfl⟩
  have hR0 : 0 < R := by rw [hR]; exact Real.sqrt_pos.mpr hR2
  have hRR : R * R = nsq (sub pS C) := by rw [hR]; exact Real.mul_self_sqrt (le_of_lt hR2)
  refine ⟨by rw [← hR]; exact hR0, h3, ?_⟩
  unfold arc3LengthR arc3LengthAt arc3AngleR
  rw [← hC, h3, ← hR, ← hRR]
  -- the cosine is within [-1, 1]: no clipping
  have hcs := cauchy_schwarz (sub pS C) (sub pE C)
  rw [h3, ← hRR] at hcs
  have habs : |dot (sub pS C) (sub pE C)| ≤ R * R := by
    exact abs_le_of_sq_le_sq (by rw [sq, sq]; exact hcs) (by positivity)
  have hq : clipR (dot (sub pS C) (sub pE C) / (R * R)) = dot (sub pS C) (sub pE C) / (R * R) := by
    have hpos : 0 < R * R := by positivity
    have hb := abs_le.mp habs
    unfold clipR
    rw [if_neg (by rw [not_lt, le_div_iff₀ hpos]; linarith), if_neg (by rw [not_lt, div_le_iff₀ hpos]; linarith)]
  rw [hq]
  split <;> ring

/-- **Arc length ≥ chord for every three-point arc** (classic arcs, and Origin / Angle arcs, whose length is `arc_length_3point` of the
    written third point) — over ℝ, for all inputs the guard accepts, whichever way the side test decides:
    `|pE − pS| ≤ arc_length_3point(pS, pB, pE)`.  (`|pE − pS|² = 2R²(1 − cos φ) ≤ R²φ²`, and `2π − φ ≥ φ`.) -/
theorem T_C08_arc3_chord_real (pS pB pE : Vec ℝ) (hden : arc3Denom pS pB pE ≠ 0) :
    Real.sqrt (nsq (sub pE pS)) ≤ arc3LengthR pS pB pE := by
  obtain ⟨hR0, h3, hlen⟩ := T_C08_arc3_length_coords pS pB pE hden
  obtain ⟨C, hC⟩ : ∃ C, C = arc3Centre pS pB pE := ⟨_, rfl⟩
  rw [← hC] at hR0 h3 hlen
  obtain ⟨R, hR⟩ : ∃ R, R = Real.sqrt (nsq (sub pS C)) := ⟨_, rfl⟩
  rw [← hR] at hR0 hlen
  have hR2 : 0 < nsq (sub pS C) := by
    by_contra h
    rw [hR, Real.sqrt_eq_zero_of_nonpos (not_lt.mp h)] at hR0
    exact lt_irrefl _ hR0
  have hRR : R * R = nsq (sub pS C) := by rw [hR]; exact Real.mul_self_sqrt (le_of_lt hR2)
  obtain ⟨q, hq⟩ : ∃ q, q = dot (sub pS C) (sub pE C) / nsq (sub pS C) := ⟨_, rfl⟩
  rw [← hq] at hlen
  have hcs := cauchy_schwarz (sub pS C) (sub pE C)
  rw [h3] at hcs
  have habs : |dot (sub pS C) (sub pE C)| ≤ nsq (sub pS C) :=
    abs_le_of_sq_le_sq (by rw [sq, sq]; exact hcs) (le_of_lt hR2)
  have hb := abs_le.mp habs
  have hq1 : -1 ≤ q := by rw [hq, le_div_iff₀ hR2]; linarith
  have hq2 : q ≤ 1 := by rw [hq, div_le_iff₀ hR2]; linarith
  have hcos : Real.cos (Real.arccos q) = q := Real.cos_arccos hq1 hq2
  have hφ0 := Real.arccos_nonneg q
  have hφπ := Real.arccos_le_pi q
  -- the squared chord
  have hch : nsq (sub pE pS) = 2 * (R * R) * (1 - q) := by
    have e : nsq (sub pE pS) = nsq (sub pE C) + nsq (sub pS C) - 2 * dot (sub pS C) (sub pE C) := by
      simp only [nsq, dot, sub]; ring
    have hd : dot (sub pS C) (sub pE C) = q * nsq (sub pS C) := by rw [hq]; field_simp
    rw [e, h3, hd, hRR]; ring
  have hbound := Real.one_sub_sq_div_two_le_cos (x := Real.arccos q)
  rw [hcos] at hbound
  have hfirst : Real.sqrt (nsq (sub pE pS)) ≤ R * Real.arccos q := by
    have h0 : 0 ≤ R * Real.arccos q := mul_nonneg (le_of_lt hR0) hφ0
    calc Real.sqrt (nsq (sub pE pS)) ≤ Real.sqrt ((R * Real.arccos q) * (R * Real.arccos q)) := by
          apply Real.sqrt_le_sqrt
          rw [hch]
          nlinarith [mul_pos hR0 hR0]
      _ = R * Real.arccos q := Real.sqrt_mul_self h0
  rw [hlen]
  split
  · have : R * Real.arccos q ≤ R * (2 * Real.pi - Real.arccos q) :=
      mul_le_mul_of_nonneg_left (by linarith) (le_of_lt hR0)
    linarith
  · exact hfirst

/-- non-vacuity: three points of a circle of radius 5 about (1, 2, 3) -/
example : arc3Denom (⟨6, 2, 3⟩ : Vec ℝ) ⟨1, 7, 3⟩ ⟨1, -3, 3⟩ ≠ 0 := by
  norm_num [arc3Denom, nsq, dot, sub]

/-- **The angle parametrisation is derived from coordinates.**  Any three points of ℝ³ that the guard of `arc_length_3point` accepts
    are the points at the angles `0 < ψ < θ < 2π` of a circle about the computed centre: there are an orthonormal frame `e1, e2` of
    their plane (`e1 = r1/R`, `e2 = n × e1` with `n` the unit normal `(pB − pS) × (pE − pS)`, so that the third point comes first),
    a radius `r > 0` and the two angles.  Hence the frame theorems `T_C08_arc3_length_real` / `_beyond` / `_iff` speak about **every**
    non-degenerate input. -/
theorem T_C08_arc3_param (pS pB pE : Vec ℝ) (hden : arc3Denom pS pB pE ≠ 0) :
    ∃ (e1 e2 : Vec ℝ) (r ψ θ : ℝ), Frame e1 e2 ∧ 0 < r ∧ 0 < ψ ∧ ψ < θ ∧ θ < 2 * Real.pi ∧
      pS = circAt (arc3Centre pS pB pE) e1 e2 r 0 ∧ pB = circAt (arc3Centre pS pB pE) e1 e2 r ψ ∧
      pE = circAt (arc3Centre pS pB pE) e1 e2 r θ := by
  obtain ⟨c1, c2, c3⟩ := T_C08_arc3_centre pS pB pE hden
  obtain ⟨hR0, h3, _⟩ := T_C08_arc3_length_coords pS pB pE hden
  obtain ⟨C, hC⟩ : ∃ C, C = arc3Centre pS pB pE := ⟨_, rfl⟩
  rw [← hC] at c1 c2 c3 hR0 h3 ⊢
  have sym : ∀ u v : Vec ℝ, nsq (sub u v) = nsq (sub v u) := by
    intro u v; simp only [nsq, dot, sub]; ring
  have h2 : nsq (sub pB C) = nsq (sub pS C) := by rw [sym pB C, sym pS C, c1]
  have hnn : ∀ v : Vec ℝ, 0 ≤ nsq v := by
    intro v; simp only [nsq, dot]; nlinarith [mul_self_nonneg v.x, mul_self_nonneg v.y, mul_self_nonneg v.z]
  obtain ⟨R, hR⟩ : ∃ R, R = Real.sqrt (nsq (sub pS C)) := ⟨_, rfl⟩
  rw [← hR] at hR0
  have hR2 : 0 < nsq (sub pS C) := by
    by_contra h
    rw [hR, Real.sqrt_eq_zero_of_nonpos (not_lt.mp h)] at hR0
    exact lt_irrefl _ hR0
  have hRR : R * R = nsq (sub pS C) := by rw [hR]; exact Real.mul_self_sqrt (le_of_lt hR2)
  have hRne : R ≠ 0 := ne_of_gt hR0
  -- the unit normal
  obtain ⟨N, hN⟩ : ∃ N, N = cross (sub pB pS) (sub pE pS) := ⟨_, rfl⟩
  have hNN : nsq N = arc3Denom pS pB pE := by rw [hN, arc3Denom_eq]
  have hN2 : 0 < nsq N := lt_of_le_of_ne (hnn N) (by rw [hNN]; exact Ne.symm hden)
  obtain ⟨m, hm⟩ : ∃ m, m = Real.sqrt (nsq N) := ⟨_, rfl⟩
  have hm0 : 0 < m := by rw [hm]; exact Real.sqrt_pos.mpr hN2
  have hmm : m * m = nsq N := by rw [hm]; exact Real.mul_self_sqrt (le_of_lt hN2)
  have hmne : m ≠ 0 := ne_of_gt hm0
  have hS_N : dot (sub pS C) N = 0 := by
    have : dot (sub pS C) N = - dot (sub C pS) N := by simp only [dot, sub]; ring
    rw [this, hN, c3]; ring
  have hB_N : dot (sub pB C) N = 0 := by
    have : dot (sub pB C) N = dot (sub pS C) N := by rw [hN]; simp only [dot, sub, cross]; ring
    rw [this, hS_N]
  have hE_N : dot (sub pE C) N = 0 := by
    have : dot (sub pE C) N = dot (sub pS C) N := by rw [hN]; simp only [dot, sub, cross]; ring
    rw [this, hS_N]
  obtain ⟨n, hn⟩ : ∃ n, n = smul (1 / m) N := ⟨_, rfl⟩
  obtain ⟨e1, he1⟩ : ∃ e1, e1 = smul (1 / R) (sub pS C) := ⟨_, rfl⟩
  have hsm : ∀ (k : ℝ) (v : Vec ℝ), nsq (smul k v) = k * k * nsq v := by
    intro k v; simp only [nsq, dot, smul]; ring
  have hdd : ∀ (a b : ℝ) (u v : Vec ℝ), dot (smul a u) (smul b v) = a * b * dot u v := by
    intro a b u v; simp only [dot, smul]; ring
  have hds : ∀ (b : ℝ) (u v : Vec ℝ), dot u (smul b v) = b * dot u v := by
    intro b u v; simp only [dot, smul]; ring
  have hcomm : ∀ u v : Vec ℝ, dot u v = dot v u := by intro u v; simp only [dot]; ring
  have hn1 : nsq n = 1 := by rw [hn, hsm, ← hmm]; field_simp
  have h1 : nsq e1 = 1 := by rw [he1, hsm, ← hRR]; field_simp
  have hd : dot n e1 = 0 := by rw [hn, he1, hdd, hcomm N, hS_N]; ring
  have hSn : dot (sub pS C) n = 0 := by rw [hn, hds, hS_N]; ring
  have hBn : dot (sub pB C) n = 0 := by rw [hn, hds, hB_N]; ring
  have hEn : dot (sub pE C) n = 0 := by rw [hn, hds, hE_N]; ring
  have hF := frame_of_normal h1 hn1 hd
  have dS := decompose h1 hn1 hd (sub pS C) hSn
  have dB := decompose h1 hn1 hd (sub pB C) hBn
  have dE := decompose h1 hn1 hd (sub pE C) hEn
  have back : ∀ p : Vec ℝ, p = add C (sub p C) := by
    intro p; apply Vec.ext' <;> simp only [add, sub] <;> ring
  -- the start point is at the angle 0
  have hS1 : dot (sub pS C) e1 = R := by
    rw [he1, hds]; show 1 / R * nsq (sub pS C) = R; rw [← hRR]; field_simp
  have hS2 : dot (sub pS C) (cross n e1) = 0 := by
    rw [he1]; simp only [dot, cross, smul]; ring
  have hS : pS = circAt C e1 (cross n e1) R 0 := by
    unfold circAt circPt
    rw [Real.cos_zero, Real.sin_zero, mul_one, mul_zero]
    rw [hS1, hS2] at dS
    rw [← dS]; exact back pS
  -- angles of the other two points
  have angle_of : ∀ p : Vec ℝ, nsq (sub p C) = nsq (sub pS C) →
      p = add C (comb e1 (cross n e1) (dot (sub p C) e1) (dot (sub p C) (cross n e1))) →
      ∃ α, 0 ≤ α ∧ α < 2 * Real.pi ∧ p = circAt C e1 (cross n e1) R α := by
    intro p hp hdec
    have hsq := nsq_comb hF (dot (sub p C) e1) (dot (sub p C) (cross n e1))
    have idn : ∀ X : Vec ℝ, sub (add C X) C = X := by
      intro X; apply Vec.ext' <;> simp only [add, sub] <;> ring
    have hrep : sub p C = comb e1 (cross n e1) (dot (sub p C) e1) (dot (sub p C) (cross n e1)) :=
      (congrArg (fun q => sub q C) hdec).trans (idn _)
    rw [← hrep, hp, ← hRR] at hsq
    have hunit : (dot (sub p C) e1 / R) * (dot (sub p C) e1 / R)
        + (dot (sub p C) (cross n e1) / R) * (dot (sub p C) (cross n e1) / R) = 1 := by
      field_simp; linarith
    obtain ⟨α, h0, h2π, hc, hs⟩ := exists_angle hunit
    refine ⟨α, h0, h2π, ?_⟩
    unfold circAt circPt
    rw [hc, hs, mul_div_cancel₀ _ hRne, mul_div_cancel₀ _ hRne]
    exact hdec
  obtain ⟨ψ, hψ0, hψ2, hB⟩ := angle_of pB h2 (by rw [← dB]; exact back pB)
  obtain ⟨θ, hθ0, hθ2, hE⟩ := angle_of pE h3 (by rw [← dE]; exact back pE)
  -- orientation: the normal was taken from (pB − pS) × (pE − pS)
  have hk : cross (sub (circAt C e1 (cross n e1) R ψ) (circAt C e1 (cross n e1) R 0))
      (sub (circAt C e1 (cross n e1) R θ) (circAt C e1 (cross n e1) R 0))
      = smul ((R * Real.cos ψ - R * Real.cos 0) * (R * Real.sin θ - R * Real.sin 0)
          - (R * Real.sin ψ - R * Real.sin 0) * (R * Real.cos θ - R * Real.cos 0)) n := by
    unfold circAt
    rw [sub_circPt, sub_circPt, cross_comb, cross_e1_e2 h1 hd]
  rw [← hB, ← hS, ← hE, ← hN] at hk
  have hNn : N = smul m n := by
    rw [hn]; apply Vec.ext' <;> simp only [smul] <;> field_simp
  have hkm : (R * Real.cos ψ - R * Real.cos 0) * (R * Real.sin θ - R * Real.sin 0)
      - (R * Real.sin ψ - R * Real.sin 0) * (R * Real.cos θ - R * Real.cos 0) = m := by
    have hsn : ∀ k : ℝ, dot (smul k n) n = k := by
      intro k; rw [hcomm, hds, show dot n n = 1 from hn1]; ring
    have e : dot N n = dot (smul ((R * Real.cos ψ - R * Real.cos 0) * (R * Real.sin θ - R * Real.sin 0)
        - (R * Real.sin ψ - R * Real.sin 0) * (R * Real.cos θ - R * Real.cos 0)) n) n := by rw [← hk]
    rw [hsn] at e
    have e2 : dot N n = m := by rw [hNn]; exact hsn m
    linarith
  rw [Real.cos_zero, Real.sin_zero] at hkm
  have hD : 0 < (Real.cos ψ - 1) * Real.sin θ - Real.sin ψ * (Real.cos θ - 1) := by
    have : R * R * ((Real.cos ψ - 1) * Real.sin θ - Real.sin ψ * (Real.cos θ - 1)) = m := by rw [← hkm]; ring
    have hpos : 0 < R * R := by positivity
    by_contra hneg
    have := mul_nonpos_of_nonneg_of_nonpos (le_of_lt hpos) (not_lt.mp hneg)
    linarith
  obtain ⟨hψpos, hψθ⟩ := circ_D_order hψ0 hψ2 hθ0 hθ2 hD
  exact ⟨e1, cross n e1, R, ψ, θ, hF, hR0, hψpos, hψθ, hθ2, hS, hB, hE⟩

/-- **Length = radius × swept angle for every input, with the exact exception.**  For any three points the guard accepts there are a
    radius `r` and angles `0 < ψ < θ < 2π` (third point, end point, measured from the start point in the sense in which the third point
    comes first) such that `arc_length_3point` over ℝ returns `r·θ` — the length of the arc from the start through the third point to the
    end — if and only if `θ ≤ π ∨ ψ < π`; otherwise (known finding) it returns `r·(2π − θ)`. -/
theorem T_C08_arc3_length_all (pS pB pE : Vec ℝ) (hden : arc3Denom pS pB pE ≠ 0) :
    ∃ (r ψ θ : ℝ), 0 < r ∧ 0 < ψ ∧ ψ < θ ∧ θ < 2 * Real.pi ∧
      nsq (sub pS (arc3Centre pS pB pE)) = r * r ∧
      (arc3LengthR pS pB pE = r * θ ↔ (θ ≤ Real.pi ∨ ψ < Real.pi)) ∧
      (¬ (θ ≤ Real.pi ∨ ψ < Real.pi) → arc3LengthR pS pB pE = r * (2 * Real.pi - θ)) := by
  obtain ⟨e1, e2, r, ψ, θ, hF, hr, hψ, hψθ, hθ, hS, hB, hE⟩ := T_C08_arc3_param pS pB pE hden
  obtain ⟨C, hC⟩ : ∃ C, C = arc3Centre pS pB pE := ⟨_, rfl⟩
  rw [← hC] at hS hB hE ⊢
  refine ⟨r, ψ, θ, hr, hψ, hψθ, hθ, ?_, ?_, ?_⟩
  · have : nsq (sub (circAt C e1 e2 r 0) C) = r * r := by
      unfold circAt
      rw [sub_circPt_C, nsq_comb hF, Real.cos_zero, Real.sin_zero]; ring
    rw [← hS] at this
    exact this
  · have := T_C08_arc3_length_real_iff (C := C) hF hr hψ hψθ hθ
    rw [← hS, ← hB, ← hE] at this
    exact this
  · intro hn
    rw [not_or, not_le, not_lt] at hn
    have := (T_C08_arc3_length_real_beyond (C := C) hF hr hn.2 hψθ hθ).1
    rw [← hS, ← hB, ← hE] at this
    exact this

/-- **The reported length does not depend on where the arc is** (over ℝ): translating the three points by any vector `t` translates the
    computed centre by `t` and leaves `arc_length_3point` unchanged.  (In floating point this holds up to `eps·|offset|/radius`; the
    `far-from-origin` stream checks that, tester change C08_q2.) -/
theorem T_C08_arc3_translation_real (pS pB pE t : Vec ℝ) :
    arc3Centre (add pS t) (add pB t) (add pE t) = add (arc3Centre pS pB pE) t ∧
    arc3LengthR (add pS t) (add pB t) (add pE t) = arc3LengthR pS pB pE := by
  have hs : ∀ p q : Vec ℝ, sub (add p t) (add q t) = sub p q := by
    intro p q; apply Vec.ext' <;> simp only [add, sub] <;> ring
  have hc : arc3Centre (add pS t) (add pB t) (add pE t) = add (arc3Centre pS pB pE) t := by
    unfold arc3Centre arc3Denom
    simp only [hs]
    apply Vec.ext' <;> simp only [add, smul, unitVec] <;> ring
  refine ⟨hc, ?_⟩
  unfold arc3LengthR arc3LengthAt
  rw [hc, hs, hs, hs]

/-- **The reported length does not depend on the orientation of the arc in space** (over ℝ): under any linear isometry `Q` (rotation,
    reflection) applied to the three points the computed centre is mapped by `Q` and `arc_length_3point` is unchanged — the centre and the
    side test are functions of dot products of differences only.  With `T_C08_arc3_translation_real`: the length depends only on the
    circle and the position of the points on it, not on where or how the circle lies in space. -/
theorem T_C08_arc3_isometry_real (Q : Vec ℝ → Vec ℝ) (hQ : LinIso Q) (pS pB pE : Vec ℝ) :
    arc3Centre (Q pS) (Q pB) (Q pE) = Q (arc3Centre pS pB pE) ∧
    arc3LengthR (Q pS) (Q pB) (Q pE) = arc3LengthR pS pB pE := by
  have hn : ∀ v, nsq (Q v) = nsq v := fun v => hQ.map_dot v v
  have hden : arc3Denom (Q pS) (Q pB) (Q pE) = arc3Denom pS pB pE := by
    unfold arc3Denom
    simp only [← hQ.map_sub, hn, hQ.map_dot]
  have hc : arc3Centre (Q pS) (Q pB) (Q pE) = Q (arc3Centre pS pB pE) := by
    rw [arc3Centre_dotform, arc3Centre_dotform, hden]
    simp only [← hQ.map_sub, hn, hQ.map_dot]
    simp only [hQ.map_add, hQ.map_smul, hQ.map_sub]
  refine ⟨hc, ?_⟩
  unfold arc3LengthR arc3LengthAt arc3AngleR
  rw [hc]
  simp only [arc3SideTest_dotform, ← hQ.map_sub, hn, hQ.map_dot]

/-- non-vacuity: the quarter turn about the z-axis and the reflection in the x-y plane are linear isometries -/
example : LinIso (fun v : Vec ℝ => ⟨-v.y, v.x, v.z⟩) ∧ LinIso (fun v : Vec ℝ => ⟨v.x, v.y, -v.z⟩) := by
  constructor <;> constructor <;> intros <;> first
    | (apply Vec.ext' <;> simp only [add, sub, smul] <;> ring)
    | (simp only [dot]; ring)

/-! ### round 6d: `ArcEdgeBase.length` — a valid arc edge is always accepted by `arc_length_3point` -/

/-- the denominator of `arc_length_3point(v1, third, v2)` is the squared collinearity measure of `ArcEdgeBase.is_valid`:
    `denom = |cross(arm_1, arm_2)|²` (both are twice the triangle's area, squared) -/
theorem T_C08_denom_valid (p1 p2 M : Vec K) : arc3Denom p1 M p2 = nsq (validCross p1 p2 M) := by
  simp only [arc3Denom, validCross, nsq, dot, cross, sub]; ring

/-- hence, in the executable model: a valid arc edge (`|cross(arm_1, arm_2)| > TOL`) never runs into the `ValueError` of
    `arc_length_3point` (`denom > TOL² > 1e-18`), so `ArcEdgeBase.length` is defined for every arc edge — the arc length when
    valid, the chord otherwise -/
theorem T_C08_valid_accepted (p1 p2 M : V) (h : arcValid p1 p2 M = true) :
    (arc3 p1 M p2).isSome = true ∧ (arcEdgeLength p1 p2 M).isSome = true := by
  have hv : nsq (validCross p1 p2 M) > tol * tol := by
    unfold arcValid at h
    simp only [Bool.and_eq_true, decide_eq_true_eq] at h
    exact h.2
  have hden : arc3Denom p1 M p2 = nsq (validCross p1 p2 M) := T_C08_denom_valid p1 p2 M
  have hte : arc3Eps < tol * tol := by unfold arc3Eps tol; decide +kernel
  have hpos : (0 : Rat) < arc3Eps := by unfold arc3Eps; decide +kernel
  have hnot : ¬ (absR (arc3Denom p1 M p2) < arc3Eps) := by
    have hd : arc3Eps < arc3Denom p1 M p2 := by rw [hden]; exact lt_trans hte hv
    have : ¬ (arc3Denom p1 M p2 < 0) := not_lt.mpr (le_of_lt (lt_trans hpos hd))
    unfold absR; rw [if_neg this]; exact not_lt.mpr (le_of_lt hd)
  have h3 : (arc3 p1 M p2).isSome = true := by
    unfold arc3
    simp only [hnot, if_false, Option.isSome_some]
  refine ⟨h3, ?_⟩
  unfold arcEdgeLength
  rw [if_pos h, Option.isSome_map]
  exact h3

example : arcValid (⟨1, 0, 0⟩ : V) ⟨-1, 0, 0⟩ ⟨0, 1, 0⟩ = true := by decide +kernel

/-- **Every arc edge is at least as long as its chord**, over ℝ, both branches of `ArcEdgeBase.length`: the chord itself when the edge is
    not valid, and `arc_length_3point ≥ chord` (`T_C08_arc3_chord_real`) when it is (a valid edge has `denom ≠ 0` by `T_C08_denom_valid`). -/
theorem T_C08_edge_length_chord_real (valid : Bool) (p1 p2 M : Vec ℝ) (hv : valid = true → nsq (validCross p1 p2 M) ≠ 0) :
    Real.sqrt (nsq (sub p2 p1)) ≤ (if valid then arc3LengthR p1 M p2 else Real.sqrt (nsq (sub p1 p2))) := by
  cases valid with
  | false =>
      simp only [Bool.false_eq_true, if_false]
      apply le_of_eq; congr 1; simp only [nsq, dot, sub]; ring
  | true =>
      simp only [if_true]
      exact T_C08_arc3_chord_real p1 M p2 (by rw [T_C08_denom_valid]; exact hv rfl)

/-! ### round 6: tie to the source text (tables regenerated by `cbv/tables/c08.py` with `ast` on every run)

The translator normalises the source first: docstrings, comments, annotations dropped, parameters (other than `self`) and locals
renamed `v0, v1, …` in order of first appearance — so only statement-level edits (operators, literals, calls, their order) show.
E.g. in `arc_from_theta` `v2` is `angle`; in `arc_from_origin` `v9, v10` are `mag1, mag3`, `v4` is `r_multiplier`. -/

/-- `arc_from_theta`'s guard `if not (0 < abs(angle) < np.pi * 2): raise`: the model's `thetaGuard` is the regenerated chained
    comparison (operators as they stand in the source now) on the operands `0, abs(angle), 2π`, for every angle -/
theorem T_C08_tie_theta_guard (θ : Rat) :
    operandsAt CBV.Gen.c08ThetaCompares 0 = ("0", ["abs(v2)", "np.pi * 2"]) ∧ CBV.Gen.c08ThetaNegated = [true] ∧
    CBV.Gen.c08ThetaCompares.length = 1 ∧
    chain (opsAt CBV.Gen.c08ThetaCompares 0) [0, absR θ, twoPiF] = some (thetaGuard θ) := by
  refine ⟨by decide, by decide, by decide, ?_⟩
  have h : opsAt CBV.Gen.c08ThetaCompares 0 = ["Lt", "Lt"] := by decide
  rw [h]
  simp [chain, cmpOp, thetaGuard]

/-- `arc_length_3point`: the denominator guard `norm(denom) < 1e-18` and the side test `dot(cross(r1,r2), cross(r1,r3)) < 0` are
    the comparisons of the source (operators and operands), the bound of the guard is the double that `1e-18` denotes (`arc3Eps`, exactly), the literals are `1e-18, 0.5, 0.5, -1.0, 1.0, 0, 2` in this order
    (guard, `fact`, half of `vect_a`, the two clip bounds, the side test, `2π − angle`), and `np.clip` has the bounds the model uses -/
theorem T_C08_tie_arc3 (x : Rat) :
    CBV.Gen.c08Arc3Compares.map (fun c => (c.1, c.2.2)) =
      [("norm(v8)", ["1e-18"]), ("np.dot(np.cross(v11, v12), np.cross(v11, v13))", ["0"])] ∧
    CBV.Gen.c08Arc3Numbers = [(1, 1000000000000000000), (1, 2), (1, 2), (-1, 1), (1, 1), (0, 1), (2, 1)] ∧
    CBV.Gen.c08Arc3Clip = [["v11.dot(v13) / (v14 * v15)", "-1.0", "1.0"]] ∧
    arc3Eps = mkRat CBV.Gen.c08Arc3GuardDouble.1 CBV.Gen.c08Arc3GuardDouble.2 ∧
    chain (opsAt CBV.Gen.c08Arc3Compares 0) [absR x, arc3Eps] = some (decide (absR x < arc3Eps)) ∧
    chain (opsAt CBV.Gen.c08Arc3Compares 1) [x, 0] = some (decide (x < 0)) ∧
    CBV.Gen.c08LengthCall = [["self.vertex_1.position", "self.third_point.position", "self.vertex_2.position"]] := by
  refine ⟨by decide, by decide, by decide, by decide +kernel, ?_, ?_, by decide⟩
  · have h : opsAt CBV.Gen.c08Arc3Compares 0 = ["Lt"] := by decide
    rw [h]; simp [chain, cmpOp]
  · have h : opsAt CBV.Gen.c08Arc3Compares 1 = ["Lt"] := by decide
    rw [h]; simp [chain, cmpOp]

/-- `arc_from_origin`: `needs_adjust = abs(mag1 - mag3) > constants.TOL`, forced by `r_multiplier != 1`; literals `1.001`, `0.5`,
    `0.25`, `** 0.5` in source order; defaults `adjust_center=True, r_multiplier=1.0`; one recursion with `adjust_center=False`;
    the result is `arc_mid(axis, center, p1, p2)` = `divide_arc(…, 1)[0]` with `count + 2` samples and the slice `[1:-1]` -/
theorem T_C08_tie_origin (m1 m3 mult : Rat) :
    CBV.Gen.c08OriginCompares.map (fun c => (c.1, c.2.2)) = [("abs(v9 - v10)", ["constants.TOL"]), ("v4", ["1"])] ∧
    CBV.Gen.c08OriginNumbers = [(1, 1), (1, 2), (1, 1), (1001, 1000), (1, 2), (1, 2), (2, 1), (1, 4), (2, 1), (1, 2), (2, 1)] ∧
    CBV.Gen.c08OriginDefaults = [("v3", "True"), ("v4", "1.0")] ∧
    CBV.Gen.c08OriginRecursion = [["v5", "v6", "v15", "False"]] ∧
    CBV.Gen.c08OriginArcMid = [["v12", "v2", "v0", "v1"]] ∧
    CBV.Gen.c08ArcMidCall = [["v0", "v1", "v2", "v3", "1"]] ∧
    CBV.Gen.c08DivideArcNumbers = [(2, 1), (1, 1), (-1, 1)] ∧
    chain (opsAt CBV.Gen.c08OriginCompares 0) [absR (m1 - m3), tol] = some (decide (absR (m1 - m3) > tol)) ∧
    chain (opsAt CBV.Gen.c08OriginCompares 1) [mult, 1] = some (decide (mult ≠ 1)) := by
  refine ⟨by decide, by decide, by decide, by decide, by decide, by decide, by decide, ?_, ?_⟩
  · have h : opsAt CBV.Gen.c08OriginCompares 0 = ["Gt"] := by decide
    rw [h]; simp [chain, cmpOp]
  · have h : opsAt CBV.Gen.c08OriginCompares 1 = ["NotEq"] := by decide
    rw [h]; simp [chain, cmpOp]

/-- `ArcEdgeBase.is_valid`: `abs(norm(cross(arm_1, arm_2))) > constants.TOL` — the model's `arcValid` compares the squares with the
    same operator -/
theorem T_C08_tie_valid (x : Rat) :
    CBV.Gen.c08ValidCompares.map (fun c => (c.1, c.2.2)) = [("abs(f.norm(np.cross(v0, v1)))", ["constants.TOL"])] ∧
    chain (opsAt CBV.Gen.c08ValidCompares 0) [x, tol * tol] = some (decide (x > tol * tol)) := by
  refine ⟨by decide, ?_⟩
  have h : opsAt CBV.Gen.c08ValidCompares 0 = ["Gt"] := by decide
  rw [h]; simp [chain, cmpOp]

/-! ### every polyline is at least as long as its chord -/

/-- `polyline_length` (sum of the segment lengths, each a witnessed square root) is non-negative and its square is at
    least the squared distance of the first and the last point — for every point list and every witness list
    (`SplineEdge`, `PolyLineEdge`, `OnCurveEdge`/`DiscreteCurve` lengths are polyline lengths from vertex 1 to vertex 2).
    For two points the polyline length *is* the chord (line and project edges). -/
theorem T_C08_chord (pts : List (Vec K)) (ds : List K) (first last : Vec K) (h : SegWit pts ds)
    (hf : pts.head? = some first) (hl : pts.getLast? = some last) :
    0 ≤ polyLen ds ∧ nsq (sub first last) ≤ polyLen ds * polyLen ds :=
  chord_aux pts ds last h hl first hf

example : SegWit ([⟨0, 0, 0⟩, ⟨3, 4, 0⟩, ⟨3, 4, 12⟩] : List (Vec Rat)) [5, 12] ∧
    nsq (sub (⟨0, 0, 0⟩ : Vec Rat) ⟨3, 4, 12⟩) = 13 * 13 ∧ polyLen ([5, 12] : List Rat) = 17 := by
  norm_num [SegWit, nsq, dot, sub, polyLen]

end CBV.C08
