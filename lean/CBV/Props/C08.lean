/- C08 — property theorems.  Stub. -/
import CBV.Model.C08

namespace CBV.C08

end CBV.C08
