/-
C07 — property theorems.  Curved-edge entries are unique, sit on real block edges, are kept
exactly when valid, the first definition wins, and every entry is written in the direction its
data was specified for — on all 12 positions and for faces used as given, inverted, shifted or
re-oriented.  Tables (`beamOrder`, `c07EdgeDir`, `c07OpBeams`, `edgePairs`, `c07Reversing`,
`c07Kinds`) are regenerated from the source on every run.
-/
import CBV.Model.C07
import CBV.Lemmas.C07
import CBV.Lemmas.C07Face
import Mathlib.Tactic.Ring
import Mathlib.Tactic.Linarith
import Mathlib.Algebra.Order.Field.Rat

namespace CBV.C07

open CBV.C10 (Face)

/-! ### the 12 positions: tables of the current source -/

/-- blockMesh corner numbering: corner `c` has local coordinates (x, y, z) ∈ {0,1}³ -/
def coord (c : Nat) : Bool × Bool × Bool :=
  (c % 4 == 1 || c % 4 == 2, c % 4 == 2 || c % 4 == 3, c ≥ 4)

/-- two corners are joined by an edge of the hexahedron iff they differ in exactly one coordinate -/
def isHexEdge (c1 c2 : Nat) : Bool :=
  let a := coord c1; let b := coord c2
  ((if a.1 != b.1 then 1 else 0) + (if a.2.1 != b.2.1 then 1 else 0) + (if a.2.2 != b.2.2 then 1 else 0)) == 1

/-- a list of directed beams is good when every beam is the directed pair of its slot
    (bottom i: i → i+1 mod 4, top i: i+4 → (i+1 mod 4)+4, side i: i → i+4) and every one of the
    12 slots occurs exactly once -/
def beamsOk (bs : List (Nat × Nat × Nat)) : Bool :=
  bs.all (fun x => decide (x.2.2 < 12) && (slotPair x.2.2 == (x.1, x.2.1))) &&
  (List.range 12).all (fun s => (bs.filter (fun x => x.2.2 == s)).length == 1) &&
  bs.length == 12

def directedOk : Bool :=
  match directedBeams with
  | some bs => beamsOk bs
  | none => false

/-- **all 12 positions**: on the tables of the current source, `add_from_operation` (with
    `Operation.edges`, `Frame.get_all_beams`, `tools.edge_map`) visits every slot exactly once and
    pairs its datum with the directed corner pair the datum is specified for — including the
    closing edges 3 → 0 and 7 → 4. -/
theorem T_C07_direction_table : directedOk = true := by decide

/-- the 12 directed slot pairs are exactly the 12 edges of the blockMesh hexahedron, each once,
    and they are pairs `Frame.add_beam` accepts (generated `EDGE_PAIRS`) -/
theorem T_C07_slots_are_hex_edges :
    (∀ s ∈ List.range 12, isHexEdge (slotPair s).1 (slotPair s).2 = true ∧
      validPair (slotPair s).1 (slotPair s).2 = true) ∧
    ((List.range 12).map (fun s => (min (slotPair s).1 (slotPair s).2, max (slotPair s).1 (slotPair s).2))).Nodup ∧
    ∀ a ∈ List.range 8, ∀ b ∈ List.range 8, isHexEdge a b = true →
      ∃ s ∈ List.range 12, slotPair s = (a, b) ∨ slotPair s = (b, a) := by decide

/-- the model's frame (12 `add_beam` calls + enumeration) gives what `Operation.edges
    .get_all_beams()` gives on a probe operation of the current source -/
theorem T_C07_frame_table : allBeams = some CBV.Gen.c07OpBeams := by decide

/-- the kinds whose `EdgeData` class overrides `reverse()` are the direction-dependent kinds of the
    model, and the factory knows exactly the model's kinds -/
theorem T_C07_kind_tables :
    CBV.Gen.c07Reversing = (Kind.all.filter Kind.dirDep).map Kind.name ∧
    (∀ k ∈ Kind.all, k.name ∈ CBV.Gen.c07Kinds.map (·.1)) ∧
    CBV.Gen.c07Kinds.length = Kind.all.length := by decide

theorem directed_some : ∃ bs, directedBeams = some bs ∧ beamsOk bs = true := by
  have h := T_C07_direction_table
  unfold directedOk at h
  split at h
  · exact ⟨_, by assumption, h⟩
  · cases h

theorem beamsOk_mem {bs : List (Nat × Nat × Nat)} (h : beamsOk bs = true) {x : Nat × Nat × Nat} (hx : x ∈ bs) :
    x.2.2 < 12 ∧ slotPair x.2.2 = (x.1, x.2.1) := by
  unfold beamsOk at h
  simp only [Bool.and_eq_true, List.all_eq_true, decide_eq_true_eq, beq_iff_eq] at h
  exact h.1.1 x hx

theorem beamsOk_slot {bs : List (Nat × Nat × Nat)} (h : beamsOk bs = true) {s : Nat} (hs : s < 12) :
    ∃ x ∈ bs, x.2.2 = s := by
  unfold beamsOk at h
  simp only [Bool.and_eq_true, List.all_eq_true, beq_iff_eq] at h
  have h1 := h.1.2 s (List.mem_range.mpr hs)
  have : 0 < (bs.filter (fun x => x.2.2 == s)).length := by omega
  obtain ⟨x, hx⟩ := List.exists_mem_of_length_pos this
  rw [List.mem_filter] at hx
  exact ⟨x, hx.1, by simpa using hx.2⟩

/-- the request a slot of an operation stands for -/
def slotReq (o : ROp) (s : Nat) : Entry :=
  ⟨o.verts.getD (slotPair s).1 0, o.verts.getD (slotPair s).2 0, o.data.getD s lineDatum⟩

theorem mem_reqsOfOp {bs : List (Nat × Nat × Nat)} (h : beamsOk bs = true) {o : ROp} {e : Entry} :
    e ∈ reqsOfOp bs o ↔ ∃ s, s < 12 ∧ e = slotReq o s := by
  unfold reqsOfOp slotReq
  constructor
  · intro he
    rw [List.mem_map] at he
    obtain ⟨x, hx, rfl⟩ := he
    obtain ⟨h1, h2⟩ := beamsOk_mem h hx
    exact ⟨x.2.2, h1, by rw [h2]⟩
  · rintro ⟨s, hs, rfl⟩
    obtain ⟨x, hx, rfl⟩ := beamsOk_slot h hs
    rw [List.mem_map]
    obtain ⟨_, h2⟩ := beamsOk_mem h hx
    exact ⟨x, hx, by rw [h2]⟩

theorem mem_allReqs {bs : List (Nat × Nat × Nat)} (h : beamsOk bs = true) {ops : List ROp} {e : Entry} :
    e ∈ allReqs bs ops ↔ ∃ o ∈ ops, ∃ s, s < 12 ∧ e = slotReq o s := by
  unfold allReqs
  rw [List.mem_flatMap]
  constructor
  · rintro ⟨o, ho, he⟩; exact ⟨o, ho, (mem_reqsOfOp h).mp he⟩
  · rintro ⟨o, ho, he⟩; exact ⟨o, ho, (mem_reqsOfOp h).mpr he⟩

/-! ### the edges section, for every list of operations (all assemblies, all histories of `add`) -/

/-- **unique**: no two entries join the same two vertices (in either order) -/
theorem T_C07_unique (pos : Nat → V3) (bs : List (Nat × Nat × Nat)) (ops : List ROp) :
    (asmEdges pos bs ops).Pairwise (fun e f => samePair e.v1 e.v2 f.v1 f.v2 = false) :=
  run_distinct (List.Pairwise.nil)

/-- **on a block edge, correctly directed**: every entry is the datum of one of the 12 slots of
    some operation, written between that operation's vertices at the slot's directed corner pair
    (first vertex = corner the datum starts from), and that pair is an edge of the hexahedron -/
theorem T_C07_direction (pos : Nat → V3) (bs : List (Nat × Nat × Nat)) (hbs : beamsOk bs = true)
    (ops : List ROp) (e : Entry) (he : e ∈ asmEdges pos bs ops) :
    ∃ o ∈ ops, ∃ s, s < 12 ∧ e.v1 = o.verts.getD (slotPair s).1 0 ∧ e.v2 = o.verts.getD (slotPair s).2 0 ∧
      e.d = o.data.getD s lineDatum ∧ isHexEdge (slotPair s).1 (slotPair s).2 = true := by
  rcases run_mem_src he with h | ⟨h, _⟩
  · cases h
  · obtain ⟨o, ho, s, hs, rfl⟩ := (mem_allReqs hbs).mp h
    exact ⟨o, ho, s, hs, rfl, rfl, rfl, (T_C07_slots_are_hex_edges.1 s (List.mem_range.mpr hs)).1⟩

theorem T_C07_onblock (pos : Nat → V3) (bs : List (Nat × Nat × Nat)) (hbs : beamsOk bs = true)
    (ops : List ROp) (e : Entry) (he : e ∈ asmEdges pos bs ops) :
    ∃ o ∈ ops, ∃ a b, isHexEdge a b = true ∧ e.v1 = o.verts.getD a 0 ∧ e.v2 = o.verts.getD b 0 := by
  obtain ⟨o, ho, s, _, h1, h2, _, h4⟩ := T_C07_direction pos bs hbs ops e he
  exact ⟨o, ho, _, _, h4, h1, h2⟩

/-- **omitted**: no entry is a line, joins two vertices closer than TOL, or is an arc whose three
    points are collinear within TOL (what `Edge.is_valid` / `ArcEdgeBase.is_valid` reject) -/
theorem T_C07_omitted (pos : Nat → V3) (bs : List (Nat × Nat × Nat)) (ops : List ROp) (e : Entry)
    (he : e ∈ asmEdges pos bs ops) :
    e.d.kind ≠ .line ∧ ¬ (V3.norm2 (pos e.v1 - pos e.v2) < tol2) ∧
      ∀ p, e.d.kind.isArc = true → e.d.third = some p →
        V3.norm2 (V3.cross (pos e.v1 - p) (pos e.v2 - p)) > tol2 := by
  rcases run_mem_src he with h | ⟨_, hv⟩
  · cases h
  · unfold valid at hv
    split at hv
    · cases hv
    · split at hv
      · cases hv
      · refine ⟨by assumption, by assumption, ?_⟩
        intro p hp ht
        rw [hp, ht] at hv
        simpa using hv

/-- **kept, exactly once**: a slot whose datum is valid (non-line, non-zero length, non-collinear)
    has exactly one entry on its vertex pair -/
theorem T_C07_kept (pos : Nat → V3) (bs : List (Nat × Nat × Nat)) (hbs : beamsOk bs = true)
    (ops : List ROp) (o : ROp) (ho : o ∈ ops) (s : Nat) (hs : s < 12) (hv : valid pos (slotReq o s) = true) :
    ∃ e ∈ asmEdges pos bs ops, e.same (slotReq o s) = true ∧
      ∀ f ∈ asmEdges pos bs ops, f.same (slotReq o s) = true → f = e := by
  have hm : slotReq o s ∈ allReqs bs ops := (mem_allReqs hbs).mpr ⟨o, ho, s, hs, rfl⟩
  obtain ⟨e, he, hse⟩ := run_kept_mem (pos := pos) (es := []) hm hv
  refine ⟨e, he, hse, ?_⟩
  intro f hf hsf
  have hd : Distinct (asmEdges pos bs ops) := run_distinct (List.Pairwise.nil)
  exact distinct_unique hd hf he (Entry.same_trans hsf (by rw [Entry.same_comm]; exact hse))

/-- **first definition wins** (request level): in any sequence of `EdgeList.add` calls, a valid
    request that no earlier valid request shares its vertex pair with is written as it is — its own
    data, its own direction -/
theorem T_C07_first_wins (pos : Nat → V3) (pre post : List Entry) (r : Entry) (hv : valid pos r = true)
    (hpre : ∀ q ∈ pre, valid pos q = true → q.same r = false) :
    r ∈ run pos (pre ++ r :: post) [] :=
  run_first_wins hv (by intro q hq; cases hq) hpre

/-- … and conversely every entry is the first valid request for its vertex pair: later
    re-definitions (by the same or another operation, in either direction) are ignored -/
theorem T_C07_entries_are_first (pos : Nat → V3) (rs : List Entry) (e : Entry) (he : e ∈ run pos rs []) :
    ∃ pre post, rs = pre ++ e :: post ∧ valid pos e = true ∧
      ∀ q ∈ pre, valid pos q = true → q.same e = false := by
  rcases run_char he with h | ⟨pre, post, h1, h2, _, h4⟩
  · cases h
  · exact ⟨pre, post, h1, h2, h4⟩

/-- **first definition wins** (operation level): when no earlier operation validly defines the
    vertex pair of a valid slot and the operation itself defines it only there, the slot's datum is
    the entry, in the slot's direction — whatever later operations say -/
theorem T_C07_first_wins_op (pos : Nat → V3) (bs : List (Nat × Nat × Nat)) (hbs : beamsOk bs = true)
    (pre post : List ROp) (o : ROp) (s : Nat) (hs : s < 12) (hv : valid pos (slotReq o s) = true)
    (hpre : ∀ q ∈ allReqs bs pre, valid pos q = true → q.same (slotReq o s) = false)
    (hown : ∀ t, t < 12 → valid pos (slotReq o t) = true → (slotReq o t).same (slotReq o s) = true →
      slotReq o t = slotReq o s) :
    slotReq o s ∈ asmEdges pos bs (pre ++ o :: post) := by
  unfold asmEdges allReqs
  rw [List.flatMap_append, List.flatMap_cons, run_append, run_append]
  apply run_mono
  apply run_sole ((mem_reqsOfOp hbs).mpr ⟨s, hs, rfl⟩) hv
  · intro q hq
    rcases run_mem_src hq with h | ⟨h, hvq⟩
    · cases h
    · exact hpre q h hvq
  · intro q hq hvq hsq
    obtain ⟨t, ht, rfl⟩ := (mem_reqsOfOp hbs).mp hq
    exact hown t ht hvq hsq

/-! non-vacuity: the hypotheses hold for the real tables and for concrete operations -/

example : beamsOk (directedBeams.getD []) = true := by decide

/-- a unit cube with a spline on the closing bottom edge (slot 3, 3 → 0) and an arc on side edge 1 -/
def exPos : Nat → V3 := fun v =>
  [⟨0, 0, 0⟩, ⟨1, 0, 0⟩, ⟨1, 1, 0⟩, ⟨0, 1, 0⟩, ⟨0, 0, 1⟩, ⟨1, 0, 1⟩, ⟨1, 1, 1⟩, ⟨0, 1, 1⟩].getD v V3.zero

def exSpline : Datum := { kind := .spline, tag := 1, pts := [⟨-1/2, 3/4, 0⟩, ⟨-1/2, 1/2, 0⟩] }
def exArc : Datum := { kind := .arc, tag := 2, third := some ⟨3/2, 0, 1/2⟩ }

def exOp : ROp :=
  { verts := [0, 1, 2, 3, 4, 5, 6, 7],
    data := [lineDatum, lineDatum, lineDatum, exSpline, lineDatum, lineDatum, lineDatum, lineDatum,
             lineDatum, exArc, lineDatum, lineDatum] }

example : valid exPos (slotReq exOp 3) = true ∧ valid exPos (slotReq exOp 9) = true := by decide +kernel

/-- the closing edge is written `spline 3 0 (…)`, the side edge `arc 1 5 (…)` -/
example : asmEdges exPos (directedBeams.getD []) [exOp] = [⟨3, 0, exSpline⟩, ⟨1, 5, exArc⟩] := by
  decide +kernel

/-! ### faces used as given, inverted, shifted, re-oriented -/

/-- **inverted**: after `Face.invert` every datum joins the same two points the other way round and
    is reversed (spline / polyLine points flipped, angle negated), so it describes the same curve -/
theorem T_C07_invert {α : Type} [Inhabited α] (a b c d : α) (e0 e1 e2 e3 : Datum) :
    dconn (faceInvert (⟨[a, b, c, d], [e0, e1, e2, e3]⟩ : Face α Datum)) =
      [flipC (c, d, e2), flipC (b, c, e1), flipC (a, b, e0), flipC (d, a, e3)] ∧
    dconn (⟨[a, b, c, d], [e0, e1, e2, e3]⟩ : Face α Datum) = [(a, b, e0), (b, c, e1), (c, d, e2), (d, a, e3)] :=
  ⟨rfl, rfl⟩

/-- **shifted**: after `Face.shift k`, for every integer `k`, every datum joins the same two points
    in the same direction, unchanged -/
theorem T_C07_shift {α : Type} [Inhabited α] (f : Face α Datum) (h : Face4 f) (k : Int) :
    (∀ x ∈ dconn (f.shift k), x ∈ dconn f) ∧ (∀ x ∈ dconn f, x ∈ dconn (f.shift k)) := by
  obtain ⟨a, b, c, d, e0, e1, e2, e3, rfl⟩ := face4_cases h
  rcases shift_lit a b c d e0 e1 e2 e3 k with h | h | h | h <;> rw [h] <;>
    simp only [dconn_lit, List.mem_cons, List.not_mem_nil, or_false] <;>
    constructor <;> intro x hx <;> rcases hx with h | h | h | h <;> subst h <;> simp

/-- **re-oriented**: `Face.reorient` is a shift, whatever the distances are -/
theorem T_C07_reorient {α : Type} [Inhabited α] (f : Face α Datum) (h : Face4 f) (dist : α → Rat) :
    (∀ x ∈ dconn (f.reorient dist), x ∈ dconn f) ∧ (∀ x ∈ dconn f, x ∈ dconn (f.reorient dist)) :=
  T_C07_shift f h _

/-- **any sequence of calls**: the face that goes into the operation carries exactly the curves the
    user described — each datum between its two points, either as given or, when its end points are
    swapped, reversed -/
theorem T_C07_face_calls (pos : Nat → V3) (f : Face Nat Datum) (h : Face4 f) (ops : List FaceOp) :
    (∀ x ∈ dconn (applyFaceOps pos f ops), x ∈ dconn f ∨ flipC x ∈ dconn f) ∧
    (∀ x ∈ dconn f, x ∈ dconn (applyFaceOps pos f ops) ∨ flipC x ∈ dconn (applyFaceOps pos f ops)) :=
  (sameCurves_applyOps pos h ops).2

/-- reversing twice gives the datum back; data that do not depend on direction never change -/
theorem T_C07_reverse (d : Datum) :
    d.reverse.reverse = d ∧ d.reverse.kind = d.kind ∧ d.reverse.tag = d.tag ∧
      (d.kind.dirDep = false → d.reverse = d) :=
  ⟨Datum.reverse_reverse d, Datum.reverse_kind d, Datum.reverse_tag d, Datum.reverse_of_not_dirDep d⟩

example : Face4 (⟨[10, 11, 12, 13], [exSpline, lineDatum, exArc, lineDatum]⟩ : Face Nat Datum) := ⟨rfl, rfl⟩

example : dconn (applyFaceOps exPos ⟨[10, 11, 12, 13], [exSpline, lineDatum, exArc, lineDatum]⟩
    [.invert, .shift 1]) =
    [(10, 13, lineDatum), (13, 12, exArc), (12, 11, lineDatum), (11, 10, exSpline.reverse)] := by decide +kernel

end CBV.C07
