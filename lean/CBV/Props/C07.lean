/-
C07 — property theorems.  Curved-edge entries are unique, sit on real block edges, are kept
exactly when valid, the first definition wins, and every entry is written in the direction its
data was specified for — on all 12 positions and for faces used as given, inverted, shifted or
re-oriented.  Tables (`beamOrder`, `c07EdgeDir`, `c07OpBeams`, `edgePairs`, `c07Reversing`,
`c07Kinds`) are regenerated from the source on every run.
-/
import CBV.Model.C07
import CBV.Lemmas.C07
import CBV.Lemmas.C07Face
import CBV.Lemmas.C07Vertex
import CBV.Lemmas.C07Build
import CBV.Lemmas.C10Geo
import Mathlib.Tactic.Ring
import Mathlib.Tactic.Linarith
import Mathlib.Tactic.LinearCombination
import Mathlib.Algebra.Order.Field.Rat
import CBV.Gen.TC07

namespace CBV.C07

open CBV.C10 (Face)

/-! ### the 12 positions: tables of the current source -/

/-- blockMesh corner numbering: corner `c` has local coordinates (x, y, z) ∈ {0,1}³ -/
def coord (c : Nat) : Bool × Bool × Bool :=
  (c % 4 == 1 || c % 4 == 2, c % 4 == 2 || c % 4 == 3, c ≥ 4)

/-- two corners are joined by an edge of the hexahedron iff they differ in exactly one coordinate -/
def isHexEdge (c1 c2 : Nat) : Bool :=
  let a := coord c1; let b := coord c2
  ((if a.1 != b.1 then 1 else 0) + (if a.2.1 != b.2.1 then 1 else 0) + (if a.2.2 != b.2.2 then 1 else 0)) == 1

/-- a list of directed beams is good when every beam is the directed pair of its slot
    (bottom i: i → i+1 mod 4, top i: i+4 → (i+1 mod 4)+4, side i: i → i+4) and every one of the
    12 slots occurs exactly once -/
def beamsOk (bs : List (Nat × Nat × Nat)) : Bool :=
  bs.all (fun x => decide (x.2.2 < 12) && (slotPair x.2.2 == (x.1, x.2.1))) &&
  (List.range 12).all (fun s => (bs.filter (fun x => x.2.2 == s)).length == 1) &&
  bs.length == 12

def directedOk : Bool :=
  match directedBeams with
  | some bs => beamsOk bs
  | none => false

/-- **all 12 positions**: on the tables of the current source, `add_from_operation` (with
    `Operation.edges`, `Frame.get_all_beams`, `tools.edge_map`) visits every slot exactly once and
    pairs its datum with the directed corner pair the datum is specified for — including the
    closing edges 3 → 0 and 7 → 4. -/
theorem T_C07_direction_table : directedOk = true := by decide

/-- the 12 directed slot pairs are exactly the 12 edges of the blockMesh hexahedron, each once,
    and they are pairs `Frame.add_beam` accepts (generated `EDGE_PAIRS`) -/
theorem T_C07_slots_are_hex_edges :
    (∀ s ∈ List.range 12, isHexEdge (slotPair s).1 (slotPair s).2 = true ∧
      validPair (slotPair s).1 (slotPair s).2 = true) ∧
    ((List.range 12).map (fun s => (min (slotPair s).1 (slotPair s).2, max (slotPair s).1 (slotPair s).2))).Nodup ∧
    ∀ a ∈ List.range 8, ∀ b ∈ List.range 8, isHexEdge a b = true →
      ∃ s ∈ List.range 12, slotPair s = (a, b) ∨ slotPair s = (b, a) := by decide

/-- the model's frame (12 `add_beam` calls + enumeration) gives what `Operation.edges
    .get_all_beams()` gives on a probe operation of the current source -/
theorem T_C07_frame_table : allBeams = some CBV.Gen.c07OpBeams := by decide

/-- the kinds whose `EdgeData` class overrides `reverse()` are the direction-dependent kinds of the
    model, and the factory knows exactly the model's kinds -/
theorem T_C07_kind_tables :
    CBV.Gen.c07Reversing = (Kind.all.filter Kind.dirDep).map Kind.name ∧
    (∀ k ∈ Kind.all, k.name ∈ CBV.Gen.c07Kinds.map (·.1)) ∧
    CBV.Gen.c07Kinds.length = Kind.all.length := by decide

theorem directed_some : ∃ bs, directedBeams = some bs ∧ beamsOk bs = true := by
  have h := T_C07_direction_table
  unfold directedOk at h
  split at h
  · exact ⟨_, by assumption, h⟩
  · cases h

theorem beamsOk_mem {bs : List (Nat × Nat × Nat)} (h : beamsOk bs = true) {x : Nat × Nat × Nat} (hx : x ∈ bs) :
    x.2.2 < 12 ∧ slotPair x.2.2 = (x.1, x.2.1) := by
  unfold beamsOk at h
  simp only [Bool.and_eq_true, List.all_eq_true, decide_eq_true_eq, beq_iff_eq] at h
  exact h.1.1 x hx

theorem beamsOk_slot {bs : List (Nat × Nat × Nat)} (h : beamsOk bs = true) {s : Nat} (hs : s < 12) :
    ∃ x ∈ bs, x.2.2 = s := by
  unfold beamsOk at h
  simp only [Bool.and_eq_true, List.all_eq_true, beq_iff_eq] at h
  have h1 := h.1.2 s (List.mem_range.mpr hs)
  have : 0 < (bs.filter (fun x => x.2.2 == s)).length := by omega
  obtain ⟨x, hx⟩ := List.exists_mem_of_length_pos this
  rw [List.mem_filter] at hx
  exact ⟨x, hx.1, by simpa using hx.2⟩

/-- the request a slot of an operation stands for -/
def slotReq (o : ROp) (s : Nat) : Entry :=
  ⟨o.verts.getD (slotPair s).1 0, o.verts.getD (slotPair s).2 0, o.data.getD s lineDatum⟩

theorem mem_reqsOfOp {bs : List (Nat × Nat × Nat)} (h : beamsOk bs = true) {o : ROp} {e : Entry} :
    e ∈ reqsOfOp bs o ↔ ∃ s, s < 12 ∧ e = slotReq o s := by
  unfold reqsOfOp slotReq
  constructor
  · intro he
    rw [List.mem_map] at he
    obtain ⟨x, hx, rfl⟩ := he
    obtain ⟨h1, h2⟩ := beamsOk_mem h hx
    exact ⟨x.2.2, h1, by rw [h2]⟩
  · rintro ⟨s, hs, rfl⟩
    obtain ⟨x, hx, rfl⟩ := beamsOk_slot h hs
    rw [List.mem_map]
    obtain ⟨_, h2⟩ := beamsOk_mem h hx
    exact ⟨x, hx, by rw [h2]⟩

theorem mem_allReqs {bs : List (Nat × Nat × Nat)} (h : beamsOk bs = true) {ops : List ROp} {e : Entry} :
    e ∈ allReqs bs ops ↔ ∃ o ∈ ops, ∃ s, s < 12 ∧ e = slotReq o s := by
  unfold allReqs
  rw [List.mem_flatMap]
  constructor
  · rintro ⟨o, ho, he⟩; exact ⟨o, ho, (mem_reqsOfOp h).mp he⟩
  · rintro ⟨o, ho, he⟩; exact ⟨o, ho, (mem_reqsOfOp h).mpr he⟩

/-! ### the edges section, for every list of operations (all assemblies, all histories of `add`) -/

/-- **unique**: no two entries join the same two vertices (in either order) -/
theorem T_C07_unique (pos : Nat → V3) (bs : List (Nat × Nat × Nat)) (ops : List ROp) :
    (asmEdges pos bs ops).Pairwise (fun e f => samePair e.v1 e.v2 f.v1 f.v2 = false) :=
  run_distinct (List.Pairwise.nil)

/-- **on a block edge, correctly directed**: every entry is the datum of one of the 12 slots of
    some operation, written between that operation's vertices at the slot's directed corner pair
    (first vertex = corner the datum starts from), and that pair is an edge of the hexahedron -/
theorem T_C07_direction (pos : Nat → V3) (bs : List (Nat × Nat × Nat)) (hbs : beamsOk bs = true)
    (ops : List ROp) (e : Entry) (he : e ∈ asmEdges pos bs ops) :
    ∃ o ∈ ops, ∃ s, s < 12 ∧ e.v1 = o.verts.getD (slotPair s).1 0 ∧ e.v2 = o.verts.getD (slotPair s).2 0 ∧
      e.d = o.data.getD s lineDatum ∧ isHexEdge (slotPair s).1 (slotPair s).2 = true := by
  rcases run_mem_src he with h | ⟨h, _⟩
  · cases h
  · obtain ⟨o, ho, s, hs, rfl⟩ := (mem_allReqs hbs).mp h
    exact ⟨o, ho, s, hs, rfl, rfl, rfl, (T_C07_slots_are_hex_edges.1 s (List.mem_range.mpr hs)).1⟩

theorem T_C07_onblock (pos : Nat → V3) (bs : List (Nat × Nat × Nat)) (hbs : beamsOk bs = true)
    (ops : List ROp) (e : Entry) (he : e ∈ asmEdges pos bs ops) :
    ∃ o ∈ ops, ∃ a b, isHexEdge a b = true ∧ e.v1 = o.verts.getD a 0 ∧ e.v2 = o.verts.getD b 0 := by
  obtain ⟨o, ho, s, _, h1, h2, _, h4⟩ := T_C07_direction pos bs hbs ops e he
  exact ⟨o, ho, _, _, h4, h1, h2⟩

/-- **omitted**: no entry is a line, joins two vertices closer than TOL, or is an arc whose three
    points are collinear within TOL (what `Edge.is_valid` / `ArcEdgeBase.is_valid` reject) -/
theorem T_C07_omitted (pos : Nat → V3) (bs : List (Nat × Nat × Nat)) (ops : List ROp) (e : Entry)
    (he : e ∈ asmEdges pos bs ops) :
    e.d.kind ≠ .line ∧ ¬ (V3.norm2 (pos e.v1 - pos e.v2) < tol2) ∧
      ∀ p, e.d.kind.isArc = true → e.d.third = some p →
        V3.norm2 (V3.cross (pos e.v1 - p) (pos e.v2 - p)) > tol2 := by
  rcases run_mem_src he with h | ⟨_, hv⟩
  · cases h
  · unfold valid at hv
    split at hv
    · cases hv
    · split at hv
      · cases hv
      · refine ⟨by assumption, by assumption, ?_⟩
        intro p hp ht
        rw [hp, ht] at hv
        simpa using hv

/-- **kept, exactly once**: a slot whose datum is valid (non-line, non-zero length, non-collinear)
    has exactly one entry on its vertex pair -/
theorem T_C07_kept (pos : Nat → V3) (bs : List (Nat × Nat × Nat)) (hbs : beamsOk bs = true)
    (ops : List ROp) (o : ROp) (ho : o ∈ ops) (s : Nat) (hs : s < 12) (hv : valid pos (slotReq o s) = true) :
    ∃ e ∈ asmEdges pos bs ops, e.same (slotReq o s) = true ∧
      ∀ f ∈ asmEdges pos bs ops, f.same (slotReq o s) = true → f = e := by
  have hm : slotReq o s ∈ allReqs bs ops := (mem_allReqs hbs).mpr ⟨o, ho, s, hs, rfl⟩
  obtain ⟨e, he, hse⟩ := run_kept_mem (pos := pos) (es := []) hm hv
  refine ⟨e, he, hse, ?_⟩
  intro f hf hsf
  have hd : Distinct (asmEdges pos bs ops) := run_distinct (List.Pairwise.nil)
  exact distinct_unique hd hf he (Entry.same_trans hsf (by rw [Entry.same_comm]; exact hse))

/-- **first definition wins** (request level): in any sequence of `EdgeList.add` calls, a valid
    request that no earlier valid request shares its vertex pair with is written as it is — its own
    data, its own direction -/
theorem T_C07_first_wins (pos : Nat → V3) (pre post : List Entry) (r : Entry) (hv : valid pos r = true)
    (hpre : ∀ q ∈ pre, valid pos q = true → q.same r = false) :
    r ∈ run pos (pre ++ r :: post) [] :=
  run_first_wins hv (by intro q hq; cases hq) hpre

/-- … and conversely every entry is the first valid request for its vertex pair: later
    re-definitions (by the same or another operation, in either direction) are ignored -/
theorem T_C07_entries_are_first (pos : Nat → V3) (rs : List Entry) (e : Entry) (he : e ∈ run pos rs []) :
    ∃ pre post, rs = pre ++ e :: post ∧ valid pos e = true ∧
      ∀ q ∈ pre, valid pos q = true → q.same e = false := by
  rcases run_char he with h | ⟨pre, post, h1, h2, _, h4⟩
  · cases h
  · exact ⟨pre, post, h1, h2, h4⟩

/-- **first definition wins** (operation level): when no earlier operation validly defines the
    vertex pair of a valid slot and the operation itself defines it only there, the slot's datum is
    the entry, in the slot's direction — whatever later operations say -/
theorem T_C07_first_wins_op (pos : Nat → V3) (bs : List (Nat × Nat × Nat)) (hbs : beamsOk bs = true)
    (pre post : List ROp) (o : ROp) (s : Nat) (hs : s < 12) (hv : valid pos (slotReq o s) = true)
    (hpre : ∀ q ∈ allReqs bs pre, valid pos q = true → q.same (slotReq o s) = false)
    (hown : ∀ t, t < 12 → valid pos (slotReq o t) = true → (slotReq o t).same (slotReq o s) = true →
      slotReq o t = slotReq o s) :
    slotReq o s ∈ asmEdges pos bs (pre ++ o :: post) := by
  unfold asmEdges allReqs
  rw [List.flatMap_append, List.flatMap_cons, run_append, run_append]
  apply run_mono
  apply run_sole ((mem_reqsOfOp hbs).mpr ⟨s, hs, rfl⟩) hv
  · intro q hq
    rcases run_mem_src hq with h | ⟨h, hvq⟩
    · cases h
    · exact hpre q h hvq
  · intro q hq hvq hsq
    obtain ⟨t, ht, rfl⟩ := (mem_reqsOfOp hbs).mp hq
    exact hown t ht hvq hsq

/-- **histories with re-assembly**: `EdgeList.clear()` followed by the same `add` calls gives the
    same entries — after any number of `Mesh.clear(); assemble()` / `Mesh.backport()` rounds the
    edges section is the one of the first assembly (so every theorem above holds for it) -/
theorem T_C07_reassemble (pos : Nat → V3) (bs : List (Nat × Nat × Nat)) (ops : List ROp) (n : Nat) :
    reassembled pos (allReqs bs ops) n = asmEdges pos bs ops := by
  cases n <;> rfl

theorem T_C07_reassemble_model (locPos : Nat → V3) (bs : List (Nat × Nat × Nat)) (us : List UOp) (n : Nat) :
    assembleAgain locPos bs us n = assemble locPos bs us := by
  cases n <;> rfl

/-! non-vacuity: the hypotheses hold for the real tables and for concrete operations -/

example : beamsOk (directedBeams.getD []) = true := by decide

/-- a unit cube with a spline on the closing bottom edge (slot 3, 3 → 0) and an arc on side edge 1 -/
def exPos : Nat → V3 := fun v =>
  [⟨0, 0, 0⟩, ⟨1, 0, 0⟩, ⟨1, 1, 0⟩, ⟨0, 1, 0⟩, ⟨0, 0, 1⟩, ⟨1, 0, 1⟩, ⟨1, 1, 1⟩, ⟨0, 1, 1⟩].getD v V3.zero

def exSpline : Datum := { kind := .spline, tag := 1, pts := [⟨-1/2, 3/4, 0⟩, ⟨-1/2, 1/2, 0⟩] }
def exArc : Datum := { kind := .arc, tag := 2, third := some ⟨3/2, 0, 1/2⟩ }

def exOp : ROp :=
  { verts := [0, 1, 2, 3, 4, 5, 6, 7],
    data := [lineDatum, lineDatum, lineDatum, exSpline, lineDatum, lineDatum, lineDatum, lineDatum,
             lineDatum, exArc, lineDatum, lineDatum] }

example : valid exPos (slotReq exOp 3) = true ∧ valid exPos (slotReq exOp 9) = true := by decide +kernel

/-- the closing edge is written `spline 3 0 (…)`, the side edge `arc 1 5 (…)` -/
example : (asmEdges exPos (directedBeams.getD []) [exOp]).length = 2 ∧
    ⟨3, 0, exSpline⟩ ∈ asmEdges exPos (directedBeams.getD []) [exOp] ∧
    ⟨1, 5, exArc⟩ ∈ asmEdges exPos (directedBeams.getD []) [exOp] := by
  decide +kernel

/-! ### faces used as given, inverted, shifted, re-oriented -/

/-- **inverted**: after `Face.invert` every datum joins the same two points the other way round and
    is reversed (spline / polyLine points flipped, angle negated), so it describes the same curve -/
theorem T_C07_invert {α : Type} [Inhabited α] (a b c d : α) (e0 e1 e2 e3 : Datum) :
    dconn (faceInvert (⟨[a, b, c, d], [e0, e1, e2, e3]⟩ : Face α Datum)) =
      [flipC (c, d, e2), flipC (b, c, e1), flipC (a, b, e0), flipC (d, a, e3)] ∧
    dconn (⟨[a, b, c, d], [e0, e1, e2, e3]⟩ : Face α Datum) = [(a, b, e0), (b, c, e1), (c, d, e2), (d, a, e3)] :=
  ⟨rfl, rfl⟩

/-- **shifted**: after `Face.shift k`, for every integer `k`, every datum joins the same two points
    in the same direction, unchanged -/
theorem T_C07_shift {α : Type} [Inhabited α] (f : Face α Datum) (h : Face4 f) (k : Int) :
    (∀ x ∈ dconn (f.shift k), x ∈ dconn f) ∧ (∀ x ∈ dconn f, x ∈ dconn (f.shift k)) := by
  obtain ⟨a, b, c, d, e0, e1, e2, e3, rfl⟩ := face4_cases h
  rcases shift_lit a b c d e0 e1 e2 e3 k with h | h | h | h <;> rw [h] <;>
    simp only [dconn_lit, List.mem_cons, List.not_mem_nil, or_false] <;>
    constructor <;> intro x hx <;> rcases hx with h | h | h | h <;> subst h <;> simp

/-- **re-oriented**: `Face.reorient` is a shift, whatever the distances are -/
theorem T_C07_reorient {α : Type} [Inhabited α] (f : Face α Datum) (h : Face4 f) (dist : α → Rat) :
    (∀ x ∈ dconn (f.reorient dist), x ∈ dconn f) ∧ (∀ x ∈ dconn f, x ∈ dconn (f.reorient dist)) :=
  T_C07_shift f h _

/-- **any sequence of calls**: the face that goes into the operation carries exactly the curves the
    user described — each datum between its two points, either as given or, when its end points are
    swapped, reversed -/
theorem T_C07_face_calls (pos : Nat → V3) (f : Face Nat Datum) (h : Face4 f) (ops : List FaceOp) :
    (∀ x ∈ dconn (applyFaceOps pos f ops), x ∈ dconn f ∨ flipC x ∈ dconn f) ∧
    (∀ x ∈ dconn f, x ∈ dconn (applyFaceOps pos f ops) ∨ flipC x ∈ dconn (applyFaceOps pos f ops)) :=
  (sameCurves_applyOps pos h ops).2

theorem removeEdges_some_getD (cs : List Nat) (es : List Datum) (i : Nat) :
    (removeEdges (some cs) es).getD i lineDatum =
      if i ∈ cs then lineDatum else es.getD i lineDatum := by
  unfold removeEdges
  simp only [Option.getD_some]
  induction cs generalizing es with
  | nil => simp
  | cons c cs ih =>
    simp only [List.foldl_cons, ih, List.mem_cons]
    by_cases h1 : i ∈ cs
    · simp [h1]
    · simp only [h1, if_false, or_false]
      by_cases h2 : i = c
      · subst h2
        simp only [if_true, List.getD_eq_getElem?_getD, List.getElem?_set]
        split <;> simp
      · simp only [h2, if_false, List.getD_eq_getElem?_getD, List.getElem?_set]
        have : ¬ c = i := fun h => h2 h.symm
        simp [this]

/-- **`Face.remove_edges`**: exactly the edges at the listed corners become lines and every other
    datum stays where it is; in particular an explicitly given *empty* list removes nothing, while no
    argument / `None` removes all four -/
theorem T_C07_remove_edges (cs : List Nat) (es : List Datum) :
    (∀ i, i ∉ cs → (removeEdges (some cs) es).getD i lineDatum = es.getD i lineDatum) ∧
    (∀ i, i ∈ cs → (removeEdges (some cs) es).getD i lineDatum = lineDatum) ∧
    removeEdges (some []) es = es ∧
    (∀ e0 e1 e2 e3, removeEdges none [e0, e1, e2, e3] = [lineDatum, lineDatum, lineDatum, lineDatum]) := by
  refine ⟨?_, ?_, rfl, fun _ _ _ _ => rfl⟩
  · intro i hi; rw [removeEdges_some_getD]; simp [hi]
  · intro i hi; rw [removeEdges_some_getD]; simp [hi]

/-- reversing twice gives the datum back; data that do not depend on direction never change -/
theorem T_C07_reverse (d : Datum) :
    d.reverse.reverse = d ∧ d.reverse.kind = d.kind ∧ d.reverse.tag = d.tag ∧
      (d.kind.dirDep = false → d.reverse = d) :=
  ⟨Datum.reverse_reverse d, Datum.reverse_kind d, Datum.reverse_tag d, Datum.reverse_of_not_dirDep d⟩

example : Face4 (⟨[10, 11, 12, 13], [exSpline, lineDatum, exArc, lineDatum]⟩ : Face Nat Datum) := ⟨rfl, rfl⟩

example : dconn (applyFaceOps exPos ⟨[10, 11, 12, 13], [exSpline, lineDatum, exArc, lineDatum]⟩
    [.invert, .shift 1]) =
    [(10, 13, lineDatum), (13, 12, exArc), (12, 11, lineDatum), (11, 10, exSpline.reverse)] := by decide +kernel


/-! ### from the user's faces to the edges section -/

/-- the curves the user described with an operation: every face datum between the two points it
    was given for when the face was made, every side datum between the bottom and top point the
    operation shows at that index when the datum is attached (after the calls on its faces, before
    a possible `Operation.invert`) -/
def described (pos : Nat → V3) (u : UOp) : List (Nat × Nat × Datum) :=
  let b := applyFaceOps pos u.bottom u.bottomOps
  let t := applyFaceOps pos u.top u.topOps
  dconn u.bottom ++ dconn u.top ++
    (List.range 4).map (fun i => (b.pts.getD i 0, t.pts.getD i 0, u.side.getD i lineDatum))

theorem getD_map_reverse (l : List Datum) (i : Nat) :
    ((l.map Datum.reverse).getD i lineDatum).reverse = l.getD i lineDatum := by
  simp only [List.getD_eq_getElem?_getD, List.getElem?_map]
  cases l[i]? with
  | none => rfl
  | some d => simp [Datum.reverse_reverse]

/-- the curve a slot of a resolved operation stands for, in terms of the two faces and the side data
    the operation holds -/
theorem slot_conn (vl : List Nat) (o : ROp) (b t : Face Nat Datum) (sd : List Datum) (hb : Face4 b) (ht : Face4 t)
    (hdata : o.data = b.edges ++ t.edges ++ sd)
    (hverts : ∀ c, c < (b.pts ++ t.pts).length → vl[o.verts.getD c 0]? = (b.pts ++ t.pts)[c]?)
    (s : Nat) (hs : s < 12) :
    let y := (vl.getD (o.verts.getD (slotPair s).1 0) 0, vl.getD (o.verts.getD (slotPair s).2 0) 0, o.data.getD s lineDatum)
    y ∈ dconn b ∨ y ∈ dconn t ∨ ∃ i, i < 4 ∧ y = (b.pts.getD i 0, t.pts.getD i 0, sd.getD i lineDatum) := by
  obtain ⟨b0, b1, b2, b3, be0, be1, be2, be3, rfl⟩ := face4_cases hb
  obtain ⟨t0, t1, t2, t3, te0, te1, te2, te3, rfl⟩ := face4_cases ht
  simp only [List.cons_append, List.nil_append, List.length_cons, List.length_nil] at hverts hdata
  have hc : ∀ c, c < 8 → vl.getD (o.verts.getD c 0) 0 = [b0, b1, b2, b3, t0, t1, t2, t3].getD c 0 := by
    intro c hc
    rw [List.getD_eq_getElem?_getD, hverts c (by omega), List.getD_eq_getElem?_getD]
  have hs12 : s = 0 ∨ s = 1 ∨ s = 2 ∨ s = 3 ∨ s = 4 ∨ s = 5 ∨ s = 6 ∨ s = 7 ∨ s = 8 ∨ s = 9 ∨ s = 10 ∨ s = 11 := by
    omega
  rcases hs12 with rfl | rfl | rfl | rfl | rfl | rfl | rfl | rfl | rfl | rfl | rfl | rfl
  all_goals (
    simp only [slotPair, Nat.reduceLT, Nat.reduceAdd, Nat.reduceSub, Nat.reduceMod, if_true, if_false,
      hc _ (by decide : (0:Nat) < 8), hc _ (by decide : (1:Nat) < 8), hc _ (by decide : (2:Nat) < 8),
      hc _ (by decide : (3:Nat) < 8), hc _ (by decide : (4:Nat) < 8), hc _ (by decide : (5:Nat) < 8),
      hc _ (by decide : (6:Nat) < 8), hc _ (by decide : (7:Nat) < 8), hdata]
    simp only [List.getD_cons_zero, List.getD_cons_succ, dconn_lit])
  · left; simp
  · left; simp
  · left; simp
  · left; simp
  · right; left; simp
  · right; left; simp
  · right; left; simp
  · right; left; simp
  · right; right; exact ⟨0, by decide, rfl⟩
  · right; right; exact ⟨1, by decide, rfl⟩
  · right; right; exact ⟨2, by decide, rfl⟩
  · right; right; exact ⟨3, by decide, rfl⟩

/-- **direction, end to end**: whatever calls were applied to the faces, whether the finished
    operation was inverted (`Operation.invert`) and however many operations there are, every written
    entry `kind v1 v2 data` is one of the curves some operation described: it joins the vertices at
    the two locations the datum was given for and either runs the way it was given with the data as
    given, or runs the other way with the data reversed (points listed backwards, angle negated). -/
theorem T_C07_end_to_end (locPos : Nat → V3) (bs : List (Nat × Nat × Nat)) (hbs : beamsOk bs = true)
    (us : List UOp) (hwf : ∀ u ∈ us, Face4 u.bottom ∧ Face4 u.top) (e : Entry)
    (he : e ∈ (assemble locPos bs us).edges) :
    ∃ u ∈ us,
      let a := assemble locPos bs us
      let y := (a.vlocs.getD e.v1 0, a.vlocs.getD e.v2 0, e.d)
      y ∈ described locPos u ∨ flipC y ∈ described locPos u := by
  have he' : e ∈ asmEdges (fun v => locPos ((resolveAll locPos [] us).1.getD v 0)) bs (resolveAll locPos [] us).2 := he
  obtain ⟨o, ho, s, hs, hv1, hv2, hd, _⟩ := T_C07_direction _ bs hbs _ e he'
  obtain ⟨_, hres⟩ := resolveAll_spec locPos [] us
  obtain ⟨u, hu, hdata, hverts⟩ := hres o ho
  refine ⟨u, hu, ?_⟩
  obtain ⟨hb4, hbc⟩ := sameCurves_applyOps locPos (hwf u hu).1 u.bottomOps
  obtain ⟨ht4, htc⟩ := sameCurves_applyOps locPos (hwf u hu).2 u.topOps
  have hvl : (assemble locPos bs us).vlocs = (resolveAll locPos [] us).1 := rfl
  simp only [hvl, hv1, hv2, hd]
  have inB : ∀ x, x ∈ dconn (applyFaceOps locPos u.bottom u.bottomOps) →
      x ∈ described locPos u ∨ flipC x ∈ described locPos u := by
    intro x hx
    unfold described
    rcases hbc.1 x hx with h | h
    · left; simp only [List.mem_append]; left; left; exact h
    · right; simp only [List.mem_append]; left; left; exact h
  have inT : ∀ x, x ∈ dconn (applyFaceOps locPos u.top u.topOps) →
      x ∈ described locPos u ∨ flipC x ∈ described locPos u := by
    intro x hx
    unfold described
    rcases htc.1 x hx with h | h
    · left; simp only [List.mem_append]; left; right; exact h
    · right; simp only [List.mem_append]; left; right; exact h
  unfold UOp.parts at hdata hverts
  cases hinv : u.inverted with
  | false =>
    simp only [hinv, Bool.false_eq_true, if_false] at hdata hverts
    rcases slot_conn _ o _ _ _ hb4 ht4 hdata hverts s hs with h | h | ⟨i, hi, h⟩
    · exact inB _ h
    · exact inT _ h
    · left
      rw [h]
      unfold described
      simp only [List.mem_append]
      right
      exact List.mem_map.mpr ⟨i, List.mem_range.mpr hi, rfl⟩
  | true =>
    simp only [hinv, if_true] at hdata hverts
    rcases slot_conn _ o _ _ _ ht4 hb4 hdata hverts s hs with h | h | ⟨i, hi, h⟩
    · exact inT _ h
    · exact inB _ h
    · right
      rw [h]
      unfold described
      simp only [List.mem_append]
      right
      refine List.mem_map.mpr ⟨i, List.mem_range.mpr hi, ?_⟩
      simp only [flipC, getD_map_reverse]

/-! non-vacuity of the end-to-end statement and of "first definition wins": two cubes sharing the
    edge between locations 1 and 2; the first gives it a spline as its bottom edge 1 (1 → 2) on an
    inverted face, the second a polyLine as its closing bottom edge 3 (2 → 1) -/

def exLoc : Nat → V3 := fun l =>
  [⟨0, 0, 0⟩, ⟨1, 0, 0⟩, ⟨1, 1, 0⟩, ⟨0, 1, 0⟩, ⟨0, 0, 1⟩, ⟨1, 0, 1⟩, ⟨1, 1, 1⟩, ⟨0, 1, 1⟩,
   ⟨2, 0, 0⟩, ⟨2, 1, 0⟩, ⟨2, 0, 1⟩, ⟨2, 1, 1⟩].getD l V3.zero

def exS : Datum := { kind := .spline, tag := 1, pts := [⟨5/4, 1/4, 0⟩, ⟨5/4, 1/2, 0⟩] }
def exP : Datum := { kind := .polyLine, tag := 2, pts := [⟨3/4, 3/4, 0⟩, ⟨3/4, 1/2, 0⟩] }
def exA : Datum := { kind := .angle, tag := 3, angle := 1, third := some ⟨-1/4, 0, 1/2⟩ }

def exU1 : UOp :=
  { bottom := ⟨[0, 1, 2, 3], [lineDatum, exS, lineDatum, lineDatum]⟩, bottomOps := [.invert, .shift 2],
    top := ⟨[4, 5, 6, 7], [lineDatum, lineDatum, lineDatum, lineDatum]⟩, topOps := [.invert, .shift 2],
    side := [lineDatum, lineDatum, lineDatum, exA] }

def exU2 : UOp :=
  { bottom := ⟨[1, 8, 9, 2], [lineDatum, lineDatum, lineDatum, exP]⟩, bottomOps := [],
    top := ⟨[5, 10, 11, 6], [lineDatum, lineDatum, lineDatum, lineDatum]⟩, topOps := [],
    side := [lineDatum, lineDatum, lineDatum, lineDatum] }

example : ∀ u ∈ [exU1, exU2], Face4 u.bottom ∧ Face4 u.top := by
  intro u hu
  simp only [List.mem_cons, List.not_mem_nil, or_false] at hu
  rcases hu with rfl | rfl <;> exact ⟨⟨rfl, rfl⟩, ⟨rfl, rfl⟩⟩

/-- the inverted-and-shifted first cube numbers its corners 1,0,3,2 / 5,4,7,6; its spline is written
    from vertex 3 (location 2) to vertex 0 (location 1) with the points reversed; the side angle is
    written as given; the second cube's polyLine on the same edge is ignored -/
example : (assemble exLoc (directedBeams.getD []) [exU1, exU2]).vlocs = [1, 0, 3, 2, 5, 4, 7, 6, 8, 9, 10, 11] ∧
    (assemble exLoc (directedBeams.getD []) [exU1, exU2]).edges.length = 2 ∧
    ⟨3, 0, exS.reverse⟩ ∈ (assemble exLoc (directedBeams.getD []) [exU1, exU2]).edges ∧
    ⟨3, 7, exA⟩ ∈ (assemble exLoc (directedBeams.getD []) [exU1, exU2]).edges := by
  decide +kernel

/-- the same first cube, inverted afterwards (`Operation.invert`): bottom and top swap, its side
    angle is written from the new bottom vertex with the angle negated -/
example :
    let a := assemble exLoc (directedBeams.getD []) [{ exU1 with inverted := true }]
    a.vlocs = [5, 4, 7, 6, 1, 0, 3, 2] ∧ a.edges.length = 2 ∧
      ⟨7, 4, exS.reverse⟩ ∈ a.edges ∧ ⟨3, 7, exA.reverse⟩ ∈ a.edges ∧ exA.reverse.angle = -1 := by
  decide +kernel

/-- hypotheses of `T_C07_first_wins_op` on that assembly: slot 3 of the first (resolved) cube -/
example :
    let a := assemble exLoc (directedBeams.getD []) [exU1, exU2]
    let pos := fun v => exLoc (a.vlocs.getD v 0)
    let o := a.rops.getD 0 ⟨[], []⟩
    valid pos (slotReq o 3) = true ∧
      (∀ q ∈ allReqs (directedBeams.getD []) [], valid pos q = true → q.same (slotReq o 3) = false) ∧
      (∀ t ∈ List.range 12, valid pos (slotReq o t) = true → (slotReq o t).same (slotReq o 3) = true →
        slotReq o t = slotReq o 3) := by
  decide +kernel

/-- hypotheses of `T_C07_first_wins` / `T_C07_kept`: a second valid request on the same pair, in the
    other direction, after a first one -/
example :
    let r : Entry := ⟨3, 0, exS.reverse⟩
    let pos := fun v => exLoc ([1, 0, 3, 2].getD v 0)
    valid pos r = true ∧ valid pos ⟨0, 3, exP⟩ = true ∧
      run pos ([] ++ r :: [⟨0, 3, exP⟩]) [] = [r] := by
  decide +kernel

/-! ### the length used for grading -/

/-- length of a polyline for an arbitrary segment measure -/
def pathLen (seg : V3 → V3 → Rat) : List V3 → Rat
  | a :: b :: rest => seg a b + pathLen seg (b :: rest)
  | _ => 0

theorem pathLen_snoc2 (seg : V3 → V3 → Rat) (l : List V3) (x y : V3) :
    pathLen seg (l ++ [x, y]) = pathLen seg (l ++ [x]) + seg x y := by
  induction l with
  | nil => simp [pathLen]
  | cons a t ih =>
    cases t with
    | nil => simp [pathLen]
    | cons b t' =>
      simp only [List.cons_append, pathLen] at ih ⊢
      rw [ih]; ring

/-- a polyline has the same length from either end, for every symmetric segment measure
    (the Euclidean distance in particular) -/
theorem T_C07_length_reverse (seg : V3 → V3 → Rat) (hsym : ∀ a b, seg a b = seg b a) (l : List V3) :
    pathLen seg l.reverse = pathLen seg l := by
  induction l with
  | nil => rfl
  | cons a t ih =>
    cases t with
    | nil => rfl
    | cons b t' =>
      have : (a :: b :: t').reverse = t'.reverse ++ [b, a] := by simp
      rw [this, pathLen_snoc2]
      have h2 : t'.reverse ++ [b] = (b :: t').reverse := by simp
      rw [h2, ih, hsym b a]
      simp only [pathLen]; ring

/-- the polyline an entry draws: first vertex, the listed points, second vertex -/
def entryPath (pos : Nat → V3) (e : Entry) : List V3 := pos e.v1 :: e.d.pts ++ [pos e.v2]

/-- the same curve written from its other end -/
def flipE (e : Entry) : Entry := ⟨e.v2, e.v1, e.d.reverse⟩

/-- **length**: a spline / polyLine entry written from the other end with its data reversed draws
    the same polyline backwards, so `Edge.length` (the polyline through first vertex, points,
    second vertex) is the length of the curve the user described, in whichever of the two
    admissible ways (`T_C07_end_to_end`) the entry is written -/
theorem T_C07_length (pos : Nat → V3) (seg : V3 → V3 → Rat) (hsym : ∀ a b, seg a b = seg b a) (e : Entry)
    (hk : e.d.kind = .spline ∨ e.d.kind = .polyLine) :
    entryPath pos (flipE e) = (entryPath pos e).reverse ∧
      pathLen seg (entryPath pos (flipE e)) = pathLen seg (entryPath pos e) := by
  have h1 : entryPath pos (flipE e) = (entryPath pos e).reverse := by
    obtain ⟨v1, v2, d⟩ := e
    obtain ⟨kind, tag, pts, angle, third⟩ := d
    simp only at hk
    rcases hk with rfl | rfl <;> simp [entryPath, flipE, Datum.reverse]
  exact ⟨h1, by rw [h1, T_C07_length_reverse seg hsym]⟩

example : (fun a b : V3 => V3.norm2 (a - b)) ⟨0, 0, 0⟩ ⟨1, 2, 3⟩ = (fun a b : V3 => V3.norm2 (a - b)) ⟨1, 2, 3⟩ ⟨0, 0, 0⟩ ∧
    entryPath exLoc (flipE ⟨1, 2, exS⟩) = [exLoc 2, ⟨5/4, 1/2, 0⟩, ⟨5/4, 1/4, 0⟩, exLoc 1] := by decide +kernel

/-- centre of the `arc v1 v2 angle axis` construction of `arc_from_theta` for a unit axis
    perpendicular to the chord, with `t = tan(angle/2)`: `mid − (dp × axis) / (2 t)` -/
def angleCentre (p1 p2 axis : V3) (t : Rat) : V3 :=
  V3.smul (1 / 2) (p1 + p2) - V3.smul (1 / (2 * t)) (V3.cross (p2 - p1) axis)

/-- **sense of an angle arc**: swapping the end points and negating the angle (`Angle.reverse`,
    tan is odd) leaves the centre of the arc where it was — the same arc is drawn -/
theorem T_C07_angle_sense (p1 p2 axis : V3) (t : Rat) :
    angleCentre p2 p1 axis (-t) = angleCentre p1 p2 axis t := by
  apply V3.ext' <;> simp [angleCentre] <;> ring

/-! ### the edge every wire holds (repaired `Mesh.assemble`) -/

/-- a re-linked wire holds a listed entry, or nothing is listed for its vertex pair -/
theorem relink_spec (es : List Entry) (w : Entry) :
    (relink es w ∈ es ∧ (relink es w).same w = true) ∨ (relink es w = w ∧ ∀ e ∈ es, e.same w = false) := by
  unfold relink
  cases hf : find es w.v1 w.v2 with
  | some e =>
    left
    obtain ⟨hm, hs⟩ := find_some hf
    exact ⟨hm, by simp only [Option.getD_some]; unfold Entry.same; rw [samePair_comm]; exact hs⟩
  | none =>
    right
    refine ⟨rfl, ?_⟩
    intro e he
    rw [find_none_iff] at hf
    have := hf e he
    unfold Entry.same; rw [samePair_comm]; exact this

/-- **wires**: after assembly every wire of every block holds the entry written for its two
    vertices (by `T_C07_entries_are_first` the first valid definition of that pair, whichever
    operation gave it and whenever), or, when nothing is written for the pair, an unlisted edge -/
theorem T_C07_wires (locPos : Nat → V3) (bs : List (Nat × Nat × Nat)) (us : List UOp) (w : Entry)
    (hw : w ∈ (assemble locPos bs us).wires) :
    w ∈ (assemble locPos bs us).edges ∨ ∀ e ∈ (assemble locPos bs us).edges, e.same w = false := by
  simp only [assemble, List.mem_map] at hw ⊢
  obtain ⟨w0, _, rfl⟩ := hw
  rcases relink_spec _ w0 with ⟨h1, _⟩ | ⟨h1, h2⟩
  · left; exact h1
  · right; rw [h1]; exact h2

/-- … hence two wires on the same two vertices (coincident wires of neighbouring blocks, or of a
    collapsed block) hold the very same edge whenever that pair has an entry — they report the same
    length to the grading -/
theorem T_C07_wires_coincident (locPos : Nat → V3) (bs : List (Nat × Nat × Nat)) (us : List UOp)
    (w1 w2 e : Entry) (h1 : w1 ∈ (assemble locPos bs us).wires) (h2 : w2 ∈ (assemble locPos bs us).wires)
    (he : e ∈ (assemble locPos bs us).edges) (hs : w1.same w2 = true) (hes : e.same w1 = true) :
    w1 = w2 ∧ w1 = e := by
  have hd : Distinct (assemble locPos bs us).edges := run_distinct (List.Pairwise.nil)
  have m1 : w1 ∈ (assemble locPos bs us).edges := by
    rcases T_C07_wires locPos bs us w1 h1 with h | h
    · exact h
    · rw [h e he] at hes; cases hes
  have m2 : w2 ∈ (assemble locPos bs us).edges := by
    rcases T_C07_wires locPos bs us w2 h2 with h | h
    · exact h
    · have ht := Entry.same_trans hes hs
      rw [h e he] at ht; cases ht
  exact ⟨distinct_unique hd m1 m2 hs, (distinct_unique hd he m1 hes).symm⟩

/-- the former finding `Wire.edge:defined-later` as a regression example: only the second cube
    defines the edge between vertices 1 and 2 (its closing edge 3); the first cube's wire on beam
    (1,2) now holds that polyLine entry too -/
example :
    let u1 : UOp := { exU1 with bottom := ⟨[0, 1, 2, 3], [lineDatum, lineDatum, lineDatum, lineDatum]⟩,
                                bottomOps := [], topOps := [] }
    let a := assemble exLoc (directedBeams.getD []) [u1, exU2]
    a.edges.length = 2 ∧ ⟨3, 7, exA⟩ ∈ a.edges ∧ ⟨2, 1, exP⟩ ∈ a.edges ∧
      ((a.wires.take 12).filter (fun w => w.same ⟨2, 1, exP⟩)) = [⟨2, 1, exP⟩] ∧
      ((a.wires.drop 12).filter (fun w => w.same ⟨2, 1, exP⟩)) = [⟨2, 1, exP⟩] := by
  decide +kernel


/-! ### entry points: how edge data get onto faces and operations (round 5) -/

/-- **`Face.add_edge`**: refuses exactly the corners outside 0..3; otherwise puts the datum (`None` →
    a line) on that corner and leaves every other corner as it was -/
theorem T_C07_add_edge (es : List Datum) (c : Int) (d : Option Datum) :
    (faceAddEdge es c d = none ↔ (c < 0 ∨ c > 3)) ∧
    ∀ es', faceAddEdge es c d = some es' →
      es'.length = es.length ∧
      (c.toNat < es.length → es'.getD c.toNat lineDatum = d.getD lineDatum) ∧
      ∀ i, i ≠ c.toNat → es'.getD i lineDatum = es.getD i lineDatum := by
  refine ⟨faceAddEdge_none_iff es c d, ?_⟩
  intro es' h
  obtain ⟨_, _, rfl⟩ := faceAddEdge_some h
  refine ⟨by simp, ?_, ?_⟩
  · intro hlt; rw [getD_set_of_lt _ _ _ _ hlt]; simp
  · intro i hi
    simp only [List.getD_eq_getElem?_getD, List.getElem?_set]
    have : ¬ c.toNat = i := fun e => hi e.symm
    simp [this]

/-- **`Face(points, edges)`**: without `edges` four lines; with exactly four entries each entry is
    the datum of its corner (`None` → line); any other number of entries is refused -/
theorem T_C07_face_init :
    faceInitEdges none = some [lineDatum, lineDatum, lineDatum, lineDatum] ∧
    (∀ a b c d : Option Datum, faceInitEdges (some [a, b, c, d]) =
      some [a.getD lineDatum, b.getD lineDatum, c.getD lineDatum, d.getD lineDatum]) ∧
    (∀ l : List (Option Datum), l.length ≠ 4 → faceInitEdges (some l) = none) := by
  refine ⟨rfl, fun a b c d => rfl, ?_⟩
  intro l hl
  simp [faceInitEdges, hl]

/-- **`Operation.add_side_edge`**: refuses exactly the indices outside 0..3; otherwise puts the datum
    on that side edge and leaves the others -/
theorem T_C07_add_side_edge (es : List Datum) (i : Int) (d : Datum) :
    (addSideEdge es i d = none ↔ (i < 0 ∨ i > 3)) ∧
    ∀ es', addSideEdge es i d = some es' →
      es'.length = es.length ∧ (i.toNat < es.length → es'.getD i.toNat lineDatum = d) ∧
      ∀ j, j ≠ i.toNat → es'.getD j lineDatum = es.getD j lineDatum := by
  constructor
  · unfold addSideEdge; split <;> simp_all
  · intro es' h
    obtain ⟨_, _, rfl⟩ := addSideEdge_some h
    refine ⟨by simp, ?_, ?_⟩
    · intro hlt; rw [getD_set_of_lt _ _ _ _ hlt]; simp
    · intro j hj
      simp only [List.getD_eq_getElem?_getD, List.getElem?_set]
      have : ¬ i.toNat = j := fun e => hj e.symm
      simp [this]

/-- **`Face.remove_edges` as coded now (through `add_edge`)**: when it does not raise, exactly the listed
    corners read as lines and all others keep their datum; the empty list changes nothing -/
theorem T_C07_remove_edges_calls (es es' : List Datum) (cs : Option (List Int))
    (h : faceRemoveEdges es cs = some es') :
    es'.length = es.length ∧
    ∀ i, es'.getD i lineDatum = if (i : Int) ∈ cs.getD [0, 1, 2, 3] then lineDatum else es.getD i lineDatum := by
  exact ⟨(faceRemove_getD _ es es' h 0).1, fun i => (faceRemove_getD _ es es' h i).2⟩

example (es : List Datum) : faceRemoveEdges es (some []) = some es := rfl
example : faceRemoveEdges [exSpline, exArc, lineDatum, exSpline] (some [1, -1]) = none := by decide +kernel
example : faceRemoveEdges [exSpline, exArc, lineDatum, exSpline] none = some fourLines := by decide +kernel

/-- the slot `(w, c)` of an operation under construction: `w` = 0 bottom face, 1 top face, 2 side -/
def Build.slot (b : Build) (w c : Nat) : Datum :=
  (match w with | 0 => b.bottom | 1 => b.top | _ => b.side).getD c lineDatum

/-- what a call writes to slot `(w, c)`, if it touches it -/
def Call.writes (q : Call) (w c : Nat) : Option Datum :=
  match q with
  | .addEdge top k d => if w = (if top then 1 else 0) ∧ k = (c : Int) then some (d.getD lineDatum) else none
  | .removeEdges top cs =>
      if w = (if top then 1 else 0) ∧ (c : Int) ∈ cs.getD [0, 1, 2, 3] then some lineDatum else none
  | .addSide k d => if w = 2 ∧ k = (c : Int) then some d else none

/-- both faces and the side list have four entries -/
def Build.WF (b : Build) : Prop := b.bottom.length = 4 ∧ b.top.length = 4 ∧ b.side.length = 4

theorem Build.apply_spec {b b' : Build} {q : Call} (hwf : b.WF) (h : b.apply q = some b') (w c : Nat)
    (hw : w < 3) (_hc : c < 4) :
    b'.WF ∧ b'.slot w c = (q.writes w c).getD (b.slot w c) := by
  obtain ⟨hb, ht, hs⟩ := hwf
  have hw3 : w = 0 ∨ w = 1 ∨ w = 2 := by omega
  cases q with
  | addEdge top k d =>
    cases top <;> simp only [Build.apply, Option.map_eq_some_iff] at h <;> obtain ⟨es, he, rfl⟩ := h <;>
      obtain ⟨h0, h3, rfl⟩ := faceAddEdge_some he <;>
      refine ⟨⟨by simp [hb], by simp [ht], hs⟩, ?_⟩ <;>
      rcases hw3 with rfl | rfl | rfl <;>
      simp only [Build.slot, Call.writes, Bool.false_eq_true, if_false, if_true] <;>
      first
        | (rw [getD_set_of_lt _ _ _ _ (by omega)]
           have e1 : (c = k.toNat) ↔ (k = (c : Int)) := by omega
           simp only [e1]
           by_cases hk : k = (c : Int) <;> simp [hk])
        | simp
  | removeEdges top cs =>
    cases top <;> simp only [Build.apply, Option.map_eq_some_iff] at h <;> obtain ⟨es, he, rfl⟩ := h <;>
      obtain ⟨hl, hg⟩ := T_C07_remove_edges_calls _ _ _ he <;>
      refine ⟨⟨by simp [hl, hb], by simp [hl, ht], hs⟩, ?_⟩ <;>
      rcases hw3 with rfl | rfl | rfl <;>
      simp only [Build.slot, Call.writes, Bool.false_eq_true, if_false, if_true] <;>
      first
        | (rw [hg c]; by_cases hm : (c : Int) ∈ cs.getD [0, 1, 2, 3] <;> simp [hm])
        | simp
  | addSide k d =>
    simp only [Build.apply, Option.map_eq_some_iff] at h
    obtain ⟨es, he, rfl⟩ := h
    obtain ⟨h0, h3, rfl⟩ := addSideEdge_some he
    refine ⟨⟨hb, ht, by simp [hs]⟩, ?_⟩
    rcases hw3 with rfl | rfl | rfl <;> simp only [Build.slot, Call.writes]
    · simp
    · simp
    · rw [getD_set_of_lt _ _ _ _ (by omega)]
      have e1 : (c = k.toNat) ↔ (k = (c : Int)) := by omega
      simp only [e1]
      by_cases hk : k = (c : Int) <;> simp [hk]

theorem Build.run_wf {b b' : Build} {calls : List Call} (hwf : b.WF) (h : List.foldlM Build.apply b calls = some b') :
    b'.WF := by
  induction calls generalizing b with
  | nil => simp only [List.foldlM_nil, Option.pure_def, Option.some.injEq] at h; subst h; exact hwf
  | cons q qs ih =>
    simp only [List.foldlM_cons, Option.bind_eq_bind] at h
    cases h1 : b.apply q with
    | none => rw [h1] at h; cases h
    | some b1 =>
      rw [h1] at h
      exact ih (Build.apply_spec hwf h1 0 0 (by decide) (by decide)).1 h

theorem Build.run_untouched {b b' : Build} {calls : List Call} (hwf : b.WF) (h : b.run calls = some b')
    (w c : Nat) (hw : w < 3) (hc : c < 4) (hn : ∀ q ∈ calls, q.writes w c = none) :
    b'.WF ∧ b'.slot w c = b.slot w c := by
  induction calls generalizing b with
  | nil => simp only [Build.run, List.foldlM_nil, Option.pure_def, Option.some.injEq] at h; subst h; exact ⟨hwf, rfl⟩
  | cons q qs ih =>
    simp only [Build.run, List.foldlM_cons, Option.bind_eq_bind] at h
    cases h1 : b.apply q with
    | none => rw [h1] at h; cases h
    | some b1 =>
      rw [h1] at h
      obtain ⟨hwf1, hs1⟩ := Build.apply_spec hwf h1 w c hw hc
      obtain ⟨hwf', hs'⟩ := ih hwf1 h (fun q' hq' => hn q' (List.mem_cons_of_mem _ hq'))
      rw [hn q List.mem_cons_self] at hs1
      exact ⟨hwf', by rw [hs', hs1]; rfl⟩

/-- **the datum of a slot is the last one the user put there**: in any history of `add_edge` /
    `remove_edges` / `add_side_edge` calls that does not raise, a slot holds what the last call that
    touched it wrote (the datum given, or a line for `None` / a removal) … -/
theorem T_C07_last_write (b b' : Build) (pre post : List Call) (q : Call) (hwf : b.WF)
    (h : b.run (pre ++ q :: post) = some b') (w c : Nat) (hw : w < 3) (hc : c < 4) (v : Datum)
    (hq : q.writes w c = some v) (hpost : ∀ p ∈ post, p.writes w c = none) :
    b'.slot w c = v := by
  simp only [Build.run, List.foldlM_append, List.foldlM_cons, Option.bind_eq_bind] at h
  cases h1 : List.foldlM Build.apply b pre with
  | none => rw [h1] at h; cases h
  | some b1 =>
    rw [h1] at h
    simp only [Option.bind_some] at h
    have hwf1' : b1.WF := Build.run_wf hwf h1
    cases h2 : b1.apply q with
    | none => rw [h2] at h; cases h
    | some b2 =>
      rw [h2] at h
      obtain ⟨hwf2, hs2⟩ := Build.apply_spec hwf1' h2 w c hw hc
      obtain ⟨_, hs'⟩ := Build.run_untouched (calls := post) hwf2 h w c hw hc hpost
      rw [hs', hs2, hq]; rfl

/-- … and a slot no call touched holds what the constructors put there (the `edges` entry of
    `Face(points, edges)`, a line on the sides) -/
theorem T_C07_untouched (b b' : Build) (calls : List Call) (hwf : b.WF) (h : b.run calls = some b')
    (w c : Nat) (hw : w < 3) (hc : c < 4) (hn : ∀ q ∈ calls, q.writes w c = none) :
    b'.slot w c = b.slot w c :=
  (Build.run_untouched hwf h w c hw hc hn).2

/-- non-vacuity: a face made with a spline on corner 3, a later `add_edge(3, None)`, a side arc added,
    replaced, and `remove_edges([])` on the top face -/
example :
    buildOp (some [none, none, none, some exSpline]) none
      [.addSide 1 exArc, .addEdge false 3 none, .addSide 1 exSpline, .removeEdges true (some []), .addEdge true 0 (some exArc)]
      = some { bottom := fourLines, top := [exArc, lineDatum, lineDatum, lineDatum],
               side := [lineDatum, exSpline, lineDatum, lineDatum] } ∧
    buildOp none none [.addSide 4 exArc] = none ∧ buildOp (some [none, none, none]) none [] = none ∧
    buildOp none none [.addEdge true (-1) (some exArc)] = none := by decide +kernel

/-- **`Operation.from_series`**: the side datum of corner `i` is a line for two faces, an arc through
    the point of the single face in between, and for more faces a spline through their points in the
    order of the faces — i.e. listed from the bottom face to the top face, the direction slot `8+i`
    (`i → i+4`) is written in (`T_C07_direction`) -/
theorem T_C07_from_series (mids : List (List V3)) (tag0 i : Nat) (hi : i < 4) :
    let d := (seriesSide mids tag0).getD i lineDatum
    (mids = [] → d = lineDatum) ∧
    (∀ m, mids = [m] → d.kind = .arc ∧ d.third = some (m.getD i V3.zero)) ∧
    (2 ≤ mids.length → d.kind = .spline ∧ d.pts = mids.map (fun m => m.getD i V3.zero)) := by
  have hi4 : i = 0 ∨ i = 1 ∨ i = 2 ∨ i = 3 := by omega
  refine ⟨?_, ?_, ?_⟩
  · rintro rfl; rcases hi4 with rfl | rfl | rfl | rfl <;> rfl
  · rintro m rfl; rcases hi4 with rfl | rfl | rfl | rfl <;> exact ⟨rfl, rfl⟩
  · intro hl
    match mids, hl with
    | m1 :: m2 :: ms, _ => rcases hi4 with rfl | rfl | rfl | rfl <;> exact ⟨rfl, rfl⟩

/-! ### the tolerance comparisons (round 5) -/

/-- **`norm < TOL` vs `norm² < TOL²`**: the code compares a Euclidean norm with TOL, the model the
    squared norm with TOL². For every non-negative `s` with `s·s = n` (the norm, as a witness) and every
    positive `t` the two comparisons agree — so `valid` decides exactly what `Edge.is_valid` /
    `ArcEdgeBase.is_valid` decide in exact arithmetic; only float rounding is left to the margin of the
    generated inputs -/
theorem T_C07_tol_squared (s n t : Rat) (hs : 0 ≤ s) (ht : 0 < t) (hsn : s * s = n) :
    (s < t ↔ n < t * t) ∧ (s > t ↔ n > t * t) := by
  subst hsn
  constructor
  · constructor
    · intro h; nlinarith
    · intro h; by_contra hc; have : t ≤ s := by linarith
      nlinarith
  · constructor
    · intro h; nlinarith
    · intro h; by_contra hc; have : s ≤ t := by linarith
      nlinarith

example : (0 : Rat) ≤ 5 ∧ (5 : Rat) * 5 = V3.norm2 (⟨3, 4, 0⟩ - ⟨0, 0, 0⟩) ∧ tol2 = (1 / 10000000) * (1 / 10000000) := by
  decide +kernel

/-! ### Round 6 -/

/-- **a later definition of the same geometric edge, in either direction and with any data, changes nothing**: once a
    valid request is the first valid one for its vertex pair, the *only* entry on that pair in the final list is that
    request — its data, its direction — whatever is requested afterwards (e.g. the neighbouring operation describing the
    shared edge from its other end with a different curve) -/
theorem T_C07_opposite_duplicate (pos : Nat → V3) (pre post : List Entry) (r : Entry) (hv : valid pos r = true)
    (hpre : ∀ q ∈ pre, valid pos q = true → q.same r = false) :
    r ∈ run pos (pre ++ r :: post) [] ∧ ∀ e ∈ run pos (pre ++ r :: post) [], e.same r = true → e = r := by
  have hr := T_C07_first_wins pos pre post r hv hpre
  refine ⟨hr, ?_⟩
  intro e he hs
  have hd : Distinct (run pos (pre ++ r :: post) []) := run_distinct (List.Pairwise.nil)
  exact distinct_unique hd he hr hs

/-- non-vacuity: a spline from vertex 0 to vertex 1, then an arc described from vertex 1 to vertex 0 by the next
    operation: the spline is the entry, the arc is nowhere -/
example :
    let pos : Nat → V3 := fun i => if i = 0 then ⟨0, 0, 0⟩ else ⟨1, 0, 0⟩
    let r : Entry := ⟨0, 1, { kind := .spline, tag := 1, pts := [⟨1/2, 1/4, 0⟩] }⟩
    let q : Entry := ⟨1, 0, { kind := .arc, tag := 2, third := some ⟨1/2, -1/4, 0⟩ }⟩
    valid pos r = true ∧ valid pos q = true ∧ run pos ([] ++ r :: [q]) [] = [r] := by decide +kernel

/-- **the float comparison and the exact one decide alike on inputs with a margin**: let `s ≥ 0` be the exact norm
    (`s·s = n`), `s'` any computed value of it with absolute error at most `δ < t` (float rounding of `f.norm`), `t` the
    tolerance.  If the exact squared norm is `0` or beyond `(t + δ)²` — the generated inputs are exactly degenerate or at
    least 200·TOL away — then `s' < t ↔ n < t²` and `s' > t ↔ n > t²`: `Edge.is_valid` / `ArcEdgeBase.is_valid` in
    floating point take the branch the model's `valid` takes.  (What remains outside any theorem: inputs inside the band
    `0 < n ≤ (t + δ)²`, where the two may differ and the property text does not say which is right.) -/
theorem T_C07_tol_margin (s s' n t δ : Rat) (hs : 0 ≤ s) (hsn : s * s = n) (hδ0 : 0 ≤ δ) (hδt : δ < t)
    (hlo : s - δ ≤ s') (hhi : s' ≤ s + δ) (hmargin : n = 0 ∨ (t + δ) * (t + δ) < n) :
    (s' < t ↔ n < t * t) ∧ (s' > t ↔ n > t * t) := by
  subst hsn
  rcases hmargin with h0 | hbig
  · have hs0 : s = 0 := by
      rcases mul_eq_zero.mp h0 with h | h <;> exact h
    subst hs0
    have ht : 0 < t := lt_of_le_of_lt hδ0 hδt
    have htt : 0 < t * t := mul_pos ht ht
    constructor
    · constructor
      · intro _; linarith
      · intro _; linarith
    · constructor
      · intro h; linarith
      · intro h; linarith
  · have ht : 0 < t := lt_of_le_of_lt hδ0 hδt
    have hst : t + δ < s := by
      by_contra hc
      have hc : s ≤ t + δ := not_lt.mp hc
      nlinarith
    constructor
    · constructor
      · intro h; linarith
      · intro h; nlinarith
    · constructor
      · intro _; nlinarith
      · intro _; linarith

/-- non-vacuity with the numbers of the check: TOL = 1e-7, rounding error below 1e-9, an edge of length 200·TOL -/
example : let t : Rat := 1 / 10000000; let δ : Rat := 1 / 1000000000; let s : Rat := 200 * t
    (0 ≤ s) ∧ (0 ≤ δ) ∧ (δ < t) ∧ ((t + δ) * (t + δ) < s * s) := by decide +kernel

/-- `Edge.is_valid` / `ArcEdgeBase.is_valid` / `EdgeList.find` / `EdgeList.add` as the source writes them (tests in
    order, comparison operators, the constant compared with): regenerated with `ast` on every run.  The model's `valid`
    (`kind = line`, `norm² < TOL²`, `norm²(cross) > TOL²`), `find` (set equality of the two index pairs) and `add`
    (find first; create; append only when valid; return the found or the new edge) mirror exactly these lines -/
theorem T_C07_source_tests :
    CBV.Gen.c07SourceTests =
      [("Edge.is_valid", ["if self.kind == 'line': return False",
          "if f.norm(self.vertex_1.position - self.vertex_2.position) < constants.TOL: return False", "return True"]),
       ("ArcEdgeBase.is_valid", ["if super().is_valid: v0 = self.vertex_1.position - self.third_point.position; v1 = self.vertex_2.position - self.third_point.position; return abs(f.norm(np.cross(v0, v1))) > constants.TOL",
          "return False"]),
       ("EdgeList.find", ["for v2 in self.edges",
          "if {v0.index, v1.index} == {v2.vertex_1.index, v2.vertex_2.index}: return v2",
          "raise EdgeNotFoundError"]),
       ("EdgeList.add", ["try: v3 = self.find(v0, v1)",
          "except EdgeNotFoundError: v3 = factory.create(v0, v1, v2)",
          "if v3.is_valid: self.edges.append(v3)", "return v3"])] := by rfl

/-! ### Round 6d: the `Angle` data of a `Revolve` describe the arcs between its corners -/

/-- **`Revolve`'s side-edge data are consistent with its geometry.**  `Revolve.__init__` makes the top face by turning the base
    (`CBV.C10.revolvePoints`, angle given by `(c, s)` on the unit circle, axis with length witness) and puts `Angle(angle, axis)`
    on side edges 0..3, i.e. on slots 8..11, whose entries are written from corner `i` to corner `i + 4`
    (`T_C07_direction_table`).  For every base face, angle, axis and origin and each `i`:
    * slot `8 + i` runs from corner `i` to corner `i + 4`;
    * the arc that datum describes — turn by the datum's angle about the datum's axis, centred at the foot of the first
      vertex on the axis (an `Angle` datum has no origin of its own) — sends corner `i` to corner `i + 4`, in a plane
      perpendicular to the axis (the first vertex's arm is perpendicular to it);
    * the reversed datum (`Angle.reverse()`: angle negated, what `Operation.invert` / `Face.invert` hand on) sends corner
      `i + 4` back to corner `i`, so the entry describes the same arc when it is written from the other end. -/
theorem T_C07_revolve_angle (a b c' d : V3) (c s : Rat) (axis : V3) (len : Rat) (o : V3)
    (h0 : len ≠ 0) (hl : len * len = V3.norm2 axis) (hcs : c * c + s * s = 1) :
    let pts := CBV.C10.revolvePoints [a, b, c', d] c s axis len o
    let u := V3.smul (1 / len) axis
    ∀ i, i < 4 →
      slotPair (8 + i) = (i, i + 4) ∧
      (let p := pts.getD i V3.zero
       let p' := pts.getD (i + 4) V3.zero
       let centre := o + V3.smul (V3.dot u (p - o)) u
       CBV.C10.rotU c s u centre p = p' ∧ V3.dot (p - centre) u = 0 ∧ CBV.C10.rotU c (-s) u centre p' = p) := by
  intro pts u i hi
  have hu : V3.norm2 u = 1 := CBV.C10.unit_axis axis len h0 hl
  have key : ∀ p : V3,
      CBV.C10.rotU c s u (o + V3.smul (V3.dot u (p - o)) u) p = CBV.C10.rotateP c s axis len o p ∧
      V3.dot (p - (o + V3.smul (V3.dot u (p - o)) u)) u = 0 ∧
      CBV.C10.rotU c (-s) u (o + V3.smul (V3.dot u (p - o)) u) (CBV.C10.rotateP c s axis len o p) = p := by
    intro p
    have h1 : CBV.C10.rotU c s u (o + V3.smul (V3.dot u (p - o)) u) p = CBV.C10.rotateP c s axis len o p := by
      rw [CBV.C10.rotU_axis_point c s _ u o p hu, CBV.C10.rotateP_eq]
    refine ⟨h1, ?_, ?_⟩
    · have hu' := hu
      simp only [V3.norm2, V3.dot] at hu'
      simp only [V3.dot, V3.add_x, V3.add_y, V3.add_z, V3.sub_x, V3.sub_y, V3.sub_z, V3.smul_x, V3.smul_y, V3.smul_z]
      linear_combination (-(u.x * (p.x - o.x) + u.y * (p.y - o.y) + u.z * (p.z - o.z))) * hu'
    · rw [← h1]
      exact CBV.C10.rotU_inverse c s u _ p hu hcs
  have hi' : i = 0 ∨ i = 1 ∨ i = 2 ∨ i = 3 := by omega
  rcases hi' with h | h | h | h <;> subst h
  · exact ⟨rfl, key a⟩
  · exact ⟨rfl, key b⟩
  · exact ⟨rfl, key c'⟩
  · exact ⟨rfl, key d⟩

/-- non-vacuity: a quarter turn about (0, 0, 2) through (1, 0, 0): corner 0 = (2, 0, 0) goes to corner 4 = (1, 1, 0) -/
example : (2 : Rat) ≠ 0 ∧ (2 : Rat) * 2 = V3.norm2 ⟨0, 0, 2⟩ ∧ ((0 : Rat) * 0 + 1 * 1 = 1) ∧
    (CBV.C10.revolvePoints [⟨2, 0, 0⟩, ⟨3, 0, 0⟩, ⟨3, 0, 1⟩, ⟨2, 0, 1⟩] 0 1 ⟨0, 0, 2⟩ 2 ⟨1, 0, 0⟩).getD 4 V3.zero = ⟨1, 1, 0⟩ := by
  decide +kernel

end CBV.C07
