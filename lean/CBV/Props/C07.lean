/- C07 — property theorems.  Stub. -/
import CBV.Model.C07

namespace CBV.C07

end CBV.C07
