/- C17 — property theorems.  Stub. -/
import CBV.Model.C17

namespace CBV.C17

end CBV.C17
