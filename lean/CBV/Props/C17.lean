/-
C17 — property theorems.  Line / plane / radial clamps stay on their manifold for every parameter value and a
fresh clamp reports the closest point of the manifold (the creation position when that is on it); translation,
symmetry and rotation links keep their relation for leader moves of any size; `update` does not touch the leader.
-/
import CBV.Lemmas.C17
import Mathlib.Algebra.Order.Field.Basic

namespace CBV.C17
open CBV CBV.C09

set_option linter.unusedSimpArgs false

/-! ### clamps stay on their manifold -/

/-- a `LineClamp` position is collinear with `p1, p2` for every parameter, and the parameter is the signed
    distance from `p1` (`s` being the length of `p2 − p1`) -/
theorem T_C17_line_on (p1 p2 : V3) (s t : Rat) (hs : s ≠ 0) (hw : s * s = V3.dot (p2 - p1) (p2 - p1)) :
    V3.cross (lineClamp p1 p2 s t - p1) (p2 - p1) = V3.zero ∧
      V3.dot (lineClamp p1 p2 s t - p1) (p2 - p1) = t * s ∧
      V3.norm2 (lineClamp p1 p2 s t - p1) = t * t := by
  have hd : lineClamp p1 p2 s t - p1 = V3.smul (t / s) (p2 - p1) := by
    apply V3.ext' <;> c17_unfold <;> ring
  rw [hd]
  refine ⟨?_, ?_, ?_⟩
  · apply V3.ext' <;> c17_unfold <;> ring
  · have : V3.dot (V3.smul (t / s) (p2 - p1)) (p2 - p1) = (t / s) * V3.dot (p2 - p1) (p2 - p1) := by
      c17_unfold; ring
    rw [this, ← hw]; field_simp
  · have : V3.norm2 (V3.smul (t / s) (p2 - p1)) = (t / s) * (t / s) * V3.dot (p2 - p1) (p2 - p1) := by
      c17_unfold; ring
    rw [this, ← hw]; field_simp

/-- (3,4,12)/13-type witness: the segment from (0,0,0) to (3,4,12) has length 13 -/
example : (13 : Rat) ≠ 0 ∧ (13 : Rat) * 13 = V3.dot ((⟨3, 4, 12⟩ : V3) - ⟨0, 0, 0⟩) (⟨3, 4, 12⟩ - ⟨0, 0, 0⟩) := by
  constructor
  · norm_num
  · c17_unfold; norm_num

/-- with the default bounds `0 ≤ t ≤ s` the position lies between `p1` and `p2` -/
theorem T_C17_line_segment (p1 p2 : V3) (s t : Rat) (hs : 0 < s) (h0 : 0 ≤ t) (h1 : t ≤ s) :
    ∃ l : Rat, 0 ≤ l ∧ l ≤ 1 ∧ lineClamp p1 p2 s t = p1 + V3.smul l (p2 - p1) :=
  ⟨t / s, div_nonneg h0 (le_of_lt hs), (div_le_one hs).mpr h1, rfl⟩

example : (0 : Rat) < 13 ∧ (0 : Rat) ≤ 5 ∧ (5 : Rat) ≤ 13 := by norm_num

/-- a `PlaneClamp` position satisfies the plane equation for all parameters, whatever pair of in-plane
    directions was drawn -/
theorem T_C17_plane_on (point n u v : V3) (a b : Rat) (hu : V3.dot u n = 0) (hv : V3.dot v n = 0) :
    V3.dot (planeClamp point u v a b - point) n = 0 := by
  have : V3.dot (planeClamp point u v a b - point) n = a * V3.dot u n + b * V3.dot v n := by
    c17_unfold; ring
  rw [this, hu, hv]; ring

example : V3.dot (⟨2, -2, 1⟩ : V3) ⟨1, 2, 2⟩ = 0 ∧ V3.dot (⟨2, 1, -2⟩ : V3) ⟨1, 2, 2⟩ = 0 := by
  constructor <;> (c17_unfold; norm_num)

/-- a `RadialClamp` position keeps its height along the axis and its distance from the centre — hence its radius
    about the axis — for every turn -/
theorem T_C17_radial_on (center n : V3) (w mu : Rat) (initial : V3)
    (hN : w * w + V3.dot (V3.smul mu n) (V3.smul mu n) ≠ 0) :
    V3.dot (radialClamp center n w mu initial - center) n = V3.dot (initial - center) n ∧
      V3.norm2 (radialClamp center n w mu initial - center) = V3.norm2 (initial - center) := by
  have h1 : radialClamp center n w mu initial - center = rotLin w (V3.smul mu n) (initial - center) := by
    unfold radialClamp rotP; exact add_sub_cancel' _ _
  rw [h1]
  constructor
  · generalize initial - center = v
    simp only [V3.dot] at hN
    c17_unfold
    simp only [V3.smul_x, V3.smul_y, V3.smul_z] at hN
    generalize hNd : w * w + (mu * n.x * (mu * n.x) + mu * n.y * (mu * n.y) + mu * n.z * (mu * n.z)) = N at hN ⊢
    field_simp
    ring
  · exact rotLin_dot _ _ _ _ hN

example : (2 : Rat) * 2 + V3.dot (V3.smul (1 / 2) ⟨1, 2, 2⟩) (V3.smul (1 / 2) ⟨1, 2, 2⟩) ≠ 0 := by
  c17_unfold; norm_num

/-! ### a fresh clamp reports the closest point of its manifold -/

/-- the reported position of a fresh `LineClamp` is within the bounds and at least as close to the creation
    position as every other admissible position; if the creation position is itself admissible it is reported -/
theorem T_C17_initial_line (p1 p2 : V3) (s lo hi : Rat) (pos : V3) (hs : s ≠ 0)
    (hw : s * s = V3.dot (p2 - p1) (p2 - p1)) (hb : lo ≤ hi) :
    (lo ≤ lineInitParam p1 p2 s lo hi pos ∧ lineInitParam p1 p2 s lo hi pos ≤ hi) ∧
    (∀ t, lo ≤ t → t ≤ hi → V3.norm2 (pos - lineInit p1 p2 s lo hi pos) ≤ V3.norm2 (pos - lineClamp p1 p2 s t)) ∧
    (∀ t, lo ≤ t → t ≤ hi → pos = lineClamp p1 p2 s t → lineInit p1 p2 s lo hi pos = pos) := by
  refine ⟨clampTo_mem _ _ _ hb, ?_, ?_⟩
  · intro t h1 h2
    unfold lineInit lineInitParam
    rw [dist_line_param pos p1 p2 s _ hs hw, dist_line_param pos p1 p2 s t hs hw]
    have := clampTo_closest lo hi (V3.dot (pos - p1) (p2 - p1) / s) t h1 h2
    linarith
  · intro t h1 h2 hpos
    have hm : V3.dot (pos - p1) (p2 - p1) / s = t := by
      rw [hpos, (T_C17_line_on p1 p2 s t hs hw).2.1]; field_simp
    unfold lineInit lineInitParam
    rw [hm, clampTo_id lo hi t h1 h2, ← hpos]

example : (13 : Rat) ≠ 0 ∧ (0 : Rat) ≤ 13 := by norm_num

/-- the reported position of a fresh `PlaneClamp` is the foot point: on the plane, at least as close to the
    creation position as every point of the plane, and the creation position itself when that is on the plane -/
theorem T_C17_initial_plane (point n pos : V3) (hn : V3.dot n n ≠ 0) :
    V3.dot (planeInit point n pos - point) n = 0 ∧
    (∀ x, V3.dot (x - point) n = 0 → V3.norm2 (pos - planeInit point n pos) ≤ V3.norm2 (pos - x)) ∧
    (V3.dot (pos - point) n = 0 → planeInit point n pos = pos) := by
  refine ⟨?_, ?_, ?_⟩
  · simp only [V3.dot] at hn
    c17_unfold
    generalize hNd : n.x * n.x + n.y * n.y + n.z * n.z = N at hn ⊢
    field_simp
    rw [← hNd]; ring
  · intro x hx
    have hq : V3.dot (planeInit point n pos - point) n = 0 := by
      simp only [V3.dot] at hn
      c17_unfold
      generalize hNd : n.x * n.x + n.y * n.y + n.z * n.z = N at hn ⊢
      field_simp
      rw [← hNd]; ring
    have hpq : pos - planeInit point n pos = V3.smul (V3.dot (pos - point) n / V3.dot n n) n := by
      unfold planeInit
      apply V3.ext' <;> simp only [V3.sub_x, V3.sub_y, V3.sub_z, V3.smul_x, V3.smul_y, V3.smul_z] <;> ring
    generalize planeInit point n pos = q at hq hpq ⊢
    have hsplit : V3.norm2 (pos - x) = V3.norm2 (pos - q) + V3.norm2 (q - x) + 2 * V3.dot (pos - q) (q - x) := by
      c17_unfold; ring
    have hdot : V3.dot (pos - q) (q - x) = 0 := by
      rw [hpq]
      have : V3.dot (V3.smul (V3.dot (pos - point) n / V3.dot n n) n) (q - x)
          = (V3.dot (pos - point) n / V3.dot n n) * (V3.dot (q - point) n - V3.dot (x - point) n) := by
        generalize V3.dot (pos - point) n / V3.dot n n = c
        c17_unfold; ring
      rw [this, hq, hx]; ring
    have hnn : 0 ≤ V3.norm2 (q - x) := by
      simp only [V3.norm2, V3.dot]
      nlinarith [mul_self_nonneg (q - x).x, mul_self_nonneg (q - x).y, mul_self_nonneg (q - x).z]
    rw [hsplit, hdot]; linarith
  · intro h
    unfold planeInit
    rw [h]
    apply V3.ext' <;> c17_unfold <;> simp

example : V3.dot (⟨1, -3, 2⟩ : V3) ⟨1, -3, 2⟩ ≠ 0 := by c17_unfold; norm_num

/-- a fresh `RadialClamp` (parameter 0, no turn) reports its creation position -/
theorem T_C17_initial_radial (center n : V3) (w : Rat) (initial : V3) :
    radialClamp center n w 0 initial = initial := by
  apply V3.ext' <;> c17_unfold <;> ring

/-! ### links -/

/-- `TranslationLink`: the follower is the leader displaced by the original offset, wherever the leader goes -/
theorem T_C17_translation (l0 f0 l1 : V3) : translationLink l0 f0 l1 - l1 = f0 - l0 := by
  apply V3.ext' <;> c17_unfold <;> ring

/-- `SymmetryLink`: the follower is the leader's mirror image — the midpoint lies on the plane, the connecting
    vector is parallel to the normal, mirroring twice gives the leader back, a leader on the plane is its own image -/
theorem T_C17_symmetry (n o l : V3) (hn : V3.dot n n ≠ 0) :
    V3.dot (V3.smul (1 / 2) (l + symmetryLink n o l) - o) n = 0 ∧
    V3.cross (symmetryLink n o l - l) n = V3.zero ∧
    symmetryLink n o (symmetryLink n o l) = l ∧
    (V3.dot (l - o) n = 0 → symmetryLink n o l = l) := by
  refine ⟨?_, ?_, ?_, ?_⟩
  · simp only [V3.dot] at hn
    c17_unfold
    generalize hNd : n.x * n.x + n.y * n.y + n.z * n.z = N at hn ⊢
    field_simp
    rw [← hNd]; ring
  · apply V3.ext' <;> c17_unfold <;> ring
  · exact (T_C09_point_mirror_aux n o l hn).1
  · exact (T_C09_point_mirror_aux n o l hn).2

example : V3.dot (⟨2, 1, -3⟩ : V3) ⟨2, 1, -3⟩ ≠ 0 := by c17_unfold; norm_num

/-- `RotationLink`: when the leader is turned about the link's axis, the follower keeps its height and its distance
    from the origin (hence its radius) and is turned by the same angle: the cosine and the sine of the turn of the
    radius vectors agree (cross-multiplied by the squared radii, so that no square root is needed) -/
theorem T_C17_rotation (w : Rat) (a o l0 f0 : V3) (hN : w * w + V3.dot a a ≠ 0) :
    let l1 := rotP w a o l0
    let f1 := rotationLink w a o f0
    V3.dot (f1 - o) a = V3.dot (f0 - o) a ∧
    V3.norm2 (f1 - o) = V3.norm2 (f0 - o) ∧
    V3.norm2 (radial a o f1) = V3.norm2 (radial a o f0) ∧
    V3.dot (radial a o f0) (radial a o f1) * V3.norm2 (radial a o l0)
      = V3.dot (radial a o l0) (radial a o l1) * V3.norm2 (radial a o f0) ∧
    V3.dot (V3.cross (radial a o f0) (radial a o f1)) a * V3.norm2 (radial a o l0)
      = V3.dot (V3.cross (radial a o l0) (radial a o l1)) a * V3.norm2 (radial a o f0) := by
  intro l1 f1
  have hf : f1 - o = rotLin w a (f0 - o) := by
    show rotP w a o f0 - o = _
    unfold rotP; exact add_sub_cancel' _ _
  have hrf : radial a o f1 = rotLin w a (radial a o f0) := radial_rot w a o f0 hN
  have hrl : radial a o l1 = rotLin w a (radial a o l0) := radial_rot w a o l0 hN
  have hsin : ∀ u, V3.dot a u = 0 →
      (w * w + V3.dot a a) * V3.dot (V3.cross u (rotLin w a u)) a = 2 * w * V3.dot a a * V3.dot u u := by
    intro u hu
    have h := rotLin_sin w a u hN hu
    have h2 : V3.dot (V3.smul (w * w + V3.dot a a) (V3.cross u (rotLin w a u))) a
        = V3.dot (V3.smul (2 * w * V3.dot u u) a) a := by rw [h]
    have e1 : ∀ (c : Rat) (x y : V3), V3.dot (V3.smul c x) y = c * V3.dot x y := by
      intro c x y; c17_unfold; ring
    rw [e1, e1] at h2
    linarith
  refine ⟨?_, ?_, ?_, ?_, ?_⟩
  · rw [hf]
    have := rotLin_dot w a (f0 - o) a hN
    rwa [rotLin_axis] at this
  · rw [hf]; exact rotLin_dot _ _ _ _ hN
  · rw [hrf]; exact rotLin_dot _ _ _ _ hN
  · rw [hrf, hrl]
    have hA := rotLin_cos w a _ hN (radial_perp a o f0)
    have hB := rotLin_cos w a _ hN (radial_perp a o l0)
    apply mul_left_cancel₀ hN
    simp only [V3.norm2]
    linear_combination (V3.dot (radial a o l0) (radial a o l0)) * hA - (V3.dot (radial a o f0) (radial a o f0)) * hB
  · rw [hrf, hrl]
    have hA := hsin _ (radial_perp a o f0)
    have hB := hsin _ (radial_perp a o l0)
    apply mul_left_cancel₀ hN
    simp only [V3.norm2]
    linear_combination (V3.dot (radial a o l0) (radial a o l0)) * hA - (V3.dot (radial a o f0) (radial a o f0)) * hB

example : (3 : Rat) * 3 + V3.dot (⟨1, 2, 2⟩ : V3) ⟨1, 2, 2⟩ ≠ 0 := by c17_unfold; norm_num

/-- the decidable relation the correspondence check uses for arbitrary leader moves (`c17.rvalid`) accepts, with
    tolerance 0, exactly this follower whenever the move is a rotation about the axis -/
theorem T_C17_rotation_valid (w : Rat) (a o l0 f0 : V3) (hN : w * w + V3.dot a a ≠ 0) :
    rotValid a o l0 (rotP w a o l0) f0 (rotationLink w a o f0) 0 = none := by
  obtain ⟨h1, _, h3, h4, h5⟩ := T_C17_rotation w a o l0 f0 hN
  have z : absR 0 = 0 := by simp [absR]
  unfold rotValid
  simp [h1, h3, h4, h5, z]

/-- `update()` returns a new follower and leaves the leader exactly as the caller set it -/
theorem T_C17_pure (l : Link) (transform : V3 → V3) :
    (l.update transform).leader = l.leader ∧ (l.update transform).follower = transform l.leader :=
  ⟨rfl, rfl⟩

/-- histories: after any sequence of leader moves and updates the link holds the last leader and the follower
    that belongs to it — nothing of the earlier moves (no remembered leader, no stale follower) survives -/
theorem T_C17_history (l : Link) (transform : V3 → V3) (ps : List V3) (p : V3) :
    (l.run transform (ps ++ [p])).leader = p ∧ (l.run transform (ps ++ [p])).follower = transform p := by
  induction ps generalizing l with
  | nil => exact ⟨rfl, rfl⟩
  | cons q qs ih => exact ih _

/-- moving a leader through the grid: EVERY link of the leader — not only the first — ends with its follower's grid
    point at `transform(new leader)`, the leader's point is the given position, and no other point moves -/
theorem T_C17_grid_all_links (links : List (Nat × (V3 → V3))) (li : Nat) (p : V3) (pts : List V3)
    (hnd : (links.map Prod.fst).Nodup) (hli : li ∉ links.map Prod.fst) (hlen : li < pts.length)
    (hin : ∀ l ∈ links, l.1 < pts.length) :
    (∀ l ∈ links, (gridUpdate links li p pts).getD l.1 V3.zero = l.2 p) ∧
    (gridUpdate links li p pts).getD li V3.zero = p ∧
    (∀ j, j ≠ li → j ∉ links.map Prod.fst → (gridUpdate links li p pts).getD j V3.zero = pts.getD j V3.zero) := by
  unfold gridUpdate
  refine ⟨?_, ?_, ?_⟩
  · intro l hl
    exact foldl_set_written links p _ l hnd hl (by simp; exact hin l hl)
  · rw [foldl_set_untouched links p _ li hli]
    exact getD_set_eq' _ _ _ hlen
  · intro j hj hjl
    rw [foldl_set_untouched links p _ j hjl]
    exact getD_set_ne' _ _ _ _ (fun h => hj h.symm)

example : (([(4, fun q => q), (7, fun q => q)] : List (Nat × (V3 → V3))).map Prod.fst).Nodup ∧
    1 ∉ ([(4, fun q => q), (7, fun q => q)] : List (Nat × (V3 → V3))).map Prod.fst := by
  constructor <;> decide

end CBV.C17