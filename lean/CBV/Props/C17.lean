/-
C17 — property theorems.  Line / plane / radial clamps stay on their manifold for every parameter value and a
fresh clamp reports the closest point of the manifold (the creation position when that is on it); translation,
symmetry and rotation links keep their relation for leader moves of any size; `update` does not touch the leader.
-/
import CBV.Lemmas.C17
import CBV.Lemmas.C17Unique
import CBV.Lemmas.C17Chord
import Mathlib.Algebra.Order.Field.Basic
import CBV.Gen.TC17

namespace CBV.C17
open CBV CBV.C09

set_option linter.unusedSimpArgs false

/-! ### clamps stay on their manifold -/

/-- a `LineClamp` position is collinear with `p1, p2` for every parameter, and the parameter is the signed
    distance from `p1` (`s` being the length of `p2 − p1`) -/
theorem T_C17_line_on (p1 p2 : V3) (s t : Rat) (hs : s ≠ 0) (hw : s * s = V3.dot (p2 - p1) (p2 - p1)) :
    V3.cross (lineClamp p1 p2 s t - p1) (p2 - p1) = V3.zero ∧
      V3.dot (lineClamp p1 p2 s t - p1) (p2 - p1) = t * s ∧
      V3.norm2 (lineClamp p1 p2 s t - p1) = t * t := by
  have hd : lineClamp p1 p2 s t - p1 = V3.smul (t / s) (p2 - p1) := by
    apply V3.ext' <;> c17_unfold <;> ring
  rw [hd]
  refine ⟨?_, ?_, ?_⟩
  · apply V3.ext' <;> c17_unfold <;> ring
  · have : V3.dot (V3.smul (t / s) (p2 - p1)) (p2 - p1) = (t / s) * V3.dot (p2 - p1) (p2 - p1) := by
      c17_unfold; ring
    rw [this, ← hw]; field_simp
  · have : V3.norm2 (V3.smul (t / s) (p2 - p1)) = (t / s) * (t / s) * V3.dot (p2 - p1) (p2 - p1) := by
      c17_unfold; ring
    rw [this, ← hw]; field_simp

/-- (3,4,12)/13-type witness: the segment from (0,0,0) to (3,4,12) has length 13 -/
example : (13 : Rat) ≠ 0 ∧ (13 : Rat) * 13 = V3.dot ((⟨3, 4, 12⟩ : V3) - ⟨0, 0, 0⟩) (⟨3, 4, 12⟩ - ⟨0, 0, 0⟩) := by
  constructor
  · norm_num
  · c17_unfold; norm_num

/-- with the default bounds `0 ≤ t ≤ s` the position lies between `p1` and `p2` -/
theorem T_C17_line_segment (p1 p2 : V3) (s t : Rat) (hs : 0 < s) (h0 : 0 ≤ t) (h1 : t ≤ s) :
    ∃ l : Rat, 0 ≤ l ∧ l ≤ 1 ∧ lineClamp p1 p2 s t = p1 + V3.smul l (p2 - p1) :=
  ⟨t / s, div_nonneg h0 (le_of_lt hs), (div_le_one hs).mpr h1, rfl⟩

example : (0 : Rat) < 13 ∧ (0 : Rat) ≤ 5 ∧ (5 : Rat) ≤ 13 := by norm_num

/-- a `PlaneClamp` position satisfies the plane equation for all parameters, whatever pair of in-plane
    directions was drawn -/
theorem T_C17_plane_on (point n u v : V3) (a b : Rat) (hu : V3.dot u n = 0) (hv : V3.dot v n = 0) :
    V3.dot (planeClamp point u v a b - point) n = 0 := by
  have : V3.dot (planeClamp point u v a b - point) n = a * V3.dot u n + b * V3.dot v n := by
    c17_unfold; ring
  rw [this, hu, hv]; ring

example : V3.dot (⟨2, -2, 1⟩ : V3) ⟨1, 2, 2⟩ = 0 ∧ V3.dot (⟨2, 1, -2⟩ : V3) ⟨1, 2, 2⟩ = 0 := by
  constructor <;> (c17_unfold; norm_num)

/-- a `RadialClamp` position keeps its height along the axis and its distance from the centre — hence its radius
    about the axis — for every turn -/
theorem T_C17_radial_on (center n : V3) (w mu : Rat) (initial : V3)
    (hN : w * w + V3.dot (V3.smul mu n) (V3.smul mu n) ≠ 0) :
    V3.dot (radialClamp center n w mu initial - center) n = V3.dot (initial - center) n ∧
      V3.norm2 (radialClamp center n w mu initial - center) = V3.norm2 (initial - center) := by
  have h1 : radialClamp center n w mu initial - center = rotLin w (V3.smul mu n) (initial - center) := by
    unfold radialClamp rotP; exact add_sub_cancel' _ _
  rw [h1]
  constructor
  · generalize initial - center = v
    simp only [V3.dot] at hN
    c17_unfold
    simp only [V3.smul_x, V3.smul_y, V3.smul_z] at hN
    generalize hNd : w * w + (mu * n.x * (mu * n.x) + mu * n.y * (mu * n.y) + mu * n.z * (mu * n.z)) = N at hN ⊢
    field_simp
    ring
  · exact rotLin_dot _ _ _ _ hN

example : (2 : Rat) * 2 + V3.dot (V3.smul (1 / 2) ⟨1, 2, 2⟩) (V3.smul (1 / 2) ⟨1, 2, 2⟩) ≠ 0 := by
  c17_unfold; norm_num

/-! ### a fresh clamp reports the closest point of its manifold -/

/-- the reported position of a fresh `LineClamp` is within the bounds and at least as close to the creation
    position as every other admissible position; if the creation position is itself admissible it is reported -/
theorem T_C17_initial_line (p1 p2 : V3) (s lo hi : Rat) (pos : V3) (hs : s ≠ 0)
    (hw : s * s = V3.dot (p2 - p1) (p2 - p1)) (hb : lo ≤ hi) :
    (lo ≤ lineInitParam p1 p2 s lo hi pos ∧ lineInitParam p1 p2 s lo hi pos ≤ hi) ∧
    (∀ t, lo ≤ t → t ≤ hi → V3.norm2 (pos - lineInit p1 p2 s lo hi pos) ≤ V3.norm2 (pos - lineClamp p1 p2 s t)) ∧
    (∀ t, lo ≤ t → t ≤ hi → pos = lineClamp p1 p2 s t → lineInit p1 p2 s lo hi pos = pos) := by
  refine ⟨clampTo_mem _ _ _ hb, ?_, ?_⟩
  · intro t h1 h2
    unfold lineInit lineInitParam
    rw [dist_line_param pos p1 p2 s _ hs hw, dist_line_param pos p1 p2 s t hs hw]
    have := clampTo_closest lo hi (V3.dot (pos - p1) (p2 - p1) / s) t h1 h2
    linarith
  · intro t h1 h2 hpos
    have hm : V3.dot (pos - p1) (p2 - p1) / s = t := by
      rw [hpos, (T_C17_line_on p1 p2 s t hs hw).2.1]; field_simp
    unfold lineInit lineInitParam
    rw [hm, clampTo_id lo hi t h1 h2, ← hpos]

example : (13 : Rat) ≠ 0 ∧ (0 : Rat) ≤ 13 := by norm_num

/-- the reported position of a fresh `PlaneClamp` is the foot point: on the plane, at least as close to the
    creation position as every point of the plane, and the creation position itself when that is on the plane -/
theorem T_C17_initial_plane (point n pos : V3) (hn : V3.dot n n ≠ 0) :
    V3.dot (planeInit point n pos - point) n = 0 ∧
    (∀ x, V3.dot (x - point) n = 0 → V3.norm2 (pos - planeInit point n pos) ≤ V3.norm2 (pos - x)) ∧
    (V3.dot (pos - point) n = 0 → planeInit point n pos = pos) := by
  refine ⟨?_, ?_, ?_⟩
  · simp only [V3.dot] at hn
    c17_unfold
    generalize hNd : n.x * n.x + n.y * n.y + n.z * n.z = N at hn ⊢
    field_simp
    rw [← hNd]; ring
  · intro x hx
    have hq : V3.dot (planeInit point n pos - point) n = 0 := by
      simp only [V3.dot] at hn
      c17_unfold
      generalize hNd : n.x * n.x + n.y * n.y + n.z * n.z = N at hn ⊢
      field_simp
      rw [← hNd]; ring
    have hpq : pos - planeInit point n pos = V3.smul (V3.dot (pos - point) n / V3.dot n n) n := by
      unfold planeInit
      apply V3.ext' <;> simp only [V3.sub_x, V3.sub_y, V3.sub_z, V3.smul_x, V3.smul_y, V3.smul_z] <;> ring
    generalize planeInit point n pos = q at hq hpq ⊢
    have hsplit : V3.norm2 (pos - x) = V3.norm2 (pos - q) + V3.norm2 (q - x) + 2 * V3.dot (pos - q) (q - x) := by
      c17_unfold; ring
    have hdot : V3.dot (pos - q) (q - x) = 0 := by
      rw [hpq]
      have : V3.dot (V3.smul (V3.dot (pos - point) n / V3.dot n n) n) (q - x)
          = (V3.dot (pos - point) n / V3.dot n n) * (V3.dot (q - point) n - V3.dot (x - point) n) := by
        generalize V3.dot (pos - point) n / V3.dot n n = c
        c17_unfold; ring
      rw [this, hq, hx]; ring
    have hnn : 0 ≤ V3.norm2 (q - x) := by
      simp only [V3.norm2, V3.dot]
      nlinarith [mul_self_nonneg (q - x).x, mul_self_nonneg (q - x).y, mul_self_nonneg (q - x).z]
    rw [hsplit, hdot]; linarith
  · intro h
    unfold planeInit
    rw [h]
    apply V3.ext' <;> c17_unfold <;> simp

example : V3.dot (⟨1, -3, 2⟩ : V3) ⟨1, -3, 2⟩ ≠ 0 := by c17_unfold; norm_num

/-- a fresh `RadialClamp` (parameter 0, no turn) reports its creation position -/
theorem T_C17_initial_radial (center n : V3) (w : Rat) (initial : V3) :
    radialClamp center n w 0 initial = initial := by
  apply V3.ext' <;> c17_unfold <;> ring

/-! ### links -/

/-- `TranslationLink`: the follower is the leader displaced by the original offset, wherever the leader goes -/
theorem T_C17_translation (l0 f0 l1 : V3) : translationLink l0 f0 l1 - l1 = f0 - l0 := by
  apply V3.ext' <;> c17_unfold <;> ring

/-- `SymmetryLink`: the follower is the leader's mirror image — the midpoint lies on the plane, the connecting
    vector is parallel to the normal, mirroring twice gives the leader back, a leader on the plane is its own image -/
theorem T_C17_symmetry (n o l : V3) (hn : V3.dot n n ≠ 0) :
    V3.dot (V3.smul (1 / 2) (l + symmetryLink n o l) - o) n = 0 ∧
    V3.cross (symmetryLink n o l - l) n = V3.zero ∧
    symmetryLink n o (symmetryLink n o l) = l ∧
    (V3.dot (l - o) n = 0 → symmetryLink n o l = l) := by
  refine ⟨?_, ?_, ?_, ?_⟩
  · simp only [V3.dot] at hn
    c17_unfold
    generalize hNd : n.x * n.x + n.y * n.y + n.z * n.z = N at hn ⊢
    field_simp
    rw [← hNd]; ring
  · apply V3.ext' <;> c17_unfold <;> ring
  · exact (T_C09_point_mirror_aux n o l hn).1
  · exact (T_C09_point_mirror_aux n o l hn).2

example : V3.dot (⟨2, 1, -3⟩ : V3) ⟨2, 1, -3⟩ ≠ 0 := by c17_unfold; norm_num

/-- `RotationLink`: when the leader is turned about the link's axis, the follower keeps its height and its distance
    from the origin (hence its radius) and is turned by the same angle: the cosine and the sine of the turn of the
    radius vectors agree (cross-multiplied by the squared radii, so that no square root is needed) -/
theorem T_C17_rotation (w : Rat) (a o l0 f0 : V3) (hN : w * w + V3.dot a a ≠ 0) :
    let l1 := rotP w a o l0
    let f1 := rotationLink w a o f0
    V3.dot (f1 - o) a = V3.dot (f0 - o) a ∧
    V3.norm2 (f1 - o) = V3.norm2 (f0 - o) ∧
    V3.norm2 (radial a o f1) = V3.norm2 (radial a o f0) ∧
    V3.dot (radial a o f0) (radial a o f1) * V3.norm2 (radial a o l0)
      = V3.dot (radial a o l0) (radial a o l1) * V3.norm2 (radial a o f0) ∧
    V3.dot (V3.cross (radial a o f0) (radial a o f1)) a * V3.norm2 (radial a o l0)
      = V3.dot (V3.cross (radial a o l0) (radial a o l1)) a * V3.norm2 (radial a o f0) := by
  intro l1 f1
  have hf : f1 - o = rotLin w a (f0 - o) := by
    show rotP w a o f0 - o = _
    unfold rotP; exact add_sub_cancel' _ _
  have hrf : radial a o f1 = rotLin w a (radial a o f0) := radial_rot w a o f0 hN
  have hrl : radial a o l1 = rotLin w a (radial a o l0) := radial_rot w a o l0 hN
  have hsin : ∀ u, V3.dot a u = 0 →
      (w * w + V3.dot a a) * V3.dot (V3.cross u (rotLin w a u)) a = 2 * w * V3.dot a a * V3.dot u u := by
    intro u hu
    have h := rotLin_sin w a u hN hu
    have h2 : V3.dot (V3.smul (w * w + V3.dot a a) (V3.cross u (rotLin w a u))) a
        = V3.dot (V3.smul (2 * w * V3.dot u u) a) a := by rw [h]
    have e1 : ∀ (c : Rat) (x y : V3), V3.dot (V3.smul c x) y = c * V3.dot x y := by
      intro c x y; c17_unfold; ring
    rw [e1, e1] at h2
    linarith
  refine ⟨?_, ?_, ?_, ?_, ?_⟩
  · rw [hf]
    have := rotLin_dot w a (f0 - o) a hN
    rwa [rotLin_axis] at this
  · rw [hf]; exact rotLin_dot _ _ _ _ hN
  · rw [hrf]; exact rotLin_dot _ _ _ _ hN
  · rw [hrf, hrl]
    have hA := rotLin_cos w a _ hN (radial_perp a o f0)
    have hB := rotLin_cos w a _ hN (radial_perp a o l0)
    apply mul_left_cancel₀ hN
    simp only [V3.norm2]
    linear_combination (V3.dot (radial a o l0) (radial a o l0)) * hA - (V3.dot (radial a o f0) (radial a o f0)) * hB
  · rw [hrf, hrl]
    have hA := hsin _ (radial_perp a o f0)
    have hB := hsin _ (radial_perp a o l0)
    apply mul_left_cancel₀ hN
    simp only [V3.norm2]
    linear_combination (V3.dot (radial a o l0) (radial a o l0)) * hA - (V3.dot (radial a o f0) (radial a o f0)) * hB

example : (3 : Rat) * 3 + V3.dot (⟨1, 2, 2⟩ : V3) ⟨1, 2, 2⟩ ≠ 0 := by c17_unfold; norm_num

/-- the decidable relation the correspondence check uses for arbitrary leader moves (`c17.rvalid`) accepts, with
    tolerance 0, exactly this follower whenever the move is a rotation about the axis -/
theorem T_C17_rotation_valid (w : Rat) (a o l0 f0 : V3) (hN : w * w + V3.dot a a ≠ 0) :
    rotValid a o l0 (rotP w a o l0) f0 (rotationLink w a o f0) 0 = none := by
  obtain ⟨h1, _, h3, h4, h5⟩ := T_C17_rotation w a o l0 f0 hN
  have z : absR 0 = 0 := by simp [absR]
  unfold rotValid
  simp [h1, h3, h4, h5, z]

/-- `update()` returns a new follower and leaves the leader exactly as the caller set it -/
theorem T_C17_pure (l : Link) (transform : V3 → V3) :
    (l.update transform).leader = l.leader ∧ (l.update transform).follower = transform l.leader :=
  ⟨rfl, rfl⟩

/-- histories: after any sequence of leader moves and updates the link holds the last leader and the follower
    that belongs to it — nothing of the earlier moves (no remembered leader, no stale follower) survives -/
theorem T_C17_history (l : Link) (transform : V3 → V3) (ps : List V3) (p : V3) :
    (l.run transform (ps ++ [p])).leader = p ∧ (l.run transform (ps ++ [p])).follower = transform p := by
  induction ps generalizing l with
  | nil => exact ⟨rfl, rfl⟩
  | cons q qs ih => exact ih _

/-- moving a leader through the grid: EVERY link of the leader — not only the first — ends with its follower's grid
    point at `transform(new leader)`, the leader's point is the given position, and no other point moves -/
theorem T_C17_grid_all_links (links : List (Nat × (V3 → V3))) (li : Nat) (p : V3) (pts : List V3)
    (hnd : (links.map Prod.fst).Nodup) (hli : li ∉ links.map Prod.fst) (hlen : li < pts.length)
    (hin : ∀ l ∈ links, l.1 < pts.length) :
    (∀ l ∈ links, (gridUpdate links li p pts).getD l.1 V3.zero = l.2 p) ∧
    (gridUpdate links li p pts).getD li V3.zero = p ∧
    (∀ j, j ≠ li → j ∉ links.map Prod.fst → (gridUpdate links li p pts).getD j V3.zero = pts.getD j V3.zero) := by
  unfold gridUpdate
  refine ⟨?_, ?_, ?_⟩
  · intro l hl
    exact foldl_set_written links p _ l hnd hl (by simp; exact hin l hl)
  · rw [foldl_set_untouched links p _ li hli]
    exact getD_set_eq' _ _ _ hlen
  · intro j hj hjl
    rw [foldl_set_untouched links p _ j hjl]
    exact getD_set_ne' _ _ _ _ (fun h => hj h.symm)

example : (([(4, fun q => q), (7, fun q => q)] : List (Nat × (V3 → V3))).map Prod.fst).Nodup ∧
    1 ∉ ([(4, fun q => q), (7, fun q => q)] : List (Nat × (V3 → V3))).map Prod.fst := by
  constructor <;> decide

/-! ### Round 6: clamps on curves and parametric surfaces (exactly representable families) -/

/-- `CurveClamp` on a `LineCurve`: for EVERY parameter the position is on the line through `point_1`, `point_2`
    (collinear), parameter 0 / 1 are the two points, equal parameter steps are equal displacements, and for a
    parameter within `[0, 1]` the position is on the segment -/
theorem T_C17_curve_line_on (p1 p2 : V3) (t : Rat) :
    V3.cross (curveLine p1 p2 t - p1) (p2 - p1) = V3.zero ∧ curveLine p1 p2 0 = p1 ∧ curveLine p1 p2 1 = p2 ∧
      (∀ s, curveLine p1 p2 t - curveLine p1 p2 s = V3.smul (t - s) (p2 - p1)) ∧
      (0 ≤ t → t ≤ 1 → ∃ lam, 0 ≤ lam ∧ lam ≤ 1 ∧ curveLine p1 p2 t = V3.smul (1 - lam) p1 + V3.smul lam p2) := by
  refine ⟨?_, ?_, ?_, ?_, ?_⟩
  · apply V3.ext' <;> simp only [curveLine] <;> c17_unfold <;> ring
  · apply V3.ext' <;> simp only [curveLine] <;> c17_unfold <;> ring
  · apply V3.ext' <;> simp only [curveLine] <;> c17_unfold <;> ring
  · intro s; apply V3.ext' <;> simp only [curveLine] <;> c17_unfold <;> ring
  · intro h0 h1
    refine ⟨t, h0, h1, ?_⟩
    apply V3.ext' <;> simp only [curveLine] <;> c17_unfold <;> ring

/-- a fresh `CurveClamp` on a `LineCurve` with bounds `[b0, b1]`: the closed-form parameter is within the bounds, its
    point is at least as close to the creation position as the point of every admissible parameter, and it is the
    creation position when that is an admissible point of the curve (what `get_closest_param` + `minimize` look for) -/
theorem T_C17_initial_curve_line (p1 p2 : V3) (b0 b1 : Rat) (pos : V3) (hd : V3.dot (p2 - p1) (p2 - p1) ≠ 0)
    (hb : b0 ≤ b1) :
    (b0 ≤ curveLineInitParam p1 p2 b0 b1 pos ∧ curveLineInitParam p1 p2 b0 b1 pos ≤ b1) ∧
    (∀ t, b0 ≤ t → t ≤ b1 → V3.norm2 (pos - curveLineInit p1 p2 b0 b1 pos) ≤ V3.norm2 (pos - curveLine p1 p2 t)) ∧
    (∀ t, b0 ≤ t → t ≤ b1 → pos = curveLine p1 p2 t → curveLineInit p1 p2 b0 b1 pos = pos) := by
  have hD : 0 < V3.dot (p2 - p1) (p2 - p1) := by
    have : 0 ≤ V3.dot (p2 - p1) (p2 - p1) := by
      simp only [V3.dot]; nlinarith [mul_self_nonneg (p2 - p1).x, mul_self_nonneg (p2 - p1).y, mul_self_nonneg (p2 - p1).z]
    exact lt_of_le_of_ne this (Ne.symm hd)
  -- squared distance as a quadratic in the parameter
  have hq : ∀ t, V3.norm2 (pos - curveLine p1 p2 t) =
      V3.norm2 (pos - p1) - V3.dot (pos - p1) (p2 - p1) * V3.dot (pos - p1) (p2 - p1) / V3.dot (p2 - p1) (p2 - p1)
        + V3.dot (p2 - p1) (p2 - p1) * ((t - V3.dot (pos - p1) (p2 - p1) / V3.dot (p2 - p1) (p2 - p1)) *
            (t - V3.dot (pos - p1) (p2 - p1) / V3.dot (p2 - p1) (p2 - p1))) := by
    intro t
    unfold curveLine
    rw [dist_line]
    field_simp
    ring
  refine ⟨clampTo_mem _ _ _ hb, ?_, ?_⟩
  · intro t h1 h2
    unfold curveLineInit
    rw [hq, hq t]
    have := clampTo_closest b0 b1 (V3.dot (pos - p1) (p2 - p1) / V3.dot (p2 - p1) (p2 - p1)) t h1 h2
    unfold curveLineInitParam
    nlinarith
  · intro t h1 h2 hpos
    have hm : V3.dot (pos - p1) (p2 - p1) / V3.dot (p2 - p1) (p2 - p1) = t := by
      have : V3.dot (pos - p1) (p2 - p1) = t * V3.dot (p2 - p1) (p2 - p1) := by
        rw [hpos]; simp only [curveLine]; c17_unfold; ring
      rw [this]; field_simp
    unfold curveLineInit curveLineInitParam
    rw [hm, clampTo_id b0 b1 t h1 h2, ← hpos]

example : V3.dot ((⟨4, 1, 0⟩ : V3) - ⟨0, 0, 0⟩) (⟨4, 1, 0⟩ - ⟨0, 0, 0⟩) ≠ 0 ∧ (0 : Rat) ≤ 1 := by
  constructor
  · c17_unfold; norm_num
  · norm_num

/-- `CurveClamp` on a `LinearInterpolatedCurve` (piecewise linear through the knots, whatever their parameters —
    chord length or index — as long as they increase): for every parameter of the knot range the position exists and
    lies on ONE segment of the polyline, between two consecutive points, at the fraction its parameter has between
    the two knot parameters -/
theorem T_C17_curve_polyline_on (ks : List (Rat × V3)) (t : Rat) (hk : knotsOk ks = true) :
    (∀ p, polyEval ks t = some p →
      ∃ a b lam, (a, b) ∈ ks.zip ks.tail ∧ 0 ≤ lam ∧ lam ≤ 1 ∧ a.1 ≤ t ∧ t ≤ b.1 ∧
        p = a.2 + V3.smul lam (b.2 - a.2) ∧ lam * (b.1 - a.1) = t - a.1) ∧
    (∀ k0, ks.head? = some k0 → 2 ≤ ks.length → k0.1 ≤ t → (∀ kl, ks.getLast? = some kl → t ≤ kl.1) →
      (polyEval ks t).isSome = true) :=
  ⟨fun p hp => polyEval_on_segment ks t p hk hp, fun k0 h1 h2 h3 h4 => polyEval_defined ks t k0 h1 h2 h3 h4⟩

example : knotsOk [(0, ⟨0, 0, 0⟩), (1 / 3, ⟨1, 0, 0⟩), (1, ⟨1, 2, 0⟩)] = true ∧
    polyEval [(0, ⟨0, 0, 0⟩), (1 / 3, ⟨1, 0, 0⟩), (1, ⟨1, 2, 0⟩)] (2 / 3) = some ⟨1, 1, 0⟩ := by
  constructor
  · simp [knotsOk]; norm_num
  · simp only [polyEval]; norm_num
    apply V3.ext' <;> c17_unfold <;> norm_num

/-- at a knot parameter the polyline passes through the knot's point (interpolation), from both sides -/
theorem T_C17_curve_polyline_knots (a b c : Rat × V3) (rest : List (Rat × V3)) (hab : a.1 < b.1) (hbc : b.1 < c.1) :
    polyEval (a :: b :: c :: rest) a.1 = some a.2 ∧ polyEval (a :: b :: c :: rest) b.1 = some b.2 ∧
      polyEval (b :: c :: rest) b.1 = some b.2 := by
  have e0 : ∀ (x y : V3), x + V3.smul 0 (y - x) = x := by
    intro x y; apply V3.ext' <;> c17_unfold <;> ring
  have e1 : ∀ (x y : V3), x + V3.smul 1 (y - x) = y := by
    intro x y; apply V3.ext' <;> c17_unfold <;> ring
  refine ⟨?_, ?_, ?_⟩
  · simp only [polyEval, lt_irrefl, if_false, le_of_lt hab, if_true, sub_self, zero_div, e0]
  · have hne : b.1 - a.1 ≠ 0 := by linarith
    simp only [polyEval, not_lt.mpr (le_of_lt hab), if_false, le_refl, if_true, div_self hne, e1]
  · simp only [polyEval, lt_irrefl, if_false, le_of_lt hbc, if_true, sub_self, zero_div, e0]

example : ((0 : Rat), (⟨0, 0, 0⟩ : V3)).1 < ((1 : Rat), (⟨1, 0, 0⟩ : V3)).1 := by norm_num

/-- `ParametricSurfaceClamp` on a plane `o + u·a + v·b`: for all parameters the position is in the plane through `o`
    normal to `a × b` -/
theorem T_C17_surface_plane_on (o a b : V3) (u v : Rat) :
    V3.dot (surfPlane o a b u v - o) (V3.cross a b) = 0 := by
  simp only [surfPlane]; c17_unfold; ring

/-- … and on a bilinear patch: for all parameters the position lies on the straight line joining the points with
    the same `u` on the two opposite edges (and likewise for `v`): the patch is doubly ruled; the corners and the four
    edges are reproduced; in the frame of the corners (`p10 − p00`, `p01 − p00`, twist `p11 − p10 − p01 + p00`) the
    coordinates are `(u, v, u·v)` — the implicit equation `z = x·y` of the hyperbolic paraboloid -/
theorem T_C17_surface_bilinear_on (p00 p10 p01 p11 : V3) (u v : Rat) :
    surfBilinear p00 p10 p01 p11 u v =
        V3.smul (1 - v) (curveLine p00 p10 u) + V3.smul v (curveLine p01 p11 u) ∧
    surfBilinear p00 p10 p01 p11 u v =
        V3.smul (1 - u) (curveLine p00 p01 v) + V3.smul u (curveLine p10 p11 v) ∧
    surfBilinear p00 p10 p01 p11 u v =
        p00 + V3.smul u (p10 - p00) + V3.smul v (p01 - p00) + V3.smul (u * v) (p11 - p10 - p01 + p00) ∧
    surfBilinear p00 p10 p01 p11 0 0 = p00 ∧ surfBilinear p00 p10 p01 p11 1 0 = p10 ∧
    surfBilinear p00 p10 p01 p11 0 1 = p01 ∧ surfBilinear p00 p10 p01 p11 1 1 = p11 := by
  refine ⟨?_, ?_, ?_, ?_, ?_, ?_, ?_⟩ <;>
    (apply V3.ext' <;> simp only [surfBilinear, curveLine] <;> c17_unfold <;> ring)

/-! ### Round 6: the relation of a `RotationLink` determines the follower -/

/-- **Uniqueness.**  Given the axis `(o, a)`, the original leader `l0` off the axis, the moved leader `l1` and the
    original follower `f0`, at most ONE point satisfies the relation of a rotation link — same height along the axis,
    same radius, and the same cosine and sine of the turn of the radius vectors as the leader's (cross-multiplied as
    in `rotValid`, no square roots): two such points are equal. -/
theorem T_C17_rotation_unique (a o l0 l1 f0 f1 f1' : V3) (ha : V3.dot a a ≠ 0)
    (hl : V3.norm2 (radial a o l0) ≠ 0)
    (hh : V3.dot (f1 - o) a = V3.dot (f0 - o) a) (hh' : V3.dot (f1' - o) a = V3.dot (f0 - o) a)
    (hr : V3.norm2 (radial a o f1) = V3.norm2 (radial a o f0))
    (hr' : V3.norm2 (radial a o f1') = V3.norm2 (radial a o f0))
    (hc : V3.dot (radial a o f0) (radial a o f1) * V3.norm2 (radial a o l0)
      = V3.dot (radial a o l0) (radial a o l1) * V3.norm2 (radial a o f0))
    (hc' : V3.dot (radial a o f0) (radial a o f1') * V3.norm2 (radial a o l0)
      = V3.dot (radial a o l0) (radial a o l1) * V3.norm2 (radial a o f0))
    (hs : V3.dot (V3.cross (radial a o f0) (radial a o f1)) a * V3.norm2 (radial a o l0)
      = V3.dot (V3.cross (radial a o l0) (radial a o l1)) a * V3.norm2 (radial a o f0))
    (hs' : V3.dot (V3.cross (radial a o f0) (radial a o f1')) a * V3.norm2 (radial a o l0)
      = V3.dot (V3.cross (radial a o l0) (radial a o l1)) a * V3.norm2 (radial a o f0)) :
    f1 = f1' := by
  apply point_of_radial a o f1 f1' ha (by rw [hh, hh'])
  apply radial_unique a (radial a o f0) _ _ ha (radial_perp a o f0) (radial_perp a o f1) (radial_perp a o f1') hr hr'
  · exact mul_right_cancel₀ hl (by rw [hc, hc'])
  · exact mul_right_cancel₀ hl (by rw [hs, hs'])

/-- hence, when the leader is turned about the axis by the quaternion `(w, a)`, the follower the link computes,
    `rotationLink w a o f0`, is THE point in that relation: any point that `rotValid` accepts exactly is it -/
theorem T_C17_rotation_characterised (w : Rat) (a o l0 f0 f1 : V3) (ha : V3.dot a a ≠ 0)
    (hN : w * w + V3.dot a a ≠ 0) (hl : V3.norm2 (radial a o l0) ≠ 0)
    (hh : V3.dot (f1 - o) a = V3.dot (f0 - o) a)
    (hr : V3.norm2 (radial a o f1) = V3.norm2 (radial a o f0))
    (hc : V3.dot (radial a o f0) (radial a o f1) * V3.norm2 (radial a o l0)
      = V3.dot (radial a o l0) (radial a o (rotP w a o l0)) * V3.norm2 (radial a o f0))
    (hs : V3.dot (V3.cross (radial a o f0) (radial a o f1)) a * V3.norm2 (radial a o l0)
      = V3.dot (V3.cross (radial a o l0) (radial a o (rotP w a o l0))) a * V3.norm2 (radial a o f0)) :
    f1 = rotationLink w a o f0 := by
  obtain ⟨g1, _, g3, g4, g5⟩ := T_C17_rotation w a o l0 f0 hN
  exact T_C17_rotation_unique a o l0 (rotP w a o l0) f0 f1 (rotationLink w a o f0) ha hl hh g1 hr g3 hc g4 hs g5

example : V3.dot (⟨1, 2, 2⟩ : V3) ⟨1, 2, 2⟩ ≠ 0 ∧ (3 : Rat) * 3 + V3.dot (⟨1, 2, 2⟩ : V3) ⟨1, 2, 2⟩ ≠ 0 ∧
    V3.norm2 (radial ⟨1, 2, 2⟩ ⟨0, 1, 0⟩ ⟨3, 0, 1⟩) ≠ 0 := by
  refine ⟨?_, ?_, ?_⟩ <;> (c17_unfold; norm_num)

/-- the relation leader ↦ follower commutes with every further rotation about the link's axis: turning the original
    follower by the leader's rotation and then both by a second rotation about the axis is the same as first turning
    the configuration and then linking (rotations about one axis commute) -/
theorem T_C17_rotation_commutes (w1 w2 : Rat) (a o p : V3) (h1 : w1 * w1 + V3.dot a a ≠ 0)
    (h2 : w2 * w2 + V3.dot a a ≠ 0) :
    rotP w2 a o (rotationLink w1 a o p) = rotationLink w1 a o (rotP w2 a o p) := by
  simp only [V3.dot] at h1 h2
  apply V3.ext' <;> c17_unfold <;> field_simp <;> ring

example : (2 : Rat) * 2 + V3.dot (⟨1, 2, 2⟩ : V3) ⟨1, 2, 2⟩ ≠ 0 := by c17_unfold; norm_num

/-! ### Round 6: the source the model transcribes -/

/-- the expression / statements of the source each model definition is the transcription of (regenerated from the
    source into `Gen.c17Source` on every run, docstrings / comments / annotations dropped and the locals of each method
    renamed `v0, v1, …`; `T_C17_source` proves the two tables equal) -/
def sourceTable : List (String × List String) := [
  ("ClampBase.__init__", ["self.position = np.array(v0)", "self.function = v1", "self.bounds = v2", "self.initial_params = v3", "self.params = self.get_params()", "self.update_params(self.params)"]),
  ("ClampBase.get_params", ["def v0(v1): return f.norm(self.position - self.function(v1))", "v2 = scipy.optimize.minimize(v0, self.initial_guess, bounds=self.bounds, tol=TOL)", "return v2.x"]),
  ("ClampBase.update_params", ["self.params = v0", "self.position = self.function(self.params)"]),
  ("CurveClamp.__init__", ["v0 = np.array(v0)", "if v2 is not None: v3 = [v2] else: v3 = [v1.get_closest_param(v0)]", "super().__init__(v0, lambda v4: v1.get_point(v4[0]), [list(v1.bounds)], v3)"]),
  ("CurveClamp.initial_guess", ["return self.initial_params"]),
  ("LineClamp.__init__", ["v0 = np.array(v0)", "v1 = np.array(v1)", "v2 = np.array(v2)", "def v4(v5): return v1 + v5[0] * f.unit_vector(v2 - v1)", "if v3 is None: v3 = (0, f.norm(v2 - v1))", "super().__init__(v0, v4, [list(v3)])"]),
  ("LineClamp.initial_guess", ["return [0]"]),
  ("RadialClamp.__init__", ["v0 = np.array(v0)", "v4 = np.copy(v0)", "if v3 is not None: v5 = [v3] else: v5 = None", "v1 = np.array(v1, dtype=float)", "v2 = np.array(v2, dtype=float)", "v6 = f.point_to_line_distance(v1, v2, v0)", "super().__init__(v0, lambda v7: f.rotate(v4, v7[0] / v6, v2, v1), v5)"]),
  ("RadialClamp.initial_guess", ["return [0]"]),
  ("PlaneClamp.__init__", ["v1 = np.array(v1, dtype=DTYPE)", "v2 = f.unit_vector(v2)", "v3 = f.unit_vector(v2 + np.random.random(3))", "v4 = f.unit_vector(np.cross(v3, v2))", "v5 = f.unit_vector(np.cross(v4, v2))", "def v6(v7): return v1 + v7[0] * v4 + v7[1] * v5", "super().__init__(v0, v6)"]),
  ("PlaneClamp.initial_guess", ["return [0, 0]"]),
  ("ParametricSurfaceClamp.initial_guess", ["if self.initial_params is None: return [0, 0]", "return self.initial_params"]),
  ("LineCurve.__init__", ["self.point_1 = Point(v0)", "self.point_2 = Point(v1)", "super().__init__(self._line_function, v2)"]),
  ("LineCurve._line_function", ["return self.point_1.position + self.vector * v0"]),
  ("LineCurve.vector", ["return self.point_2.position - self.point_1.position"]),
  ("LinkBase.__init__", ["self.leader = np.array(v0)", "self.follower = np.array(v1)"]),
  ("LinkBase.update", ["v0 = self.transform()", "self.follower = v0"]),
  ("TranslationLink.__init__", ["super().__init__(v0, v1)", "self.vector = self.follower - self.leader"]),
  ("TranslationLink.transform", ["return self.leader + self.vector"]),
  ("RotationLink.__init__", ["super().__init__(v0, v1)", "self.origin = np.array(v3)", "self.axis = f.unit_vector(v2)", "self.orig_leader_radius = self._get_radius(self.leader)", "self.orig_follower_pos = np.copy(self.follower)", "if f.norm(self.orig_leader_radius) < constants.TOL: raise ValueError('Leader and rotation axis are coincident!')"]),
  ("RotationLink.transform", ["v0 = self.orig_leader_radius", "v1 = self._get_radius(self.leader)", "v2 = f.angle_between(v0, v1)", "v3 = np.cross(v0, v1)", "if np.dot(v3, self.axis) < 0: v2 = -v2", "return f.rotate(self.orig_follower_pos, v2, self.axis, self.origin)"]),
  ("RotationLink._get_height", ["return np.dot(v0 - self.origin, self.axis) * self.axis"]),
  ("RotationLink._get_radius", ["return v0 - self.origin - self._get_height(v0)"]),
  ("SymmetryLink.__init__", ["self.normal = np.array(v2)", "self.origin = np.array(v3)", "super().__init__(v0, v1)", "self.transform()"]),
  ("SymmetryLink._get_follower", ["return f.mirror(self.leader, self.normal, self.origin)"]),
  ("SymmetryLink.transform", ["return self._get_follower()"])]

/-- every expression / statement list of `optimize/clamps`, `optimize/links` and `LineCurve` that a model definition
    transcribes is what the current source says (regenerated with `ast` on every run) -/
theorem T_C17_source : sourceTable = Gen.c17Source := by rfl

/-! ### Round 6c: two successive turns of the leader -/

/-- two rotations about one axis compose to ONE quaternion rotation about it: `(w2, a) ∘ (w1, a) = (w1·w2 − |a|², (w1 + w2)·a)`
    (the unnormalised quaternion product) — so after any number of exact turns of the leader the configuration is again
    "leader turned about the axis by a quaternion", and `T_C17_rotation` / `T_C17_rotation_characterised` apply to the
    composite: the follower of the composite move is the twice-turned original follower -/
theorem T_C17_rotation_composes (w1 w2 : Rat) (a o p : V3) (h1 : w1 * w1 + V3.dot a a ≠ 0)
    (h2 : w2 * w2 + V3.dot a a ≠ 0) :
    rotP w2 a o (rotP w1 a o p) = rotP (w1 * w2 - V3.dot a a) (V3.smul (w1 + w2) a) o p ∧
      rotationLink w2 a o (rotationLink w1 a o p) = rotationLink (w1 * w2 - V3.dot a a) (V3.smul (w1 + w2) a) o p := by
  have h : rotP w2 a o (rotP w1 a o p) = rotP (w1 * w2 - V3.dot a a) (V3.smul (w1 + w2) a) o p := by
    unfold rotP
    rw [add_sub_cancel', rotLin_compose w1 w2 a (p - o) h1 h2]
  exact ⟨h, h⟩

example : (2 : Rat) * 2 + V3.dot (⟨1, 2, 2⟩ : V3) ⟨1, 2, 2⟩ ≠ 0 ∧ (-1 : Rat) * (-1) + V3.dot (⟨1, 2, 2⟩ : V3) ⟨1, 2, 2⟩ ≠ 0 := by
  constructor <;> (c17_unfold; norm_num)

/-! ### Round 6c: `CurveClamp` on a `CircleCurve` -/

/-- for every rationally parametrised angle the position is on the declared circle: in the plane of the rim point normal
    to the axis (same height along the normal), at the rim's distance from the origin; angle 0 is the rim point, and two
    parameter steps add up as quaternions (`T_C17_rotation_composes`) -/
theorem T_C17_curve_circle_on (o rim n : V3) (w mu : Rat) (hN : w * w + V3.dot (V3.smul mu n) (V3.smul mu n) ≠ 0) :
    V3.dot (curveCircle o rim n w mu - o) n = V3.dot (rim - o) n ∧
      V3.norm2 (curveCircle o rim n w mu - o) = V3.norm2 (rim - o) ∧
      curveCircle o rim n w 0 = rim := by
  have h := T_C17_radial_on o n w mu rim hN
  refine ⟨h.1, h.2, ?_⟩
  have := T_C17_initial_radial o n w rim
  simpa [curveCircle, radialClamp] using this

example : (3 : Rat) * 3 + V3.dot (V3.smul (1 / 2) (⟨1, 2, 2⟩ : V3)) (V3.smul (1 / 2) ⟨1, 2, 2⟩) ≠ 0 := by
  c17_unfold; norm_num

/-! ### Round 6c: the chord-length parameters of a `LinearInterpolatedCurve` -/

/-- `InterpolatorBase.params` (equalised), computed by the model from the segment-length witnesses: for positive
    lengths the parameters start at 0, end at 1, increase strictly (so `polyEval` over `chordKnots` is covered by
    `T_C17_curve_polyline_on`), and consecutive parameters differ by the segment's share of the total length — a
    parameter is an arc-length fraction of the polyline -/
theorem T_C17_chord_params (pts : List V3) (lens : List Rat) (hne : lens ≠ []) (hpos : ∀ l ∈ lens, 0 < l) :
    knotsOk (chordKnots pts lens) = true ∧ (chordParams lens).head? = some 0 ∧
      (chordParams lens).getLast? = some 1 ∧
      List.zipWith (fun b a => b - a) (chordParams lens).tail (chordParams lens) = lens.map (· / sumR lens) := by
  have hT := sumR_pos lens hne hpos
  refine ⟨?_, rfl, ?_, ?_⟩
  · apply knotsOk_zip
    have := cumul_incr (sumR lens) hT lens 0 hpos
    simpa [chordParams] using this
  · unfold chordParams
    have hc : cumul 0 lens ≠ [] := by
      cases lens with
      | nil => exact absurd rfl hne
      | cons l ls => simp [cumul]
    rw [List.getLast?_cons_of_ne_nil (by simpa using hc), List.getLast?_map, cumul_last lens 0 hne]
    simp [ne_of_gt hT]
  · unfold chordParams
    simp only [List.tail_cons]
    have e : (0 : Rat) :: (cumul 0 lens).map (· / sumR lens) = ((0 : Rat) :: cumul 0 lens).map (· / sumR lens) := by simp
    rw [e, zipWith_sub_map_div, cumul_diff]

example : ([3, 4] : List Rat) ≠ [] ∧ (∀ l ∈ ([3, 4] : List Rat), 0 < l) ∧ chordParams [3, 4] = [0, 3 / 7, 1] := by
  refine ⟨by simp, ?_, ?_⟩
  · intro l hl; simp at hl; rcases hl with rfl | rfl <;> norm_num
  · simp [chordParams, cumul, sumR]; norm_num

/-! ### Round 6b: `transform()` is a query -/

/-- the link never looks at the answers it gave -/
theorem runEv_link_indep (transform : V3 → V3) (evs : List LinkEv) (l : Link) (q1 q2 : List V3) :
    (Link.runEv transform (l, q1) evs).1 = (Link.runEv transform (l, q2) evs).1 := by
  induction evs generalizing l q1 q2 with
  | nil => rfl
  | cons e es ih =>
      cases e <;> simp only [Link.runEv, List.foldl_cons, Link.step] <;> exact ih _ _ _

/-- asking `transform()` any number of times, anywhere in a history of leader moves and updates, changes nothing: the
    link ends exactly where it ends in the history without the queries (the model's `transform` is a function of the
    leader; an implementation whose `transform()` keeps state between calls breaks this) -/
theorem T_C17_query_pure (transform : V3 → V3) (evs : List LinkEv) (s : Link × List V3) :
    (Link.runEv transform s evs).1 = (Link.runEv transform s (evs.filter (fun e => !e.isQuery))).1 := by
  induction evs generalizing s with
  | nil => rfl
  | cons e es ih =>
      cases e with
      | query =>
          have hf : (LinkEv.query :: es).filter (fun e => !e.isQuery) = es.filter (fun e => !e.isQuery) := by
            simp [LinkEv.isQuery]
          rw [hf, ← ih s]
          simp only [Link.runEv, List.foldl_cons, Link.step]
          exact runEv_link_indep transform es s.1 _ _
      | move p =>
          have hf : (LinkEv.move p :: es).filter (fun e => !e.isQuery) = .move p :: es.filter (fun e => !e.isQuery) := by
            simp [LinkEv.isQuery]
          rw [hf]
          simp only [Link.runEv, List.foldl_cons]
          exact ih _
      | update =>
          have hf : (LinkEv.update :: es).filter (fun e => !e.isQuery) = .update :: es.filter (fun e => !e.isQuery) := by
            simp [LinkEv.isQuery]
          rw [hf]
          simp only [Link.runEv, List.foldl_cons]
          exact ih _

/-- every query answers `transform` of the leader as it is at that moment — the follower the next `update()` stores -/
theorem T_C17_query_answer (transform : V3 → V3) (l : Link) (qs : List V3) (p : V3) :
    (Link.runEv transform (l, qs) [.move p, .query, .update]).2 = qs ++ [transform p] ∧
      (Link.runEv transform (l, qs) [.move p, .query, .update]).1.follower = transform p := by
  simp [Link.runEv, Link.step, Link.update]

/-! ### Round 6d: a clamp has no memory -/

/-- after ANY history of `update_params` calls the clamp holds exactly the last parameters it was given and reports the
    position function at them — nothing of earlier updates survives, and nothing is clipped: parameters outside the
    declared bounds are stored as given (the bounds are an argument of `scipy.optimize.minimize` in `get_params` and in
    the optimizer, not of `update_params`; C17 quantifies over parameter values within bounds).  With the manifold
    theorems (`T_C17_line_on`, `_plane_on`, `_radial_on`, `_curve_*`, `_surface_*`) the position after any history lies on
    the declared manifold. -/
theorem T_C17_clamp_history (f : List Rat → V3) (c : ClampSt) (hist : List (List Rat)) (ps : List Rat) :
    ClampSt.run f c (hist ++ [ps]) = ⟨ps, f ps⟩ := by
  simp [ClampSt.run, List.foldl_append, ClampSt.update]

/-- e.g. a line clamp after any history: still on the line, at signed distance `t` from `p1` -/
theorem T_C17_clamp_history_line (p1 p2 : V3) (s : Rat) (c : ClampSt) (hist : List (List Rat)) (t : Rat)
    (hs : s ≠ 0) (hw : s * s = V3.dot (p2 - p1) (p2 - p1)) :
    let f : List Rat → V3 := fun ps => lineClamp p1 p2 s (ps.headD 0)
    V3.cross ((ClampSt.run f c (hist ++ [[t]])).position - p1) (p2 - p1) = V3.zero := by
  intro f
  rw [T_C17_clamp_history]
  exact (T_C17_line_on p1 p2 s t hs hw).1

example : (13 : Rat) ≠ 0 ∧ (13 : Rat) * 13 = V3.dot ((⟨3, 4, 12⟩ : V3) - ⟨0, 0, 0⟩) (⟨3, 4, 12⟩ - ⟨0, 0, 0⟩) := by
  constructor
  · norm_num
  · c17_unfold; norm_num

end CBV.C17
