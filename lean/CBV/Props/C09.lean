/-
C09 — property theorems.  Translating, rotating, scaling or mirroring an entity is the affine similarity
applied to every point cell exactly once (direction cells: linear part only, reversed by a mirror),
whatever the shape of the part tree, provided no leaf is shared (NoAlias); default origins follow the entity;
a copy is an equal entity on fresh cells.
-/
import CBV.Lemmas.C09Algebra
import CBV.Lemmas.C09Tree
import CBV.Lemmas.C09Center
import CBV.Lemmas.C09Copy
import CBV.Lemmas.C09Arc
import CBV.Lemmas.C09Entity
import CBV.Lemmas.C09Seq
import CBV.Lemmas.C09CopyOut
import CBV.Lemmas.C09Shear
import CBV.Lemmas.C09SeqShear
import CBV.Gen.TC09

namespace CBV.C09
open CBV

set_option linter.unusedSimpArgs false

/-! ### T_C09_point — the four primitives on a point are the affine map they are named after -/

/-- every resolved transformation acts on points as an affine map with linear part `t.lin` -/
theorem T_C09_point_affine (t : RT) :
    (∀ p q, t.pt p - t.pt q = t.lin (p - q)) ∧ (∀ u v, t.lin (u + v) = t.lin u + t.lin v) ∧
      (∀ c v, t.lin (V3.smul c v) = V3.smul c (t.lin v)) :=
  ⟨RT.pt_sub t, RT.lin_add t, RT.lin_smul t⟩

/-- … which is a similarity: distances are multiplied by the ratio (1 except for `scale`) … -/
theorem T_C09_point_similarity (t : RT) (ht : t.Valid) (p q : V3) :
    V3.norm2 (t.pt p - t.pt q) = t.ratio2 * V3.norm2 (p - q) := by
  simp only [V3.norm2, RT.pt_sub, RT.lin_dot t ht]

/-- … angles between directions are kept, orientation is kept by translate/rotate/scale and reversed by mirror -/
theorem T_C09_point_orientation (t : RT) (ht : t.Valid) (u v : V3) :
    V3.dot (t.lin u) (t.lin v) = t.ratio2 * V3.dot u v ∧
      V3.cross (t.lin u) (t.lin v) = V3.smul t.sigma (t.lin (V3.cross u v)) :=
  ⟨RT.lin_dot t ht u v, RT.lin_cross t ht u v⟩

example : (RT.rotate 2 ⟨1, 2, 2⟩ ⟨1, 0, 3⟩).Valid ∧ (RT.mirror ⟨1, -3, 2⟩ ⟨0, 1, 1⟩).Valid := by
  constructor <;> simp only [RT.Valid, V3.dot] <;> norm_num

theorem T_C09_point_translate (d p : V3) : (RT.translate d).pt p = p + d := rfl

/-- `rotate` keeps every point of the axis line through the origin … -/
theorem T_C09_point_rotate_axis (w : Rat) (a o : V3) (s : Rat) :
    rotP w a o (o + V3.smul s a) = o + V3.smul s a := by
  have h : o + V3.smul s a - o = V3.smul s a := by apply V3.ext' <;> v3_unfold <;> ring
  unfold rotP
  rw [h, rotLin_smul, rotLin_axis, add_comm']

/-- … and turns every direction normal to the axis by the angle `θ` with `cos θ = (w²−|a|²)/(w²+|a|²)`,
    `sin θ = 2w|a|/(w²+|a|²)`, counter-clockwise about `a`: that is `θ = 2·atan2(|a|, w)`, the angle the harness
    passes to the implementation -/
theorem T_C09_point_rotate_angle (w : Rat) (a v : V3) (hN : w * w + V3.dot a a ≠ 0) (hperp : V3.dot a v = 0) :
    (w * w + V3.dot a a) * V3.dot v (rotLin w a v) = (w * w - V3.dot a a) * V3.dot v v ∧
      V3.smul (w * w + V3.dot a a) (V3.cross v (rotLin w a v)) = V3.smul (2 * w * V3.dot v v) a :=
  ⟨rotLin_cos w a v hN hperp, rotLin_sin w a v hN hperp⟩

example : (2 : Rat) * 2 + V3.dot ⟨1, 2, 2⟩ ⟨1, 2, 2⟩ ≠ 0 ∧ V3.dot ⟨1, 2, 2⟩ ⟨2, 1, -2⟩ = 0 := by
  constructor <;> simp only [V3.dot] <;> norm_num

theorem T_C09_point_scale (r : Rat) (o p : V3) : scaleP r o p - o = V3.smul r (p - o) := by
  apply V3.ext' <;> v3_unfold <;> ring

/-- `mirror` is an involution that fixes the plane through `o` normal to `n` pointwise and sends `o + n` to `o − n` -/
theorem T_C09_point_mirror (n o p : V3) (hn : V3.dot n n ≠ 0) :
    mirP n o (mirP n o p) = p ∧ (V3.dot (p - o) n = 0 → mirP n o p = p) ∧ mirP n o (o + n) = o - n := by
  refine ⟨?_, ?_, ?_⟩
  · have h : mirP n o p - o = mirLin n (p - o) := by apply V3.ext' <;> v3_unfold <;> ring
    show mirLin n (mirP n o p - o) + o = p
    rw [h, mirLin_invol n _ hn, sub_add_cancel']
  · intro h
    show mirLin n (p - o) + o = p
    rw [mirLin_inplane n _ h, sub_add_cancel']
  · have h : o + n - o = n := by apply V3.ext' <;> v3_unfold <;> ring
    show mirLin n (o + n - o) + o = o - n
    rw [h, mirLin_normal n hn]
    apply V3.ext' <;> v3_unfold <;> ring

example : V3.dot (⟨1, -3, 2⟩ : V3) ⟨1, -3, 2⟩ ≠ 0 := by simp only [V3.dot]; norm_num

/-- direction quantities (the axis of an `Angle` edge, the normal of a `CircleCurve`) are rotated / reflected but
    not displaced: their image does not depend on the displacement, the origin or the ratio, and they keep
    their length -/
theorem T_C09_direction (v : V3) :
    (∀ d, (RT.translate d).dir v = v) ∧ (∀ r o, (RT.scale r o).dir v = v) ∧
      (∀ w a o o', (RT.rotate w a o).dir v = (RT.rotate w a o').dir v) ∧
      (∀ n o o', (RT.mirror n o).dir v = (RT.mirror n o').dir v) ∧
      (∀ t : RT, t.Valid → V3.dot (t.dir v) (t.dir v) = V3.dot v v) := by
  refine ⟨fun _ => rfl, fun _ _ => rfl, fun _ _ _ _ => rfl, fun _ _ _ => rfl, ?_⟩
  intro t ht
  cases t <;> simp only [RT.dir]
  · exact rotLin_dot _ _ _ _ ht
  · rw [dot_neg_neg]; exact mirLin_dot _ _ _ ht

/-- a reflection turns the rotation about `a` into the rotation about the reversed reflected axis: mirroring the
    point data and giving the axis cell `−(mirLin n a)` (what `AxisVector.mirror` does) reproduces the mirrored arc /
    circle for every parameter value -/
theorem T_C09_mirror_axial (n o : V3) (w : Rat) (a c p : V3) (hn : V3.dot n n ≠ 0) :
    mirP n o (rotP w a c p) = rotP w ((RT.mirror n o).dir a) (mirP n o c) (mirP n o p) :=
  mir_rot_conj n o w a c p hn

/-! ### T_C09_tree — recursive delegation over an arbitrary part tree -/

/-- no leaf object is reachable twice through `.parts` (validated on the real objects with `id()`) -/
def NoAlias (e : Ent) : Prop := ((visitsE e).map Prod.fst).Nodup

/-- every leaf refers to an existing cell -/
def InHeap (e : Ent) (h : Heap) : Prop := ∀ v ∈ visitsE e, v.1 < h.length

/-- Whatever the tree, a method call changes every point cell by the affine map, every direction cell by the
    direction action, each exactly once, and nothing else. -/
theorem T_C09_tree (t : RT) (e : Ent) (h : Heap) (hna : NoAlias e) (hin : InHeap e h) :
    (∀ i, (i, false) ∈ visitsE e → Heap.get (applyE t e h).2 i = t.pt (Heap.get h i)) ∧
    (∀ i, (i, true) ∈ visitsE e → Heap.get (applyE t e h).2 i = t.dir (Heap.get h i)) ∧
    (∀ i, i ∉ (visitsE e).map Prod.fst → Heap.get (applyE t e h).2 i = Heap.get h i) ∧
    (applyE t e h).2.length = h.length := by
  rw [applyE_heap]
  refine ⟨?_, ?_, ?_, runV_length t _ h⟩
  · intro i hi
    have := runV_once t (visitsE e) h i false hna hi (hin _ hi)
    simpa using this
  · intro i hi
    have := runV_once t (visitsE e) h i true hna hi (hin _ hi)
    simpa using this
  · intro i hi
    exact runV_untouched t _ h i hi

/-- a face with an arc, a spline (array of two rows) and an Angle edge: 4 + 1 + 2 + 1 distinct cells -/
def sampleFace : Ent :=
  .node .face 0 [.pt 0, .pt 1, .pt 2, .pt 3, .node .edge 0 [.pt 4],
    .node .spline 0 [.node .dcurve 0 [.arr [5, 6]]], .node .angle (1 / 2) [.dir 7], .node .edge 0 []]

example : NoAlias sampleFace ∧ InHeap sampleFace (List.replicate 8 V3.zero) := by
  constructor
  · unfold NoAlias; decide
  · unfold InHeap; decide

/-- the same holds for the transformation list (the parts are transformed directly) -/
theorem T_C09_tree_list (t : RT) (k : Kind) (a : Rat) (ch : List Ent) (h : Heap)
    (hna : NoAlias (.node k a ch)) (hin : InHeap (.node k a ch) h) :
    (∀ i, (i, false) ∈ visitsL ch → Heap.get (applyL t ch h).2 i = t.pt (Heap.get h i)) ∧
    (∀ i, (i, true) ∈ visitsL ch → Heap.get (applyL t ch h).2 i = t.dir (Heap.get h i)) ∧
    (∀ i, i ∉ (visitsL ch).map Prod.fst → Heap.get (applyL t ch h).2 i = Heap.get h i) := by
  have h1 : visitsE (.node k a ch) = visitsL ch := by simp [visitsE]
  have := T_C09_tree t (.node k a ch) h hna hin
  simp only [applyE, h1] at this
  exact ⟨this.1, this.2.1, this.2.2.1⟩

/-- translate / rotate / scale never change the tree, except that every cached interpolation function on the
    way is invalidated (`InterpolatedCurveBase.parts`); -/
theorem T_C09_tree_shape (t : RT) (ht : t.isMirror = false) (e : Ent) (h : Heap) : (applyE t e h).1 = invalidE e :=
  applyE_tree t ht e h

/-! ### T_C09_cache — the cached interpolation function never survives a transformation -/

/-- after one element of a transformation list, whatever the state of the cache before, the next evaluation of the
    curve is based on the transformed rows, and those are the images of the old rows under the map whose default
    origin is the centre of the curve *as it evaluated before the step* -/
theorem T_C09_cache (g : V3 → V3 → V3) (c : ICurve) :
    ((c.transformStep g).eval).1 = (c.transformStep g).pts ∧
      (c.transformStep g).pts = c.pts.map (g (avg c.eval.1)) := by
  cases hc : c.cache <;> simp [ICurve.transformStep, ICurve.eval, ICurve.parts, hc]

/-- the order matters: looking the centre up after `.parts` has been read re-validates the function from the old
    rows, and the curve keeps evaluating them (rows moved from x = 0, 2 to x = 5, 7, evaluation still 0, 2) -/
theorem T_C09_cache_lazy_counterexample :
    let c : ICurve := ⟨[⟨0, 0, 0⟩, ⟨2, 0, 0⟩], some [⟨0, 0, 0⟩, ⟨2, 0, 0⟩]⟩
    let g : V3 → V3 → V3 := fun _ p => p + ⟨5, 0, 0⟩
    ((c.transformStepLazy g).eval).1 = [⟨0, 0, 0⟩, ⟨2, 0, 0⟩] ∧
      ((c.transformStepLazy g).eval).1 ≠ (c.transformStepLazy g).pts := by
  simp only [ICurve.transformStepLazy, ICurve.eval, ICurve.parts, List.map]
  refine ⟨trivial, ?_⟩
  intro h
  have := congrArg (fun l => (l.headD V3.zero).x) h
  simp at this

/-- `Operation.mirror` mirrors the six parts, swaps the two faces and reverses the data of the four side edges
    (so that each side edge still describes the mirror image of its curve, now from the other end) -/
theorem T_C09_op_mirror (n o : V3) (a : Rat) (b t s0 s1 s2 s3 : Ent) (h : Heap) :
    ∃ b' t' s0' s1' s2' s3' h',
      applyL (.mirror n o) [b, t, s0, s1, s2, s3] h = ([b', t', s0', s1', s2', s3'], h') ∧
      applyE (.mirror n o) (.node .op a [b, t, s0, s1, s2, s3]) h =
        (.node .op a [t', b', reverseE s0', reverseE s1', reverseE s2', reverseE s3'], h') := by
  simp only [applyE, applyL, RT.isMirror, invertOp, List.map, Bool.true_and, beq_self_eq_true, if_true]
  exact ⟨_, _, _, _, _, _, _, rfl, rfl⟩

/-- reversing the data of an Angle or Spline/PolyLine edge twice gives it back -/
theorem T_C09_reverse_involutive (a a2 : Rat) (ch : List Ent) (is : List Nat) :
    reverseE (reverseE (.node .angle a ch)) = .node .angle a ch ∧
      reverseE (reverseE (.node .spline a [.node .dcurve a2 [.arr is]])) = .node .spline a [.node .dcurve a2 [.arr is]] := by
  simp [reverseE]

/-- without NoAlias the statement is false: a leaf that is shared by two parts (the `Face` that the lofts of a
    sphere shared before the repair) is moved twice -/
theorem T_C09_alias_counterexample :
    let e : Ent := .node .shape 0 [.pt 0, .pt 0]
    ¬ NoAlias e ∧
      Heap.get (applyE (.translate ⟨1, 0, 0⟩) e [⟨5, 5, 5⟩]).2 0 = ⟨7, 5, 5⟩ := by
  constructor
  · unfold NoAlias; decide
  · simp only [applyE, applyL, RT.pt, Heap.get]
    apply V3.ext' <;> (simp [RT.pt]; try norm_num)

/-! ### T_C09_compose — transformation lists and default origins -/

/-- a list (or a chain of method calls) is the composition of its steps, each resolved against the state the
    previous steps left behind -/
theorem T_C09_compose (viaMethod : Bool) (t : Tr × Option V3) (ts : List (Tr × Option V3)) (s : Ent × Heap) :
    runSteps viaMethod (t :: ts) s =
      ((if viaMethod then method t.1 t.2 s else transformStep t.1 t.2 s).bind (runSteps viaMethod ts)) := by
  simp only [runSteps, List.foldlM_cons]
  rfl

/-- every modelled centre is an average of points, and an affine map commutes with averages: -/
theorem T_C09_center_equivariant (t : RT) (ps : List V3) (hne : ps ≠ []) : t.pt (avg ps) = avg (ps.map t.pt) :=
  RT.pt_avg t ps hne

/-! ### T_C09_output — the whole entity tree: transform, then read the output = read the output, then transform -/

/-- **Every entity, every transformation.**  Calling `translate/rotate/scale/mirror` on an entity (recursion through
    `parts`, in place, with the overrides of `AxisVector`, `Operation.mirror`, the cache of interpolated curves) and
    then reading its output geometry gives the output geometry of the untouched entity transformed as a value
    (`mapV`: every point by the affine map, every axis direction by its direction action, mirrored operations turned
    inside out) — for every part tree without shared leaves. -/
theorem T_C09_output (t : RT) (e : Ent) (h : Heap) (hna : NoAlias e) (hin : InHeap e h) :
    resolveE (applyE t e h).2 (applyE t e h).1 = mapV t (resolveE h e) :=
  resolve_applyE t e h hna hin

/-- the same for one element of a transformation list (`ElementBase.transform`: the parts are transformed directly,
    the entity's own override — `Operation.mirror`'s inversion — is bypassed) -/
theorem T_C09_output_list (t : RT) (k : Kind) (a : Rat) (ch : List Ent) (h : Heap)
    (hna : NoAlias (.node k a ch)) (hin : InHeap (.node k a ch) h) :
    resolveE (applyL t ch h).2 (.node k (touchAttr k a) (applyL t ch h).1) =
      .node k (touchAttr k a) (mapVL t (resolveL h ch)) := by
  have h1 : visitsE (.node k a ch) = visitsL ch := by simp [visitsE]
  simp only [resolveE]
  rw [resolve_applyL t ch h (by simpa [NoAlias, h1] using hna) (by simpa [InHeap, h1] using hin)]

example : NoAlias sampleFace ∧ InHeap sampleFace (List.replicate 8 V3.zero) := by
  constructor
  · unfold NoAlias; decide
  · unfold InHeap; decide

/-- the value-level transformation is what the statement of C09 says: points by the affine map, directions by the
    direction action, nothing else but `Operation.mirror`'s inversion and the dropped caches -/
theorem T_C09_output_leaves (t : RT) (v : V3) (vs : List V3) :
    mapV t (.pt v) = .pt (t.pt v) ∧ mapV t (.dir v) = .dir (t.dir v) ∧ mapV t (.arr vs) = .arr (vs.map t.pt) := by
  simp [mapV]

/-- hence the default origin of the next step is the image of the previous centre, for **every** entity kind whose
    `center` the model transcribes and that follows the entity schema (`wfV`, validated on every real tree):
    face, operation, shape, sphere shape, stack, assembly, joint, discrete / line / circle curve, OnCurve / Spline edges,
    Grid, disks, mapped sketches.  (EdgeData's constant centre (0,0,0) does not follow — the code warns.) -/
theorem T_C09_center_entity (t : RT) (k : Kind) (a : Rat) (ch : List Ent) (h : Heap)
    (hna : NoAlias (.node k a ch)) (hin : InHeap (.node k a ch) h) (hcov : (coveredKind k || coveredKind2 k) = true)
    (hwf : wfV (resolveE h (.node k a ch)) = true) (c : V3) (hc : center h none (.node k a ch) = some c) :
    center (applyE t (.node k a ch) h).2 none (applyE t (.node k a ch) h).1 = some (t.pt c) := by
  unfold center at hc ⊢
  rw [T_C09_output t _ h hna hin]
  simp only [resolveE] at hc hwf ⊢
  rcases Bool.or_eq_true _ _ |>.mp hcov with h1 | h2
  · exact centerV_mapV_node t k a _ h1 hwf c hc
  · exact centerV_mapV_node2 t k a _ h2 hwf c hc

/-- the kinds covered: everything with a transcribed rule except EdgeData's constant (`edge`, `angle`) -/
theorem T_C09_center_entity_kinds :
    ∀ k : Kind, (coveredKind k || coveredKind2 k) = (ruleOf k != .observed && ruleOf k != .zero) := by
  intro k; cases k <;> rfl

/-- a two-block assembly-like sample: a shape of one operation (two faces of four points, four side edges) -/
def sampleShape : Ent :=
  .node .shape 0 [.node .op 0 [
    .node .face 0 [.pt 0, .pt 1, .pt 2, .pt 3, .node .edge 0 [], .node .edge 0 [], .node .edge 0 [], .node .edge 0 []],
    .node .face 0 [.pt 4, .pt 5, .pt 6, .pt 7, .node .edge 0 [.pt 8], .node .edge 0 [], .node .edge 0 [], .node .edge 0 []],
    .node .angle (1 / 2) [.dir 9], .node .edge 0 [], .node .edge 0 [], .node .edge 0 []]]

example : NoAlias sampleShape ∧ InHeap sampleShape (List.replicate 10 V3.zero) ∧
    wfV (resolveE (List.replicate 10 V3.zero) sampleShape) = true ∧
    (center (List.replicate 10 V3.zero) none sampleShape).isSome = true := by
  refine ⟨?_, ?_, ?_, ?_⟩
  · unfold NoAlias; decide
  · unfold InHeap; decide
  · decide
  · simp [center, centerV, sampleShape, resolveE, resolveL, ruleOf, CRule.isCurveOf, CRule.eval]

/-- point and array leaves: their centre (position / average of the rows) follows the map as well -/
theorem T_C09_center_leaf (t : RT) (v : V3) (vs : List V3) (hne : vs ≠ []) :
    centerV none (mapV t (.pt v)) = (centerV none (.pt v)).map t.pt ∧
      centerV none (mapV t (.arr vs)) = (centerV none (.arr vs)).map t.pt := by
  simp only [mapV, centerV, Option.map, true_and, Option.some.injEq]
  exact (RT.pt_avg t vs hne).symm

example : ([⟨1, 2, 3⟩] : List V3) ≠ [] := by simp

/-! ### T_C09_sequence — chains of method calls and transformation lists on the whole tree -/

/-- NoAlias and InHeap survive every method call: the cells of the tree are only permuted (`Operation.mirror`
    swaps faces and reverses spline rows), so the next call is again covered by `T_C09_output` -/
theorem T_C09_invariant (t : RT) (e : Ent) (h : Heap) (hna : NoAlias e) (hin : InHeap e h) :
    NoAlias (applyE t e h).1 ∧ InHeap (applyE t e h).1 (applyE t e h).2 :=
  inv_applyE t e h hna hin

/-- **Functoriality.**  For every sequence of transformations (method chain or transformation list, any length, every
    default origin resolved against the centre of the state the previous steps left behind): running it on the
    entity in the heap and reading the output afterwards is running the value-level steps (`runStepsV`: `mapV` of each
    resolved step, default origins from the centre *of the current output*) on the output read before.  Both sides
    refuse together (a default origin is needed and the kind has no centre rule). -/
theorem T_C09_sequence (viaMethod : Bool) (ts : List (Tr × Option V3)) (e : Ent) (h : Heap)
    (hna : NoAlias e) (hin : InHeap e h) :
    (runSteps viaMethod ts (e, h)).map (fun s => resolveE s.2 s.1) = runStepsV viaMethod ts (resolveE h e) :=
  runSteps_resolve viaMethod ts e h hna hin

/-- value-level composition: two translations add up, explicit-origin steps compose as maps on every leaf -/
theorem T_C09_sequence_leaf (t1 t2 : RT) (v : V3) :
    mapV t2 (mapV t1 (.pt v)) = .pt (t2.pt (t1.pt v)) ∧ mapV t2 (mapV t1 (.dir v)) = .dir (t2.dir (t1.dir v)) := by
  simp [mapV]

/-! ### T_C09_source — the model's entity schema, centre rules and default origins are those of the source -/

/-- every class of `base` / `construct` that defines `parts` lists exactly the slots of the model's schema, in the
    same order (regenerated from the source with `ast` on every run); the two classes without a part list are
    `AnalyticCurve` (raises) and `ElementBase` (abstract) -/
theorem T_C09_schema_source :
    schema.map Row.render = Gen.c09Parts.filter (fun r => !(r.2 == ["!raise"] || r.2 == ["!abstract"])) ∧
      Gen.c09Parts.filter (fun r => r.2 == ["!raise"] || r.2 == ["!abstract"]) =
        [("AnalyticCurve", ["!raise"]), ("ElementBase", ["!abstract"])] := by
  constructor <;> rfl

/-- the only `parts` property with a side effect is `InterpolatedCurveBase.parts` (it invalidates the cached
    function): exactly the kinds whose attribute `touchAttr` resets -/
theorem T_C09_parts_effects :
    Gen.c09PartsPre = ((schema.filter (fun r => r.kinds.any (fun k => touchAttr k 1 != 1))).map
      (fun r => (r.cls, ["self.function.invalidate()"]))) := by
  rfl

/-- every `center` the model evaluates is the transcription of the expression the class returns; the classes it does
    not transcribe (abstract, or the observed value is used) are listed -/
theorem T_C09_center_source :
    centerRows.map (fun r => (r.1, r.2.src)) = Gen.c09Center.filter (fun r => !observedCenters.contains r.1) ∧
      (Gen.c09Center.filter (fun r => observedCenters.contains r.1)).map Prod.fst = observedCenters := by
  constructor <;> rfl

/-- default origins and the method called on every part: `ElementBase.rotate/scale` → `self.center`, `mirror` →
    (0,0,0); `transform` → the centre taken before the loop over the parts (first statement of the loop), in the branch
    order Translation, Rotation, Scaling, Mirror (then `Shear`, which C09 does not cover) -/
theorem T_C09_defaults_source :
    let ts : List Tr := [.translate V3.zero, .rotate 0 V3.zero none, .scale 1 none, .mirror V3.zero none]
    ts.map (fun t => (t.names.1, (t.dflt.src true))) = Gen.c09MethodDefaults ∧
      ts.map (fun t => (t.names.1, [t.names.1])) = Gen.c09Recursion ∧
      ts.map (fun t => (t.names.2, t.dflt.src false, [t.names.1])) ++ [("Shear", "-", ["shear"])] = Gen.c09ListDefaults ∧
      Gen.c09ListCenterFirst = "self.center" := by
  refine ⟨?_, ?_, ?_, ?_⟩ <;> rfl

/-- an operation keeps its centre under `mirror` although its faces are swapped -/
theorem T_C09_center_swap (ps qs : List V3) : avg (ps ++ qs) = avg (qs ++ ps) := avg_append_comm ps qs

/-! ### T_C09_derived — arc points derived from transformed edge data -/

/-- `Origin` edges (and every use of `functions.arc_mid`): the third point computed from the transformed centre and
    end points is the transformed third point; the square-root witnesses `r = |c − p1|`, `s = |mid − c|` are
    multiplied by the similarity ratio `k` -/
theorem T_C09_derived_origin (t : RT) (c p1 p2 : V3) (r s k : Rat) (hk : k ≠ 0) (hs : s ≠ 0) :
    arcMid (t.pt c) (t.pt p1) (t.pt p2) (k * r) (k * s) = t.pt (arcMid c p1 p2 r s) :=
  arcMid_equivariant t c p1 p2 r s k hk hs

/-- … and the scaled witnesses are witnesses of the transformed data whenever `k·k` is the squared ratio -/
theorem T_C09_derived_witness (t : RT) (ht : t.Valid) (p q : V3) (r k : Rat) (hr : r * r = V3.norm2 (p - q))
    (hk : k * k = t.ratio2) : (k * r) * (k * r) = V3.norm2 (t.pt p - t.pt q) := by
  rw [T_C09_point_similarity t ht, ← hr, ← hk]; ring

/-- `Angle` edges: the centre `arc_from_theta` computes from the transformed end points and the transformed axis
    cell (`t.dir`: turned by a rotation, untouched by translation and scaling, reflected *and reversed* by a mirror)
    is the transformed centre — for every sector angle (`τ = tan(θ/2)`), with the witnesses `cr = |dp × axis|`,
    `m = |chord|` multiplied by the ratio -/
theorem T_C09_derived_angle (p1 p2 ax : V3) (τ cr m : Rat) (hcr : cr ≠ 0) (hτ : τ ≠ 0) :
    (∀ d, angleCenter ((RT.translate d).pt p1) ((RT.translate d).pt p2) ((RT.translate d).dir ax) τ cr m
        = (RT.translate d).pt (angleCenter p1 p2 ax τ cr m)) ∧
    (∀ w a o, w * w + V3.dot a a ≠ 0 →
      angleCenter ((RT.rotate w a o).pt p1) ((RT.rotate w a o).pt p2) ((RT.rotate w a o).dir ax) τ cr m
        = (RT.rotate w a o).pt (angleCenter p1 p2 ax τ cr m)) ∧
    (∀ r o, r ≠ 0 →
      angleCenter ((RT.scale r o).pt p1) ((RT.scale r o).pt p2) ((RT.scale r o).dir ax) τ (r * cr) (r * m)
        = (RT.scale r o).pt (angleCenter p1 p2 ax τ cr m)) ∧
    (∀ n o, V3.dot n n ≠ 0 →
      angleCenter ((RT.mirror n o).pt p1) ((RT.mirror n o).pt p2) ((RT.mirror n o).dir ax) τ cr m
        = (RT.mirror n o).pt (angleCenter p1 p2 ax τ cr m)) := by
  have key : ∀ (t : RT) (off' : V3), off' = t.lin (angleOffset (p2 - p1) ax τ cr m) →
      V3.smul (1 / 2) (t.pt p1 + t.pt p2) + off' = t.pt (V3.smul (1 / 2) (p1 + p2) + angleOffset (p2 - p1) ax τ cr m) := by
    intro t off' h
    rw [h, RT.pt_mid]
    have := RT.pt_sub t (V3.smul (1 / 2) (p1 + p2) + angleOffset (p2 - p1) ax τ cr m) (V3.smul (1 / 2) (p1 + p2))
    rw [add_comm' (V3.smul (1 / 2) (p1 + p2)) _, add_sub_cancel'] at this
    rw [← this, add_comm' (V3.smul (1 / 2) (p1 + p2)) _]
    apply V3.ext' <;> simp only [V3.add_x, V3.add_y, V3.add_z, V3.sub_x, V3.sub_y, V3.sub_z] <;> ring
  refine ⟨?_, ?_, ?_, ?_⟩
  · intro d
    unfold angleCenter
    apply key
    have : (RT.translate d).pt p2 - (RT.translate d).pt p1 = p2 - p1 := by
      rw [RT.pt_sub]; rfl
    rw [this]; rfl
  · intro w a o hN
    unfold angleCenter
    apply key
    rw [RT.pt_sub]
    exact angleOffset_rotate w a (p2 - p1) ax τ cr m hN
  · intro r o hr
    unfold angleCenter
    apply key
    rw [RT.pt_sub]
    exact angleOffset_scale r (p2 - p1) ax τ cr m hr hcr hτ
  · intro n o hn
    unfold angleCenter
    apply key
    rw [RT.pt_sub]
    exact angleOffset_mirror n (p2 - p1) ax τ cr m hn

example : (3 : Rat) ≠ 0 ∧ (1 / 2 : Rat) ≠ 0 := by norm_num

/-- the chord and `dp × axis` of the transformed data are `ratio` times as long, so the scaled witnesses of
    `T_C09_derived_angle` are the ones the implementation computes -/
theorem T_C09_derived_angle_witness (t : RT) (ht : t.Valid) (dp ax : V3) :
    V3.dot (chordOf (t.lin dp) (t.dir ax)) (chordOf (t.lin dp) (t.dir ax)) = t.ratio2 * V3.dot (chordOf dp ax) (chordOf dp ax) ∧
    V3.dot (V3.cross (t.lin dp) (t.dir ax)) (V3.cross (t.lin dp) (t.dir ax))
      = t.ratio2 * V3.dot (V3.cross dp ax) (V3.cross dp ax) :=
  chord_cross_scale t ht dp ax

/-! ### T_C09_copy -/

/-- `copy()` leaves the heap it started from untouched (it is a prefix of the new heap), builds a tree of the same
    shape whose leaves read equal values, and all its cells are fresh: no identity is shared with the original -/
theorem T_C09_copy (e : Ent) (h : Heap) (hin : InHeap e h) :
    (∃ ext, (copy e h).2 = h ++ ext) ∧
    valsE (copy e h).2 (copy e h).1 = valsE h e ∧
    skelE (copy e h).1 = skelE e ∧
    (∀ v ∈ visitsE (copy e h).1, h.length ≤ v.1 ∧ v.1 < (copy e h).2.length) := by
  have hinv : Inv h ⟨[], h⟩ := ⟨⟨[], by simp⟩, by intro p hp; cases hp⟩
  obtain ⟨⟨_, hext, hvals, hfresh⟩, hskel⟩ := copyE_spec h e ⟨[], h⟩ hinv hin
  exact ⟨hext, hvals, hskel, hfresh⟩

example : InHeap sampleFace (List.replicate 8 V3.zero) := by unfold InHeap; decide

/-- independence: whatever method is then called on the copy, every cell of the original keeps its value -/
theorem T_C09_copy_independent (t : RT) (e : Ent) (h : Heap) (hin : InHeap e h) (i : Nat) (hi : i < h.length) :
    Heap.get (applyE t (copy e h).1 (copy e h).2).2 i = Heap.get h i := by
  obtain ⟨⟨ext, hext⟩, _, _, hfresh⟩ := T_C09_copy e h hin
  rw [applyE_heap, runV_untouched]
  · rw [hext]; exact get_append_left _ _ _ hi
  · intro hmem
    obtain ⟨v, hv, hvi⟩ := List.mem_map.mp hmem
    have := (hfresh v hv).1
    omega

/-- … and the other way round: whatever method is called on the *original* after copying, every cell of the copy
    keeps its value (the copy lives on fresh cells, the original's leaves all lie in the old heap) -/
theorem T_C09_copy_independent_rev (t : RT) (e : Ent) (h : Heap) (hin : InHeap e h) (i : Nat)
    (hi : h.length ≤ i) :
    Heap.get (applyE t e (copy e h).2).2 i = Heap.get (copy e h).2 i := by
  rw [applyE_heap, runV_untouched]
  intro hmem
  obtain ⟨v, hv, hvi⟩ := List.mem_map.mp hmem
  have := hin v hv
  omega

/-- the copy writes the same output geometry as the original (same skeleton, same values through every leaf) -/
theorem T_C09_copy_output (e : Ent) (h : Heap) (hin : InHeap e h) :
    resolveE (copy e h).2 (copy e h).1 = resolveE h e := by
  obtain ⟨_, hvals, hskel, _⟩ := T_C09_copy e h hin
  exact resolve_of_skel_vals h _ e _ hskel hvals

/-- … and whatever is then done to the copy, the ORIGINAL still writes the output it wrote before; together with
    `T_C09_output` for the copy (its cells are fresh, so it inherits NoAlias-free reasoning cell by cell): transforming
    the copy = transforming the output of the original, the original untouched -/
theorem T_C09_copy_output_independent (t : RT) (e : Ent) (h : Heap) (hin : InHeap e h) :
    resolveE (applyE t (copy e h).1 (copy e h).2).2 e = resolveE h e := by
  apply resolve_of_skel_vals h _ e e rfl
  simp only [valsE]
  apply List.map_congr_left
  intro v hv
  rw [T_C09_copy_independent t e h hin v.1 (hin v hv)]

/-- the other direction: transforming the original leaves the output of the copy what it was -/
theorem T_C09_copy_output_independent_rev (t : RT) (e : Ent) (h : Heap) (hin : InHeap e h) :
    resolveE (applyE t e (copy e h).2).2 (copy e h).1 = resolveE h e := by
  rw [← T_C09_copy_output e h hin]
  apply resolve_of_skel_vals _ _ _ _ rfl
  simp only [valsE]
  apply List.map_congr_left
  intro v hv
  obtain ⟨_, _, _, hfresh⟩ := T_C09_copy e h hin
  rw [T_C09_copy_independent_rev t e h hin v.1 (hfresh v hv).1]

/-- NoAlias is preserved by `copy`: the cells of the copy of a tree without shared leaves are consecutive fresh numbers -/
theorem T_C09_copy_noalias (e : Ent) (h : Heap) (hna : NoAlias e) : NoAlias (copy e h).1 :=
  copy_noalias e h hna

/-- **copy, then transform**: the transformed copy writes the transformed output of the original (and by
    `T_C09_copy_output_independent` the original still writes its own) -/
theorem T_C09_copy_transform (t : RT) (e : Ent) (h : Heap) (hna : NoAlias e) (hin : InHeap e h) :
    resolveE (applyE t (copy e h).1 (copy e h).2).2 (applyE t (copy e h).1 (copy e h).2).1 = mapV t (resolveE h e) := by
  obtain ⟨_, _, _, hfresh⟩ := T_C09_copy e h hin
  rw [T_C09_output t _ _ (T_C09_copy_noalias e h hna) (fun v hv => (hfresh v hv).2), T_C09_copy_output e h hin]

example : NoAlias sampleShape ∧ InHeap sampleShape (List.replicate 10 V3.zero) := by
  constructor
  · unfold NoAlias; decide
  · unfold InHeap; decide

/-! ### Round 6c: slot cardinalities from the constructors -/

/-- how many parts the slot `attr` of class `cls` holds, according to the model's schema -/
def slotCard (cls attr : String) : Option (Nat × Option Nat) :=
  (schema.find? (fun r => r.cls == cls)).bind (fun r => (r.slots.find? (fun s => s.name == attr)).map (fun s => (s.lo, s.hi)))

/-- the cardinalities the model's schema uses for the corner points and edges of a face and the side edges of an
    operation (hypotheses of the centre theorems through `wfV`) are the ones the constructors insist on: the shape guard
    `(4, 3)` and the `len(edges) != 4` guard of `Face.__init__`, the four-element list literal of `Operation.__init__`
    (read with `ast` on every run) -/
theorem T_C09_cardinality_source :
    Gen.c09Cardinality.map (fun r => (r.1, r.2.1)) = [("Face", "points"), ("Face", "edges"), ("Operation", "side_edges")] ∧
      Gen.c09Cardinality.all (fun r => slotCard r.1 r.2.1 == some (r.2.2, some r.2.2)) = true := by
  constructor <;> rfl

/-! ### Round 6c: `shear` on points and arrays — what the code does, and which part of it is an affine map -/

theorem absQ_nonneg_eq (x : Rat) (h : 0 ≤ x) : absQ x = x := by
  unfold absQ; split
  · linarith
  · rfl

theorem absQ_neg_eq (x : Rat) (h : x < 0) : absQ x = -x := by
  unfold absQ; simp [h]

/-- a point of the plane stays -/
theorem T_C09_shear_plane (n o d : V3) (sn sd c : Rat) (p : V3) (h : V3.dot (p - o) n = 0) :
    shearP n o d sn sd c p = p := by
  unfold shearP
  simp [h, absQ, shearTol]

/-- on the side the normal points to (farther than `TOL` from the plane) `shear` IS the affine shear map
    `p ↦ p + ((p − o)·n̂) cot θ · d̂`; on the other side it is the shear with the OPPOSITE sign (the code takes the absolute
    distance), so the two half-spaces are sheared the same way and the map as a whole is not affine -/
theorem T_C09_shear_sides (n o d : V3) (sn sd c : Rat) (p : V3) (hsn : 0 < sn) :
    (shearTol * sn < V3.dot (p - o) n →
      shearP n o d sn sd c p = p + V3.smul (V3.dot (p - o) n / sn * c / sd) d) ∧
    (V3.dot (p - o) n < -(shearTol * sn) →
      shearP n o d sn sd c p = p + V3.smul (-(V3.dot (p - o) n) / sn * c / sd) d) := by
  have htol : (0 : Rat) < shearTol := by unfold shearTol; norm_num
  constructor
  · intro h
    have hpos : 0 ≤ V3.dot (p - o) n := by nlinarith
    have hd : absQ (V3.dot (p - o) n) / sn > shearTol := by
      rw [absQ_nonneg_eq _ hpos, gt_iff_lt, lt_div_iff₀ hsn]; exact h
    unfold shearP
    simp only []
    rw [if_pos hd, absQ_nonneg_eq _ hpos]
  · intro h
    have hneg : V3.dot (p - o) n < 0 := by nlinarith
    have hd : absQ (V3.dot (p - o) n) / sn > shearTol := by
      rw [absQ_neg_eq _ hneg, gt_iff_lt, lt_div_iff₀ hsn]; linarith
    unfold shearP
    simp only []
    rw [if_pos hd, absQ_neg_eq _ hneg]

example : (0 : Rat) < 3 ∧ shearTol * 3 < V3.dot ((⟨0, 0, 2⟩ : V3) - ⟨0, 0, 0⟩) ⟨0, 0, 3⟩ := by
  constructor
  · norm_num
  · simp only [shearTol, V3.dot, V3.sub_x, V3.sub_y, V3.sub_z]; norm_num

/-- the displacement is always along `direction`; with an in-plane direction (what a shear is) every point keeps its
    distance from the plane -/
theorem T_C09_shear_direction (n o d : V3) (sn sd c : Rat) (p : V3) :
    V3.cross (shearP n o d sn sd c p - p) d = V3.zero ∧
      (V3.dot d n = 0 → V3.dot (shearP n o d sn sd c p - o) n = V3.dot (p - o) n) := by
  unfold shearP
  simp only []
  split
  · constructor
    · apply V3.ext' <;> v3_unfold <;> simp only [V3.cross_x, V3.cross_y, V3.cross_z, V3.zero] <;> ring
    · intro hdn
      simp only [V3.dot] at hdn ⊢
      v3_unfold
      linear_combination (absQ ((p.x - o.x) * n.x + (p.y - o.y) * n.y + (p.z - o.z) * n.z) / sn * c / sd) * hdn
  · constructor
    · apply V3.ext' <;> v3_unfold <;> simp only [V3.cross_x, V3.cross_y, V3.cross_z, V3.zero] <;> ring
    · intro _; rfl

/-- as coded `shear` is not an affine map: it does not carry the midpoint of two points on opposite sides of the plane
    to the midpoint of their images (C09's statement — "applying that affine map" — does not extend to it) -/
theorem T_C09_shear_not_affine :
    let sh := shearP ⟨0, 0, 1⟩ ⟨0, 0, 0⟩ ⟨1, 0, 0⟩ 1 1 1
    sh ⟨0, 0, 1⟩ = ⟨1, 0, 1⟩ ∧ sh ⟨0, 0, -1⟩ = ⟨1, 0, -1⟩ ∧ sh ⟨0, 0, 0⟩ = ⟨0, 0, 0⟩ ∧
      V3.smul (1 / 2) (sh ⟨0, 0, 1⟩ + sh ⟨0, 0, -1⟩) ≠ sh (V3.smul (1 / 2) (⟨0, 0, 1⟩ + ⟨0, 0, -1⟩)) := by
  have e1 : shearP ⟨0, 0, 1⟩ ⟨0, 0, 0⟩ ⟨1, 0, 0⟩ 1 1 1 ⟨0, 0, 1⟩ = ⟨1, 0, 1⟩ := by
    unfold shearP; simp only [V3.dot, V3.sub_x, V3.sub_y, V3.sub_z, absQ, shearTol]; norm_num
    apply V3.ext' <;> v3_unfold <;> norm_num
  have e2 : shearP ⟨0, 0, 1⟩ ⟨0, 0, 0⟩ ⟨1, 0, 0⟩ 1 1 1 ⟨0, 0, -1⟩ = ⟨1, 0, -1⟩ := by
    unfold shearP; simp only [V3.dot, V3.sub_x, V3.sub_y, V3.sub_z, absQ, shearTol]; norm_num
    apply V3.ext' <;> v3_unfold <;> norm_num
  have e3 : shearP ⟨0, 0, 1⟩ ⟨0, 0, 0⟩ ⟨1, 0, 0⟩ 1 1 1 ⟨0, 0, 0⟩ = ⟨0, 0, 0⟩ :=
    T_C09_shear_plane _ _ _ _ _ _ _ (by simp [V3.dot])
  refine ⟨e1, e2, e3, ?_⟩
  intro h
  have hm : V3.smul (1 / 2) ((⟨0, 0, 1⟩ : V3) + ⟨0, 0, -1⟩) = ⟨0, 0, 0⟩ := by
    apply V3.ext' <;> v3_unfold <;> norm_num
  rw [e1, e2, hm, e3] at h
  have := congrArg V3.x h
  simp only [V3.smul_x, V3.add_x] at this
  norm_num at this

/-! ### Round 6d: `shear` on whole entities, and what a sheared face keeps -/

/-- **`ElementBase.shear` on any part tree without shared leaves**: every leaf cell — corner points, arc points, rows of
    point arrays, and axis directions alike (`AxisVector` inherits `Point.shear`) — holds the point map of its old value,
    exactly once; no other cell changes; the tree keeps its shape (no inversion; interpolation caches dropped) -/
theorem T_C09_shear_tree (f : V3 → V3) (e : Ent) (h : Heap) (hna : NoAlias e) (hin : InHeap e h) :
    (∀ v ∈ visitsE e, Heap.get (shearE f e h).2 v.1 = f (Heap.get h v.1)) ∧
    (∀ i, i ∉ (visitsE e).map Prod.fst → Heap.get (shearE f e h).2 i = Heap.get h i) ∧
    (shearE f e h).2.length = h.length ∧ (shearE f e h).1 = invalidE e := by
  rw [shearE_heap]
  refine ⟨fun v hv => runG_once f (visitsE e) h v.1 v.2 hna hv (hin v hv), fun i hi => runG_untouched f _ h i hi,
    runG_length f _ h, shearE_tree f e h⟩

example : NoAlias sampleFace ∧ InHeap sampleFace (List.replicate 8 V3.zero) := by
  constructor
  · unfold NoAlias; decide
  · unfold InHeap; decide

/-- the affine shear of the half-space the normal points to -/
def shearPlus (n o d : V3) (sn sd c : Rat) (p : V3) : V3 := p + V3.smul (V3.dot (p - o) n / sn * c / sd) d

/-- **a face (four corner points, straight edges) that lies on the normal's side of the plane, farther than `TOL`**: its
    corners are carried by ONE affine map (`shearPlus`), so everything affine is kept — in particular the centre of the
    sheared face is the sheared centre (the centre is on that side too) and a straight edge is the image of the straight
    edge.  (Distances and angles are not kept: a shear is not a similarity.) -/
theorem T_C09_shear_face_one_side (n o d : V3) (sn sd c : Rat) (p0 p1 p2 p3 : V3) (hsn : 0 < sn)
    (h0 : shearTol * sn < V3.dot (p0 - o) n) (h1 : shearTol * sn < V3.dot (p1 - o) n)
    (h2 : shearTol * sn < V3.dot (p2 - o) n) (h3 : shearTol * sn < V3.dot (p3 - o) n) :
    let sh := shearP n o d sn sd c
    sh p0 = shearPlus n o d sn sd c p0 ∧ sh p1 = shearPlus n o d sn sd c p1 ∧
    sh p2 = shearPlus n o d sn sd c p2 ∧ sh p3 = shearPlus n o d sn sd c p3 ∧
    avg [sh p0, sh p1, sh p2, sh p3] = sh (avg [p0, p1, p2, p3]) ∧
    (∀ lam : Rat, shearPlus n o d sn sd c (p0 + V3.smul lam (p1 - p0)) =
      shearPlus n o d sn sd c p0 + V3.smul lam (shearPlus n o d sn sd c p1 - shearPlus n o d sn sd c p0)) := by
  intro sh
  have e0 := (T_C09_shear_sides n o d sn sd c p0 hsn).1 h0
  have e1 := (T_C09_shear_sides n o d sn sd c p1 hsn).1 h1
  have e2 := (T_C09_shear_sides n o d sn sd c p2 hsn).1 h2
  have e3 := (T_C09_shear_sides n o d sn sd c p3 hsn).1 h3
  have hc : shearTol * sn < V3.dot (avg [p0, p1, p2, p3] - o) n := by
    have : V3.dot (avg [p0, p1, p2, p3] - o) n =
        (V3.dot (p0 - o) n + V3.dot (p1 - o) n + V3.dot (p2 - o) n + V3.dot (p3 - o) n) / 4 := by
      simp only [avg, vsum, List.foldl, List.length, V3.dot]
      v3_unfold
      simp only [V3.zero]
      push_cast
      ring
    rw [this]; linarith
  have ec := (T_C09_shear_sides n o d sn sd c _ hsn).1 hc
  refine ⟨e0, e1, e2, e3, ?_, ?_⟩
  · show avg [shearP n o d sn sd c p0, shearP n o d sn sd c p1, shearP n o d sn sd c p2, shearP n o d sn sd c p3] = _
    rw [e0, e1, e2, e3]
    show _ = shearP n o d sn sd c (avg [p0, p1, p2, p3])
    rw [ec]
    simp only [avg, vsum, List.foldl, List.length, V3.dot, V3.zero]
    apply V3.ext' <;> v3_unfold <;> push_cast <;> ring
  · intro lam
    simp only [shearPlus, V3.dot]
    apply V3.ext' <;> v3_unfold <;> ring

example : (0 : Rat) < 1 ∧ shearTol * 1 < V3.dot ((⟨0, 0, 2⟩ : V3) - ⟨0, 0, 0⟩) ⟨0, 0, 1⟩ := by
  constructor
  · norm_num
  · simp only [shearTol, V3.dot, V3.sub_x, V3.sub_y, V3.sub_z]; norm_num

/-- **a face that straddles the plane is not carried by an affine map**: the quad (0,0,1), (1,0,1), (1,0,−1), (0,0,−1)
    across the plane z = 0, sheared along x: all four corners move by +1 in x, the centre of the sheared face is
    (3/2, 0, 0) while the centre (1/2, 0, 0) lies on the plane and stays — and the straight edge from (0,0,−1) to (0,0,1),
    whose midpoint is on the plane and does not move, is replaced by the straight edge between the moved end points,
    which does not pass through it -/
theorem T_C09_shear_face_straddling :
    let sh := shearP ⟨0, 0, 1⟩ ⟨0, 0, 0⟩ ⟨1, 0, 0⟩ 1 1 1
    avg [sh ⟨0, 0, 1⟩, sh ⟨1, 0, 1⟩, sh ⟨1, 0, -1⟩, sh ⟨0, 0, -1⟩] = ⟨3 / 2, 0, 0⟩ ∧
      sh (avg [⟨0, 0, 1⟩, ⟨1, 0, 1⟩, ⟨1, 0, -1⟩, ⟨0, 0, -1⟩]) = ⟨1 / 2, 0, 0⟩ := by
  have key : ∀ x z : Rat, z = 1 ∨ z = -1 → shearP ⟨0, 0, 1⟩ ⟨0, 0, 0⟩ ⟨1, 0, 0⟩ 1 1 1 ⟨x, 0, z⟩ = ⟨x + 1, 0, z⟩ := by
    intro x z hz
    unfold shearP
    rcases hz with rfl | rfl <;>
      (simp only [V3.dot, V3.sub_x, V3.sub_y, V3.sub_z, absQ, shearTol]; norm_num
       apply V3.ext' <;> v3_unfold <;> norm_num)
  intro sh
  constructor
  · show avg [shearP _ _ _ 1 1 1 ⟨0, 0, 1⟩, shearP _ _ _ 1 1 1 ⟨1, 0, 1⟩, shearP _ _ _ 1 1 1 ⟨1, 0, -1⟩,
      shearP _ _ _ 1 1 1 ⟨0, 0, -1⟩] = _
    rw [key 0 1 (Or.inl rfl), key 1 1 (Or.inl rfl), key 1 (-1) (Or.inr rfl), key 0 (-1) (Or.inr rfl)]
    simp only [avg, vsum, List.foldl, List.length]
    apply V3.ext' <;> v3_unfold <;> simp only [V3.zero] <;> norm_num
  · have hm : avg [(⟨0, 0, 1⟩ : V3), ⟨1, 0, 1⟩, ⟨1, 0, -1⟩, ⟨0, 0, -1⟩] = ⟨1 / 2, 0, 0⟩ := by
      simp only [avg, vsum, List.foldl, List.length]
      apply V3.ext' <;> v3_unfold <;> simp only [V3.zero] <;> norm_num
    show shearP _ _ _ 1 1 1 _ = _
    rw [hm]
    exact T_C09_shear_plane _ _ _ _ _ _ _ (by simp [V3.dot])

/-- the least number of rows of a point array that `wfV` demands is the one `Array.__init__` enforces (its guard
    `len(points) <= 1`, read with `ast`), and with it an array is never empty — what the centre theorems need -/
theorem T_C09_array_rows_source :
    arrayMinRows = Gen.c09ArrayMinRows ∧ (∀ vs : List V3, wfV (.arr vs) = true → vs ≠ []) := by
  refine ⟨rfl, ?_⟩
  intro vs h h0
  rw [h0] at h
  simp [wfV, arrayMinRows] at h

/-! ### Round 6f: shear joins "transform, then read = read, then transform" — with its own map -/

/-- **`ElementBase.shear` on any part tree without shared leaves**: shearing the entity in place and reading its output
    geometry = reading the output geometry and applying the point map leaf by leaf (`shearV`: corner points, arc points,
    array rows and axis directions by the SAME map — not `t.dir`; no inversion; caches dropped).  The analogue of
    `T_C09_output` for a map that is not a similarity and, as coded (`shearP`), not even affine. -/
theorem T_C09_shear_output (f : V3 → V3) (e : Ent) (h : Heap) (hna : NoAlias e) (hin : InHeap e h) :
    resolveE (shearE f e h).2 (shearE f e h).1 = shearV f (resolveE h e) :=
  resolve_shearE f e h hna hin

/-- what `shearV` does: the same point map on every kind of leaf, the skeleton kept -/
theorem T_C09_shear_output_leaves (f : V3 → V3) (v : V3) (vs : List V3) (k : Kind) (a : Rat) (ch : List VEnt) :
    shearV f (.pt v) = .pt (f v) ∧ shearV f (.dir v) = .dir (f v) ∧ shearV f (.arr vs) = .arr (vs.map f) ∧
      shearV f (.node k a ch) = .node k (touchAttr k a) (shearVL f ch) := by
  simp [shearV]

/-- NoAlias and InHeap survive a shear (the tree keeps its cells), so the next call is covered again -/
theorem T_C09_shear_invariant (f : V3 → V3) (e : Ent) (h : Heap) (hna : NoAlias e) (hin : InHeap e h) :
    NoAlias (shearE f e h).1 ∧ InHeap (shearE f e h).1 (shearE f e h).2 :=
  inv_shearE f e h hna hin

/-- **sequences that contain shear steps** (any entity, any length, method chain or transformation list for the four
    transformations, default origins resolved against the current centre; shear steps with any point map): running the
    sequence on the entity in the heap and reading the output = running the value-level sequence on the output read
    before; both sides refuse together.  Extends `T_C09_sequence`. -/
theorem T_C09_sequence_shear (viaMethod : Bool) (steps : List AnyStep) (e : Ent) (h : Heap)
    (hna : NoAlias e) (hin : InHeap e h) :
    (runS viaMethod steps (e, h)).map (fun s => resolveE s.2 s.1) = runSV viaMethod steps (resolveE h e) :=
  runS_resolve viaMethod steps e h hna hin

/-- without shear steps the mixed sequence is the sequence of `T_C09_sequence` -/
theorem T_C09_sequence_shear_conservative (viaMethod : Bool) (ts : List (Tr × Option V3)) (s : Ent × Heap) (v : VEnt) :
    runS viaMethod (ts.map AnyStep.tr) s = runSteps viaMethod ts s ∧
      runSV viaMethod (ts.map AnyStep.tr) v = runStepsV viaMethod ts v := by
  constructor
  · rw [runSteps_eq]
    simp only [runS, List.foldlM_map, stepHS]
  · rw [runStepsV_eq]
    simp only [runSV, List.foldlM_map, stepOS]

/-- a face sheared, then translated, then sheared again: NoAlias / InHeap hold for the sample, the sequence is defined -/
example : NoAlias sampleFace ∧ InHeap sampleFace (List.replicate 8 V3.zero) ∧
    (runS true [.shear (shearP ⟨0, 0, 1⟩ ⟨0, 0, 0⟩ ⟨1, 0, 0⟩ 1 1 1), .tr (.translate ⟨1, 2, 3⟩, none),
      .shear (shearP ⟨0, 0, 1⟩ ⟨0, 0, 0⟩ ⟨1, 0, 0⟩ 1 1 1)] (sampleFace, List.replicate 8 V3.zero)).isSome = true := by
  refine ⟨?_, ?_, ?_⟩
  · unfold NoAlias; decide
  · unfold InHeap; decide
  · simp [runS, stepHS, stepH, method, Tr.resolveWith]

end CBV.C09
