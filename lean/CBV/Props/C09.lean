/-
C09 — property theorems.  Translating, rotating, scaling or mirroring an entity is the affine similarity
applied to every point cell exactly once (direction cells: linear part only, reversed by a mirror),
whatever the shape of the part tree, provided no leaf is shared (NoAlias); default origins follow the entity;
a copy is an equal entity on fresh cells.
-/
import CBV.Lemmas.C09Algebra
import CBV.Lemmas.C09Tree
import CBV.Lemmas.C09Center

namespace CBV.C09
open CBV

set_option linter.unusedSimpArgs false

/-! ### T_C09_point — the four primitives on a point are the affine map they are named after -/

/-- every resolved transformation acts on points as an affine map with linear part `t.lin` -/
theorem T_C09_point_affine (t : RT) :
    (∀ p q, t.pt p - t.pt q = t.lin (p - q)) ∧ (∀ u v, t.lin (u + v) = t.lin u + t.lin v) ∧
      (∀ c v, t.lin (V3.smul c v) = V3.smul c (t.lin v)) :=
  ⟨RT.pt_sub t, RT.lin_add t, RT.lin_smul t⟩

/-- … which is a similarity: distances are multiplied by the ratio (1 except for `scale`) … -/
theorem T_C09_point_similarity (t : RT) (ht : t.Valid) (p q : V3) :
    V3.norm2 (t.pt p - t.pt q) = t.ratio2 * V3.norm2 (p - q) := by
  simp only [V3.norm2, RT.pt_sub, RT.lin_dot t ht]

/-- … angles between directions are kept, orientation is kept by translate/rotate/scale and reversed by mirror -/
theorem T_C09_point_orientation (t : RT) (ht : t.Valid) (u v : V3) :
    V3.dot (t.lin u) (t.lin v) = t.ratio2 * V3.dot u v ∧
      V3.cross (t.lin u) (t.lin v) = V3.smul t.sigma (t.lin (V3.cross u v)) :=
  ⟨RT.lin_dot t ht u v, RT.lin_cross t ht u v⟩

example : (RT.rotate 2 ⟨1, 2, 2⟩ ⟨1, 0, 3⟩).Valid ∧ (RT.mirror ⟨1, -3, 2⟩ ⟨0, 1, 1⟩).Valid := by
  constructor <;> simp only [RT.Valid, V3.dot] <;> norm_num

theorem T_C09_point_translate (d p : V3) : (RT.translate d).pt p = p + d := rfl

/-- `rotate` keeps every point of the axis line through the origin … -/
theorem T_C09_point_rotate_axis (w : Rat) (a o : V3) (s : Rat) :
    rotP w a o (o + V3.smul s a) = o + V3.smul s a := by
  have h : o + V3.smul s a - o = V3.smul s a := by apply V3.ext' <;> v3_unfold <;> ring
  unfold rotP
  rw [h, rotLin_smul, rotLin_axis, add_comm']

/-- … and turns every direction normal to the axis by the angle `θ` with `cos θ = (w²−|a|²)/(w²+|a|²)`,
    `sin θ = 2w|a|/(w²+|a|²)`, counter-clockwise about `a`: that is `θ = 2·atan2(|a|, w)`, the angle the harness
    passes to the implementation -/
theorem T_C09_point_rotate_angle (w : Rat) (a v : V3) (hN : w * w + V3.dot a a ≠ 0) (hperp : V3.dot a v = 0) :
    (w * w + V3.dot a a) * V3.dot v (rotLin w a v) = (w * w - V3.dot a a) * V3.dot v v ∧
      V3.smul (w * w + V3.dot a a) (V3.cross v (rotLin w a v)) = V3.smul (2 * w * V3.dot v v) a :=
  ⟨rotLin_cos w a v hN hperp, rotLin_sin w a v hN hperp⟩

example : (2 : Rat) * 2 + V3.dot ⟨1, 2, 2⟩ ⟨1, 2, 2⟩ ≠ 0 ∧ V3.dot ⟨1, 2, 2⟩ ⟨2, 1, -2⟩ = 0 := by
  constructor <;> simp only [V3.dot] <;> norm_num

theorem T_C09_point_scale (r : Rat) (o p : V3) : scaleP r o p - o = V3.smul r (p - o) := by
  apply V3.ext' <;> v3_unfold <;> ring

/-- `mirror` is an involution that fixes the plane through `o` normal to `n` pointwise and sends `o + n` to `o − n` -/
theorem T_C09_point_mirror (n o p : V3) (hn : V3.dot n n ≠ 0) :
    mirP n o (mirP n o p) = p ∧ (V3.dot (p - o) n = 0 → mirP n o p = p) ∧ mirP n o (o + n) = o - n := by
  refine ⟨?_, ?_, ?_⟩
  · have h : mirP n o p - o = mirLin n (p - o) := by apply V3.ext' <;> v3_unfold <;> ring
    show mirLin n (mirP n o p - o) + o = p
    rw [h, mirLin_invol n _ hn, sub_add_cancel']
  · intro h
    show mirLin n (p - o) + o = p
    rw [mirLin_inplane n _ h, sub_add_cancel']
  · have h : o + n - o = n := by apply V3.ext' <;> v3_unfold <;> ring
    show mirLin n (o + n - o) + o = o - n
    rw [h, mirLin_normal n hn]
    apply V3.ext' <;> v3_unfold <;> ring

example : V3.dot (⟨1, -3, 2⟩ : V3) ⟨1, -3, 2⟩ ≠ 0 := by simp only [V3.dot]; norm_num

/-- direction quantities (the axis of an `Angle` edge, the normal of a `CircleCurve`) are rotated / reflected but
    not displaced: their image does not depend on the displacement, the origin or the ratio, and they keep
    their length -/
theorem T_C09_direction (v : V3) :
    (∀ d, (RT.translate d).dir v = v) ∧ (∀ r o, (RT.scale r o).dir v = v) ∧
      (∀ w a o o', (RT.rotate w a o).dir v = (RT.rotate w a o').dir v) ∧
      (∀ n o o', (RT.mirror n o).dir v = (RT.mirror n o').dir v) ∧
      (∀ t : RT, t.Valid → V3.dot (t.dir v) (t.dir v) = V3.dot v v) := by
  refine ⟨fun _ => rfl, fun _ _ => rfl, fun _ _ _ _ => rfl, fun _ _ _ => rfl, ?_⟩
  intro t ht
  cases t <;> simp only [RT.dir]
  · exact rotLin_dot _ _ _ _ ht
  · rw [dot_neg_neg]; exact mirLin_dot _ _ _ ht

/-- a reflection turns the rotation about `a` into the rotation about the reversed reflected axis: mirroring the
    point data and giving the axis cell `−(mirLin n a)` (what `AxisVector.mirror` does) reproduces the mirrored arc /
    circle for every parameter value -/
theorem T_C09_mirror_axial (n o : V3) (w : Rat) (a c p : V3) (hn : V3.dot n n ≠ 0) :
    mirP n o (rotP w a c p) = rotP w ((RT.mirror n o).dir a) (mirP n o c) (mirP n o p) :=
  mir_rot_conj n o w a c p hn

/-! ### T_C09_tree — recursive delegation over an arbitrary part tree -/

/-- no leaf object is reachable twice through `.parts` (validated on the real objects with `id()`) -/
def NoAlias (e : Ent) : Prop := ((visitsE e).map Prod.fst).Nodup

/-- every leaf refers to an existing cell -/
def InHeap (e : Ent) (h : Heap) : Prop := ∀ v ∈ visitsE e, v.1 < h.length

/-- Whatever the tree, a method call changes every point cell by the affine map, every direction cell by the
    direction action, each exactly once, and nothing else. -/
theorem T_C09_tree (t : RT) (e : Ent) (h : Heap) (hna : NoAlias e) (hin : InHeap e h) :
    (∀ i, (i, false) ∈ visitsE e → Heap.get (applyE t e h).2 i = t.pt (Heap.get h i)) ∧
    (∀ i, (i, true) ∈ visitsE e → Heap.get (applyE t e h).2 i = t.dir (Heap.get h i)) ∧
    (∀ i, i ∉ (visitsE e).map Prod.fst → Heap.get (applyE t e h).2 i = Heap.get h i) ∧
    (applyE t e h).2.length = h.length := by
  rw [applyE_heap]
  refine ⟨?_, ?_, ?_, runV_length t _ h⟩
  · intro i hi
    have := runV_once t (visitsE e) h i false hna hi (hin _ hi)
    simpa using this
  · intro i hi
    have := runV_once t (visitsE e) h i true hna hi (hin _ hi)
    simpa using this
  · intro i hi
    exact runV_untouched t _ h i hi

/-- a face with an arc, a spline (array of two rows) and an Angle edge: 4 + 1 + 2 + 1 distinct cells -/
def sampleFace : Ent :=
  .node .face 0 [.pt 0, .pt 1, .pt 2, .pt 3, .node .edge 0 [.pt 4],
    .node .spline 0 [.node .dcurve 0 [.arr [5, 6]]], .node .angle (1 / 2) [.dir 7], .node .edge 0 []]

example : NoAlias sampleFace ∧ InHeap sampleFace (List.replicate 8 V3.zero) := by
  constructor
  · unfold NoAlias; decide
  · unfold InHeap; decide

/-- the same holds for the transformation list (the parts are transformed directly) -/
theorem T_C09_tree_list (t : RT) (k : Kind) (a : Rat) (ch : List Ent) (h : Heap)
    (hna : NoAlias (.node k a ch)) (hin : InHeap (.node k a ch) h) :
    (∀ i, (i, false) ∈ visitsL ch → Heap.get (applyL t ch h).2 i = t.pt (Heap.get h i)) ∧
    (∀ i, (i, true) ∈ visitsL ch → Heap.get (applyL t ch h).2 i = t.dir (Heap.get h i)) ∧
    (∀ i, i ∉ (visitsL ch).map Prod.fst → Heap.get (applyL t ch h).2 i = Heap.get h i) := by
  have h1 : visitsE (.node k a ch) = visitsL ch := by simp [visitsE]
  have := T_C09_tree t (.node k a ch) h hna hin
  simp only [applyE, h1] at this
  exact ⟨this.1, this.2.1, this.2.2.1⟩

/-- translate / rotate / scale never change the tree; -/
theorem T_C09_tree_shape (t : RT) (ht : t.isMirror = false) (e : Ent) (h : Heap) : (applyE t e h).1 = e :=
  applyE_tree t ht e h

/-- `Operation.mirror` mirrors the six parts, swaps the two faces and reverses the data of the four side edges
    (so that each side edge still describes the mirror image of its curve, now from the other end) -/
theorem T_C09_op_mirror (n o : V3) (a : Rat) (b t s0 s1 s2 s3 : Ent) (h : Heap) :
    ∃ b' t' s0' s1' s2' s3' h',
      applyL (.mirror n o) [b, t, s0, s1, s2, s3] h = ([b', t', s0', s1', s2', s3'], h') ∧
      applyE (.mirror n o) (.node .op a [b, t, s0, s1, s2, s3]) h =
        (.node .op a [t', b', reverseE s0', reverseE s1', reverseE s2', reverseE s3'], h') := by
  simp only [applyE, applyL, RT.isMirror, invertOp, List.map, Bool.true_and, beq_self_eq_true, if_true]
  exact ⟨_, _, _, _, _, _, _, rfl, rfl⟩

/-- reversing the data of an Angle or Spline/PolyLine edge twice gives it back -/
theorem T_C09_reverse_involutive (a a2 : Rat) (ch : List Ent) (is : List Nat) :
    reverseE (reverseE (.node .angle a ch)) = .node .angle a ch ∧
      reverseE (reverseE (.node .spline a [.node .dcurve a2 [.arr is]])) = .node .spline a [.node .dcurve a2 [.arr is]] := by
  simp [reverseE]

/-- without NoAlias the statement is false: a leaf that is shared by two parts (the `Face` that the lofts of a
    sphere shared before the repair) is moved twice -/
theorem T_C09_alias_counterexample :
    let e : Ent := .node .shape 0 [.pt 0, .pt 0]
    ¬ NoAlias e ∧
      Heap.get (applyE (.translate ⟨1, 0, 0⟩) e [⟨5, 5, 5⟩]).2 0 = ⟨7, 5, 5⟩ := by
  constructor
  · unfold NoAlias; decide
  · simp only [applyE, applyL, RT.pt, Heap.get]
    apply V3.ext' <;> (simp [RT.pt]; try norm_num)

/-! ### T_C09_compose — transformation lists and default origins -/

/-- a list (or a chain of method calls) is the composition of its steps, each resolved against the state the
    previous steps left behind -/
theorem T_C09_compose (viaMethod : Bool) (t : Tr × Option V3) (ts : List (Tr × Option V3)) (s : Ent × Heap) :
    runSteps viaMethod (t :: ts) s =
      ((if viaMethod then method t.1 t.2 s else transformStep t.1 t.2 s).bind (runSteps viaMethod ts)) := by
  simp only [runSteps, List.foldlM_cons]
  rfl

/-- every modelled centre is an average of points, and an affine map commutes with averages: -/
theorem T_C09_center_equivariant (t : RT) (ps : List V3) (hne : ps ≠ []) : t.pt (avg ps) = avg (ps.map t.pt) :=
  RT.pt_avg t ps hne

/-- hence the default origin of the next step is the image of the previous centre; spelled out for a face with
    four distinct corner cells (any edge data): after any method call the centre of the face is the image of its
    centre -/
theorem T_C09_compose_face (t : RT) (a : Rat) (i0 i1 i2 i3 : Nat) (edges : List Ent) (h : Heap)
    (hna : NoAlias (.node .face a (.pt i0 :: .pt i1 :: .pt i2 :: .pt i3 :: edges)))
    (hin : InHeap (.node .face a (.pt i0 :: .pt i1 :: .pt i2 :: .pt i3 :: edges)) h) :
    let e : Ent := .node .face a (.pt i0 :: .pt i1 :: .pt i2 :: .pt i3 :: edges)
    center (applyE t e h).2 none (applyE t e h).1 = (center h none e).map t.pt := by
  intro e
  have ht := T_C09_tree t e h hna hin
  have hv : ∀ i, i ∈ [i0, i1, i2, i3] → (i, false) ∈ visitsE e := by
    intro i hi
    simp only [e, visitsE, visitsL, List.mem_append, List.mem_cons, List.not_mem_nil, or_false, List.cons_append,
      List.nil_append, Prod.mk.injEq, and_true] at hi ⊢
    rcases hi with h | h | h | h <;> simp [h]
  have g0 := ht.1 i0 (hv i0 (by simp))
  have g1 := ht.1 i1 (hv i1 (by simp))
  have g2 := ht.1 i2 (hv i2 (by simp))
  have g3 := ht.1 i3 (hv i3 (by simp))
  have hshape : ∃ es', (applyE t e h).1 = .node .face a (.pt i0 :: .pt i1 :: .pt i2 :: .pt i3 :: es') := by
    simp only [e, applyE, applyL]
    cases hm : t.isMirror <;> simp
  obtain ⟨es', hs⟩ := hshape
  rw [hs]
  simp only [center, faceCenter, facePts, children, List.take, List.filterMap, ptOf, Option.map, e]
  rw [g0, g1, g2, g3]
  rw [T_C09_center_equivariant t _ (by simp)]
  simp

/-- an operation keeps its centre under `mirror` although its faces are swapped -/
theorem T_C09_center_swap (ps qs : List V3) : avg (ps ++ qs) = avg (qs ++ ps) := avg_append_comm ps qs

end CBV.C09
