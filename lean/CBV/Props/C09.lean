/- C09 — property theorems.  Stub. -/
import CBV.Model.C09

namespace CBV.C09

end CBV.C09
