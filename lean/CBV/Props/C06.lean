/-
C06 — property theorems.  The written file (as a token stream) parses back to the dictionary it
was rendered from; the dictionary that `Mesh.assemble` + `Mesh.write` produce for a declaration
lists one hex per non-deleted operation in depot order, only existing vertex numbers, only quads
that are `FACE_MAP` sides of its blocks, exactly the declared patch sides and projected sides,
and the debug VTK reads back to the same points and cells.
-/
import CBV.Lemmas.C06Geo
import CBV.Lemmas.C06Num
import CBV.Lemmas.C06Fmt
import CBV.Lemmas.C06Repr
import CBV.Lemmas.C06Lex
import CBV.Lemmas.C06ReprGen
import CBV.Lemmas.C06ReprParse
import CBV.Lemmas.C06ReprSpacing
import CBV.Lemmas.C06ReprNeg
import Mathlib.Data.String.Basic
import CBV.Gen.TC06

set_option linter.unusedSectionVars false

namespace CBV.C06

/-! ### the parser reads the renderer's output back -/

/-- **T_C06_bracket.** Bracket layer: every sequence of trees is recovered from its tokens. -/
theorem T_C06_bracket (ts : List Tree) : parseTrees (flatList ts) = some ts := parseTrees_flatList ts

/-- **T_C06_bracket_faithful.** Conversely, a token stream that parses *is* the flattening of its
    parse: token streams with balanced brackets and sequences of trees are in bijection, so
    nothing of the file is lost or invented by the bracket layer. -/
theorem T_C06_bracket_faithful (toks : List Tok) (ts : List Tree) (h : parseTrees toks = some ts) :
    flatList ts = toks := parseTrees_faithful toks ts h

example : parseTrees [.word "a", .lp, .word "b", .semi, .rp] = some [.atom "a", .paren [.atom "b", .semi]] := rfl

/-- **T_C06_schema.** Schema layer: every well-formed dictionary is recovered from its trees. -/
theorem T_C06_schema (d : Dict) (h : WF d) : decode (encode d) = some d := decode_encode d h

/-- **T_C06_roundtrip.** `parse (render d) = some d` for every dictionary whose statements
    (setting values, geometry properties, patch options) contain no `;` and whose setting names
    are not `geometry` / `vertices`. -/
theorem T_C06_roundtrip (d : Dict) (h : WF d) : parse (render d) = some d := parse_render d h

/-- … in particular for the dictionary assembled from any declaration with such statements:
    the file written for a model parses as a blockMeshDict, and to exactly that dictionary. -/
theorem T_C06_roundtrip_assembled (decl : Decl) (h : WFDecl decl) :
    parse (render (assembleDecl decl)) = some (assembleDecl decl) :=
  parse_render _ (wf_dictOf decl h _ _)

/-- the hypothesis is satisfiable by a declaration with settings, geometry and patch options -/
def sampleDecl : Decl :=
  { foamFile := [.atom "version", .atom "2.0", .semi], headComment := "// *", footer := ["// end"],
    settings := [("scale", [.atom "1"])],
    geomBefore := [⟨"terrain", [[.atom "type", .atom "searchablePlane"], [.atom "basePoint", .paren [.atom "0", .atom "0", .atom "0"]]]⟩],
    geomAfter := [], mergedBefore := [("m", "s")], mergedAfter := [], default := some ("walls", "wall"),
    modifyBefore := [⟨"inlet", "patch", some [[.atom "inGroups", .paren [.atom "a"]]]⟩], modifyAfter := [],
    depot := [] }

example : WFDecl sampleDecl := by
  refine ⟨?_, ?_, ?_, ?_, ?_, ?_⟩ <;> simp [sampleDecl, NoSemi, isSectionKey, Tree.isSemi]

/-! ### text ↔ tokens -/

/-- **T_C06_lex_unlex.** The tokenizer of the file text (`lexText`: blanks, `//` comments, `/* */`, punctuation, words) reads
    back every text made of well-formed tokens (`Tok.wf`: a word is a non-empty run of non-blank, non-punctuation characters
    that does not begin like a comment; a comment begins with `//`, stays on its line, has no trailing blank), each followed
    by a blank or, after a comment, a line break. -/
theorem T_C06_lex_unlex (toks : List Tok) (h : ∀ t ∈ toks, t.wf = true) : lexText (unlex toks) = toks :=
  lexText_unlex toks h

/-- **T_C06_text_faithful.** Hence comparing token lists is faithful to the text: two well-formed token lists with the same
    text are the same list. -/
theorem T_C06_text_faithful (a b : List Tok) (ha : ∀ t ∈ a, t.wf = true) (hb : ∀ t ∈ b, t.wf = true)
    (h : unlex a = unlex b) : a = b := by
  rw [← lexText_unlex a ha, ← lexText_unlex b hb, h]

/-- **T_C06_text_roundtrip.** From the *text* back to the dictionary: for every well-formed dictionary whose rendering
    consists of well-formed tokens, tokenizing and parsing the text of the rendering gives the dictionary. -/
theorem T_C06_text_roundtrip (d : Dict) (h : WF d) (hw : ∀ t ∈ render d, t.wf = true) :
    parse (lexText (unlex (render d))) = some d := by
  rw [lexText_unlex _ hw]; exact parse_render d h

/-- the hypotheses hold for an assembled declaration with settings, geometry, patches (all tokens of its rendering are
    well-formed), and the tokenizer copes with layout and comments of a real file -/
example : (render (assembleDecl sampleDecl)).all Tok.wf = true := by decide +kernel

example : lexText "a /* x ( */ (b;// c  \n d//e /)".toList =
    [.word "a", .lp, .word "b", .semi, .comment "// c", .word "d//e", .word "/", .rp] := by decide +kernel

/-! ### what the assembled dictionary contains -/

/-- **T_C06_blocks.** One `hex` entry per non-deleted operation, in depot order; entry `k` lists the
    vertex numbers the C05 model assigned to the eight corners of operation `k`, in the operation's
    own corner order, with its cell zone, its (opaque) counts and grading, and the comment `// k`. -/
theorem T_C06_blocks (decl : Decl) :
    (assembleDecl decl).blocks.length = (declOps decl).length ∧
    ∀ (k : Nat) (o : OpDecl), (declOps decl)[k]? = some o →
      ∃ vs, (declVA decl).2[k]? = some vs ∧
        (assembleDecl decl).blocks[k]? =
          some ⟨vs.map (·.index), o.zone, o.counts, (gradingOf o).1, (gradingOf o).2, "// " ++ toString k⟩ := by
  obtain ⟨_, _, k3, _, _⟩ := assemble_winv closeCorner (C05.slavePatches (declMerged decl))
    ((declOps decl).map OpDecl.toC05) (vl := {}) winv_empty
  have hlen : (declVA decl).2.length = (declOps decl).length := by
    unfold declVA; rw [k3, List.length_map]
  constructor
  · simp [assembleDecl, dictOf, blocksOf, hlen]
  · intro k o ho
    have hk : k < (declVA decl).2.length := by rw [hlen]; exact (List.getElem?_eq_some_iff.mp ho).1
    refine ⟨(declVA decl).2[k], List.getElem?_eq_getElem hk, ?_⟩
    show (blocksOf ((declOps decl).zip ((declVA decl).2.map (·.map (·.index)))))[k]? = _
    rw [blocksOf_getElem?]
    have hz : ((declOps decl).zip ((declVA decl).2.map (·.map (·.index))))[k]? =
        some (o, (declVA decl).2[k].map (·.index)) := by
      rw [List.getElem?_zip_eq_some]
      exact ⟨ho, by rw [List.getElem?_map, List.getElem?_eq_getElem hk]; rfl⟩
    rw [hz]
    rfl

/-- **T_C06_axis_pairs.** (`decide`, regenerated table) `constants.AXIS_PAIRS` lists the wires in the
    order in which blockMesh reads the twelve numbers of `edgeGrading`:
    x-edges 0-1, 3-2, 7-6, 4-5; y-edges 0-3, 1-2, 5-6, 4-7; z-edges 0-4, 1-5, 2-6, 3-7. -/
theorem T_C06_axis_pairs :
    CBV.Gen.axisPairs = [[(0, 1), (3, 2), (7, 6), (4, 5)], [(0, 3), (1, 2), (5, 6), (4, 7)],
      [(0, 4), (1, 5), (2, 6), (3, 7)]] := by decide

/-- **T_C06_grading.** The grading of a hex entry carries the gradings of the operation's wires in
    blockMesh's order: `edgeGrading` lists the (opaque) gradings of the wires 0-1, 3-2, 7-6, 4-5, 0-3,
    1-2, 5-6, 4-7, 0-4, 1-5, 2-6, 3-7; `simpleGrading` those of 0-1, 0-3, 0-4. -/
theorem T_C06_grading (o : OpDecl) :
    gradingOf o =
      if o.simple then ("simpleGrading", wireGradingOf o 0 1 ++ wireGradingOf o 0 3 ++ wireGradingOf o 0 4)
      else ("edgeGrading",
        wireGradingOf o 0 1 ++ wireGradingOf o 3 2 ++ wireGradingOf o 7 6 ++ wireGradingOf o 4 5 ++
        wireGradingOf o 0 3 ++ wireGradingOf o 1 2 ++ wireGradingOf o 5 6 ++ wireGradingOf o 4 7 ++
        wireGradingOf o 0 4 ++ wireGradingOf o 1 5 ++ wireGradingOf o 2 6 ++ wireGradingOf o 3 7) := by
  unfold gradingOf
  split <;> simp [CBV.Gen.axisPairs]

/-- **T_C06_vertices.** The vertices section lists the vertices of the C05 model in order; entry
    `i` carries the comment `// i`, the `%.8f` strings of the position and the projection labels of
    the corner that created the vertex. -/
theorem T_C06_vertices (decl : Decl) :
    (assembleDecl decl).vertices.length = (declVA decl).1.vertices.length ∧
    ∀ (i : Nat) (v : C05.Vertex Corner), (declVA decl).1.vertices[i]? = some v →
      v.index = i ∧
      (assembleDecl decl).vertices[i]? = some ⟨v.pos.coords, v.pos.proj, "// " ++ toString i⟩ := by
  obtain ⟨k1, _⟩ := assemble_winv closeCorner (C05.slavePatches (declMerged decl))
    ((declOps decl).map OpDecl.toC05) (vl := {}) winv_empty
  constructor
  · simp [assembleDecl, dictOf]
  · intro i v hv
    have hi : v.index = i := k1.dense i v hv
    refine ⟨hi, ?_⟩
    show ((declVA decl).1.vertices.map vertexEntry)[i]? = _
    rw [List.getElem?_map, hv]
    simp [vertexEntry, hi]

/-- **T_C06_hex_corners.** (closeness an equivalence on the corners that occur, as in C05) corner `c`
    of hex entry `k` is the number of a listed vertex that lies at corner `c` of operation `k`. -/
theorem T_C06_hex_corners {S : Corner → Prop} (hc : C05.CloseEquivOn closeCorner S) (decl : Decl)
    (hS : ∀ o ∈ declOps decl, ∀ p ∈ o.corners, S p)
    (k c : Nat) (o : OpDecl) (p : Corner) (ho : (declOps decl)[k]? = some o) (hp : o.corners[c]? = some p) :
    ∃ v, C05.vertexAt (declVA decl).2 k c = some v ∧ closeCorner p v.pos = true ∧
      (declVA decl).1.vertices[v.index]? = some v := by
  have hS' : ∀ op ∈ (declOps decl).map OpDecl.toC05, ∀ q ∈ op.pts, S q := by
    intro op hop q hq
    rw [List.mem_map] at hop
    obtain ⟨o', ho', rfl⟩ := hop
    exact hS o' ho' q hq
  have ho' : ((declOps decl).map OpDecl.toC05)[k]? = some o.toC05 := by rw [List.getElem?_map, ho]; rfl
  have hp' : o.toC05.pts[c]? = some p := hp
  obtain ⟨v, hv⟩ := C05.vertexAt_total closeCorner hc (C05.slavePatches (declMerged decl)) _ hS' k c _ p ho' hp'
  have hpos := C05.vertexAt_position closeCorner hc (C05.slavePatches (declMerged decl)) _ hS' k c _ p v ho' hp' hv
  refine ⟨v, hv, hpos, ?_⟩
  obtain ⟨hi, _⟩ := C05.assemble_spec closeCorner hc (C05.slavePatches (declMerged decl)) _
    (C05.inv_empty closeCorner S) hS'
  obtain ⟨d, hd, hdv, _⟩ := C05.placed_of_vertexAt closeCorner hc (C05.slavePatches (declMerged decl)) _ hS' ho' hp' hv
  obtain ⟨j, hj⟩ := List.mem_iff_getElem?.mp hd
  have hidx := hi.dense j d hj
  have : (declVA decl).1.vertices[j]? = some d.vertex := by
    show (C05.assemble closeCorner _ {} _).1.vertices[j]? = _
    rw [← hi.reg, List.getElem?_map, hj]; rfl
  rw [← hdv, hidx]
  exact this

/-- **T_C06_indices.** Every index in the written dictionary (hex corners, edge ends, projected quads,
    patch quads) refers to an existing vertex, for every declaration whose operations have 8 corners. -/
theorem T_C06_indices (decl : Decl) (h8 : ∀ o ∈ declOps decl, o.corners.length = 8) :
    indicesOk (assembleDecl decl) = true :=
  indicesOk_dictOf decl _ _ (declOb_bound decl h8)

/-- **T_C06_quads.** Every boundary quad and every projected quad is `FACE_MAP[side]` (generated
    table) of the vertex list of some hex entry — for every declaration. -/
theorem T_C06_quads (decl : Decl) : quadsOk (assembleDecl decl) = true := quadsOk_dictOf decl _ _

/-- the generated `FACE_MAP` lists, for every orient, the four corners of that side of the
    blockMesh hexahedron (corner `c` has coordinates `(c%4 ∈ {1,2}, c%4 ∈ {2,3}, c ≥ 4)`) -/
def bmOnSide (side : String) (c : Nat) : Bool :=
  let x := c % 4 == 1 || c % 4 == 2
  let y := c % 4 == 2 || c % 4 == 3
  let z := decide (c ≥ 4)
  if side = "bottom" then !z else if side = "top" then z else if side = "left" then !x
  else if side = "right" then x else if side = "front" then !y else if side = "back" then y else false

theorem T_C06_facemap :
    orients = ["bottom", "top", "front", "right", "back", "left"] ∧
    ∀ o ∈ orients, ∃ e ∈ CBV.Gen.faceMap, e.1 = o ∧ e.2.length = 4 ∧ e.2.Nodup ∧
      ∀ c ∈ List.range 8, (decide (c ∈ e.2)) = bmOnSide o c := by decide

/-- **T_C06_patches (nothing else).** Every quad listed under patch `n` is the side `orient` of a
    block whose operation assigned `n` to that side; every patch name was declared by `set_patch`
    or `modify_patch`. -/
theorem T_C06_patches_sound (decl : Decl) :
    (∀ p ∈ (assembleDecl decl).patches, ∀ q ∈ p.quads,
      ∃ x ∈ declOb decl, ∃ orient, x.1.patchAt orient p.name ∧ q = quadOf x.2 orient) ∧
    (∀ p ∈ (assembleDecl decl).patches,
      (∃ m ∈ decl.modifyBefore ++ decl.modifyAfter, m.name = p.name) ∨
      (∃ x ∈ declOb decl, ∃ orient, x.1.patchAt orient p.name)) := by
  constructor
  · exact patchesOf_pqn (fun n q => ∃ x ∈ declOb decl, ∃ orient, x.1.patchAt orient n ∧ q = quadOf x.2 orient)
      decl _ (fun x hx orient name h => ⟨x, hx, orient, h, rfl⟩)
  · exact patchesOf_names (fun n => (∃ m ∈ decl.modifyBefore ++ decl.modifyAfter, m.name = n) ∨
        (∃ x ∈ declOb decl, ∃ orient, x.1.patchAt orient n)) decl _
      (fun m hm => Or.inl ⟨m, List.mem_append_left _ hm, rfl⟩)
      (fun m hm => Or.inl ⟨m, List.mem_append_right _ hm, rfl⟩)
      (fun x hx orient name h => Or.inr ⟨x, hx, orient, h⟩)

/-- **T_C06_patches (everything declared).** If an operation assigns patch `n` to a side, the
    boundary has an entry `n` that lists a quad with exactly the vertices of that side (the code
    drops a second quad with the same vertex set). -/
theorem T_C06_patches_complete (decl : Decl) (x : OpDecl × List Nat) (hx : x ∈ declOb decl)
    (orient name : String) (h : x.1.patchAt orient name) :
    ∃ p ∈ (assembleDecl decl).patches, p.name = name ∧ ∃ q ∈ p.quads, sameSet q (quadOf x.2 orient) = true :=
  patchesOf_has decl _ hx h

/-- **T_C06_faces.** The `faces` section: every entry is a declared projection of a side (with its
    label); every declared projection is listed up to vertex set. -/
theorem T_C06_faces (decl : Decl) :
    (∀ f ∈ (assembleDecl decl).faces, ∃ x ∈ declOb decl, ∃ orient, x.1.projAt orient f.label ∧ f.quad = quadOf x.2 orient) ∧
    (∀ x ∈ declOb decl, ∀ orient label, x.1.projAt orient label →
      ∃ f ∈ (assembleDecl decl).faces, sameSet f.quad (quadOf x.2 orient) = true) := by
  constructor
  · exact facesOf_fql (fun q l => ∃ x ∈ declOb decl, ∃ orient, x.1.projAt orient l ∧ q = quadOf x.2 orient) _
      (fun x hx orient label h => ⟨x, hx, orient, h, rfl⟩)
  · intro x hx orient label h
    exact facesOf_has _ hx h

/-- **T_C06_geometry.** If every label that a non-deleted operation is projected to (sides, faces,
    edges, corners) is the name of a geometry declared by the user or brought by an entity of the
    depot, then every label used by a `project` entry of the written dictionary is defined in its
    geometry section.  (The premise is what the copied `Hemisphere` violated before the repair.) -/
theorem T_C06_geometry (decl : Decl) (h : ∀ o ∈ declOps decl, ∀ l ∈ o.labels, l ∈ declGeomNames decl) :
    geometryOk (assembleDecl decl) = true :=
  geometryOk_dictOf decl _ (fun _ hx => (List.of_mem_zip hx).1) h

/-- the geometry section contains exactly entries that were declared (name and properties) -/
theorem T_C06_geometry_sound (decl : Decl) :
    ∀ g ∈ (assembleDecl decl).geometry, g ∈ decl.geomBefore ++ decl.depot.flatMap (·.geometry) ++ decl.geomAfter :=
  declGeometry_all (fun g => g ∈ decl.geomBefore ++ decl.depot.flatMap (·.geometry) ++ decl.geomAfter) decl
    (fun g hg => List.mem_append_left _ (List.mem_append_left _ hg))
    (fun g hg => List.mem_append_left _ (List.mem_append_right _ hg))
    (fun g hg => List.mem_append_right _ hg)

/-- **T_C06_geometry_complete.** If all declared geometry names (user's and those brought by the entities
    of the depot) are different, the geometry section is exactly the list of declared entries, each with
    its own properties, in declaration order — also after re-assembly.  (Two shapes that bring the
    *same* name with different spheres violate the premise: one definition overwrites the other.) -/
theorem T_C06_geometry_complete (decl : Decl) (h : ((declGeomAll decl).map (·.name)).Nodup) :
    (assembleDecl decl).geometry = declGeomAll decl := declGeometry_nodup decl h

/-- **T_C06_reassembly.** Clearing and assembling again (`clear()` + `assemble()`, `backport()`) before
    writing gives the same dictionary as the first assembly when nothing was merged in between and
    the geometry names are distinct: no list keeps anything of the first assembly. -/
theorem T_C06_reassembly (decl : Decl) (hm : decl.mergedAfter = [])
    (h : ((declGeomAll decl).map (·.name)).Nodup) :
    assembleDecl { decl with reassembled := true } = assembleDecl { decl with reassembled := false } := by
  have g1 := declGeometry_nodup { decl with reassembled := true } h
  have g2 := declGeometry_nodup { decl with reassembled := false } h
  have hM : declMerged { decl with reassembled := true } = declMerged { decl with reassembled := false } := by
    simp [declMerged, hm]
  unfold assembleDecl dictOf declVA
  simp only [hM, g1, g2]
  rfl

/-- an operation projected to a label that nothing defines (the copied sphere of the unrepaired
    library: the operations keep the label of the original, the geometry is named after the copy) -/
def orphanOp : OpDecl :=
  { deleted := false,
    corners := (List.range 8).map (fun i => ⟨⟨i, 0, 0⟩, [false, false, false], ["0", "0", "0"], []⟩),
    patches := [none, none, none, none, none, none], sideProj := [none, some "sphere_old", none, none],
    bottomProj := none, topProj := none, zone := "", counts := [], simple := true, wireGrading := [],
    edges := [] }

def orphanDecl : Decl :=
  { sampleDecl with depot := [⟨[orphanOp], [⟨"sphere_new", []⟩]⟩] }

example : geometryOk (assembleDecl orphanDecl) = false := by decide +kernel

example : geometryOk (assembleDecl { orphanDecl with geomAfter := [⟨"sphere_old", []⟩] }) = true := by decide +kernel

/-- **T_C06_merged.** `defaultPatch` and `mergePatchPairs` are exactly what was declared. -/
theorem T_C06_merged (decl : Decl) :
    (assembleDecl decl).default = decl.default ∧
    (assembleDecl decl).merged = decl.mergedBefore ++ decl.mergedAfter ∧
    (assembleDecl decl).settings = decl.settings := ⟨rfl, rfl, rfl⟩

/-- **T_C06_edge_order / T_C06_vtk_header.** (`decide`, probes of the current source) `EdgeList.add_from_operation` walks
    the beams in the order and direction the model's `addEdges` assumes; `write_vtk` prints the header words the model's
    `renderVtk` is given. -/
theorem T_C06_edge_order : CBV.Gen.c06EdgeOrder = edgeOrder := by decide

theorem T_C06_vtk_header : CBV.Gen.c06VtkHeader = vtkHeader := by decide

/-! ### printed numbers -/

/-- **T_C06_round8.** The integer whose digits `fmt8` prints is a nearest integer to `|q|·10⁸`: the
    printed coordinate differs from the point by at most half a unit of the 8th decimal. -/
theorem T_C06_round8 (q : Rat) :
    ((round8 q : Nat) : Rat) - (if q < 0 then -q else q) * ((pow10 8 : Nat) : Rat) ≤ 1 / 2 ∧
    (if q < 0 then -q else q) * ((pow10 8 : Nat) : Rat) - ((round8 q : Nat) : Rat) ≤ 1 / 2 :=
  roundK_spec 8 q

/-- ties go to the even neighbour: `1/512 = 0.001953125` prints as `0.00195312` -/
example : round8 (1 / 512) = 195312 ∧ round8 (3 / 512) = 585938 ∧ round8 (-1 / 3) = 33333333 := by
  decide +kernel

/-- **T_C06_vector_format.** (`decide`, regenerated from the ast of the current source) `constants.vector_format`
    is the f-string `({v[0]:.8f} {v[1]:.8f} {v[2]:.8f})`: components 0, 1, 2 in this order, each with format
    `.8f` — exactly what the model's `vectorFormat` (used for every vertex line and every point of a curved
    edge) says. -/
theorem T_C06_vector_format :
    CBV.Gen.c06VectorFormat = vectorFormatSource ∧ vectorFormat = [(0, 8), (1, 8), (2, 8)] := by decide +kernel

/-- **T_C06_fmt_parse.** The text of a number reads back: for every rational `q` (the exact value of the
    float), sign bit and number of decimals `k ≥ 1`, the characters `%.kf` prints denote exactly
    `± round(|q|·10^k) / 10^k` (digit printing and zero padding included). -/
theorem T_C06_fmt_parse (k : Nat) (hk : 0 < k) (neg : Bool) (q : Rat) :
    decValue (fmtFixed k neg q).toList =
      some ((if neg then -1 else 1) * (((roundK k q : Nat) : Rat) / ((pow10 k : Nat) : Rat))) := by
  rw [fmtFixed, String.toList_ofList]; exact decValue_fmtFixedChars k hk neg q

/-- **T_C06_fmt_value.** "to the printed 8 decimals": the number written for `q` (sign bit consistent with
    `q`, as for every float) is a decimal `v` with `|v − q| ≤ ½·10⁻ᵏ` — for all `q`, all `k ≥ 1`. -/
theorem T_C06_fmt_value (k : Nat) (hk : 0 < k) (neg : Bool) (q : Rat) (hs : SignOk neg q) :
    ∃ v, decValue (fmtFixed k neg q).toList = some v ∧
      (v - q) * ((pow10 k : Nat) : Rat) ≤ 1 / 2 ∧ (q - v) * ((pow10 k : Nat) : Rat) ≤ 1 / 2 :=
  ⟨_, T_C06_fmt_parse k hk neg q, signed_round_close k neg q hs⟩

example : SignOk true (-1 / 3) ∧ SignOk false 0 ∧ SignOk true 0 := by
  refine ⟨⟨?_, ?_⟩, ⟨?_, ?_⟩, ⟨?_, ?_⟩⟩ <;> intro h <;> simp_all <;> norm_num

/-- what CPython prints: zero padding, `-0.00000000` for a negative number that rounds to zero and for `-0.0`,
    ties to even, large integer parts -/
example : fmt8 false (1 / 512) = "0.00195312" ∧ fmt8 true (-1 / 1000000000) = "-0.00000000" ∧
    fmt8 true 0 = "-0.00000000" ∧ fmt8 false (8400000000001 / 2) = "4200000000000.50000000" ∧
    fmt8 true (-5 / 4) = "-1.25000000" := by decide +kernel

/-- **T_C06_fmt_wellformed.** Every printed number is a token `[-]d…d.d…d` with at least one digit before the
    point, no superfluous leading zero, and exactly `k` digits after it. -/
theorem T_C06_fmt_wellformed (k : Nat) (hk : 0 < k) (neg : Bool) (q : Rat) :
    isFixedToken k (fmtFixed k neg q).toList = true := by
  rw [fmtFixed, String.toList_ofList]; exact isFixedToken_fmtFixedChars k hk neg q

/-- **T_C06_fmt_separates.** Numbers that are printed as the same text differ by at most one unit of the last
    decimal (so the text determines the number to `10⁻ᵏ`). -/
theorem T_C06_fmt_separates (k : Nat) (hk : 0 < k) (n1 n2 : Bool) (q1 q2 : Rat)
    (h1 : SignOk n1 q1) (h2 : SignOk n2 q2) (h : fmtFixed k n1 q1 = fmtFixed k n2 q2) :
    (q1 - q2) * ((pow10 k : Nat) : Rat) ≤ 1 ∧ (q2 - q1) * ((pow10 k : Nat) : Rat) ≤ 1 :=
  fmtFixedChars_separates k hk n1 n2 q1 q2 h1 h2 (String.ofList_injective h)

/-- **T_C06_vertex_text_distinct.** Two positions that are *not* within the merge tolerance (the regenerated
    `constants.TOL`) of each other are never written as the same `(x y z)`: the 8 decimals of `vector_format`
    resolve everything the vertex merging keeps apart (the source's "keep about the same order of magnitude
    than TOL"). -/
theorem T_C06_vertex_text_distinct (p r : V3) (np nr : List Bool)
    (hp : ∀ i, i < 3 → SignOk (np.getD i false) (V3.comp p i))
    (hr : ∀ i, i < 3 → SignOk (nr.getD i false) (V3.comp r i))
    (h : C05.closeV3 p r = false) : vectorTokens p np ≠ vectorTokens r nr := by
  intro he
  rw [vectorTokens_eq_close p r np nr hp hr he] at h
  exact Bool.noConfusion h

/-- … in particular for the vertex entries of the dictionary: corners with sign bits of their own coordinates -/
example : vectorTokens ⟨0, 0, 0⟩ [false, true, false] ≠ vectorTokens ⟨1 / 1000000, 0, 0⟩ [false, false, false] :=
  T_C06_vertex_text_distinct _ _ _ _
    (signOk_vec _ _ _ _ ⟨fun _ => le_refl _, fun _ => le_refl _⟩ ⟨fun _ => le_refl _, fun _ => le_refl _⟩
      ⟨fun _ => le_refl _, fun _ => le_refl _⟩)
    (signOk_vec _ _ _ _ ⟨fun h => Bool.noConfusion h, fun _ => by norm_num⟩ ⟨fun _ => le_refl _, fun _ => le_refl _⟩
      ⟨fun _ => le_refl _, fun _ => le_refl _⟩)
    (by decide +kernel)

/-- **T_C06_payload.** What a curved edge prints between its brackets: an arc the three `%.8f` numbers of its
    third point, a spline / polyLine one `(x y z)` group per point of its point array, in order. -/
theorem T_C06_payload (p : NumV3) (ps : List NumV3) :
    (Payload.point p).trees = [.paren ((vectorTokens p.pos p.neg).map .atom)] ∧
    (Payload.points ps).trees = [.paren (ps.map (fun q => .paren ((vectorTokens q.pos q.neg).map .atom)))] ∧
    (vectorTokens p.pos p.neg).length = 3 ∧
    ∀ s ∈ vectorTokens p.pos p.neg, isFixedToken 8 s.toList = true := by
  refine ⟨rfl, rfl, rfl, ?_⟩
  intro s hs
  simp only [vectorTokens, vectorFormat, List.map_cons, List.map_nil, List.mem_cons, List.not_mem_nil, or_false] at hs
  rcases hs with rfl | rfl | rfl <;> exact T_C06_fmt_wellformed 8 (by decide) _ _

/-- **T_C06_sphere_geometry.** The geometry entry a sphere shape brings: `origin` and `centre` are the same `vector_format` of the
    centre — three well-formed `%.8f` tokens — and the radius is `str(radius)`. -/
theorem T_C06_sphere_geometry (label : String) (c : NumV3) (r : PyNum) :
    (sphereGeometry label c r).name = label ∧
    (sphereGeometry label c r).props =
      [[.atom "type", .atom "searchableSphere"], [.atom "origin", .paren ((vectorTokens c.pos c.neg).map .atom)],
       [.atom "centre", .paren ((vectorTokens c.pos c.neg).map .atom)], [.atom "radius", .atom r.str]] ∧
    ∀ s ∈ vectorTokens c.pos c.neg, isFixedToken 8 s.toList = true :=
  ⟨rfl, rfl, (T_C06_payload c []).2.2.2⟩

/-! ### `str(float)`: grading values and VTK coordinates -/

/-- **T_C06_repr_value.** A token accepted by the validator `reprOk` for the double `x ≠ 0` denotes a rational within
    half an ulp of `x` (so it reads back to `x` and to no other double's interior). The model prints every grading
    value and every VTK coordinate with `pyRepr` and checks `reprOk` (and `reprShortest`) on its own output at run time
    (flag `num=` of `c06.render` / `c06.vtk`); the file must carry the same tokens. -/
theorem T_C06_repr_value (neg : Bool) (x : Rat) (hx : x ≠ 0) (cs : List Char) (h : reprOk neg x cs = true) :
    ∃ q, floatValue cs = some q ∧ q - x ≤ halfUlp x ∧ x - q ≤ halfUlp x := reprOk_sound neg x hx cs h

/-- **T_C06_repr_relative.** For a dyadic `x ≠ 0` (every double is one) half an ulp is at most `|x|·2⁻⁵³`: an accepted
    token is accurate to a relative `2⁻⁵³`. -/
theorem T_C06_repr_relative (neg : Bool) (x : Rat) (hx : x ≠ 0) (hd : x.den = 2 ^ Nat.log2 x.den) (cs : List Char)
    (h : reprOk neg x cs = true) :
    ∃ q, floatValue cs = some q ∧ (q - x) * ((2 ^ 53 : Nat) : Rat) ≤ absR x ∧ (x - q) * ((2 ^ 53 : Nat) : Rat) ≤ absR x := by
  obtain ⟨q, hq, h1, h2⟩ := reprOk_sound neg x hx cs h
  have hu := halfUlp_le x hx hd
  have hp : (0 : Rat) < ((2 ^ 53 : Nat) : Rat) := by positivity
  exact ⟨q, hq, by nlinarith, by nlinarith⟩

/-- the double nearest to 0.1 is `3602879701896397 / 2^55`: `0.1` is accepted, the 17-digit decimal of the next double
    is not, a token of another sign is not -/
def tenth : Rat := 3602879701896397 / 36028797018963968

example : tenth ≠ 0 ∧ tenth.den = 2 ^ Nat.log2 tenth.den ∧ reprOk false tenth "0.1".toList = true ∧
    reprOk false tenth "0.10000000000000002".toList = false ∧ reprOk false tenth "-0.1".toList = false ∧
    reprOk false tenth "1e-01".toList = true := by decide +kernel

/-- what the generator prints (compared with the implementation on every case): shortest digits and Python's notation -/
example : pyRepr false tenth = "0.1" ∧ pyRepr false 27 = "27.0" ∧ pyRepr false (1 / 100000) = "1e-05" ∧
    pyRepr false 10000000000000000 = "1e+16" ∧ pyRepr true (-(3 / 2)) = "-1.5" ∧
    pyRepr false (5224175567749775 / 4503599627370496) = "1.16" ∧ floatTextOk false tenth = true := by decide +kernel

/- Full statement (not proved): for every double `x` (53-bit dyadic, normal range) and its sign bit `neg`,
   `reprOk neg x (pyReprChars neg x) = true`.  Proved below: the *decimal* the generator chooses.  Missing:
   (a) the hypothesis of the theorem — `shortestFrom … 17 1` finds a candidate — is the binary64 spacing fact that the correctly
       rounded 17-digit decimal of a double lies within half an ulp of it (10^(dp−17)/2 < 2^(⌊log2 x⌋−53) fails for no normal double);
   (b) `floatValue (reprLayout (Nat.toDigits 10 m') (|digits| + e')) = some (m'·10^e')` for the four layouts (fixed with leading
       zeros, integer with `.0`, fixed with an inner point, exponent form).  Both are checked at run time on every printed number
       (`num=` flag: `floatTextOk`). -/

/-- **T_C06_repr_generated_partial.** Whenever the digit search of `pyRepr` finds a candidate `(m, e)` for `x`, the decimal it prints
    — `m'·10^e'` after stripping trailing zeros — is the same number, lies in the rounding interval of `|x|` (so it reads back to
    `x`, within half an ulp), and no correctly rounded decimal with fewer significant digits (from 1 digit on) lies in it:
    the generator prints a *shortest* decimal that rounds to `x`. -/
theorem T_C06_repr_generated_partial (x : Rat) (m : Nat) (e : Int)
    (h : shortestFrom x (absR x) (decPoint (absR x)) 17 1 = some (m, e)) :
    let me := stripZeros 20 m e
    let q := ((me.1 : Nat) : Rat) * pow10R me.2
    q = ((m : Nat) : Rat) * pow10R e ∧
    inRound (absR x) q = true ∧
    (q - absR x ≤ halfUlp (absR x) ∧ absR x - q ≤ halfUlp (absR x)) ∧
    ∃ k : Nat, 1 ≤ k ∧ k ≤ 17 ∧ e = -((k : Int) - decPoint (absR x)) ∧
      ∀ j : Nat, 1 ≤ j → j < k →
        inRound (absR x) (((roundHalfEven (absR x * pow10R ((j : Int) - decPoint (absR x))) : Nat) : Rat) *
          pow10R (-((j : Int) - decPoint (absR x)))) = false := by
  intro me q
  have hv : q = ((m : Nat) : Rat) * pow10R e := stripZeros_value 20 m e
  have hin : inRound (absR x) q = true := by rw [hv]; exact shortestFrom_sound x (absR x) _ 17 1 m e h
  obtain ⟨k, hk1, hk2, he, _, hall⟩ := shortestFrom_first x (absR x) _ 17 1 m e h
  exact ⟨hv, hin, inRound_close _ _ hin, k, hk1, by omega, he, hall⟩

/-- the hypothesis holds, e.g., for the double nearest to 0.1 (one digit suffices) and for 1.16 (three digits) -/
example : shortestFrom tenth (absR tenth) (decPoint (absR tenth)) 17 1 = some (1, -1) ∧
    shortestFrom (5224175567749775 / 4503599627370496) (absR (5224175567749775 / 4503599627370496))
      (decPoint (absR (5224175567749775 / 4503599627370496))) 17 1 = some (116, -2) := by decide +kernel

/-- **T_C06_repr_accepted_fixed_partial.** The text `pyRepr` prints for a positive double is accepted by the validator `reprOk`
    — so by `T_C06_repr_value` it denotes a value within half an ulp — whenever (i) the digit search finds a candidate (the single
    arithmetic fact left open: for a normal binary64 `x` the correctly rounded 17-digit decimal lies in the rounding interval,
    `10^(dp−17)/2 < 2^(⌊log2 x⌋−53)`) and (ii) the decimal point position is in Python's fixed-notation range `-4 < dp ≤ 16`
    (all three fixed layouts `0.00ddd`, `ddd00.0`, `dd.ddd` are read back: `floatValue_reprLayout_fixed`).
    Full statement (not proved): the same without (i), for negative doubles (a leading `-`) and for the exponent layouts. -/
theorem T_C06_repr_accepted_fixed_partial (x : Rat) (hx : 0 < x) (m : Nat) (e : Int)
    (h : shortestFrom x (absR x) (decPoint (absR x)) 17 1 = some (m, e))
    (h1 : -4 < ((Nat.toDigits 10 (stripZeros 20 m e).1).length : Int) + (stripZeros 20 m e).2)
    (h2 : ((Nat.toDigits 10 (stripZeros 20 m e).1).length : Int) + (stripZeros 20 m e).2 ≤ 16) :
    reprOk false x (pyReprChars false x) = true := reprOk_pyReprChars_fixed x hx m e h h1 h2

/-- the hypotheses hold for the double nearest to 0.1 (layout `0.1`) and for 1.16 (layout `1.16`) -/
example : reprOk false tenth (pyReprChars false tenth) = true :=
  T_C06_repr_accepted_fixed_partial tenth (by unfold tenth; norm_num) 1 (-1) (by decide +kernel) (by decide +kernel)
    (by decide +kernel)

example : reprOk false (5224175567749775 / 4503599627370496) (pyReprChars false (5224175567749775 / 4503599627370496)) = true :=
  T_C06_repr_accepted_fixed_partial _ (by norm_num) 116 (-2) (by decide +kernel) (by decide +kernel) (by decide +kernel)

/-- **T_C06_repr_spacing.** binary64 spacing (`10¹⁶ > 2⁵³`): for every positive dyadic `ax` and every `dp` with `10^(dp−1) ≤ ax`
    (the decimal point position), the correctly rounded 17-digit decimal of `ax` lies in the rounding interval of `ax` — also just
    below a power of two, where the interval is half as wide. -/
theorem T_C06_repr_spacing (ax : Rat) (hpos : 0 < ax) (hd : ax.den = 2 ^ Nat.log2 ax.den) (dp : Int)
    (hdp : pow10R (dp - 1) ≤ ax) :
    inRound ax (((roundHalfEven (ax * pow10R ((17 : Int) - dp)) : Nat) : Rat) * pow10R (-((17 : Int) - dp))) = true :=
  candidate17_inRound ax hpos hd dp hdp

/-- **T_C06_repr_accepted_fixed.** For every positive dyadic `x` (every positive double is one) whose decimal point position
    satisfies its defining inequality `10^(dp−1) ≤ x` (proved for `1 ≤ x`: `decPoint_spec_ge_one`; for `x < 1` it is what the
    leading-zero count computes), the digit search of `pyRepr` returns a candidate, and if the printed digits fall in Python's
    fixed-notation range the printed text is accepted by the validator: no "search succeeds" hypothesis any more. -/
theorem T_C06_repr_accepted_fixed (x : Rat) (hx : 0 < x) (hd : x.den = 2 ^ Nat.log2 x.den)
    (hdp : pow10R (decPoint (absR x) - 1) ≤ x) :
    ∃ m e, shortestFrom x (absR x) (decPoint (absR x)) 17 1 = some (m, e) ∧
      (-4 < ((Nat.toDigits 10 (stripZeros 20 m e).1).length : Int) + (stripZeros 20 m e).2 →
       ((Nat.toDigits 10 (stripZeros 20 m e).1).length : Int) + (stripZeros 20 m e).2 ≤ 16 →
       reprOk false x (pyReprChars false x) = true) := by
  have habs : absR x = x := by unfold absR; simp [not_lt.mpr hx.le]
  have h17 := candidate17_inRound x hx hd (decPoint (absR x)) hdp
  obtain ⟨⟨m, e⟩, hr⟩ := shortestFrom_some x (absR x) (decPoint (absR x)) 17 1
    ⟨17, by omega, by omega, by rw [habs] at h17 ⊢; exact_mod_cast h17⟩
  exact ⟨m, e, hr, fun h1 h2 => reprOk_pyReprChars_fixed x hx m e hr h1 h2⟩

/-- for `1 ≤ x` nothing but "positive double" is assumed -/
theorem T_C06_repr_accepted_fixed_ge_one (x : Rat) (hx : 1 ≤ x) (hd : x.den = 2 ^ Nat.log2 x.den) :
    ∃ m e, shortestFrom x (absR x) (decPoint (absR x)) 17 1 = some (m, e) ∧
      (-4 < ((Nat.toDigits 10 (stripZeros 20 m e).1).length : Int) + (stripZeros 20 m e).2 →
       ((Nat.toDigits 10 (stripZeros 20 m e).1).length : Int) + (stripZeros 20 m e).2 ≤ 16 →
       reprOk false x (pyReprChars false x) = true) := by
  have hpos : 0 < x := by linarith
  have habs : absR x = x := by unfold absR; simp [not_lt.mpr hpos.le]
  exact T_C06_repr_accepted_fixed x hpos hd (by rw [habs]; exact decPoint_spec_ge_one x hx)

/-- the hypotheses are satisfiable: 1.16 (a double ≥ 1) and the double nearest to 0.1 (`10^(dp−1) ≤ x` by evaluation) -/
example : True := by
  have _h1 := T_C06_repr_accepted_fixed_ge_one (5224175567749775 / 4503599627370496) (by norm_num) (by decide +kernel)
  have _h2 := T_C06_repr_accepted_fixed tenth (by unfold tenth; norm_num) (by decide +kernel) (by decide +kernel)
  trivial

/-- **T_C06_float_neg_partial.** A leading `-` negates the value the token reader assigns: for every token `cs` that does not itself
    begin with `-` and whose leading digits are followed by a decimal point (all of Python's `repr` forms except `de±XX`),
    `floatValue ('-' :: cs) = -(floatValue cs)`. With `T_C06_repr_layout_fixed` the fixed-notation text of a negative double reads
    back to the negated decimal. Full statement (not proved): `reprOk true x (pyReprChars true x) = true` for negative doubles —
    missing: the assembly with the sign check of `reprOk` and the no-point exponent form. -/
theorem T_C06_float_neg_partial (cs : List Char) (h : (cs.head? == some '-') = false)
    (hdot : (cs.dropWhile Char.isDigit).head? = some '.') :
    floatValue ('-' :: cs) = (floatValue cs).map (fun q => -q) := floatValue_neg_partial cs h hdot

example : floatValue "-1.16".toList = (floatValue "1.16".toList).map (fun q => -q) :=
  T_C06_float_neg_partial "1.16".toList (by decide) (by decide)

/-- **T_C06_repr_accepted_fixed_neg.** Negative doubles: for every dyadic `x ≤ −1` the digit search on `|x|` returns a candidate and,
    if the stripped digits fall in the fixed-notation range, the text `pyRepr` prints (a `-` followed by the layout of `|x|`) is
    accepted by the validator `reprOk true x` — the sign test, the negated value (`T_C06_float_neg_partial`) and the symmetry of the
    rounding interval (`inRound_neg_of_pos`) included. With `T_C06_repr_accepted_fixed_ge_one` the generated text is accepted for
    fixed-notation doubles of either sign with `|x| ≥ 1`. -/
theorem T_C06_repr_accepted_fixed_neg (x : Rat) (hx : x ≤ -1) (hd : x.den = 2 ^ Nat.log2 x.den) :
    ∃ m e, shortestFrom x (absR x) (decPoint (absR x)) 17 1 = some (m, e) ∧
      (-4 < ((Nat.toDigits 10 (stripZeros 20 m e).1).length : Int) + (stripZeros 20 m e).2 →
       ((Nat.toDigits 10 (stripZeros 20 m e).1).length : Int) + (stripZeros 20 m e).2 ≤ 16 →
       reprOk true x (pyReprChars true x) = true) := by
  have hneg : x < 0 := by linarith
  have habs : absR x = -x := by unfold absR; simp [hneg]
  have hpos : 0 < -x := by linarith
  have hxd : (-x).den = 2 ^ Nat.log2 (-x).den := by simpa [Rat.neg_den] using hd
  have h17 := candidate17_inRound (-x) hpos hxd (decPoint (-x)) (decPoint_spec_ge_one (-x) (by linarith))
  obtain ⟨⟨m, e⟩, hr⟩ := shortestFrom_some x (absR x) (decPoint (absR x)) 17 1
    ⟨17, by omega, by omega, by rw [habs]; exact_mod_cast h17⟩
  exact ⟨m, e, hr, fun h1 h2 => reprOk_pyReprChars_fixed_neg x hneg hd m e hr h1 h2⟩

/-- −1.16: the hypotheses hold, and the printed text `-1.16` is accepted -/
example : reprOk true (-(5224175567749775 / 4503599627370496)) (pyReprChars true (-(5224175567749775 / 4503599627370496))) = true :=
  reprOk_pyReprChars_fixed_neg _ (by norm_num) (by decide +kernel) 116 (-2) (by decide +kernel) (by decide +kernel)
    (by decide +kernel)

example : True := by
  have _h := T_C06_repr_accepted_fixed_neg (-(5224175567749775 / 4503599627370496)) (by norm_num) (by decide +kernel)
  trivial

/-- **T_C06_repr_layout_fixed.** Reading the fixed-notation layouts back: for any digits `ds` (value `M`) and decimal point position
    `-4 < dp ≤ 16`, `floatValue (reprLayout ds dp) = M · 10^(dp − |ds|)`. -/
theorem T_C06_repr_layout_fixed (ds : List Char) (dp : Int) (hne : ds ≠ []) (hd : ∀ c ∈ ds, c.isDigit = true)
    (h1 : -4 < dp) (h2 : dp ≤ 16) :
    floatValue (reprLayout ds dp) =
      some (((Nat.ofDigitChars 10 ds 0 : Nat) : Rat) * pow10R (dp - (ds.length : Int))) :=
  floatValue_reprLayout_fixed ds dp hne hd h1 h2

example : floatValue (reprLayout "116".toList 1) =
    some (((Nat.ofDigitChars 10 "116".toList 0 : Nat) : Rat) * pow10R (1 - ("116".toList.length : Int))) :=
  T_C06_repr_layout_fixed "116".toList 1 (by decide) (by decide) (by decide) (by decide)

example : reprLayout "116".toList 1 = "1.16".toList ∧ reprLayout "5".toList (-2) = "0.005".toList ∧
    reprLayout "27".toList 4 = "2700.0".toList ∧ Nat.ofDigitChars 10 "116".toList 0 = 116 := by decide

/-! ### the debug VTK -/

/-- **T_C06_vtk.** The VTK token stream reads back to the same points and the same hexahedra, for
    all point lists (3 words each) and cell lists (8 indices each). -/
theorem T_C06_vtk (hdr : List String) (pts : List (List String)) (cells : List (List Nat))
    (hp : ∀ p ∈ pts, p.length = 3) (hc : ∀ c ∈ cells, c.length = 8) :
    parseVtk hdr.length (renderVtk hdr pts cells) = some (pts, cells) :=
  parseVtk_renderVtk hdr pts cells hp hc

example : parseVtk 1 (renderVtk ["#"] [["0", "0", "0"], ["1", "0", "0"]] [[0, 1, 1, 0, 0, 1, 1, 0]]) =
    some ([["0", "0", "0"], ["1", "0", "0"]], [[0, 1, 1, 0, 0, 1, 1, 0]]) :=
  T_C06_vtk ["#"] [["0", "0", "0"], ["1", "0", "0"]] [[0, 1, 1, 0, 0, 1, 1, 0]] (by decide) (by decide)

end CBV.C06
