/- C06 — property theorems.  Stub. -/
import CBV.Model.C06

namespace CBV.C06

end CBV.C06
